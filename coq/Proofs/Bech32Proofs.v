(** Proofs about the Bech32 model [PV.Metadata.Bech32] (C14).

    Main results (all closed under the global context):
    - [convert_bits_roundtrip]      8->5 (padded) then 5->8 (unpadded) is the identity on bytes;
    - [convert_bits_roundtrip_rev]  the converse: an accepted 5-bit form is the canonical one;
    - [checksum_verifies_gen] / [checksum_verifies]
                                    the created checksum verifies (no side conditions needed);
    - [bech32_roundtrip]            DecodeAndConvert (ConvertAndEncode hrp data) = (hrp, data). *)
From Coq Require Import NArith List Bool Lia Arith PeanoNat.
From PV Require Import Metadata.Bech32.
Import ListNotations.

Definition byte_ok (l : list N) : Prop := Forall (fun b => (b < 256)%N) l.
Definition sym_ok (l : list N) : Prop := Forall (fun b => (b < 32)%N) l.

(** * Part 1: ConvertBits *)

(** ** regroup *)
Lemma regroup_short : forall to bits cur,
  (length cur + length bits < to)%nat -> regroup to cur bits = ([], cur ++ bits).
Proof.
  intros to bits; induction bits as [|b r IH]; intros cur Hlen.
  - cbn [regroup]. now rewrite app_nil_r.
  - cbn [regroup]. cbn [length] in Hlen.
    assert (Hne : Nat.eqb (length (cur ++ [b])) to = false).
    { apply Nat.eqb_neq. rewrite app_length. cbn [length]. lia. }
    rewrite Hne. rewrite IH.
    + now rewrite <- app_assoc.
    + rewrite app_length. cbn [length]. lia.
Qed.

Lemma regroup_spec : forall to bits cur gs rest,
  (0 < to)%nat -> (length cur < to)%nat ->
  regroup to cur bits = (gs, rest) ->
  cur ++ bits = concat gs ++ rest /\ Forall (fun g => length g = to) gs /\ (length rest < to)%nat.
Proof.
  intros to bits; induction bits as [|b r IH]; intros cur gs rest Hto Hcur Heq.
  - cbn [regroup] in Heq. inversion Heq; subst. cbn [concat app]. rewrite app_nil_r. auto.
  - cbn [regroup] in Heq.
    destruct (Nat.eqb (length (cur ++ [b])) to) eqn:Hlen.
    + destruct (regroup to [] r) as [gs' rest'] eqn:Hr.
      inversion Heq; subst gs rest.
      apply Nat.eqb_eq in Hlen.
      destruct (IH [] gs' rest' Hto) as (H1 & H2 & H3); [cbn [length]; lia | exact Hr |].
      cbn [app] in H1. split; [|split].
      * cbn [concat]. rewrite <- app_assoc. rewrite <- H1. rewrite <- app_assoc. reflexivity.
      * constructor; assumption.
      * assumption.
    + apply Nat.eqb_neq in Hlen. apply IH in Heq; try assumption.
      * rewrite <- app_assoc in Heq. exact Heq.
      * rewrite app_length in *. cbn [length] in *. lia.
Qed.

Lemma regroup_app_full : forall to x cur bits,
  x <> [] -> length (cur ++ x) = to ->
  regroup to cur (x ++ bits) =
  (let (gs, rest) := regroup to [] bits in ((cur ++ x) :: gs, rest)).
Proof.
  intros to x; induction x as [|a x' IH]; intros cur bits Hne Hlen.
  - congruence.
  - cbn [app regroup].
    destruct x' as [|a' x''].
    + rewrite Hlen, Nat.eqb_refl. reflexivity.
    + assert (Hlt : Nat.eqb (length (cur ++ [a])) to = false).
      { apply Nat.eqb_neq. rewrite app_length in *. cbn [length] in *. lia. }
      rewrite Hlt. rewrite IH.
      * rewrite <- app_assoc. reflexivity.
      * discriminate.
      * rewrite <- app_assoc. exact Hlen.
Qed.

Lemma regroup_concat : forall to gs rest,
  (0 < to)%nat -> Forall (fun g => length g = to) gs -> (length rest < to)%nat ->
  regroup to [] (concat gs ++ rest) = (gs, rest).
Proof.
  intros to gs rest Hto Hgs Hrest. induction Hgs as [|g gs' Hg Hgs' IH].
  - cbn [concat app]. rewrite regroup_short; [reflexivity | cbn [length]; lia].
  - cbn [concat]. rewrite <- app_assoc.
    rewrite regroup_app_full.
    + rewrite IH. reflexivity.
    + intro Hnil; subst g. cbn [length] in Hg. lia.
    + exact Hg.
Qed.

(** ** to_bits / of_bits *)
Lemma of_bits_snoc : forall bs b,
  of_bits (bs ++ [b]) = (2 * of_bits bs + (if b then 1 else 0))%N.
Proof. intros bs b. unfold of_bits. rewrite fold_left_app. reflexivity. Qed.

Lemma to_bits_length : forall k v, length (to_bits k v) = k.
Proof. induction k as [|k IH]; intro v; cbn [to_bits length]; [reflexivity | now rewrite IH]. Qed.

Lemma to_bits_S_div2 : forall k v,
  to_bits (S k) v = to_bits k (N.div2 v) ++ [N.odd v].
Proof.
  induction k as [|k IH]; intro v.
  - cbn [to_bits app]. now rewrite N.bit0_odd.
  - change (to_bits (S (S k)) v) with (N.testbit v (N.of_nat (S k)) :: to_bits (S k) v).
    rewrite IH. change (to_bits (S k) (N.div2 v)) with
      (N.testbit (N.div2 v) (N.of_nat k) :: to_bits k (N.div2 v)).
    cbn [app]. f_equal.
    rewrite N.div2_spec, N.shiftr_spec by apply N.le_0_l.
    f_equal. lia.
Qed.

Lemma of_bits_to_bits : forall k v, (v < 2 ^ N.of_nat k)%N -> of_bits (to_bits k v) = v.
Proof.
  induction k as [|k IH]; intros v Hv.
  - cbn in Hv. cbn [to_bits]. unfold of_bits; cbn [fold_left]. lia.
  - rewrite to_bits_S_div2, of_bits_snoc.
    rewrite IH.
    + rewrite (N.div2_odd v) at 3. unfold N.b2n. reflexivity.
    + rewrite Nat2N.inj_succ, N.pow_succ_r' in Hv.
      rewrite N.div2_div. apply N.div_lt_upper_bound; lia.
Qed.

Lemma div2_double_add : forall x (b : bool), N.div2 (2 * x + (if b then 1 else 0)) = x.
Proof.
  intros x b. rewrite N.div2_div. destruct b.
  - rewrite N.mul_comm, N.div_add_l by lia. cbn. lia.
  - rewrite N.add_0_r, N.mul_comm, N.div_mul by lia. reflexivity.
Qed.

Lemma odd_double_add : forall x (b : bool), N.odd (2 * x + (if b then 1 else 0)) = b.
Proof.
  intros x b. rewrite N.add_comm, N.odd_add_mul_2. now destruct b.
Qed.

Lemma to_bits_of_bits : forall g, to_bits (length g) (of_bits g) = g.
Proof.
  intro g. induction g as [|b g' IH] using rev_ind.
  - reflexivity.
  - rewrite app_length. cbn [length]. rewrite Nat.add_1_r.
    rewrite to_bits_S_div2, of_bits_snoc, div2_double_add, odd_double_add, IH.
    reflexivity.
Qed.

Lemma of_bits_lt : forall g, (of_bits g < 2 ^ N.of_nat (length g))%N.
Proof.
  intro g. induction g as [|b g' IH] using rev_ind.
  - cbn. lia.
  - rewrite app_length. cbn [length]. rewrite Nat.add_1_r, Nat2N.inj_succ, N.pow_succ_r'.
    rewrite of_bits_snoc. destruct b; lia.
Qed.

Lemma of_bits_zeros : forall n, of_bits (repeat false n) = 0%N.
Proof.
  intro n. induction n as [|n IH].
  - reflexivity.
  - change (repeat false (S n)) with ([false] ++ repeat false n).
    unfold of_bits in *. rewrite fold_left_app. exact IH.
Qed.

Lemma of_bits_zero_inv : forall g, of_bits g = 0%N -> g = repeat false (length g).
Proof.
  intro g. induction g as [|b g' IH] using rev_ind; intro H0.
  - reflexivity.
  - rewrite of_bits_snoc in H0. destruct b; [lia|].
    rewrite app_length. cbn [length]. rewrite Nat.add_1_r.
    rewrite IH at 1 by lia.
    change [false] with (repeat false 1). rewrite <- repeat_app. f_equal. lia.
Qed.

Lemma flat_map_to_bits : forall k l,
  flat_map (to_bits k) l = concat (map (to_bits k) l).
Proof. intros k l. apply flat_map_concat_map. Qed.

Lemma map_to_bits_of_bits : forall k gs,
  Forall (fun g => length g = k) gs -> map (to_bits k) (map of_bits gs) = gs.
Proof.
  intros k gs Hgs. induction Hgs as [|g gs' Hg Hgs' IH].
  - reflexivity.
  - cbn [map]. rewrite IH. f_equal. rewrite <- Hg. apply to_bits_of_bits.
Qed.

Lemma map_of_bits_to_bits : forall k l,
  Forall (fun v => (v < 2 ^ N.of_nat k)%N) l -> map of_bits (map (to_bits k) l) = l.
Proof.
  intros k l Hl. induction Hl as [|v l' Hv Hl' IH].
  - reflexivity.
  - cbn [map]. rewrite IH, of_bits_to_bits by assumption. reflexivity.
Qed.

Lemma map_of_bits_lt : forall k gs,
  Forall (fun g => length g = k) gs -> Forall (fun v => (v < 2 ^ N.of_nat k)%N) (map of_bits gs).
Proof.
  intros k gs Hgs. induction Hgs as [|g gs' Hg Hgs' IH]; cbn [map]; constructor.
  - rewrite <- Hg. apply of_bits_lt.
  - exact IH.
Qed.

Lemma Forall_to_bits_length : forall k l, Forall (fun g => length g = k) (map (to_bits k) l).
Proof.
  intros k l. induction l as [|v l' IH]; cbn [map]; constructor.
  - apply to_bits_length.
  - exact IH.
Qed.

(** 5 -> 8 without padding on a list of 5-bit groups whose concatenation is
    [concat (8-bit groups) ++ zeros p], [p <= 4]. *)
Lemma convert_5_8_groups : forall (g5 g8 : list (list bool)) p,
  Forall (fun g => length g = 5%nat) g5 ->
  Forall (fun g => length g = 8%nat) g8 ->
  (p <= 4)%nat ->
  concat g5 = concat g8 ++ repeat false p ->
  convert_bits 5 8 false (map of_bits g5) = Some (map of_bits g8).
Proof.
  intros g5 g8 p H5 H8 Hp Hcat.
  unfold convert_bits. cbn [bits_ok Nat.leb andb negb].
  rewrite flat_map_to_bits, map_to_bits_of_bits by exact H5.
  rewrite Hcat, regroup_concat; [| lia | exact H8 | rewrite repeat_length; lia].
  destruct p as [|p'].
  - reflexivity.
  - cbn [repeat]. change (false :: repeat false p') with (repeat false (S p')).
    rewrite repeat_length, of_bits_zeros.
    assert (Hlt : Nat.ltb 4 (S p') = false) by (apply Nat.ltb_ge; lia).
    rewrite Hlt. reflexivity.
Qed.

Lemma convert_bits_roundtrip : forall data,
  Forall (fun b => (b < 256)%N) data ->
  exists d5, convert_bits 8 5 true data = Some d5 /\
             Forall (fun v => (v < 32)%N) d5 /\
             convert_bits 5 8 false d5 = Some data.
Proof.
  intros data Hdata.
  unfold convert_bits at 1. cbn [bits_ok Nat.leb andb negb].
  rewrite flat_map_to_bits.
  destruct (regroup 5 [] (concat (map (to_bits 8) data))) as [gs rest] eqn:Hrg.
  apply regroup_spec in Hrg; [| lia | cbn [length]; lia].
  destruct Hrg as (Hcat & Hgs & Hrest). cbn [app] in Hcat.
  assert (Hdata' : Forall (fun v => (v < 2 ^ N.of_nat 8)%N) data) by exact Hdata.
  destruct rest as [|b rest'].
  - exists (map of_bits gs). split; [reflexivity|]. split.
    + exact (map_of_bits_lt 5 gs Hgs).
    + rewrite <- (map_of_bits_to_bits 8 data Hdata') at 1.
      apply (convert_5_8_groups gs (map (to_bits 8) data) 0).
      * exact Hgs.
      * apply Forall_to_bits_length.
      * lia.
      * rewrite Hcat. cbn [repeat]. now rewrite !app_nil_r.
  - set (rest := b :: rest') in *.
    set (p := (5 - length rest)%nat).
    assert (Hp : (p <= 4)%nat) by (subst p rest; cbn [length]; lia).
    assert (Hlast : length (rest ++ repeat false p) = 5%nat).
    { rewrite app_length, repeat_length. subst p. lia. }
    assert (Hgs' : Forall (fun g => length g = 5%nat) (gs ++ [rest ++ repeat false p])).
    { apply Forall_app. split; [exact Hgs | constructor; [exact Hlast | constructor]]. }
    exists (map of_bits (gs ++ [rest ++ repeat false p])). split; [|split].
    + rewrite map_app. reflexivity.
    + exact (map_of_bits_lt 5 _ Hgs').
    + rewrite <- (map_of_bits_to_bits 8 data Hdata') at 1.
      apply (convert_5_8_groups _ (map (to_bits 8) data) p).
      * exact Hgs'.
      * apply Forall_to_bits_length.
      * exact Hp.
      * rewrite concat_app. cbn [concat]. rewrite app_nil_r, Hcat, <- app_assoc. reflexivity.
Qed.
Print Assumptions convert_bits_roundtrip.

Lemma length_concat_const : forall (k : nat) (gs : list (list bool)),
  Forall (fun g => length g = k) gs -> length (concat gs) = (k * length gs)%nat.
Proof.
  intros k gs Hgs. induction Hgs as [|g gs' Hg Hgs' IH].
  - cbn [concat length]. lia.
  - cbn [concat length]. rewrite app_length, IH, Hg, Nat.mul_succ_r. lia.
Qed.


(** ** the converse: the 5-bit form of a byte string is canonical *)
Lemma concat_groups_inj : forall (k : nat) (A B : list (list bool)),
  (0 < k)%nat ->
  Forall (fun g => length g = k) A -> Forall (fun g => length g = k) B ->
  concat A = concat B -> A = B.
Proof.
  intros k A B Hk HA HB Hcat.
  pose proof (regroup_concat k A [] Hk HA) as H1.
  pose proof (regroup_concat k B [] Hk HB) as H2.
  cbn [length] in H1, H2. specialize (H1 Hk). specialize (H2 Hk).
  rewrite Hcat, H2 in H1. now inversion H1.
Qed.

Lemma convert_bits_roundtrip_rev : forall d5 data,
  Forall (fun v => (v < 32)%N) d5 ->
  convert_bits 5 8 false d5 = Some data ->
  convert_bits 8 5 true data = Some d5 /\ Forall (fun b => (b < 256)%N) data.
Proof.
  intros d5 data Hd5 Hconv.
  assert (Hd5' : Forall (fun v => (v < 2 ^ N.of_nat 5)%N) d5) by exact Hd5.
  unfold convert_bits in Hconv. cbn [bits_ok Nat.leb andb negb] in Hconv.
  rewrite flat_map_to_bits in Hconv.
  destruct (regroup 8 [] (concat (map (to_bits 5) d5))) as [g8 rest] eqn:Hrg.
  apply regroup_spec in Hrg; [| lia | cbn [length]; lia].
  destruct Hrg as (Hcat & Hg8 & Hrest). cbn [app] in Hcat.
  assert (Hex : exists p, (p <= 4)%nat /\ rest = repeat false p /\ data = map of_bits g8).
  { destruct rest as [|b rest'].
    - exists 0%nat. inversion Hconv. repeat split. lia.
    - destruct (Nat.ltb 4 (length (b :: rest'))) eqn:Hlt; [discriminate|].
      destruct (N.eqb (of_bits (b :: rest')) 0) eqn:Hz; [| discriminate].
      cbn [orb negb] in Hconv. inversion Hconv.
      apply Nat.ltb_ge in Hlt. apply N.eqb_eq in Hz.
      exists (length (b :: rest')). split; [exact Hlt|]. split; [| reflexivity].
      now apply of_bits_zero_inv. }
  clear Hconv. destruct Hex as (p & Hp & -> & ->).
  split; [| exact (map_of_bits_lt 8 g8 Hg8)].
  unfold convert_bits. cbn [bits_ok Nat.leb andb negb].
  rewrite flat_map_to_bits, (map_to_bits_of_bits 8 g8 Hg8).
  destruct (regroup 5 [] (concat g8)) as [g5 r5] eqn:Hrg5.
  apply regroup_spec in Hrg5; [| lia | cbn [length]; lia].
  destruct Hrg5 as (Hcat5 & Hg5 & Hr5). cbn [app] in Hcat5.
  rewrite Hcat5, <- app_assoc in Hcat.
  pose proof (Forall_to_bits_length 5 d5) as HG5.
  pose proof (f_equal (@length bool) Hcat) as Hlen.
  rewrite (length_concat_const 5 _ HG5), map_length, !app_length,
    (length_concat_const 5 g5 Hg5), repeat_length in Hlen.
  destruct r5 as [|b r5'].
  - assert (p = 0)%nat by (cbn [length] in Hlen; lia). subst p.
    cbn [app repeat] in Hcat. rewrite app_nil_r in Hcat.
    apply (concat_groups_inj 5) in Hcat; [| lia | exact HG5 | exact Hg5].
    rewrite <- Hcat. now rewrite (map_of_bits_to_bits 5 d5 Hd5').
  - set (r5 := b :: r5') in *.
    assert (Hp5 : (5 - length r5 = p)%nat) by (subst r5; cbn [length] in *; lia).
    rewrite Hp5.
    assert (Hlast : length (r5 ++ repeat false p) = 5%nat).
    { rewrite app_length, repeat_length. lia. }
    assert (Hg5' : Forall (fun g => length g = 5%nat) (g5 ++ [r5 ++ repeat false p])).
    { apply Forall_app. split; [exact Hg5 | constructor; [exact Hlast | constructor]]. }
    assert (Heq : map (to_bits 5) d5 = g5 ++ [r5 ++ repeat false p]).
    { apply (concat_groups_inj 5); [lia | exact HG5 | exact Hg5' |].
      rewrite Hcat, concat_app. cbn [concat]. now rewrite app_nil_r. }
    rewrite <- (map_of_bits_to_bits 5 d5 Hd5'), Heq, map_app. reflexivity.
Qed.
Print Assumptions convert_bits_roundtrip_rev.

(** * Part 2: checksum *)
Section Checksum.
Local Open Scope N_scope.

Definition sel (b i g : N) : N := if N.testbit b i then g else 0.
Definition gens (b : N) : N :=
  N.lxor (N.lxor (N.lxor (N.lxor (sel b 0 gen0) (sel b 1 gen1)) (sel b 2 gen2)) (sel b 3 gen3))
         (sel b 4 gen4).
Definition lin (c : N) : N := polymod_step c 0.

Lemma if_lxor : forall (t : bool) c g,
  (if t then N.lxor c g else c) = N.lxor c (if t then g else 0).
Proof. intros [|] c g; [reflexivity | now rewrite N.lxor_0_r]. Qed.

Lemma polymod_step_eq : forall c v,
  polymod_step c v =
  N.lxor (N.lxor (N.shiftl (N.land c (N.ones 25)) 5) v) (gens (N.shiftr c 25)).
Proof.
  intros c v. unfold polymod_step, gens, sel. cbv zeta.
  change 0x1ffffff with (N.ones 25).
  rewrite !if_lxor. rewrite !N.lxor_assoc. reflexivity.
Qed.

Lemma lin_eq : forall c,
  lin c = N.lxor (N.shiftl (N.land c (N.ones 25)) 5) (gens (N.shiftr c 25)).
Proof. intro c. unfold lin. now rewrite polymod_step_eq, N.lxor_0_r. Qed.

Lemma polymod_step_lin : forall c v, polymod_step c v = N.lxor (lin c) v.
Proof.
  intros c v. rewrite lin_eq, polymod_step_eq.
  rewrite !N.lxor_assoc. f_equal. apply N.lxor_comm.
Qed.

Lemma land_lxor_distr_l : forall a b c,
  N.land (N.lxor a b) c = N.lxor (N.land a c) (N.land b c).
Proof.
  intros a b c. apply N.bits_inj. intro k.
  rewrite N.land_spec, !N.lxor_spec, !N.land_spec.
  destruct (N.testbit a k), (N.testbit b k), (N.testbit c k); reflexivity.
Qed.

Lemma lxor_swap4 : forall a b c d,
  N.lxor (N.lxor a b) (N.lxor c d) = N.lxor (N.lxor a c) (N.lxor b d).
Proof.
  intros a b c d. rewrite !N.lxor_assoc. f_equal.
  rewrite <- !N.lxor_assoc. f_equal. apply N.lxor_comm.
Qed.

Lemma sel_lxor : forall a b i g, sel (N.lxor a b) i g = N.lxor (sel a i g) (sel b i g).
Proof.
  intros a b i g. unfold sel. rewrite N.lxor_spec.
  destruct (N.testbit a i), (N.testbit b i); cbn [xorb].
  - now rewrite N.lxor_nilpotent.
  - now rewrite N.lxor_0_r.
  - now rewrite N.lxor_0_l.
  - reflexivity.
Qed.

Lemma gens_lxor : forall a b, gens (N.lxor a b) = N.lxor (gens a) (gens b).
Proof.
  intros a b. unfold gens. rewrite !sel_lxor.
  symmetry. do 4 (rewrite lxor_swap4; f_equal).
Qed.

Lemma lin_lxor : forall a b, lin (N.lxor a b) = N.lxor (lin a) (lin b).
Proof.
  intros a b. rewrite !lin_eq.
  rewrite land_lxor_distr_l, N.shiftl_lxor, N.shiftr_lxor, gens_lxor.
  apply lxor_swap4.
Qed.

Lemma lt_pow2_land : forall a n, a < 2 ^ n <-> N.land a (N.ones n) = a.
Proof.
  intros a n. rewrite N.land_ones. split; intro H.
  - now apply N.mod_small.
  - rewrite <- H. apply N.mod_lt. apply N.pow_nonzero. lia.
Qed.

Lemma lxor_lt : forall a b n, a < 2 ^ n -> b < 2 ^ n -> N.lxor a b < 2 ^ n.
Proof.
  intros a b n Ha Hb. apply lt_pow2_land.
  apply lt_pow2_land in Ha. apply lt_pow2_land in Hb.
  now rewrite land_lxor_distr_l, Ha, Hb.
Qed.

Lemma sel_lt : forall b i g, g < 2 ^ 30 -> sel b i g < 2 ^ 30.
Proof. intros b i g Hg. unfold sel. destruct (N.testbit b i); [exact Hg | reflexivity]. Qed.

Lemma gens_lt : forall b, gens b < 2 ^ 30.
Proof.
  intro b. unfold gens.
  repeat apply lxor_lt; apply sel_lt; reflexivity.
Qed.

Lemma lin_lt : forall c, lin c < 2 ^ 30.
Proof.
  intro c. rewrite lin_eq. apply lxor_lt; [| apply gens_lt].
  rewrite N.shiftl_mul_pow2, N.land_ones.
  assert (H : c mod 2 ^ 25 < 2 ^ 25) by (apply N.mod_lt; discriminate).
  change (2 ^ 30) with (2 ^ 25 * 2 ^ 5).
  apply N.mul_lt_mono_pos_r; [reflexivity | exact H].
Qed.

Lemma polymod_step_lt : forall c v, v < 2 ^ 30 -> polymod_step c v < 2 ^ 30.
Proof. intros c v Hv. rewrite polymod_step_lin. apply lxor_lt; [apply lin_lt | exact Hv]. Qed.

Lemma shiftr_small : forall a n, a < 2 ^ n -> N.shiftr a n = 0.
Proof. intros a n Ha. rewrite N.shiftr_div_pow2. now apply N.div_small. Qed.

Lemma lin_small : forall c, c < 2 ^ 25 -> lin c = N.shiftl c 5.
Proof.
  intros c Hc. rewrite lin_eq, shiftr_small by exact Hc.
  apply lt_pow2_land in Hc. rewrite Hc.
  change (gens 0) with 0. apply N.lxor_0_r.
Qed.

Lemma split_low5 : forall x, N.lxor (N.shiftl (N.shiftr x 5) 5) (N.land x 31) = x.
Proof.
  intro x. rewrite <- N.ldiff_ones_r. change 31 with (N.ones 5).
  apply N.bits_inj. intro k.
  rewrite N.lxor_spec, N.ldiff_spec, N.land_spec.
  destruct (N.testbit x k), (N.testbit (N.ones 5) k); reflexivity.
Qed.

Lemma shiftr5_lt : forall x, x < 2 ^ 30 -> N.shiftr x 5 < 2 ^ 25.
Proof.
  intros x Hx. rewrite N.shiftr_div_pow2.
  apply N.div_lt_upper_bound; [discriminate | exact Hx].
Qed.

Lemma feed_symbol : forall Q x,
  x < 2 ^ 30 ->
  polymod_step (N.lxor Q (N.shiftr x 5)) (N.land x 31) = N.lxor (lin Q) x.
Proof.
  intros Q x Hx.
  rewrite polymod_step_lin, lin_lxor, (lin_small (N.shiftr x 5)) by (now apply shiftr5_lt).
  rewrite N.lxor_assoc, split_low5. reflexivity.
Qed.

Lemma feed_symbol' : forall Q pm n m,
  pm < 2 ^ 30 -> m = n + 5 ->
  polymod_step (N.lxor Q (N.shiftr pm m)) (N.land (N.shiftr pm n) 31)
  = N.lxor (lin Q) (N.shiftr pm n).
Proof.
  intros Q pm n m Hpm Hm. subst m.
  rewrite <- N.shiftr_shiftr. apply feed_symbol.
  rewrite N.shiftr_div_pow2.
  apply N.le_lt_trans with (m := pm); [| exact Hpm].
  assert (H1 : 2 ^ n <> 0) by (apply N.pow_nonzero; discriminate).
  apply N.div_le_upper_bound; [exact H1 |].
  generalize dependent (2 ^ n). intros k Hk.
  nia.
Qed.

Lemma feed_checksum : forall P pm,
  pm < 2 ^ 30 ->
  fold_left polymod_step
    (map (fun i => N.land (N.shiftr pm (5 * (5 - i))) 31) [0; 1; 2; 3; 4; 5]) P
  = N.lxor (lin (lin (lin (lin (lin (lin P)))))) pm.
Proof.
  intros P pm Hpm.
  change (map (fun i => N.land (N.shiftr pm (5 * (5 - i))) 31) [0; 1; 2; 3; 4; 5])
    with [N.land (N.shiftr pm 25) 31; N.land (N.shiftr pm 20) 31; N.land (N.shiftr pm 15) 31;
          N.land (N.shiftr pm 10) 31; N.land (N.shiftr pm 5) 31; N.land (N.shiftr pm 0) 31].
  cbn [fold_left].
  assert (H30 : N.shiftr pm 30 = 0) by (now apply shiftr_small).
  replace P with (N.lxor P (N.shiftr pm 30)) at 1 by (rewrite H30; apply N.lxor_0_r).
  rewrite (feed_symbol' P pm 25 30) by (try reflexivity; assumption).
  rewrite (feed_symbol' _ pm 20 25) by (try reflexivity; assumption).
  rewrite (feed_symbol' _ pm 15 20) by (try reflexivity; assumption).
  rewrite (feed_symbol' _ pm 10 15) by (try reflexivity; assumption).
  rewrite (feed_symbol' _ pm 5 10) by (try reflexivity; assumption).
  rewrite (feed_symbol' _ pm 0 5) by (try reflexivity; assumption).
  rewrite N.shiftr_0_r. reflexivity.
Qed.

Lemma polymod_split : forall hrp values cs,
  polymod hrp values cs =
  fold_left polymod_step (match cs with None => repeat 0 6 | Some c => c end)
    (fold_left polymod_step (hrp_high hrp ++ [0] ++ hrp_low hrp ++ values) 1).
Proof. intros hrp values cs. unfold polymod. rewrite !fold_left_app. reflexivity. Qed.

Lemma zeros6 : forall P,
  fold_left polymod_step (repeat 0 6) P = lin (lin (lin (lin (lin (lin P))))).
Proof. intro P. cbn [repeat fold_left]. unfold lin. reflexivity. Qed.

Theorem checksum_verifies_gen : forall hrp data,
  verify_checksum hrp data (create_checksum hrp data) = true.
Proof.
  intros hrp data. unfold verify_checksum, create_checksum. cbv zeta.
  rewrite !polymod_split.
  set (P := fold_left polymod_step (hrp_high hrp ++ [0] ++ hrp_low hrp ++ data) 1).
  rewrite zeros6.
  set (Z := lin (lin (lin (lin (lin (lin P)))))).
  rewrite feed_checksum.
  - subst Z. rewrite <- N.lxor_assoc, N.lxor_nilpotent, N.lxor_0_l. reflexivity.
  - apply lxor_lt; [apply lin_lt | reflexivity].
Qed.

Theorem checksum_verifies : forall hrp data,
  Forall (fun c => (c < 256)%N) hrp -> Forall (fun v => (v < 32)%N) data ->
  verify_checksum hrp data (create_checksum hrp data) = true.
Proof. intros hrp data _ _. apply checksum_verifies_gen. Qed.

End Checksum.
Print Assumptions checksum_verifies.

(** * Part 3: ConvertAndEncode / DecodeAndConvert round trip *)
Section Roundtrip.
Local Open Scope N_scope.

Lemma convert_8_5_length : forall data d5,
  convert_bits 8 5 true data = Some d5 ->
  length d5 = ((8 * length data + 4) / 5)%nat.
Proof.
  intros data d5. unfold convert_bits. cbn [bits_ok Nat.leb andb negb].
  rewrite flat_map_to_bits.
  destruct (regroup 5 [] (concat (map (to_bits 8) data))) as [gs rest] eqn:Hrg.
  apply regroup_spec in Hrg; [| lia | cbn [length]; lia].
  destruct Hrg as (Hcat & Hgs & Hrest). cbn [app] in Hcat.
  apply (f_equal (@length bool)) in Hcat.
  rewrite app_length, (length_concat_const 5 gs Hgs),
    (length_concat_const 8 _ (Forall_to_bits_length 8 data)), map_length in Hcat.
  destruct rest as [|b rest']; intro Heq; inversion Heq as [Hd5]; clear Heq.
  - rewrite map_length. cbn [length] in Hcat.
    apply Nat.div_unique with (r := 4%nat); lia.
  - rewrite app_length, map_length. cbn [length] in *.
    apply Nat.div_unique with (r := length rest'); lia.
Qed.

(** ** finite case analysis over the 32 symbols *)
Definition good (c : N) : bool := (33 <=? c) && (c <=? 126) && negb (is_upper c).

Definition syms : list N := map N.of_nat (seq 0 32).

Lemma in_syms : forall v, v < 32 -> In v syms.
Proof.
  intros v Hv. unfold syms. rewrite <- (N2Nat.id v). apply in_map. apply in_seq. lia.
Qed.

Definition char_ok (v : N) : bool :=
  good (char_of v) && negb (char_of v =? sep) &&
  match char_index (char_of v) with Some w => w =? v | None => false end.

Lemma char_ok_all : forallb char_ok syms = true.
Proof. vm_compute. reflexivity. Qed.

Lemma char_ok_sym : forall v, v < 32 -> char_ok v = true.
Proof.
  intros v Hv.
  exact (proj1 (forallb_forall char_ok syms) char_ok_all v (in_syms v Hv)).
Qed.

Lemma char_of_good : forall v, v < 32 -> good (char_of v) = true.
Proof.
  intros v Hv. apply char_ok_sym in Hv. unfold char_ok in Hv.
  apply andb_prop in Hv. destruct Hv as [Hv _]. apply andb_prop in Hv. tauto.
Qed.

Lemma char_of_not_sep : forall v, v < 32 -> char_of v <> sep.
Proof.
  intros v Hv. apply char_ok_sym in Hv. unfold char_ok in Hv.
  apply andb_prop in Hv. destruct Hv as [Hv _]. apply andb_prop in Hv.
  destruct Hv as [_ Hv]. apply negb_true_iff in Hv. now apply N.eqb_neq.
Qed.

Lemma char_index_char_of : forall v, v < 32 -> char_index (char_of v) = Some v.
Proof.
  intros v Hv. apply char_ok_sym in Hv. unfold char_ok in Hv.
  apply andb_prop in Hv. destruct Hv as [_ Hv].
  destruct (char_index (char_of v)) as [w|]; [| discriminate].
  apply N.eqb_eq in Hv. now subst w.
Qed.

Lemma to_bytes_map_char_of : forall l,
  Forall (fun v => v < 32) l -> to_bytes (map char_of l) = Some l.
Proof.
  intros l Hl. induction Hl as [|v l' Hv Hl' IH].
  - reflexivity.
  - cbn [map to_bytes]. now rewrite char_index_char_of, IH.
Qed.

(** ** normalize *)
Lemma good_range : forall s,
  forallb good s = true -> forallb (fun c => (33 <=? c) && (c <=? 126)) s = true.
Proof.
  intros s. induction s as [|c s' IH]; intro Hs.
  - reflexivity.
  - cbn [forallb] in *. apply andb_prop in Hs. destruct Hs as [Hc Hs].
    rewrite IH by exact Hs. unfold good in Hc. apply andb_prop in Hc.
    destruct Hc as [Hc _]. now rewrite Hc.
Qed.

Lemma good_no_upper : forall s, forallb good s = true -> existsb is_upper s = false.
Proof.
  intros s. induction s as [|c s' IH]; intro Hs.
  - reflexivity.
  - cbn [forallb existsb] in *. apply andb_prop in Hs. destruct Hs as [Hc Hs].
    rewrite IH by exact Hs. unfold good in Hc. apply andb_prop in Hc.
    destruct Hc as [_ Hc]. apply negb_true_iff in Hc. now rewrite Hc.
Qed.

Lemma good_lower : forall s, forallb good s = true -> lower s = s.
Proof.
  intros s. induction s as [|c s' IH]; intro Hs.
  - reflexivity.
  - cbn [forallb] in Hs. apply andb_prop in Hs. destruct Hs as [Hc Hs].
    unfold lower in *. cbn [map]. rewrite IH by exact Hs. f_equal.
    unfold good in Hc. apply andb_prop in Hc.
    destruct Hc as [_ Hc]. apply negb_true_iff in Hc. unfold lower_char. now rewrite Hc.
Qed.

Lemma normalize_good : forall s, forallb good s = true -> normalize s = Some s.
Proof.
  intros s Hs. unfold normalize.
  rewrite (good_range s Hs), (good_no_upper s Hs), (good_lower s Hs).
  cbn [negb]. now rewrite andb_false_r.
Qed.

Lemma good_of_spec : forall c,
  33 <= c <= 126 /\ ~ (65 <= c <= 90) -> good c = true.
Proof.
  intros c Hc. unfold good, is_upper.
  destruct (N.leb_spec 33 c), (N.leb_spec c 126), (N.leb_spec 65 c), (N.leb_spec c 90);
    cbn [andb negb]; try reflexivity; lia.
Qed.

Lemma forallb_good_Forall : forall s,
  Forall (fun c => 33 <= c <= 126 /\ ~ (65 <= c <= 90)) s -> forallb good s = true.
Proof.
  intros s Hs. apply forallb_forall. rewrite Forall_forall in Hs.
  intros c Hc. apply good_of_spec. now apply Hs.
Qed.

Lemma forallb_good_char_of : forall l,
  Forall (fun v => v < 32) l -> forallb good (map char_of l) = true.
Proof.
  intros l Hl. induction Hl as [|v l' Hv Hl' IH].
  - reflexivity.
  - cbn [map forallb]. now rewrite char_of_good, IH.
Qed.

(** ** split_last *)
Lemma split_last_none : forall c b, ~ In c b -> split_last c b = None.
Proof.
  intros c b. induction b as [|x r IH]; intro Hin.
  - reflexivity.
  - cbn [split_last]. rewrite IH by (intro H; apply Hin; now right).
    assert (Hx : x =? c = false) by (apply N.eqb_neq; intro H; apply Hin; now left).
    now rewrite Hx.
Qed.

Lemma split_last_app : forall c a b,
  ~ In c b -> split_last c (a ++ c :: b) = Some (a, b).
Proof.
  intros c a b Hin. induction a as [|x a' IH].
  - cbn [app split_last]. now rewrite (split_last_none c b Hin), N.eqb_refl.
  - cbn [app split_last]. now rewrite IH.
Qed.

Lemma sep_not_in_chars : forall l,
  Forall (fun v => v < 32) l -> ~ In sep (map char_of l).
Proof.
  intros l Hl Hin. apply in_map_iff in Hin. destruct Hin as (v & Hv & Hvin).
  rewrite Forall_forall in Hl. exact (char_of_not_sep v (Hl v Hvin) Hv).
Qed.

(** ** the checksum symbols *)
Lemma land31_lt : forall x, N.land x 31 < 32.
Proof.
  intro x. change 31 with (N.ones 5). rewrite N.land_ones.
  apply N.mod_lt. discriminate.
Qed.

Lemma create_checksum_sym : forall hrp data,
  Forall (fun v => v < 32) (create_checksum hrp data).
Proof.
  intros hrp data. unfold create_checksum. cbv zeta.
  apply Forall_map. apply Forall_forall. intros i _. apply land31_lt.
Qed.

Lemma create_checksum_length : forall hrp data, length (create_checksum hrp data) = 6%nat.
Proof. intros hrp data. unfold create_checksum. cbv zeta. now rewrite map_length. Qed.

Lemma forallb_ltb32 : forall l,
  Forall (fun v => v < 32) l -> forallb (fun b => b <? 32) l = true.
Proof.
  intros l Hl. apply forallb_forall. rewrite Forall_forall in Hl.
  intros v Hv. apply N.ltb_lt. now apply Hl.
Qed.

Theorem bech32_roundtrip : forall hrp data,
  hrp <> [] ->
  Forall (fun c => (33 <= c <= 126)%N /\ ~ (65 <= c <= 90)%N) hrp ->
  Forall (fun b => (b < 256)%N) data ->
  (length hrp + 7 + (8 * length data + 4) / 5 <= 1023)%nat ->
  exists s, convert_and_encode hrp data = Some s /\
            decode_and_convert s = Some (hrp, data).
Proof.
  intros hrp data Hne Hhrp Hdata Hlen.
  destruct (convert_bits_roundtrip data Hdata) as (d5 & Hc & Hd5 & Hback).
  pose proof (convert_8_5_length data d5 Hc) as Hl5.
  rewrite <- Hl5 in Hlen.
  pose proof (create_checksum_sym hrp d5) as Hcs.
  pose proof (create_checksum_length hrp d5) as Hcslen.
  pose proof (checksum_verifies_gen hrp d5) as Hver.
  set (cs := create_checksum hrp d5) in *.
  pose proof (forallb_good_Forall hrp Hhrp) as Hgh.
  pose proof (good_lower hrp Hgh) as Hlow.
  assert (Hsyms : Forall (fun v => v < 32) (d5 ++ cs)) by (apply Forall_app; now split).
  exists (hrp ++ sep :: map char_of (d5 ++ cs)). split.
  - unfold convert_and_encode. rewrite Hc. unfold encode. rewrite Hlow.
    rewrite (forallb_ltb32 d5 Hd5). cbn [negb]. fold cs. rewrite map_app. reflexivity.
  - set (s := hrp ++ sep :: map char_of (d5 ++ cs)).
    assert (Hslen : length s = (length hrp + 7 + length d5)%nat).
    { subst s. rewrite app_length. cbn [length]. rewrite map_length, app_length, Hcslen. lia. }
    assert (Hhl : (0 < length hrp)%nat).
    { destruct hrp; [congruence | cbn [length]; lia]. }
    assert (Hgs : forallb good s = true).
    { subst s. rewrite forallb_app. cbn [forallb]. rewrite Hgh.
      rewrite (forallb_good_char_of _ Hsyms). reflexivity. }
    unfold decode_and_convert, decode.
    assert (H1 : Nat.ltb 1023 (length s) = false) by (apply Nat.ltb_ge; lia).
    assert (H2 : Nat.ltb (length s) 8 = false) by (apply Nat.ltb_ge; lia).
    rewrite H1, H2, (normalize_good s Hgs).
    unfold decode_unsafe. subst s.
    rewrite (split_last_app sep hrp _ (sep_not_in_chars _ Hsyms)).
    assert (H3 : Nat.eqb (length hrp) 0 = false) by (apply Nat.eqb_neq; lia).
    assert (H4 : Nat.ltb (length (map char_of (d5 ++ cs))) 6 = false).
    { apply Nat.ltb_ge. rewrite map_length, app_length, Hcslen. lia. }
    rewrite H3, H4. cbn [orb].
    rewrite (to_bytes_map_char_of _ Hsyms).
    assert (H5 : (length (d5 ++ cs) - 6 = length d5)%nat) by (rewrite app_length, Hcslen; lia).
    rewrite H5, firstn_app, skipn_app, Nat.sub_diag, firstn_all, skipn_all.
    cbn [firstn skipn app]. rewrite app_nil_r.
    rewrite Hver, Hback. reflexivity.
Qed.

End Roundtrip.
Print Assumptions bech32_roundtrip.
