(** The suffix index of [PV.Quarantine.Quarantine] (property C07): every record is reachable
    through the index from each of its senders, after any history.  Also the sharp one-record
    specifications of accept / decline that the liveness and decline theorems use. *)
From Coq Require Import ZArith PArith List Bool Lia ZifyBool Permutation.
From PV Require Import Quarantine.Quarantine Proofs.QuarantineProofs.
Import ListNotations.
Open Scope Z_scope.

(** * Generic association lists *)
Section AssocGen.
  Context {K V : Type} (eqb : K -> K -> bool).
  Hypothesis eqb_eq : forall x y, eqb x y = true <-> x = y.

  Lemma eqb_refl_gen x : eqb x x = true.
  Proof. apply eqb_eq; reflexivity. Qed.

  Lemma eqb_sym_gen x y : eqb x y = eqb y x.
  Proof.
    destruct (eqb x y) eqn:E.
    - apply eqb_eq in E. subst. symmetry. apply eqb_refl_gen.
    - destruct (eqb y x) eqn:E2; [|reflexivity]. apply eqb_eq in E2. subst.
      rewrite eqb_refl_gen in E. discriminate.
  Qed.

  Lemma aget_adel k k' (l : list (K * V)) :
    aget eqb k' (adel eqb k l) = if eqb k' k then None else aget eqb k' l.
  Proof.
    induction l as [|e r IH]; cbn [aget adel].
    - destruct (eqb k' k); reflexivity.
    - destruct (eqb k (fst e)) eqn:E.
      + apply eqb_eq in E. subst k. rewrite IH. destruct (eqb k' (fst e)); reflexivity.
      + cbn [aget]. rewrite IH. destruct (eqb k' (fst e)) eqn:E2; [|reflexivity].
        apply eqb_eq in E2. subst k'. rewrite eqb_sym_gen, E. reflexivity.
  Qed.

  Lemma aget_aset k k' v (l : list (K * V)) :
    aget eqb k' (aset eqb k v l) = if eqb k' k then Some v else aget eqb k' l.
  Proof. unfold aset. cbn [aget fst snd]. rewrite aget_adel. destruct (eqb k' k); reflexivity. Qed.
End AssocGen.

Lemma pair_eqb_eq x y : pair_eqb x y = true <-> x = y.
Proof.
  destruct x as [a b], y as [c d]. unfold pair_eqb. cbn [fst snd].
  rewrite andb_true_iff, !Pos.eqb_eq. split; [intros [-> ->]; reflexivity | intros [= -> ->]; auto].
Qed.

(** * Simplify *)
Lemma smem_In x l : smem x l = true <-> In x l.
Proof.
  unfold smem. rewrite existsb_exists. split.
  - intros (y & Hy & E). apply addrs_eqb_eq in E. subst. exact Hy.
  - intros H. exists x. split; [exact H | apply addrs_eqb_eq; reflexivity].
Qed.

Lemma In_dedup x l : In x (dedup l) <-> In x l.
Proof.
  induction l as [|y r IH]; cbn [dedup]; [tauto|].
  destruct (smem y r) eqn:E.
  - rewrite IH. split; [intros H; right; exact H|]. intros [<-|H]; [apply smem_In, E | exact H].
  - cbn [In]. rewrite IH. tauto.
Qed.

Lemma In_simplify x l rm : In x (simplify l rm) <-> In x l /\ ~ In x rm.
Proof.
  unfold simplify. rewrite In_dedup, filter_In, negb_true_iff. split.
  - intros [H1 H2]. split; [exact H1|]. intros H. apply smem_In in H. congruence.
  - intros [H1 H2]. split; [exact H1|]. destruct (smem x rm) eqn:E; [|reflexivity].
    apply smem_In in E. contradiction.
Qed.

(** * Index entries *)
Lemma idx_get_set i to f v to' f' :
  idx_get (idx_set i to f v) to' f' = if pair_eqb (to', f') (to, f) then filter is_multi v else idx_get i to' f'.
Proof.
  unfold idx_get, idx_set. destruct v as [|x v].
  - rewrite (aget_adel pair_eqb pair_eqb_eq). destruct (pair_eqb (to', f') (to, f)); reflexivity.
  - rewrite (aget_aset pair_eqb pair_eqb_eq). destruct (pair_eqb (to', f') (to, f)); reflexivity.
Qed.

Lemma idx_add_all_keeps to sfx froms : forall i to' f' x,
  In x (idx_get i to' f') -> x <> [f'] -> In x (idx_get (idx_add_all i to froms sfx) to' f').
Proof.
  unfold idx_add_all. induction froms as [|f froms IH]; intros i to' f' x Hin Hne; cbn [fold_left]; [exact Hin|].
  apply IH; [|exact Hne]. rewrite idx_get_set.
  destruct (pair_eqb (to', f') (to, f)) eqn:E; [|exact Hin].
  apply pair_eqb_eq in E. injection E as -> ->.
  apply filter_In. split; [|apply (idx_get_multi _ _ _ _ Hin)].
  apply In_simplify. split; [apply in_or_app; left; exact Hin|].
  intros [H|[]]. congruence.
Qed.

Lemma multi_not_single (x : list addr) f : is_multi x = true -> x <> [f].
Proof. intros H E. subst. discriminate. Qed.

Lemma idx_add_all_adds to sfx froms : forall i f,
  In f froms -> is_multi sfx = true -> In sfx (idx_get (idx_add_all i to froms sfx) to f).
Proof.
  induction froms as [|f0 froms IH]; intros i f Hin Hm; [destruct Hin|].
  destruct (Pos.eq_dec f0 f) as [->|Hd].
  - unfold idx_add_all. cbn [fold_left]. apply (idx_add_all_keeps to sfx froms); [|apply multi_not_single, Hm].
    rewrite idx_get_set. rewrite (proj2 (pair_eqb_eq (to, f) (to, f)) eq_refl).
    apply filter_In. split; [|exact Hm].
    apply In_simplify. split; [apply in_or_app; right; left; reflexivity|].
    intros [H|[]]. symmetry in H. revert H. apply multi_not_single, Hm.
  - destruct Hin as [Hin|Hin]; [contradiction|].
    unfold idx_add_all. cbn [fold_left]. apply (IH _ f Hin Hm).
Qed.

Lemma idx_del_all_keeps to sfx froms : forall i to' f' x,
  In x (idx_get i to' f') -> x <> [f'] -> (to' <> to \/ x <> sfx) ->
  In x (idx_get (idx_del_all i to froms sfx) to' f').
Proof.
  unfold idx_del_all. induction froms as [|f froms IH]; intros i to' f' x Hin Hne Hk; cbn [fold_left]; [exact Hin|].
  apply IH; [|exact Hne|exact Hk]. rewrite idx_get_set.
  destruct (pair_eqb (to', f') (to, f)) eqn:E; [|exact Hin].
  apply pair_eqb_eq in E. injection E as -> ->.
  apply filter_In. split; [|apply (idx_get_multi _ _ _ _ Hin)].
  apply In_simplify. split; [exact Hin|].
  intros [H|[H|[]]]; [congruence|]. destruct Hk as [Hk|Hk]; congruence.
Qed.

(** * Multi-sender suffixes are not single addresses *)
Lemma is_multi_length (l : list addr) : is_multi l = true <-> (2 <= length l)%nat.
Proof.
  destruct l as [|a [|b l]]; cbn [is_multi length]; split; intros H; try discriminate; try reflexivity; lia.
Qed.

Lemma multi_sort_not_single l f : is_multi l = true -> sort l <> [f].
Proof.
  intros H E. apply is_multi_length in H.
  pose proof (Permutation_length (sort_perm l)) as Hl. rewrite E in Hl. cbn [length] in Hl.
  unfold addr in *. rewrite <- Hl in H. lia.
Qed.

Lemma is_multi_sort l : is_multi l = true -> is_multi (sort l) = true.
Proof.
  intros H. apply is_multi_length. apply is_multi_length in H.
  pose proof (Permutation_length (sort_perm l)) as Hl. unfold addr in *. lia.
Qed.

Lemma multi_sfx_not_single l f : is_multi l = true -> sfx_of l <> [f].
Proof. intros H. rewrite (sfx_multi _ H). apply multi_sort_not_single, H. Qed.

Lemma is_multi_sfx l : is_multi l = true -> is_multi (sfx_of l) = true.
Proof. intros H. rewrite (sfx_multi _ H). apply is_multi_sort, H. Qed.

(** * The invariant *)
Definition idx_sound (s : state) : Prop :=
  forall k r, rget k (s_recs s) = Some r -> is_multi (all_froms r) = true ->
  forall f, In f (all_froms r) -> In (snd k) (idx_get (s_idx s) (fst k) f).

Lemma idx_sound_with_bal s b : idx_sound (with_bal s b) <-> idx_sound s.
Proof. unfold idx_sound. cbn [s_recs s_idx with_bal]. tauto. Qed.

Lemma set_record_some s to r : all_froms r <> [] -> exists s', set_record s to r = Some s'.
Proof.
  intros H. unfold set_record. destruct (all_froms r) as [|a l]; [contradiction|].
  destruct (fully_accepted r); eexists; reflexivity.
Qed.

Lemma set_record_full s to r s' : set_record s to r = Some s' ->
  s_bal s' = s_bal s /\ same_settings s s' /\ s_xfer s' = s_xfer s /\
  s_recs s' = (if fully_accepted r then rdel (mk_key to (all_froms r)) (s_recs s)
               else rset (mk_key to (all_froms r)) r (s_recs s)) /\
  s_idx s' = (if is_multi (all_froms r)
              then if fully_accepted r then idx_del_all (s_idx s) to (all_froms r) (sfx_of (all_froms r))
                   else idx_add_all (s_idx s) to (all_froms r) (sfx_of (all_froms r))
              else s_idx s).
Proof.
  unfold set_record, same_settings. remember (all_froms r) as fr eqn:E.
  destruct fr as [|a l]; [discriminate|]. rewrite E. clear E.
  destruct (fully_accepted r), (is_multi (all_froms r)); intros H; injection H as <-;
    cbn [s_bal s_optin s_auto s_recs s_idx s_xfer with_recs mk_key snd]; auto.
Qed.

Lemma set_record_idx_sound s to r s' :
  wf s -> idx_sound s -> set_record s to r = Some s' -> idx_sound s'.
Proof.
  intros Hw Hi Hs. apply set_record_full in Hs. destruct Hs as (_ & _ & _ & Hr & Hx).
  set (froms := all_froms r) in *. set (k0 := mk_key to froms) in *.
  intros k r1 Hg Hm f Hf. rewrite Hx.
  destruct (fully_accepted r) eqn:Efa; rewrite Hr in Hg.
  - rewrite rget_rdel in Hg. destruct (rkey_eqb k k0) eqn:Ek; [discriminate|].
    pose proof (Hi k r1 Hg Hm f Hf) as Hin.
    destruct (is_multi froms); [|exact Hin].
    pose proof (wf_rget _ _ _ Hw Hg) as [Hk _]. cbn [fst snd] in Hk.
    apply idx_del_all_keeps; [exact Hin | rewrite Hk; apply multi_sfx_not_single, Hm |].
    destruct (Pos.eq_dec (fst k) to) as [Et|Et]; [|left; exact Et]. right. intros Es.
    assert (k = k0) by (destruct k; unfold k0, mk_key; cbn [fst snd] in *; f_equal; [exact Et | exact Es]).
    subst k. rewrite rkey_eqb_refl in Ek. discriminate.
  - rewrite rget_rset in Hg. destruct (rkey_eqb k k0) eqn:Ek.
    + injection Hg as <-. apply rkey_eqb_eq in Ek. subst k. unfold k0, mk_key. cbn [fst snd].
      fold froms in Hm, Hf. rewrite Hm.
      apply idx_add_all_adds; [exact Hf | apply is_multi_sfx, Hm].
    + pose proof (Hi k r1 Hg Hm f Hf) as Hin.
      destruct (is_multi froms); [|exact Hin].
      pose proof (wf_rget _ _ _ Hw Hg) as [Hk _]. cbn [fst snd] in Hk.
      apply idx_add_all_keeps; [exact Hin | rewrite Hk; apply multi_sfx_not_single, Hm].
Qed.

(** * Completeness of GetQuarantineRecords *)
Lemma single_sender (l : list addr) f : l <> [] -> is_multi l = false -> In f l -> l = [f].
Proof.
  destruct l as [|a [|b l]]; cbn [is_multi]; intros Hn Hm Hin; try contradiction; try discriminate.
  destruct Hin as [->|[]]. reflexivity.
Qed.

Lemma get_records_complete s k r f froms :
  wf s -> idx_sound s -> rget k (s_recs s) = Some r -> In f (all_froms r) -> In f froms ->
  In (k, r) (get_records s (fst k) froms).
Proof.
  intros Hw Hi Hg Hf Hfr.
  pose proof (wf_rget _ _ _ Hw Hg) as [Hk Hun]. cbn [fst snd] in Hk, Hun.
  assert (Hsfx : exists x, In x (get_suffixes s (fst k) froms) /\ key_sfx x = snd k).
  { destruct (is_multi (all_froms r)) eqn:Em.
    - exists (snd k). split.
      + unfold get_suffixes. apply In_dedup, in_flat_map. exists f. split; [exact Hfr|].
        apply in_or_app. left. apply (Hi k r Hg Em f Hf).
      + apply key_sfx_multi. rewrite Hk. apply is_multi_sfx, Em.
    - exists [f]. split.
      + unfold get_suffixes. apply In_dedup, in_flat_map. exists f. split; [exact Hfr|].
        apply in_or_app. right. left. reflexivity.
      + rewrite Hk. rewrite (single_sender (all_froms r) f); [reflexivity| |exact Em|exact Hf].
        unfold all_froms. intros E. apply app_eq_nil in E. apply Hun, E. }
  destruct Hsfx as (x & Hx & Ex).
  unfold get_records. apply in_flat_map. exists x. split; [exact Hx|]. rewrite Ex.
  replace (fst k, snd k) with k by (destruct k; reflexivity). rewrite Hg. left. reflexivity.
Qed.
