(** C20: NormalizeName is idempotent; the stored required-attribute lists stay normalised, valid
    and duplicate-free under MsgMarketManageReqAttrs. *)
From Coq Require Import ZArith List Bool String Ascii Lia Arith.
From PV Require Import Exchange.Arith Exchange.ReqAttr Exchange.FeeCheck Exchange.AdmitSpec
     Proofs.C20Proofs Proofs.C20Defs.
Import ListNotations.

Local Ltac ascii_cases c :=
  destruct c as [b0 b1 b2 b3 b4 b5 b6 b7];
  destruct b0, b1, b2, b3, b4, b5, b6, b7; vm_compute; reflexivity.

Lemma to_lower_idem c : to_lower (to_lower c) = to_lower c.
Proof. ascii_cases c. Qed.

Lemma is_space_to_lower c : is_space (to_lower c) = is_space c.
Proof. ascii_cases c. Qed.

Lemma to_lower_dot c : Ascii.eqb (to_lower c) dot = Ascii.eqb c dot.
Proof. ascii_cases c. Qed.

(** *** trim_left / trim_space *)
Definition hd_ok (l : bytes) : Prop :=
  match l with [] => True | c :: _ => is_space c = false end.

Lemma trim_left_hd_ok l : hd_ok (trim_left l).
Proof.
  induction l as [|c r IH]; cbn [trim_left]; [exact I|].
  destruct (is_space c) eqn:E; [exact IH|exact E].
Qed.

Lemma trim_left_id l : hd_ok l -> trim_left l = l.
Proof.
  destruct l as [|c r]; cbn [hd_ok trim_left]; [reflexivity|].
  intros ->. reflexivity.
Qed.

Lemma trim_left_keep x c z :
  is_space c = false -> exists y, trim_left (x ++ c :: z) = y ++ c :: z.
Proof.
  intros Hc. induction x as [|d x IH]; cbn [app trim_left].
  - rewrite Hc. exists []. reflexivity.
  - destruct (is_space d).
    + exact IH.
    + exists (d :: x). reflexivity.
Qed.

Lemma trim_space_hd_ok s : hd_ok (trim_space s).
Proof.
  unfold trim_space. pose proof (trim_left_hd_ok s) as H.
  destruct (trim_left s) as [|c a]; [exact I|]. cbn [hd_ok] in H.
  cbn [rev]. destruct (trim_left_keep (rev a) c [] H) as [y ->].
  rewrite rev_app_distr. cbn [rev app]. exact H.
Qed.

Lemma trim_space_idem s : trim_space (trim_space s) = trim_space s.
Proof.
  unfold trim_space at 1. rewrite (trim_left_id (trim_space s)) by apply trim_space_hd_ok.
  unfold trim_space. rewrite rev_involutive.
  rewrite (trim_left_id (trim_left _)) by apply trim_left_hd_ok. reflexivity.
Qed.

Lemma trim_left_map_lower s : trim_left (map to_lower s) = map to_lower (trim_left s).
Proof.
  induction s as [|c r IH]; cbn [map trim_left]; [reflexivity|].
  rewrite is_space_to_lower. destruct (is_space c); [exact IH|reflexivity].
Qed.

Lemma trim_space_map_lower s : trim_space (map to_lower s) = map to_lower (trim_space s).
Proof.
  unfold trim_space.
  rewrite trim_left_map_lower, <- map_rev, trim_left_map_lower, <- map_rev. reflexivity.
Qed.

Lemma trim_left_in x l : In x (trim_left l) -> In x l.
Proof.
  induction l as [|c r IH]; cbn [trim_left]; [auto|].
  destruct (is_space c); [intros H; right; auto|auto].
Qed.

Lemma trim_space_in x l : In x (trim_space l) -> In x l.
Proof.
  unfold trim_space. intros H. apply in_rev in H. apply trim_left_in in H.
  apply in_rev in H. apply trim_left_in in H. exact H.
Qed.

(** *** split / join *)
Lemma split_dot_no_dot s : Forall (fun seg => ~ In dot seg) (split_dot s).
Proof.
  induction s as [|c r IH]; cbn [split_dot].
  - constructor; [intros []|constructor].
  - destruct (Ascii.eqb_spec c dot) as [->|N].
    + constructor; [intros []|exact IH].
    + destruct (split_dot r) as [|seg rest].
      * constructor; [|constructor]. intros [E|[]]. congruence.
      * inversion IH as [|? ? H1 H2]; subst. constructor; [|exact H2].
        intros [E|H]; [congruence|contradiction].
Qed.

Lemma split_dot_seg s : ~ In dot s -> split_dot s = [s].
Proof.
  induction s as [|c r IH]; intros H; cbn [split_dot]; [reflexivity|].
  destruct (Ascii.eqb_spec c dot) as [->|N].
  - exfalso. apply H. left; reflexivity.
  - rewrite IH; [reflexivity|]. intros HI. apply H. right; exact HI.
Qed.

Lemma split_join l : l <> [] -> Forall (fun seg => ~ In dot seg) l -> split_dot (join_dot l) = l.
Proof.
  induction l as [|s r IH]; intros Hn HF; [congruence|].
  inversion HF as [|? ? H1 H2]; subst.
  destruct r as [|s' r'].
  - cbn [join_dot]. apply split_dot_seg; exact H1.
  - change (join_dot (s :: s' :: r')) with (s ++ dot :: join_dot (s' :: r')).
    rewrite split_dot_app_dot, IH by (congruence || assumption).
    rewrite split_dot_seg by exact H1. reflexivity.
Qed.

Lemma lower_no_dot t : ~ In dot t -> ~ In dot (map to_lower t).
Proof.
  intros H HI. apply in_map_iff in HI. destruct HI as (x & E & HI).
  apply H. assert (X : Ascii.eqb (to_lower x) dot = true) by (apply Ascii.eqb_eq; exact E).
  rewrite to_lower_dot in X. apply Ascii.eqb_eq in X. subst x. exact HI.
Qed.

(** nametypes.NormalizeName is idempotent (ASCII). *)
Lemma normalize_name_idem s : normalize_name (normalize_name s) = normalize_name s.
Proof.
  unfold normalize_name.
  rewrite split_join.
  - rewrite map_map. f_equal. apply map_ext. intros seg.
    rewrite trim_space_map_lower, trim_space_idem, map_map. apply map_ext. intros c. apply to_lower_idem.
  - pose proof (split_dot_nonnil s) as N. destruct (split_dot s); [congruence|discriminate].
  - pose proof (split_dot_no_dot s) as F. induction F as [|seg rest H F IH]; cbn [map]; constructor.
    + apply lower_no_dot. intros HI. apply H. apply trim_space_in. exact HI.
    + exact IH.
Qed.

Lemma mem_bytes_in x l : mem_bytes x l = true <-> In x l.
Proof.
  induction l as [|y r IH]; cbn [mem_bytes In].
  - split; [discriminate|intros []].
  - rewrite orb_true_iff, IH, bytes_eqb_eq. split; intros [H|H]; auto.
Qed.

Lemma mem_bytes_notin x l : mem_bytes x l = false <-> ~ In x l.
Proof.
  rewrite <- mem_bytes_in. destruct (mem_bytes x l); split; congruence.
Qed.

Lemma nodup_bytes_iff l : nodup_bytes l = true <-> NoDup l.
Proof.
  induction l as [|x r IH]; cbn [nodup_bytes].
  - split; [constructor|reflexivity].
  - rewrite andb_true_iff, negb_true_iff, mem_bytes_notin, IH, NoDup_cons_iff. reflexivity.
Qed.

(** ValidateReqAttrs: the normalised forms are valid, normalised and pairwise different. *)
Lemma validate_req_attrs_ok l :
  validate_req_attrs l = true -> reqs_ok (map normalize_name l).
Proof.
  unfold validate_req_attrs, reqs_ok. intros H. apply andb_true_iff in H. destruct H as [H1 H2].
  split; [|apply nodup_bytes_iff; exact H2].
  rewrite forallb_forall in H1. apply Forall_forall. intros e He. split; [|apply H1; exact He].
  apply in_map_iff in He. destruct He as (x & <- & _). apply normalize_name_idem.
Qed.

Lemma create_market_reqs_ok m s : create_market m = Some s -> stored_reqs_ok s.
Proof.
  intros C. destruct (create_market_stored m s C) as (_ & Ea & Eb & Ec).
  unfold create_market in C.
  destruct (validate_req_attrs (map bytes_of (m_req_ask m))) eqn:V1; [|discriminate].
  destruct (validate_req_attrs (map bytes_of (m_req_bid m))) eqn:V2; [|discriminate].
  destruct (validate_req_attrs (map bytes_of (m_req_com m))) eqn:V3; [|discriminate].
  unfold stored_reqs_ok. rewrite Ea, Eb, Ec.
  repeat split; apply validate_req_attrs_ok; assumption.
Qed.

Lemma NoDup_app_disj {A} (a b : list A) :
  NoDup a -> NoDup b -> (forall x, In x a -> ~ In x b) -> NoDup (a ++ b).
Proof.
  induction a as [|x a IH]; intros Ha Hb D; cbn [app]; [exact Hb|].
  inversion Ha as [|? ? Hx Ha']; subst. constructor.
  - rewrite in_app_iff. intros [H|H]; [contradiction|]. apply (D x); [left; reflexivity|exact H].
  - apply IH; auto. intros y Hy. apply D. right; exact Hy.
Qed.

Lemma update_req_attrs_some cur rem add l' :
  update_req_attrs cur rem add = Some l' ->
  l' = filter (fun a => negb (mem_bytes a rem)) cur ++ filter (fun a => negb (mem_bytes a cur)) add /\
  (forall a, In a add -> ~ In a cur).
Proof.
  unfold update_req_attrs.
  destruct (existsb (fun a => negb (mem_bytes a cur)) rem); cbn [orb]; [discriminate|].
  destruct (existsb (fun a => mem_bytes a cur) add) eqn:E; [discriminate|].
  intros [= <-]. split; [reflexivity|].
  intros a Ha. apply mem_bytes_notin. destruct (mem_bytes a cur) eqn:M; [|reflexivity].
  rewrite <- E. symmetry. apply existsb_exists. exists a. auto.
Qed.

Lemma update_req_attrs_ok cur rem add l' :
  reqs_ok cur -> reqs_ok add -> update_req_attrs cur rem add = Some l' -> reqs_ok l'.
Proof.
  intros [Fc Nc] [Fa Na] U. apply update_req_attrs_some in U. destruct U as [-> D].
  split.
  - apply Forall_app. rewrite Forall_forall in Fc, Fa.
    split; apply Forall_forall; intros e He; apply filter_In in He; destruct He as [He _]; auto.
  - apply NoDup_app_disj; try (apply NoDup_filter; assumption).
    intros x H1 H2. apply filter_In in H1. apply filter_In in H2.
    destruct H1 as [H1 _]. destruct H2 as [H2 _]. exact (D x H2 H1).
Qed.

Lemma manage_req_attrs_ok s a s' :
  stored_reqs_ok s -> manage_req_attrs s a = Some s' -> stored_reqs_ok s'.
Proof.
  intros (Sa & Sb & Sc). unfold manage_req_attrs, normalize_req_attrs.
  destruct (attr_msg_valid a) eqn:V; cbn [andb]; [|discriminate].
  destruct (am_auth a); [|discriminate].
  match goal with |- (if ?c then _ else _) = _ -> _ => destruct c; [|discriminate] end.
  destruct (update_req_attrs (s_req_ask s) _ _) as [ra|] eqn:U1; [|discriminate].
  destruct (update_req_attrs (s_req_bid s) _ _) as [rb|] eqn:U2; [|discriminate].
  destruct (update_req_attrs (s_req_com s) _ _) as [rc|] eqn:U3; [|discriminate].
  intros [= <-]. unfold stored_reqs_ok; cbn [s_req_ask s_req_bid s_req_com].
  unfold attr_msg_valid, validate_add_remove_req_attrs in V.
  apply andb_true_iff in V. destruct V as [V V3]. apply andb_true_iff in V. destruct V as [V V2].
  apply andb_true_iff in V. destruct V as [_ V1].
  apply andb_true_iff in V1. destruct V1 as [V1 _]. apply andb_true_iff in V2. destruct V2 as [V2 _].
  apply andb_true_iff in V3. destruct V3 as [V3 _].
  split; [|split].
  - eapply update_req_attrs_ok; [exact Sa| |exact U1]. apply validate_req_attrs_ok; assumption.
  - eapply update_req_attrs_ok; [exact Sb| |exact U2]. apply validate_req_attrs_ok; assumption.
  - eapply update_req_attrs_ok; [exact Sc| |exact U3]. apply validate_req_attrs_ok; assumption.
Qed.

(** What an accepted change does to a list, read as sets: the new requirements are the old ones
    that were not removed, and the additions. *)
Lemma update_req_attrs_members cur rem add l' e :
  update_req_attrs cur rem add = Some l' ->
  (In e l' <-> (In e cur /\ ~ In e rem) \/ In e add).
Proof.
  intros U. apply update_req_attrs_some in U. destruct U as [-> D].
  rewrite in_app_iff, !filter_In, !negb_true_iff, !mem_bytes_notin.
  split.
  - intros [[H1 H2]|[H1 H2]]; auto.
  - intros [[H1 H2]|H]; auto.
Qed.
