(** Proofs about [PV.Marker.Lifecycle] (property C05). *)
From Coq Require Import ZArith NArith List Bool Lia ZifyBool.
From PV Require Import Marker.Lifecycle.
Import ListNotations.
Open Scope Z_scope.

(** * Balance maps *)
Lemma get_filter_same m a : get (filter (fun e => negb (N.eqb (fst e) a)) m) a = 0.
Proof.
  induction m as [|[k v] m IH]; cbn [filter get fst]; [reflexivity|].
  destruct (N.eqb_spec k a) as [->|Hne]; cbn [negb].
  - exact IH.
  - cbn [get]. destruct (N.eqb_spec k a); [congruence|]. lia.
Qed.

Lemma get_filter_other m a b : a <> b -> get (filter (fun e => negb (N.eqb (fst e) a)) m) b = get m b.
Proof.
  intros Hab. induction m as [|[k v] m IH]; cbn [filter get fst]; [reflexivity|].
  destruct (N.eqb_spec k a) as [->|Hne]; cbn [negb].
  - destruct (N.eqb_spec a b); [congruence|]. lia.
  - cbn [get]. lia.
Qed.

Lemma total_filter m a : total (filter (fun e => negb (N.eqb (fst e) a)) m) = total m - get m a.
Proof.
  unfold total. induction m as [|[k v] m IH]; cbn [filter get fst fold_right snd]; [reflexivity|].
  destruct (N.eqb_spec k a) as [->|Hne]; cbn [negb fold_right snd]; lia.
Qed.

Lemma get_set_same m a v : get (set m a v) a = v.
Proof. unfold set. cbn [get]. rewrite N.eqb_refl, get_filter_same. lia. Qed.

Lemma get_set_other m a v b : a <> b -> get (set m a v) b = get m b.
Proof.
  intros Hab. unfold set. cbn [get]. destruct (N.eqb_spec a b); [congruence|].
  rewrite get_filter_other by assumption. lia.
Qed.

Lemma total_set m a v : total (set m a v) = total m - get m a + v.
Proof. unfold set. change (total ((a, v) :: ?l)) with (v + total l). rewrite total_filter. lia. Qed.

Lemma NonNeg_filter m (f : addr * Z -> bool) : NonNeg m -> NonNeg (filter f m).
Proof.
  unfold NonNeg. intros H. apply Forall_forall. intros x Hx. apply filter_In in Hx.
  rewrite Forall_forall in H. apply H. tauto.
Qed.

Lemma NonNeg_set m a v : NonNeg m -> 0 <= v -> NonNeg (set m a v).
Proof. intros Hm Hv. unfold set. constructor; [exact Hv|]. apply NonNeg_filter. exact Hm. Qed.

Lemma get_nonneg m a : NonNeg m -> 0 <= get m a.
Proof.
  induction 1 as [|[k v] m Hv Hm IH]; cbn [get]; [lia|]. cbn [snd] in Hv.
  destruct (N.eqb k a); lia.
Qed.

Lemma get_pair_le_total m a b : NonNeg m -> a <> b -> get m a + get m b <= total m.
Proof.
  intros Hm Hab. unfold total. induction Hm as [|[k v] m Hv Hm IH]; cbn [get fold_right snd]; [lia|].
  cbn [snd] in Hv. destruct (N.eqb_spec k a), (N.eqb_spec k b); subst; try congruence; lia.
Qed.

(** With a non-negative sheet whose total the marker account covers, nobody else holds anything. *)
Lemma recalled_all m e a : NonNeg m -> total m <= get m e -> a <> e -> get m a = 0.
Proof.
  intros Hm Hle Ha. pose proof (get_pair_le_total m a e Hm Ha). pose proof (get_nonneg m a Hm). lia.
Qed.

#[local] Opaque get set total.

(** * Bank primitives *)
Definition frame (s s' : state) : Prop :=
  maxsupply s' = maxsupply s /\ govparam s' = govparam s /\ gen s' = gen s /\ esc s' = esc s /\ mk s' = mk s.

Lemma adjust_spec s w s' :
  adjust s w = Some s' ->
  frame s s' /\ supply s' = w /\
  get (bal s') (esc s) = get (bal s) (esc s) + (w - supply s) /\
  (forall a, a <> esc s -> get (bal s') a = get (bal s) a) /\
  (BankInv s -> BankInv s').
Proof.
  unfold adjust, frame, BankInv.
  destruct (Z.ltb_spec (supply s) w) as [Hlt|Hge].
  - intros [= <-]. unfold mint_escrow, set_bank. cbn [mk bal supply maxsupply govparam gen esc].
    rewrite get_set_same. repeat split; try lia.
    + intros a Ha. apply get_set_other. congruence.
    + apply NonNeg_set; [tauto|]. pose proof (get_nonneg (bal s) (esc s)). intuition lia.
    + rewrite total_set. intuition lia.
  - destruct (Z.ltb_spec w (supply s)) as [Hlt|Hge'].
    + unfold burn_escrow. destruct (Z.leb_spec (supply s - w) (get (bal s) (esc s))) as [Hle|Hgt]; [|discriminate].
      intros [= <-]. unfold set_bank. cbn [mk bal supply maxsupply govparam gen esc].
      rewrite get_set_same. repeat split; try lia.
      * intros a Ha. apply get_set_other. congruence.
      * apply NonNeg_set; [tauto|lia].
      * rewrite total_set. intuition lia.
    + intros [= <-]. repeat split; try lia; tauto.
Qed.

Lemma move_spec s f t amt s' :
  move s f t amt = Some s' -> 0 <= amt ->
  frame s s' /\ supply s' = supply s /\ (BankInv s -> BankInv s').
Proof.
  unfold move, frame, BankInv. cbv zeta.
  destruct (Z.leb_spec amt (get (bal s) f)) as [Hle|Hgt]; [|discriminate].
  intros [= <-] Hamt. unfold set_bank. cbn [mk bal supply maxsupply govparam gen esc].
  repeat split; try reflexivity.
  - apply NonNeg_set.
    + apply NonNeg_set; [tauto|lia].
    + assert (NonNeg (set (bal s) f (get (bal s) f - amt))) as Hn by (apply NonNeg_set; [tauto|lia]).
      pose proof (get_nonneg _ t Hn). lia.
  - rewrite !total_set. destruct H as [_ ->].
    destruct (N.eq_dec f t) as [->|Hne].
    + rewrite get_set_same. lia.
    + rewrite get_set_other by assumption. lia.
Qed.

Lemma frame_refl s : frame s s.
Proof. unfold frame. tauto. Qed.

(** * Breaking a successful step into the successful branches *)
Ltac brk :=
  repeat match goal with
  | H : None = Some _ |- _ => discriminate H
  | H : Some _ = Some _ |- _ => injection H as H
  | H : bind ?e _ = Some _ |- _ => let E := fresh "E" in destruct e eqn:E; cbn [bind] in H
  | H : (if ?b then _ else _) = Some _ |- _ => let E := fresh "E" in destruct b eqn:E
  | H : match ?x with _ => _ end = Some _ |- _ => let E := fresh "E" in destruct x eqn:E
  end.

Ltac open_step H :=
  unfold step_opt, finalize, activate, add_account, increase_supply, decrease_supply in H; brk.

Ltac use_specs :=
  repeat match goal with
  | H : adjust _ _ = Some _ |- _ =>
      apply adjust_spec in H;
      let F := fresh "F" in let S := fresh "S" in let Es := fresh "Es" in let Ot := fresh "Ot" in let B := fresh "B" in
      destruct H as (F & S & Es & Ot & B)
  | H : move _ _ _ ?amt = Some _ |- _ =>
      apply move_spec in H; [|lia];
      let F := fresh "F" in let S := fresh "S" in let B := fresh "B" in
      destruct H as (F & S & B)
  end.

Ltac simp_state :=
  unfold frame, BankInv in *;
  cbn [set_mk set_bank set_params mk bal supply maxsupply govparam gen esc
       with_status with_supply with_access st msupply fixed govctl ty forced manager access] in *.

(** Drops boolean side conditions that are not integer comparisons (they only slow [lia] down). *)
Ltac slim :=
  repeat match goal with
  | H : ?b = _ |- _ =>
      match type of b with
      | bool => lazymatch b with
                | Z.leb _ _ => fail
                | Z.ltb _ _ => fail
                | Z.eqb _ _ => fail
                | _ => clear H
                end
      end
  end.

(** * The bank invariant: balances non-negative, supply = their sum *)
Lemma step_opt_bank s o s' : step_opt s o = Some s' -> BankInv s -> BankInv s'.
Proof.
  intros H HB. destruct o; open_step H; subst; use_specs; simp_state; try tauto.
Qed.

(** * Recorded supply of an active fixed-supply marker = bank supply *)
Ltac fin_fixed HF :=
  let mm := fresh "mm" in let Hmm := fresh "Hmm" in let Hst := fresh "Hst" in let Hfx := fresh "Hfx" in
  intros mm Hmm Hst Hfx;
  repeat match goal with
  | Hx : _ /\ _ |- _ => destruct Hx
  end;
  repeat match goal with
  | Hx : mk ?x = mk ?y |- _ => rewrite Hx in *
  end;
  repeat match goal with
  | Hx : mk ?x = Some _, Hy : mk ?x = Some _ |- _ => rewrite Hx in Hy
  | Hx : mk ?x = None, Hy : mk ?x = Some _ |- _ => rewrite Hx in Hy
  end;
  simp_state;
  try (injection Hmm as Hmm; subst mm); simp_state;
  try (match type of Hst with ?x = Active => is_var x; subst x end);
  unfold status_eqb in *; cbn [rank] in *;
  try discriminate; try congruence; try lia;
  try (match goal with
       | Hm : mk _ = Some ?m |- _ =>
           let HF2 := fresh "HF2" in
           pose proof (HF m Hm) as HF2; simp_state; try congruence; try lia;
           try (rewrite HF2 by congruence); try congruence; try lia
       end);
  try solve [ repeat match goal with Hs : supply _ = supply _ |- _ => rewrite Hs end;
              eapply HF; first [reflexivity | eassumption | congruence] ].

Lemma step_opt_fixed s o s' : step_opt s o = Some s' -> FixedExact s -> FixedExact s'.
Proof.
  intros H HF. unfold FixedExact in *.
  destruct o; open_step H; subst; use_specs; simp_state; fin_fixed HF.
Qed.

(** * Lifetime order: removals, then status; never decreases *)
Lemma rank_bounds x : 1 <= rank x <= 5.
Proof. destruct x; cbn; lia. Qed.

Ltac know_mk :=
  repeat match goal with
  | Hx : _ /\ _ |- _ => destruct Hx
  end;
  repeat match goal with
  | Hx : mk ?x = mk ?y |- _ => rewrite Hx in *
  end;
  repeat match goal with
  | Hx : mk ?x = Some _, Hy : mk ?x = Some _ |- _ => rewrite Hx in Hy; injection Hy as Hy; subst
  | Hx : mk ?x = None, Hy : mk ?x = Some _ |- _ => rewrite Hx in Hy; discriminate Hy
  end.

Lemma step_opt_lifepos s o s' : step_opt s o = Some s' -> lifepos s <= lifepos s'.
Proof.
  intros H. unfold lifepos.
  destruct o; open_step H; subst; use_specs; simp_state; know_mk; simp_state;
    repeat match goal with
    | Hx : mk ?x = _ |- context [mk ?x] => rewrite Hx
    | Hx : gen ?x = _ |- context [gen ?x] => rewrite Hx
    | Hx : st ?m = _ |- context [st ?m] => rewrite Hx
    end;
    simp_state;
    repeat match goal with
    | Hx : st ?m = _ |- context [st ?m] => rewrite Hx
    end;
    unfold status_eqb in *; cbn [rank] in *; slim;
    repeat match goal with
    | |- context [rank ?x] => lazymatch goal with
                              | _ : 1 <= rank x <= 5 |- _ => fail
                              | _ => pose proof (rank_bounds x)
                              end
    end;
    try lia.
Qed.
