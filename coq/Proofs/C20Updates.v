(** C20: configuration changes after creation.  MsgGovManageFees, MsgMarketManageReqAttrs and flag
    updates keep the market well-formed and keep the store in step with the configuration as
    written; hence admission after ANY sequence of such changes is the declarative rule evaluated
    on the resulting configuration. *)
From Coq Require Import ZArith List Bool String Ascii Lia ZifyBool.
From PV Require Import Exchange.Arith Proofs.ArithProofs Exchange.ReqAttr Exchange.FeeCheck Exchange.AdmitSpec
     Proofs.C20Proofs Proofs.C20Defs Proofs.C20Coins Proofs.C20Norm.
Import ListNotations.
Open Scope Z_scope.

(** ** The keyed flat-fee store *)
Lemma del_flat_in d l c : In c (del_flat d l) <-> In c l /\ denom_of c <> d.
Proof.
  unfold del_flat. rewrite filter_In. split; intros [H1 H2]; split; auto.
  - apply negb_true_iff in H2. apply String.eqb_neq in H2. exact H2.
  - apply negb_true_iff. apply String.eqb_neq. exact H2.
Qed.

Lemma nodup_map_filter {A B} (g : A -> B) (p : A -> bool) l :
  NoDup (map g l) -> NoDup (map g (filter p l)).
Proof.
  induction l as [|x l IH]; cbn [map filter]; intros ND; [constructor|].
  inversion ND as [|? ? Hn ND']; subst. destruct (p x); cbn [map]; [|auto].
  constructor; [|auto]. intros HI. apply Hn. apply in_map_iff in HI. destruct HI as (y & E & HI).
  apply filter_In in HI. apply in_map_iff. exists y. tauto.
Qed.

Lemma del_flat_wf d l : flats_wf l -> flats_wf (del_flat d l).
Proof. apply nodup_map_filter. Qed.

Lemma nodup_app_one {A} (l : list A) x : NoDup l -> ~ In x l -> NoDup (l ++ [x]).
Proof.
  induction l as [|y l IH]; cbn [app]; intros ND NI; [constructor; [intros []|constructor]|].
  inversion ND as [|? ? Hn ND']; subst. constructor.
  - rewrite in_app_iff. intros [H|[H|[]]]; [contradiction|]. subst. apply NI. left; reflexivity.
  - apply IH; [assumption|]. intros H. apply NI. right; assumption.
Qed.

Lemma set_flat_wf c l : flats_wf l -> flats_wf (set_flat c l).
Proof.
  intros W. unfold set_flat, flats_wf. rewrite map_app. cbn [map].
  apply nodup_app_one; [apply del_flat_wf; assumption|].
  intros HI. apply in_map_iff in HI. destruct HI as (y & E & HI). apply del_flat_in in HI.
  destruct HI as [_ HN]. apply HN. exact E.
Qed.

Lemma fold_del_flat_wf rem l : flats_wf l -> flats_wf (fold_left (fun l c => del_flat (denom_of c) l) rem l).
Proof. revert l. induction rem as [|c rem IH]; intros l W; cbn [fold_left]; [assumption|]. apply IH, del_flat_wf, W. Qed.
Lemma fold_set_flat_wf add l : flats_wf l -> flats_wf (fold_left (fun l c => set_flat c l) add l).
Proof. revert l. induction add as [|c add IH]; intros l W; cbn [fold_left]; [assumption|]. apply IH, set_flat_wf, W. Qed.

Lemma update_flats_wf cur rem add : flats_wf cur -> flats_wf (update_flats cur rem add).
Proof. intros W. unfold update_flats. apply fold_set_flat_wf, fold_del_flat_wf, W. Qed.

Lemma del_flat_pos d l : flats_pos l -> flats_pos (del_flat d l).
Proof.
  unfold flats_pos. rewrite !Forall_forall. intros H c HI. apply del_flat_in in HI. apply H. tauto.
Qed.
Lemma set_flat_pos c l : 0 < amt_of c -> flats_pos l -> flats_pos (set_flat c l).
Proof.
  intros Hc H. unfold set_flat, flats_pos. apply Forall_app. split; [apply del_flat_pos; assumption|].
  constructor; [assumption|constructor].
Qed.
Lemma update_flats_pos cur rem add : flats_pos cur -> flats_pos add -> flats_pos (update_flats cur rem add).
Proof.
  intros W Wa. unfold update_flats.
  assert (W1 : flats_pos (fold_left (fun l c => del_flat (denom_of c) l) rem cur)).
  { revert cur W. induction rem as [|c rem IH]; intros cur W; cbn [fold_left]; [assumption|]. apply IH, del_flat_pos, W. }
  revert W1. generalize (fold_left (fun l c => del_flat (denom_of c) l) rem cur). intros l W1.
  revert l W1. induction add as [|c add IH]; intros l W1; cbn [fold_left]; [assumption|].
  inversion Wa as [|? ? Hc Wa']; subst. apply IH; [assumption|]. apply set_flat_pos; assumption.
Qed.

(** ** The keyed ratio store *)
Lemma del_ratio_in k l r : In r (del_ratio k l) <-> In r l /\ ratio_key r <> ratio_key k.
Proof.
  unfold del_ratio, same_denoms, ratio_key. rewrite filter_In. split; intros [H1 H2]; split; auto.
  - apply negb_true_iff in H2. apply andb_false_iff in H2. intros [= E1 E2].
    destruct H2 as [H2|H2]; apply String.eqb_neq in H2; contradiction.
  - apply negb_true_iff. apply andb_false_iff.
    destruct (String.eqb_spec (r_pd r) (r_pd k)) as [E1|N1]; [|left; reflexivity].
    destruct (String.eqb_spec (r_fd r) (r_fd k)) as [E2|N2]; [|right; reflexivity].
    exfalso. apply H2. congruence.
Qed.

Lemma del_ratio_wf k l : ratios_wf l -> ratios_wf (del_ratio k l).
Proof. unfold ratios_wf. rewrite !Forall_forall. intros H r HI. apply del_ratio_in in HI. apply H. tauto. Qed.
Lemma set_ratio_wf r l : ratio_wf r -> ratios_wf l -> ratios_wf (set_ratio r l).
Proof.
  intros Hr H. unfold set_ratio, ratios_wf. apply Forall_app. split; [apply del_ratio_wf; assumption|].
  constructor; [assumption|constructor].
Qed.
Lemma update_ratios_wf cur rem add : ratios_wf cur -> ratios_wf add -> ratios_wf (update_ratios cur rem add).
Proof.
  intros W Wa. unfold update_ratios.
  assert (W1 : ratios_wf (fold_left (fun l r => del_ratio r l) rem cur)).
  { revert cur W. induction rem as [|c rem IH]; intros cur W; cbn [fold_left]; [assumption|]. apply IH, del_ratio_wf, W. }
  revert W1. generalize (fold_left (fun l r => del_ratio r l) rem cur). intros l W1.
  revert l W1. induction add as [|c add IH]; intros l W1; cbn [fold_left]; [assumption|].
  inversion Wa as [|? ? Hc Wa']; subst. apply IH; [assumption|]. apply set_ratio_wf; assumption.
Qed.

Lemma del_ratio_keys k l : ratio_keys_nodup l -> ratio_keys_nodup (del_ratio k l).
Proof. apply nodup_map_filter. Qed.
Lemma set_ratio_keys r l : ratio_keys_nodup l -> ratio_keys_nodup (set_ratio r l).
Proof.
  intros W. unfold set_ratio, ratio_keys_nodup. rewrite map_app. cbn [map].
  apply nodup_app_one; [apply del_ratio_keys; assumption|].
  intros HI. apply in_map_iff in HI. destruct HI as (y & E & HI). apply del_ratio_in in HI.
  destruct HI as [_ HN]. apply HN. exact E.
Qed.
Lemma update_ratios_keys cur rem add : ratio_keys_nodup cur -> ratio_keys_nodup (update_ratios cur rem add).
Proof.
  intros W. unfold update_ratios.
  assert (W1 : ratio_keys_nodup (fold_left (fun l r => del_ratio r l) rem cur)).
  { revert cur W. induction rem as [|c rem IH]; intros cur W; cbn [fold_left]; [assumption|]. apply IH, del_ratio_keys, W. }
  revert W1. generalize (fold_left (fun l r => del_ratio r l) rem cur). intros l W1.
  revert l W1. induction add as [|c add IH]; intros l W1; cbn [fold_left]; [assumption|].
  apply IH. apply set_ratio_keys; assumption.
Qed.

(** ** What ValidateBasic guarantees about the additions *)
Lemma ratio_valid_wf r : ratio_valid r = true -> ratio_wf r.
Proof. unfold ratio_valid, ratio_wf. intros H. lia. Qed.

Lemma validate_seller_ratios_wf l : validate_seller_ratios l = true -> ratios_wf l.
Proof.
  unfold validate_seller_ratios. intros H. apply andb_true_iff in H. destruct H as [_ H].
  unfold ratios_wf. rewrite Forall_forall. intros r HI. rewrite forallb_forall in H.
  specialize (H r HI). apply andb_true_iff in H. apply ratio_valid_wf. tauto.
Qed.
Lemma validate_buyer_ratios_wf l : validate_buyer_ratios l = true -> ratios_wf l.
Proof.
  unfold validate_buyer_ratios. intros H. apply andb_true_iff in H. destruct H as [_ H].
  unfold ratios_wf. rewrite Forall_forall. intros r HI. rewrite forallb_forall in H.
  apply ratio_valid_wf. auto.
Qed.
Lemma validate_add_remove_flats_pos add rem : validate_add_remove_flats add rem = true -> flats_pos add.
Proof.
  unfold validate_add_remove_flats, validate_fee_options. intros H.
  apply andb_true_iff in H. destruct H as [H _]. apply andb_true_iff in H. destruct H as [_ H].
  unfold flats_pos. rewrite Forall_forall. rewrite forallb_forall in H. intros c HI.
  specialize (H c HI). unfold coin_pos in H. lia.
Qed.

(** ** MsgGovManageFees keeps the market well-formed *)
Ltac split_valid H :=
  unfold fee_msg_valid in H; repeat (apply andb_true_iff in H; let H' := fresh "V" in destruct H as [H H']).

Lemma manage_fees_wf m f : market_wf m -> market_wf (manage_fees m f).
Proof.
  intros W. unfold manage_fees. destruct (fee_msg_valid f) eqn:V; [|exact W].
  destruct W as (W1 & W2 & W3 & W4 & W5 & W6 & W7).
  split_valid V.
  unfold market_wf. cbn [m_create_ask m_create_bid m_create_com m_seller_flat m_seller_ratios m_buyer_flat m_buyer_ratios].
  repeat split; try (apply update_flats_wf; assumption);
    apply update_ratios_wf; try assumption;
    [apply validate_seller_ratios_wf|apply validate_buyer_ratios_wf]; assumption.
Qed.

Lemma manage_fees_ok m f : market_ok m -> market_ok (manage_fees m f).
Proof.
  intros (W & K1 & K2 & P1 & P2 & P3 & P4 & P5).
  split; [apply manage_fees_wf; assumption|].
  unfold manage_fees. destruct (fee_msg_valid f) eqn:V; [|repeat split; assumption].
  split_valid V.
  cbn [m_create_ask m_create_bid m_create_com m_seller_flat m_seller_ratios m_buyer_flat m_buyer_ratios].
  repeat split; try (apply update_ratios_keys; assumption);
    apply update_flats_pos; try assumption; eapply validate_add_remove_flats_pos; eassumption.
Qed.

(** ** The store stays in step with the configuration *)
Lemma manage_fees_clear m f : clear_reqs (manage_fees m f) = manage_fees (clear_reqs m) f.
Proof. unfold manage_fees. destruct (fee_msg_valid f); reflexivity. Qed.

Lemma manage_fees_stored_of m s f :
  stored_of m s -> stored_of (manage_fees m f) (manage_fees_stored s f).
Proof.
  intros (Em & Ea & Eb & Ec). unfold stored_of.
  cbn [manage_fees_stored s_mkt s_req_ask s_req_bid s_req_com]. rewrite Em, manage_fees_clear.
  unfold manage_fees. destruct (fee_msg_valid f); cbn [m_req_ask m_req_bid m_req_com]; auto.
Qed.

Definition nrm (s : string) : bytes := normalize_name (bytes_of s).

Lemma map_nrm l : map normalize_name (map bytes_of l) = map nrm l.
Proof. rewrite map_map. reflexivity. Qed.

Lemma filter_map_comm {A B} (g : A -> B) (p : B -> bool) l :
  filter p (map g l) = map g (filter (fun x => p (g x)) l).
Proof.
  induction l as [|x l IH]; cbn [map filter]; [reflexivity|].
  destruct (p (g x)); cbn [map]; rewrite IH; reflexivity.
Qed.

Lemma filter_all {A} (p : A -> bool) l : existsb (fun a => negb (p a)) l = false -> filter p l = l.
Proof.
  induction l as [|x l IH]; cbn [existsb filter]; [reflexivity|].
  intros H. apply orb_false_iff in H. destruct H as [H1 H2]. apply negb_false_iff in H1. rewrite H1, IH by assumption.
  reflexivity.
Qed.

(** One list: the transcription on the normalised store and the declarative change on the text
    agree on acceptance and on the result. *)
Lemma update_reqs_agree cur rem add :
  match update_req_attrs (map nrm cur) (map nrm rem) (map nrm add), cfg_update_reqs cur rem add with
  | Some l, Some c => l = map nrm c
  | None, None => True
  | _, _ => False
  end.
Proof.
  unfold update_req_attrs, cfg_update_reqs. fold nrm.
  destruct (existsb (fun a => negb (mem_bytes a (map nrm cur))) (map nrm rem)) eqn:E1; cbn [orb]; [exact I|].
  destruct (existsb (fun a => mem_bytes a (map nrm cur)) (map nrm add)) eqn:E2; [exact I|].
  rewrite map_app, filter_map_comm. f_equal.
  apply filter_all. rewrite <- E2. clear. induction (map nrm add) as [|x l IH]; cbn [existsb]; [reflexivity|].
  rewrite negb_involutive, IH. reflexivity.
Qed.

Lemma attr_msg_valid_oks a :
  attr_msg_valid a = true ->
  snd (normalize_req_attrs (map bytes_of (am_ask_add a))) = true /\
  snd (normalize_req_attrs (map bytes_of (am_bid_add a))) = true /\
  snd (normalize_req_attrs (map bytes_of (am_com_add a))) = true.
Proof.
  unfold attr_msg_valid, validate_add_remove_req_attrs, validate_req_attrs, normalize_req_attrs. cbv zeta. intros H.
  repeat match goal with H : _ && _ = true |- _ => apply andb_true_iff in H; destruct H end.
  cbn [snd]. repeat split; assumption.
Qed.

Lemma clear_with_reqs m ra rb rc : clear_reqs (with_reqs m ra rb rc) = clear_reqs m.
Proof. reflexivity. Qed.

Lemma manage_req_attrs_agree m s a :
  stored_of m s ->
  match manage_req_attrs s a, cfg_manage_req_attrs m a with
  | Some s', Some m' => stored_of m' s'
  | None, None => True
  | _, _ => False
  end.
Proof.
  intros (Em & Ea & Eb & Ec). unfold manage_req_attrs, cfg_manage_req_attrs.
  destruct (attr_msg_valid a && am_auth a) eqn:V; [|exact I].
  apply andb_true_iff in V. destruct V as [V _]. destruct (attr_msg_valid_oks a V) as (O1 & O2 & O3).
  unfold normalize_req_attrs in *. cbn [snd] in O1, O2, O3. rewrite O1, O2, O3. cbn [andb].
  rewrite Ea, Eb, Ec, !map_nrm.
  pose proof (update_reqs_agree (m_req_ask m) (am_ask_rem a) (am_ask_add a)) as A1.
  pose proof (update_reqs_agree (m_req_bid m) (am_bid_rem a) (am_bid_add a)) as A2.
  pose proof (update_reqs_agree (m_req_com m) (am_com_rem a) (am_com_add a)) as A3.
  destruct (update_req_attrs (map nrm (m_req_ask m)) _ _), (cfg_update_reqs (m_req_ask m) _ _); try contradiction;
  destruct (update_req_attrs (map nrm (m_req_bid m)) _ _), (cfg_update_reqs (m_req_bid m) _ _); try contradiction;
  destruct (update_req_attrs (map nrm (m_req_com m)) _ _), (cfg_update_reqs (m_req_com m) _ _); try contradiction;
    try exact I.
  unfold stored_of. cbn [s_mkt s_req_ask s_req_bid s_req_com with_reqs m_req_ask m_req_bid m_req_com].
  rewrite !map_nrm, clear_with_reqs. subst. auto.
Qed.

Lemma with_reqs_wf m ra rb rc : market_wf m -> market_wf (with_reqs m ra rb rc).
Proof. intros W; exact W. Qed.
Lemma with_reqs_ok m ra rb rc : market_ok m -> market_ok (with_reqs m ra rb rc).
Proof. intros W; exact W. Qed.

Lemma cfg_manage_req_attrs_shape m a m' :
  cfg_manage_req_attrs m a = Some m' -> exists ra rb rc, m' = with_reqs m ra rb rc.
Proof.
  unfold cfg_manage_req_attrs. destruct (attr_msg_valid a && am_auth a); [|discriminate].
  destruct (cfg_update_reqs (m_req_ask m) _ _) as [ra|]; [|discriminate].
  destruct (cfg_update_reqs (m_req_bid m) _ _) as [rb|]; [|discriminate].
  destruct (cfg_update_reqs (m_req_com m) _ _) as [rc|]; [|discriminate].
  intros [= <-]. eauto.
Qed.

(** ** One step, any step *)
Lemma step_invariant m s o :
  market_wf m -> stored_of m s ->
  market_wf (step_cfg m o) /\ stored_of (step_cfg m o) (step_stored s o).
Proof.
  intros W S. destruct o as [ao us ac|f|a]; cbn [step_cfg step_stored].
  - split; [apply set_flags_wf; assumption|apply set_flags_stored_of; assumption].
  - split; [apply manage_fees_wf; assumption|apply manage_fees_stored_of; assumption].
  - pose proof (manage_req_attrs_agree m s a S) as A.
    destruct (manage_req_attrs s a) as [s'|], (cfg_manage_req_attrs m a) as [m'|] eqn:C; try contradiction.
    + split; [|assumption]. destruct (cfg_manage_req_attrs_shape _ _ _ C) as (ra & rb & rc & ->).
      apply with_reqs_wf; assumption.
    + split; assumption.
Qed.

Lemma steps_invariant ops : forall m s,
  market_wf m -> stored_of m s ->
  market_wf (fold_left step_cfg ops m) /\ stored_of (fold_left step_cfg ops m) (fold_left step_stored ops s).
Proof.
  induction ops as [|o ops IH]; intros m s W S; cbn [fold_left]; [split; assumption|].
  destruct (step_invariant m s o W S) as [W' S']. apply IH; assumption.
Qed.

Lemma set_flags_ok m ao us ac : market_ok m -> market_ok (set_flags m ao us ac).
Proof. intros W; exact W. Qed.

Lemma step_ok m o : market_ok m -> market_ok (step_cfg m o).
Proof.
  intros W. destruct o as [ao us ac|f|a]; cbn [step_cfg].
  - apply set_flags_ok; assumption.
  - apply manage_fees_ok; assumption.
  - destruct (cfg_manage_req_attrs m a) as [m'|] eqn:C; [|assumption].
    destruct (cfg_manage_req_attrs_shape _ _ _ C) as (ra & rb & rc & ->). apply with_reqs_ok; assumption.
Qed.
Lemma steps_ok ops : forall m, market_ok m -> market_ok (fold_left step_cfg ops m).
Proof. induction ops as [|o ops IH]; intros m W; cbn [fold_left]; [assumption|]. apply IH, step_ok, W. Qed.

(** ** Admission after any sequence of configuration changes *)
Lemma admission_after_config_updates m s accs a (ops : list cfg_op) :
  market_wf m -> create_market m = Some s ->
  admits_msg (Some (fold_left step_stored ops s)) accs a =
  admit_spec_msg true (fold_left step_cfg ops m) accs a.
Proof.
  intros W C. apply create_market_stored in C. fold (stored_of m s) in C.
  destruct (steps_invariant ops m s W C) as [W' S']. apply admission_msg_stored; assumption.
Qed.

(** The same for the checks made after ValidateBasic (the exported keeper methods). *)
Lemma admission_after_config_updates_keeper m s accs a (ops : list cfg_op) :
  market_wf m -> action_wf a -> create_market m = Some s ->
  admits (Some (fold_left step_stored ops s)) accs a =
  admit_spec true (fold_left step_cfg ops m) accs a.
Proof.
  intros W Wa C. apply create_market_stored in C. fold (stored_of m s) in C.
  destruct (steps_invariant ops m s W C) as [W' S']. apply admission_stored; assumption.
Qed.

(** ** The stored lists stay normalised, valid and duplicate-free *)
Lemma step_reqs_ok s o : stored_reqs_ok s -> stored_reqs_ok (step_stored s o).
Proof.
  intros R. destruct o as [ao us ac|f|a]; cbn [step_stored]; try exact R.
  destruct (manage_req_attrs s a) as [s'|] eqn:M; [|exact R].
  eapply manage_req_attrs_ok; eassumption.
Qed.

Lemma manage_req_attrs_normalised m s (ops : list cfg_op) :
  create_market m = Some s -> stored_reqs_ok (fold_left step_stored ops s).
Proof.
  intros C. apply create_market_reqs_ok in C. revert s C.
  induction ops as [|o ops IH]; intros s R; cbn [fold_left]; [assumption|]. apply IH, step_reqs_ok, R.
Qed.

(** What is stored is the normalised form of the configuration as written and changed. *)
Lemma stored_is_normalised_configuration m s (ops : list cfg_op) :
  market_wf m -> create_market m = Some s ->
  let m' := fold_left step_cfg ops m in
  let s' := fold_left step_stored ops s in
  s_req_ask s' = map normalize_name (map bytes_of (m_req_ask m')) /\
  s_req_bid s' = map normalize_name (map bytes_of (m_req_bid m')) /\
  s_req_com s' = map normalize_name (map bytes_of (m_req_com m')).
Proof.
  intros W C. cbn zeta. apply create_market_stored in C. fold (stored_of m s) in C.
  destruct (steps_invariant ops m s W C) as [_ (_ & Ea & Eb & Ec)]. auto.
Qed.

(** ** Commitment settlement fee quote *)
Lemma commitment_quote_no_bips mk fd navs total :
  m_bips (s_mkt (tables mk)) = 0 -> commitment_quote mk fd navs total = Some None.
Proof. intros H. unfold commitment_quote. rewrite H. reflexivity. Qed.

Lemma other_inputs_defined navs conv fd total :
  other_inputs navs conv fd total <> None <->
  forall c, In c total -> denom_of c = fd \/ denom_of c = conv \/ lookup_nav navs (denom_of c) conv <> None.
Proof.
  induction total as [|[d a] r IH]; cbn [other_inputs].
  - split; [intros _ c []|discriminate].
  - destruct (other_inputs navs conv fd r) as [l|] eqn:E.
    + assert (IH' : forall c, In c r -> denom_of c = fd \/ denom_of c = conv \/ lookup_nav navs (denom_of c) conv <> None)
        by (apply IH; discriminate).
      destruct (String.eqb_spec d fd) as [->|N1]; cbn [orb].
      * split; [|discriminate]. intros _ c [<-|HI]; [left; reflexivity|auto].
      * destruct (String.eqb_spec d conv) as [->|N2].
        -- split; [|discriminate]. intros _ c [<-|HI]; [right; left; reflexivity|auto].
        -- destruct (lookup_nav navs d conv) as [[aa pa]|] eqn:L.
           ++ split; [|discriminate]. intros _ c [<-|HI]; [right; right; unfold denom_of; cbn [fst]; rewrite L; discriminate|auto].
           ++ split; [congruence|]. intros H. specialize (H (d, a) (or_introl eq_refl)).
              unfold denom_of in H; cbn [fst] in H. destruct H as [H|[H|H]]; congruence.
    + split; [congruence|]. intros H. exfalso. apply (proj2 IH); [|reflexivity].
      intros c HI. apply H. right; assumption.
Qed.

(** The quote (and with it the fee step of MsgMarketCommitmentSettle, which runs the same
    function) is defined exactly when: the market has no bips; or it has an intermediary denom, a
    NAV from it to the fee denom (unless they coincide), and - when there are inputs - a NAV to
    the intermediary denom for every input denom other than the fee and intermediary denoms. *)
Lemma commitment_quote_defined_iff mk fd navs total :
  let m := s_mkt (tables mk) in
  commitment_quote mk fd navs total <> None <->
  m_bips m = 0 \/
  (m_interm m <> ""%string /\
   (m_interm m = fd \/ lookup_nav navs (m_interm m) fd <> None) /\
   (forall c, In c total -> denom_of c = fd \/ denom_of c = m_interm m \/ lookup_nav navs (denom_of c) (m_interm m) <> None)).
Proof.
  cbn zeta. unfold commitment_quote. set (m := s_mkt (tables mk)).
  destruct (Z.eqb_spec (m_bips m) 0) as [B|B]; [split; [auto|discriminate]|].
  destruct (String.eqb_spec (m_interm m) "") as [I|I].
  - split; [congruence|]. intros [H|(H & _)]; congruence.
  - destruct (String.eqb_spec (m_interm m) fd) as [E|NE].
    + destruct total as [|c0 r] eqn:T.
      * split; [|discriminate]. intros _. right. repeat split; auto; try (intros c []).
      * rewrite <- T. pose proof (other_inputs_defined navs (m_interm m) fd total) as O.
        destruct (other_inputs navs (m_interm m) fd total) as [l|].
        -- split; [|discriminate]. intros _. right. repeat split; auto; try (apply O; discriminate).
        -- split; [congruence|]. intros [H|(_ & _ & H)]; [congruence|]. exfalso. apply (proj2 O); [assumption|reflexivity].
    + destruct (lookup_nav navs (m_interm m) fd) as [[tfa tfp]|] eqn:L.
      * destruct total as [|c0 r] eqn:T.
        -- split; [|discriminate]. intros _. right. repeat split; auto; try (right; discriminate); try (intros c []).
        -- rewrite <- T. pose proof (other_inputs_defined navs (m_interm m) fd total) as O.
           destruct (other_inputs navs (m_interm m) fd total) as [l|].
           ++ split; [|discriminate]. intros _. right. repeat split; auto; try (right; discriminate); try (apply O; discriminate).
           ++ split; [congruence|]. intros [H|(_ & _ & H)]; [congruence|]. exfalso. apply (proj2 O); [assumption|reflexivity].
      * split; [congruence|]. intros [H|(_ & [H|H] & _)]; congruence.
Qed.

(** The bips a sequence of fee messages leaves: the last valid message that sets or unsets them decides. *)
Lemma manage_fees_bips m f :
  m_bips (manage_fees m f) =
  if fee_msg_valid f then update_bips (m_bips m) (fm_set_bips f) (fm_unset_bips f) else m_bips m.
Proof. unfold manage_fees. destruct (fee_msg_valid f); reflexivity. Qed.
