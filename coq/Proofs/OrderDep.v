(** C01: what the order of the ids in a settlement request decides, and what it does not.

    "At most one order (the last of its list, and only if it allows it) is partially filled ...
     every ordering of the ids in the request."

    (A) [build_at_most_one_partial]   an accepted BuildSettlement reports every order of the request;
                                      at most one is reported with fewer assets than it has, that
                                      one allows partial filling, is the last of its list, and
                                      what is left of it is [s_left];
    (B) [fill_bids_never_splits], [fill_asks_never_splits]
                                      FillBids / FillAsks remove exactly the listed orders;
    (C) [build_partial_side]          which side is split and by how much is decided by the two
                                      totals of assets alone, not by the order of the ids;
    (D) [build_order_dependence], [build_order_dependence_split]
                                      two accepted requests with the same asks and bids in another
                                      order: same bids reports, same total paid to the asks, every
                                      ask gets its price + floor share + some of the [R] < #asks
                                      units the floor shares leave over: only these units move;
    (E) [order_dependence_witness], [acceptance_depends_on_order]
                                      the dependence is real (computed on the model). *)
From Coq Require Import ZArith List Bool Lia ZifyBool PArith Permutation.
From PV Require Import Exchange.Arith Exchange.Split Exchange.Fulfill Exchange.Settle Exchange.SettleSpec
  Exchange.SurplusSpec Proofs.ArithProofs Proofs.SplitProofs Proofs.FulfillProofs
  Proofs.FulfillSteps Proofs.FulfillShape Proofs.FulfillSums Proofs.SettleProofs Proofs.SettleRefine
  Proofs.SettleFills Proofs.Surplus.
Import ListNotations.
Open Scope Z_scope.

(** ** Lists: sums over permutations, orders identified by their ids *)
Lemma sumz_perm {A} (g : A -> Z) l l' : Permutation l l' -> sumz g l = sumz g l'.
Proof. induction 1; rewrite ?sumz_cons; lia. Qed.

Lemma id_inj (U : list order) a b :
  NoDup (map o_id U) -> In a U -> In b U -> o_id a = o_id b -> a = b.
Proof.
  induction U as [|x U IH]; cbn [map In]; intros Hnd Ha Hb E; [contradiction|].
  inversion Hnd as [|? ? Hx Hnd']; subst.
  destruct Ha as [->|Ha], Hb as [->|Hb]; [reflexivity| | |apply IH; assumption];
    exfalso; apply Hx; [rewrite E|rewrite <- E]; apply in_map; assumption.
Qed.

Lemma ids_eq (U l1 : list order) : forall l2,
  NoDup (map o_id U) -> incl l1 U -> incl l2 U -> map o_id l1 = map o_id l2 -> l1 = l2.
Proof.
  induction l1 as [|a l1 IH]; intros [|b l2] Hnd H1 H2 E; cbn [map] in E; try discriminate; [reflexivity|].
  injection E as E1 E2. f_equal.
  - apply (id_inj U); [assumption|apply H1; left; reflexivity|apply H2; left; reflexivity|assumption].
  - apply IH; [assumption| | |assumption]; intros x Hx; [apply H1|apply H2]; right; exact Hx.
Qed.

Lemma in_fills_full s f : In f (s_full s) -> In f (fills_of s).
Proof. intros H. unfold fills_of. apply in_or_app. left; exact H. Qed.

Lemma in_fills_part s p : s_partial s = Some p -> In p (fills_of s).
Proof. intros H. unfold fills_of. rewrite H. apply in_or_app. right; left; reflexivity. Qed.

Lemma in_fills_inv s f : In f (fills_of s) -> In f (s_full s) \/ s_partial s = Some f.
Proof.
  unfold fills_of. intros H. apply in_app_or in H as [H|H]; [left; exact H|].
  destruct (s_partial s); cbn in H; [destruct H as [->|[]]; right; reflexivity|contradiction].
Qed.

(** ** The orders as filled, in request order
    [view asks bids s FA FB]: [FA] / [FB] are the asks / bids of the request with the partially
    filled order (if any: the last of its list) replaced by its filled part. *)
Inductive view (asks bids : list order) (s : settlement) : list order -> list order -> Prop :=
| v_none : s_left s = None -> s_partial s = None -> map fo_order (s_full s) = asks ++ bids ->
    view asks bids s asks bids
| v_ask pre o p unf : s_left s = Some unf -> s_partial s = Some p ->
    split o (o_assets (fo_order p)) = Ok (fo_order p, unf) ->
    asks = pre ++ [o] -> map fo_order (s_full s) = pre ++ bids ->
    view asks bids s (pre ++ [fo_order p]) bids
| v_bid pre o p unf : s_left s = Some unf -> s_partial s = Some p ->
    split o (o_assets (fo_order p)) = Ok (fo_order p, unf) ->
    bids = pre ++ [o] -> map fo_order (s_full s) = asks ++ pre ->
    view asks bids s asks (pre ++ [fo_order p]).

Lemma reported_view asks bids s : reported_shape asks bids s -> exists FA FB, view asks bids s FA FB.
Proof.
  unfold reported_shape. destruct (s_left s) as [unf|] eqn:El.
  - intros (pre & o & p & Hp & Hs & [[E1 E2]|[E1 E2]]).
    + exists (pre ++ [fo_order p]), bids. eapply v_ask; eassumption.
    + exists asks, (pre ++ [fo_order p]). eapply v_bid; eassumption.
  - intros [Hp E]. exists asks, bids. apply v_none; assumption.
Qed.

Lemma view_perm asks bids s FA FB : view asks bids s FA FB ->
  Permutation (map fo_order (fills_of s)) (FA ++ FB).
Proof.
  unfold fills_of. intros [El Ep E|pre o p unf El Ep Hs Ea E|pre o p unf El Ep Hs Eb E];
    rewrite Ep, map_app, E; cbn [opt_list map].
  - rewrite app_nil_r. apply Permutation_refl.
  - rewrite <- !app_assoc. apply Permutation_app_head, Permutation_app_comm.
  - rewrite <- app_assoc. apply Permutation_refl.
Qed.

Lemma view_ids asks bids s FA FB : view asks bids s FA FB ->
  map o_id FA = map o_id asks /\ map o_id FB = map o_id bids.
Proof.
  intros [El Ep E|pre o p unf El Ep Hs Ea E|pre o p unf El Ep Hs Eb E]; [split; reflexivity| |];
    destruct (split_sound _ _ _ _ Hs) as (_ & _ & (S0 & _) & _); subst; rewrite !map_app; cbn [map];
    rewrite S0; split; reflexivity.
Qed.

Lemma view_sides asks bids s FA FB : view asks bids s FA FB ->
  Forall (fun o => o_ask o = true) asks -> Forall (fun o => o_ask o = false) bids ->
  Forall (fun o => o_ask o = true) FA /\ Forall (fun o => o_ask o = false) FB.
Proof.
  intros [El Ep E|pre o p unf El Ep Hs Ea E|pre o p unf El Ep Hs Eb E] Ha Hb; [split; assumption| |];
    destruct (split_sound _ _ _ _ Hs) as (_ & _ & (_ & S1 & _) & _); subst.
  - split; [|assumption]. apply Forall_app in Ha as [Ha1 Ha2]. apply Forall_app; split; [assumption|].
    constructor; [|constructor]. rewrite S1. exact (Forall_inv Ha2).
  - split; [assumption|]. apply Forall_app in Hb as [Hb1 Hb2]. apply Forall_app; split; [assumption|].
    constructor; [|constructor]. rewrite S1. exact (Forall_inv Hb2).
Qed.

Lemma view_pos asks bids s FA FB : view asks bids s FA FB ->
  Forall (fun o => 0 < o_assets o) asks -> Forall (fun o => 0 < o_assets o) FA.
Proof.
  intros [El Ep E|pre o p unf El Ep Hs Ea E|pre o p unf El Ep Hs Eb E] Ha; try assumption.
  destruct (split_sound _ _ _ _ Hs) as (Hk & _ & _ & _ & S1 & _). subst.
  apply Forall_app in Ha as [Ha1 _]. apply Forall_app; split; [assumption|].
  constructor; [|constructor]. lia.
Qed.

(** Sums over the reported fills, side by side. *)
Lemma side_sums (g : order -> Z) FA FB :
  Forall (fun o => o_ask o = true) FA -> Forall (fun o => o_ask o = false) FB ->
  sumz (fun o => if o_ask o then g o else 0) (FA ++ FB) = sumz g FA /\
  sumz (fun o => if o_ask o then 0 else g o) (FA ++ FB) = sumz g FB.
Proof.
  intros Ha Hb. rewrite !sumz_app.
  rewrite (sumz_ext (fun o => if o_ask o then g o else 0) g FA)
    by (intros x Hx; rewrite Forall_forall in Ha; rewrite (Ha x Hx); reflexivity).
  rewrite (sumz_zero (fun o => if o_ask o then g o else 0) FB)
    by (intros x Hx; rewrite Forall_forall in Hb; rewrite (Hb x Hx); reflexivity).
  rewrite (sumz_zero (fun o => if o_ask o then 0 else g o) FA)
    by (intros x Hx; rewrite Forall_forall in Ha; rewrite (Ha x Hx); reflexivity).
  rewrite (sumz_ext (fun o => if o_ask o then 0 else g o) g FB)
    by (intros x Hx; rewrite Forall_forall in Hb; rewrite (Hb x Hx); reflexivity).
  lia.
Qed.

Lemma fills_side_sums (g : order -> Z) fs FA FB :
  Permutation (map fo_order fs) (FA ++ FB) ->
  Forall (fun o => o_ask o = true) FA -> Forall (fun o => o_ask o = false) FB ->
  sumz (ask_part (fun f => g (fo_order f))) fs = sumz g FA /\
  sumz (bid_part (fun f => g (fo_order f))) fs = sumz g FB.
Proof.
  intros HP Ha Hb. destruct (side_sums g FA FB Ha Hb) as [E1 E2].
  rewrite <- E1, <- E2, <- !(sumz_perm _ _ _ HP), !sumz_map. split; reflexivity.
Qed.

(** Everything [build_fills] and [build_sums] say, in terms of the view. *)
Record bview (asks bids : list order) (s : settlement) (FA FB : list order) : Prop := {
  bv_view : view asks bids s FA FB;
  bv_perm : Permutation (map fo_order (fills_of s)) (FA ++ FB);
  bv_idsA : map o_id FA = map o_id asks;
  bv_idsB : map o_id FB = map o_id bids;
  bv_askA : Forall (fun o => o_ask o = true) asks;
  bv_askB : Forall (fun o => o_ask o = false) bids;
  bv_sideA : Forall (fun o => o_ask o = true) FA;
  bv_sideB : Forall (fun o => o_ask o = false) FB;
  bv_nodup : NoDup (map o_id (FA ++ FB));
  bv_assets : sumz o_assets FA = sumz o_assets FB;
  bv_paid : sumz (ask_part fo_price) (fills_of s) = sumz o_price FB;
  bv_bid : forall f, In f (fills_of s) -> o_ask (fo_order f) = false ->
             In (fo_order f) FB /\ f = bid_fill (fo_order f);
  bv_bid_in : forall o, In o FB -> In (bid_fill o) (fills_of s)
}.

Lemma build_bview asks bids lk s :
  build asks bids lk = Ok s -> NoDup (map o_id (asks ++ bids)) ->
  exists FA FB, bview asks bids s FA FB.
Proof.
  intros H Hnd. destruct (build_fills _ _ _ _ H Hnd) as (r & _ & Hsh & Hok & Ha & Hb).
  destruct (build_sums _ _ _ _ H Hnd) as (Sp & Sa & _).
  destruct (reported_view _ _ _ Hsh) as (FA & FB & Hv). exists FA, FB.
  pose proof (view_perm _ _ _ _ _ Hv) as HP. destruct (view_ids _ _ _ _ _ Hv) as [Ia Ib].
  destruct (view_sides _ _ _ _ _ Hv Ha Hb) as [SdA SdB].
  destruct (fills_side_sums o_assets _ _ _ HP SdA SdB) as [A1 A2].
  destruct (fills_side_sums o_price _ _ _ HP SdA SdB) as [_ P2].
  assert (Hbid : forall f, In f (fills_of s) -> o_ask (fo_order f) = false ->
             In (fo_order f) FB /\ f = bid_fill (fo_order f)).
  { intros f Hf Hk. split.
    - assert (Hin : In (fo_order f) (FA ++ FB)) by (apply (Permutation_in _ HP), in_map, Hf).
      apply in_app_or in Hin as [Hin|Hin]; [|exact Hin].
      rewrite Forall_forall in SdA. rewrite (SdA _ Hin) in Hk. discriminate.
    - rewrite Forall_forall in Hok. specialize (Hok f Hf). unfold fill_ok in Hok. rewrite Hk in Hok.
      destruct Hok as [E1 E2]. destruct f as [o p c]. cbn in *. subst. reflexivity. }
  constructor; try assumption.
  - rewrite map_app, Ia, Ib, <- map_app. exact Hnd.
  - rewrite <- A1, <- A2. exact Sa.
  - rewrite <- P2. exact Sp.
  - intros o Ho.
    assert (Hin : In o (map fo_order (fills_of s)))
      by (apply (Permutation_in _ (Permutation_sym HP)), in_or_app; right; exact Ho).
    apply in_map_iff in Hin as (f & <- & Hf).
    rewrite Forall_forall in SdB. destruct (Hbid f Hf (SdB _ Ho)) as [_ <-]. exact Hf.
Qed.

(** ** (A) At most one order is partially filled *)
Definition short (s : settlement) (o : order) : Prop :=
  exists f, In f (fills_of s) /\ o_id (fo_order f) = o_id o /\ o_assets (fo_order f) <> o_assets o.

Lemma short_is_split asks bids s FA FB o :
  view asks bids s FA FB -> NoDup (map o_id (asks ++ bids)) -> In o (asks ++ bids) -> short s o ->
  exists pre p unf, s_left s = Some unf /\ s_partial s = Some p /\
    split o (o_assets (fo_order p)) = Ok (fo_order p, unf) /\ (asks = pre ++ [o] \/ bids = pre ++ [o]).
Proof.
  intros Hv Hnd Ho (f & Hf & Hid & Hne). apply in_fills_inv in Hf.
  assert (Hfull : forall U, map fo_order (s_full s) = U -> incl U (asks ++ bids) -> In f (s_full s) -> False).
  { intros U EU HU Hin. apply Hne. f_equal. apply (id_inj (asks ++ bids)); try assumption.
    apply HU. rewrite <- EU. apply in_map, Hin. }
  destruct Hv as [El Ep E|pre o0 p unf El Ep Hs Ea E|pre o0 p unf El Ep Hs Eb E].
  - exfalso. destruct Hf as [Hf|Hf]; [|congruence]. apply (Hfull _ E (incl_refl _) Hf).
  - destruct Hf as [Hf|Hf].
    + exfalso. apply (Hfull _ E); [|exact Hf]. subst asks. intros x Hx.
      apply in_app_or in Hx as [Hx|Hx]; apply in_or_app; [left; apply in_or_app; left|right]; exact Hx.
    + rewrite Ep in Hf. injection Hf as ->.
      destruct (split_sound _ _ _ _ Hs) as (_ & _ & (S0 & _) & _).
      assert (o = o0).
      { apply (id_inj (asks ++ bids)); try assumption; [|congruence].
        subst asks. apply in_or_app; left; apply in_or_app; right; left; reflexivity. }
      subst o0. exists pre, f, unf. repeat split; try assumption. left; assumption.
  - destruct Hf as [Hf|Hf].
    + exfalso. apply (Hfull _ E); [|exact Hf]. subst bids. intros x Hx.
      apply in_app_or in Hx as [Hx|Hx]; apply in_or_app; [left|right; apply in_or_app; left]; exact Hx.
    + rewrite Ep in Hf. injection Hf as ->.
      destruct (split_sound _ _ _ _ Hs) as (_ & _ & (S0 & _) & _).
      assert (o = o0).
      { apply (id_inj (asks ++ bids)); try assumption; [|congruence].
        subst bids. apply in_or_app; right; apply in_or_app; right; left; reflexivity. }
      subst o0. exists pre, f, unf. repeat split; try assumption. right; assumption.
Qed.

Lemma view_reports asks bids s FA FB o :
  view asks bids s FA FB -> In o (asks ++ bids) ->
  exists f, In f (fills_of s) /\ o_id (fo_order f) = o_id o /\ o_ask (fo_order f) = o_ask o /\
    o_owner (fo_order f) = o_owner o /\ o_ad (fo_order f) = o_ad o /\ o_pd (fo_order f) = o_pd o /\
    o_assets (fo_order f) <= o_assets o /\ (0 < o_assets o -> 0 < o_assets (fo_order f)).
Proof.
  intros Hv Ho.
  assert (Hfull : In o (map fo_order (s_full s)) -> exists f, In f (fills_of s) /\ fo_order f = o).
  { intros Hin. apply in_map_iff in Hin as (f & E & Hf). exists f. split; [apply in_fills_full, Hf|exact E]. }
  assert (Hsame : forall f, In f (fills_of s) /\ fo_order f = o ->
    exists f, In f (fills_of s) /\ o_id (fo_order f) = o_id o /\ o_ask (fo_order f) = o_ask o /\
    o_owner (fo_order f) = o_owner o /\ o_ad (fo_order f) = o_ad o /\ o_pd (fo_order f) = o_pd o /\
    o_assets (fo_order f) <= o_assets o /\ (0 < o_assets o -> 0 < o_assets (fo_order f))).
  { intros f [Hf E]. exists f. rewrite E. repeat split; try reflexivity; try assumption. lia. }
  assert (Hsplit : forall p unf, s_partial s = Some p -> split o (o_assets (fo_order p)) = Ok (fo_order p, unf) ->
    exists f, In f (fills_of s) /\ o_id (fo_order f) = o_id o /\ o_ask (fo_order f) = o_ask o /\
    o_owner (fo_order f) = o_owner o /\ o_ad (fo_order f) = o_ad o /\ o_pd (fo_order f) = o_pd o /\
    o_assets (fo_order f) <= o_assets o /\ (0 < o_assets o -> 0 < o_assets (fo_order f))).
  { intros p unf Ep Hs. exists p. split; [apply in_fills_part, Ep|].
    destruct (split_sound _ _ _ _ Hs) as (Hk & _ & (S0 & S1 & S2 & S3 & S4 & _) & _ & S5 & _).
    repeat split; try assumption; lia. }
  destruct Hv as [El Ep E|pre o0 p unf El Ep Hs Ea E|pre o0 p unf El Ep Hs Eb E].
  - destruct (Hfull ltac:(rewrite E; exact Ho)) as (f & Hf). apply (Hsame f Hf).
  - subst asks. apply in_app_or in Ho as [Ho|Ho]; [apply in_app_or in Ho as [Ho|Ho]|].
    + destruct (Hfull ltac:(rewrite E; apply in_or_app; left; exact Ho)) as (f & Hf). apply (Hsame f Hf).
    + destruct Ho as [->|[]]. apply (Hsplit p unf Ep Hs).
    + destruct (Hfull ltac:(rewrite E; apply in_or_app; right; exact Ho)) as (f & Hf). apply (Hsame f Hf).
  - subst bids. apply in_app_or in Ho as [Ho|Ho]; [|apply in_app_or in Ho as [Ho|Ho]].
    + destruct (Hfull ltac:(rewrite E; apply in_or_app; left; exact Ho)) as (f & Hf). apply (Hsame f Hf).
    + destruct (Hfull ltac:(rewrite E; apply in_or_app; right; exact Ho)) as (f & Hf). apply (Hsame f Hf).
    + destruct Ho as [->|[]]. apply (Hsplit p unf Ep Hs).
Qed.

(** An accepted build hands assets to every order of the request, so every order has some
    (no validity assumption on the orders is needed for that). *)
Definition K (f : ofl) : Prop :=
  f_afilled f + f_aunfilled f = o_assets (f_order f) /\ 0 <= f_afilled f /\
  (0 < f_afilled f -> 0 <= f_aunfilled f).

Lemma dist_assets_K f other amt f' : 0 < amt -> K f -> dist_assets f other amt = Ok f' -> K f'.
Proof.
  unfold dist_assets. intros Hamt (K1 & K2 & K3) H.
  destruct (Z.ltb_spec (f_aunfilled f) amt); [discriminate|]. inversion H; subst. unfold K; cbn. lia.
Qed.

Lemma alloc_assets_K fuel : forall adone asks bdone bids a1 b1,
  Forall K adone -> Forall K asks -> Forall K bdone -> Forall K bids ->
  alloc_assets fuel adone asks bdone bids = Ok (a1, b1) -> Forall K a1 /\ Forall K b1.
Proof.
  induction fuel as [|fuel IH]; intros adone asks bdone bids a1 b1 H1 H2 H3 H4 H.
  - destruct asks as [|a ar]; [|destruct bids as [|b br]]; cbn in H; try discriminate;
      inversion H; subst; split; apply Forall_app; split; auto using Forall_rev.
  - destruct asks as [|a ar]; [|destruct bids as [|b br]]; cbn [alloc_assets] in H;
      try (inversion H; subst; split; apply Forall_app; split; auto using Forall_rev; fail).
    destruct (Z.leb_spec (f_aunfilled a) 0); cbn [orb] in H; [discriminate|].
    destruct (Z.leb_spec (f_aunfilled b) 0); cbn [orb] in H; [discriminate|].
    inv_bind H. destruct x as [a' b']. unfold dist_assets2 in Hx. inv_bind Hx. inv_bind Hx. inversion Hx; subst.
    pose proof (Forall_inv H2) as Ja. pose proof (Forall_inv_tail H2) as Jar.
    pose proof (Forall_inv H4) as Jb. pose proof (Forall_inv_tail H4) as Jbr.
    assert (Ja' : K a') by (eapply dist_assets_K; [|exact Ja|exact Hx0]; lia).
    assert (Jb' : K b') by (eapply dist_assets_K; [|exact Jb|exact Hx1]; lia).
    destruct (negb (f_aunfilled a' =? 0) && negb (f_aunfilled b' =? 0)); [discriminate|].
    apply (IH _ _ _ _ _ _) in H; [assumption| | | |];
      destruct (f_aunfilled a' =? 0), (f_aunfilled b' =? 0); auto.
Qed.

Lemma split_fs_some fs : forall lft fs' lft',
  split_fs fs lft = Ok (fs', lft') -> Forall (fun f => f_afilled f <> 0) fs.
Proof.
  induction fs as [|f r IH]; intros lft fs' lft' H; cbn [split_fs] in H; [constructor|].
  destruct (Z.eqb_spec (f_afilled f) 0); [discriminate|]. constructor; [assumption|].
  destruct (f_aunfilled f =? 0); cbn [negb] in H.
  - inv_bind H. destruct x as [r' l']. apply (IH _ _ _ Hx).
  - destruct r; [constructor|discriminate].
Qed.

Lemma build_assets_pos asks bids lk s :
  build asks bids lk = Ok s -> Forall (fun o => 0 < o_assets o) (asks ++ bids).
Proof.
  unfold build. intros H.
  destruct (validate_can_settle asks bids); cbn [negb] in H; [|discriminate].
  inv_bind H. destruct x as [a1 b1]. inv_bind H. destruct x as [[a2 b2] lft]. clear H.
  destruct (phase1 _ _ _ _ Hx) as (O1a & O1b & _).
  assert (HK0 : forall l, Forall K (map new_ofl l)).
  { intros l. rewrite Forall_map. apply Forall_forall. intros o _. unfold K; cbn. lia. }
  unfold allocate_assets in Hx.
  destruct (alloc_assets_K _ _ _ _ _ _ _ (Forall_nil _) (HK0 _) (Forall_nil _) (HK0 _) Hx) as [Ka Kb].
  unfold split_partial in Hx0. inv_bind Hx0. destruct x as [a2' l1]. inv_bind Hx0. destruct x as [b2' l2].
  pose proof (split_fs_some _ _ _ _ Hx1) as Na. pose proof (split_fs_some _ _ _ _ Hx2) as Nb.
  rewrite <- O1a, <- O1b, <- map_app, Forall_map. rewrite Forall_forall in *.
  intros f Hf. apply in_app_or in Hf as [Hf|Hf].
  - destruct (Ka f Hf) as (K1 & K2 & K3). specialize (Na f Hf). cbn beta in Na. lia.
  - destruct (Kb f Hf) as (K1 & K2 & K3). specialize (Nb f Hf). cbn beta in Nb. lia.
Qed.

Theorem build_at_most_one_partial : forall asks bids lk s,
  build asks bids lk = Ok s -> NoDup (map o_id (asks ++ bids)) ->
  (* (1) every order of the request is reported, with some and at most all of its assets *)
  (forall o, In o (asks ++ bids) ->
     exists f, In f (fills_of s) /\ o_id (fo_order f) = o_id o /\ o_ask (fo_order f) = o_ask o /\
       o_owner (fo_order f) = o_owner o /\ o_ad (fo_order f) = o_ad o /\ o_pd (fo_order f) = o_pd o /\
       0 < o_assets (fo_order f) <= o_assets o) /\
  (* (2) at most one is reported with fewer assets than it has *)
  (forall o1 o2, In o1 (asks ++ bids) -> In o2 (asks ++ bids) -> short s o1 -> short s o2 -> o1 = o2) /\
  (* (3) that one allows it, is the last of its list, and the rest of it is what is left *)
  (forall o, In o (asks ++ bids) -> short s o ->
     o_partial o = true /\ (exists pre, asks = pre ++ [o] \/ bids = pre ++ [o]) /\
     exists unf f, s_left s = Some unf /\ s_partial s = Some f /\ In f (fills_of s) /\
       o_id (fo_order f) = o_id o /\ o_id unf = o_id o /\
       0 < o_assets (fo_order f) < o_assets o /\ o_assets unf = o_assets o - o_assets (fo_order f)) /\
  (* (4) nothing left: every order is reported with all its assets *)
  (s_left s = None -> forall o, In o (asks ++ bids) -> ~ short s o).
Proof.
  intros asks bids lk s H Hnd. destruct (build_bview _ _ _ _ H Hnd) as (FA & FB & Hbv).
  pose proof (bv_view _ _ _ _ _ Hbv) as Hv. pose proof (build_assets_pos _ _ _ _ H) as Hpos.
  rewrite Forall_forall in Hpos.
  split; [|split; [|split]].
  - intros o Ho. destruct (view_reports _ _ _ _ _ _ Hv Ho) as (f & Hf & E1 & E2 & E3 & E4 & E5 & E6 & E7).
    exists f. repeat split; try assumption. apply E7, Hpos, Ho.
  - intros o1 o2 H1 H2 S1 S2.
    destruct (short_is_split _ _ _ _ _ _ Hv Hnd H1 S1) as (pre1 & p1 & u1 & L1 & P1 & Sp1 & _).
    destruct (short_is_split _ _ _ _ _ _ Hv Hnd H2 S2) as (pre2 & p2 & u2 & L2 & P2 & Sp2 & _).
    rewrite P1 in P2. injection P2 as <-.
    destruct (split_sound _ _ _ _ Sp1) as (_ & _ & (I1 & _) & _).
    destruct (split_sound _ _ _ _ Sp2) as (_ & _ & (I2 & _) & _).
    apply (id_inj (asks ++ bids)); try assumption. congruence.
  - intros o Ho So. destruct (short_is_split _ _ _ _ _ _ Hv Hnd Ho So) as (pre & p & unf & El & Ep & Hs & Hor).
    destruct (split_sound _ _ _ _ Hs) as (Hk & Hpart & (I1 & _) & (I2 & _) & _ & Hu & _).
    split; [exact Hpart|]. split; [exists pre; exact Hor|].
    exists unf, p. repeat split; try assumption; try lia. apply in_fills_part, Ep.
  - intros El o Ho So. destruct (short_is_split _ _ _ _ _ _ Hv Hnd Ho So) as (pre & p & unf & El' & _).
    congruence.
Qed.

(** ** (B) FillBids and FillAsks never split an order: the listed orders are gone, all others stay *)
Lemma existsb_eqb_in id ids : existsb (Pos.eqb id) ids = true <-> In id ids.
Proof.
  rewrite existsb_exists. split.
  - intros (x & Hx & E). apply Pos.eqb_eq in E. subst. exact Hx.
  - intros Hx. exists id. split; [exact Hx|apply Pos.eqb_refl].
Qed.

Lemma orders_after_listed os fills ids :
  map (fun f => o_id (fo_order f)) fills = ids ->
  (forall id, In id ids -> orders_after os fills None id = None) /\
  (forall id, ~ In id ids -> orders_after os fills None id = find_order os id).
Proof.
  intros E. unfold orders_after. rewrite E. split; intros id Hid.
  - apply existsb_eqb_in in Hid. rewrite Hid. reflexivity.
  - destruct (existsb (Pos.eqb id) ids) eqn:Ex; [|reflexivity].
    apply existsb_eqb_in in Ex. contradiction.
Qed.

Theorem fill_bids_never_splits : forall cfg st seller ids total flat st',
  store_ok (st_orders st) -> fill_bids cfg st seller ids total flat = Ok st' ->
  (forall id, In id ids -> find_order (st_orders st') id = None) /\
  (forall id, ~ In id ids -> find_order (st_orders st') id = find_order (st_orders st) id).
Proof.
  intros cfg st seller ids total flat st' Hok H.
  destruct (fill_bids_refine _ _ _ _ _ _ _ Hok H) as (bids & rf & Gb & _ & _ & Hrest).
  cbn zeta in Hrest. destruct Hrest as (_ & _ & Hord & _).
  destruct (get_orders_spec _ _ _ _ _ Gb) as [Ib _].
  assert (E : map (fun f => o_id (fo_order f)) (map bid_fill bids) = ids)
    by (rewrite map_map; cbn [bid_fill fo_order]; exact Ib).
  destruct (orders_after_listed (st_orders st) _ _ E) as [O1 O2].
  split; intros id Hid; rewrite Hord; [apply O1|apply O2]; exact Hid.
Qed.

Theorem fill_asks_never_splits : forall cfg st buyer ids total_price fees st',
  store_ok (st_orders st) -> sorted fees -> fill_asks cfg st buyer ids total_price fees = Ok st' ->
  (forall id, In id ids -> find_order (st_orders st') id = None) /\
  (forall id, ~ In id ids -> find_order (st_orders st') id = find_order (st_orders st) id).
Proof.
  intros cfg st buyer ids tp fees st' Hok Hs H.
  destruct (fill_asks_refine _ _ _ _ _ _ _ Hok Hs H) as (asks & fills & Ga & _ & Hfull & Hrest).
  cbn zeta in Hrest. destruct Hrest as (_ & _ & Hord & _).
  destruct (get_orders_spec _ _ _ _ _ Ga) as [Ia _].
  assert (Emap : map fo_order fills = asks)
    by (apply (Forall2_map_l _ _ _ _ Hfull); intros a b (E & _); exact E).
  assert (E : map (fun f => o_id (fo_order f)) fills = ids)
    by (rewrite <- (map_map fo_order o_id), Emap; exact Ia).
  destruct (orders_after_listed (st_orders st) _ _ E) as [O1 O2].
  split; intros id Hid; rewrite Hord; [apply O1|apply O2]; exact Hid.
Qed.

(** ** (C) Which side is split, and by how much *)
Lemma view_cases asks bids s FA FB :
  view asks bids s FA FB -> sumz o_assets FA = sumz o_assets FB ->
  let SA := sumz o_assets asks in let SB := sumz o_assets bids in
  (SA = SB /\ s_left s = None /\ s_partial s = None /\ FA = asks /\ FB = bids) \/
  (SB < SA /\ exists pre o p unf, s_left s = Some unf /\ s_partial s = Some p /\
     split o (SB - sumz o_assets pre) = Ok (fo_order p, unf) /\
     asks = pre ++ [o] /\ FA = pre ++ [fo_order p] /\ FB = bids) \/
  (SA < SB /\ exists pre o p unf, s_left s = Some unf /\ s_partial s = Some p /\
     split o (SA - sumz o_assets pre) = Ok (fo_order p, unf) /\
     bids = pre ++ [o] /\ FA = asks /\ FB = pre ++ [fo_order p]).
Proof.
  intros [El Ep E|pre o p unf El Ep Hs Ea E|pre o p unf El Ep Hs Eb E] Hsum SA SB; unfold SA, SB.
  - left. repeat split; assumption.
  - right; left. destruct (split_sound _ _ _ _ Hs) as (Hk & _). subst asks.
    rewrite !sumz_app, !sumz_cons, !sumz_nil in *. split; [lia|].
    exists pre, o, p, unf. repeat split; try assumption.
    replace (sumz o_assets bids - sumz o_assets pre) with (o_assets (fo_order p)) by lia. exact Hs.
  - right; right. destruct (split_sound _ _ _ _ Hs) as (Hk & _). subst bids.
    rewrite !sumz_app, !sumz_cons, !sumz_nil in *. split; [lia|].
    exists pre, o, p, unf. repeat split; try assumption.
    replace (sumz o_assets asks - sumz o_assets pre) with (o_assets (fo_order p)) by lia. exact Hs.
Qed.

Theorem build_partial_side : forall asks bids lk s,
  build asks bids lk = Ok s -> NoDup (map o_id (asks ++ bids)) ->
  let SA := sumz o_assets asks in let SB := sumz o_assets bids in
  match s_left s with
  | None => SA = SB
  | Some unf =>
      (o_ask unf = true /\ SB < SA /\ o_assets unf = SA - SB /\
       exists pre o, asks = pre ++ [o] /\ o_id o = o_id unf) \/
      (o_ask unf = false /\ SA < SB /\ o_assets unf = SB - SA /\
       exists pre o, bids = pre ++ [o] /\ o_id o = o_id unf)
  end.
Proof.
  intros asks bids lk s H Hnd SA SB. destruct (build_bview _ _ _ _ H Hnd) as (FA & FB & Hbv).
  pose proof (bv_askA _ _ _ _ _ Hbv) as Ha. pose proof (bv_askB _ _ _ _ _ Hbv) as Hb.
  destruct (view_cases _ _ _ _ _ (bv_view _ _ _ _ _ Hbv) (bv_assets _ _ _ _ _ Hbv))
    as [(E & El & _)|[(Hlt & pre & o & p & unf & El & Ep & Hs & Ea & _)|(Hlt & pre & o & p & unf & El & Ep & Hs & Eb & _)]];
    rewrite El; [exact E| |]; fold SA SB in Hlt;
    destruct (split_sound _ _ _ _ Hs) as (Hk & _ & _ & (U0 & U1 & _) & _ & Hu & _).
  - left. assert (Hk1 : o_ask o = true).
    { rewrite Forall_forall in Ha. apply Ha. subst asks. apply in_or_app; right; left; reflexivity. }
    split; [congruence|]. split; [exact Hlt|]. split.
    + unfold SA, SB in *. subst asks. rewrite !sumz_app, !sumz_cons, !sumz_nil in *. lia.
    + exists pre, o. split; [exact Ea|congruence].
  - right. assert (Hk1 : o_ask o = false).
    { rewrite Forall_forall in Hb. apply Hb. subst bids. apply in_or_app; right; left; reflexivity. }
    split; [congruence|]. split; [exact Hlt|]. split.
    + unfold SA, SB in *. subst bids. rewrite !sumz_app, !sumz_cons, !sumz_nil in *. lia.
    + exists pre, o. split; [exact Eb|congruence].
Qed.

(** ** (D) What depends on the order of the ids *)
Lemma build_nonempty asks bids lk s : build asks bids lk = Ok s -> asks <> [].
Proof. intros H E. subst asks. unfold build in H. cbn in H. discriminate. Qed.

Lemma zip_entries {A} (g p q a : A -> Z) (P : Z -> Z -> Prop) l : forall es,
  map g l = zip_add (map p l) (zip_add (map q l) es) -> Forall2 P es (map a l) ->
  Forall (fun x => exists e, g x = p x + (q x + e) /\ P e (a x)) l.
Proof.
  induction l as [|x l IH]; intros es H HF; [constructor|].
  cbn [map] in HF. inversion HF as [|e ? es' ? He HF']; subst. cbn [map zip_add] in H.
  injection H as H1 H2. constructor; [exists e; split; assumption|apply (IH es' H2 HF')].
Qed.

(** What an ask receives: its price, its floor share of the surplus [L], and [e] of the [R]
    units the floor shares leave over. *)
Definition ask_entry (L TA R : Z) (f : filled) : Prop :=
  exists e, fo_price f = o_price (fo_order f) + floor_share L TA (o_assets (fo_order f)) + e /\
            0 <= e <= Z.max (floor_share L TA (o_assets (fo_order f))) 1 /\ e <= R.

Lemma build_ask_entries asks bids lk s FA FB :
  build asks bids lk = Ok s -> NoDup (map o_id (asks ++ bids)) ->
  Forall valid_order asks -> Forall valid_order bids -> bview asks bids s FA FB ->
  let L := sumz o_price FB - sumz o_price FA in
  let TA := sumz o_assets FA in
  let R := L - sumz (fun o => floor_share L TA (o_assets o)) FA in
  0 <= L /\ 0 <= R < Z.of_nat (length FA) /\
  forall f, In f (fills_of s) -> o_ask (fo_order f) = true -> In (fo_order f) FA /\ ask_entry L TA R f.
Proof.
  intros H Hnd Va Vb Hbv L TA R.
  destruct (build_surplus _ _ _ _ H Hnd Va Vb) as (fa & fb & HP & Ia & Ib & Sa & Sb & _ & HL & Hpr).
  pose proof (bv_perm _ _ _ _ _ Hbv) as HPo. pose proof (bv_nodup _ _ _ _ _ Hbv) as HndF.
  assert (Hincl : forall l, incl l (fa ++ fb) -> incl (map fo_order l) (FA ++ FB)).
  { intros l Hl x Hx. apply in_map_iff in Hx as (f & <- & Hf).
    apply (Permutation_in _ HPo), in_map, (Permutation_in _ (Permutation_sym HP)), Hl, Hf. }
  assert (EA : map fo_order fa = FA).
  { apply (ids_eq (FA ++ FB)); [exact HndF|apply Hincl, incl_appl, incl_refl|apply incl_appl, incl_refl|].
    rewrite map_map, Ia. symmetry. exact (bv_idsA _ _ _ _ _ Hbv). }
  assert (EB : map fo_order fb = FB).
  { apply (ids_eq (FA ++ FB)); [exact HndF|apply Hincl, incl_appr, incl_refl|apply incl_appr, incl_refl|].
    rewrite map_map, Ib. symmetry. exact (bv_idsB _ _ _ _ _ Hbv). }
  assert (EsA : sumz (fun f => o_price (fo_order f)) fa = sumz o_price FA) by (rewrite <- EA, sumz_map; reflexivity).
  assert (EsB : sumz (fun f => o_price (fo_order f)) fb = sumz o_price FB) by (rewrite <- EB, sumz_map; reflexivity).
  cbn zeta in HL, Hpr. rewrite EsA, EsB in HL, Hpr. fold L in HL, Hpr.
  set (afs := map (fun f => o_assets (fo_order f)) fa) in *.
  assert (Eafs : afs = map o_assets FA) by (unfold afs; rewrite <- EA, map_map; reflexivity).
  assert (Hpos : Forall (fun a => 0 < a) afs).
  { rewrite Eafs, Forall_map. apply (view_pos _ _ _ _ _ (bv_view _ _ _ _ _ Hbv)).
    eapply Forall_impl; [|exact Va]. intros o [Ho _]. exact Ho. }
  assert (Hne : afs <> []).
  { rewrite Eafs. intros E. apply map_eq_nil in E.
    pose proof (bv_idsA _ _ _ _ _ Hbv) as EI. rewrite E in EI. cbn in EI. symmetry in EI. apply map_eq_nil in EI.
    apply (build_nonempty _ _ _ _ H EI). }
  destruct (surplus_entry L afs HL Hpos Hne) as (HR & es & Hsur & _ & Hes). cbn zeta in HR, Hsur, Hes.
  assert (ETA : sumz idz afs = TA) by (rewrite Eafs, sumz_map; reflexivity).
  rewrite ETA in HR, Hsur, Hes.
  assert (ER : L - sumz idz (map (floor_share L TA) afs) = R).
  { unfold R. rewrite Eafs, !sumz_map. reflexivity. }
  rewrite ER in HR, Hes.
  assert (Elen : length afs = length FA) by (rewrite Eafs; apply map_length).
  rewrite Elen in HR. split; [exact HL|]. split; [exact HR|].
  rewrite Hsur in Hpr. unfold afs in Hpr, Hes. rewrite (map_map (fun f => o_assets (fo_order f)) (floor_share L TA)) in Hpr.
  pose proof (zip_entries fo_price (fun f => o_price (fo_order f))
                (fun f => floor_share L TA (o_assets (fo_order f))) (fun f => o_assets (fo_order f))
                (fun e af => 0 <= e <= Z.max (floor_share L TA af) 1 /\ e <= R) fa es Hpr Hes) as Hent.
  rewrite Forall_forall in Hent, Sb.
  intros f Hf Hk.
  assert (Hin : In f fa).
  { apply (Permutation_in _ HP) in Hf. apply in_app_or in Hf as [Hf|Hf]; [exact Hf|].
    rewrite (Sb f Hf) in Hk. discriminate. }
  split; [rewrite <- EA; apply in_map, Hin|].
  destruct (Hent f Hin) as (e & E1 & E2). exists e. split; [lia|exact E2].
Qed.

Definition dep_concl (s s' : settlement) (FA FB : list order) : Prop :=
  let L := sumz o_price FB - sumz o_price FA in
  let TA := sumz o_assets FA in
  let R := L - sumz (fun o => floor_share L TA (o_assets o)) FA in
  (* (D2) every bid is reported identically *)
  (forall f, In f (fills_of s) -> o_ask (fo_order f) = false -> In f (fills_of s')) /\
  (* (D3) surplus, what the floor shares leave over, what every ask gets *)
  0 <= L /\ 0 <= R < Z.of_nat (length FA) /\
  (forall t, t = s \/ t = s' -> forall f, In f (fills_of t) -> o_ask (fo_order f) = true ->
     In (fo_order f) FA /\ ask_entry L TA R f) /\
  (* (D4) the same ask in the two settlements: fewer than #asks units apart *)
  (forall f f', In f (fills_of s) -> In f' (fills_of s') -> o_ask (fo_order f) = true ->
     o_id (fo_order f) = o_id (fo_order f') ->
     fo_order f = fo_order f' /\ Z.abs (fo_price f - fo_price f') <= R /\
     Z.abs (fo_price f - fo_price f') < Z.of_nat (length FA)) /\
  (* (D5) the asks together are paid the same: what the bids pay *)
  sumz (ask_part fo_price) (fills_of s) = sumz (ask_part fo_price) (fills_of s') /\
  sumz (ask_part fo_price) (fills_of s) = sumz o_price FB.

Lemma dep_core asks bids asks' bids' lk s s' FA FB FA' FB' :
  build asks bids lk = Ok s -> build asks' bids' lk = Ok s' ->
  NoDup (map o_id (asks ++ bids)) -> NoDup (map o_id (asks' ++ bids')) ->
  Forall valid_order asks -> Forall valid_order bids ->
  Forall valid_order asks' -> Forall valid_order bids' ->
  bview asks bids s FA FB -> bview asks' bids' s' FA' FB' ->
  Permutation FA FA' -> Permutation FB FB' -> dep_concl s s' FA FB.
Proof.
  intros H H' Hnd Hnd' Va Vb Va' Vb' Hbv Hbv' PA PB.
  pose proof (build_ask_entries _ _ _ _ _ _ H Hnd Va Vb Hbv) as HE.
  pose proof (build_ask_entries _ _ _ _ _ _ H' Hnd' Va' Vb' Hbv') as HE'.
  cbn zeta in HE, HE'.
  rewrite <- (sumz_perm o_price _ _ PA), <- (sumz_perm o_price _ _ PB), <- (sumz_perm o_assets _ _ PA),
    <- (sumz_perm (fun o => floor_share (sumz o_price FB - sumz o_price FA) (sumz o_assets FA) (o_assets o)) _ _ PA),
    <- (Permutation_length PA) in HE'.
  unfold dep_concl. cbn zeta.
  set (L := sumz o_price FB - sumz o_price FA) in *. set (TA := sumz o_assets FA) in *.
  set (R := L - sumz (fun o => floor_share L TA (o_assets o)) FA) in *.
  destruct HE as (HL & HR & Hent). destruct HE' as (_ & _ & Hent').
  assert (Hent'' : forall f, In f (fills_of s') -> o_ask (fo_order f) = true -> In (fo_order f) FA /\ ask_entry L TA R f).
  { intros f Hf Hk. destruct (Hent' f Hf Hk) as [Hin He]. split; [|exact He].
    apply (Permutation_in _ (Permutation_sym PA)), Hin. }
  split; [|split; [exact HL|split; [exact HR|split; [|split; [|split]]]]].
  - intros f Hf Hk. destruct (bv_bid _ _ _ _ _ Hbv f Hf Hk) as [Hin ->].
    apply (bv_bid_in _ _ _ _ _ Hbv'), (Permutation_in _ PB), Hin.
  - intros t [->| ->]; assumption.
  - intros f f' Hf Hf' Hk Hid. destruct (Hent f Hf Hk) as [Hin (e & E1 & E2 & E3)].
    assert (Hin' : In (fo_order f') (FA ++ FB)).
    { apply (Permutation_in _ (Permutation_sym (Permutation_app PA PB))),
        (Permutation_in _ (bv_perm _ _ _ _ _ Hbv')), in_map, Hf'. }
    assert (Eo : fo_order f = fo_order f').
    { apply (id_inj (FA ++ FB)); [exact (bv_nodup _ _ _ _ _ Hbv)|apply in_or_app; left; exact Hin|exact Hin'|exact Hid]. }
    rewrite Eo in Hk. destruct (Hent'' f' Hf' Hk) as [_ (e' & E1' & E2' & E3')].
    rewrite Eo in E1. split; [exact Eo|]. lia.
  - rewrite (bv_paid _ _ _ _ _ Hbv), (bv_paid _ _ _ _ _ Hbv'). apply (sumz_perm o_price _ _ PB).
  - exact (bv_paid _ _ _ _ _ Hbv).
Qed.

Lemma perm_nodup_ids asks bids asks' bids' :
  Permutation asks asks' -> Permutation bids bids' ->
  NoDup (map o_id (asks ++ bids)) -> NoDup (map o_id (asks' ++ bids')).
Proof.
  intros PA PB. apply Permutation_NoDup, Permutation_map, Permutation_app; assumption.
Qed.

Lemma perm_valid (l l' : list order) : Permutation l l' -> Forall valid_order l -> Forall valid_order l'.
Proof. intros P Hl. rewrite Forall_forall in *. intros x Hx. apply Hl, (Permutation_in _ (Permutation_sym P)), Hx. Qed.

(** Nothing left over in one ordering: nothing left over in any, and only the units that the
    floor shares leave over can move between the asks. *)
Theorem build_order_dependence : forall asks bids asks' bids' lk s s',
  Permutation asks asks' -> Permutation bids bids' ->
  NoDup (map o_id (asks ++ bids)) -> Forall valid_order asks -> Forall valid_order bids ->
  build asks bids lk = Ok s -> build asks' bids' lk = Ok s' -> s_left s = None ->
  s_left s' = None /\ dep_concl s s' asks bids.
Proof.
  intros asks bids asks' bids' lk s s' PA PB Hnd Va Vb H H' El.
  pose proof (perm_nodup_ids _ _ _ _ PA PB Hnd) as Hnd'.
  pose proof (perm_valid _ _ PA Va) as Va'. pose proof (perm_valid _ _ PB Vb) as Vb'.
  destruct (build_bview _ _ _ _ H Hnd) as (FA & FB & Hbv). destruct (build_bview _ _ _ _ H' Hnd') as (FA' & FB' & Hbv').
  pose proof (view_cases _ _ _ _ _ (bv_view _ _ _ _ _ Hbv) (bv_assets _ _ _ _ _ Hbv)) as C.
  pose proof (view_cases _ _ _ _ _ (bv_view _ _ _ _ _ Hbv') (bv_assets _ _ _ _ _ Hbv')) as C'.
  cbn zeta in C, C'. rewrite <- (sumz_perm o_assets _ _ PA), <- (sumz_perm o_assets _ _ PB) in C'.
  destruct C as [(E & _ & _ & -> & ->)|[(_ & pre & o & p & unf & El1 & _)|(_ & pre & o & p & unf & El1 & _)]];
    [|congruence|congruence].
  destruct C' as [(_ & El' & _ & -> & ->)|[(Hlt & _)|(Hlt & _)]]; [|lia|lia].
  split; [exact El'|]. apply (dep_core asks bids asks' bids' lk s s' asks bids asks' bids'); assumption.
Qed.

(** The same with a split, when the last ask and the last bid are the same in both requests:
    the split order, its filled part and what is left of it are the same, and everything above
    holds for the filled parts ([FA], [FB]: the orders as filled, see [view]). *)
Theorem build_order_dependence_split : forall asks bids asks' bids' lk s s' d,
  Permutation asks asks' -> Permutation bids bids' ->
  NoDup (map o_id (asks ++ bids)) -> Forall valid_order asks -> Forall valid_order bids ->
  build asks bids lk = Ok s -> build asks' bids' lk = Ok s' ->
  last asks d = last asks' d -> last bids d = last bids' d ->
  s_left s' = s_left s /\
  option_map fo_order (s_partial s') = option_map fo_order (s_partial s) /\
  exists FA FB FA' FB', view asks bids s FA FB /\ view asks' bids' s' FA' FB' /\
    Permutation FA FA' /\ Permutation FB FB' /\ dep_concl s s' FA FB.
Proof.
  intros asks bids asks' bids' lk s s' d PA PB Hnd Va Vb H H' LA LB.
  pose proof (perm_nodup_ids _ _ _ _ PA PB Hnd) as Hnd'.
  pose proof (perm_valid _ _ PA Va) as Va'. pose proof (perm_valid _ _ PB Vb) as Vb'.
  destruct (build_bview _ _ _ _ H Hnd) as (FA & FB & Hbv). destruct (build_bview _ _ _ _ H' Hnd') as (FA' & FB' & Hbv').
  pose proof (view_cases _ _ _ _ _ (bv_view _ _ _ _ _ Hbv) (bv_assets _ _ _ _ _ Hbv)) as C.
  pose proof (view_cases _ _ _ _ _ (bv_view _ _ _ _ _ Hbv') (bv_assets _ _ _ _ _ Hbv')) as C'.
  cbn zeta in C, C'. rewrite <- (sumz_perm o_assets _ _ PA), <- (sumz_perm o_assets _ _ PB) in C'.
  assert (Hfin : s_left s' = s_left s -> option_map fo_order (s_partial s') = option_map fo_order (s_partial s) ->
            Permutation FA FA' -> Permutation FB FB' ->
            s_left s' = s_left s /\ option_map fo_order (s_partial s') = option_map fo_order (s_partial s) /\
            exists FA FB FA' FB', view asks bids s FA FB /\ view asks' bids' s' FA' FB' /\
              Permutation FA FA' /\ Permutation FB FB' /\ dep_concl s s' FA FB).
  { intros E1 E2 P1 P2. split; [exact E1|]. split; [exact E2|]. exists FA, FB, FA', FB'.
    split; [exact (bv_view _ _ _ _ _ Hbv)|]. split; [exact (bv_view _ _ _ _ _ Hbv')|]. split; [exact P1|]. split; [exact P2|].
    apply (dep_core asks bids asks' bids' lk s s' FA FB FA' FB'); assumption. }
  destruct C as [(E & El & Ep & EFA & EFB)|[(Hlt & pre & o & p & unf & El & Ep & Hs & Ea & EFA & EFB)|(Hlt & pre & o & p & unf & El & Ep & Hs & Eb & EFA & EFB)]];
  destruct C' as [(E' & El' & Ep' & EFA' & EFB')|[(Hlt' & pre' & o' & p' & unf' & El' & Ep' & Hs' & Ea' & EFA' & EFB')|(Hlt' & pre' & o' & p' & unf' & El' & Ep' & Hs' & Eb' & EFA' & EFB')]];
  try lia.
  - apply Hfin; [congruence|rewrite Ep, Ep'; reflexivity|subst; exact PA|subst; exact PB].
  - assert (Eo : o = o') by (rewrite Ea, Ea', !last_last in LA; exact LA). subst o'.
    assert (Ppre : Permutation pre pre') by (rewrite Ea, Ea' in PA; apply (Permutation_app_inv_r _ _ _ PA)).
    rewrite <- (sumz_perm o_assets _ _ Ppre), Hs in Hs'. injection Hs' as Ef Eu.
    apply Hfin; [congruence|rewrite Ep, Ep'; cbn; congruence| |subst; exact PB].
    rewrite EFA, EFA', <- Ef. apply Permutation_app_tail, Ppre.
  - assert (Eo : o = o') by (rewrite Eb, Eb', !last_last in LB; exact LB). subst o'.
    assert (Ppre : Permutation pre pre') by (rewrite Eb, Eb' in PB; apply (Permutation_app_inv_r _ _ _ PB)).
    rewrite <- (sumz_perm o_assets _ _ Ppre), Hs in Hs'. injection Hs' as Ef Eu.
    apply Hfin; [congruence|rewrite Ep, Ep'; cbn; congruence|subst; exact PA|].
    rewrite EFB, EFB', <- Ef. apply Permutation_app_tail, Ppre.
Qed.

(** ** (E) The dependence is real *)
Definition od_order (ask : bool) (id : positive) (assets price : Z) (part : bool) : order :=
  {| o_id := id; o_ask := ask; o_owner := id; o_ad := 1%positive; o_assets := assets;
     o_pd := 2%positive; o_price := price; o_fees := []; o_partial := part |}.

(** Four asks with 5,5,1,1 assets for 10,10,2,2 and two bids paying 20 and 11: a surplus of 7, floor
    shares 2,2,0,0, three units left over.  Listed 1,2,3,4 the asks are paid 14,13,2,2; listed
    3,1,2,4 they are paid 14,12,3,2: ask 2 loses the unit that ask 3 gains.  Nothing is split. *)
Definition od_a1 := od_order true 1 5 10 false.
Definition od_a2 := od_order true 2 5 10 false.
Definition od_a3 := od_order true 3 1 2 false.
Definition od_a4 := od_order true 4 1 2 false.
Definition od_bids := [od_order false 5 6 20 false; od_order false 6 6 11 false].

Example order_dependence_witness :
  Permutation [od_a1; od_a2; od_a3; od_a4] [od_a3; od_a1; od_a2; od_a4] /\
  NoDup (map o_id ([od_a1; od_a2; od_a3; od_a4] ++ od_bids)) /\
  match build [od_a1; od_a2; od_a3; od_a4] od_bids (Ok None), build [od_a3; od_a1; od_a2; od_a4] od_bids (Ok None) with
  | Ok s, Ok s' =>
      s_left s = None /\ s_left s' = None /\
      map (fun f => (o_id (fo_order f), fo_price f)) (fills_of s) =
        [(1%positive, 14); (2%positive, 13); (3%positive, 2); (4%positive, 2); (5%positive, 20); (6%positive, 11)] /\
      map (fun f => (o_id (fo_order f), fo_price f)) (fills_of s') =
        [(3%positive, 3); (1%positive, 14); (2%positive, 12); (4%positive, 2); (5%positive, 20); (6%positive, 11)] /\
      zip_add [10; 10; 2; 2] (surplus 7 [5; 5; 1; 1]) = [14; 13; 2; 2] /\
      zip_add [2; 10; 10; 2] (surplus 7 [1; 5; 5; 1]) = [3; 14; 12; 2] /\
      exists f f', In f (fills_of s) /\ In f' (fills_of s') /\ fo_order f = fo_order f' /\
                   o_ask (fo_order f) = true /\ fo_price f <> fo_price f'
  | _, _ => False
  end.
Proof.
  split; [|split].
  - apply Permutation_sym. apply (Permutation_trans (perm_swap od_a1 od_a3 _)).
    apply perm_skip, perm_swap.
  - vm_compute. repeat constructor; cbn; intros Hin; repeat (destruct Hin as [Hin|Hin]; [discriminate|]); exact Hin.
  - vm_compute. repeat split.
    eexists {| fo_order := _; fo_price := 13; fo_fees := [] |}, {| fo_order := _; fo_price := 12; fo_fees := [] |}.
    split; [right; left; reflexivity|]. split; [right; right; left; reflexivity|].
    split; [reflexivity|]. split; [reflexivity|discriminate].
Qed.

(** The same two asks (10 assets each, only ask 1 may be filled in part) and one bid for 15 assets.
    Ask 1 listed last: accepted, ask 1 is split.  Ask 1 listed first: it is filled in full, the
    order that would have to be split is ask 2, which does not allow it: rejected. *)
Definition od_p1 := od_order true 1 10 20 true.
Definition od_p2 := od_order true 2 10 20 false.
Definition od_q := [od_order false 3 15 35 false].

Example acceptance_depends_on_order :
  Permutation [od_p2; od_p1] [od_p1; od_p2] /\
  NoDup (map o_id ([od_p2; od_p1] ++ od_q)) /\
  (exists s unf, build [od_p2; od_p1] od_q (Ok None) = Ok s /\ s_left s = Some unf /\
     o_id unf = 1%positive /\ o_assets unf = 5 /\
     map (fun f => (o_id (fo_order f), o_assets (fo_order f), fo_price f)) (fills_of s) =
       [(2%positive, 10, 24); (3%positive, 15, 35); (1%positive, 5, 11)]) /\
  build [od_p1; od_p2] od_q (Ok None) = Err.
Proof.
  split; [apply perm_swap|]. split; [|split].
  - vm_compute. repeat constructor; cbn; intros Hin; repeat (destruct Hin as [Hin|Hin]; [discriminate|]); exact Hin.
  - eexists _, _. split; [vm_compute; reflexivity|]. vm_compute. repeat split.
  - vm_compute. reflexivity.
Qed.

Print Assumptions build_at_most_one_partial.
Print Assumptions fill_bids_never_splits.
Print Assumptions fill_asks_never_splits.
Print Assumptions build_partial_side.
Print Assumptions build_order_dependence.
Print Assumptions build_order_dependence_split.
Print Assumptions order_dependence_witness.
Print Assumptions acceptance_depends_on_order.
