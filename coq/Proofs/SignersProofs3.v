(** Lemmas about Metadata/Signers.v, part 3: the brute-force checker of Corr/C10.v computes the
    [Prop] rule; the endpoints' choice of required / available parties and roles implies the
    documented table (incl. the previous session's parties when a record moves); the literal
    reading of the smart-contract sentence is refuted, and holds when no party has granted to a
    contract signer. *)
From Coq Require Import ZArith List Bool Lia.
From PV Require Import Metadata.Signers Metadata.SignersSpec Proofs.SignersProofs Proofs.SignersProofs2.
Import ListNotations.
Open Scope Z_scope.

(** ** GetPartyAddresses *)
Lemma dedup_addrs_In : forall l seen a, In a (dedup_addrs seen l) <-> In a l /\ ~ In a seen.
Proof.
  induction l as [|x t IH]; intros seen a; cbn.
  - tauto.
  - destruct (mem x seen) eqn:Hm.
    + rewrite IH. apply mem_In in Hm. split.
      * intros [H1 H2]; auto.
      * intros [[<-|H1] H2]; [contradiction|auto].
    + cbn. rewrite IH. cbn.
      assert (Hx : ~ In x seen) by (intros H; apply mem_In in H; congruence).
      split.
      * intros [<-|[H1 H2]]; auto.
      * intros [[<-|H1] H2]; auto.
        destruct (Z.eq_dec x a) as [<-|Hne]; auto. right. split; auto. intros [H|H]; auto.
Qed.

Lemma party_addrs_In : forall ps a, In a (party_addrs ps) <-> In a (map p_addr ps).
Proof. intros. unfold party_addrs. rewrite dedup_addrs_In. cbn. tauto. Qed.

Lemma nonopt_addrs_In : forall ps a,
  In a (nonopt_addrs ps) <-> exists p, In p ps /\ p_opt p = false /\ p_addr p = a.
Proof.
  intros ps a. unfold nonopt_addrs. rewrite in_map_iff. split.
  - intros (p & Ha & Hp). apply filter_In in Hp as [Hp Ho]. apply negb_true_iff in Ho. eauto.
  - intros (p & Hp & Ho & Ha). exists p. split; auto. apply filter_In. split; auto. now rewrite Ho.
Qed.

Lemma required_party_addrs_In : forall ps a, In a (required_party_addrs ps) <-> In a (nonopt_addrs ps).
Proof. intros. unfold required_party_addrs. rewrite party_addrs_In. reflexivity. Qed.

(** ** Distinct parties *)
Lemma key_eqb_eq : forall a b, key_eqb a b = true <-> a = b.
Proof.
  intros [a1 a2] [b1 b2]. unfold key_eqb. cbn. rewrite andb_true_iff, !Z.eqb_eq. split.
  - intros [-> ->]; reflexivity.
  - intros H; injection H; auto.
Qed.

Lemma dedup_keys_In : forall l k, In k (dedup_keys l) <-> In k l.
Proof.
  induction l as [|x t IH]; intros k; cbn; [tauto|].
  rewrite filter_In, IH. split.
  - intros [H|[H _]]; auto.
  - intros [H|H]; auto. destruct (key_eqb x k) eqn:He.
    + left. now apply key_eqb_eq.
    + right. split; auto.
Qed.

Lemma dedup_keys_NoDup : forall l, NoDup (dedup_keys l).
Proof.
  induction l as [|x t IH]; cbn; constructor.
  - rewrite filter_In. intros [_ H]. apply negb_true_iff in H.
    assert (key_eqb x x = true) by now apply key_eqb_eq. congruence.
  - now apply NoDup_filter.
Qed.

(** The brute-force search of the checker decides the existence of the injective assignment. *)
Theorem roles_signed_b_spec : forall e signers avail roles,
  roles_signed_b e signers avail roles = true <-> role_assignment (covered e signers) avail roles.
Proof.
  intros e signers avail roles. unfold roles_signed_b, role_assignment, party_keys.
  rewrite (assign_b_spec _ _ _ _ (dedup_keys_NoDup _)). split.
  - intros (ks & Hnd & HF). exists ks. split; auto. eapply Forall2_imp; [|exact HF].
    intros k r [Hin Hok]. apply andb_prop in Hok as [Hr Hc].
    split; [now apply dedup_keys_In|]. split; [now apply Z.eqb_eq|now apply covered_b_spec].
  - intros (ks & Hnd & HF). exists ks. split; auto. eapply Forall2_imp; [|exact HF].
    intros k r (Hin & Hr & Hc). split; [now apply dedup_keys_In|].
    apply andb_true_intro. split; [now apply Z.eqb_eq|now apply covered_b_spec].
Qed.

(** ** The smart-contract sentence, literal reading *)
Lemma contract_rule_mono_wasm : forall e (U U' : Z -> Prop) signers,
  (forall s, In s signers -> is_wasm e s = true -> U s -> U' s) ->
  contract_rule e U signers -> contract_rule e U' signers.
Proof.
  intros e U U' signers Himp H l1 s l2 Heq Hw. destruct (H _ _ _ Heq Hw) as (Hl1 & Hs).
  split; auto. destruct Hs as [Hs|Hs]; [left|now right].
  apply Himp; auto. rewrite Heq. apply in_or_app; right; now left.
Qed.

Lemma with_parties_literal_except_grantees : forall e req avail roles signers,
  validate_signers_with_parties e req avail roles signers = true ->
  (forall s p, In s signers -> is_wasm e s = true -> In p (considered req avail) ->
               granted e (p_addr p) s = false) ->
  contract_rule e (is_party_signer req avail) signers.
Proof.
  intros e req avail roles signers H Hng.
  destruct (with_parties_sound _ _ _ _ _ H) as (_ & _ & _ & Hc).
  eapply contract_rule_mono_wasm; [|exact Hc].
  intros s Hs Hw (p & Hp & [Ha|Hg]); [exists p; auto|].
  rewrite (Hng s p Hs Hw Hp) in Hg. discriminate.
Qed.

(** Witness: party 4 (OWNER, required) has granted to contract 6, which signs alone. *)
Lemma with_parties_literal_refuted :
  exists e req avail roles signers,
    validate_signers_with_parties e req avail roles signers = true /\
    ~ contract_rule e (is_party_signer req avail) signers.
Proof.
  exists {| e_wasm := [6]; e_grants := [(4, 6)] |},
         [{| p_addr := 4; p_role := 5; p_opt := false |}],
         [{| p_addr := 4; p_role := 5; p_opt := false |}], [5], [6].
  split; [vm_compute; reflexivity|].
  intros H. destruct (H [] 6 [] eq_refl eq_refl) as (_ & [(p & Hp & Ha)|[Hne _]]).
  - cbn in Hp. destruct Hp as [<-|[<-|[]]]; cbn in Ha; discriminate.
  - now apply Hne.
Qed.

(** ** The endpoints *)
Lemma parties_signed_sound : forall e req avail roles signers ds,
  validate_all_required_parties_signed e req avail roles signers = Some ds ->
  (forall p, In p req -> p_opt p = false -> covered e signers (p_addr p)) /\
  role_assignment (covered e signers) avail roles.
Proof.
  intros e req avail roles signers ds H.
  apply (proj1 (all_required_parties_signed_spec e req avail roles signers)). now exists ds.
Qed.

Lemma without_sound_addrs : forall e required signers,
  validate_signers_without_parties e required signers = true ->
  forall a, In a required -> covered e signers a.
Proof. intros e required signers H. now destruct (without_parties_sound _ _ _ H). Qed.

Lemma required_signed_sound : forall e required signers ds,
  validate_all_required_signed e required signers = Some ds ->
  forall a, In a required -> covered e signers a.
Proof. intros e required signers ds H. now destruct (without_details _ _ _ _ H). Qed.

Lemma all_addrs_party_addrs : forall ps a, In a (all_addrs ps) -> In a (party_addrs ps).
Proof. intros ps a H. now apply party_addrs_In. Qed.

Lemma nonopt_cover : forall e signers req,
  (forall p, In p req -> p_opt p = false -> covered e signers (p_addr p)) ->
  forall a, In a (nonopt_addrs req) -> covered e signers a.
Proof.
  intros e signers req H a Ha. apply nonopt_addrs_In in Ha as (p & Hp & Ho & <-). auto.
Qed.

(** ** ValidateScopeValueOwnersSigners *)
Lemma vo_signers_incl : forall e signers g, In g (vo_signers e signers) -> In g signers.
Proof.
  intros e [|s0 t] g H; cbn in *; [exact H|].
  destruct (is_wasm e s0); [destruct H as [<-|[]]; now left|exact H].
Qed.

Lemma vo_loop_sound : forall e proposed sg existing used,
  vo_loop e proposed sg existing = Some used ->
  (forall x, In x existing -> x <> proposed -> covered e sg x) /\
  (forall s, In s used -> In s sg /\ exists x, In x existing /\ (x = s \/ granted e x s = true)).
Proof.
  intros e proposed sg; induction existing as [|x rest IH]; intros used H; cbn in H.
  - injection H as <-. split; [intros x []|intros s []].
  - destruct (Z.eqb_spec x proposed) as [->|Hne].
    + destruct (IH _ H) as [H1 H2]. split.
      * intros y [<-|Hy] Hn; [congruence|auto].
      * intros s Hs. destruct (H2 s Hs) as (Hin & y & Hy & Hor). split; auto. exists y. split; auto. now right.
    + destruct (mem x sg) eqn:Hm.
      * destruct (vo_loop e proposed sg rest) as [u|] eqn:HL; [|discriminate]. injection H as <-.
        destruct (IH _ eq_refl) as [H1 H2]. apply mem_In in Hm. split.
        -- intros y [<-|Hy] Hn; [now left|auto].
        -- intros s [<-|Hs]; [split; auto; exists x; split; [now left|now left]|].
           destruct (H2 s Hs) as (Hin & y & Hy & Hor). split; auto. exists y. split; auto. now right.
      * destruct (find_grantee e x sg) as [g|] eqn:Hf; [|discriminate].
        destruct (vo_loop e proposed sg rest) as [u|] eqn:HL; [|discriminate]. injection H as <-.
        destruct (IH _ eq_refl) as [H1 H2]. apply find_grantee_some in Hf as [Hg1 Hg2]. split.
        -- intros y [<-|Hy] Hn; [right; exists g; auto|auto].
        -- intros s [<-|Hs]; [split; auto; exists x; split; [now left|now right]|].
           destruct (H2 s Hs) as (Hin & y & Hy & Hor). split; auto. exists y. split; auto. now right.
Qed.

Lemma value_owners_signers_sound : forall e existing proposed signers used,
  validate_value_owners_signers e existing proposed signers = Some used ->
  forall x, In x existing -> x <> proposed -> covered e (vo_signers e signers) x.
Proof.
  intros e existing proposed signers used H.
  assert (Hl : vo_loop e proposed (vo_signers e signers) existing = Some used \/
               exists x, existing = [x] /\ x = proposed).
  { unfold validate_value_owners_signers in H. destruct existing as [|x [|y t]]; auto.
    destruct (Z.eqb_spec x proposed); [right; eauto|left; exact H]. }
  destruct Hl as [Hl|(x & -> & ->)].
  - exact (proj1 (vo_loop_sound _ _ _ _ _ Hl)).
  - intros y [<-|[]] Hn. congruence.
Qed.

Lemma covered_incl : forall e sg sg' a,
  (forall g, In g sg -> In g sg') -> covered e sg a -> covered e sg' a.
Proof.
  intros e sg sg' a Hi [H|(g & Hg & Hgr)]; [left; auto|right; exists g; auto].
Qed.

Lemma some_addrs_In : forall vos a, In a (some_addrs vos) <-> In (Some a) vos.
Proof.
  intros vos a. unfold some_addrs. rewrite in_flat_map. split.
  - intros ([x|] & Hx & Hin); [destruct Hin as [->|[]]; exact Hx|destruct Hin].
  - intros H. exists (Some a). split; auto. now left.
Qed.

(** MsgUpdateValueOwners: every current value owner is one of the signers that count (all of
    them, or only the first when that is a smart contract) or has granted to one. *)
Lemma update_value_owners_sound : forall e vos proposed signers,
  outer_accept e (OUpdateValueOwners vos proposed) signers = true ->
  vos <> [] /\
  (forall o, In o vos -> exists a, o = Some a /\ a <> proposed /\
                                   covered e (vo_signers e signers) a).
Proof.
  intros e vos proposed signers H. cbn [outer_accept] in H.
  apply andb_prop in H as [H HV]. apply andb_prop in H as [H Hnp]. apply andb_prop in H as [Hne Hall].
  split; [destruct vos; [discriminate|discriminate]|].
  intros o Ho. rewrite forallb_forall in Hall. specialize (Hall o Ho).
  destruct o as [a|]; [|discriminate]. exists a. split; auto.
  assert (Hin : In a (some_addrs vos)) by now apply some_addrs_In.
  assert (Hn : a <> proposed).
  { intros ->. apply negb_true_iff in Hnp.
    assert (mem proposed (some_addrs vos) = true) by now apply mem_In. congruence. }
  split; auto.
  destruct (validate_value_owners_signers e (dedup_addrs [] (some_addrs vos)) proposed signers)
    as [u|] eqn:HVV; [|discriminate].
  eapply value_owners_signers_sound; [exact HVV| |exact Hn].
  apply dedup_addrs_In. split; auto.
Qed.

(** ** MsgWriteScope on an existing scope with the value-owner fields *)
Lemma opt_z_eqb_refl : forall a, opt_z_eqb a a = true.
Proof. intros [a|]; cbn; [apply Z.eqb_refl|reflexivity]. Qed.

Lemma owners_unchanged_eq : forall l1 l2, owners_unchanged l1 l2 = equal_parties l1 l2.
Proof. reflexivity. Qed.

(** for duplicate-free stored owners "unchanged" is symmetric: the two lists are equal as sets *)
Lemma party_eqb_eq : forall p q, party_eqb p q = true <-> p = q.
Proof.
  intros [a r o] [a' r' o']. unfold party_eqb. cbn. rewrite !andb_true_iff, !Z.eqb_eq, eqb_true_iff.
  split; [intros [[-> ->] ->]; reflexivity|intros H; injection H; auto].
Qed.

Lemma owners_unchanged_sym : forall l1 l2,
  NoDup l1 -> owners_unchanged l1 l2 = true -> forall p, In p l2 <-> In p l1.
Proof.
  intros l1 l2 Hnd H. unfold owners_unchanged in H. apply andb_prop in H as [Hlen Hall].
  apply Nat.eqb_eq in Hlen. rewrite forallb_forall in Hall.
  assert (Hincl : incl l1 l2).
  { intros p Hp. specialize (Hall p Hp). apply existsb_exists in Hall as (q & Hq & He).
    apply party_eqb_eq in He. now subst. }
  assert (Hincl' : incl l2 l1).
  { apply NoDup_length_incl; auto. rewrite Hlen. constructor. }
  intros p. split; [apply Hincl'|apply Hincl].
Qed.

Definition vo_check (e : env) (ex pr : scope_view) (signers : list Z) : option (list Z) :=
  match sv_vo pr with
  | None => Some []
  | Some p => validate_value_owners_signers e (match sv_vo ex with Some v => [v] | None => [] end) p signers
  end.

(** the model's answer with the shortcut written in the vocabulary of the documented rule *)
Definition wsf (e : env) (ex pr : scope_view) (roles signers : list Z) : bool :=
  parties_basic (sv_owners pr) && optional_parties_ok (sv_rollup pr) (sv_owners pr) &&
  match (if doc_only_vo ex pr then Some []
         else if validate_roles_present (sv_owners pr) roles && prov_role_ok e (sv_owners pr) then
           if negb (sv_rollup ex) then
             if negb (nothing_changes ex pr)
             then option_map used_signers
                    (validate_all_required_signed e (party_addrs (sv_owners ex)) signers)
             else Some []
           else option_map used_signers
                  (validate_all_required_parties_signed e (sv_owners ex) (sv_owners ex) roles signers)
         else None) with
  | None => false
  | Some used1 =>
      match vo_check e ex pr signers with
      | None => false
      | Some used2 => validate_smart_contract_signers e (used2 ++ used1) signers
      end
  end.

Lemma scope_equals_same_vo : forall ex pr v,
  scope_equals (with_vo ex v) (with_vo pr v) = negb (other_change ex pr).
Proof.
  intros ex pr v. unfold scope_equals, other_change. cbn [with_vo sv_spec sv_owners sv_data sv_vo sv_rollup].
  rewrite opt_z_eqb_refl, negb_involutive.
  change (owners_unchanged (sv_owners ex) (sv_owners pr)) with (equal_parties (sv_owners ex) (sv_owners pr)).
  change (data_unchanged (sv_data ex) (sv_data pr)) with (equiv_data (sv_data ex) (sv_data pr)).
  destruct (Z.eqb _ _), (equal_parties _ _), (equiv_data _ _), (eqb _ _); reflexivity.
Qed.

Lemma write_scope_full_accept : forall e ex pr roles signers,
  outer_accept e (OWriteScopeFull ex pr roles) signers = wsf e ex pr roles signers.
Proof.
  intros e ex pr roles signers. unfold wsf, vo_check, doc_only_vo, nothing_changes, vo_changing.
  cbn [outer_accept]. destruct pr as [ps po pd [p|] pru]; cbn [sv_vo sv_owners sv_rollup].
  - destruct ex as [es eo ed [v|] eru]; cbn [sv_vo sv_owners sv_rollup].
    + rewrite (scope_equals_same_vo {| sv_spec := es; sv_owners := eo; sv_data := ed; sv_vo := Some v; sv_rollup := eru |}
                                    {| sv_spec := ps; sv_owners := po; sv_data := pd; sv_vo := Some p; sv_rollup := pru |} (Some v)).
      cbn [andb]. rewrite andb_true_r.
      assert (HE : scope_equals (with_vo {| sv_spec := es; sv_owners := eo; sv_data := ed; sv_vo := Some v; sv_rollup := eru |} (Some v))
                                {| sv_spec := ps; sv_owners := po; sv_data := pd; sv_vo := Some p; sv_rollup := pru |}
                   = negb (negb (opt_z_eqb (Some v) (Some p))) &&
                     negb (other_change {| sv_spec := es; sv_owners := eo; sv_data := ed; sv_vo := Some v; sv_rollup := eru |}
                                        {| sv_spec := ps; sv_owners := po; sv_data := pd; sv_vo := Some p; sv_rollup := pru |})).
      { unfold scope_equals, other_change. cbn [with_vo sv_spec sv_owners sv_data sv_vo sv_rollup].
        rewrite !negb_involutive.
        change (owners_unchanged eo po) with (equal_parties eo po).
        change (data_unchanged ed pd) with (equiv_data ed pd).
        destruct (Z.eqb es ps), (equal_parties eo po), (equiv_data ed pd), (opt_z_eqb _ _), (eqb eru pru); reflexivity. }
      rewrite HE. reflexivity.
    + cbn [andb].
      assert (HE : scope_equals (with_vo {| sv_spec := es; sv_owners := eo; sv_data := ed; sv_vo := None; sv_rollup := eru |} None)
                                {| sv_spec := ps; sv_owners := po; sv_data := pd; sv_vo := Some p; sv_rollup := pru |}
                   = false).
      { unfold scope_equals. cbn [with_vo sv_spec sv_owners sv_data sv_vo sv_rollup opt_z_eqb].
        now rewrite andb_false_r. }
      rewrite HE. reflexivity.
  - cbn [andb negb].
    rewrite (scope_equals_same_vo ex {| sv_spec := ps; sv_owners := po; sv_data := pd; sv_vo := None; sv_rollup := pru |} None)
      || idtac.
    assert (HE : scope_equals (with_vo ex None) {| sv_spec := ps; sv_owners := po; sv_data := pd; sv_vo := None; sv_rollup := pru |}
                 = negb (other_change ex {| sv_spec := ps; sv_owners := po; sv_data := pd; sv_vo := None; sv_rollup := pru |})).
    { exact (scope_equals_same_vo ex {| sv_spec := ps; sv_owners := po; sv_data := pd; sv_vo := None; sv_rollup := pru |} None). }
    rewrite HE. destruct (sv_vo ex); reflexivity.
Qed.

Lemma vo_check_sound : forall e ex pr signers used2,
  vo_check e ex pr signers = Some used2 ->
  (forall a, In a (vo_required ex pr) -> covered e (vo_signers e signers) a) /\
  (forall s, In s used2 -> exists a, In a (vo_required ex pr) /\ (a = s \/ granted e a s = true)).
Proof.
  intros e ex pr signers used2 H. unfold vo_check in H. unfold vo_required, vo_changing.
  destruct (sv_vo pr) as [p|].
  - destruct (sv_vo ex) as [v|]; cbn [opt_z_eqb].
    + destruct (Z.eqb_spec v p) as [->|Hne]; cbn [negb].
      * unfold validate_value_owners_signers in H. rewrite Z.eqb_refl in H. injection H as <-.
        split; [intros a []|intros s []].
      * unfold validate_value_owners_signers in H.
        destruct (Z.eqb_spec v p) as [Heq|_]; [contradiction|].
        destruct (vo_loop_sound _ _ _ _ _ H) as [H1 H2]. split.
        -- intros a [<-|[]]. apply H1; [now left|exact Hne].
        -- intros s Hs. destruct (H2 s Hs) as (_ & x & Hx & Hor). exists x. auto.
    + cbn in H. injection H as <-. split; [intros a []|intros s []].
  - injection H as <-. split; [intros a []|intros s []].
Qed.

Lemma vo_check_direct : forall e ex pr signers,
  (forall a, In a (vo_required ex pr) -> In a (vo_signers e signers)) ->
  exists u, vo_check e ex pr signers = Some u.
Proof.
  intros e ex pr signers H. unfold vo_check. unfold vo_required, vo_changing in H.
  destruct (sv_vo pr) as [p|]; [|eauto].
  destruct (sv_vo ex) as [v|]; cbn [opt_z_eqb] in H.
  - unfold validate_value_owners_signers. cbn [vo_loop].
    destruct (Z.eqb v p) eqn:He; [eauto|]. cbn [negb] in H.
    assert (Hm : mem v (vo_signers e signers) = true) by (apply mem_In, H; now left).
    rewrite Hm. cbn. eauto.
  - cbn. eauto.
Qed.

Lemma wsf_inv : forall e ex pr roles signers,
  wsf e ex pr roles signers = true ->
  exists used1 used2,
    vo_check e ex pr signers = Some used2 /\
    validate_smart_contract_signers e (used2 ++ used1) signers = true /\
    ((doc_only_vo ex pr = true /\ used1 = []) \/
     (doc_only_vo ex pr = false /\ validate_roles_present (sv_owners pr) roles = true /\
      prov_role_ok e (sv_owners pr) = true /\
      ((sv_rollup ex = true /\ exists ds,
          validate_all_required_parties_signed e (sv_owners ex) (sv_owners ex) roles signers = Some ds /\
          used1 = used_signers ds) \/
       (sv_rollup ex = false /\ nothing_changes ex pr = true /\ used1 = []) \/
       (sv_rollup ex = false /\ nothing_changes ex pr = false /\ exists ds,
          validate_all_required_signed e (party_addrs (sv_owners ex)) signers = Some ds /\
          used1 = used_signers ds)))).
Proof.
  intros e ex pr roles signers H. unfold wsf in H. apply andb_prop in H as [_ H].
  destruct (doc_only_vo ex pr) eqn:Hov.
  - destruct (vo_check e ex pr signers) as [u2|]; [|discriminate]. exists [], u2. auto.
  - destruct (validate_roles_present (sv_owners pr) roles) eqn:Hr; [|discriminate].
    destruct (prov_role_ok e (sv_owners pr)) eqn:Hp; [|discriminate]. cbn [andb] in H.
    destruct (sv_rollup ex) eqn:Hru; cbn [negb] in H.
    + destruct (validate_all_required_parties_signed e (sv_owners ex) (sv_owners ex) roles signers)
        as [ds|] eqn:HV; [|discriminate]. cbn [option_map] in H.
      destruct (vo_check e ex pr signers) as [u2|]; [|discriminate].
      exists (used_signers ds), u2. split; auto. split; auto. right. repeat split; auto. left. eauto.
    + destruct (nothing_changes ex pr) eqn:Hn; cbn [negb] in H.
      * destruct (vo_check e ex pr signers) as [u2|]; [|discriminate].
        exists [], u2. split; auto. split; auto. right. repeat split; auto.
      * destruct (validate_all_required_signed e (party_addrs (sv_owners ex)) signers) as [ds|] eqn:HV;
          [|discriminate]. cbn [option_map] in H.
        destruct (vo_check e ex pr signers) as [u2|]; [|discriminate].
        exists (used_signers ds), u2. split; auto. split; auto. right. repeat split; auto.
        right. right. eauto.
Qed.

Lemma write_scope_full_sound : forall e ex pr roles signers,
  outer_accept e (OWriteScopeFull ex pr roles) signers = true ->
  (forall a, In a (doc_required_addrs (OWriteScopeFull ex pr roles)) -> covered e signers a) /\
  (forall avail rs, doc_role_pool (OWriteScopeFull ex pr roles) = Some (avail, rs) ->
     role_assignment (covered e signers) avail rs).
Proof.
  intros e ex pr roles signers H. rewrite write_scope_full_accept in H.
  destruct (wsf_inv _ _ _ _ _ H) as (u1 & u2 & HV & _ & Hor).
  destruct (vo_check_sound _ _ _ _ _ HV) as [Hvo _].
  assert (Hvo' : forall a, In a (vo_required ex pr) -> covered e signers a).
  { intros a Ha. eapply covered_incl; [|apply Hvo; exact Ha]. apply vo_signers_incl. }
  cbn [doc_required_addrs doc_role_pool].
  destruct Hor as [[Hov _]|(Hov & _ & _ & Hor)]; rewrite Hov.
  - split; [|discriminate]. intros a Ha. rewrite app_nil_r in Ha. auto.
  - destruct Hor as [(Hru & ds & HVP & _)|[(Hru & Hn & _)|(Hru & Hn & ds & HVS & _)]]; rewrite Hru.
    + destruct (parties_signed_sound _ _ _ _ _ _ HVP) as [H1 H2]. split.
      * intros a Ha. apply in_app_or in Ha as [Ha|Ha]; auto. now apply (nonopt_cover _ _ _ H1).
      * intros avail rs Heq. injection Heq as <- <-. exact H2.
    + rewrite Hn. split; [|discriminate]. intros a Ha. rewrite app_nil_r in Ha. auto.
    + rewrite Hn. split; [|discriminate]. intros a Ha. apply in_app_or in Ha as [Ha|Ha]; auto.
      eapply required_signed_sound; [exact HVS|]. now apply all_addrs_party_addrs.
Qed.

(** Any difference in the owner list (address, role or OPTIONAL flag) of a rollup scope brings the
    party rules back, whatever happens to the value owner in the same message. *)
Lemma scope_write_owner_change_needs_signatures : forall e ex pr roles signers,
  outer_accept e (OWriteScopeFull ex pr roles) signers = true ->
  owners_unchanged (sv_owners ex) (sv_owners pr) = false ->
  (sv_rollup ex = true ->
     (forall p, In p (sv_owners ex) -> p_opt p = false -> covered e signers (p_addr p)) /\
     role_assignment (covered e signers) (sv_owners ex) roles) /\
  (sv_rollup ex = false -> forall p, In p (sv_owners ex) -> covered e signers (p_addr p)).
Proof.
  intros e ex pr roles signers H Hch.
  destruct (write_scope_full_sound _ _ _ _ _ H) as [Hreq Hpool].
  assert (Hoc : other_change ex pr = true).
  { unfold other_change. rewrite Hch. now rewrite andb_false_r. }
  assert (Hov : doc_only_vo ex pr = false) by (unfold doc_only_vo; rewrite Hoc; now rewrite andb_false_r).
  assert (Hn : nothing_changes ex pr = false) by (unfold nothing_changes; rewrite Hoc; now rewrite andb_false_r).
  cbn [doc_required_addrs doc_role_pool] in Hreq, Hpool. rewrite Hov in Hreq, Hpool. split; intros Hru; rewrite Hru in *.
  - split; [|now apply Hpool]. intros p Hp Ho. apply Hreq. apply in_or_app. right.
    apply nonopt_addrs_In. eauto.
  - rewrite Hn in Hreq. intros p Hp. apply Hreq. apply in_or_app. right. unfold all_addrs. now apply in_map.
Qed.

Theorem outer_sound : forall e op signers,
  outer_accept e op signers = true ->
  (forall a, In a (doc_required_addrs op) -> covered e signers a) /\
  (forall avail roles, doc_role_pool op = Some (avail, roles) ->
     role_assignment (covered e signers) avail roles).
Proof.
  intros e op signers H. destruct op as
    [proposed rollup roles
    |ex_rollup existing prop_rollup proposed other roles
    |rollup owners roles
    |rollup existing proposed roles
    |rollup owners existing proposed roles
    |rollup owners session old roles
    |rollup owners roles
    |rollup owners roles
    |vos proposed
    |ex pr roles]; try (now apply write_scope_full_sound);
    cbn [outer_accept doc_required_addrs doc_role_pool] in *.
  - split; [intros a []|discriminate].
  - apply andb_prop in H as [_ H]. destruct ex_rollup; cbn [negb] in H.
    + destruct (validate_all_required_parties_signed e existing existing roles signers) as [ds|] eqn:HV;
        [|discriminate].
      destruct (parties_signed_sound _ _ _ _ _ _ HV) as [H1 H2]. split.
      * now apply nonopt_cover.
      * intros avail rs Heq. injection Heq as <- <-. exact H2.
    + split; [|discriminate].
      destruct (equal_parties existing proposed && eqb false prop_rollup && negb other);
        [intros a []|].
      destruct (validate_all_required_signed e (party_addrs existing) signers) as [ds|] eqn:HV;
        [|discriminate].
      intros a Ha. eapply required_signed_sound; [exact HV|]. now apply all_addrs_party_addrs.
  - destruct rollup; cbn [negb] in H.
    + destruct roles as [rs|].
      * destruct (validate_all_required_parties_signed e owners owners rs signers) as [ds|] eqn:HV;
          [|discriminate].
        destruct (parties_signed_sound _ _ _ _ _ _ HV) as [H1 H2]. split.
        -- now apply nonopt_cover.
        -- intros avail rs' Heq. injection Heq as <- <-. exact H2.
      * split; [|discriminate]. intros a Ha. eapply without_sound_addrs; [exact H|].
        now apply required_party_addrs_In.
    + split; [|discriminate]. intros a Ha. eapply without_sound_addrs; [exact H|].
      now apply all_addrs_party_addrs.
  - apply andb_prop in H as [_ H]. destruct rollup; cbn [negb] in H.
    + destruct (validate_all_required_parties_signed e existing existing roles signers) as [ds|] eqn:HV;
        [|discriminate].
      destruct (parties_signed_sound _ _ _ _ _ _ HV) as [H1 H2]. split.
      * now apply nonopt_cover.
      * intros avail rs Heq. injection Heq as <- <-. exact H2.
    + split; [|discriminate]. intros a Ha. eapply without_sound_addrs; [exact H|].
      now apply all_addrs_party_addrs.
  - apply andb_prop in H as [_ H]. destruct rollup; cbn [negb] in H.
    + apply andb_prop in H as [_ H]. destruct existing as [ex|]; cbn [opt_parties].
      * apply andb_prop in H as [_ H].
        destruct (with_parties_sound _ _ _ _ _ H) as (H1 & H2 & _). split.
        -- intros a Ha. apply in_app_or in Ha as [Ha|Ha];
             apply nonopt_addrs_In in Ha as (p & Hp & Ho & <-); apply H1; auto;
             apply in_or_app; [now right|now left].
        -- intros avail rs Heq. injection Heq as <- <-. exact H2.
      * destruct (with_parties_sound _ _ _ _ _ H) as (H1 & H2 & _). split.
        -- intros a Ha. rewrite app_nil_r in Ha. now apply (nonopt_cover _ _ _ H1).
        -- intros avail rs Heq. injection Heq as <- <-. exact H2.
    + apply andb_prop in H as [_ H]. split; [|discriminate].
      intros a Ha. eapply without_sound_addrs; [exact H|]. now apply all_addrs_party_addrs.
  - destruct rollup; cbn [negb] in H.
    + destruct (with_parties_sound _ _ _ _ _ H) as (H1 & H2 & _). split.
      * intros a Ha.
        assert (Hin : In a (nonopt_addrs (owners ++ session ++ opt_parties old))).
        { apply nonopt_addrs_In.
          apply in_app_or in Ha as [Ha|Ha]; [|apply in_app_or in Ha as [Ha|Ha]];
            apply nonopt_addrs_In in Ha as (p & Hp & Ho & Hpa); exists p; (split; [|auto]);
            apply in_or_app; [now left|right|right]; apply in_or_app; [now left|now right]. }
        now apply (nonopt_cover _ _ _ H1).
      * intros avail rs Heq. injection Heq as <- <-. exact H2.
    + apply andb_prop in H as [_ H]. split; [|discriminate].
      intros a Ha. eapply without_sound_addrs; [exact H|].
      apply in_app_or in Ha as [Ha|Ha]; apply in_or_app.
      * left. now apply all_addrs_party_addrs.
      * right. destruct old as [o|]; [now apply all_addrs_party_addrs|destruct Ha].
  - destruct rollup; cbn [negb] in H.
    + destruct roles as [rs|].
      * destruct (with_parties_sound _ _ _ _ _ H) as (H1 & H2 & _). split.
        -- now apply nonopt_cover.
        -- intros avail rs' Heq. injection Heq as <- <-. exact H2.
      * split; [|discriminate]. intros a Ha. eapply without_sound_addrs; [exact H|].
        now apply required_party_addrs_In.
    + split; [|discriminate]. intros a Ha. eapply without_sound_addrs; [exact H|].
      now apply all_addrs_party_addrs.
  - destruct rollup; cbn [negb] in H.
    + destruct roles as [rs|]; [|discriminate].
      destruct (with_parties_sound _ _ _ _ _ H) as (H1 & H2 & _). split.
      * now apply nonopt_cover.
      * intros avail rs' Heq. injection Heq as <- <-. exact H2.
    + split; [|discriminate]. intros a Ha. eapply without_sound_addrs; [exact H|].
      now apply all_addrs_party_addrs.
  - split; [|discriminate]. intros a Ha. apply some_addrs_In in Ha.
    destruct (update_value_owners_sound _ _ _ _ H) as [_ Hall].
    destruct (Hall _ Ha) as (a' & Heq & _ & Hc). injection Heq as <-.
    eapply covered_incl; [|exact Hc]. apply vo_signers_incl.
Qed.

(** ** Everyone signs directly *)
Lemma role_assignment_mono : forall (ok ok' : Z -> Prop) avail roles,
  (forall a, ok a -> ok' a) -> role_assignment ok avail roles -> role_assignment ok' avail roles.
Proof.
  intros ok ok' avail roles Himp (ks & Hnd & HF). exists ks. split; auto.
  eapply Forall2_imp; [|exact HF]. intros k r (H1 & H2 & H3). auto.
Qed.

Theorem with_parties_complete_direct : forall e req avail roles signers,
  (forall p, In p req -> p_opt p = false -> In (p_addr p) signers) ->
  role_assignment (fun a => In a signers) avail roles ->
  provenance_rule e avail ->
  contract_rule e (is_party_signer req avail) signers ->
  validate_signers_with_parties e req avail roles signers = true.
Proof.
  intros e req avail roles signers H1 H2 H3 H4. apply with_parties_complete; auto.
  - intros p Hp Ho. left. auto.
  - eapply role_assignment_mono; [|exact H2]. intros a Ha. now left.
Qed.

Theorem without_parties_complete_direct : forall e required signers,
  (forall a, In a required -> In a signers) ->
  contract_rule e (fun s => In s required) signers ->
  validate_signers_without_parties e required signers = true.
Proof.
  intros e required signers H1 H2. apply without_parties_complete; auto.
  intros a Ha. left. auto.
Qed.

(** When no smart contract signs, the rule is exact. *)
Theorem with_parties_exact_no_contract : forall e req avail roles signers,
  (forall s, In s signers -> is_wasm e s = false) ->
  (validate_signers_with_parties e req avail roles signers = true <->
   (forall p, In p req -> p_opt p = false -> covered e signers (p_addr p)) /\
   role_assignment (covered e signers) avail roles /\
   provenance_rule e avail).
Proof.
  intros e req avail roles signers Hnw. split.
  - intros H. destruct (with_parties_sound _ _ _ _ _ H) as (H1 & H2 & H3 & _). auto.
  - intros (H1 & H2 & H3). apply with_parties_complete; auto. now apply contract_rule_no_wasm.
Qed.

(** A record moving to another session: the previous session's parties. *)
Theorem record_move_sound : forall e rollup owners session old roles signers,
  outer_accept e (OWriteRecord rollup owners session (Some old) roles) signers = true ->
  forall p, In p old -> (rollup = false \/ p_opt p = false) -> covered e signers (p_addr p).
Proof.
  intros e rollup owners session old roles signers H p Hp Hor.
  destruct (outer_sound _ _ _ H) as [Hreq _]. apply Hreq. cbn [doc_required_addrs opt_parties].
  destruct rollup.
  - destruct Hor as [Hf|Ho]; [discriminate|].
    apply in_or_app; right. apply in_or_app; right. apply nonopt_addrs_In. eauto.
  - apply in_or_app; right. unfold all_addrs. now apply in_map.
Qed.
