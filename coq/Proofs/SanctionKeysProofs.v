(** Lemmas about the byte-level keys of the sanction store (Sanction/Keys.v) and the refinement
    of the abstract [is_sanctioned] (Sanction/Sanction.v) by IsSanctionedAddr on a raw store. *)
From Coq Require Import ZArith NArith List Bool Lia ZifyBool.
From PV Require Import Sanction.Sanction Sanction.Keys Proofs.SanctionProofs.
Import ListNotations.
Ltac Zify.zify_post_hook ::= Z.div_mod_to_equations.
Open Scope N_scope.

(** * Prefixes *)
Lemma has_prefix_app : forall l r, has_prefix l (l ++ r) = true.
Proof. induction l as [|x l IH]; intros r; cbn [has_prefix app]; [reflexivity|]. rewrite N.eqb_refl, IH; reflexivity. Qed.

Lemma has_prefix_same_len : forall l1 l2 r, length l1 = length l2 -> has_prefix l1 (l2 ++ r) = true -> l1 = l2.
Proof.
  induction l1 as [|x l1 IH]; intros [|y l2] r Hlen H; cbn [length] in Hlen; try discriminate; [reflexivity|].
  cbn [has_prefix app] in H. apply andb_true_iff in H; destruct H as [H1 H2]. apply N.eqb_eq in H1; subst y.
  f_equal. eapply IH; [injection Hlen; auto | exact H2].
Qed.

Lemma bytes_eqb_eq : forall x y, bytes_eqb x y = true <-> x = y.
Proof.
  induction x as [|a x IH]; intros [|b y]; cbn [bytes_eqb]; split; intros H; try discriminate; try reflexivity.
  - apply andb_true_iff in H; destruct H as [H1 H2]. apply N.eqb_eq in H1; apply IH in H2; subst; reflexivity.
  - injection H as -> ->. rewrite N.eqb_refl. apply andb_true_iff; split; [reflexivity | apply IH; reflexivity].
Qed.

(** A temporary key lies under the temporary prefix of an address exactly when it is a key of
    THAT address: neither an address that extends it nor one that is a prefix of it qualifies
    (the length byte separates them), whatever the last bytes are. *)
Lemma temp_prefix_iff : forall a a' p, has_prefix (temp_prefix a') (temp_key a p) = true <-> a' = a.
Proof.
  intros a a' p; unfold temp_key, temp_prefix, len_prefixed; cbn [has_prefix app]. split.
  - intros H. apply andb_true_iff in H; destruct H as [_ H]. apply andb_true_iff in H; destruct H as [H1 H2].
    apply N.eqb_eq in H1. apply Nat2N.inj in H1. eapply has_prefix_same_len; eauto.
  - intros ->. rewrite !N.eqb_refl, has_prefix_app; reflexivity.
Qed.

Lemma temp_prefix_not_perm : forall a a', has_prefix (temp_prefix a) (perm_key a') = false.
Proof. reflexivity. Qed.

Lemma temp_prefix_not_index : forall a p a', has_prefix (temp_prefix a) (index_key p a') = false.
Proof. reflexivity. Qed.

(** * Big-endian proposal ids *)
Lemma be_length : forall n p, length (be n p) = n.
Proof. induction n as [|n IH]; intros p; cbn [be]; [reflexivity|]. rewrite app_length, IH; cbn; lia. Qed.

Lemma pow256_succ : forall n, 256 ^ N.of_nat (S n) = 256 * 256 ^ N.of_nat n.
Proof. intros n. rewrite Nat2N.inj_succ, N.pow_succ_r'; reflexivity. Qed.

Lemma be_inj : forall n p q, p < 256 ^ N.of_nat n -> q < 256 ^ N.of_nat n -> be n p = be n q -> p = q.
Proof.
  induction n as [|n IH]; intros p q Hp Hq H.
  - cbn in Hp, Hq; lia.
  - cbn [be] in H. apply app_inj_tail in H; destruct H as [H1 H2].
    rewrite pow256_succ in Hp, Hq.
    assert (p / 256 = q / 256) by (apply IH; [apply N.div_lt_upper_bound; lia | apply N.div_lt_upper_bound; lia | exact H1]).
    pose proof (N.div_mod p 256); pose proof (N.div_mod q 256). lia.
Qed.

Lemma bytes_cmp_tail : forall x y a b, length x = length y ->
  bytes_cmp (x ++ [a]) (y ++ [b]) = match bytes_cmp x y with Eq => N.compare a b | c => c end.
Proof.
  induction x as [|u x IH]; intros [|v y] a b Hlen; cbn [length] in Hlen; try discriminate.
  - cbn [app bytes_cmp]. destruct (N.compare a b); reflexivity.
  - cbn [app bytes_cmp]. destruct (N.compare u v); [apply IH; injection Hlen; auto | reflexivity | reflexivity].
Qed.

Lemma compare_div_mod : forall p q,
  N.compare p q = match N.compare (p / 256) (q / 256) with Eq => N.compare (p mod 256) (q mod 256) | c => c end.
Proof.
  intros p q.
  pose proof (N.div_mod p 256 ltac:(lia)); pose proof (N.div_mod q 256 ltac:(lia)).
  pose proof (N.mod_lt p 256 ltac:(lia)); pose proof (N.mod_lt q 256 ltac:(lia)).
  destruct (N.compare_spec (p / 256) (q / 256)) as [E|E|E].
  - destruct (N.compare_spec (p mod 256) (q mod 256)) as [F|F|F].
    + apply N.compare_eq_iff; lia.
    + apply N.compare_lt_iff; lia.
    + apply N.compare_gt_iff; lia.
  - apply N.compare_lt_iff; lia.
  - apply N.compare_gt_iff; lia.
Qed.

(** The byte order of big-endian encodings is the numeric order. *)
Lemma be_cmp : forall n p q, p < 256 ^ N.of_nat n -> q < 256 ^ N.of_nat n ->
  bytes_cmp (be n p) (be n q) = N.compare p q.
Proof.
  induction n as [|n IH]; intros p q Hp Hq.
  - cbn in Hp, Hq. assert (p = 0) by lia; assert (q = 0) by lia; subst; reflexivity.
  - cbn [be]. rewrite bytes_cmp_tail by (rewrite !be_length; reflexivity).
    rewrite pow256_succ in Hp, Hq.
    rewrite IH by (apply N.div_lt_upper_bound; lia). symmetry; apply compare_div_mod.
Qed.

Lemma bytes_cmp_common : forall pre x y, bytes_cmp (pre ++ x) (pre ++ y) = bytes_cmp x y.
Proof. induction pre as [|a pre IH]; intros x y; cbn [app bytes_cmp]; [reflexivity|]. rewrite N.compare_refl; apply IH. Qed.

Definition u64 (p : N) : Prop := p < 2 ^ 64.

Lemma u64_pow : forall p, u64 p -> p < 256 ^ N.of_nat 8.
Proof. intros p H; unfold u64 in H; change (256 ^ N.of_nat 8) with (2 ^ 64); exact H. Qed.

(** Within one address, the store order of the temporary keys is the order of the proposal ids:
    the reverse iterator yields the highest-numbered proposal first. *)
Lemma temp_key_cmp : forall a p q, u64 p -> u64 q -> bytes_cmp (temp_key a p) (temp_key a q) = N.compare p q.
Proof. intros a p q Hp Hq; unfold temp_key; rewrite bytes_cmp_common. apply be_cmp; apply u64_pow; assumption. Qed.

Lemma temp_key_inj : forall a p a' p', u64 p -> u64 p' -> temp_key a p = temp_key a' p' -> a = a' /\ p = p'.
Proof.
  intros a p a' p' Hp Hp' H.
  assert (Ha : a' = a) by (apply (temp_prefix_iff a a' p); rewrite H; unfold temp_key; apply has_prefix_app).
  subst a'. split; [reflexivity|]. unfold temp_key in H. apply app_inv_head in H.
  eapply be_inj; [apply u64_pow; exact Hp | apply u64_pow; exact Hp' | exact H].
Qed.

(** The proposal index: exactly the entries of that proposal lie under its index prefix. *)
Lemma index_prefix_iff : forall p p' a, u64 p -> u64 p' ->
  has_prefix (index_prefix p') (index_key p a) = true <-> p' = p.
Proof.
  intros p p' a Hp Hp'; unfold index_key, index_prefix; cbn [has_prefix app]. split.
  - intros H. apply andb_true_iff in H; destruct H as [_ H].
    apply has_prefix_same_len in H; [|unfold be8; rewrite !be_length; reflexivity].
    eapply be_inj; [apply u64_pow; exact Hp' | apply u64_pow; exact Hp | exact H].
  - intros ->. rewrite N.eqb_refl, has_prefix_app; reflexivity.
Qed.

Lemma index_key_inj : forall p a p' a', u64 p -> u64 p' -> index_key p a = index_key p' a' -> p = p' /\ a = a'.
Proof.
  intros p a p' a' Hp Hp' H.
  assert (E : p' = p) by (apply (index_prefix_iff p p' a Hp Hp'); rewrite H; unfold index_key; apply has_prefix_app).
  subst p'. split; [reflexivity|]. unfold index_key in H. apply app_inv_head in H. unfold len_prefixed in H; injection H; auto.
Qed.

(** * The reverse prefix iteration *)
Lemma last_with_prefix_some : forall pre st k v, last_with_prefix pre st = Some (k, v) ->
  In (k, v) st /\ has_prefix pre k = true /\
  forall k' v', In (k', v') st -> has_prefix pre k' = true -> bytes_cmp k' k <> Gt.
Proof.
  intros pre; induction st as [|[k0 v0] r IH]; intros k v H; cbn [last_with_prefix] in H; [discriminate|].
  assert (Hrefl : forall x, bytes_cmp x x = Eq) by (induction x as [|a x IHx]; cbn; [reflexivity | rewrite N.compare_refl; exact IHx]).
  assert (Hanti : forall x y, bytes_cmp x y = Lt -> bytes_cmp y x = Gt).
  { induction x as [|a x IHx]; intros [|b y]; cbn [bytes_cmp]; intros Hc; try discriminate; try reflexivity.
    rewrite (N.compare_antisym a b). destruct (N.compare a b); cbn [CompOpp]; [apply IHx; exact Hc | reflexivity | discriminate]. }
  assert (Htrans : forall x y z, bytes_cmp x y <> Gt -> bytes_cmp y z = Lt -> bytes_cmp x z <> Gt).
  { induction x as [|a x IHx]; intros [|b y] [|c z]; cbn [bytes_cmp]; intros H1 H2; try discriminate; try congruence.
    destruct (N.compare_spec a b) as [E1|E1|E1]; destruct (N.compare_spec b c) as [E2|E2|E2]; subst; try congruence.
    - rewrite N.compare_refl. eapply IHx; eauto.
    - destruct (N.compare_spec b c); try lia; discriminate.
    - destruct (N.compare_spec a c); try lia; discriminate.
    - destruct (N.compare_spec a c); try lia; discriminate. }
  destruct (has_prefix pre k0) eqn:Ep.
  - destruct (last_with_prefix pre r) as [[k1 v1]|] eqn:Er.
    + destruct (IH _ _ eq_refl) as [I1 [I2 I3]].
      destruct (bytes_cmp k0 k1) eqn:Ec; inversion H; subst; clear H.
      * split; [left; reflexivity|]. split; [exact Ep|].
        intros k' v' [Hin|Hin] Hp; [inversion Hin; subst; rewrite Hrefl; discriminate|].
        specialize (I3 _ _ Hin Hp).
        (* k' <= k1 and k = k1 in the order *)
        assert (Hk : bytes_cmp k1 k = Eq).
        { clear -Ec Hanti Hrefl. revert k1 Ec. induction k as [|a x IHx]; intros [|b y]; cbn [bytes_cmp]; intros Hc; try discriminate; try reflexivity.
          rewrite (N.compare_antisym a b). destruct (N.compare a b); cbn [CompOpp]; try discriminate. apply IHx; exact Hc. }
        clear -I3 Hk. revert k1 k I3 Hk. induction k' as [|a x IHx]; intros [|b y] [|c z]; cbn [bytes_cmp]; intros H1 H2; try discriminate; try congruence.
        destruct (N.compare_spec b c) as [E2|E2|E2]; try discriminate. subst c.
        destruct (N.compare a b); [eapply IHx; eauto | discriminate | congruence].
      * split; [right; exact I1|]. split; [exact I2|].
        intros k' v' [Hin|Hin] Hp; [inversion Hin; subst; rewrite Ec; discriminate | apply (I3 _ _ Hin Hp)].
      * split; [left; reflexivity|]. split; [exact Ep|].
        intros k' v' [Hin|Hin] Hp; [inversion Hin; subst; rewrite Hrefl; discriminate|].
        specialize (I3 _ _ Hin Hp). eapply Htrans; [exact I3|].
        (* k1 < k *)
        clear -Ec. revert k1 Ec. induction k as [|a x IHx]; intros [|b y]; cbn [bytes_cmp]; intros Hc; try discriminate; try reflexivity.
        rewrite (N.compare_antisym a b). destruct (N.compare a b); cbn [CompOpp]; try discriminate; [apply IHx; exact Hc | reflexivity].
    + inversion H; subst; clear H. split; [left; reflexivity|]. split; [exact Ep|].
      intros k' v' [Hin|Hin] Hp; [inversion Hin; subst; rewrite Hrefl; discriminate|].
      exfalso. clear -Er Hin Hp. induction r as [|[k2 v2] r IHr]; [contradiction|].
      cbn [last_with_prefix] in Er. destruct Hin as [Hin|Hin].
      * inversion Hin; subst. rewrite Hp in Er. destruct (last_with_prefix pre r) as [[k3 v3]|]; [destruct (bytes_cmp k' k3)|]; discriminate.
      * destruct (has_prefix pre k2); [destruct (last_with_prefix pre r) as [[k3 v3]|]; [destruct (bytes_cmp k2 k3)|]; discriminate|].
        apply IHr; assumption.
  - destruct (IH _ _ H) as [I1 [I2 I3]]. split; [right; exact I1|]. split; [exact I2|].
    intros k' v' [Hin|Hin] Hp; [inversion Hin; subst; congruence | apply (I3 _ _ Hin Hp)].
Qed.

Lemma last_with_prefix_none : forall pre st, last_with_prefix pre st = None ->
  forall k v, In (k, v) st -> has_prefix pre k = false.
Proof.
  intros pre; induction st as [|[k0 v0] r IH]; intros H k v Hin; [contradiction|].
  cbn [last_with_prefix] in H. destruct (has_prefix pre k0) eqn:Ep.
  - destruct (last_with_prefix pre r) as [[k1 v1]|]; [destruct (bytes_cmp k0 k1)|]; discriminate.
  - destruct Hin as [Hin|Hin]; [inversion Hin; subst; exact Ep | eapply IH; eauto].
Qed.

Lemma get_some_In : forall k st v, get k st = Some v -> In (k, v) st.
Proof.
  intros k; induction st as [|[k0 v0] r IH]; intros v H; cbn [get] in H; [discriminate|].
  destruct (bytes_eqb k k0) eqn:E; [apply bytes_eqb_eq in E; inversion H; subst; left; reflexivity | right; apply IH; exact H].
Qed.

Lemma In_get_some : forall k st v, In (k, v) st -> get k st <> None.
Proof.
  intros k; induction st as [|[k0 v0] r IH]; intros v H; [contradiction|]. cbn [get].
  destruct (bytes_eqb k k0) eqn:E; [discriminate|]. destruct H as [H|H]; [|eapply IH; eauto].
  inversion H; subst. assert (bytes_eqb k k = true) by (apply bytes_eqb_eq; reflexivity). congruence.
Qed.

(** * Refinement: IsSanctionedAddr on a raw store computes the abstract status *)
Definition b2n (b : bool) : N := if b then 1 else 0.

(** The raw store [st] represents the sanction state (permanent set [pm], temporary entries [l])
    under the address encoding [enc]. *)
Record represents (enc : N -> bytes) (pm : list N) (l : list entry) (st : list kv) : Prop := {
  rep_temp_sound : forall k v, In (k, v) st -> hd 0 k = 2 ->
      exists a p b, k = temp_key (enc a) p /\ u64 p /\ v = b2n b /\ temp_lookup a p l = Some b;
  rep_temp_complete : forall a p b, temp_lookup a p l = Some b -> u64 p /\ In (temp_key (enc a) p, b2n b) st;
  rep_perm_sound : forall a v, In (perm_key (enc a), v) st -> In a pm;
  rep_perm_complete : forall a, In a pm -> exists v, In (perm_key (enc a), v) st }.

Lemma hd_of_prefix : forall a k, has_prefix (temp_prefix a) k = true -> hd 0 k = 2.
Proof.
  intros a [|x k] H; cbn [temp_prefix has_prefix] in H; [discriminate|].
  apply andb_true_iff in H; destruct H as [H _]. apply N.eqb_eq in H; subst; reflexivity.
Qed.

Theorem bytes_refine : forall (enc : N -> bytes) c s st a,
  (forall x y, enc x = enc y -> x = y) -> enc a <> [] ->
  represents enc (perm s) (temps s) st ->
  is_sanctioned_bytes (map enc (c_unsanct c)) st (enc a) = is_sanctioned c s a.
Proof.
  intros enc c s st a Hinj Hne [R1 R2 R3 R4]; unfold is_sanctioned_bytes, is_sanctioned.
  destruct (enc a) as [|e0 ea] eqn:Eenc; [congruence|]. rewrite <- Eenc.
  assert (Hun : existsb (bytes_eqb (enc a)) (map enc (c_unsanct c)) = unsanct c a).
  { unfold unsanct, memN. induction (c_unsanct c) as [|x r IH]; [reflexivity|]. cbn [map existsb]. rewrite IH. f_equal.
    destruct (N.eqb a x) eqn:E.
    - apply N.eqb_eq in E; subst; apply bytes_eqb_eq; reflexivity.
    - destruct (bytes_eqb (enc a) (enc x)) eqn:E2; [|reflexivity]. apply bytes_eqb_eq in E2. apply Hinj in E2. apply N.eqb_neq in E; congruence. }
  rewrite Hun. destruct (unsanct c a); [reflexivity|].
  destruct (last_with_prefix (temp_prefix (enc a)) st) as [[k v]|] eqn:El.
  - destruct (last_with_prefix_some _ _ _ _ El) as [Hin [Hp Hmax]].
    destruct (R1 _ _ Hin (hd_of_prefix _ _ Hp)) as [a' [p [b [Ek [Hu [Ev Hl]]]]]]. subst k v.
    apply temp_prefix_iff in Hp. apply Hinj in Hp. subst a'.
    assert (Hlat : latest_temp a (temps s) = Some (p, b)).
    { apply latest_temp_of_max; [exact Hl|]. intros q x Hq. destruct (R2 _ _ _ Hq) as [Hu' Hin'].
      assert (Hc : bytes_cmp (temp_key (enc a) q) (temp_key (enc a) p) <> Gt).
      { apply (Hmax _ _ Hin'). apply temp_prefix_iff; reflexivity. }
      rewrite (temp_key_cmp _ _ _ Hu' Hu) in Hc. destruct (N.compare_spec q p); try lia. congruence. }
    rewrite Hlat. destruct b; reflexivity.
  - assert (Hnone : latest_temp a (temps s) = None).
    { destruct (latest_temp a (temps s)) as [[p b]|] eqn:E; [|reflexivity].
      destruct (latest_temp_some _ _ _ _ E) as [Hl _]. destruct (R2 _ _ _ Hl) as [_ Hin].
      pose proof (last_with_prefix_none _ _ El _ _ Hin) as Hf.
      assert (has_prefix (temp_prefix (enc a)) (temp_key (enc a) p) = true) by (apply temp_prefix_iff; reflexivity). congruence. }
    rewrite Hnone. destruct (get (perm_key (enc a)) st) as [v|] eqn:Eg.
    + apply get_some_In in Eg. apply R3 in Eg. symmetry; apply memN_In; exact Eg.
    + destruct (memN a (perm s)) eqn:Em; [|reflexivity]. apply memN_In in Em. destruct (R4 _ Em) as [v Hv].
      apply In_get_some in Hv; congruence.
Qed.

(** Two addresses one of which extends the other (a 20-byte address and a 32-byte address with
    the same first 20 bytes) have disjoint temporary key ranges. *)
Corollary prefix_addresses_not_confused : forall a ext p, ext <> [] ->
  has_prefix (temp_prefix a) (temp_key (a ++ ext) p) = false /\
  has_prefix (temp_prefix (a ++ ext)) (temp_key a p) = false.
Proof.
  intros a ext p Hext; split.
  - destruct (has_prefix (temp_prefix a) (temp_key (a ++ ext) p)) eqn:E; [|reflexivity].
    apply temp_prefix_iff in E. exfalso. apply (f_equal (@length N)) in E. rewrite app_length in E. destruct ext; [congruence | cbn in E; lia].
  - destruct (has_prefix (temp_prefix (a ++ ext)) (temp_key a p)) eqn:E; [|reflexivity].
    apply temp_prefix_iff in E. exfalso. apply (f_equal (@length N)) in E. rewrite app_length in E. destruct ext; [congruence | cbn in E; lia].
Qed.
