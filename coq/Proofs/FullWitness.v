(** Non-vacuity of the product round trip (property C18): a concrete state with entries in every
    table of all ten modules is well-formed, exports, and is rebuilt from its export. *)
From Coq Require Import ZArith NArith List Bool Sorted.
From PV Require Import Genesis.RoundTrip Genesis.Indexed Genesis.ExchangeGenesis Genesis.MarkerGenesis
                       Genesis.MetadataGenesis Genesis.FullProduct Proofs.RoundTripProofs Proofs.TableLemmas.
Import ListNotations.
Open Scope Z_scope.

Definition a1 : key := [1%N].
Definition a2 : key := [2%N].
Definition d110 : key := [110%N].
Definition d120 : key := [120%N].

(* ---------- exchange ---------- *)

Definition fw_market : smarket :=
  {| sm_id := 1%N; sm_details := [77%N];
     sm_ask_flat := tbuild (flat_entries [(d110, 3)]);
     sm_bid_flat := tbuild (flat_entries [(d110, 4); (d120, 1)]);
     sm_seller_flat := []; sm_buyer_flat := []; sm_commit_flat := tbuild (flat_entries [(d120, 5)]);
     sm_seller_ratios := tbuild (ratio_entries [ {| rt_price := (d120, 100); rt_fee := (d120, 1) |} ]);
     sm_buyer_ratios := [];
     sm_not_accepting_orders := false; sm_user_settle := true; sm_accepting_commitments := true;
     sm_perms := tbuild (flat_map grant_entries [ {| gr_addr := a1; gr_perms := [1%N; 2%N; 7%N] |};
                                                  {| gr_addr := a2; gr_perms := [3%N] |} ]);
     sm_req_ask := [[107%N]]; sm_req_bid := []; sm_req_commit := [[107%N]; [108%N]];
     sm_bips := 25%N; sm_intermediary := d120 |}.

Definition fw_ask : order :=
  {| od_id := 3%N; od_bid := false; od_market := 1%N; od_owner := a1; od_assets := (d110, 2);
     od_price := (d120, 20); od_fees := []; od_partial := true; od_ext := [101%N; 120%N] |}.
Definition fw_bid : order :=
  {| od_id := 5%N; od_bid := true; od_market := 1%N; od_owner := a2; od_assets := (d120, 1);
     od_price := (d110, 3); od_fees := []; od_partial := false; od_ext := [] |}.
Definition fw_commit : commitment := {| cm_market := 1%N; cm_addr := a1; cm_amount := [(d120, 4)] |}.
Definition fw_pay : payment :=
  {| py_source := a1; py_source_amt := [(d120, 1)]; py_target := a2; py_target_amt := [(d110, 1)];
     py_ext := [112%N] |}.

Definition fw_orders : table order := tbuild [ (k_order 3%N, fw_ask); (k_order 5%N, fw_bid) ].
Definition fw_pays : table payment := tbuild [ (k_payment a1 [112%N], fw_pay) ].

Definition fw_exch : exch_state :=
  {| xs_params := {| sp_splits := tbuild [ ([], ([], 500%N)); (d120, (d120, 1000%N)) ];
                     sp_fee_create := [(d110, 10)]; sp_fee_accept := [] |};
     xs_last_market := 1%N;
     xs_markets := tbuild [ (k_known 1%N, fw_market) ];
     xs_last_order := 5%N; xs_orders := fw_orders;
     xs_commitments := tbuild [ (k_commit 1%N a1, fw_commit) ];
     xs_payments := fw_pays;
     xs_index := exch_index_of fw_orders fw_pays |}.

(* ---------- marker ---------- *)

Definition fw_maddr : key := [9%N; 1%N].
Definition fw_marker : marker :=
  {| mr_addr := fw_maddr; mr_accnum := 17%N; mr_seq := 0%N; mr_manager := [];
     mr_access := [ {| ac_addr := a1; ac_perms := [1%N; 2%N] |} ]; mr_status := 3%N; mr_denom := [114%N];
     mr_supply := 1000; mr_type := 2%N; mr_fixed := false; mr_gov := true; mr_forced := false;
     mr_req := [[107%N]] |}.
Definition fw_mv : marker -> bool := fun _ => true.
Definition fw_nv : mnav -> bool := fun _ => true.
Definition fw_accounts : table marker := tbuild [ (k_account fw_maddr, fw_marker) ].
Definition fw_mk : marker_state :=
  {| mks_params := [5%N]; mks_accounts := fw_accounts;
     mks_index := tbuild (registry_of fw_mv fw_accounts);
     mks_deny := tbuild [ (k_deny fw_maddr a2, (fw_maddr, a2)) ];
     mks_navs := tbuild [ (k_nav fw_maddr [117%N],
                           (fw_maddr, {| nv_denom := [117%N]; nv_amount := 1439; nv_volume := 40%N; nv_height := 21%N |})) ] |}.

(* ---------- metadata ---------- *)

Definition fw_scope_id : key := 0%N :: repeat 7%N 16.
Definition fw_sspec_id : key := 4%N :: repeat 8%N 16.
Definition fw_cspec_id : key := 3%N :: repeat 9%N 16.
Definition fw_sess_id : key := 1%N :: repeat 7%N 16 ++ repeat 6%N 16.
Definition fw_rec_id : key := 2%N :: repeat 7%N 16 ++ repeat 5%N 16.
Definition fw_scope : scope :=
  {| sc_id := fw_scope_id; sc_spec := fw_sspec_id;
     sc_owners := [ {| pt_addr := a1; pt_role := 5%N; pt_optional := false |} ];
     sc_access := [a2; a1]; sc_vo := []; sc_rollup := false |}.
Definition fw_sspec : sspec := {| ss_id := fw_sspec_id; ss_owners := [a1]; ss_cspecs := [fw_cspec_id]; ss_body := [1%N] |}.
Definition fw_cspec : cspec := {| cs_id := fw_cspec_id; cs_owners := [a1; a2]; cs_body := [2%N] |}.
Definition fw_rec_addr : key -> key -> option key := fun s n => if keqb s fw_sess_id then Some fw_rec_id else None.
Definition fw_scopes : table scope := tbuild [ (fw_scope_id, fw_scope) ].
Definition fw_sspecs : table sspec := tbuild [ (fw_sspec_id, fw_sspec) ].
Definition fw_cspecs : table cspec := tbuild [ (fw_cspec_id, fw_cspec) ].
Definition fw_md : md_state :=
  {| md_params := [3%N];
     md_scopes := fw_scopes; md_vo := tbuild [ (fw_scope_id, a2) ];
     md_sessions := tbuild [ (fw_sess_id, {| se_id := fw_sess_id; se_body := [4%N] |}) ];
     md_records := tbuild [ (fw_rec_id, {| rc_session := fw_sess_id; rc_name := [110%N]; rc_body := [5%N] |}) ];
     md_sspecs := fw_sspecs; md_cspecs := fw_cspecs;
     md_rspecs := tbuild [ ([5%N; 1%N], {| rs_id := [5%N; 1%N]; rs_body := [6%N] |}) ];
     md_locators := tbuild [ (k_locator a1, {| lo_owner := a1; lo_uri := [104%N]; lo_enc := a2 |}) ];
     md_navs := tbuild [ (k_snav fw_scope_id [117%N],
                          (fw_scope_id, {| sn_denom := [117%N]; sn_amount := 5545; sn_volume := 1%N; sn_height := 27%N |})) ];
     md_index := md_index_of fw_scopes fw_sspecs fw_cspecs |}.

(* ---------- the product ---------- *)

Definition fw_ext : full_ext :=
  {| fx_base := witness_ext;
     fx_marker_valid := fw_mv; fx_nav_valid := fw_nv;
     fx_pre_markers := []; fx_other_accnum := fun a => if keqb a fw_maddr then Some 17%N else None;
     fx_next_acc := 30%N;
     fx_rec_addr := fw_rec_addr; fx_blocked := fun _ => false;
     fx_vo_send_ok := fun _ _ _ => true; fx_snav_valid := fun _ => true;
     fx_vo0 := tbuild [ (fw_scope_id, a2) ] |}.

Definition fw_state : full_state :=
  {| f_base := witness_state; f_marker := fw_mk; f_md := fw_md; f_exch := fw_exch |}.

Ltac fw_split :=
  repeat (cbv beta;
          match goal with
          | |- _ /\ _ => split
          | |- Forall _ (_ :: _) => constructor
          | |- Forall _ [] => constructor
          | |- StronglySorted _ (_ :: _) => constructor
          | |- StronglySorted _ [] => constructor
          end).

Ltac fw_leaf :=
  first [ reflexivity
        | (vm_compute; reflexivity)
        | discriminate
        | (vm_compute; discriminate)
        | (vm_compute; intros; discriminate)
        | (eexists; vm_compute; reflexivity)
        | (left; fw_leaf)
        | (right; fw_leaf)
        | (split; fw_leaf) ].

Lemma fw_exch_wf : exch_wf (held_of (a_hold witness_state)) fw_exch.
Proof.
  unfold exch_wf, params_wf, smarket_wf, flat_wf, ratios_wf, coins_pos, tsorted.
  assert (Eo : xs_orders fw_exch = [ (k_order 3%N, fw_ask); (k_order 5%N, fw_bid) ]) by (vm_compute; reflexivity).
  split; [|split; [|split; [|split; [|split; [|split]]]]].
  - (* params *)
    replace (sp_splits (xs_params fw_exch)) with [ (@nil N, (@nil N, 500%N)); (d120, (d120, 1000%N)) ] by (vm_compute; reflexivity).
    replace (sp_fee_create (xs_params fw_exch)) with [(d110, 10)] by reflexivity.
    replace (sp_fee_accept (xs_params fw_exch)) with (@nil coin) by reflexivity.
    fw_split; try (unfold klt; cbn [fst snd]; fw_leaf).
  - replace (xs_markets fw_exch) with [ (k_known 1%N, fw_market) ] by (vm_compute; reflexivity). fw_split.
  - replace (xs_markets fw_exch) with [ (k_known 1%N, fw_market) ] by (vm_compute; reflexivity).
    constructor; [|constructor]. cbn [fst snd]. split; [reflexivity|].
    unfold smarket_wf, flat_wf, ratios_wf, tsorted.
    replace (sm_ask_flat fw_market) with [ (d110, (d110, 3)) ] by (vm_compute; reflexivity).
    replace (sm_bid_flat fw_market) with [ (d110, (d110, 4)); (d120, (d120, 1)) ] by (vm_compute; reflexivity).
    replace (sm_seller_flat fw_market) with (@nil (key * coin)) by reflexivity.
    replace (sm_buyer_flat fw_market) with (@nil (key * coin)) by reflexivity.
    replace (sm_commit_flat fw_market) with [ (d120, (d120, 5)) ] by (vm_compute; reflexivity).
    replace (sm_seller_ratios fw_market)
      with [ (ratio_key {| rt_price := (d120, 100); rt_fee := (d120, 1) |}, {| rt_price := (d120, 100); rt_fee := (d120, 1) |}) ]
      by (vm_compute; reflexivity).
    replace (sm_buyer_ratios fw_market) with (@nil (key * ratio)) by reflexivity.
    replace (sm_perms fw_market)
      with [ (perm_key a1 1%N, (a1, 1%N)); (perm_key a1 2%N, (a1, 2%N)); (perm_key a1 7%N, (a1, 7%N)); (perm_key a2 3%N, (a2, 3%N)) ]
      by (vm_compute; reflexivity).
    fw_split; try (unfold klt; cbn [fst snd]; fw_leaf).
  - rewrite Eo. fw_split. unfold klt; cbn [fst snd]; fw_leaf.
  - rewrite Eo. replace (xs_last_order fw_exch) with 5%N by reflexivity.
    fw_split; cbn [fst snd]; try fw_leaf; try (vm_compute; repeat constructor).
  - rewrite Eo. intros k1 o1 k2 o2 H1 H2 Hn1 Hk Hn2.
    destruct H1 as [H1|[H1|[]]]; inversion H1; subst; destruct H2 as [H2|[H2|[]]]; inversion H2; subst;
      try reflexivity; try (exfalso; apply Hn1; reflexivity); try (exfalso; apply Hn2; reflexivity).
  - replace (xs_commitments fw_exch) with [ (k_commit 1%N a1, fw_commit) ] by (vm_compute; reflexivity).
    replace (xs_payments fw_exch) with [ (k_payment a1 [112%N], fw_pay) ] by (vm_compute; reflexivity).
    fw_split; cbn [fst snd]; try fw_leaf; try (unfold klt; cbn [fst snd]; fw_leaf);
      try (vm_compute; repeat constructor).
Qed.

Lemma fw_marker_wf : marker_wf fw_mv fw_nv fw_mk.
Proof.
  unfold marker_wf, tsorted.
  replace (mks_accounts fw_mk) with [ (k_account fw_maddr, fw_marker) ] by (vm_compute; reflexivity).
  replace (mks_deny fw_mk) with [ (k_deny fw_maddr a2, (fw_maddr, a2)) ] by (vm_compute; reflexivity).
  replace (mks_navs fw_mk)
    with [ (k_nav fw_maddr [117%N], (fw_maddr, {| nv_denom := [117%N]; nv_amount := 1439; nv_volume := 40%N; nv_height := 21%N |})) ]
    by (vm_compute; reflexivity).
  fw_split; cbn [fst snd]; try fw_leaf.
Qed.

Lemma fw_md_wf : md_wf fw_rec_addr (fun _ => false) (fun _ => true) fw_md.
Proof.
  unfold md_wf, tsorted.
  replace (md_scopes fw_md) with [ (fw_scope_id, fw_scope) ] by (vm_compute; reflexivity).
  replace (md_sessions fw_md) with [ (fw_sess_id, {| se_id := fw_sess_id; se_body := [4%N] |}) ] by (vm_compute; reflexivity).
  replace (md_records fw_md) with [ (fw_rec_id, {| rc_session := fw_sess_id; rc_name := [110%N]; rc_body := [5%N] |}) ] by (vm_compute; reflexivity).
  replace (md_sspecs fw_md) with [ (fw_sspec_id, fw_sspec) ] by (vm_compute; reflexivity).
  replace (md_cspecs fw_md) with [ (fw_cspec_id, fw_cspec) ] by (vm_compute; reflexivity).
  replace (md_rspecs fw_md) with [ ([5%N; 1%N], {| rs_id := [5%N; 1%N]; rs_body := [6%N] |}) ] by (vm_compute; reflexivity).
  replace (md_locators fw_md) with [ (k_locator a1, {| lo_owner := a1; lo_uri := [104%N]; lo_enc := a2 |}) ] by (vm_compute; reflexivity).
  replace (md_navs fw_md)
    with [ (k_snav fw_scope_id [117%N], (fw_scope_id, {| sn_denom := [117%N]; sn_amount := 5545; sn_volume := 1%N; sn_height := 27%N |})) ]
    by (vm_compute; reflexivity).
  fw_split; cbn [fst snd]; try fw_leaf;
    try (intros a Ha; vm_compute in Ha; inversion Ha; subst; split; reflexivity).
Qed.

Lemma fw_wf : full_wf fw_ext fw_state.
Proof.
  unfold full_wf. cbn [fw_ext fw_state fx_base f_base f_marker f_md f_exch fx_marker_valid fx_nav_valid
                       fx_rec_addr fx_blocked fx_snav_valid fx_pre_markers fx_other_accnum fx_vo0].
  split; [exact witness_wf|]. split; [exact fw_marker_wf|]. split; [exact fw_md_wf|].
  split; [exact fw_exch_wf|]. split; [reflexivity|]. split; [|vm_compute; reflexivity].
  intros k m Hin. vm_compute in Hin. destruct Hin as [Hin|[]]. inversion Hin; subst. vm_compute. reflexivity.
Qed.

Lemma fw_ok :
  full_wf fw_ext fw_state /\
  (exists g, full_export fw_ext fw_state = Some g /\ full_import fw_ext g = Some fw_state /\
             xg_orders (fg_exch g) <> [] /\ xg_payments (fg_exch g) <> [] /\ mkg_markers (fg_marker g) <> [] /\
             mg_scopes (fg_md g) <> [] /\ mg_navs (fg_md g) <> []) /\
  xs_index (f_exch fw_state) <> [] /\ md_index (f_md fw_state) <> [] /\ mks_index (f_marker fw_state) <> [].
Proof.
  split; [exact fw_wf|]. split.
  - eexists. split; [vm_compute; reflexivity|]. split; [vm_compute; reflexivity|].
    repeat split; vm_compute; discriminate.
  - repeat split; vm_compute; discriminate.
Qed.
