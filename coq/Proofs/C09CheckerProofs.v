(** The executable consent / deposit checkers that the correspondence run evaluates on the
    implementation's observations decide exactly the propositions of the theorems (C09). *)
From Coq Require Import ZArith NArith List Bool.
From PV Require Import Metadata.ValueOwner Proofs.ValueOwnerProofs Corr.C09.
Import ListNotations.

Lemma consent_b_spec s o h : consent_b s o h = true <-> consent s o h.
Proof.
  unfold consent_b, consent. rewrite !orb_true_iff, mem_In. split.
  - intros [[H|H]|H].
    + left. exact H.
    + right. left. destruct (kind_of o) as [k|]; [|discriminate].
      apply existsb_exists in H. destruct H as (g & Hg & Hgr). exists k, g. auto.
    + right. right. destruct (marker_of s h) as [m|]; [|discriminate].
      apply any_in_spec in H. destruct H as (g & Hg & Hw). exists m, g. auto.
  - intros [H|[(k & g & Hk & Hg & Hgr)|(m & g & Hm & Hg & Hw)]].
    + left. left. exact H.
    + left. right. rewrite Hk. apply existsb_exists. exists g. auto.
    + right. rewrite Hm. apply any_in_spec. exists g. auto.
Qed.

Lemma deposit_b_spec s o n : deposit_b s o n = true <-> deposit_ok s o n.
Proof.
  unfold deposit_b, deposit_ok. destruct (marker_of s n) as [m|].
  - destruct (mk_restricted m) eqn:Er.
    + rewrite any_in_spec. split.
      * intros H m' [= <-] _. exact H.
      * intros H. apply (H m eq_refl Er).
    + split; [|reflexivity]. intros _ m' [= <-] Hr. congruence.
  - split; [|reflexivity]. intros _ m' Hm. discriminate.
Qed.
