(** The executable consent / deposit checkers that the correspondence run evaluates on the
    implementation's observations hold of the model (C09): fed with the model's own grants, records
    and new holder, [consent_b] accepts every holder change the model can make, and [deposit_b]
    decides [deposit_ok].  A "prop:value owner changed without the owner's consent" failure on the
    real code is therefore a behaviour the model cannot show. *)
From Coq Require Import ZArith NArith List Bool.
From PV Require Import Metadata.ValueOwner Proofs.ValueOwnerProofs Proofs.ValueOwnerProofs2
  Proofs.ValueOwnerProofs3 Proofs.ValueOwnerProofs4 Proofs.ValueOwnerAuthz Corr.C09.
Import ListNotations.

Lemma deposit_b_spec s o n : deposit_b s o n = true <-> deposit_ok s o n.
Proof.
  unfold deposit_b, deposit_ok. destruct (marker_of s n) as [m|].
  - destruct (mk_restricted m) eqn:Er.
    + rewrite orb_true_iff, andb_true_iff, any_in_spec, mem_In. split.
      * intros H m' [= <-] _. exact H.
      * intros H. apply (H m eq_refl Er).
    + split; [|reflexivity]. intros _ m' [= <-] Hr. congruence.
  - split; [|reflexivity]. intros _ m' Hm. discriminate.
Qed.

Lemma deposit_b_model s o d n :
  Inv s -> holder (run_op s o) d = Some n -> holder s d <> Some n -> deposit_b s o n = true.
Proof. intros HI Hn Hch. apply deposit_b_spec. eapply run_op_deposit; eassumption. Qed.

Lemma consent_b_model s o d h :
  Inv s -> holder s d = Some h -> holder (run_op s o) d <> Some h ->
  consent_b s (grants s) (qrecs s) o d h (holder (run_op s o) d) = true.
Proof.
  intros HI Hh Hch. unfold consent_b.
  destruct (marker_of s h) as [m|] eqn:Em.
  - destruct (run_op_marker_out s o d h m HI Hh Em Hch) as (Hk & g & Hg & Hw).
    apply andb_true_intro. split; [apply any_in_spec; exists g; auto|].
    destruct o; cbn in Hk |- *; try reflexivity. congruence.
  - destruct HI as (HB & HT & HQ).
    pose proof (run_op_trans s o (conj HB (conj HT HQ))) as Htr.
    pose proof (holder_inv _ _ _ HB Hh) as Ht.
    assert (Hmeta : forall sg k, signers_of o = sg -> kind_of o = Some k ->
              (In h (effective_signers s sg) \/ is_marker s h = true \/
               exists g, In g (effective_signers s sg) /\ has_grant s h g k = true) ->
              mem h (signers_of o) ||
              match kind_of o with Some k0 => existsb (fun g => usable (now s) (grants s) h g k0) (signers_of o) | None => false end = true).
    { intros sg k Hsg Hk Hc. destruct Hc as [H|[H|(g & Hg & Hgr)]].
      - apply orb_true_intro. left. apply mem_In. rewrite Hsg. eapply effective_signers_incl. exact H.
      - unfold is_marker in H. rewrite Em in H. discriminate.
      - apply orb_true_intro. right. rewrite Hk. apply existsb_exists.
        exists g. split; [rewrite Hsg; eapply effective_signers_incl; exact Hg|exact Hgr]. }
    destruct (Htr d) as [(A & _)|[(f & t & A & B & C & D & E)|[(t & A & _)|(f & A & B & C & D & E & Hkd)]]].
    + exfalso. apply Hch. rewrite <- Hh. apply holder_same. exact A.
    + rewrite Ht in A. injection A as <-.
      destruct E as [sg k to Hsg Hk Hne Hr Hc _|to amt -> _ _|outs to ds -> _ _ _ _|froms perm r -> -> Hin Hacc Hd Hr].
      * apply orb_true_intro. left. eapply (Hmeta sg k); eauto.
      * apply orb_true_intro. left. apply orb_true_intro. left. cbn. rewrite N.eqb_refl. reflexivity.
      * apply orb_true_intro. left. apply orb_true_intro. left. cbn. rewrite N.eqb_refl. reflexivity.
      * apply orb_true_intro. right. rewrite N.eqb_refl. cbn [andb].
        rewrite (holder_single _ _ _ B). cbn [opt_is]. rewrite N.eqb_refl. cbn [andb]. apply existsb_exists.
        exists r. split; [exact Hin|]. rewrite Hacc. cbn [andb]. apply mem_In. exact Hd.
    + rewrite Ht in A. discriminate.
    + rewrite Ht in A. injection A as <-.
      destruct E as [sg k to Hsg Hk Hne Hr Hc _|to amt -> _ _|outs to ds -> _ _ _ _|froms perm r -> _ _ _ _ _];
        try discriminate.
      apply orb_true_intro. left. eapply (Hmeta sg k); eauto.
Qed.

Lemma grant_eqb_refl g : grant_eqb g g = true.
Proof.
  unfold grant_eqb, g_is. rewrite !N.eqb_refl, kind_eqb_refl. cbn [andb].
  destruct (g_exp g), (g_left g); cbn; rewrite ?Z.eqb_refl; reflexivity.
Qed.

Lemma opt_grant_eqb_refl o : opt_grant_eqb o o = true.
Proof. destruct o as [g|]; [apply grant_eqb_refl|reflexivity]. Qed.

(** [grant_used_b], fed with the model's grants before and after, accepts every holder change of
    the model (from a store with one authorization per key). *)
Lemma grant_used_b_model s o d h :
  Inv s -> KeyUniq (grants s) -> holder s d = Some h -> holder (run_op s o) d <> Some h ->
  grant_used_b s (grants s) (grants (run_op s o)) o h = true.
Proof.
  intros HI HU Hh Hch. unfold grant_used_b.
  destruct (kind_of o) as [k|] eqn:Ek; [|reflexivity].
  destruct (marker_of s h) as [m|] eqn:Em; [reflexivity|].
  destruct (mem h (signers_of o)) eqn:Es; [reflexivity|]. cbn [orb].
  assert (Hna : is_accept o = false) by (destruct o; cbn in Ek |- *; try reflexivity; discriminate).
  destruct (run_op_grant_use s o d h HI HU Hh Hch) as (k' & g & gr & Hk & Hg & Hl & Hlive & Hafter);
    [apply mem_false; exact Es|exact Em|exact Hna|].
  rewrite Ek in Hk. injection Hk as <-.
  apply existsb_exists. exists g. split; [exact Hg|]. rewrite Hl, Hlive, Hafter. cbn [andb].
  apply opt_grant_eqb_refl.
Qed.
