(** C13: the remaining lemmas that combine the store invariants (IndexProofs, PaymentProofs) with
    the pagination proofs (PagingProofs), the after-order bound, the refutations by computation
    and the non-vacuity example.  Re-exports the proof files for Properties/C13.v. *)
From Coq Require Import ZArith NArith List Bool Lia.
From PV Require Import Exchange.KV Exchange.Index Exchange.Paging Proofs.KVProofs.
From PV Require Export Proofs.IndexProofs Proofs.PaymentProofs Proofs.PagingProofs.
Import ListNotations.
Open Scope N_scope.

Lemma u64max_lt_pow : u64max < 256 ^ N.of_nat 8.
Proof. vm_compute. reflexivity. Qed.

Lemma two64_eq_pow : two64 = 256 ^ N.of_nat 8.
Proof. vm_compute. reflexivity. Qed.

Lemma u64be_leb : forall a b, a < two64 -> b < two64 ->
  key_leb (u64be a) (u64be b) = (a <=? b).
Proof.
  intros a b Ha Hb. unfold key_leb, u64be.
  rewrite !N.mod_small by assumption.
  rewrite be_compare by (rewrite <- two64_eq_pow; assumption).
  unfold N.leb. destruct (a ?= b); reflexivity.
Qed.

Lemma after_bound : forall after id,
  id < two64 -> 0 < after -> after < two64 ->
  ge_start (after_start after) (u64be id) =
  if after =? u64max then (id =? u64max) else (after <? id).
Proof.
  intros after id Hid Hpos Hlt. unfold after_start.
  destruct (after =? 0) eqn:E0; [apply N.eqb_eq in E0; lia|].
  cbn [ge_start].
  assert (Hmax : u64max + 1 = two64) by (vm_compute; reflexivity).
  destruct (after =? u64max) eqn:Em.
  - apply N.eqb_eq in Em. subst after.
    rewrite u64be_leb by assumption.
    destruct (N.leb_spec u64max id) as [H|H]; destruct (N.eqb_spec id u64max) as [H'|H']; try reflexivity; lia.
  - apply N.eqb_neq in Em.
    assert (Hs : after + 1 < two64) by lia.
    unfold wrap64. rewrite (N.mod_small (after + 1)) by exact Hs.
    rewrite u64be_leb by assumption.
    destruct (N.leb_spec (after + 1) id) as [H|H]; destruct (N.ltb_spec after id) as [H'|H']; try reflexivity; lia.
Qed.

Lemma after_bound_unfixed_refuted :
  exists id, id < u64max /\
    ge_start (Some (u64be (wrap64 (u64max + 1)))) (u64be id) = true.
Proof. exists 5. split; vm_compute; reflexivity. Qed.

(** Every index listing of every reachable state satisfies the hypotheses of [paging_complete]. *)
Lemma index_hit_nonempty : forall otype k v, index_hit otype k v = true -> k <> [].
Proof.
  intros otype k v H. unfold index_hit in H. apply andb_prop in H. destruct H as [_ H].
  destruct k; [discriminate|discriminate].
Qed.

Lemma paging_complete_index : forall ops p otype limit reverse after fuel,
  let l := pstore (run ops) p in
  1 <= limit ->
  N.of_nat (length l) + limit + 1 < two64 ->
  (length l < fuel)%nat ->
  follow_keys (fun rq => filtered_paginate_after_order (index_hit otype) l rq after) fuel limit reverse []
    = Some (matching (index_hit otype) l reverse after) /\
  follow_offsets (fun rq => filtered_paginate_after_order (index_hit otype) l rq after) fuel limit reverse 0
    = Some (matching (index_hit otype) l reverse after).
Proof.
  intros ops p otype limit reverse after fuel l Hlim Hsz Hfuel.
  assert (Hs : sorted_keys l) by (apply pstore_sorted; apply run_sorted).
  destruct (paging_complete val (index_hit otype) l limit reverse after fuel Hs
              (fun k v _ H => index_hit_nonempty otype k v H) Hlim Hsz Hfuel) as [H1 [H2 _]].
  split; assumption.
Qed.

(** The payments-of-a-source listing loses the payment with the empty external id when paged in
    reverse by next_key. *)
Definition refute_src : bytes := [7; 7].
Definition refute_ops : list op :=
  [ OPayCreate {| p_source := refute_src; p_src_up := false; p_ext := []; p_target := []; p_tgt_up := false; p_amount := 1%Z |};
    OPayCreate {| p_source := refute_src; p_src_up := false; p_ext := [120]; p_target := []; p_tgt_up := false; p_amount := 1%Z |} ].

Lemma sdk_paging_refuted :
  exists ops src limit,
    1 <= limit /\
    let l := pstore (run ops) (p_pay_src src) in
    exists got, follow_keys (fun rq => sdk_paginate l rq) 10 limit true [] = Some got /\
                (length got < length l)%nat.
Proof.
  exists refute_ops, refute_src, 1. split; [lia|].
  cbv zeta. eexists. split; [vm_compute; reflexivity|]. vm_compute. lia.
Qed.

Lemma example_history_ok :
  let s := run example_history in
  by_asset s [97;97;97] = [1; 4] /\ by_asset s [97;97;97;98] = [2] /\
  by_market s 1 = [1; 2] /\ get_order_by_ext s 1 [120] <> None /\
  follow_keys (fun rq => filtered_paginate_after_order (index_hit None) (pstore s (p_asset [97;97;97])) rq 0)
     5 1 true [] = Some (matching (index_hit None) (pstore s (p_asset [97;97;97])) true 0) /\
  length (matching (index_hit None) (pstore s (p_asset [97;97;97])) true 0) = 2%nat.
Proof.
  cbv zeta. repeat split; try (vm_compute; reflexivity).
  vm_compute. discriminate.
Qed.
