(** Proofs about [PV.Metadata.ValueOwner] (property C09), part 5: the authz store as state.  Every
    signer check of a message changes the store only through accepted probes ([lookup1]); the store a
    message leaves behind is the store it started from with every authorization it accepted used
    exactly once (a count authorization loses one use, its last use deletes it, a generic
    authorization stays).  In particular the grant through which a value owner's consent was given
    has one use less afterwards. *)
From Coq Require Import ZArith NArith List Bool Lia.
From PV Require Import Metadata.ValueOwner Proofs.ValueOwnerProofs Proofs.ValueOwnerProofs2 Proofs.ValueOwnerProofs3
  Proofs.ValueOwnerProofs4.
Import ListNotations.
Open Scope Z_scope.

(** ** The least relation containing the accepted probes *)
Inductive thr (t : Z) : actx -> actx -> Prop :=
| thr_refl a : thr t a a
| thr_step a x y k a1 a2 : lookup1 t a x y k = LYes a1 -> thr t a1 a2 -> thr t a a2.

Lemma thr_trans t a b c : thr t a b -> thr t b c -> thr t a c.
Proof. induction 1; intros H2; [exact H2|]. eapply thr_step; [eassumption|]. apply IHthr. exact H2. Qed.

Lemma thr_one t a x y k a1 : lookup1 t a x y k = LYes a1 -> thr t a a1.
Proof. intros H. eapply thr_step; [exact H|apply thr_refl]. Qed.

Lemma try_kinds_thr t x y : forall ks a a', try_kinds t a x y ks = LYes a' -> thr t a a'.
Proof.
  induction ks as [|k r IH]; intros a a'; cbn [try_kinds]; [discriminate|].
  destruct (lookup1 t a x y k) as [| |a1] eqn:E; [discriminate|apply IH|].
  intros [= <-]. eapply thr_one. exact E.
Qed.

Lemma find_grantee_thr t x k : forall gs a o a', find_grantee t a x gs k = Some (o, a') -> thr t a a'.
Proof.
  induction gs as [|y r IH]; intros a o a'; cbn [find_grantee]; [intros [= _ <-]; apply thr_refl|].
  destruct (try_kinds t a x y (kind_urls k)) as [| |a1] eqn:E; [discriminate|apply IH|].
  intros [= _ <-]. eapply try_kinds_thr. exact E.
Qed.

Lemma all_required_signed_thr t sg k : forall req a l a',
  all_required_signed t req sg k a = Some (l, a') -> thr t a a'.
Proof.
  induction req as [|o r IH]; intros a l a'; cbn [all_required_signed]; [intros [= _ <-]; apply thr_refl|].
  destruct (mem o sg).
  - destruct (all_required_signed t r sg k a) as [[l2 a2]|] eqn:E; [|discriminate].
    intros [= _ <-]. eapply IH. exact E.
  - destruct (find_grantee t a o sg k) as [[[x|] a1]|] eqn:Ef; try discriminate.
    destruct (all_required_signed t r sg k a1) as [[l2 a2]|] eqn:E; [|discriminate].
    intros [= _ <-]. eapply thr_trans; [eapply find_grantee_thr; exact Ef|eapply IH; exact E].
Qed.

Lemma assoc_authz_thr t sg k : forall ps a l a', assoc_authz t sg k ps a = Some (l, a') -> thr t a a'.
Proof.
  induction ps as [|d r IH]; intros a l a'; cbn [assoc_authz]; [intros [= _ <-]; apply thr_refl|].
  destruct (negb (pd_opt d) && negb (has_signer d)).
  - destruct (find_grantee t a (pd_addr d) sg k) as [[o a1]|] eqn:Ef; [|discriminate].
    pose proof (find_grantee_thr _ _ _ _ _ _ _ Ef) as H1.
    destruct o as [g|]; (destruct (assoc_authz t sg k r a1) as [[l2 a2]|] eqn:E; [|discriminate];
      intros [= _ <-]; eapply thr_trans; [exact H1|eapply IH; exact E]).
  - destruct (assoc_authz t sg k r a) as [[l2 a2]|] eqn:E; [|discriminate].
    intros [= _ <-]. eapply IH. exact E.
Qed.

Lemma role_authz_thr t sg k r : forall ps a o a', role_authz t sg k r ps a = Some (o, a') -> thr t a a'.
Proof.
  induction ps as [|d rest IH]; intros a o a'; cbn [role_authz]; [intros [= _ <-]; apply thr_refl|].
  destruct (usable_as r d && negb (has_signer d)).
  - destruct (find_grantee t a (pd_addr d) sg k) as [[og a1]|] eqn:Ef; [|discriminate].
    pose proof (find_grantee_thr _ _ _ _ _ _ _ Ef) as H1.
    destruct og as [g|]; [intros [= _ <-]; exact H1|].
    destruct (role_authz t sg k r rest a1) as [[[l|] a2]|] eqn:E; [| |discriminate];
      intros [= _ <-]; (eapply thr_trans; [exact H1|eapply IH; exact E]).
  - destruct (role_authz t sg k r rest a) as [[[l|] a2]|] eqn:E; [| |discriminate];
      intros [= _ <-]; (eapply IH; exact E).
Qed.

Lemma assoc_authz_roles_thr t sg k : forall missing ps bad a ps' bad' a',
  assoc_authz_roles t sg k missing ps bad a = Some (ps', bad', a') -> thr t a a'.
Proof.
  induction missing as [|r rest IH]; intros ps bad a ps' bad' a'; cbn [assoc_authz_roles];
    [intros [= _ _ <-]; apply thr_refl|].
  destruct (role_authz t sg k r ps a) as [[[l|] a1]|] eqn:E; [| |discriminate]; intros H;
    (eapply thr_trans; [eapply role_authz_thr; exact E|eapply IH; exact H]).
Qed.

Lemma parties_signed_thr t parties roles sg k a l a' :
  parties_signed t parties roles sg k a = Some (l, a') -> thr t a a'.
Proof.
  unfold parties_signed.
  match goal with |- context [assoc_authz t sg k ?p a] => destruct (assoc_authz t sg k p a) as [[p2 a1]|] eqn:E1 end;
    [|discriminate].
  destruct (existsb _ p2); [discriminate|].
  destruct (assoc_roles roles p2) as [p3 missing].
  destruct (assoc_authz_roles t sg k missing p3 false a1) as [[[p4 bad] a2]|] eqn:E2; [|discriminate].
  destruct bad; [discriminate|]. intros [= _ <-].
  eapply thr_trans; [eapply assoc_authz_thr; exact E1|eapply assoc_authz_roles_thr; exact E2].
Qed.

Lemma existing_signed_thr s e roles sg k a l a' :
  existing_signed s e roles sg k a = Some (l, a') -> thr (now s) a a'.
Proof.
  unfold existing_signed. destruct (negb (sc_rollup e)); [apply all_required_signed_thr|].
  destruct roles as [rs|]; [|apply all_required_signed_thr].
  destruct (parties_signed (now s) (sc_parties e) rs sg k a) as [[pds a1]|] eqn:E; [|discriminate].
  intros [= _ <-]. eapply parties_signed_thr. exact E.
Qed.

Lemma write_parties_thr s sg existing prop cur vo pused a1 :
  write_parties s sg existing prop cur vo = Some (pused, a1) -> thr (now s) (actx0 s) a1.
Proof.
  unfold write_parties. destruct (get (specs s) (sc_spec prop)) as [roles|]; [|discriminate].
  destruct (negb (roles_present roles (sc_parties prop))); [discriminate|].
  destruct (negb (prov_ok s (sc_parties prop))); [discriminate|].
  destruct existing as [e|]; [|intros [= _ <-]; apply thr_refl].
  destruct (negb (sc_rollup e)).
  - destruct (scope_eqb e prop && opt_addr_eqb cur vo); [intros [= _ <-]; apply thr_refl|].
    apply all_required_signed_thr.
  - destruct (parties_signed (now s) (sc_parties e) roles sg KWrite (actx0 s)) as [[pds a2]|] eqn:E; [|discriminate].
    intros [= _ <-]. eapply parties_signed_thr. exact E.
Qed.

Lemma all_granted_thr t c k : forall granters a a', all_granted t granters c k a = Some a' -> thr t a a'.
Proof.
  induction granters as [|x r IH]; intros a a'; cbn [all_granted]; [intros [= <-]; apply thr_refl|].
  destruct (find_grantee t a x [c] k) as [[[g|] a1]|] eqn:Ef; try discriminate.
  intros H. eapply thr_trans; [eapply find_grantee_thr; exact Ef|eapply IH; exact H].
Qed.

Lemma sc_check_thr s used k : forall sg can a a', sc_check s used k can sg a = Some a' -> thr (now s) a a'.
Proof.
  induction sg as [|x rest IH]; intros can a a'; cbn [sc_check]; [intros [= <-]; apply thr_refl|].
  destruct (is_wasm s x); [|apply IH].
  destruct (negb can); [discriminate|]. destruct (mem x used); [apply IH|].
  destruct (is_nil rest); [discriminate|].
  destruct (all_granted (now s) rest x k a) as [a1|] eqn:E; [|discriminate]. intros H.
  eapply thr_trans; [eapply all_granted_thr; exact E|eapply IH; exact H].
Qed.

Lemma vo_check_thr s proposed eff k : forall existing a used a',
  vo_check s existing proposed eff k a = Some (used, a') -> thr (now s) a a'.
Proof.
  induction existing as [|x r IH]; intros a used a'; cbn [vo_check]; [intros [= _ <-]; apply thr_refl|].
  destruct (opt_is proposed x); [apply IH|].
  destruct (mem x eff).
  - destruct (vo_check s r proposed eff k a) as [[l a1]|] eqn:E; [|discriminate]. intros [= _ <-]. eapply IH. exact E.
  - destruct (is_marker s x); [apply IH|].
    destruct (find_grantee (now s) a x eff k) as [[[g|] a1]|] eqn:Ef; try discriminate.
    destruct (vo_check s r proposed eff k a1) as [[l a2]|] eqn:E; [|discriminate]. intros [= _ <-].
    eapply thr_trans; [eapply find_grantee_thr; exact Ef|eapply IH; exact E].
Qed.

Lemma vo_signers_thr s existing proposed sg k a agents used a' :
  vo_signers s existing proposed sg k a = Some (agents, used, a') -> thr (now s) a a'.
Proof.
  unfold vo_signers. destruct (match existing with [x] => opt_is proposed x | _ => false end);
    [intros [= _ _ <-]; apply thr_refl|].
  destruct (vo_check s existing proposed (effective_signers s sg) k a) as [[u a1]|] eqn:E; [|discriminate].
  intros [= _ _ <-]. eapply vo_check_thr. exact E.
Qed.

(** ** One authorization per key *)

Lemma g_is_gkey x y k g : g_is x y k g = true <-> gkey g = (x, y, k).
Proof.
  unfold g_is, gkey. rewrite !andb_true_iff, !N.eqb_eq, kind_eqb_eq. split.
  - intros ((-> & ->) & ->). reflexivity.
  - intros [= -> -> ->]. auto.
Qed.

Lemma lookup_none_notin st x y k : lookup st x y k = None <-> ~ In (x, y, k) (map gkey st).
Proof.
  unfold lookup. split.
  - intros H Hin. apply in_map_iff in Hin. destruct Hin as (g & Hk & Hin).
    apply (find_none _ _ H) in Hin. apply g_is_gkey in Hk. congruence.
  - intros H. destruct (find (g_is x y k) st) as [g|] eqn:E; [|reflexivity]. exfalso.
    apply find_some in E. destruct E as (Hin & Hk). apply H. apply in_map_iff. exists g.
    split; [apply g_is_gkey; exact Hk|exact Hin].
Qed.

Lemma st_update_keys_replace st x y k g' :
  g_is x y k g' = true -> map gkey (st_update st x y k (Some g')) = map gkey st.
Proof.
  intros Hg'. induction st as [|g r IH]; cbn [st_update map]; [reflexivity|].
  destruct (g_is x y k g) eqn:Eg; cbn [map].
  - f_equal. apply g_is_gkey in Eg. apply g_is_gkey in Hg'. congruence.
  - f_equal. exact IH.
Qed.

Lemma st_update_remove_incl st x y k : forall key, In key (map gkey (st_update st x y k None)) -> In key (map gkey st).
Proof.
  induction st as [|g r IH]; cbn [st_update map]; intros key; [intros []|].
  destruct (g_is x y k g); cbn [map].
  - intros H. right. exact H.
  - intros [<-|H]; [left; reflexivity|right; apply IH; exact H].
Qed.

Lemma st_update_keyuniq st x y k new :
  (forall g', new = Some g' -> g_is x y k g' = true) -> KeyUniq st -> KeyUniq (st_update st x y k new).
Proof.
  unfold KeyUniq. intros Hnew. destruct new as [g'|].
  - rewrite (st_update_keys_replace st x y k g' (Hnew g' eq_refl)). intros H. exact H.
  - clear Hnew. induction st as [|g r IH]; cbn [st_update map]; [intros H; exact H|].
    intros H. inversion H as [|a l Ha Hl]; subst. destruct (g_is x y k g); cbn [map]; [exact Hl|].
    constructor; [|apply IH; exact Hl]. intros Hin. apply Ha. eapply st_update_remove_incl. exact Hin.
Qed.

Lemma lookup_st_update_same_some st x y k g' :
  lookup st x y k <> None -> g_is x y k g' = true -> lookup (st_update st x y k (Some g')) x y k = Some g'.
Proof.
  intros Hl Hg'. unfold lookup in *. induction st as [|g r IH]; cbn [st_update find] in *; [congruence|].
  destruct (g_is x y k g) eqn:Eg; cbn [find]; [rewrite Hg'; reflexivity|].
  rewrite Eg. apply IH. exact Hl.
Qed.

Lemma lookup_st_update_same_none st x y k :
  KeyUniq st -> lookup (st_update st x y k None) x y k = None.
Proof.
  unfold KeyUniq. intros HU. apply lookup_none_notin.
  induction st as [|g r IH]; cbn [st_update map]; [intros []|].
  inversion HU as [|a l Ha Hl]; subst. destruct (g_is x y k g) eqn:Eg; cbn [map].
  - apply g_is_gkey in Eg. rewrite <- Eg. exact Ha.
  - intros [H|H]; [apply g_is_gkey in H; congruence|]. apply (IH Hl). exact H.
Qed.

(** ** One use of one authorization *)
(** What an accepted probe does to the authorization it finds. *)
Definition consume (st : list grant) (key : addr * addr * kind) : list grant :=
  let '(x, y, k) := key in
  match lookup st x y k with
  | None => st
  | Some g => match g_left g with
              | None => st
              | Some _ => st_update st x y k (after_use g)
              end
  end.
(** The keys, newest first, used one after the other starting with the oldest. *)
Definition replay (st : list grant) (c : list (addr * addr * kind)) : list grant :=
  fold_right (fun key acc => consume acc key) st c.

Lemma replay_app st c1 c2 : replay st (c1 ++ c2) = replay (replay st c2) c1.
Proof. unfold replay. apply fold_right_app. Qed.

Lemma with_left_key x y k g n : g_is x y k g = true -> g_is x y k (with_left g n) = true.
Proof. intros H. exact H. Qed.

Lemma after_use_key x y k g g' : g_is x y k g = true -> after_use g = Some g' -> g_is x y k g' = true.
Proof.
  unfold after_use. intros Hg. destruct (g_left g) as [n|]; [|intros [= <-]; exact Hg].
  destruct (n =? 1); [discriminate|]. intros [= <-]. exact Hg.
Qed.

Lemma consume_keyuniq st key : KeyUniq st -> KeyUniq (consume st key).
Proof.
  destruct key as [[x y] k]. unfold consume. intros HU.
  destruct (lookup st x y k) as [g|] eqn:El; [|exact HU]. destruct (g_left g) as [n|] eqn:En; [|exact HU].
  apply st_update_keyuniq; [|exact HU]. intros g'. apply after_use_key. eapply lookup_g_is. exact El.
Qed.

Lemma replay_keyuniq st c : KeyUniq st -> KeyUniq (replay st c).
Proof. intros HU. induction c as [|key r IH]; cbn [replay fold_right]; [exact HU|]. apply consume_keyuniq. exact IH. Qed.

Lemma consume_other st x y k x' y' k' :
  (x, y, k) <> (x', y', k') -> lookup (consume st (x, y, k)) x' y' k' = lookup st x' y' k'.
Proof.
  intros Hne. unfold consume. destruct (lookup st x y k) as [g|] eqn:El; [|reflexivity].
  destruct (g_left g) as [n|] eqn:En; [|reflexivity].
  apply lookup_st_update_other; [exact Hne|]. intros g'. apply after_use_key. eapply lookup_g_is. exact El.
Qed.

Lemma consume_same st x y k :
  KeyUniq st ->
  lookup (consume st (x, y, k)) x y k = match lookup st x y k with Some g => after_use g | None => None end.
Proof.
  intros HU. unfold consume. destruct (lookup st x y k) as [g|] eqn:El; [|exact El].
  destruct (g_left g) as [n|] eqn:En.
  - unfold after_use. rewrite En. destruct (n =? 1).
    + apply lookup_st_update_same_none. exact HU.
    + apply lookup_st_update_same_some; [congruence|]. change (g_is x y k g = true). eapply lookup_g_is. exact El.
  - unfold after_use. rewrite En. exact El.
Qed.

Lemma lookup_replay_notin st c x y k :
  ~ In (x, y, k) c -> lookup (replay st c) x y k = lookup st x y k.
Proof.
  induction c as [|[[x' y'] k'] r IH]; cbn [replay fold_right]; intros Hn; [reflexivity|].
  rewrite consume_other; [apply IH; intros H; apply Hn; right; exact H|].
  intros H. apply Hn. left. exact H.
Qed.

(** A key used once: the authorization found at the start, after one use. *)
Lemma lookup_replay_in st c x y k :
  KeyUniq st -> NoDup c -> In (x, y, k) c ->
  lookup (replay st c) x y k = match lookup st x y k with Some g => after_use g | None => None end.
Proof.
  intros HU. induction c as [|[[x' y'] k'] r IH]; cbn [replay fold_right]; intros ND Hin; [destruct Hin|].
  inversion ND as [|a l Ha Hl]; subst.
  destruct (key_dec x' y' k' x y k) as [Heq|Hne].
  - injection Heq as -> -> ->. rewrite consume_same by (apply replay_keyuniq; exact HU).
    fold (replay st r). rewrite (lookup_replay_notin st r x y k Ha). reflexivity.
  - rewrite consume_other by exact Hne. apply IH; [exact Hl|].
    destruct Hin as [H|H]; [congruence|exact H].
Qed.

(** ** What a message does to the store, exactly *)
Definition cache_keys (a : actx) : list (addr * addr * kind) := a_cache a.

Lemma cache_has_In c x y k : cache_has c x y k = true <-> In (x, y, k) c.
Proof.
  unfold cache_has. rewrite existsb_exists. split.
  - intros ([[x' y'] k'] & Hin & H). cbn in H. apply andb_prop in H. destruct H as (H & Hk).
    apply andb_prop in H. destruct H as (Hx & Hy). apply N.eqb_eq in Hx, Hy. apply kind_eqb_eq in Hk. subst. exact Hin.
  - intros Hin. exists (x, y, k). split; [exact Hin|]. cbn. rewrite !N.eqb_refl, kind_eqb_refl. reflexivity.
Qed.

(** [used_once t a a']: from [a] to [a'] the cache grew by fresh keys [c] (no duplicates, none cached
    before), each acceptable before, and the store is the old one with these keys used once each. *)
Definition used_once (t : Z) (a a' : actx) : Prop :=
  exists c, a_cache a' = c ++ a_cache a /\ NoDup c /\ (forall key, In key c -> ~ In key (a_cache a)) /\
            a_grants a' = replay (a_grants a) c.

Lemma lookup1_used_once t a x y k a' : lookup1 t a x y k = LYes a' -> used_once t a a'.
Proof.
  unfold lookup1. destruct (cache_has (a_cache a) x y k) eqn:Ec.
  - intros [= <-]. exists []. split; [reflexivity|]. split; [constructor|]. split; [intros key []|reflexivity].
  - assert (Hfresh : ~ In (x, y, k) (a_cache a)).
    { intros H. apply cache_has_In in H. congruence. }
    destruct (lookup (a_grants a) x y k) as [g|] eqn:El; [|discriminate].
    destruct (expired t g); [discriminate|].
    assert (Hone : forall st, st = consume (a_grants a) (x, y, k) -> used_once t a (cached a st x y k)).
    { intros st ->. exists [(x, y, k)]. split; [reflexivity|]. split; [constructor; [intros []|constructor]|].
      split; [intros key [<-|[]]; exact Hfresh|reflexivity]. }
    destruct (g_left g) as [n|] eqn:En.
    + destruct (n <=? 0); [discriminate|]. destruct (n =? 1) eqn:E1.
      * intros [= <-]. apply Hone. unfold consume. rewrite El, En. unfold after_use. rewrite En, E1. reflexivity.
      * destruct (match g_exp g with Some e => e <=? t | None => false end); [discriminate|].
        intros [= <-]. apply Hone. unfold consume. rewrite El, En. unfold after_use. rewrite En, E1. reflexivity.
    + intros [= <-]. apply Hone. unfold consume. rewrite El, En. reflexivity.
Qed.

Lemma used_once_refl t a : used_once t a a.
Proof. exists []. split; [reflexivity|]. split; [constructor|]. split; [intros key []|reflexivity]. Qed.

Lemma used_once_trans t a b c : used_once t a b -> used_once t b c -> used_once t a c.
Proof.
  intros (c1 & A1 & N1 & F1 & G1) (c2 & A2 & N2 & F2 & G2). exists (c2 ++ c1).
  split; [rewrite A2, A1, app_assoc; reflexivity|]. split; [|split].
  - revert N2 F2. rewrite A1. clear - N1. induction c2 as [|k r IH]; cbn [app]; intros N2 F2; [exact N1|].
    inversion N2 as [|x l Hx Hl]; subst. constructor.
    + intros Hin. apply in_app_or in Hin. destruct Hin as [Hin|Hin]; [contradiction|].
      apply (F2 k (or_introl eq_refl)). apply in_or_app. left. exact Hin.
    + apply IH; [exact Hl|]. intros key Hk. apply F2. right. exact Hk.
  - intros key Hin Hc. apply in_app_or in Hin. destruct Hin as [Hin|Hin].
    + apply (F2 key Hin). rewrite A1. apply in_or_app. right. exact Hc.
    + apply (F1 key Hin). exact Hc.
  - rewrite G2, G1, replay_app. reflexivity.
Qed.

Lemma thr_used_once t a a' : thr t a a' -> used_once t a a'.
Proof.
  induction 1 as [a|a x y k a1 a2 H1 _ IH]; [apply used_once_refl|].
  eapply used_once_trans; [eapply lookup1_used_once; exact H1|exact IH].
Qed.

Lemma thr_le t a a' : thr t a a' -> le t a' a.
Proof.
  induction 1 as [a|a x y k a1 a2 H1 _ IH]; [apply le_refl|].
  eapply le_trans; [exact IH|apply (lookup1_spec _ _ _ _ _ _ H1)].
Qed.

(** An accepted probe leaves its key in the cache, and the cache only grows. *)
Lemma lookup1_cached t a x y k a' : lookup1 t a x y k = LYes a' -> In (x, y, k) (a_cache a').
Proof.
  unfold lookup1. destruct (cache_has (a_cache a) x y k) eqn:Ec.
  - intros [= <-]. apply cache_has_In. exact Ec.
  - destruct (lookup (a_grants a) x y k) as [g|]; [|discriminate]. destruct (expired t g); [discriminate|].
    destruct (g_left g) as [n|].
    + destruct (n <=? 0); [discriminate|]. destruct (n =? 1); [intros [= <-]; left; reflexivity|].
      destruct (match g_exp g with Some e => e <=? t | None => false end); [discriminate|].
      intros [= <-]. left. reflexivity.
    + intros [= <-]. left. reflexivity.
Qed.

Lemma used_once_cache_mono t a a' key : used_once t a a' -> In key (a_cache a) -> In key (a_cache a').
Proof. intros (c & A & _) H. rewrite A. apply in_or_app. right. exact H. Qed.

Lemma try_kinds_cached t x y : forall ks a a',
  try_kinds t a x y ks = LYes a' -> exists k, In k ks /\ In (x, y, k) (a_cache a').
Proof.
  induction ks as [|k r IH]; intros a a'; cbn [try_kinds]; [discriminate|].
  destruct (lookup1 t a x y k) as [| |a1] eqn:E; [discriminate| |].
  - intros H. destruct (IH _ _ H) as (k' & Hk & Hc). exists k'. split; [right; exact Hk|exact Hc].
  - intros [= <-]. exists k. split; [left; reflexivity|eapply lookup1_cached; exact E].
Qed.

Lemma find_grantee_cached t x k : forall gs a g a',
  find_grantee t a x gs k = Some (Some g, a') -> In g gs /\ exists k', In k' (kind_urls k) /\ In (x, g, k') (a_cache a').
Proof.
  induction gs as [|y r IH]; intros a g a'; cbn [find_grantee]; [discriminate|].
  destruct (try_kinds t a x y (kind_urls k)) as [| |a1] eqn:E; [discriminate| |].
  - intros H. destruct (IH _ _ _ H) as (Hin & Hc). split; [right; exact Hin|exact Hc].
  - intros [= <- <-]. split; [left; reflexivity|eapply try_kinds_cached; exact E].
Qed.

(** The value-owner check: a holder that neither signed nor is a marker was covered by an
    authorization whose key is in the cache afterwards. *)
Lemma vo_check_cached s proposed eff k : forall existing a used a',
  vo_check s existing proposed eff k a = Some (used, a') ->
  forall e, In e existing -> proposed <> Some e -> ~ In e eff -> is_marker s e = false ->
  exists g k', In g eff /\ In k' (kind_urls k) /\ In (e, g, k') (a_cache a').
Proof.
  induction existing as [|x r IH]; intros a used a' H e Hin Hne Hns Hnm; [destruct Hin|].
  cbn [vo_check] in H.
  destruct (opt_is proposed x) eqn:Eo.
  - destruct Hin as [<-|Hin]; [apply opt_is_true in Eo; contradiction|]. eapply IH; eassumption.
  - destruct (mem x eff) eqn:Em.
    + destruct (vo_check s r proposed eff k a) as [[l a1]|] eqn:Eu; [|discriminate]. injection H as _ <-.
      destruct Hin as [<-|Hin]; [apply mem_In in Em; contradiction|]. eapply IH; eassumption.
    + destruct (is_marker s x) eqn:Ek.
      * destruct Hin as [<-|Hin]; [congruence|]. eapply IH; eassumption.
      * destruct (find_grantee (now s) a x eff k) as [[[g|] a1]|] eqn:Eg; try discriminate.
        destruct (vo_check s r proposed eff k a1) as [[l a2]|] eqn:Eu; [|discriminate]. injection H as _ <-.
        destruct Hin as [<-|Hin]; [|eapply IH; eassumption].
        destruct (find_grantee_cached _ _ _ _ _ _ _ Eg) as (Hg & k' & Hk' & Hc).
        exists g, k'. split; [exact Hg|]. split; [exact Hk'|].
        eapply used_once_cache_mono; [apply thr_used_once; eapply vo_check_thr; exact Eu|exact Hc].
Qed.

(** ** The shape of a token-moving metadata message *)
(** The signer checks of an accepted message: from the stored grants to the party checks ([a1]),
    the value-owner check over [existing] / [proposed] ([a2]), the smart-contract check ([a3] = the
    store the message leaves); every token that left its holder left a member of [existing]. *)
Definition meta_shape (s : state) (o : op) (k : kind) (s' : state) : Prop :=
  exists existing proposed a1 agents used a2 a3,
    thr (now s) (actx0 s) a1 /\
    vo_signers s existing proposed (signers_of o) k a1 = Some (agents, used, a2) /\
    thr (now s) a2 a3 /\ grants s' = a_grants a3 /\
    (forall d h, holder s d = Some h -> holder s' d <> Some h -> In h existing /\ proposed <> Some h).

Lemma write_shape s sg d parties spec data rollup vo s' :
  Inv s -> step_write s sg d parties spec data rollup vo = Some s' ->
  meta_shape s (OWrite sg d parties spec data rollup vo) KWrite s'.
Proof.
  intros (HB & HT & HQ). unfold step_write.
  destruct (is_nil sg || negb (parties_basic parties rollup)); [discriminate|].
  set (prop := {| sc_parties := parties; sc_spec := spec; sc_data := data; sc_rollup := rollup |}).
  destruct (match scope_of s d, vo with Some _, Some _ => denom_owner (tok s d) | _, _ => Some None end)
    as [cur|] eqn:Ecur; [|discriminate].
  match goal with |- match ?P with _ => _ end = _ -> _ => destruct P as [[pused a1]|] eqn:Epres; [|discriminate] end.
  assert (H1 : thr (now s) (actx0 s) a1).
  { match type of Epres with (if ?c then _ else _) = _ => destruct c end.
    - injection Epres as _ <-. apply thr_refl.
    - eapply write_parties_thr. exact Epres. }
  destruct (vo_signers s (opt_list cur) vo sg KWrite a1) as [[[agents used] a2]|] eqn:Ev; [|discriminate].
  destruct (sc_check s (used ++ pused) KWrite true sg a2) as [a3|] eqn:Esc; [|discriminate].
  intros H. exists (opt_list cur), vo, a1, agents, used, a2, a3.
  split; [exact H1|]. split; [exact Ev|]. split; [eapply sc_check_thr; exact Esc|].
  destruct vo as [p|].
  - destruct (set_vo s d (Some p) agents) as [s1|] eqn:Es; [|discriminate]. injection H as <-.
    split; [reflexivity|].
    destruct (set_vo_spec _ _ _ _ _ HB Es) as (_ & Ho & Hd).
    intros d' h Hh Hch.
    assert (Htok : forall x, tok (commit (with_scopes s1 (put (scopes s1) d (Some prop))) a3) x = tok s1 x) by reflexivity.
    destruct (N.eq_dec d' d) as [->|Hne].
    2:{ exfalso. apply Hch. rewrite <- Hh. apply holder_same. rewrite Htok. apply Ho. exact Hne. }
    pose proof (holder_inv _ _ _ HB Hh) as Hth.
    assert (Hc : cur = Some h).
    { destruct (scope_of s d) eqn:Escope; [|exfalso; apply (HT d); [rewrite Hth; discriminate|exact Escope]].
      rewrite Hth in Ecur. cbn in Ecur. congruence. }
    rewrite Hc. split; [left; reflexivity|]. intros [= ->]. apply Hch.
    destruct Hd as [(_ & A & _)|[(p' & _ & A & _)|[(h' & p' & [= <-] & Hhp & A & _)|(h' & Hx & _)]]]; try discriminate.
    + rewrite <- Hh. apply holder_same. rewrite Htok. exact A.
    + rewrite Hth in A. discriminate.
    + rewrite Hth in A. injection A as <-. contradiction.
  - injection H as <-. split; [reflexivity|]. intros d' h Hh Hch. exfalso. apply Hch. rewrite <- Hh.
    apply holder_same. reflexivity.
Qed.

Lemma delete_shape s sg d s' :
  Inv s -> step_delete s sg d = Some s' -> meta_shape s (ODelete sg d) KDelete s'.
Proof.
  intros (HB & HT & HQ). unfold step_delete.
  destruct (is_nil sg); [discriminate|].
  destruct (scope_of s d) as [e|]; [|discriminate].
  destruct (existing_signed s e (get (specs s) (sc_spec e)) sg KDelete (actx0 s)) as [[pused a1]|] eqn:Ep; [|discriminate].
  destruct (denom_owner (tok s d)) as [cur|] eqn:Ecur; [|discriminate].
  destruct (vo_signers s (opt_list cur) None sg KDelete a1) as [[[agents used] a2]|] eqn:Ev; [|discriminate].
  destruct (sc_check s (used ++ pused) KDelete true sg a2) as [a3|] eqn:Esc; [|discriminate].
  destruct (set_vo s d None agents) as [s1|] eqn:Es; [|discriminate]. intros [= <-].
  exists (opt_list cur), None, a1, agents, used, a2, a3.
  split; [eapply existing_signed_thr; exact Ep|]. split; [exact Ev|]. split; [eapply sc_check_thr; exact Esc|].
  split; [reflexivity|].
  destruct (set_vo_spec _ _ _ _ _ HB Es) as (_ & Ho & _).
  intros d' h Hh Hch.
  assert (Htok : forall x, tok (commit (with_scopes s1 (put (scopes s1) d None)) a3) x = tok s1 x) by reflexivity.
  destruct (N.eq_dec d' d) as [->|Hne].
  2:{ exfalso. apply Hch. rewrite <- Hh. apply holder_same. rewrite Htok. apply Ho. exact Hne. }
  pose proof (holder_inv _ _ _ HB Hh) as Hth. rewrite Hth in Ecur. cbn in Ecur. injection Ecur as <-.
  split; [left; reflexivity|discriminate].
Qed.

Lemma pair_dec (a b : addr * sid) : {a = b} + {a <> b}.
Proof. decide equality; apply N.eq_dec. Qed.

Lemma update_core_shape s o sg links p k s' :
  Inv s -> signers_of o = sg -> sg <> [] -> k <> KAddData -> kind_of o = Some k ->
  (forall f d, In (f, d) links -> tok s d = [(f, 1)]) ->
  update_core s sg links p k = Some s' -> meta_shape s o k s'.
Proof.
  intros HI Hsg Hne Hka Hk Hlinks H.
  destruct (update_core_spec s o sg links p k s' HI Hsg Hk Hka Hne Hlinks H) as (_ & Hmv & Hkeep).
  unfold update_core in H.
  destruct (is_nil links); [discriminate|].
  destruct (existsb (fun l => N.eqb (fst l) p) links) eqn:Ep; [discriminate|].
  destruct (vo_signers s (dedup (map fst links)) (Some p) sg k (actx0 s)) as [[[agents used] a1]|] eqn:Ev; [|discriminate].
  destruct (mem p (blocked s)); [discriminate|].
  destruct (send_groups s (dedup (map fst links)) links p agents) as [s1|]; [|discriminate]. injection H as <-.
  exists (dedup (map fst links)), (Some p), (actx0 s), agents, used, a1, a1.
  split; [apply thr_refl|]. split; [rewrite Hsg; exact Ev|]. split; [apply thr_refl|]. split; [reflexivity|].
  intros d h Hh Hch. pose proof (holder_inv _ _ _ (proj1 HI) Hh) as Hth.
  assert (Hin : In (h, d) links).
  { destruct (in_dec pair_dec (h, d) links) as [Hi|Hn]; [exact Hi|]. exfalso. apply Hch.
    rewrite <- Hh. apply holder_same. apply Hkeep. intros f Hf. apply Hn.
    rewrite (Hlinks f d Hf) in Hth. injection Hth as ->. exact Hf. }
  split; [apply dedup_complete; apply (in_map fst _ _ Hin)|].
  intros [= ->]. assert (E : existsb (fun l => N.eqb (fst l) h) links = true); [|congruence].
  apply existsb_exists. exists (h, d). split; [exact Hin|apply N.eqb_refl].
Qed.

Lemma step_shape s o k s' :
  Inv s -> step_opt s o = Some s' -> kind_of o = Some k -> meta_shape s o k s'.
Proof.
  intros HI H Hk. destruct o; cbn [kind_of] in Hk; try discriminate; injection Hk as <-; cbn [step_opt] in H.
  - apply write_shape; assumption.
  - unfold step_update in H. destruct (is_nil sg || is_nil ds) eqn:Eb; [discriminate|].
    destruct (links_of s [] ds) as [links|] eqn:El; [|discriminate].
    destruct (links_of_spec _ _ _ _ El) as (_ & Hall).
    eapply (update_core_shape s _ sg links p KUpdate); [exact HI|reflexivity| |discriminate|reflexivity| |exact H].
    + apply is_nil_false. apply orb_false_elim in Eb. apply Eb.
    + intros f d Hin. apply denom_owner_single; [apply HI|apply (Hall f d Hin)].
  - unfold step_migrate in H. destruct (is_nil sg) eqn:Eb; [discriminate|].
    eapply (update_core_shape s _ sg _ p KMigrate); [exact HI|reflexivity| |discriminate|reflexivity| |exact H].
    + apply is_nil_false. exact Eb.
    + intros f d Hin. apply in_map_iff in Hin. destruct Hin as (d' & [= <- <-] & Hd).
      apply scopes_held_spec; [apply HI|exact Hd].
  - apply delete_shape; assumption.
Qed.

Lemma kind_urls_plain o k k' : kind_of o = Some k -> In k' (kind_urls k) -> k' = k.
Proof.
  destruct o; cbn [kind_of]; try discriminate; intros [= <-]; cbn [kind_urls]; intros [<-|[]]; reflexivity.
Qed.

(** The grant through which the consent of a holder was given (the holder neither signed nor is a
    marker) was usable before the message and has been used once by it. *)
Lemma grant_use_consumed s o k s' d h :
  Inv s -> KeyUniq (grants s) -> step_opt s o = Some s' -> kind_of o = Some k ->
  holder s d = Some h -> holder s' d <> Some h -> ~ In h (signers_of o) -> marker_of s h = None ->
  exists g gr, In g (signers_of o) /\ lookup (grants s) h g k = Some gr /\ live (now s) gr = true /\
               lookup (grants s') h g k = after_use gr.
Proof.
  intros HI HU H Hk Hh Hch Hns Hnm.
  destruct (step_shape s o k s' HI H Hk) as (existing & proposed & a1 & agents & used & a2 & a3 & T1 & Ev & T3 & Hg & Hex).
  destruct (Hex d h Hh Hch) as (Hin & Hne).
  pose proof (vo_signers_thr _ _ _ _ _ _ _ _ _ Ev) as T2.
  unfold vo_signers in Ev.
  destruct (match existing with [x] => opt_is proposed x | _ => false end) eqn:Eearly.
  { destruct existing as [|x [|y r]]; try discriminate. apply opt_is_true in Eearly.
    destruct Hin as [->|[]]. contradiction. }
  destruct (vo_check s existing proposed (effective_signers s (signers_of o)) k a1) as [[u a2']|] eqn:Eu; [|discriminate].
  injection Ev as _ _ ->.
  assert (Hnm' : is_marker s h = false) by (unfold is_marker; rewrite Hnm; reflexivity).
  assert (Hns' : ~ In h (effective_signers s (signers_of o))).
  { intros Hx. apply Hns. eapply effective_signers_incl. exact Hx. }
  destruct (vo_check_cached _ _ _ _ _ _ _ _ Eu h Hin Hne Hns' Hnm') as (g & k' & Hg' & Hk' & Hc).
  rewrite (kind_urls_plain o k k' Hk Hk') in Hc.
  assert (T : thr (now s) (actx0 s) a3) by (eapply thr_trans; [exact T1|eapply thr_trans; eassumption]).
  destruct (thr_used_once _ _ _ T) as (c & Hcache & ND & _ & Hrep). cbn [actx0 a_cache a_grants] in Hcache, Hrep.
  rewrite app_nil_r in Hcache.
  assert (Hc3 : In (h, g, k) c).
  { rewrite <- Hcache. eapply used_once_cache_mono; [apply thr_used_once; exact T3|exact Hc]. }
  assert (Hacc : acceptable (now s) a3 h g k = true).
  { unfold acceptable. apply orb_true_intro. left. apply cache_has_In. rewrite Hcache. exact Hc3. }
  apply (thr_le _ _ _ T) in Hacc. rewrite acceptable_actx0 in Hacc.
  unfold has_grant, usable in Hacc. destruct (lookup (grants s) h g k) as [gr|] eqn:El; [|discriminate].
  exists g, gr. split; [eapply effective_signers_incl; exact Hg'|]. split; [exact El|]. split; [exact Hacc|].
  rewrite Hg, Hrep, (lookup_replay_in _ _ _ _ _ HU ND Hc3), El. reflexivity.
Qed.

(** ** One authorization per key, over histories *)
Lemma filter_map_NoDup {A B} (f : A -> B) (p : A -> bool) (l : list A) :
  NoDup (map f l) -> NoDup (map f (filter p l)).
Proof.
  induction l as [|a r IH]; cbn [filter map]; intros H; [constructor|].
  inversion H as [|x y Hx Hy]; subst. destruct (p a); cbn [map]; [|apply IH; exact Hy].
  constructor; [|apply IH; exact Hy]. intros Hin. apply Hx. apply in_map_iff in Hin.
  destruct Hin as (b & Hb & Hin). apply filter_In in Hin. apply in_map_iff. exists b. split; [exact Hb|apply Hin].
Qed.

Lemma adddata_thr s sg d da s' :
  step_adddata s sg d da = Some s' -> exists a, thr (now s) (actx0 s) a /\ grants s' = a_grants a.
Proof.
  unfold step_adddata. destruct (is_nil sg || is_nil da); [discriminate|].
  destruct (scope_of s d) as [e|]; [|discriminate].
  destruct (existsb (fun x => mem x (sc_data e)) da); [discriminate|].
  match goal with |- match ?c with _ => _ end = _ -> _ => destruct c as [a2|] eqn:E; [|discriminate] end.
  intros [= <-]. exists a2. split; [|reflexivity].
  destruct (negb (sc_rollup e)).
  - destruct (all_required_signed (now s) (party_addrs (sc_parties e)) sg KAddData (actx0 s)) as [[u a1]|] eqn:E1; [|discriminate].
    eapply thr_trans; [eapply all_required_signed_thr; exact E1|eapply sc_check_thr; exact E].
  - destruct (get (specs s) (sc_spec e)) as [rs|]; [|discriminate].
    destruct (parties_signed (now s) (sc_parties e) rs sg KAddData (actx0 s)) as [[pds a1]|] eqn:E1; [|discriminate].
    destruct (prov_ok s (sc_parties e)); [|discriminate].
    eapply thr_trans; [eapply parties_signed_thr; exact E1|eapply sc_check_thr; exact E].
Qed.

Lemma thr_keyuniq t a a' : thr t a a' -> KeyUniq (a_grants a) -> KeyUniq (a_grants a').
Proof. intros T HU. destruct (thr_used_once _ _ _ T) as (c & _ & _ & _ & ->). apply replay_keyuniq. exact HU. Qed.

Lemma step_keyuniq s o s' : Inv s -> step_opt s o = Some s' -> KeyUniq (grants s) -> KeyUniq (grants s').
Proof.
  intros HI H HU.
  destruct (kind_of o) as [k|] eqn:Ek.
  { destruct (step_shape s o k s' HI H Ek) as (existing & proposed & a1 & agents & used & a2 & a3 & T1 & Ev & T3 & Hg & _).
    rewrite Hg. eapply (thr_keyuniq (now s) (actx0 s)); [|exact HU].
    eapply thr_trans; [exact T1|eapply thr_trans; [eapply vo_signers_thr; exact Ev|exact T3]]. }
  destruct o; cbn [kind_of] in Ek; try discriminate; cbn [step_opt] in H.
  - destruct (adddata_thr _ _ _ _ _ H) as (a & T & ->). eapply thr_keyuniq; [exact T|exact HU].
  - (* send *)
    unfold step_send in H. destruct (amt <=? 0); [discriminate|]. destruct (mem to (blocked s)); [discriminate|].
    destruct (send_spec _ _ _ _ _ _ _ (bankinv_wk _ (proj1 HI)) H) as (_ & _ & F & _).
    destruct F as (_ & _ & _ & _ & Hgr & _). rewrite Hgr. exact HU.
  - (* multi-send *)
    unfold step_multisend in H. destruct (is_nil outs); [discriminate|].
    destruct (existsb (fun o => is_nil (snd o) || has_dup (snd o)) outs); [discriminate|].
    destruct (existsb (fun o => mem (fst o) (blocked s)) outs); [discriminate|].
    destruct (sub_coins s from (flat_map (fun o => ones (snd o)) outs)) as [sa|] eqn:Es; [|discriminate].
    assert (Hpos : forall e, In e (flat_map (fun o : addr * list sid => ones (snd o)) outs) -> 0 < snd e).
    { intros e He. apply in_flat_map in He. destruct He as (o & _ & He). rewrite (proj2 (in_ones _ _ He)). lia. }
    destruct (sub_coins_spec _ _ _ _ (bankinv_wk _ (proj1 HI)) Hpos Es) as (F0 & _ & ND & _ & Ht0 & _).
    rewrite denoms_flat in ND, Ht0.
    destruct (deliver_spec from outs sa s' ND) as (F1 & _); [|exact H|].
    { intros d Hd. rewrite Ht0. apply mem_In in Hd. rewrite Hd. reflexivity. }
    destruct (frame_trans _ _ _ F0 F1) as (_ & _ & _ & _ & Hgr & _). rewrite Hgr. exact HU.
  - (* grant *)
    match type of H with (if ?c then _ else _) = _ => destruct c; [discriminate|] end.
    injection H as <-. unfold KeyUniq. cbn [grants with_grants map gkey g_granter g_grantee g_kind].
    constructor; [|apply filter_map_NoDup; exact HU].
    intros Hin. apply in_map_iff in Hin. destruct Hin as (g & Hk & Hin). apply filter_In in Hin.
    destruct Hin as (_ & Hn). change (gkey g = (granter, grantee, k)) in Hk. apply g_is_gkey in Hk. rewrite Hk in Hn. discriminate.
  - (* revoke *)
    destruct (lookup (grants s) granter grantee k); [|discriminate]. injection H as <-.
    unfold KeyUniq. cbn [grants with_grants]. apply filter_map_NoDup. exact HU.
  - destruct (N.eqb a QHOLD); [discriminate|]. injection H as <-. exact HU.
  - injection H as <-. exact HU.
  - match type of H with (if ?c then _ else _) = _ => destruct c; [discriminate|] end. injection H as <-. exact HU.
  - injection H as <-. exact HU.
  - injection H as <-. exact HU.
  - injection H as <-. exact HU.
  - injection H as <-. exact HU.
  - (* accept *)
    unfold step_accept in H. destruct (is_nil froms); [discriminate|].
    match type of H with match release_all ?sx to ?hit with _ => _ end = _ =>
      destruct (release_all sx to hit) as [s1|] eqn:Er; [|discriminate];
      destruct (release_all_spec to hit sx s1 (bankinv_wk _ (proj1 HI)) Er) as (F & _) end.
    destruct F as (_ & _ & _ & _ & Hgr & _). injection H as <-.
    replace (grants (if permanent then with_qauto s1 _ else s1)) with (grants s1) by (destruct permanent; reflexivity).
    rewrite Hgr. exact HU.
  - destruct (is_nil froms); [discriminate|]. injection H as <-. exact HU.
  - injection H as <-. unfold KeyUniq. cbn [grants with_grants]. apply filter_map_NoDup. exact HU.
Qed.

Lemma run_keyuniq ops : forall s, Inv s -> KeyUniq (grants s) -> KeyUniq (grants (run s ops)).
Proof.
  unfold run. induction ops as [|o r IH]; intros s HI HU; cbn [fold_left]; [exact HU|].
  apply IH; [apply run_op_inv; exact HI|].
  unfold run_op, step. destruct (step_opt s o) as [s'|] eqn:E; cbn [fst]; [|exact HU].
  eapply step_keyuniq; eassumption.
Qed.

Lemma run_op_grant_use s o d h :
  Inv s -> KeyUniq (grants s) ->
  holder s d = Some h -> holder (run_op s o) d <> Some h ->
  ~ In h (signers_of o) -> marker_of s h = None -> is_accept o = false ->
  exists k g gr, kind_of o = Some k /\ In g (signers_of o) /\ lookup (grants s) h g k = Some gr /\
                 live (now s) gr = true /\ lookup (grants (run_op s o)) h g k = after_use gr.
Proof.
  intros HI HU Hh Hch Hns Hnm Hna.
  pose proof (run_op_consent s o d h HI Hh Hch) as [Hc|[(k & g & Hk & _)|[(m & g & Hm & _)|(_ & Hacc)]]];
    [contradiction| |congruence|congruence].
  revert Hch. unfold run_op, step. destruct (step_opt s o) as [s'|] eqn:E; cbn [fst]; [|contradiction].
  intros Hch. destruct (grant_use_consumed s o k s' d h HI HU E Hk Hh Hch Hns Hnm) as (g' & gr & A & B & C & D).
  exists k, g', gr. auto.
Qed.
