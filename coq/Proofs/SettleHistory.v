(** C01: the step specification holds at every point of every history.

    [step_spec] collects, per kind of operation, what Proofs/SettleRefine.v and
    Proofs/SettleFills.v prove about one accepted step.  The only thing those lemmas need from
    the state is that stored orders carry sorted fee coins ([store_ok], part of Order.Validate);
    [run_store_ok] shows that every history of valid operations keeps it, so the specification
    holds for every accepted step after any prefix of any such history. *)
From Coq Require Import ZArith List Bool Lia ZifyBool PArith.
From PV Require Import Exchange.Arith Exchange.Split Exchange.Fulfill Exchange.Settle Exchange.SettleSpec
  Proofs.ArithProofs Proofs.SplitProofs Proofs.FulfillProofs Proofs.FulfillSteps
  Proofs.FulfillShape Proofs.FulfillSums Proofs.SettleProofs Proofs.SettleRefine Proofs.SettleFills.
Import ListNotations.
Open Scope Z_scope.

(** What the request itself must satisfy (ValidateBasic): fee coins are a sorted sdk.Coins. *)
Definition op_ok (o : op) : Prop :=
  match o with
  | OCreate ord _ => sorted (o_fees ord)
  | OFillAsks _ _ _ fees => sorted fees
  | _ => True
  end.

Lemma add_hold_at bal a c : forall hold hold' x d,
  add_hold bal hold a c = Ok hold' ->
  aget hold' x d = aget hold x d + (if Pos.eqb x a then raw_sum c d else 0).
Proof.
  induction c as [|[d1 z1] r IH]; intros hold hold' x d H; cbn [add_hold] in H.
  - inversion H; subst. cbn. destruct (Pos.eqb x a); lia.
  - destruct (aget bal a d1 - aget hold a d1 <? z1); [discriminate|].
    rewrite (IH _ _ _ _ H), aget_aadd, raw_sum_cons. destruct (Pos.eqb x a), (Pos.eqb d d1); cbn; lia.
Qed.

(** The specification of one accepted step. *)
Definition step_spec (cfg : config) (st : state) (o : op) (st' : state) : Prop :=
  match o with
  | OCreate ord _ =>
      st_bal st' = st_bal st /\ st_orders st' = st_orders st ++ [ord] /\
      forall x d, aget (st_hold st') x d =
                  aget (st_hold st) x d + (if Pos.eqb x (o_owner ord) then amount_of (hold_amount ord) d else 0)
  | OSettle askids bidids e =>
      exists asks bids r s,
        get_orders (st_orders st) true askids None = Ok asks /\
        get_orders (st_orders st) false bidids None = Ok bids /\
        build asks bids (Ok r) = Ok s /\
        reported_shape asks bids s /\ Forall (fill_ok r) (fills_of s) /\
        (e = true <-> s_partial s <> None) /\
        (forall x d, aget (st_bal st') x d = aget (st_bal st) x d + spec_delta cfg (map party_of_fill (fills_of s)) x d) /\
        (forall x d, aget (st_hold st') x d = aget (st_hold st) x d - hold_released (fills_of s) x d) /\
        (forall id, find_order (st_orders st') id = orders_after (st_orders st) (s_full s) (s_left s) id) /\
        (forall d, total (st_bal st') d = total (st_bal st) d) /\
        store_ok (st_orders st')
  | OFillBids seller ids total_assets flat =>
      exists bids rf,
        get_orders (st_orders st) false ids (Some seller) = Ok bids /\
        total_assets = sum_assets bids /\
        ratio_fees_of cfg (sum_price bids) = Ok rf /\
        let fills := map bid_fill bids in
        let me := {| p_addr := seller; p_gets := sum_price bids; p_gives := total_assets;
                     p_fees := coins_add (match flat with Some (d, z) => coins_add1 [] d z | None => [] end) rf |} in
        (forall x d, aget (st_bal st') x d = aget (st_bal st) x d + spec_delta cfg (me :: map party_of_fill fills) x d) /\
        (forall x d, aget (st_hold st') x d = aget (st_hold st) x d - hold_released fills x d) /\
        (forall id, find_order (st_orders st') id = orders_after (st_orders st) fills None id) /\
        (forall d, total (st_bal st') d = total (st_bal st) d) /\
        store_ok (st_orders st')
  | OFillAsks buyer ids total_price fees =>
      exists asks fills,
        get_orders (st_orders st) true ids (Some buyer) = Ok asks /\
        sum_price asks = [total_price] /\
        Forall2 (ask_fill_ok cfg) asks fills /\
        let me := {| p_addr := buyer; p_gets := sum_assets asks; p_gives := [total_price]; p_fees := fees |} in
        (forall x d, aget (st_bal st') x d = aget (st_bal st) x d + spec_delta cfg (me :: map party_of_fill fills) x d) /\
        (forall x d, aget (st_hold st') x d = aget (st_hold st) x d - hold_released fills x d) /\
        (forall id, find_order (st_orders st') id = orders_after (st_orders st) fills None id) /\
        (forall d, total (st_bal st') d = total (st_bal st) d) /\
        store_ok (st_orders st')
  end.

Lemma run_op_refines cfg st o st' :
  store_ok (st_orders st) -> op_ok o -> run_op cfg st o = Ok st' ->
  step_spec cfg st o st' /\ store_ok (st_orders st').
Proof.
  intros Hok Hop H. destruct o as [ord [|]|askids bidids e|seller ids ta fl|buyer ids tp fs]; cbn [run_op] in H; cbn [step_spec op_ok] in *.
  - unfold create in H. inv_bind H. inversion H; subst; clear H. cbn [st_bal st_hold st_orders]. split.
    + split; [reflexivity|]. split; [reflexivity|]. intros y d.
      rewrite (add_hold_at _ _ _ _ _ y d Hx), (raw_sum_sorted _ (hold_amount_sorted _ Hop)). reflexivity.
    + unfold store_ok in *. apply Forall_app; split; [assumption|constructor; [assumption|constructor]].
  - discriminate.
  - pose proof (settle_refine _ _ _ _ _ _ Hok H) as R. split; [exact R|].
    destruct R as (? & ? & ? & ? & R). apply R.
  - pose proof (fill_bids_refine _ _ _ _ _ _ _ Hok H) as R. split; [exact R|].
    destruct R as (? & ? & R). apply R.
  - pose proof (fill_asks_refine _ _ _ _ _ _ _ Hok Hop H) as R. split; [exact R|].
    destruct R as (? & ? & R). apply R.
Qed.

Lemma step_store_ok cfg st o : store_ok (st_orders st) -> op_ok o -> store_ok (st_orders (fst (step cfg st o))).
Proof.
  intros Hok Hop. unfold step. destruct (run_op cfg st o) as [st'| |] eqn:E; cbn [fst]; try assumption.
  apply (run_op_refines _ _ _ _ Hok Hop E).
Qed.

Lemma run_store_ok cfg ops : forall st,
  store_ok (st_orders st) -> Forall op_ok ops -> store_ok (st_orders (run cfg st ops)).
Proof.
  unfold run. induction ops as [|o r IH]; intros st Hok Hops; cbn [fold_left]; [assumption|].
  inversion Hops as [|? ? Ho Hr]; subst. apply IH; [|assumption]. apply step_store_ok; assumption.
Qed.

Lemma run_app cfg st l1 l2 : run cfg st (l1 ++ l2) = run cfg (run cfg st l1) l2.
Proof. unfold run. apply fold_left_app. Qed.

(** Over every history: whatever happened before, an accepted step satisfies the
    specification, a rejected step changes nothing, and no coin is created or destroyed. *)
Lemma history_refines cfg st ops :
  store_ok (st_orders st) -> Forall op_ok ops ->
  forall pre o post, ops = pre ++ o :: post ->
    let st1 := run cfg st pre in
    let st2 := fst (step cfg st1 o) in
    (snd (step cfg st1 o) = true -> step_spec cfg st1 o st2) /\
    (snd (step cfg st1 o) = false -> st2 = st1) /\
    (forall d, total (st_bal st2) d = total (st_bal st) d).
Proof.
  intros Hok Hops pre o post ->. cbn zeta.
  apply Forall_app in Hops as [Hpre Hrest]. inversion Hrest as [|? ? Ho _]; subst.
  pose proof (run_store_ok cfg pre st Hok Hpre) as Hok1.
  split; [|split].
  - unfold step. destruct (run_op cfg (run cfg st pre) o) as [st'| |] eqn:E; cbn [fst snd]; try discriminate.
    intros _. apply (run_op_refines _ _ _ _ Hok1 Ho E).
  - unfold step. destruct (run_op cfg (run cfg st pre) o); cbn [fst snd]; try discriminate; reflexivity.
  - intros d. rewrite step_total. apply run_total.
Qed.
