(** Lemmas about the name-module model Name/Name.v (property C15). *)
From Coq Require Import Arith NArith List String Ascii Bool Lia.
From PV Require Import Name.Name.
Import ListNotations.
Open Scope string_scope.
Open Scope list_scope.

(** * Association lists *)
Section AMapFacts.
  Variables K V : Type.
  Variable eqb : K -> K -> bool.
  Hypothesis eqb_spec : forall x y, reflect (x = y) (eqb x y).

  Lemma aget_adel_same : forall (m : list (K * V)) k, aget eqb (adel eqb m k) k = None.
  Proof.
    intros m k. induction m as [|[k0 v0] m IH]; simpl; [reflexivity|].
    destruct (eqb_spec k0 k) as [E|E]; simpl; [exact IH|].
    destruct (eqb_spec k0 k) as [E'|E']; [contradiction|exact IH].
  Qed.

  Lemma aget_adel_other : forall (m : list (K * V)) k k', k' <> k -> aget eqb (adel eqb m k) k' = aget eqb m k'.
  Proof.
    intros m k k' Hne. induction m as [|[k0 v0] m IH]; simpl; [reflexivity|].
    destruct (eqb_spec k0 k) as [E|E]; simpl.
    - subst k0. destruct (eqb_spec k k') as [E'|E']; [congruence|exact IH].
    - destruct (eqb_spec k0 k') as [E'|E']; [reflexivity|exact IH].
  Qed.

  Lemma aget_aset_same : forall (m : list (K * V)) k v, aget eqb (aset eqb m k v) k = Some v.
  Proof. intros m k v. unfold aset. simpl. destruct (eqb_spec k k) as [E|E]; [reflexivity|congruence]. Qed.

  Lemma aget_aset_other : forall (m : list (K * V)) k v k', k' <> k -> aget eqb (aset eqb m k v) k' = aget eqb m k'.
  Proof.
    intros m k v k' Hne. unfold aset. simpl.
    destruct (eqb_spec k k') as [E|E]; [congruence|]. apply aget_adel_other. exact Hne.
  Qed.

  Lemma in_keys_adel : forall (m : list (K * V)) k x, In x (map fst (adel eqb m k)) -> In x (map fst m) /\ x <> k.
  Proof.
    intros m k x. induction m as [|[k0 v0] m IH]; simpl; [tauto|].
    destruct (eqb_spec k0 k) as [E|E]; simpl.
    - intros H. destruct (IH H) as [H1 H2]. split; [right; exact H1|exact H2].
    - intros [H|H]; [subst x; split; [left; reflexivity|exact E]|].
      destruct (IH H) as [H1 H2]. split; [right; exact H1|exact H2].
  Qed.

  Lemma nodup_adel : forall (m : list (K * V)) k, NoDup (map fst m) -> NoDup (map fst (adel eqb m k)).
  Proof.
    intros m k. induction m as [|[k0 v0] m IH]; simpl; intros Hnd; [constructor|].
    inversion Hnd as [|x l Hnin Hnd']; subst.
    destruct (eqb_spec k0 k) as [E|E]; simpl; [exact (IH Hnd')|].
    constructor; [|exact (IH Hnd')].
    intros Hin. apply Hnin. exact (proj1 (in_keys_adel m k k0 Hin)).
  Qed.

  Lemma nodup_aset : forall (m : list (K * V)) k v, NoDup (map fst m) -> NoDup (map fst (aset eqb m k v)).
  Proof.
    intros m k v Hnd. unfold aset. simpl. constructor; [|apply nodup_adel; exact Hnd].
    intros Hin. exact (proj2 (in_keys_adel m k k Hin) eq_refl).
  Qed.

  Lemma aget_some_in : forall (m : list (K * V)) k v, aget eqb m k = Some v -> In (k, v) m.
  Proof.
    intros m k v. induction m as [|[k0 v0] m IH]; simpl; [discriminate|].
    destruct (eqb_spec k0 k) as [E|E]; intros H.
    - injection H as H. subst. left. reflexivity.
    - right. exact (IH H).
  Qed.

  Lemma in_aget_some : forall (m : list (K * V)) k v, NoDup (map fst m) -> In (k, v) m -> aget eqb m k = Some v.
  Proof.
    intros m k v. induction m as [|[k0 v0] m IH]; simpl; intros Hnd Hin; [contradiction|].
    inversion Hnd as [|x l Hnin Hnd']; subst.
    destruct Hin as [Hin|Hin].
    - injection Hin as E1 E2. subst. destruct (eqb_spec k k) as [E|E]; [reflexivity|congruence].
    - destruct (eqb_spec k0 k) as [E|E]; [|exact (IH Hnd' Hin)].
      subst k0. exfalso. apply Hnin. exact (in_map fst m (k, v) Hin).
  Qed.
End AMapFacts.

Lemma ikey_eqb_spec : forall x y : ikey, reflect (x = y) (ikey_eqb x y).
Proof.
  intros [a k] [b k']. unfold ikey_eqb. simpl.
  destruct (N.eqb_spec a b) as [E1|E1], (String.eqb_spec k k') as [E2|E2]; simpl; constructor; congruence.
Qed.

Definition rS := aget_aset_same string record String.eqb String.eqb_spec.
Definition rO := aget_aset_other string record String.eqb String.eqb_spec.
Definition rDS := aget_adel_same string record String.eqb String.eqb_spec.
Definition rDO := aget_adel_other string record String.eqb String.eqb_spec.
Definition iS := aget_aset_same ikey record ikey_eqb ikey_eqb_spec.
Definition iO := aget_aset_other ikey record ikey_eqb ikey_eqb_spec.
Definition iDS := aget_adel_same ikey record ikey_eqb ikey_eqb_spec.
Definition iDO := aget_adel_other ikey record ikey_eqb ikey_eqb_spec.

(** * The state invariant and its preservation

    The invariant is parametrised by [Q], what is known of every stored name.  Under FIXED
    parameters [p] it is [stored_ok p] (the name is a result of Normalize under [p]); for
    histories in which the parameters change (Proofs/NameMsgsProofs.v) it is "a result of Normalize
    under SOME parameters".  The step lemmas need [Q] only for results of Normalize under the
    parameters of that step ([HQ]). *)
Definition agree (s : state) (a : addr) (k : string) : option record :=
  match rget s k with
  | Some r => if N.eqb (r_addr r) a then Some r else None
  | None => None
  end.

Section InvQ.
  Variable hash : string -> string.
  Variable Q : string -> Prop.

  Definition keys_okQ (s : state) : Prop :=
    forall k r, rget s k = Some r -> name_key hash (r_name r) = Some k /\ Q (r_name r).

  Record invQ (s : state) : Prop := {
    invq_nd_recs : NoDup (map fst (st_recs s));
    invq_nd_idx : NoDup (map fst (st_idx s));
    invq_key : keys_okQ s;
    invq_idx : forall a k, iget s (a, k) = agree s a k
  }.

  Lemma invQ_init : invQ init.
  Proof.
    constructor; simpl.
    - constructor.
    - constructor.
    - intros k r H. discriminate H.
    - intros a k. reflexivity.
  Qed.

  (** what addRecord needs of the index around the key it is about to write *)
  Definition pre_add (s : state) (k : string) (a : addr) : Prop :=
    (forall a' k', k' <> k -> iget s (a', k') = agree s a' k') /\
    (forall a', a' <> a -> iget s (a', k) = None).

  Lemma add_record_spec : forall s name a restr md s',
    add_record hash s name a restr md = Some s' ->
    exists k, name_key hash name = Some k /\
      (md = false -> rget s k = None) /\
      s' = {| st_recs := aset String.eqb (st_recs s) k {| r_name := name; r_addr := a; r_restricted := restr |};
              st_idx := aset ikey_eqb (st_idx s) (a, k) {| r_name := name; r_addr := a; r_restricted := restr |} |}.
  Proof.
    intros s name a restr md s' H. unfold add_record in H.
    destruct (name_key hash name) as [k|] eqn:Ek; [|discriminate].
    destruct (ahas String.eqb (st_recs s) k && negb md) eqn:Eh; [discriminate|].
    destruct (is_empty (trim name)); [discriminate|].
    injection H as H. exists k. split; [reflexivity|]. split; [|symmetry; exact H].
    intros Hmd. subst md. rewrite andb_true_r in Eh. unfold ahas in Eh. unfold rget.
    destruct (aget String.eqb (st_recs s) k); [discriminate|reflexivity].
  Qed.

  Lemma add_record_invQ : forall s name a restr md s',
    NoDup (map fst (st_recs s)) -> NoDup (map fst (st_idx s)) -> keys_okQ s ->
    Q name ->
    (forall k, name_key hash name = Some k -> pre_add s k a) ->
    add_record hash s name a restr md = Some s' -> invQ s'.
  Proof.
    intros s name a restr md s' Hn1 Hn2 Hk Hraw Hpre H.
    destruct (add_record_spec _ _ _ _ _ _ H) as [k [Ek [_ Es]]]. subst s'.
    destruct (Hpre k Ek) as [Hp1 Hp2].
    constructor; cbn [st_recs st_idx].
    - apply nodup_aset; [exact String.eqb_spec|exact Hn1].
    - apply nodup_aset; [exact ikey_eqb_spec|exact Hn2].
    - intros k' r. unfold rget. cbn [st_recs st_idx].
      destruct (String.eqb_spec k' k) as [E|E].
      + subst k'. rewrite rS. intros Hr. injection Hr as Hr. subst r. cbn [r_name]. split; [exact Ek|exact Hraw].
      + rewrite (rO _ _ _ _ E). intros Hr. exact (Hk k' r Hr).
    - intros a' k'. unfold iget, agree, rget. cbn [st_recs st_idx].
      destruct (String.eqb_spec k' k) as [E|E].
      + subst k'. rewrite rS. cbn [r_addr].
        destruct (N.eqb_spec a a') as [Ea|Ea].
        * subst a'. rewrite iS. reflexivity.
        * rewrite iO; [|intros Hc; injection Hc as Hc; congruence].
          apply Hp2. congruence.
      + rewrite (rO _ _ _ _ E). rewrite iO; [|intros Hc; injection Hc as Hc1 Hc2; congruence].
        exact (Hp1 a' k' E).
  Qed.

  Lemma inv_pre_add_unbound : forall s k a, invQ s -> rget s k = None -> pre_add s k a.
  Proof.
    intros s k a Hi Hr. split.
    - intros a' k' _. apply (invq_idx s Hi).
    - intros a' _. rewrite (invq_idx s Hi). unfold agree. rewrite Hr. reflexivity.
  Qed.

  Lemma delete_record_invQ : forall s name s',
    invQ s -> delete_record hash s name = Some s' -> invQ s'.
  Proof.
    intros s name s' Hi H. unfold delete_record, get_record in H.
    destruct (name_key hash name) as [k|] eqn:Ek; [|discriminate].
    destruct (rget s k) as [r|] eqn:Er; [|discriminate].
    injection H as H. subst s'. constructor; cbn [st_recs st_idx].
    - apply nodup_adel; [exact String.eqb_spec|exact (invq_nd_recs s Hi)].
    - apply nodup_adel; [exact ikey_eqb_spec|exact (invq_nd_idx s Hi)].
    - intros k' r'. unfold rget. cbn [st_recs st_idx].
      destruct (String.eqb_spec k' k) as [E|E].
      + subst k'. rewrite rDS. discriminate.
      + rewrite (rDO _ _ _ E). exact (invq_key s Hi k' r').
    - intros a' k'. unfold iget, agree, rget. cbn [st_recs st_idx].
      destruct (String.eqb_spec k' k) as [E|E].
      + subst k'. rewrite rDS.
        destruct (N.eqb_spec a' (r_addr r)) as [Ea|Ea].
        * subst a'. apply iDS.
        * rewrite iDO; [|intros Hc; injection Hc as Hc1; congruence].
          fold (iget s (a', k)). rewrite (invq_idx s Hi). unfold agree. rewrite Er.
          destruct (N.eqb_spec (r_addr r) a') as [E'|E']; [congruence|reflexivity].
      + rewrite (rDO _ _ _ E). rewrite iDO; [|intros Hc; injection Hc as Hc1 Hc2; congruence].
        apply (invq_idx s Hi).
  Qed.

  Section StepQ.
  Variable p : params.
  Hypothesis HQ : forall raw n, normalize p raw = Some n -> Q n.

  Lemma set_name_record_invQ : forall s name a restr s',
    invQ s -> set_name_record hash p s name a restr = Some s' -> invQ s'.
  Proof.
    intros s name a restr s' Hi H. unfold set_name_record in H.
    destruct (normalize p name) as [n|] eqn:En; [|discriminate].
    destruct (add_record_spec _ _ _ _ _ _ H) as [k [Ek [Hnone _]]].
    eapply add_record_invQ; try exact H.
    - exact (invq_nd_recs s Hi).
    - exact (invq_nd_idx s Hi).
    - exact (invq_key s Hi).
    - exact (HQ name n En).
    - intros k0 Ek0. rewrite Ek in Ek0. injection Ek0 as Ek0. subst k0.
      apply inv_pre_add_unbound; [exact Hi|exact (Hnone eq_refl)].
  Qed.

  Lemma update_name_record_invQ : forall s name a restr s',
    invQ s -> update_name_record hash p s name a restr = Some s' -> invQ s'.
  Proof.
    intros s name a restr s' Hi H. unfold update_name_record in H.
    destruct (normalize p name) as [n|] eqn:En; [|discriminate].
    assert (Hraw : Q n) by (exact (HQ name n En)).
    unfold get_record in H.
    destruct (name_key hash n) as [k|] eqn:Ek.
    2:{ unfold add_record in H. rewrite Ek in H. discriminate. }
    destruct (rget s k) as [ex|] eqn:Eex.
    - destruct (N.eqb_spec (r_addr ex) a) as [Ea|Ea].
      + eapply add_record_invQ; try exact H; try exact Hraw.
        * exact (invq_nd_recs s Hi).
        * exact (invq_nd_idx s Hi).
        * exact (invq_key s Hi).
        * intros k0 Ek0. rewrite Ek in Ek0. injection Ek0 as Ek0. subst k0. split.
          -- intros a' k' _. apply (invq_idx s Hi).
          -- intros a' Hne. rewrite (invq_idx s Hi). unfold agree. rewrite Eex.
             destruct (N.eqb_spec (r_addr ex) a') as [E'|E']; [congruence|reflexivity].
      + eapply add_record_invQ; try exact H; try exact Hraw; cbn [st_recs st_idx].
        * exact (invq_nd_recs s Hi).
        * apply nodup_adel; [exact ikey_eqb_spec|exact (invq_nd_idx s Hi)].
        * exact (invq_key s Hi).
        * intros k0 Ek0. rewrite Ek in Ek0. injection Ek0 as Ek0. subst k0. split.
          -- intros a' k' Hne. unfold iget. cbn [st_recs st_idx].
             rewrite iDO; [|intros Hc; injection Hc as Hc1 Hc2; congruence].
             apply (invq_idx s Hi).
          -- intros a' Hne. unfold iget. cbn [st_recs st_idx].
             destruct (N.eqb_spec a' (r_addr ex)) as [E'|E'].
             ++ subst a'. apply iDS.
             ++ rewrite iDO; [|intros Hc; injection Hc as Hc1; congruence].
                fold (iget s (a', k)). rewrite (invq_idx s Hi). unfold agree. rewrite Eex.
                destruct (N.eqb_spec (r_addr ex) a') as [E''|E'']; [congruence|reflexivity].
    - eapply add_record_invQ; try exact H; try exact Hraw.
      + exact (invq_nd_recs s Hi).
      + exact (invq_nd_idx s Hi).
      + exact (invq_key s Hi).
      + intros k0 Ek0. rewrite Ek in Ek0. injection Ek0 as Ek0. subst k0.
        apply inv_pre_add_unbound; [exact Hi|exact Eex].
  Qed.

  (** the root-creation loop, for any property preserved by SetNameRecord *)
  Definition root_body (owner : addr) (restr : bool) (acc : string * option state) (seg : string)
    : string * option state :=
    let '(n, os) := acc in
    let n' := trim_right_by is_dot (seg ++ "." ++ n) in
    match os with
    | None => (n', None)
    | Some s1 =>
        match get_record hash s1 n' with
        | Some _ => (n', Some s1)
        | None => (n', set_name_record hash p s1 n' owner restr)
        end
    end.

  Lemma create_root_names_eq : forall s name owner restr,
    create_root_names hash p s name owner restr =
    snd (fold_left (root_body owner restr) (rev (split_dots name)) (EmptyString, Some s)).
  Proof. reflexivity. Qed.

  Lemma create_root_fold : forall (P : state -> Prop) owner restr,
    (forall s n s', P s -> get_record hash s n = None -> set_name_record hash p s n owner restr = Some s' -> P s') ->
    forall l n0 os s',
      (forall s, os = Some s -> P s) ->
      snd (fold_left (root_body owner restr) l (n0, os)) = Some s' -> P s'.
  Proof.
    intros P owner restr Hstep l. induction l as [|seg l IH]; intros n0 os s' Hos H; cbn [fold_left] in H.
    - exact (Hos s' H).
    - destruct os as [s1|].
      + change (root_body owner restr (n0, Some s1) seg) with
          (match get_record hash s1 (trim_right_by is_dot (seg ++ "." ++ n0)) with
           | Some _ => (trim_right_by is_dot (seg ++ "." ++ n0), Some s1)
           | None => (trim_right_by is_dot (seg ++ "." ++ n0),
                      set_name_record hash p s1 (trim_right_by is_dot (seg ++ "." ++ n0)) owner restr)
           end) in H.
        destruct (get_record hash s1 (trim_right_by is_dot (seg ++ "." ++ n0))) as [ex|] eqn:Eg.
        * exact (IH _ _ _ Hos H).
        * refine (IH _ _ _ _ H). intros s2 Hs2.
          exact (Hstep s1 _ s2 (Hos s1 eq_refl) Eg Hs2).
      + change (root_body owner restr (n0, None) seg) with
          (trim_right_by is_dot (seg ++ "." ++ n0), @None state) in H.
        refine (IH _ _ _ _ H). intros s2 Hs2. discriminate Hs2.
  Qed.

  Lemma create_root_names_invQ : forall s name owner restr s',
    invQ s -> create_root_names hash p s name owner restr = Some s' -> invQ s'.
  Proof.
    intros s name owner restr s' Hi H. rewrite create_root_names_eq in H.
    refine (create_root_fold invQ owner restr _ _ _ _ _ _ H).
    - intros s1 n s2 Hi1 _ Hs. exact (set_name_record_invQ _ _ _ _ _ Hi1 Hs).
    - intros s1 Hs1. injection Hs1 as Hs1. subst s1. exact Hi.
  Qed.

  Lemma exec_invQ : forall s o s', invQ s -> exec hash p s o = Some s' -> invQ s'.
  Proof.
    intros s o s' Hi H. destruct o as [signer name owner restr|parent signer child owner restr|signer name owner restr|name signer];
      simpl in H.
    - unfold create_root in H.
      destruct (blank name); [discriminate|].
      destruct (negb (signer =? gov_authority)%N); [discriminate|].
      destruct (get_record hash s name); [discriminate|].
      exact (create_root_names_invQ _ _ _ _ _ Hi H).
    - unfold bind in H.
      destruct (blank parent || blank child || has_dot child); [discriminate|].
      destruct (get_record hash s parent) as [prec|]; [|discriminate].
      destruct (r_restricted prec && negb (resolves_to hash s parent signer)); [discriminate|].
      destruct (normalize p (child ++ "." ++ parent)) as [nm|]; [|discriminate].
      destruct (name_exists hash s nm); [discriminate|].
      exact (set_name_record_invQ _ _ _ _ _ Hi H).
    - unfold modify in H.
      destruct (blank name); [discriminate|].
      destruct (get_record hash s name) as [ex|]; [|discriminate].
      destruct (negb (signer =? gov_authority)%N && negb (signer =? r_addr ex)%N); [discriminate|].
      exact (update_name_record_invQ _ _ _ _ _ Hi H).
    - unfold delete in H.
      destruct (blank name); [discriminate|].
      destruct (normalize p name) as [n|]; [|discriminate].
      destruct (negb (name_exists hash s n)); [discriminate|].
      destruct (negb (resolves_to hash s n signer)); [discriminate|].
      exact (delete_record_invQ _ _ _ Hi H).
  Qed.

  Lemma step_invQ : forall s o, invQ s -> invQ (fst (step hash p s o)).
  Proof.
    intros s o Hi. unfold step. destruct (exec hash p s o) as [s'|] eqn:E; simpl; [|exact Hi].
    exact (exec_invQ _ _ _ Hi E).
  Qed.
  End StepQ.
End InvQ.

(** ** the invariant under fixed parameters (the interface used by Properties/C15.v and by the
    attribute module's proofs) *)
Definition stored_ok (p : params) (n : string) : Prop := exists raw, normalize p raw = Some n.

Lemma stored_ok_normalize : forall p raw n, normalize p raw = Some n -> stored_ok p n.
Proof. intros p raw n H. exists raw. exact H. Qed.

Section Inv.
  Variable hash : string -> string.
  Variable p : params.

  Definition keys_ok (s : state) : Prop :=
    forall k r, rget s k = Some r ->
      name_key hash (r_name r) = Some k /\ exists raw, normalize p raw = Some (r_name r).

  Definition inv (s : state) : Prop := invQ hash (stored_ok p) s.

  Lemma inv_nd_recs : forall s, inv s -> NoDup (map fst (st_recs s)).
  Proof. intros s H. exact (invq_nd_recs _ _ s H). Qed.
  Lemma inv_nd_idx : forall s, inv s -> NoDup (map fst (st_idx s)).
  Proof. intros s H. exact (invq_nd_idx _ _ s H). Qed.
  Lemma inv_key : forall s, inv s -> keys_ok s.
  Proof. intros s H. exact (invq_key _ _ s H). Qed.
  Lemma inv_idx : forall s, inv s -> forall a k, iget s (a, k) = agree s a k.
  Proof. intros s H. exact (invq_idx _ _ s H). Qed.

  Lemma inv_init : inv init.
  Proof. exact (invQ_init hash (stored_ok p)). Qed.

  Lemma set_name_record_inv : forall s name a restr s',
    inv s -> set_name_record hash p s name a restr = Some s' -> inv s'.
  Proof. exact (set_name_record_invQ hash (stored_ok p) p (stored_ok_normalize p)). Qed.

  Lemma update_name_record_inv : forall s name a restr s',
    inv s -> update_name_record hash p s name a restr = Some s' -> inv s'.
  Proof. exact (update_name_record_invQ hash (stored_ok p) p (stored_ok_normalize p)). Qed.

  Lemma delete_record_inv : forall s name s',
    inv s -> delete_record hash s name = Some s' -> inv s'.
  Proof. exact (delete_record_invQ hash (stored_ok p)). Qed.

  Lemma create_root_names_inv : forall s name owner restr s',
    inv s -> create_root_names hash p s name owner restr = Some s' -> inv s'.
  Proof. exact (create_root_names_invQ hash (stored_ok p) p (stored_ok_normalize p)). Qed.

  Lemma exec_inv : forall s o s', inv s -> exec hash p s o = Some s' -> inv s'.
  Proof. exact (exec_invQ hash (stored_ok p) p (stored_ok_normalize p)). Qed.

  Lemma step_inv : forall s o, inv s -> inv (fst (step hash p s o)).
  Proof. exact (step_invQ hash (stored_ok p) p (stored_ok_normalize p)). Qed.

  Lemma run_from_inv : forall ops s, inv s -> inv (fold_left (fun s o => fst (step hash p s o)) ops s).
  Proof.
    intros ops. induction ops as [|o ops IH]; intros s Hi; simpl; [exact Hi|].
    apply IH. apply step_inv. exact Hi.
  Qed.

  Lemma run_inv : forall ops, inv (run hash p ops).
  Proof. intros ops. unfold run. apply run_from_inv. exact inv_init. Qed.
End Inv.

Lemma split_dots_cons : forall s, exists h t, split_dots s = h :: t.
Proof.
  intros s. destruct s as [|c r]; simpl; [exists EmptyString, []; reflexivity|].
  destruct (is_dot c); [exists EmptyString, (split_dots r); reflexivity|].
  destruct (split_dots r) as [|h t]; [exists (String c EmptyString), []|exists (String c h), t]; reflexivity.
Qed.

(** * Normalize is idempotent *)
Lemma is_space_lower : forall c, is_space (lower_char c) = is_space c.
Proof. intros c. destruct c as [[] [] [] [] [] [] [] []]; reflexivity. Qed.
Lemma is_dot_lower : forall c, is_dot (lower_char c) = is_dot c.
Proof. intros c. destruct c as [[] [] [] [] [] [] [] []]; reflexivity. Qed.
Lemma lower_char_idem : forall c, lower_char (lower_char c) = lower_char c.
Proof. intros c. destruct c as [[] [] [] [] [] [] [] []]; reflexivity. Qed.

Lemma to_lower_idem : forall s, to_lower (to_lower s) = to_lower s.
Proof. intros s. induction s as [|c r IH]; simpl; [reflexivity|rewrite IH, lower_char_idem; reflexivity]. Qed.

Lemma is_empty_lower : forall s, is_empty (to_lower s) = is_empty s.
Proof. intros [|c r]; reflexivity. Qed.

Lemma trim_left_lower : forall s, trim_left_by is_space (to_lower s) = to_lower (trim_left_by is_space s).
Proof.
  intros s. induction s as [|c r IH]; simpl; [reflexivity|].
  rewrite is_space_lower. destruct (is_space c); [exact IH|reflexivity].
Qed.

Lemma trim_right_lower : forall s, trim_right_by is_space (to_lower s) = to_lower (trim_right_by is_space s).
Proof.
  intros s. induction s as [|c r IH]; simpl; [reflexivity|].
  rewrite IH, is_space_lower, is_empty_lower.
  destruct (is_space c && is_empty (trim_right_by is_space r)); reflexivity.
Qed.

Lemma trim_lower : forall s, trim (to_lower s) = to_lower (trim s).
Proof. intros s. unfold trim. rewrite trim_left_lower, trim_right_lower. reflexivity. Qed.

Definition hd_ok (t : string) : Prop :=
  match t with EmptyString => True | String c _ => is_space c = false end.

Lemma hd_ok_trim_left : forall s, hd_ok (trim_left_by is_space s).
Proof.
  intros s. induction s as [|c r IH]; simpl; [exact I|].
  destruct (is_space c) eqn:E; [exact IH|simpl; exact E].
Qed.

Lemma hd_ok_trim_right : forall t, hd_ok t -> hd_ok (trim_right_by is_space t).
Proof. intros [|c r] H; simpl in *; [exact I|]. rewrite H. simpl. exact H. Qed.

Lemma trim_left_hd_ok : forall t, hd_ok t -> trim_left_by is_space t = t.
Proof. intros [|c r] H; simpl in *; [reflexivity|rewrite H; reflexivity]. Qed.

Lemma trim_right_idem : forall t, trim_right_by is_space (trim_right_by is_space t) = trim_right_by is_space t.
Proof.
  intros t. induction t as [|c r IH]; simpl; [reflexivity|].
  destruct (is_space c && is_empty (trim_right_by is_space r)) eqn:E; [reflexivity|].
  simpl. rewrite IH, E. reflexivity.
Qed.

Lemma trim_idem : forall s, trim (trim s) = trim s.
Proof.
  intros s. unfold trim.
  rewrite (trim_left_hd_ok _ (hd_ok_trim_right _ (hd_ok_trim_left s))). apply trim_right_idem.
Qed.

Definition seg_norm (s : string) : string := to_lower (trim s).

Lemma seg_norm_idem : forall s, seg_norm (seg_norm s) = seg_norm s.
Proof. intros s. unfold seg_norm. rewrite trim_lower, to_lower_idem, trim_idem. reflexivity. Qed.

Lemma has_dot_lower : forall s, has_dot (to_lower s) = has_dot s.
Proof.
  intros s. unfold has_dot. induction s as [|c r IH]; simpl; [reflexivity|].
  rewrite is_dot_lower, IH. reflexivity.
Qed.

Lemma has_dot_trim_left : forall s, has_dot s = false -> has_dot (trim_left_by is_space s) = false.
Proof.
  intros s. unfold has_dot. induction s as [|c r IH]; simpl; intros H; [reflexivity|].
  apply orb_false_elim in H. destruct H as [H1 H2].
  destruct (is_space c); [exact (IH H2)|]. simpl. rewrite H1, H2. reflexivity.
Qed.

Lemma has_dot_trim_right : forall s, has_dot s = false -> has_dot (trim_right_by is_space s) = false.
Proof.
  intros s. unfold has_dot. induction s as [|c r IH]; simpl; intros H; [reflexivity|].
  apply orb_false_elim in H. destruct H as [H1 H2].
  destruct (is_space c && is_empty (trim_right_by is_space r)); [reflexivity|].
  simpl. rewrite H1. exact (IH H2).
Qed.

Lemma has_dot_seg_norm : forall s, has_dot s = false -> has_dot (seg_norm s) = false.
Proof.
  intros s H. unfold seg_norm, trim. rewrite has_dot_lower.
  apply has_dot_trim_right. apply has_dot_trim_left. exact H.
Qed.

Lemma split_dots_nodot : forall s, Forall (fun x => has_dot x = false) (split_dots s).
Proof.
  intros s. induction s as [|c r IH]; simpl; [repeat constructor|].
  destruct (is_dot c) eqn:Ec; [constructor; [reflexivity|exact IH]|].
  destruct (split_dots r) as [|h t]; [constructor; [|constructor]; unfold has_dot; simpl; rewrite Ec; reflexivity|].
  inversion IH as [|x l Hh Ht]; subst. constructor; [|exact Ht].
  unfold has_dot in *. simpl. rewrite Ec, Hh. reflexivity.
Qed.

Lemma split_nodot : forall a, has_dot a = false -> split_dots a = [a].
Proof.
  intros a. unfold has_dot. induction a as [|c r IH]; simpl; intros H; [reflexivity|].
  apply orb_false_elim in H. destruct H as [H1 H2]. rewrite H1, (IH H2). reflexivity.
Qed.

Lemma split_app_dot : forall a rest, has_dot a = false ->
  split_dots (a ++ String "."%char rest)%string = a :: split_dots rest.
Proof.
  intros a rest. unfold has_dot. induction a as [|c r IH]; simpl; intros H; [reflexivity|].
  apply orb_false_elim in H. destruct H as [H1 H2]. rewrite H1, (IH H2). reflexivity.
Qed.

Lemma split_join : forall l, l <> [] -> Forall (fun x => has_dot x = false) l -> split_dots (join_dots l) = l.
Proof.
  intros l. induction l as [|a l IH]; intros Hne Hf; [congruence|].
  inversion Hf as [|x l' Ha Hl]; subst. destruct l as [|b l].
  - simpl. apply split_nodot. exact Ha.
  - unfold join_dots in *. change (String.concat "." (a :: b :: l)) with (a ++ String "."%char (String.concat "." (b :: l)))%string.
    rewrite (split_app_dot _ _ Ha). rewrite IH; [reflexivity|discriminate|exact Hl].
Qed.

Lemma normalize_name_idem : forall s, normalize_name (normalize_name s) = normalize_name s.
Proof.
  intros s. unfold normalize_name. fold seg_norm.
  change (fun seg : string => to_lower (trim seg)) with seg_norm.
  rewrite split_join.
  - rewrite map_map. f_equal. apply map_ext. intros x. apply seg_norm_idem.
  - destruct (split_dots_cons s) as [h [t E]]. rewrite E. discriminate.
  - pose proof (split_dots_nodot s) as H. induction H as [|x l Hx Hl IH]; simpl; constructor; [|exact IH].
    apply has_dot_seg_norm. exact Hx.
Qed.

Lemma normalize_idem : forall p raw n, normalize p raw = Some n -> normalize p n = Some n.
Proof.
  intros p raw n H. unfold normalize in *.
  destruct (negb (is_valid_name (normalize_name raw))) eqn:E1; [discriminate|].
  match type of H with (if ?c then _ else _) = _ => destruct c eqn:E2 end; [|discriminate].
  injection H as H. subst n. rewrite normalize_name_idem. rewrite E1, E2. reflexivity.
Qed.

(** * What an accepted message proves about the state before it (ownership) and what it changes *)
Section Steps.
  Variable hash : string -> string.
  Variable p : params.

  Lemma set_name_record_spec : forall s name a restr s',
    set_name_record hash p s name a restr = Some s' ->
    exists n k, normalize p name = Some n /\ name_key hash n = Some k /\ rget s k = None /\
      rget s' k = Some {| r_name := n; r_addr := a; r_restricted := restr |} /\
      (forall k', k' <> k -> rget s' k' = rget s k').
  Proof.
    intros s name a restr s' H. unfold set_name_record in H.
    destruct (normalize p name) as [n|] eqn:En; [|discriminate].
    destruct (add_record_spec _ _ _ _ _ _ _ H) as [k [Ek [Hnone Es]]].
    exists n, k. split; [reflexivity|]. split; [exact Ek|]. split; [exact (Hnone eq_refl)|].
    subst s'. unfold rget. cbn [st_recs]. split; [apply rS|]. intros k' Hne. apply rO. exact Hne.
  Qed.

  Lemma update_name_record_spec : forall s name a restr s',
    update_name_record hash p s name a restr = Some s' ->
    exists n k, normalize p name = Some n /\ name_key hash n = Some k /\
      rget s' k = Some {| r_name := n; r_addr := a; r_restricted := restr |} /\
      (forall k', k' <> k -> rget s' k' = rget s k').
  Proof.
    intros s name a restr s' H. unfold update_name_record in H.
    destruct (normalize p name) as [n|] eqn:En; [|discriminate].
    assert (Hgen : forall s1, st_recs s1 = st_recs s -> add_record hash s1 n a restr true = Some s' ->
      exists n0 k, Some n = Some n0 /\ name_key hash n0 = Some k /\
        rget s' k = Some {| r_name := n0; r_addr := a; r_restricted := restr |} /\
        (forall k', k' <> k -> rget s' k' = rget s k')).
    { intros s1 Hrecs Ha. destruct (add_record_spec _ _ _ _ _ _ _ Ha) as [k [Ek [_ Es]]].
      exists n, k. split; [reflexivity|]. split; [exact Ek|]. subst s'. unfold rget. cbn [st_recs].
      rewrite Hrecs. split; [apply rS|]. intros k' Hne. apply rO. exact Hne. }
    destruct (get_record hash s n) as [ex|].
    - destruct (N.eqb (r_addr ex) a).
      + exact (Hgen s eq_refl H).
      + destruct (name_key hash n) as [k|]; [|discriminate].
        exact (Hgen {| st_recs := st_recs s; st_idx := adel ikey_eqb (st_idx s) (r_addr ex, k) |} eq_refl H).
    - exact (Hgen s eq_refl H).
  Qed.

  Lemma step_err_unchanged : forall s o, snd (step hash p s o) = Err -> fst (step hash p s o) = s.
  Proof. intros s o. unfold step. destruct (exec hash p s o); simpl; [discriminate|reflexivity]. Qed.

  Lemma step_ok_exec : forall s o, snd (step hash p s o) = Ok -> exec hash p s o = Some (fst (step hash p s o)).
  Proof. intros s o. unfold step. destruct (exec hash p s o); simpl; [reflexivity|discriminate]. Qed.

  Lemma bind_spec : forall s parent signer child owner restr s',
    bind hash p s parent signer child owner restr = Some s' ->
    exists prec name k,
      get_record hash s parent = Some prec /\
      (r_restricted prec = true -> r_addr prec = signer) /\
      normalize p (child ++ "." ++ parent) = Some name /\
      name_key hash name = Some k /\ rget s k = None /\
      rget s' k = Some {| r_name := name; r_addr := owner; r_restricted := restr |} /\
      (forall k', k' <> k -> rget s' k' = rget s k').
  Proof.
    intros s parent signer child owner restr s' H. unfold bind in H.
    destruct (blank parent || blank child || has_dot child); [discriminate|].
    destruct (get_record hash s parent) as [prec|] eqn:Ep; [|discriminate].
    destruct (r_restricted prec && negb (resolves_to hash s parent signer)) eqn:Er; [discriminate|].
    destruct (normalize p (child ++ "." ++ parent)) as [name|] eqn:En; [|discriminate].
    destruct (name_exists hash s name); [discriminate|].
    destruct (set_name_record_spec _ _ _ _ _ H) as [n [k [En2 [Ek [Hnone [Hnew Hframe]]]]]].
    rewrite (normalize_idem _ _ _ En) in En2. injection En2 as En2. subst n.
    exists prec, name, k. split; [reflexivity|]. split.
    - intros Hr. rewrite Hr in Er. simpl in Er. unfold resolves_to in Er. rewrite Ep in Er.
      apply negb_false_iff in Er. apply N.eqb_eq. exact Er.
    - repeat split; assumption.
  Qed.

  Lemma modify_spec : forall s signer name owner restr s',
    modify hash p s signer name owner restr = Some s' ->
    exists ex n k,
      get_record hash s name = Some ex /\ (signer = gov_authority \/ signer = r_addr ex) /\
      normalize p name = Some n /\ name_key hash n = Some k /\
      rget s' k = Some {| r_name := n; r_addr := owner; r_restricted := restr |} /\
      (forall k', k' <> k -> rget s' k' = rget s k').
  Proof.
    intros s signer name owner restr s' H. unfold modify in H.
    destruct (blank name); [discriminate|].
    destruct (get_record hash s name) as [ex|] eqn:Eg; [|discriminate].
    destruct (negb (signer =? gov_authority)%N && negb (signer =? r_addr ex)%N) eqn:Ea; [discriminate|].
    destruct (update_name_record_spec _ _ _ _ _ H) as [n [k [En [Ek [Hnew Hframe]]]]].
    exists ex, n, k. split; [reflexivity|]. split.
    - apply andb_false_iff in Ea. destruct Ea as [Ea|Ea]; apply negb_false_iff in Ea; apply N.eqb_eq in Ea; [left|right]; exact Ea.
    - repeat split; assumption.
  Qed.

  Lemma delete_spec : forall s name signer s',
    delete hash p s name signer = Some s' ->
    exists ex n k,
      normalize p name = Some n /\ name_key hash n = Some k /\
      rget s k = Some ex /\ r_addr ex = signer /\
      rget s' k = None /\ (forall k', k' <> k -> rget s' k' = rget s k').
  Proof.
    intros s name signer s' H. unfold delete in H.
    destruct (blank name); [discriminate|].
    destruct (normalize p name) as [n|] eqn:En; [|discriminate].
    destruct (negb (name_exists hash s n)); [discriminate|].
    destruct (negb (resolves_to hash s n signer)) eqn:Er; [discriminate|].
    apply negb_false_iff in Er. unfold resolves_to in Er.
    unfold delete_record in H. unfold get_record in Er, H.
    destruct (name_key hash n) as [k|] eqn:Ek; [|discriminate].
    destruct (rget s k) as [ex|] eqn:Eex; [|discriminate].
    injection H as H. subst s'.
    exists ex, n, k. split; [reflexivity|]. split; [exact Ek|]. split; [exact Eex|].
    split; [apply N.eqb_eq; exact Er|]. unfold rget. cbn [st_recs]. split; [apply rDS|].
    intros k' Hne. apply rDO. exact Hne.
  Qed.

  Definition root_frame (s : state) (owner : addr) (restr : bool) (s1 : state) : Prop :=
    (forall k r, rget s k = Some r -> rget s1 k = Some r) /\
    (forall k r, rget s1 k = Some r ->
       rget s k = Some r \/ (rget s k = None /\ r_addr r = owner /\ r_restricted r = restr)).

  Lemma create_root_spec : forall s signer name owner restr s',
    create_root hash p s signer name owner restr = Some s' ->
    signer = gov_authority /\ get_record hash s name = None /\ root_frame s owner restr s'.
  Proof.
    intros s signer name owner restr s' H. unfold create_root in H.
    destruct (blank name); [discriminate|].
    destruct (negb (signer =? gov_authority)%N) eqn:Ea; [discriminate|].
    apply negb_false_iff in Ea. apply N.eqb_eq in Ea.
    destruct (get_record hash s name) eqn:Eg; [discriminate|].
    split; [exact Ea|]. split; [reflexivity|].
    rewrite create_root_names_eq in H.
    refine (create_root_fold hash p (root_frame s owner restr) owner restr _ _ _ _ _ _ H).
    - intros s1 n s2 [F1 F2] _ Hs.
      destruct (set_name_record_spec _ _ _ _ _ Hs) as [n' [k [_ [_ [Hnone [Hnew Hframe]]]]]].
      split.
      + intros k0 r Hr. destruct (String.eqb_spec k0 k) as [E|E].
        * subst k0. rewrite (F1 k r Hr) in Hnone. discriminate.
        * rewrite (Hframe k0 E). exact (F1 k0 r Hr).
      + intros k0 r Hr. destruct (String.eqb_spec k0 k) as [E|E].
        * subst k0. rewrite Hnew in Hr. injection Hr as Hr. subst r. cbn [r_addr r_restricted].
          right. split; [|split; reflexivity].
          destruct (rget s k) as [r0|] eqn:E0; [|reflexivity].
          rewrite (F1 k r0 E0) in Hnone. discriminate.
        * rewrite (Hframe k0 E) in Hr. exact (F2 k0 r Hr).
    - intros s1 Hs1. injection Hs1 as Hs1. subst s1. split.
      + intros k r Hr. exact Hr.
      + intros k r Hr. left. exact Hr.
  Qed.

  (** The ownership statement of C15 on the model, for ANY state [s] (reachable or not). *)
  Lemma ownership_step : forall (s : state) (o : op),
    let s' := fst (step hash p s o) in
    (snd (step hash p s o) = Err -> s' = s) /\
    (snd (step hash p s o) = Ok ->
     match o with
     | OpCreateRoot signer name owner restr =>
         signer = gov_authority /\ get_record hash s name = None /\
         (forall k r, rget s k = Some r -> rget s' k = Some r) /\
         (forall k r, rget s' k = Some r ->
            rget s k = Some r \/ (rget s k = None /\ r_addr r = owner /\ r_restricted r = restr))
     | OpBind parent signer child owner restr =>
         exists prec name k,
           get_record hash s parent = Some prec /\
           (r_restricted prec = true -> r_addr prec = signer) /\
           normalize p (child ++ "." ++ parent) = Some name /\
           name_key hash name = Some k /\ rget s k = None /\
           rget s' k = Some {| r_name := name; r_addr := owner; r_restricted := restr |} /\
           (forall k', k' <> k -> rget s' k' = rget s k')
     | OpModify signer name owner restr =>
         exists ex n k,
           get_record hash s name = Some ex /\ (signer = gov_authority \/ signer = r_addr ex) /\
           normalize p name = Some n /\ name_key hash n = Some k /\
           rget s' k = Some {| r_name := n; r_addr := owner; r_restricted := restr |} /\
           (forall k', k' <> k -> rget s' k' = rget s k')
     | OpDelete name signer =>
         exists ex n k,
           normalize p name = Some n /\ name_key hash n = Some k /\
           rget s k = Some ex /\ r_addr ex = signer /\
           rget s' k = None /\ (forall k', k' <> k -> rget s' k' = rget s k')
     end).
  Proof.
    intros s o s'. split; [apply step_err_unchanged|].
    intros Hok. pose proof (step_ok_exec _ _ Hok) as He. fold s' in He.
    destruct o as [signer name owner restr|parent signer child owner restr|signer name owner restr|name signer];
      cbn [exec] in He.
    - exact (create_root_spec _ _ _ _ _ _ He).
    - exact (bind_spec _ _ _ _ _ _ _ He).
    - exact (modify_spec _ _ _ _ _ _ He).
    - exact (delete_spec _ _ _ _ He).
  Qed.

  (** ... in particular for the state after ANY history under fixed parameters. *)
  Lemma ownership : forall (ops : list op) (o : op),
    let s := run hash p ops in
    let s' := fst (step hash p s o) in
    (snd (step hash p s o) = Err -> s' = s) /\
    (snd (step hash p s o) = Ok ->
     match o with
     | OpCreateRoot signer name owner restr =>
         signer = gov_authority /\ get_record hash s name = None /\
         (forall k r, rget s k = Some r -> rget s' k = Some r) /\
         (forall k r, rget s' k = Some r ->
            rget s k = Some r \/ (rget s k = None /\ r_addr r = owner /\ r_restricted r = restr))
     | OpBind parent signer child owner restr =>
         exists prec name k,
           get_record hash s parent = Some prec /\
           (r_restricted prec = true -> r_addr prec = signer) /\
           normalize p (child ++ "." ++ parent) = Some name /\
           name_key hash name = Some k /\ rget s k = None /\
           rget s' k = Some {| r_name := name; r_addr := owner; r_restricted := restr |} /\
           (forall k', k' <> k -> rget s' k' = rget s k')
     | OpModify signer name owner restr =>
         exists ex n k,
           get_record hash s name = Some ex /\ (signer = gov_authority \/ signer = r_addr ex) /\
           normalize p name = Some n /\ name_key hash n = Some k /\
           rget s' k = Some {| r_name := n; r_addr := owner; r_restricted := restr |} /\
           (forall k', k' <> k -> rget s' k' = rget s k')
     | OpDelete name signer =>
         exists ex n k,
           normalize p name = Some n /\ name_key hash n = Some k /\
           rget s k = Some ex /\ r_addr ex = signer /\
           rget s' k = None /\ (forall k', k' <> k -> rget s' k' = rget s k')
     end).
  Proof. intros ops o. exact (ownership_step (run hash p ops) o). Qed.

  (** Lookups answer for the queried name only up to its key (for any state satisfying the
      invariant, whatever is known of the stored names). *)
  Lemma lookup_up_to_key_inv : forall (Q : string -> Prop) s n r, invQ hash Q s ->
    get_record hash s n = Some r ->
    name_key hash (r_name r) = name_key hash n /\ Q (r_name r) /\
    (r_name r = n \/ (r_name r <> n /\ name_key hash (r_name r) = name_key hash n)).
  Proof.
    intros Q s n r Hi H. unfold get_record in H.
    destruct (name_key hash n) as [k|] eqn:Ek; [|discriminate].
    destruct (invq_key hash Q _ Hi k r H) as [Hk HQ].
    split; [exact Hk|]. split; [exact HQ|].
    destruct (String.eqb_spec (r_name r) n) as [E|E]; [left; exact E|right; split; [exact E|exact Hk]].
  Qed.

  Lemma lookup_up_to_key : forall ops n r,
    get_record hash (run hash p ops) n = Some r ->
    name_key hash (r_name r) = name_key hash n /\ valid p (r_name r) /\
    (r_name r = n \/ (r_name r <> n /\ name_key hash (r_name r) = name_key hash n)).
  Proof.
    intros ops n r H.
    destruct (lookup_up_to_key_inv _ _ _ _ (run_inv hash p ops) H) as [H1 [[raw Hraw] H3]].
    split; [exact H1|]. split; [exact (normalize_idem _ _ _ Hraw)|exact H3].
  Qed.

  (** The by-address index lists exactly the records currently bound to each address. *)
  Lemma index_agrees_inv : forall (Q : string -> Prop) s a, invQ hash Q s ->
    (forall k, iget s (a, k) =
               match rget s k with
               | Some r => if N.eqb (r_addr r) a then Some r else None
               | None => None
               end) /\
    (forall n, In n (reverse_lookup s a) <->
               exists k r, rget s k = Some r /\ r_addr r = a /\ r_name r = n).
  Proof.
    intros Q s a Hi. split.
    - intros k. exact (invq_idx hash Q s Hi a k).
    - intros n. unfold reverse_lookup, records_of. rewrite map_map. rewrite in_map_iff. split.
      + intros [[[a' k] r] [Hn Hin]]. apply filter_In in Hin. destruct Hin as [Hin Hf]. cbn [fst snd] in *.
        apply andb_true_iff in Hf. destruct Hf as [Ha Hr]. apply N.eqb_eq in Ha. apply N.eqb_eq in Hr. subst a'.
        pose proof (in_aget_some ikey record ikey_eqb ikey_eqb_spec _ _ _ (invq_nd_idx hash Q s Hi) Hin) as Hg.
        change (iget s (a, k) = Some r) in Hg. rewrite (invq_idx hash Q s Hi) in Hg. unfold agree in Hg.
        destruct (rget s k) as [r0|] eqn:E0; [|discriminate].
        destruct (N.eqb (r_addr r0) a); [|discriminate]. injection Hg as Hg. subst r0.
        exists k, r. split; [exact E0|]. split; assumption.
      + intros [k [r [Hr [Ha Hn]]]]. exists ((a, k), r). cbn [snd]. split; [exact Hn|].
        apply filter_In. cbn [fst snd]. split.
        * apply (aget_some_in ikey record ikey_eqb ikey_eqb_spec).
          change (iget s (a, k) = Some r). rewrite (invq_idx hash Q s Hi). unfold agree. rewrite Hr.
          rewrite (proj2 (N.eqb_eq _ _) Ha). reflexivity.
        * rewrite Ha. rewrite N.eqb_refl. reflexivity.
  Qed.

  Lemma index_agrees : forall ops a,
    let s := run hash p ops in
    (forall k, iget s (a, k) =
               match rget s k with
               | Some r => if N.eqb (r_addr r) a then Some r else None
               | None => None
               end) /\
    (forall n, In n (reverse_lookup s a) <->
               exists k r, rget s k = Some r /\ r_addr r = a /\ r_name r = n).
  Proof. intros ops a. exact (index_agrees_inv _ _ a (run_inv hash p ops)). Qed.

  (** Resolve and the by-address listing agree up to the key: a listed name resolves to the
      address; a name that resolves to the address is listed itself or, when keys collide,
      another name with the same key is listed in its place. *)
  Lemma lookups_agree_up_to_key_inv : forall (Q : string -> Prop) s a n, invQ hash Q s ->
    (In n (reverse_lookup s a) -> resolves_to hash s n a = true) /\
    (resolves_to hash s n a = true ->
       In n (reverse_lookup s a) \/
       exists n', n' <> n /\ In n' (reverse_lookup s a) /\ name_key hash n' = name_key hash n).
  Proof.
    intros Q s a n Hi.
    destruct (index_agrees_inv Q s a Hi) as [_ Hl]. split.
    - intros Hin. apply Hl in Hin. destruct Hin as [k [r [Hr [Ha Hn]]]].
      destruct (invq_key hash Q s Hi k r Hr) as [Hk _]. rewrite Hn in Hk.
      unfold resolves_to, get_record. rewrite Hk. rewrite Hr. apply N.eqb_eq. exact Ha.
    - intros Hres. unfold resolves_to, get_record in Hres.
      destruct (name_key hash n) as [k|] eqn:Ek; [|discriminate].
      destruct (rget s k) as [r|] eqn:Er; [|discriminate]. apply N.eqb_eq in Hres.
      destruct (invq_key hash Q s Hi k r Er) as [Hk _].
      destruct (String.eqb_spec (r_name r) n) as [E|E].
      + left. apply Hl. exists k, r. split; [exact Er|]. split; [exact Hres|exact E].
      + right. exists (r_name r). split; [exact E|]. split; [|exact Hk].
        apply Hl. exists k, r. split; [exact Er|]. split; [exact Hres|reflexivity].
  Qed.

  Lemma lookups_agree_up_to_key : forall ops a n,
    let s := run hash p ops in
    (In n (reverse_lookup s a) -> resolves_to hash s n a = true) /\
    (resolves_to hash s n a = true ->
       In n (reverse_lookup s a) \/
       exists n', n' <> n /\ In n' (reverse_lookup s a) /\ name_key hash n' = name_key hash n).
  Proof. intros ops a n. exact (lookups_agree_up_to_key_inv _ _ a n (run_inv hash p ops)). Qed.
End Steps.

(** * The key function: where it is injective and where it is not *)

Lemma append_empty_r : forall a : string, (a ++ "")%string = a.
Proof. intros a. induction a as [|c a IH]; simpl; [reflexivity|rewrite IH; reflexivity]. Qed.

Lemma concat_empty_cons : forall a l, String.concat "" (a :: l) = (a ++ String.concat "" l)%string.
Proof. intros a [|b l]; [simpl; rewrite append_empty_r; reflexivity|reflexivity]. Qed.

Lemma append_inj_length : forall a b x y : string,
  String.length a = String.length b -> (a ++ x)%string = (b ++ y)%string -> a = b /\ x = y.
Proof.
  intros a. induction a as [|c a IH]; intros [|d b] x y Hl He; simpl in *; try discriminate.
  - split; [reflexivity|exact He].
  - injection Hl as Hl. injection He as Hc He. destruct (IH b x y Hl He) as [E1 E2]. subst. split; reflexivity.
Qed.

Lemma concat_inj_profile : forall l1 l2 : list string,
  map String.length l1 = map String.length l2 -> String.concat "" l1 = String.concat "" l2 -> l1 = l2.
Proof.
  intros l1. induction l1 as [|a l1 IH]; intros [|b l2] Hl He; simpl in Hl; try discriminate; [reflexivity|].
  injection Hl as Hab Hl. rewrite !concat_empty_cons in He.
  destruct (append_inj_length _ _ _ _ Hab He) as [E1 E2]. subst b. rewrite (IH l2 Hl E2). reflexivity.
Qed.

(** segment lists with the same length profile have the same pre-image only if equal *)
Lemma preimage_inj_profile : forall l1 l2 : list string,
  map String.length l1 = map String.length l2 ->
  String.concat "" (rev l1) = String.concat "" (rev l2) -> l1 = l2.
Proof.
  intros l1 l2 Hl He.
  assert (Hr : rev l1 = rev l2).
  { apply concat_inj_profile; [|exact He]. rewrite !map_rev. rewrite Hl. reflexivity. }
  rewrite <- (rev_involutive l1), <- (rev_involutive l2), Hr. reflexivity.
Qed.

Lemma is_dot_eq : forall c, is_dot c = true -> c = "."%char.
Proof.
  intros c H. unfold is_dot, code in H. apply N.eqb_eq in H.
  rewrite <- (ascii_N_embedding c), H. reflexivity.
Qed.

Lemma concat_cons2 : forall sep a b l,
  String.concat sep (a :: b :: l) = (a ++ sep ++ String.concat sep (b :: l))%string.
Proof. reflexivity. Qed.

Lemma join_split : forall s, join_dots (split_dots s) = s.
Proof.
  intros s. induction s as [|c r IH]; [reflexivity|].
  cbn [split_dots]. destruct (split_dots_cons r) as [h [t Er]]. rewrite Er in *.
  unfold join_dots in *.
  destruct (is_dot c) eqn:Ec.
  - rewrite (is_dot_eq c Ec). rewrite concat_cons2. rewrite IH. reflexivity.
  - destruct t as [|h2 t2].
    + simpl in *. rewrite IH. reflexivity.
    + rewrite concat_cons2 in *. rewrite <- IH. reflexivity.
Qed.

Lemma same_profile_injective : forall n1 n2,
  map trim (split_dots n1) = split_dots n1 -> map trim (split_dots n2) = split_dots n2 ->
  map String.length (split_dots n1) = map String.length (split_dots n2) ->
  name_key_preimage n1 <> None ->
  name_key_preimage n1 = name_key_preimage n2 -> n1 = n2.
Proof.
  intros n1 n2 H1 H2 Hl Hs He. unfold name_key_preimage in *. rewrite H1 in *. rewrite H2 in *.
  destruct (is_empty (trim n1)); [congruence|].
  destruct (existsb is_empty (split_dots n1)); [congruence|].
  destruct (is_empty (trim n2)); [discriminate|].
  destruct (existsb is_empty (split_dots n2)); [discriminate|].
  injection He as He. pose proof (preimage_inj_profile _ _ Hl He) as E.
  rewrite <- (join_split n1), <- (join_split n2), E. reflexivity.
Qed.

Lemma same_preimage_same_key : forall (hash : string -> string) n1 n2,
  name_key_preimage n1 = name_key_preimage n2 -> name_key hash n1 = name_key hash n2.
Proof. intros hash n1 n2 H. unfold name_key. rewrite H. reflexivity. Qed.

Lemma keys_collide :
  exists n1 n2, valid default_params n1 /\ valid default_params n2 /\ n1 <> n2 /\
                name_key_preimage n1 = name_key_preimage n2.
Proof.
  exists "aa.bbcc", "ccaa.bb". unfold valid. vm_compute.
  split; [reflexivity|]. split; [reflexivity|]. split; [intros H; discriminate H|reflexivity].
Qed.

(** Even with an injective hash (the identity), the collision confers authority: user 1 binds
    aa.bbcc; the never-bound name ccaa.bb then resolves to user 1, the owner (user 3) of the
    restricted root bb cannot bind ccaa under it, and user 1 can modify ccaa.bb and bind under it. *)
Definition hid (s : string) : string := s.
Definition confusion_ops : list op :=
  [OpCreateRoot 0%N "bbcc" 2%N false; OpBind "bbcc" 1%N "aa" 1%N true; OpCreateRoot 0%N "bb" 3%N true].

Lemma authority_confusion :
  let s := run hid default_params confusion_ops in
  get_record hid s "ccaa.bb" = Some {| r_name := "aa.bbcc"; r_addr := 1%N; r_restricted := true |} /\
  resolves_to hid s "ccaa.bb" 1%N = true /\
  reverse_lookup s 1%N = ["aa.bbcc"] /\
  snd (step hid default_params s (OpBind "bb" 3%N "ccaa" 3%N false)) = Err /\
  snd (step hid default_params s (OpModify 1%N "ccaa.bb" 2%N false)) = Ok /\
  snd (step hid default_params s (OpBind "ccaa.bb" 1%N "zz" 1%N false)) = Ok.
Proof. vm_compute. repeat split. Qed.

(** a concrete history exercising every message kind, for non-vacuity *)
Definition sample_ops : list op :=
  [OpCreateRoot 0%N "pb" 1%N true; OpBind "pb" 1%N "aa" 2%N false; OpBind "pb" 3%N "bb" 3%N false;
   OpBind "aa.pb" 3%N "cc" 3%N true; OpModify 2%N "aa.pb" 3%N true; OpModify 2%N "aa.pb" 2%N true;
   OpDelete "cc.aa.pb" 1%N; OpDelete "cc.aa.pb" 3%N; OpModify 0%N "pb" 2%N false].
