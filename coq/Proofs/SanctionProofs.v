(** Lemmas about the sanction / governance / bank model (Sanction/Sanction.v) for property C06. *)
From Coq Require Import ZArith NArith List Bool Lia.
From PV Require Import Sanction.Sanction.
Import ListNotations.
Open Scope Z_scope.

Ltac splits := repeat match goal with |- _ /\ _ => split end.

(** * Lists of addresses and temporary entries *)

Lemma memN_In : forall a l, memN a l = true <-> In a l.
Proof.
  intros a l; unfold memN; rewrite existsb_exists; split.
  - intros [x [Hin Heq]]; apply N.eqb_eq in Heq; subst; exact Hin.
  - intros Hin; exists a; split; [exact Hin | apply N.eqb_refl].
Qed.

Lemma memN_false : forall a l, memN a l = false <-> ~ In a l.
Proof.
  intros a l; split.
  - intros Hf Hin; apply memN_In in Hin; congruence.
  - intros Hn; destruct (memN a l) eqn:E; [apply memN_In in E; contradiction | reflexivity].
Qed.

Lemma lookup_In : forall a p b l, temp_lookup a p l = Some b -> In (a, p, b) l.
Proof.
  intros a p b l; induction l as [|[[a' p'] b'] r IH]; cbn [temp_lookup]; intros H.
  - discriminate.
  - destruct (N.eqb a a' && N.eqb p p') eqn:E.
    + apply andb_true_iff in E; destruct E as [Ea Ep]; apply N.eqb_eq in Ea, Ep.
      inversion H; subst; left; reflexivity.
    + right; apply IH; exact H.
Qed.

Lemma In_lookup : forall a p b l, In (a, p, b) l -> temp_lookup a p l <> None.
Proof.
  intros a p b l; induction l as [|[[a' p'] b'] r IH]; cbn [temp_lookup In]; intros H.
  - contradiction.
  - destruct (N.eqb a a' && N.eqb p p') eqn:E; [discriminate|].
    destruct H as [H|H]; [|apply IH; exact H].
    inversion H; subst; rewrite !N.eqb_refl in E; discriminate.
Qed.

Lemma latest_temp_some : forall a l p b,
  latest_temp a l = Some (p, b) ->
  temp_lookup a p l = Some b /\ forall q c, temp_lookup a q l = Some c -> (q <= p)%N.
Proof.
  intros a l; induction l as [|[[a' p'] b'] r IH]; intros p b; cbn [latest_temp temp_lookup].
  - discriminate.
  - destruct (N.eqb a a') eqn:Ea; cbn [andb].
    + destruct (latest_temp a r) as [[q c]|] eqn:El.
      * destruct (IH q c eq_refl) as [Hl Hmax].
        destruct (N.ltb p' q) eqn:Elt; intros H; inversion H; subst.
        -- apply N.ltb_lt in Elt.
           destruct (N.eqb p p') eqn:Ep; [apply N.eqb_eq in Ep; lia|].
           split; [exact Hl|].
           intros q0 c0; destruct (N.eqb q0 p') eqn:Eq0.
           ++ apply N.eqb_eq in Eq0; intros _; lia.
           ++ apply Hmax.
        -- apply N.ltb_ge in Elt. rewrite N.eqb_refl. split; [reflexivity|].
           intros q0 c0; destruct (N.eqb q0 p) eqn:Eq0.
           ++ apply N.eqb_eq in Eq0; intros _; lia.
           ++ intros Hq; specialize (Hmax _ _ Hq); lia.
      * intros H; inversion H; subst. rewrite N.eqb_refl. split; [reflexivity|].
        intros q0 c0; destruct (N.eqb q0 p) eqn:Eq0.
        -- apply N.eqb_eq in Eq0; intros _; lia.
        -- intros Hq.
           assert (Hnone : forall q, temp_lookup a q r = None).
           { clear -El. revert El. induction r as [|[[a2 p2] b2] r2 IH2]; cbn [latest_temp temp_lookup]; intros El q.
             - reflexivity.
             - destruct (N.eqb a a2) eqn:E2.
               + destruct (latest_temp a r2) as [[q2 c2]|]; [destruct (N.ltb p2 q2)|]; discriminate.
               + cbn [andb]. apply IH2; exact El. }
           rewrite Hnone in Hq; discriminate.
    + intros H. apply IH; exact H.
Qed.

Lemma latest_temp_none : forall a l, latest_temp a l = None -> forall q, temp_lookup a q l = None.
Proof.
  intros a l; induction l as [|[[a2 p2] b2] r2 IH2]; cbn [latest_temp temp_lookup]; intros El q.
  - reflexivity.
  - destruct (N.eqb a a2) eqn:E2.
    + destruct (latest_temp a r2) as [[q2 c2]|]; [destruct (N.ltb p2 q2)|]; discriminate.
    + cbn [andb]. apply IH2; exact El.
Qed.

Lemma latest_temp_of_max : forall a l p b,
  temp_lookup a p l = Some b -> (forall q c, temp_lookup a q l = Some c -> (q <= p)%N) ->
  latest_temp a l = Some (p, b).
Proof.
  intros a l p b Hl Hmax.
  destruct (latest_temp a l) as [[p' b']|] eqn:E.
  - destruct (latest_temp_some _ _ _ _ E) as [Hl' Hmax'].
    assert (p' = p) by (specialize (Hmax _ _ Hl'); specialize (Hmax' _ _ Hl); lia).
    subst; rewrite Hl in Hl'; inversion Hl'; reflexivity.
  - rewrite (latest_temp_none _ _ E) in Hl; discriminate.
Qed.

Lemma In_del_addr : forall e addrs l, In e (del_addr_temps addrs l) -> In e l.
Proof. intros e addrs l H; unfold del_addr_temps in H; apply filter_In in H; tauto. Qed.

Lemma In_del_addr_not : forall a p b addrs l, In (a, p, b) (del_addr_temps addrs l) -> ~ In a addrs.
Proof.
  intros a p b addrs l H; unfold del_addr_temps in H; apply filter_In in H; destruct H as [_ H].
  apply negb_true_iff in H; apply memN_false in H; exact H.
Qed.

Lemma In_del_prop : forall e pid l, In e (del_prop_temps pid l) -> In e l.
Proof. intros e pid l H; unfold del_prop_temps in H; apply filter_In in H; tauto. Qed.

Lemma In_del_prop_not : forall a p b pid l, In (a, p, b) (del_prop_temps pid l) -> p <> pid.
Proof.
  intros a p b pid l H; unfold del_prop_temps in H; apply filter_In in H; destruct H as [_ H].
  apply negb_true_iff in H; apply N.eqb_neq in H; exact H.
Qed.

Lemma existsb_unsanct_false : forall c addrs a,
  existsb (unsanct c) addrs = false -> In a addrs -> unsanct c a = false.
Proof.
  intros c addrs a H Hin; destruct (unsanct c a) eqn:E; [|reflexivity].
  assert (existsb (unsanct c) addrs = true) by (apply existsb_exists; exists a; auto). congruence.
Qed.

Lemma add_temps_In : forall c b pid addrs l l',
  add_temps c b pid addrs l = Some l' ->
  forall a p b', In (a, p, b') l' ->
    In (a, p, b') l \/ (p = pid /\ b' = b /\ In a addrs /\ (b = true -> unsanct c a = false)).
Proof.
  intros c b pid addrs l l' H; unfold add_temps in H.
  destruct (b && existsb (unsanct c) addrs) eqn:E; [discriminate|]; inversion H; subst; clear H.
  assert (Hu : forall a, In a addrs -> b = true -> unsanct c a = false).
  { intros a Hin Hb; subst b; cbn [andb] in E; eapply existsb_unsanct_false; eauto. }
  clear E. revert l Hu. induction addrs as [|x r IH]; cbn [fold_left]; intros l Hu a p b' Hin.
  - left; exact Hin.
  - destruct (IH ((x, pid, b) :: l) (fun a0 H0 => Hu a0 (or_intror H0)) a p b' Hin) as [H|[H1 [H2 [H3 H4]]]].
    + destruct H as [H|H]; [|left; exact H].
      inversion H; subst; right; repeat split; [left; reflexivity | apply Hu; left; reflexivity].
    + right; repeat split; auto. right; exact H3.
Qed.

(** * Addresses named by a proposal's messages *)
Definition msg_addrs (ms : list msg) : list N :=
  flat_map (fun m => match m with MSanction l => l | MUnsanction l => l | MParams _ _ => [] end) ms.

(** * The part of the state the sanction logic depends on *)
Definition core (s : state) := (perm s, temps s, props s, next_id s, smin s, umin s).

Lemma is_sanctioned_core : forall c s s' a, perm s' = perm s -> temps s' = temps s ->
  is_sanctioned c s' a = is_sanctioned c s a.
Proof. intros c s s' a Hp Ht; unfold is_sanctioned; rewrite Hp, Ht; reflexivity. Qed.

Lemma get_prop_In : forall pid l pr, get_prop pid l = Some pr -> In pr l /\ p_id pr = pid.
Proof.
  intros pid l; induction l as [|x r IH]; cbn [get_prop]; intros pr H; [discriminate|].
  destruct (N.eqb (p_id x) pid) eqn:E.
  - inversion H; subst; apply N.eqb_eq in E; split; [left; reflexivity | exact E].
  - destruct (IH _ H); split; [right|]; assumption.
Qed.

Lemma get_prop_none : forall pid l, get_prop pid l = None -> forall pr, In pr l -> p_id pr <> pid.
Proof.
  intros pid l; induction l as [|x r IH]; cbn [get_prop In]; intros H pr Hin; [contradiction|].
  destruct (N.eqb (p_id x) pid) eqn:E; [discriminate|]. apply N.eqb_neq in E.
  destruct Hin as [Hin|Hin]; [subst; exact E | apply IH; assumption].
Qed.

Lemma get_prop_put : forall pid pr l,
  (match get_prop pid (put_prop pr l) with Some _ => true | None => false end) =
  (match get_prop pid l with Some _ => true | None => false end).
Proof.
  intros pid pr l; induction l as [|x r IH]; cbn [put_prop map get_prop]; [reflexivity|].
  destruct (N.eqb (p_id x) (p_id pr)) eqn:E.
  - apply N.eqb_eq in E.
    assert (Hx : N.eqb (p_id pr) pid = N.eqb (p_id x) pid) by (rewrite E; reflexivity).
    rewrite Hx. destruct (N.eqb (p_id x) pid); [reflexivity | exact IH].
  - destruct (N.eqb (p_id x) pid); [reflexivity | exact IH].
Qed.

Lemma In_put_prop : forall pr x l, In x (put_prop pr l) ->
  In x l \/ (x = pr /\ exists y, In y l /\ p_id y = p_id pr).
Proof.
  intros pr x l H; unfold put_prop in H; apply in_map_iff in H; destruct H as [y [Hy Hin]].
  destruct (N.eqb (p_id y) (p_id pr)) eqn:E.
  - right; split; [symmetry; exact Hy|]; exists y; split; [exact Hin | apply N.eqb_eq; exact E].
  - left; subst; exact Hin.
Qed.

Lemma In_remove_prop : forall pid x l, In x (remove_prop pid l) -> In x l /\ p_id x <> pid.
Proof.
  intros pid x l H; unfold remove_prop in H; apply filter_In in H; destruct H as [H1 H2].
  apply negb_true_iff in H2; apply N.eqb_neq in H2; tauto.
Qed.

Lemma get_prop_remove_same : forall pid l, get_prop pid (remove_prop pid l) = None.
Proof.
  intros pid l; induction l as [|x r IH]; cbn [remove_prop filter get_prop]; [reflexivity|].
  destruct (N.eqb (p_id x) pid) eqn:E; cbn [negb]; [exact IH|].
  cbn [get_prop]; rewrite E; exact IH.
Qed.

Lemma get_prop_remove_other : forall pid q l, q <> pid -> get_prop q (remove_prop pid l) = get_prop q l.
Proof.
  intros pid q l Hne; induction l as [|x r IH]; cbn [remove_prop filter get_prop]; [reflexivity|].
  destruct (N.eqb (p_id x) pid) eqn:E; cbn [negb].
  - apply N.eqb_eq in E. destruct (N.eqb (p_id x) q) eqn:E2; [apply N.eqb_eq in E2; congruence | exact IH].
  - cbn [get_prop]. destruct (N.eqb (p_id x) q); [reflexivity | exact IH].
Qed.

(** * The invariant *)
Definition nn2 (x : amt2) : Prop := 0 <= fst x /\ 0 <= snd x.
Definition bal_le (s s' : state) (x : N) : Prop := bal s x <= bal s' x /\ balb s x <= balb s' x.
Lemma bal_le_refl : forall s x, bal_le s s x.
Proof. intros; unfold bal_le; lia. Qed.
Lemma bal_le_trans : forall s1 s2 s3 x, bal_le s1 s2 x -> bal_le s2 s3 x -> bal_le s1 s3 x.
Proof. unfold bal_le; intros; lia. Qed.
Lemma nonneg2_nn2 : forall x, nonneg2 x = true <-> nn2 x.
Proof. intros [a b]; unfold nonneg2, nn2; cbn [fst snd]; rewrite andb_true_iff, !Z.leb_le; tauto. Qed.


Record Inv (c : config) (s : state) : Prop := {
  inv_temp_fresh : forall a p b, In (a, p, b) (temps s) -> (p < next_id s)%N;
  inv_live_fresh : forall pr, In pr (props s) -> (p_id pr < next_id s)%N;
  inv_temp_addr : forall a p b pr, In (a, p, b) (temps s) -> In pr (props s) -> p_id pr = p ->
                                   In a (msg_addrs (p_msgs pr));
  inv_unsanct_temp : forall a p, In (a, p, true) (temps s) -> unsanct c a = false;
  inv_unsanct_perm : forall a, In a (perm s) -> unsanct c a = false;
  inv_deps_nonneg : forall pr d, In pr (props s) -> In d (p_deps pr) -> 0 <= fst (snd d) /\ 0 <= snd (snd d);
  inv_same_msgs : forall pr pr', In pr (props s) -> In pr' (props s) -> p_id pr = p_id pr' ->
                                 p_msgs pr = p_msgs pr';
  inv_params_nonneg : (0 <= fst (smin s) /\ 0 <= snd (smin s)) /\ (0 <= fst (umin s) /\ 0 <= snd (umin s)) }.

Lemma Inv_core : forall c s s', core s' = core s -> Inv c s -> Inv c s'.
Proof.
  intros c s s' H [I1 I2 I3 I4 I5 I6 I7 I8]; unfold core in H; inversion H as [[Hp Ht Hr Hn Hs Hu]].
  constructor; rewrite ?Hp, ?Ht, ?Hr, ?Hn, ?Hs, ?Hu; assumption.
Qed.

(** Fewer entries, fewer proposals, fewer permanent sanctions: still fine. *)
Lemma Inv_shrink : forall c s s',
  Inv c s -> incl (temps s') (temps s) -> incl (props s') (props s) -> incl (perm s') (perm s) ->
  next_id s' = next_id s -> smin s' = smin s -> umin s' = umin s -> Inv c s'.
Proof.
  intros c s s' [I1 I2 I3 I4 I5 I6 I7 I8] Ht Hr Hp Hn Hs Hu; constructor.
  - intros a p b H; rewrite Hn; eapply I1; apply Ht; exact H.
  - intros pr H; rewrite Hn; apply I2; apply Hr; exact H.
  - intros a p b pr H1 H2 H3; eapply I3; [apply Ht; exact H1 | apply Hr; exact H2 | exact H3].
  - intros a p H; eapply I4; apply Ht; exact H.
  - intros a H; apply I5; apply Hp; exact H.
  - intros pr d H1 H2; eapply I6; [apply Hr; exact H1 | exact H2].
  - intros pr pr' H1 H2; apply I7; apply Hr; assumption.
  - rewrite Hs, Hu; exact I8.
Qed.

Lemma Inv_init : forall c sm um fid t0 b bb, nn2 sm -> nn2 um -> Inv c (init sm um fid t0 b bb).
Proof. intros c sm um fid t0 b bb Hs Hu; constructor; cbn; intros; try contradiction. split; assumption. Qed.

(** * Bank primitives *)
Lemma debit_spec : forall c s a amt s1, debit c s a amt = Some s1 ->
  core s1 = core s /\ is_sanctioned c s a = false /\ nn2 amt /\
  (forall x, x <> a -> bal s1 x = bal s x /\ balb s1 x = balb s x).
Proof.
  intros c s a amt s1 H; unfold debit in H.
  destruct (nonneg2 amt) eqn:E1; cbn [negb] in H; [|discriminate].
  destruct (le2 amt (bal s a, balb s a)) eqn:E2; cbn [negb] in H; [|discriminate].
  destruct (is_sanctioned c s a) eqn:E3; [discriminate|].
  inversion H; subst; clear H. apply nonneg2_nn2 in E1.
  splits; try assumption; try reflexivity.
  intros x Hx; cbn [bal balb set_bal]; unfold upd; apply N.eqb_neq in Hx; rewrite Hx; split; reflexivity.
Qed.

Lemma debit_keeps_sanctioned : forall c s a amt s1 x, debit c s a amt = Some s1 ->
  is_sanctioned c s x = true -> bal s1 x = bal s x /\ balb s1 x = balb s x.
Proof.
  intros c s a amt s1 x H Hx; destruct (debit_spec _ _ _ _ _ H) as [_ [Hns [_ Ho]]].
  apply Ho; intros ->; congruence.
Qed.

Lemma credit_core : forall s a v, core (credit s a v) = core s.
Proof. reflexivity. Qed.

Lemma credit_bal : forall s a v x, nn2 v -> bal_le s (credit s a v) x.
Proof.
  intros s a v x [Hv1 Hv2]; unfold bal_le; cbn [credit bal balb set_bal]; unfold upd.
  destruct (N.eqb x a) eqn:E; [apply N.eqb_eq in E; subst; lia | lia].
Qed.

Lemma refund_all_spec : forall deps s, (forall d, In d deps -> nn2 (snd d)) ->
  core (refund_all s deps) = core s /\ forall x, bal_le s (refund_all s deps) x.
Proof.
  induction deps as [|d r IH]; intros s Hnn.
  - split; [reflexivity | intros; cbn; apply bal_le_refl].
  - change (refund_all s (d :: r)) with (refund_all (credit s (fst d) (snd d)) r).
    destruct (IH (credit s (fst d) (snd d)) (fun d0 H0 => Hnn d0 (or_intror H0))) as [Hc Hb].
    split; [rewrite Hc; reflexivity|].
    intros x; specialize (Hb x). pose proof (credit_bal s (fst d) (snd d) x (Hnn d (or_introl eq_refl))).
    eapply bal_le_trans; eauto.
Qed.

Lemma debit_all_spec : forall c ins s s1, debit_all c s ins = Some s1 ->
  core s1 = core s /\ forall x, is_sanctioned c s x = true -> bal s1 x = bal s x /\ balb s1 x = balb s x.
Proof.
  intros c; induction ins as [|[a v] r IH]; intros s s1 H; cbn [debit_all] in H.
  - inversion H; subst; split; [reflexivity | split; reflexivity].
  - destruct (debit c s a (v, 0)) as [s2|] eqn:E; [|discriminate].
    destruct (IH _ _ H) as [Hc Hb]. destruct (debit_spec _ _ _ _ _ E) as [Hc2 _].
    split; [rewrite Hc; exact Hc2|].
    intros x Hx. destruct (debit_keeps_sanctioned _ _ _ _ _ x E Hx) as [K1 K2].
    destruct (Hb x) as [K3 K4]; [|split; congruence].
    unfold core in Hc2; inversion Hc2. rewrite (is_sanctioned_core c s s2 x); auto.
Qed.

(** * Hooks and message execution *)
Lemma hook_fold : forall c s pr ms acc l',
  fold_left (hook_msg c s pr) ms acc = Some l' ->
  exists l0, acc = Some l0 /\
    forall a p b, In (a, p, b) l' ->
      In (a, p, b) l0 \/ (p = p_id pr /\ In a (msg_addrs ms) /\ (b = true -> unsanct c a = false)).
Proof.
  intros c s pr; induction ms as [|m r IH]; intros acc l' H; cbn [fold_left] in H.
  - exists l'; split; [exact H | intros; left; assumption].
  - destruct (IH _ _ H) as [l1 [H1 Hin1]].
    destruct acc as [l0|]; [|cbn in H1; discriminate].
    exists l0; split; [reflexivity|]. intros a p b Hin.
    assert (Hstep : forall a p b, In (a, p, b) l1 ->
              In (a, p, b) l0 \/ (p = p_id pr /\ In a (msg_addrs [m]) /\ (b = true -> unsanct c a = false))).
    { clear -H1. cbn [hook_msg] in H1. intros a p b Hin. destruct m as [addrs|addrs|x y]; cbn [msg_addrs flat_map]; rewrite app_nil_r.
      - destruct (negb (zero2 (smin s)) && le2 (smin s) (total_deposit pr)).
        + destruct (add_temps_In _ _ _ _ _ _ H1 _ _ _ Hin) as [Ho|[E1 [E2 [E3 E4]]]]; [left; exact Ho|].
          right; split; [exact E1 | split; [exact E3 | intros _; apply E4; reflexivity]].
        + inversion H1; subst; left; exact Hin.
      - destruct (negb (zero2 (umin s)) && le2 (umin s) (total_deposit pr)).
        + destruct (add_temps_In _ _ _ _ _ _ H1 _ _ _ Hin) as [Ho|[E1 [E2 [E3 E4]]]]; [left; exact Ho|].
          right; split; [exact E1 | split; [exact E3 | intros Hb; congruence]].
        + inversion H1; subst; left; exact Hin.
      - inversion H1; subst; left; exact Hin. }
    destruct (Hin1 _ _ _ Hin) as [Hl1|[E1 [E2 E3]]].
    + destruct (Hstep _ _ _ Hl1) as [Ho|[F1 [F2 F3]]]; [left; exact Ho|].
      right; split; [exact F1 | split; [|exact F3]].
      unfold msg_addrs in *; cbn [flat_map] in *. rewrite app_nil_r in F2. apply in_or_app; left; exact F2.
    + right; split; [exact E1 | split; [|exact E3]].
      unfold msg_addrs in *; cbn [flat_map]. apply in_or_app; right; exact E2.
Qed.


Lemma add_temps_incl : forall c b pid addrs l l', add_temps c b pid addrs l = Some l' -> incl l l'.
Proof.
  intros c b pid addrs l l' Ha; unfold add_temps in Ha.
  destruct (b && existsb (unsanct c) addrs); [discriminate|].
  inversion Ha; subst; clear. revert l. induction addrs as [|x r IH]; intros l; cbn [fold_left]; [apply incl_refl|].
  eapply incl_tran; [|apply IH]. apply incl_tl, incl_refl.
Qed.

Lemma hook_fold_incl : forall c s pr ms l l',
  fold_left (hook_msg c s pr) ms (Some l) = Some l' -> incl l l'.
Proof.
  intros c s pr; induction ms as [|m r IH]; intros l l' E; cbn [fold_left] in E.
  - inversion E; subst; apply incl_refl.
  - destruct (hook_msg c s pr (Some l) m) as [l2|] eqn:Em.
    + eapply incl_tran; [|eapply IH; exact E].
      cbn [hook_msg] in Em. destruct m as [addrs|addrs|x y].
      * destruct (negb (zero2 (smin s)) && le2 (smin s) (total_deposit pr)); [eapply add_temps_incl; eauto | inversion Em; apply incl_refl].
      * destruct (negb (zero2 (umin s)) && le2 (umin s) (total_deposit pr)); [eapply add_temps_incl; eauto | inversion Em; apply incl_refl].
      * inversion Em; apply incl_refl.
    + exfalso. clear -E. induction r as [|m2 r2 IH2]; cbn [fold_left] in E; [discriminate|]. apply IH2; exact E.
Qed.

Lemma run_hook_spec : forall c s pr s', run_hook c s pr = Some s' ->
  perm s' = perm s /\ props s' = props s /\ next_id s' = next_id s /\ bal s' = bal s /\ balb s' = balb s /\
  smin s' = smin s /\ umin s' = umin s /\
  incl (temps s) (temps s') /\
  forall a p b, In (a, p, b) (temps s') ->
    In (a, p, b) (temps s) \/ (p = p_id pr /\ In a (msg_addrs (p_msgs pr)) /\ (b = true -> unsanct c a = false)).
Proof.
  intros c s pr s' H; unfold run_hook in H.
  destruct (fold_left (hook_msg c s pr) (p_msgs pr) (Some (temps s))) as [l|] eqn:E; [|discriminate].
  inversion H; subst; clear H. cbn [perm props next_id bal balb temps smin umin set_temps].
  destruct (hook_fold _ _ _ _ _ _ E) as [l0 [H0 Hin]]; inversion H0; subst.
  splits; try reflexivity.
  - eapply hook_fold_incl; exact E.
  - exact Hin.
Qed.

Lemma exec_msg_spec : forall c s m s', exec_msg c s m = Some s' ->
  props s' = props s /\ next_id s' = next_id s /\ bal s' = bal s /\ balb s' = balb s /\ now s' = now s /\
  (nn2 (smin s) /\ nn2 (umin s) -> nn2 (smin s') /\ nn2 (umin s')) /\
  incl (temps s') (temps s) /\
  (forall a, In a (perm s') -> In a (perm s) \/ unsanct c a = false) /\
  (forall a p b, In a (msg_addrs [m]) -> ~ In (a, p, b) (temps s')).
Proof.
  intros c s m s' H; destruct m as [addrs|addrs|x y]; cbn [exec_msg] in H.
  - unfold sanction_addrs in H. destruct (existsb (unsanct c) addrs) eqn:E; [discriminate|].
    inversion H; subst; clear H. cbn [props next_id bal balb now temps perm smin umin set_temps set_perm]. splits; try reflexivity.
    + tauto.
    + intros e He; eapply In_del_addr; exact He.
    + intros a Ha; apply in_app_or in Ha; destruct Ha as [Ha|Ha]; [right; eapply existsb_unsanct_false; eauto | left; exact Ha].
    + intros a p b Ha Hin; cbn [msg_addrs flat_map] in Ha; rewrite app_nil_r in Ha. apply In_del_addr_not in Hin; contradiction.
  - inversion H; subst; clear H. unfold unsanction_addrs. cbn [props next_id bal balb now temps perm smin umin set_temps set_perm]. splits; try reflexivity.
    + tauto.
    + intros e He; eapply In_del_addr; exact He.
    + intros a Ha; apply filter_In in Ha; left; tauto.
    + intros a p b Ha Hin; cbn [msg_addrs flat_map] in Ha; rewrite app_nil_r in Ha. apply In_del_addr_not in Hin; contradiction.
  - destruct (nonneg2 x && nonneg2 y) eqn:Exy; [|discriminate]. inversion H; subst; clear H.
    cbn [props next_id bal balb now temps perm smin umin set_params]. splits; try reflexivity.
    + intros _; apply andb_true_iff in Exy; destruct Exy as [Ex Ey]; apply nonneg2_nn2 in Ex, Ey; tauto.
    + apply incl_refl.
    + intros a Ha; left; exact Ha.
    + intros a p b Ha; contradiction.
Qed.

Lemma exec_msgs_spec : forall c ms s s', exec_msgs c s ms = Some s' ->
  props s' = props s /\ next_id s' = next_id s /\ bal s' = bal s /\ balb s' = balb s /\ now s' = now s /\
  (nn2 (smin s) /\ nn2 (umin s) -> nn2 (smin s') /\ nn2 (umin s')) /\
  incl (temps s') (temps s) /\
  (forall a, In a (perm s') -> In a (perm s) \/ unsanct c a = false) /\
  (forall a p b, In a (msg_addrs ms) -> ~ In (a, p, b) (temps s')).
Proof.
  intros c; induction ms as [|m r IH]; intros s s' H; cbn [exec_msgs] in H.
  - inversion H; subst. splits; try reflexivity.
    + tauto.
    + apply incl_refl.
    + intros a Ha; left; exact Ha.
    + intros a p b Ha; contradiction.
  - destruct (exec_msg c s m) as [s1|] eqn:E; [|discriminate].
    destruct (exec_msg_spec _ _ _ _ E) as [A1 [A2 [A3 [A3b [A4 [A8 [A5 [A6 A7]]]]]]]].
    destruct (IH _ _ H) as [B1 [B2 [B3 [B3b [B4 [B8 [B5 [B6 B7]]]]]]]].
    splits; try congruence.
    + tauto.
    + eapply incl_tran; eauto.
    + intros a Ha; destruct (B6 _ Ha) as [Hb|Hb]; [apply A6; exact Hb | right; exact Hb].
    + intros a p b Ha Hin. unfold msg_addrs in Ha; cbn [flat_map] in Ha; apply in_app_or in Ha; destruct Ha as [Ha|Ha].
      * apply (A7 a p b); [unfold msg_addrs; cbn [flat_map]; rewrite app_nil_r; exact Ha | apply B5; exact Hin].
      * apply (B7 a p b); assumption.
Qed.

Lemma Inv_exec : forall c s s', Inv c s ->
  props s' = props s -> next_id s' = next_id s -> incl (temps s') (temps s) ->
  (forall a, In a (perm s') -> In a (perm s) \/ unsanct c a = false) ->
  (nn2 (smin s) /\ nn2 (umin s) -> nn2 (smin s') /\ nn2 (umin s')) -> Inv c s'.
Proof.
  intros c s s' [I1 I2 I3 I4 I5 I6 I7 I8] Hr Hn Ht Hp Hsu; constructor; rewrite ?Hr, ?Hn.
  - intros a p b H; eapply I1; apply Ht; exact H.
  - exact I2.
  - intros a p b pr H1 H2 H3; eapply I3; [apply Ht; exact H1 | exact H2 | exact H3].
  - intros a p H; eapply I4; apply Ht; exact H.
  - intros a H; destruct (Hp _ H) as [H1|H1]; [apply I5; exact H1 | exact H1].
  - exact I6.
  - exact I7.
  - apply Hsu; exact I8.
Qed.

Lemma Inv_run_hook : forall c s pr s', Inv c s -> In pr (props s) -> run_hook c s pr = Some s' -> Inv c s'.
Proof.
  intros c s pr s' HI Hpr H. destruct (run_hook_spec _ _ _ _ H) as [Hp [Hr [Hn [_ [_ [Hs [Hu [_ Ht]]]]]]]].
  destruct HI as [I1 I2 I3 I4 I5 I6 I7 I8]; constructor; rewrite ?Hp, ?Hr, ?Hn, ?Hs, ?Hu; auto.
  - intros a p b Hin; destruct (Ht _ _ _ Hin) as [Ho|[E1 _]]; [eapply I1; exact Ho | subst; apply I2; exact Hpr].
  - intros a p b pr' Hin Hpr' Hid; destruct (Ht _ _ _ Hin) as [Ho|[E1 [E2 _]]]; [eapply I3; eauto|].
    rewrite E1 in Hid. rewrite (I7 pr' pr Hpr' Hpr Hid). exact E2.
  - intros a p Hin; destruct (Ht _ _ _ Hin) as [Ho|[_ [_ E3]]]; [eapply I4; exact Ho | apply E3; reflexivity].
Qed.

Lemma add_dep_nonneg : forall who amt l, nn2 amt -> (forall d, In d l -> nn2 (snd d)) ->
  forall d, In d (add_dep who amt l) -> nn2 (snd d).
Proof.
  intros who amt l Ha; induction l as [|[w v] r IH]; intros Hl d Hin; cbn [add_dep] in Hin.
  - destruct Hin as [Hin|[]]; subst; exact Ha.
  - destruct (N.eqb w who).
    + destruct Hin as [Hin|Hin]; [|apply Hl; right; exact Hin].
      subst; cbn [snd]. specialize (Hl (w, v) (or_introl eq_refl)); cbn [snd] in Hl.
      unfold nn2, add2 in *; cbn [fst snd]; lia.
    + destruct Hin as [Hin|Hin]; [apply Hl; left; exact Hin | apply IH; [intros d0 H0; apply Hl; right; exact H0 | exact Hin]].
Qed.

Lemma In_put_prop_self : forall pr l y, In y l -> p_id y = p_id pr -> In pr (put_prop pr l).
Proof.
  intros pr l y Hin Hid; unfold put_prop; apply in_map_iff; exists y; split; [|exact Hin].
  rewrite Hid, N.eqb_refl; reflexivity.
Qed.

Lemma is_live_props : forall s s' p, props s' = props s -> is_live s' p = is_live s p.
Proof. intros s s' p H; unfold is_live; rewrite H; reflexivity. Qed.

(** Replacing a live proposal by one with the same id, messages and non-negative deposits. *)
Lemma Inv_put_prop : forall c s s' pr pr2,
  Inv c s -> In pr (props s) -> p_id pr2 = p_id pr -> p_msgs pr2 = p_msgs pr ->
  (forall d, In d (p_deps pr2) -> nn2 (snd d)) ->
  perm s' = perm s -> temps s' = temps s -> next_id s' = next_id s ->
  smin s' = smin s -> umin s' = umin s ->
  props s' = put_prop pr2 (props s) -> Inv c s'.
Proof.
  intros c s s' pr pr2 [I1 I2 I3 I4 I5 I6 I7 I8] Hpr Hid Hms Hdeps Hp Ht Hn Hs Hu Hr.
  assert (Hcase : forall x, In x (props s') -> In x (props s) \/ x = pr2).
  { intros x Hx; rewrite Hr in Hx; apply In_put_prop in Hx; destruct Hx as [Hx|[Hx _]]; auto. }
  constructor; rewrite ?Hp, ?Ht, ?Hn, ?Hs, ?Hu; auto.
  - intros x Hx; destruct (Hcase _ Hx) as [Hx'|Hx']; [apply I2; exact Hx' | subst; rewrite Hid; apply I2; exact Hpr].
  - intros a p b x Hin Hx Hxp; destruct (Hcase _ Hx) as [Hx'|Hx']; [eapply I3; eauto|].
    subst x; rewrite Hms; eapply I3; eauto. congruence.
  - intros x d Hx Hd; destruct (Hcase _ Hx) as [Hx'|Hx']; [eapply I6; eauto | subst; apply Hdeps; exact Hd].
  - intros x y Hx Hy Hxy; destruct (Hcase _ Hx) as [Hx'|Hx']; destruct (Hcase _ Hy) as [Hy'|Hy']; subst.
    + apply I7; assumption.
    + rewrite Hms; apply I7; auto; congruence.
    + rewrite Hms; apply I7; auto; congruence.
    + reflexivity.
Qed.

(** * What one accepted operation does *)

(** [good c s s' cancelled]: the facts every theorem of C06 needs about one accepted step. *)
Definition good (c : config) (s s' : state) (cancelled : N -> Prop) : Prop :=
  Inv c s' /\
  (forall x, is_sanctioned c s x = true -> bal_le s s' x) /\
  (forall a p b, In (a, p, b) (temps s') -> In (a, p, b) (temps s) \/ is_live s' p = true) /\
  (forall p, is_live s p = true -> is_live s' p = false -> cancelled p \/ forall a b, ~ In (a, p, b) (temps s')).

Lemma good_core : forall c s s' K, Inv c s -> core s' = core s ->
  (forall x, is_sanctioned c s x = true -> bal_le s s' x) -> good c s s' K.
Proof.
  intros c s s' K HI Hc Hb. pose proof Hc as Hc'; unfold core in Hc'; inversion Hc' as [[Hp Ht Hr Hn Hs Hu]].
  unfold good; splits.
  - eapply Inv_core; eauto.
  - exact Hb.
  - intros a p b H; left; rewrite <- Ht; exact H.
  - intros p H1 H2; rewrite (is_live_props s s' p Hr) in H2; congruence.
Qed.

Lemma add_deposit_good : forall c s pid who amt vp s' K,
  Inv c s -> add_deposit c s pid who amt vp = Some s' ->
  good c s s' K /\ (forall q, is_live s' q = is_live s q).
Proof.
  intros c s pid who amt vp s' K HI H; unfold add_deposit in H.
  destruct (get_prop pid (props s)) as [pr|] eqn:Eg; [|discriminate].
  destruct (negb (denoms_ok c amt)); [discriminate|].
  destruct (debit c s who amt) as [s1|] eqn:Ed; [|discriminate].
  destruct (get_prop_In _ _ _ Eg) as [Hpr Hpid].
  destruct (debit_spec _ _ _ _ _ Ed) as [Hc1 [Hns [Hamt Hbo]]].
  unfold core in Hc1; inversion Hc1 as [[Hp1 Ht1 Hr1 Hn1 Hs1 Hu1]].
  remember (add_dep who amt (p_deps pr)) as deps.
  remember (match p_status pr with
            | PDeposit => if le2 (min_deposit c pr) (total_deposit (with_deposit pr deps (p_status pr) (p_vote_start pr) (p_vote_end pr)))
                          then with_deposit pr deps PVoting (now s) (now s + voting_period pr vp)
                          else with_deposit pr deps (p_status pr) (p_vote_start pr) (p_vote_end pr)
            | PVoting => with_deposit pr deps (p_status pr) (p_vote_start pr) (p_vote_end pr)
            end) as pr2.
  assert (Hpr2 : p_id pr2 = p_id pr /\ p_msgs pr2 = p_msgs pr /\ p_deps pr2 = deps).
  { subst pr2; destruct (p_status pr); [destruct (le2 (min_deposit c pr) _)|]; cbn; auto. }
  destruct Hpr2 as [Hid [Hms Hdp]]. clear Heqpr2.
  set (s2 := set_props s1 (put_prop pr2 (props s1))) in *.
  assert (HI2 : Inv c s2).
  { eapply (Inv_put_prop c s s2 pr pr2); eauto.
    - intros d Hd; rewrite Hdp in Hd; subst deps. eapply add_dep_nonneg; [exact Hamt | | exact Hd].
      intros d0 H0; eapply (inv_deps_nonneg c s HI); eauto.
    - subst s2; cbn [props set_props]; rewrite Hr1; reflexivity. }
  assert (Hin2 : In pr2 (props s2)).
  { subst s2; cbn [props set_props]; rewrite Hr1. eapply In_put_prop_self; [exact Hpr | congruence]. }
  pose proof (Inv_run_hook _ _ _ _ HI2 Hin2 H) as HI'.
  destruct (run_hook_spec _ _ _ _ H) as [Hp [Hr [Hn [Hb [Hbb [_ [_ [Hinc Ht]]]]]]]].
  assert (Hlive : forall q, is_live s' q = is_live s q).
  { intros q; unfold is_live; rewrite Hr; subst s2; cbn [props set_props]; rewrite Hr1. apply get_prop_put. }
  split; [|exact Hlive]. unfold good; splits.
  - exact HI'.
  - intros x Hx; destruct (debit_keeps_sanctioned _ _ _ _ _ x Ed Hx) as [K1 K2].
    unfold bal_le; rewrite Hb, Hbb; subst s2; cbn [bal balb set_props]. rewrite K1, K2; lia.
  - intros a p b Hin; destruct (Ht _ _ _ Hin) as [Ho|[E1 _]].
    + left; subst s2; cbn [temps set_props] in Ho; rewrite Ht1 in Ho; exact Ho.
    + right; rewrite Hlive; unfold is_live; subst p; rewrite Hid, Hpid, Eg; reflexivity.
  - intros p H1 H2; rewrite Hlive in H2; congruence.
Qed.

Lemma get_prop_app_some : forall q l x pr, get_prop q l = Some pr -> get_prop q (l ++ [x]) = Some pr.
Proof.
  intros q l x pr; induction l as [|y r IH]; cbn [get_prop app]; intros H; [discriminate|].
  destruct (N.eqb (p_id y) q); [exact H | apply IH; exact H].
Qed.

(** The submission hook sees an empty deposit: with non-negative minimums it adds nothing. *)
Lemma hook_no_deposit : forall c s pr ms l,
  total_deposit pr = (0, 0) -> nn2 (smin s) -> nn2 (umin s) ->
  fold_left (hook_msg c s pr) ms (Some l) = Some l.
Proof.
  intros c s pr ms l Ht Hs Hu; induction ms as [|m r IH]; cbn [fold_left]; [reflexivity|].
  assert (Hz : forall x, nn2 x -> negb (zero2 x) && le2 x (0, 0) = false).
  { intros [a b] [Ha Hb]; unfold zero2, le2; cbn [fst snd] in *.
    destruct (a =? 0) eqn:E1; destruct (b =? 0) eqn:E2; cbn [negb andb]; try reflexivity.
    - apply Z.eqb_neq in E2. destruct (b <=? 0) eqn:E3; [apply Z.leb_le in E3; lia | apply andb_false_r].
    - apply Z.eqb_neq in E1. destruct (a <=? 0) eqn:E3; [apply Z.leb_le in E3; lia | reflexivity].
    - apply Z.eqb_neq in E1. destruct (a <=? 0) eqn:E3; [apply Z.leb_le in E3; lia | reflexivity]. }
  assert (Hm : hook_msg c s pr (Some l) m = Some l).
  { cbn [hook_msg]; rewrite Ht; destruct m as [addrs|addrs|x y]; [| |reflexivity].
    - rewrite (Hz _ Hs); reflexivity.
    - rewrite (Hz _ Hu); reflexivity. }
  rewrite Hm; exact IH.
Qed.

Lemma submit_good : forall c s who ms dep dp vp ex s' K,
  Inv c s -> submit c s who ms dep dp vp ex = Some s' -> good c s s' K.
Proof.
  intros c s who ms dep dp vp ex s' K HI H; unfold submit in H.
  set (pid := next_id s) in *.
  set (pr := {| p_id := pid; p_proposer := who; p_msgs := ms; p_deps := []; p_status := PDeposit;
                p_dep_end := now s + dp; p_vote_start := 0; p_vote_end := 0; p_vote := None;
                p_expedited := ex |}) in *.
  set (s1 := set_next (set_props s (props s ++ [pr])) (N.succ pid)) in *.
  assert (Hh : run_hook c s1 pr = Some (set_temps s1 (temps s1))).
  { unfold run_hook. rewrite hook_no_deposit; [reflexivity | reflexivity | |];
      destruct (inv_params_nonneg c s HI); assumption. }
  rewrite Hh in H.
  set (s2 := set_temps s1 (temps s1)) in *.
  assert (HI2 : Inv c s2).
  { destruct HI as [I1 I2 I3 I4 I5 I6 I7 I8]; constructor; subst s2 s1;
      cbn [temps props next_id perm smin umin set_next set_props set_temps].
    - intros a p b Hin; specialize (I1 _ _ _ Hin); fold pid in I1; lia.
    - intros x Hx; apply in_app_or in Hx; destruct Hx as [Hx|[Hx|[]]]; [specialize (I2 _ Hx); fold pid in I2; lia | subst x; cbn; lia].
    - intros a p b x Hin Hx Hxp; apply in_app_or in Hx; destruct Hx as [Hx|[Hx|[]]]; [eapply I3; eauto|].
      subst x; cbn [p_id pr] in Hxp. specialize (I1 _ _ _ Hin); fold pid in I1; subst p; lia.
    - exact I4.
    - exact I5.
    - intros x d Hx Hd; apply in_app_or in Hx; destruct Hx as [Hx|[Hx|[]]]; [eapply I6; eauto | subst x; cbn in Hd; contradiction].
    - intros x y Hx Hy Hxy; apply in_app_or in Hx; apply in_app_or in Hy.
      destruct Hx as [Hx|[Hx|[]]]; destruct Hy as [Hy|[Hy|[]]]; subst.
      + apply I7; assumption.
      + specialize (I2 _ Hx); fold pid in I2; unfold pr in Hxy; cbn [p_id] in Hxy; lia.
      + specialize (I2 _ Hy); fold pid in I2; unfold pr in Hxy; cbn [p_id] in Hxy; lia.
      + reflexivity.
    - exact I8. }
  destruct (add_deposit_good _ _ _ _ _ _ _ K HI2 H) as [[HI' [Hbal [Htemps _]]] Hlive].
  assert (Hl1 : forall q, is_live s q = true -> is_live s' q = true).
  { intros q Hq; rewrite Hlive; unfold is_live in *; subst s2 s1; cbn [props set_next set_props set_temps].
    destruct (get_prop q (props s)) as [x|] eqn:E; [|discriminate]. rewrite (get_prop_app_some _ _ pr _ E); reflexivity. }
  unfold good; splits.
  - exact HI'.
  - intros x Hx. apply (Hbal x). rewrite (is_sanctioned_core c s s2 x); [exact Hx | reflexivity | reflexivity].
  - intros a p b Hin; destruct (Htemps _ _ _ Hin) as [Ho|Ho]; [left; exact Ho | right; exact Ho].
  - intros p H1 H2; rewrite (Hl1 _ H1) in H2; discriminate.
Qed.

Lemma vote_good : forall c s pid yes s' K, Inv c s -> vote s pid yes = Some s' -> good c s s' K.
Proof.
  intros c s pid yes s' K HI H; unfold vote in H.
  destruct (negb (ballot_ok yes)); [discriminate|].
  destruct (get_prop pid (props s)) as [pr|] eqn:Eg; [|discriminate].
  destruct (p_status pr); [discriminate|]. inversion H; subst; clear H.
  destruct (get_prop_In _ _ _ Eg) as [Hpr Hpid].
  assert (HI' : Inv c (set_props s (put_prop (with_vote pr (Some yes)) (props s)))).
  { eapply (Inv_put_prop c s _ pr (with_vote pr (Some yes))); eauto.
    intros d Hd; cbn in Hd; eapply (inv_deps_nonneg c s HI); eauto. }
  unfold good; splits.
  - exact HI'.
  - intros x _; unfold bal_le; cbn [bal balb set_props]; lia.
  - intros a p b Hin; left; exact Hin.
  - intros p H1 H2; unfold is_live in *; cbn [props set_props] in H2; rewrite get_prop_put in H2; congruence.
Qed.

Lemma half_le : forall v, 0 <= v -> 0 <= v - v / 2.
Proof. intros v Hv; assert (v / 2 <= v) by (apply Z.div_le_upper_bound; lia); lia. Qed.

Lemma cancel_good : forall c s who pid s', Inv c s -> cancel s who pid = Some s' ->
  good c s s' (fun p => p = pid).
Proof.
  intros c s who pid s' HI H; unfold cancel in H.
  destruct (get_prop pid (props s)) as [pr|] eqn:Eg; [|discriminate].
  destruct (negb (N.eqb (p_proposer pr) who)); [discriminate|].
  destruct (match p_status pr with PVoting => p_vote_end pr <? now s | PDeposit => false end); [discriminate|].
  inversion H; subst; clear H.
  destruct (get_prop_In _ _ _ Eg) as [Hpr Hpid].
  set (deps := map (fun d => (fst d, (fst (snd d) - fst (snd d) / 2, snd (snd d) - snd (snd d) / 2))) (p_deps pr)) in *.
  assert (Hnn : forall d, In d deps -> nn2 (snd d)).
  { intros d Hd; subst deps; apply in_map_iff in Hd; destruct Hd as [d0 [Hd0 Hin0]]; subst d; cbn [snd].
    destruct (inv_deps_nonneg c s HI _ _ Hpr Hin0) as [N1 N2].
    unfold nn2; cbn [fst snd]; split; apply half_le; assumption. }
  destruct (refund_all_spec deps s Hnn) as [Hc Hb].
  unfold core in Hc; inversion Hc as [[Hp Ht Hr Hn Hs Hu]].
  unfold good; splits.
  - eapply (Inv_shrink c s); eauto; cbn [temps props perm next_id smin umin set_props]; rewrite ?Ht, ?Hp, ?Hr; try apply incl_refl.
    intros x Hx; apply In_remove_prop in Hx; tauto.
  - intros x _; specialize (Hb x); unfold bal_le in *; cbn [bal balb set_props]; exact Hb.
  - intros a p b Hin; left; cbn [temps set_props] in Hin; rewrite Ht in Hin; exact Hin.
  - intros p H1 H2. destruct (N.eq_dec p pid) as [E|E]; [left; exact E|].
    unfold is_live in *; cbn [props set_props] in H2; rewrite Hr, (get_prop_remove_other pid p _ E) in H2; congruence.
Qed.

(** Resolution steps of the EndBlocker: only credits; a new entry only for a proposal that is
    still live afterwards (the conversion of an expedited proposal runs the hook again). *)
Definition good_res (c : config) (s s' : state) : Prop :=
  Inv c s' /\
  (forall x, bal_le s s' x) /\
  (forall a p b, In (a, p, b) (temps s') -> In (a, p, b) (temps s) \/ is_live s' p = true) /\
  (forall p, is_live s' p = true -> is_live s p = true) /\
  (forall p, is_live s p = true -> is_live s' p = false -> forall a b, ~ In (a, p, b) (temps s')).

Lemma good_res_refl : forall c s, Inv c s -> good_res c s s.
Proof.
  intros c s HI; unfold good_res; splits; auto; try (intros; apply bal_le_refl).
  intros p H1 H2; congruence.
Qed.

Lemma good_res_trans : forall c s s1 s2, good_res c s s1 -> good_res c s1 s2 -> good_res c s s2.
Proof.
  intros c s s1 s2 [A1 [A2 [A3 [A4 A5]]]] [B1 [B2 [B3 [B4 B5]]]]; unfold good_res; splits.
  - exact B1.
  - intros x; eapply bal_le_trans; eauto.
  - intros a p b Hin. destruct (B3 _ _ _ Hin) as [H1|H1]; [|right; exact H1].
    destruct (A3 _ _ _ H1) as [H0|H0]; [left; exact H0|].
    destruct (is_live s2 p) eqn:E; [right; reflexivity|].
    exfalso; eapply (B5 p H0 E); exact Hin.
  - intros p H; apply A4, B4; exact H.
  - intros p H1 H2 a b Hin. destruct (is_live s1 p) eqn:E.
    + eapply B5; eauto.
    + destruct (B3 _ _ _ Hin) as [H3|H3]; [|congruence]. eapply A5; eauto.
Qed.

Lemma good_res_fold : forall c (f : state -> N -> state),
  (forall s q, Inv c s -> good_res c s (f s q)) ->
  forall pids s, Inv c s -> good_res c s (fold_left f pids s).
Proof.
  intros c f Hf; induction pids as [|q r IH]; intros s HI; cbn [fold_left].
  - apply good_res_refl; exact HI.
  - pose proof (Hf s q HI) as H1. eapply good_res_trans; [exact H1|]. apply IH. destruct H1 as [H1 _]; exact H1.
Qed.

Lemma is_live_remove : forall s s' pid p, props s' = remove_prop pid (props s) ->
  is_live s p = true -> is_live s' p = false -> p = pid.
Proof.
  intros s s' pid p Hr H1 H2. destruct (N.eq_dec p pid) as [E|E]; [exact E|].
  unfold is_live in *; rewrite Hr, (get_prop_remove_other pid p _ E) in H2; congruence.
Qed.

Lemma is_live_remove_mono : forall s s' pid p, props s' = remove_prop pid (props s) ->
  is_live s' p = true -> is_live s p = true.
Proof.
  intros s s' pid p Hr H. unfold is_live in *; rewrite Hr in H.
  destruct (N.eq_dec p pid) as [E|E].
  - subst; rewrite get_prop_remove_same in H; discriminate.
  - rewrite (get_prop_remove_other pid p _ E) in H; exact H.
Qed.

(** Refund or burn: the sanction core is untouched and no balance goes down. *)
Lemma refund_or_not : forall (b : bool) deps s, (forall d, In d deps -> nn2 (snd d)) ->
  core (if b then s else refund_all s deps) = core s /\
  forall x, bal_le s (if b then s else refund_all s deps) x.
Proof.
  intros b deps s Hnn; destruct b.
  - split; [reflexivity | intros; apply bal_le_refl].
  - apply refund_all_spec; exact Hnn.
Qed.

Lemma expire_one_good : forall c s pid, Inv c s -> good_res c s (expire_one c s pid).
Proof.
  intros c s pid HI; unfold expire_one.
  destruct (get_prop pid (props s)) as [pr|] eqn:Eg; [|apply good_res_refl; exact HI].
  destruct (get_prop_In _ _ _ Eg) as [Hpr Hpid].
  set (s1 := set_props s (remove_prop pid (props s))).
  destruct (refund_or_not (c_burn_prevote c) (p_deps pr) s1 (fun d Hd => inv_deps_nonneg c s HI pr d Hpr Hd)) as [Hc Hb].
  set (s2 := if c_burn_prevote c then s1 else refund_all s1 (p_deps pr)) in *.
  unfold core in Hc; inversion Hc as [[Hp Ht Hr Hn Hs Hu]]. subst s1; cbn [perm temps props next_id smin umin bal set_props] in *.
  unfold good_res; splits.
  - eapply (Inv_shrink c s); eauto; cbn [temps props perm next_id smin umin set_temps]; rewrite ?Ht, ?Hp, ?Hr; try apply incl_refl.
    + intros e He; eapply In_del_prop; exact He.
    + intros x Hx; apply In_remove_prop in Hx; tauto.
  - intros x; specialize (Hb x); unfold bal_le in *; cbn [bal balb set_temps set_props] in *; exact Hb.
  - intros a p b Hin; left. cbn [temps set_temps] in Hin; rewrite Ht in Hin; eapply In_del_prop; exact Hin.
  - intros p H; eapply is_live_remove_mono; [|exact H]. cbn [props set_temps]; exact Hr.
  - intros p H1 H2 a b Hin.
    assert (p = pid) by (eapply is_live_remove; [|exact H1|exact H2]; cbn [props set_temps]; exact Hr).
    subst p. cbn [temps set_temps] in Hin. apply In_del_prop_not in Hin; congruence.
Qed.

Lemma tally_one_good : forall c vp s pid, Inv c s -> good_res c s (tally_one c vp s pid).
Proof.
  intros c vp s pid HI; unfold tally_one.
  destruct (get_prop pid (props s)) as [pr|] eqn:Eg; [|apply good_res_refl; exact HI].
  destruct (get_prop_In _ _ _ Eg) as [Hpr Hpid].
  destruct (tally c (p_expedited pr) (p_vote pr)) as [passes burn].
  destruct (p_expedited pr && negb passes).
  { (* conversion of an expedited proposal *)
    set (pr' := converted pr vp) in *.
    set (s1 := set_props s (put_prop pr' (props s))) in *.
    assert (HI1 : Inv c s1).
    { eapply (Inv_put_prop c s s1 pr pr'); eauto; try reflexivity.
      intros d Hd; cbn in Hd; eapply (inv_deps_nonneg c s HI); eauto. }
    assert (Hin1 : In pr' (props s1)).
    { subst s1; cbn [props set_props]. eapply In_put_prop_self; [exact Hpr | reflexivity]. }
    assert (Hlive1 : forall q, is_live s1 q = is_live s q).
    { intros q; unfold is_live; subst s1; cbn [props set_props]. apply get_prop_put. }
    destruct (run_hook c s1 pr') as [s'|] eqn:H.
    - pose proof (Inv_run_hook _ _ _ _ HI1 Hin1 H) as HI'.
      destruct (run_hook_spec _ _ _ _ H) as [Hp [Hr [Hn [Hb [Hbb [_ [_ [Hinc Ht]]]]]]]].
      assert (Hlive : forall q, is_live s' q = is_live s q).
      { intros q; rewrite <- Hlive1; unfold is_live; rewrite Hr; reflexivity. }
      unfold good_res; splits.
      + exact HI'.
      + intros x; unfold bal_le; rewrite Hb, Hbb; subst s1; cbn [bal balb set_props]; lia.
      + intros a p b Hin; destruct (Ht _ _ _ Hin) as [Ho|[E1 _]].
        * left; exact Ho.
        * right; rewrite Hlive; unfold is_live; subst p; cbn [p_id pr' converted]; rewrite Hpid, Eg; reflexivity.
      + intros p Hl; rewrite Hlive in Hl; exact Hl.
      + intros p H1 H2; rewrite Hlive in H2; congruence.
    - unfold good_res; splits.
      + exact HI1.
      + intros x; unfold bal_le; subst s1; cbn [bal balb set_props]; lia.
      + intros a p b Hin; left; exact Hin.
      + intros p Hl; rewrite Hlive1 in Hl; exact Hl.
      + intros p H1 H2; rewrite Hlive1 in H2; congruence. }
  destruct (refund_or_not burn (p_deps pr) s (fun d Hd => inv_deps_nonneg c s HI pr d Hpr Hd)) as [Hc Hb].
  set (s1 := if burn then s else refund_all s (p_deps pr)) in *.
  unfold core in Hc; inversion Hc as [[Hp Ht Hr Hn Hs Hu]].
  set (s2 := set_props s1 (remove_prop pid (props s1))) in *.
  assert (HI2 : Inv c s2).
  { eapply (Inv_shrink c s); eauto; subst s2; cbn [temps props perm next_id smin umin set_props]; rewrite ?Ht, ?Hp, ?Hr; try apply incl_refl.
    intros x Hx; apply In_remove_prop in Hx; tauto. }
  assert (Hr2 : props s2 = remove_prop pid (props s)) by (subst s2; cbn [props set_props]; rewrite Hr; reflexivity).
  assert (Hdel : good_res c s (set_temps s2 (del_prop_temps pid (temps s2)))).
  { unfold good_res; splits.
    - eapply (Inv_shrink c s2); eauto; cbn [temps props perm next_id smin umin set_temps]; try apply incl_refl.
      intros e He; eapply In_del_prop; exact He.
    - intros x; specialize (Hb x); unfold bal_le in *; subst s2; cbn [bal balb set_temps set_props] in *; exact Hb.
    - intros a p b Hin; left. cbn [temps set_temps] in Hin; subst s2; cbn [temps set_props] in Hin; rewrite Ht in Hin; eapply In_del_prop; exact Hin.
    - intros p Hl; eapply is_live_remove_mono; [|exact Hl]. cbn [props set_temps]; exact Hr2.
    - intros p H1 H2 a b Hin.
      assert (p = pid) by (eapply is_live_remove; [|exact H1|exact H2]; cbn [props set_temps]; exact Hr2).
      subst p. cbn [temps set_temps] in Hin. apply In_del_prop_not in Hin; congruence. }
  destruct passes; [|exact Hdel].
  destruct (exec_msgs c s2 (p_msgs pr)) as [s3|] eqn:Ex; [|exact Hdel].
  destruct (exec_msgs_spec _ _ _ _ Ex) as [B1 [B2 [B3 [B3b [B4 [B8 [B5 [B6 B7]]]]]]]].
  assert (Ht2 : temps s2 = temps s) by (subst s2; cbn [temps set_props]; exact Ht).
  unfold good_res; splits.
  - eapply (Inv_exec c s2); eauto.
  - intros x; specialize (Hb x); unfold bal_le in *; rewrite B3, B3b; subst s2; cbn [bal balb set_props] in *; exact Hb.
  - intros a p b Hin; left; rewrite <- Ht2; apply B5; exact Hin.
  - intros p Hl; eapply is_live_remove_mono; [|exact Hl]. rewrite B1; exact Hr2.
  - intros p H1 H2 a b Hin.
    assert (p = pid) by (eapply is_live_remove; [|exact H1|exact H2]; rewrite B1; exact Hr2).
    subst p. apply (B7 a pid b); [|exact Hin].
    eapply (inv_temp_addr c s HI a pid b pr); [rewrite <- Ht2; apply B5; exact Hin | exact Hpr | exact Hpid].
Qed.

Lemma end_block_good : forall c vp s, Inv c s -> good_res c s (end_block c vp s).
Proof.
  intros c vp s HI; unfold end_block.
  match goal with |- good_res c s (fold_left (tally_one c vp) _ ?s1) =>
    assert (G1 : good_res c s s1) by (apply (good_res_fold c (expire_one c) (expire_one_good c)); exact HI);
    eapply good_res_trans; [exact G1|]; apply good_res_fold; [apply tally_one_good | destruct G1 as [G1 _]; exact G1]
  end.
Qed.

Lemma good_of_res : forall c s s' s'' K, good_res c s s' -> core s'' = core s' -> bal s'' = bal s' -> balb s'' = balb s' -> good c s s'' K.
Proof.
  intros c s s' s'' K [A1 [A2 [A3 [A4 A5]]]] Hc Hb Hbb.
  pose proof Hc as Hc'; unfold core in Hc'; inversion Hc' as [[Hp Ht Hr Hn Hs Hu]].
  unfold good; splits.
  - eapply Inv_core; eauto.
  - intros x _; unfold bal_le; rewrite Hb, Hbb; apply A2.
  - intros a p b Hin; rewrite Ht in Hin. destruct (A3 _ _ _ Hin) as [H0|H0]; [left; exact H0|].
    right; rewrite (is_live_props s' s'' p Hr); exact H0.
  - intros p H1 H2; right; intros a b Hin. rewrite (is_live_props s' s'' p Hr) in H2.
    apply (A5 p H1 H2 a b). rewrite <- Ht; exact Hin.
Qed.

Lemma exec_msg_good : forall c s m s' K, Inv c s -> exec_msg c s m = Some s' -> good c s s' K.
Proof.
  intros c s m s' K HI H. destruct (exec_msg_spec _ _ _ _ H) as [B1 [B2 [B3 [B3b [B4 [B8 [B5 [B6 B7]]]]]]]].
  unfold good; splits.
  - eapply (Inv_exec c s); eauto.
  - intros x _; unfold bal_le; rewrite B3, B3b; lia.
  - intros a p b Hin; left; apply B5; exact Hin.
  - intros p H1 H2; rewrite (is_live_props s s' p B1) in H2; congruence.
Qed.

Lemma keep_then_le : forall s s1 s2 x,
  (bal s1 x = bal s x /\ balb s1 x = balb s x) -> bal_le s1 s2 x -> bal_le s s2 x.
Proof. unfold bal_le; intros s s1 s2 x [H1 H2] [H3 H4]; lia. Qed.

Lemma send_good : forall c s from to amt s' K, Inv c s -> send c s from to amt = Some s' -> good c s s' K.
Proof.
  intros c s from to amt s' K HI H; unfold send in H.
  destruct (amt <=? 0) eqn:Ea; [discriminate|]. apply Z.leb_gt in Ea.
  destruct (debit c s from (amt, 0)) as [s1|] eqn:Ed; [|discriminate]. inversion H; subst; clear H.
  destruct (debit_spec _ _ _ _ _ Ed) as [Hc _].
  apply good_core; [exact HI | rewrite credit_core; exact Hc|].
  intros x Hx. eapply keep_then_le; [eapply debit_keeps_sanctioned; eauto|].
  apply credit_bal; unfold nn2; cbn [fst snd]; lia.
Qed.

Lemma all_pos_nonneg : forall l, all_pos l = true -> forall d, In d l -> 0 <= snd d.
Proof.
  intros l H d Hd; unfold all_pos in H; rewrite forallb_forall in H; specialize (H _ Hd); apply Z.ltb_lt in H; lia.
Qed.

Lemma multi_send_good : forall c s from outs s' K, Inv c s -> multi_send c s from outs = Some s' -> good c s s' K.
Proof.
  intros c s from outs s' K HI H; unfold multi_send in H.
  destruct outs as [|o r]; [discriminate|]. remember (o :: r) as outs.
  destruct (all_pos outs) eqn:Ep; cbn [negb] in H; [|discriminate].
  destruct (debit c s from (sum_amts outs, 0)) as [s1|] eqn:Ed; [|discriminate]. inversion H; subst s'; clear H.
  destruct (debit_spec _ _ _ _ _ Ed) as [Hc _].
  assert (Hnn : forall d, In d (map (fun o => (fst o, (snd o, 0))) outs) -> nn2 (snd d)).
  { intros d Hd; apply in_map_iff in Hd; destruct Hd as [d0 [E Hin]]; subst d; unfold nn2; cbn [fst snd].
    pose proof (all_pos_nonneg _ Ep _ Hin); lia. }
  destruct (refund_all_spec _ s1 Hnn) as [Hc2 Hb2].
  apply good_core; [exact HI | rewrite Hc2; exact Hc|].
  intros x Hx. eapply keep_then_le; [eapply debit_keeps_sanctioned; eauto | apply Hb2].
Qed.

Lemma sum_amts_nonneg : forall l, (forall d, In d l -> 0 <= snd d) -> 0 <= sum_amts l.
Proof.
  intros l H; unfold sum_amts.
  assert (G : forall (l : list (N * Z)) acc, (forall d, In d l -> 0 <= snd d) -> 0 <= acc -> 0 <= fold_left (fun a x => a + snd x) l acc).
  { clear; induction l as [|d r IH]; intros acc H Ha; cbn [fold_left]; [exact Ha|].
    apply IH; [intros d0 H0; apply H; right; exact H0 | specialize (H d (or_introl eq_refl)); lia]. }
  apply G; [exact H | lia].
Qed.

Lemma many_to_one_good : forall c s ins to s' K, Inv c s -> many_to_one c s ins to = Some s' -> good c s s' K.
Proof.
  intros c s ins to s' K HI H; unfold many_to_one in H.
  destruct ins as [|o r]; [discriminate|]. remember (o :: r) as ins.
  destruct (all_pos ins) eqn:Ep; cbn [negb] in H; [|discriminate].
  destruct (debit_all c s ins) as [s1|] eqn:Ed; [|discriminate]. inversion H; subst s'; clear H.
  destruct (debit_all_spec _ _ _ _ Ed) as [Hc Hb].
  apply good_core; [exact HI | rewrite credit_core; exact Hc|].
  intros x Hx. eapply keep_then_le; [exact (Hb x Hx)|].
  apply credit_bal. unfold nn2; cbn [fst snd]. pose proof (sum_amts_nonneg ins (all_pos_nonneg _ Ep)). lia.
Qed.

Lemma to_module_good : forall c s from amt s' K, Inv c s -> to_module c s from amt = Some s' -> good c s s' K.
Proof.
  intros c s from amt s' K HI H; unfold to_module in H.
  destruct (amt <=? 0); [discriminate|].
  destruct (debit_spec _ _ _ _ _ H) as [Hc _].
  apply good_core; [exact HI | exact Hc|].
  intros x Hx. destruct (debit_keeps_sanctioned _ _ _ _ _ x H Hx) as [K1 K2]. unfold bal_le; lia.
Qed.

Definition cancel_of (o : op) (p : N) : Prop := exists who, o = OCancel who p.

Lemma step_good : forall c s o s', Inv c s -> step_opt c s o = Some s' -> good c s s' (cancel_of o).
Proof.
  intros c s o s' HI H; destruct o; cbn [step_opt] in H.
  - destruct (negb (nonneg2 dep)); [discriminate|]. eapply submit_good; eauto.
  - destruct (negb (nonneg2 amt) || zero2 amt); [discriminate|]. eapply add_deposit_good; eauto.
  - eapply vote_good; eauto.
  - destruct (cancel_good _ _ _ _ _ HI H) as [A1 [A2 [A3 A4]]]. unfold good; splits; auto.
    intros p H1 H2; destruct (A4 p H1 H2) as [E|E]; [left; exists who; subst; reflexivity | right; exact E].
  - inversion H; subst; clear H. eapply good_of_res; [apply end_block_good; exact HI | reflexivity | reflexivity | reflexivity].
  - destruct authority_ok; [|discriminate]. eapply exec_msg_good; eauto.
  - eapply send_good; eauto.
  - eapply multi_send_good; eauto.
  - eapply many_to_one_good; eauto.
  - eapply to_module_good; eauto.
  - eapply to_module_good; eauto.
  - destruct (amt <? 0) eqn:Ea; [discriminate|]. apply Z.ltb_ge in Ea. inversion H; subst; clear H.
    apply good_core; [exact HI | reflexivity|]. intros x _; apply credit_bal; unfold nn2; cbn [fst snd]; lia.
Qed.

(** * Histories *)
Lemma run_app : forall c s0 ops o, run c s0 (ops ++ [o]) = fst (step c (run c s0 ops) o).
Proof. intros; unfold run; rewrite fold_left_app; reflexivity. Qed.

Lemma step_cases : forall c s o,
  (exists s', step_opt c s o = Some s' /\ step c s o = (s', true)) \/
  (step_opt c s o = None /\ step c s o = (s, false)).
Proof. intros c s o; unfold step; destruct (step_opt c s o) as [s'|]; [left; exists s'; auto | right; auto]. Qed.

Lemma Inv_step : forall c s o, Inv c s -> Inv c (fst (step c s o)).
Proof.
  intros c s o HI; destruct (step_cases c s o) as [[s' [H1 H2]]|[H1 H2]]; rewrite H2; cbn [fst]; [|exact HI].
  destruct (step_good _ _ _ _ HI H1) as [G _]; exact G.
Qed.

Lemma Inv_run : forall c s0 ops, Inv c s0 -> Inv c (run c s0 ops).
Proof.
  intros c s0 ops; revert s0; induction ops as [|o r IH]; intros s0 HI; cbn; [exact HI|].
  apply IH, Inv_step; exact HI.
Qed.

(** * The statements of property C06 *)

Lemma status_characterisation : forall c s a, Inv c s ->
  is_sanctioned c s a = true <->
  (exists p, temp_entry s a p = Some true /\ forall q b, temp_entry s a q = Some b -> (q <= p)%N) \/
  ((forall q, temp_entry s a q = None) /\ In a (perm s)).
Proof.
  intros c s a HI; unfold is_sanctioned, temp_entry; split.
  - destruct (unsanct c a); [discriminate|].
    destruct (latest_temp a (temps s)) as [[p b]|] eqn:E.
    + destruct b; [|discriminate]. intros _; left; exists p. apply latest_temp_some; exact E.
    + intros H; right; split; [apply latest_temp_none; exact E | apply memN_In; exact H].
  - intros [[p [Hl Hmax]]|[Hnone Hperm]].
    + rewrite (inv_unsanct_temp c s HI a p (lookup_In _ _ _ _ Hl)).
      rewrite (latest_temp_of_max _ _ _ _ Hl Hmax); reflexivity.
    + rewrite (inv_unsanct_perm c s HI a Hperm).
      destruct (latest_temp a (temps s)) as [[p b]|] eqn:E.
      * destruct (latest_temp_some _ _ _ _ E) as [Hl _]; rewrite Hnone in Hl; discriminate.
      * apply memN_In; exact Hperm.
Qed.

Lemma unsanctionable_never : forall c s a, Inv c s -> In a (c_unsanct c) ->
  is_sanctioned c s a = false /\ ~ In a (perm s) /\ forall p, temp_entry s a p <> Some true.
Proof.
  intros c s a HI Ha. assert (Hu : unsanct c a = true) by (apply memN_In; exact Ha). splits.
  - unfold is_sanctioned; rewrite Hu; reflexivity.
  - intros Hp; rewrite (inv_unsanct_perm c s HI a Hp) in Hu; discriminate.
  - intros p Hl; apply lookup_In in Hl. rewrite (inv_unsanct_temp c s HI a p Hl) in Hu; discriminate.
Qed.

Lemma no_outflow : forall c s o a, Inv c s -> is_sanctioned c s a = true ->
  bal s a <= bal (fst (step c s o)) a /\ balb s a <= balb (fst (step c s o)) a.
Proof.
  intros c s o a HI Ha; destruct (step_cases c s o) as [[s' [H1 H2]]|[H1 H2]]; rewrite H2; cbn [fst]; [|lia].
  destruct (step_good _ _ _ _ HI H1) as [_ [G _]]; apply G; exact Ha.
Qed.

Lemma inflow_allowed : forall c s from to amt,
  0 < amt <= bal s from -> 0 <= balb s from -> is_sanctioned c s from = false -> from <> to ->
  exists s', step c s (OSend from to amt) = (s', true) /\ bal s' to = bal s to + amt.
Proof.
  intros c s from to amt [Ha Hb] Hbb Hs Hne.
  unfold step; cbn [step_opt]; unfold send, debit, nonneg2, le2; cbn [fst snd].
  destruct (amt <=? 0) eqn:E1; [apply Z.leb_le in E1; lia|].
  destruct (0 <=? amt) eqn:E2; [|apply Z.leb_gt in E2; lia].
  destruct (amt <=? bal s from) eqn:E3; [|apply Z.leb_gt in E3; lia].
  destruct (0 <=? balb s from) eqn:E4; [|apply Z.leb_gt in E4; lia].
  cbn [Z.leb andb negb]. rewrite Hs. eexists; split; [reflexivity|].
  cbn [credit bal set_bal fst snd]; unfold upd. rewrite N.eqb_refl.
  assert (N.eqb to from = false) by (apply N.eqb_neq; congruence). rewrite H; reflexivity.
Qed.

Lemma cleared_on_resolution : forall c s o p, Inv c s ->
  is_live s p = true -> is_live (fst (step c s o)) p = false -> (forall who, o <> OCancel who p) ->
  forall a, temp_entry (fst (step c s o)) a p = None.
Proof.
  intros c s o p HI H1 H2 Hnc a.
  destruct (step_cases c s o) as [[s' [E1 E2]]|[E1 E2]]; rewrite E2 in *; cbn [fst] in *; [|congruence].
  destruct (step_good _ _ _ _ HI E1) as [_ [_ [_ G]]].
  destruct (G p H1 H2) as [[who Ho]|Hno]; [exfalso; eapply Hnc; eauto|].
  unfold temp_entry; destruct (temp_lookup a p (temps s')) as [b|] eqn:E; [|reflexivity].
  exfalso; eapply Hno; eapply lookup_In; exact E.
Qed.

Lemma temps_origin : forall c s0 ops, Inv c s0 -> temps s0 = [] -> forall a p b,
  In (a, p, b) (temps (run c s0 ops)) ->
  is_live (run c s0 ops) p = true \/
  exists pre who post, ops = pre ++ OCancel who p :: post /\
                       snd (step c (run c s0 pre) (OCancel who p)) = true.
Proof.
  intros c s0 ops HI0 Ht0. induction ops as [|o ops IH] using rev_ind; intros a p b Hin.
  - cbn in Hin; rewrite Ht0 in Hin; contradiction.
  - rewrite run_app in Hin |- *.
    pose proof (Inv_run c s0 ops HI0) as HI.
    destruct (step_cases c (run c s0 ops) o) as [[s' [H1 H2]]|[H1 H2]]; rewrite H2 in Hin |- *; cbn [fst] in Hin |- *.
    + destruct (step_good _ _ _ _ HI H1) as [G1 [G2 [G3 G4]]].
      destruct (is_live s' p) eqn:El; [left; reflexivity|]. right.
      destruct (G3 _ _ _ Hin) as [Hold|Hl]; [|congruence].
      destruct (IH _ _ _ Hold) as [Hlive|[pre [who [post [E1 E2]]]]].
      * destruct (G4 p Hlive El) as [[who Ho]|Hno]; [|exfalso; eapply Hno; eauto].
        subst o. exists ops, who, []. split; [reflexivity|]. rewrite H2; reflexivity.
      * exists pre, who, (post ++ [o]). split; [rewrite E1, <- app_assoc; reflexivity | exact E2].
    + destruct (IH _ _ _ Hin) as [Hl|[pre [who [post [E1 E2]]]]]; [left; exact Hl|].
      right; exists pre, who, (post ++ [o]). split; [rewrite E1, <- app_assoc; reflexivity | exact E2].
Qed.

Lemma only_governance : forall c s m, step c s (ODirect false m) = (s, false).
Proof. reflexivity. Qed.
