(** Lemmas about the world model Exchange/PermWorld.v (property C11): a new market has exactly the
    grants it was created with, granting and revoking take effect at once, the dry-run queries are
    read-only, permissions are per market. *)
From Coq Require Import List String Bool NArith Lia.
From PV Require Import Exchange.Perms Exchange.GovGuards Exchange.GuardPaths Exchange.PermWorld
  Gen.GenExchangePerms Gen.GenHandlerPaths Proofs.PermsProofs Proofs.GuardPathsProofs.
Import ListNotations.
Open Scope string_scope.

(* ------------------------------------------------------------------ grant_perms / revoke_market / set_access_grants *)

Lemma grant_perms_In : forall ps st m a g,
  In g (grant_perms st m a ps) <-> In g st \/ exists p, In p ps /\ g = (m, a, p).
Proof.
  induction ps as [| p ps IH]; intros st m a g; unfold grant_perms; cbn [fold_left].
  - split; [intro H; left; exact H | intros [H | [p [[] _]]]; exact H].
  - fold (grant_perms (if store_has st m a p then st else (m, a, p) :: st) m a ps).
    rewrite IH. split.
    + intros [H | [q [Hq Hg]]].
      * destruct (store_has st m a p) eqn:E; [left; exact H |].
        destruct H as [H | H]; [right; exists p; split; [left; reflexivity | symmetry; exact H] | left; exact H].
      * right. exists q. split; [right; exact Hq | exact Hg].
    + intros [H | [q [[Hq | Hq] Hg]]].
      * left. destruct (store_has st m a p); [exact H | right; exact H].
      * subst q g. left. destruct (store_has st m a p) eqn:E; [apply store_has_In; exact E | left; reflexivity].
      * right. exists q. split; [exact Hq | exact Hg].
Qed.

Lemma revoke_market_In : forall st m g,
  In g (revoke_market st m) <-> In g st /\ grant_in_market m g = false.
Proof.
  intros st m g. unfold revoke_market. rewrite filter_In. rewrite negb_true_iff. tauto.
Qed.

Lemma fold_grants_In : forall ags st m g,
  In g (fold_left (fun s ag => grant_perms s m (fst ag) (snd ag)) ags st) <->
  In g st \/ exists ag p, In ag ags /\ In p (snd ag) /\ g = (m, fst ag, p).
Proof.
  induction ags as [| ag ags IH]; intros st m g; cbn [fold_left].
  - split; [intro H; left; exact H | intros [H | [ag [p [[] _]]]]; exact H].
  - rewrite IH. rewrite grant_perms_In. split.
    + intros [[H | [p [Hp Hg]]] | [ag' [p [Hin [Hp Hg]]]]].
      * left; exact H.
      * right. exists ag, p. split; [left; reflexivity | split; assumption].
      * right. exists ag', p. split; [right; exact Hin | split; assumption].
    + intros [H | [ag' [p [[Hin | Hin] [Hp Hg]]]]].
      * left; left; exact H.
      * subst ag'. left; right. exists p. split; assumption.
      * right. exists ag', p. split; [exact Hin | split; assumption].
Qed.

Lemma set_access_grants_In : forall st m ags m' a p,
  In (m', a, p) (set_access_grants st m ags) <->
  (m' <> m /\ In (m', a, p) st) \/ (m' = m /\ exists ps, In (a, ps) ags /\ In p ps).
Proof.
  intros st m ags m' a p. unfold set_access_grants. rewrite fold_grants_In. rewrite revoke_market_In.
  cbn [grant_in_market]. split.
  - intros [[Hin Hm] | [ag [q [Hin [Hq Hg]]]]].
    + left. apply N.eqb_neq in Hm. split; assumption.
    + inversion Hg; subst. right. split; [reflexivity |]. exists (snd ag). split; [| exact Hq].
      destruct ag; exact Hin.
  - intros [[Hne Hin] | [Heq [ps [Hin Hp]]]].
    + left. split; [exact Hin | apply N.eqb_neq; exact Hne].
    + subst m'. right. exists (a, ps), p. split; [exact Hin | split; [exact Hp | reflexivity]].
Qed.

(* ------------------------------------------------------------------ GovCreateMarket *)

Lemma gov_create_requirement : endpoint_requirement "GovCreateMarket" = RAuthority.
Proof. vm_compute. reflexivity. Qed.

Lemma gov_create_allowed : forall auth st m c,
  endpoint_allowed "GovCreateMarket" auth st m c = is_authority auth c.
Proof. intros. unfold endpoint_allowed. rewrite gov_create_requirement. reflexivity. Qed.

Lemma lists_grant_spec : forall c a p,
  lists_grant c a p = true <-> exists ps, In (a, ps) (c_grants c) /\ In p ps.
Proof.
  intros c a p. unfold lists_grant. rewrite existsb_exists. split.
  - intros [[a' ps] [Hin H]]. cbn in H. apply andb_true_iff in H as [Ha Hp].
    apply N.eqb_eq in Ha. subst a'. apply existsb_exists in Hp as [q [Hq He]].
    apply perm_eqb_eq in He. subst q. exists ps. split; assumption.
  - intros [ps [Hin Hp]]. exists (a, ps). split; [exact Hin |]. cbn. rewrite N.eqb_refl. cbn.
    apply existsb_exists. exists p. split; [exact Hp | apply perm_eqb_eq; reflexivity].
Qed.

Lemma create_step_success : forall auth w caller c w',
  wstep auth w (WCreate caller c) = (w', true) ->
  caller = auth /\ market_exists w (c_market c) = false /\
  w_markets w' = c_market c :: w_markets w /\
  (forall a p, In (c_market c, a, p) (w_grants w') <-> exists ps, In (a, ps) (c_grants c) /\ In p ps) /\
  (forall m a p, m <> c_market c -> (In (m, a, p) (w_grants w') <-> In (m, a, p) (w_grants w))).
Proof.
  intros auth w caller c w' H. cbn [wstep] in H. rewrite gov_create_allowed in H.
  unfold is_authority in H. destruct (N.eqb caller auth) eqn:Ea; [| inversion H].
  apply N.eqb_eq in Ea. unfold create_market in H.
  destruct (market_exists w (c_market c)) eqn:Em; [inversion H |].
  inversion H; subst w'; clear H. cbn [w_grants w_markets].
  split; [exact Ea |]. split; [reflexivity |]. split; [reflexivity |]. split.
  - intros a p. rewrite set_access_grants_In. split.
    + intros [[Hne _] | [_ Hex]]; [exfalso; apply Hne; reflexivity | exact Hex].
    + intro Hex. right. split; [reflexivity | exact Hex].
  - intros m a p Hne. rewrite set_access_grants_In. split.
    + intros [[_ Hin] | [Heq _]]; [exact Hin | contradiction].
    + intro Hin. left. split; assumption.
Qed.

(** An account the creation request does not list for permission p is rejected by every endpoint
    documented to need p, on the new market, right after its creation — whatever was written for
    that market id before. *)
Lemma new_market_rejects_unlisted : forall auth w caller c w',
  wstep auth w (WCreate caller c) = (w', true) ->
  forall row, In row gen_endpoints -> forall p, documented_requirement (ep_name row) = RPerm p ->
  forall a, a <> auth -> lists_grant c a p = false ->
    endpoint_allowed (ep_name row) auth (w_grants w') (c_market c) a = false.
Proof.
  intros auth w caller c w' H row Hrow p Hdoc a Hna Hl.
  destruct (create_step_success _ _ _ _ _ H) as [_ [_ [_ [Hexact _]]]].
  destruct (endpoint_allowed (ep_name row) auth (w_grants w') (c_market c) a) eqn:E; [| reflexivity].
  pose proof (endpoint_needs_its_permission row Hrow auth (w_grants w') (c_market c) a E) as Hn.
  rewrite Hdoc in Hn. destruct Hn as [Hn | Hn]; [contradiction |].
  apply Hexact in Hn. apply lists_grant_spec in Hn. rewrite Hn in Hl. discriminate Hl.
Qed.

(* ------------------------------------------------------------------ rejected steps change nothing *)

Lemma wstep_rejected_unchanged : forall auth w op w', wstep auth w op = (w', false) -> w' = w.
Proof.
  intros auth w op w' H. destruct op as [admin r | caller c | ep m caller | name a c]; cbn [wstep] in H.
  - destruct (manage_permissions auth (w_grants w) admin r) as [st' ok] eqn:M.
    inversion H; subst. apply manage_permissions_rejected_unchanged in M. subst st'.
    destruct w; reflexivity.
  - destruct (endpoint_allowed _ _ _ _ _); [| inversion H; reflexivity].
    unfold create_market in H. destruct (market_exists w (c_market c)); inversion H; reflexivity.
  - inversion H; reflexivity.
  - destruct (is_authority auth a).
    + unfold create_market in H. destruct (market_exists w (c_market c)).
      * destruct (query_branches name); inversion H; reflexivity.
      * destruct (query_branches name); inversion H.
    + destruct (query_branches name); inversion H; reflexivity.
Qed.

(* ------------------------------------------------------------------ queries *)

Lemma query_step_read_only : forall r, In r gen_query_handlers -> qh_module r = "exchange" ->
  forall auth w a c, fst (wstep auth w (WQuery (qh_endpoint r) a c)) = w.
Proof.
  intros r Hin Hm auth w a c. cbn [wstep].
  rewrite (exchange_query_branches r Hin Hm).
  destruct (if is_authority auth a then create_market w c else (w, false)) as [w' ok]. reflexivity.
Qed.

Definition known_query (name : string) : Prop :=
  exists r, In r gen_query_handlers /\ qh_module r = "exchange" /\ qh_endpoint r = name.

Lemma queries_do_not_matter : forall auth ops w,
  (forall name a c, In (WQuery name a c) ops -> known_query name) ->
  wrun auth w ops = wrun auth w (filter (fun op => negb (is_query op)) ops).
Proof.
  intros auth ops. unfold wrun. induction ops as [| op ops IH]; intros w Hq; [reflexivity |].
  cbn [fold_left filter].
  assert (Hq' : forall name a c, In (WQuery name a c) ops -> known_query name).
  { intros name a c Hin. apply (Hq name a c). right. exact Hin. }
  destruct op as [admin r | caller c | ep m caller | name a c]; cbn [is_query negb fold_left].
  - apply IH. exact Hq'.
  - apply IH. exact Hq'.
  - apply IH. exact Hq'.
  - destruct (Hq name a c (or_introl eq_refl)) as [r [Hin [Hm Hn]]]. subst name.
    rewrite (query_step_read_only r Hin Hm). apply IH. exact Hq'.
Qed.

(* ------------------------------------------------------------------ permissions are per market *)

Lemma per_market : forall row, In row gen_endpoints ->
  forall p, documented_requirement (ep_name row) = RPerm p ->
  forall auth st market caller,
    caller <> auth -> ~ In (market, caller, p) st ->
    endpoint_allowed (ep_name row) auth st market caller = false.
Proof.
  intros row Hrow p Hdoc auth st market caller Hna Hnin.
  destruct (endpoint_allowed (ep_name row) auth st market caller) eqn:E; [| reflexivity].
  pose proof (endpoint_needs_its_permission row Hrow auth st market caller E) as H.
  rewrite Hdoc in H. destruct H; contradiction.
Qed.

(* ------------------------------------------------------------------ granting and revoking take effect at once *)

Lemma step_revoke_all_failed : forall m acc a, snd (step_revoke_all m acc a) = false -> snd acc = false.
Proof.
  intros m [st failed] a H. unfold step_revoke_all in H. cbn [snd] in *.
  destruct failed; [discriminate H | reflexivity].
Qed.
Lemma step_to_revoke_failed : forall m acc ag, snd (step_to_revoke m acc ag) = false -> snd acc = false.
Proof.
  intros m [st failed] [a ps] H. unfold step_to_revoke in H. cbn [snd] in *.
  destruct failed; [discriminate H | reflexivity].
Qed.
Lemma step_to_grant_failed : forall m acc ag, snd (step_to_grant m acc ag) = false -> snd acc = false.
Proof.
  intros m [st failed] [a ps] H. unfold step_to_grant in H. cbn [snd] in *.
  destruct failed; [discriminate H | reflexivity].
Qed.

Lemma fold_failed : forall {A} (f : store * bool -> A -> store * bool),
  (forall acc x, snd (f acc x) = false -> snd acc = false) ->
  forall l acc, snd (fold_left f l acc) = false -> snd acc = false.
Proof.
  intros A f Hf. induction l as [| x l IH]; intros acc H; cbn [fold_left] in H; [exact H |].
  apply (Hf acc x). apply IH. exact H.
Qed.

Lemma step_revoke_all_subset : forall m acc a g, In g (fst (step_revoke_all m acc a)) -> In g (fst acc).
Proof.
  intros m [st failed] a g H. unfold step_revoke_all in H. cbn [fst] in *.
  destruct (failed || _); cbn [fst] in H; [exact H |].
  unfold revoke_user in H. apply filter_In in H as [H _]. exact H.
Qed.
Lemma step_to_revoke_subset : forall m acc ag g, In g (fst (step_to_revoke m acc ag)) -> In g (fst acc).
Proof.
  intros m [st failed] [a ps] g H. unfold step_to_revoke in H. cbn [fst] in *.
  destruct (failed || _); cbn [fst] in H; [exact H |].
  unfold revoke_perms in H. apply filter_In in H as [H _]. exact H.
Qed.

Lemma fold_subset : forall {A} (f : store * bool -> A -> store * bool),
  (forall acc x g, In g (fst (f acc x)) -> In g (fst acc)) ->
  forall l acc g, In g (fst (fold_left f l acc)) -> In g (fst acc).
Proof.
  intros A f Hf. induction l as [| x l IH]; intros acc g H; cbn [fold_left] in H; [exact H |].
  apply (Hf acc x). apply IH. exact H.
Qed.

Lemma fold_revoke_all_removes : forall m l acc a p,
  snd (fold_left (step_revoke_all m) l acc) = false -> In a l ->
  ~ In (m, a, p) (fst (fold_left (step_revoke_all m) l acc)).
Proof.
  intros m. induction l as [| x l IH]; intros acc a p Hf Hin; [destruct Hin |].
  cbn [fold_left] in *. destruct Hin as [Hx | Hin]; [| apply IH; assumption].
  subst x. intro Hc.
  apply (fold_subset (step_revoke_all m) (step_revoke_all_subset m)) in Hc.
  pose proof (fold_failed (step_revoke_all m) (step_revoke_all_failed m) l _ Hf) as Hs.
  destruct acc as [st failed]. unfold step_revoke_all in Hc, Hs. cbn [fst snd] in *.
  rewrite Hs in Hc. cbn [fst] in Hc. unfold revoke_user in Hc. apply filter_In in Hc as [_ Hc].
  unfold grant_of_user in Hc. rewrite !N.eqb_refl in Hc. discriminate Hc.
Qed.

Lemma fold_to_revoke_removes : forall m l acc a ps p,
  snd (fold_left (step_to_revoke m) l acc) = false -> In (a, ps) l -> In p ps ->
  ~ In (m, a, p) (fst (fold_left (step_to_revoke m) l acc)).
Proof.
  intros m. induction l as [| x l IH]; intros acc a ps p Hf Hin Hp; [destruct Hin |].
  cbn [fold_left] in *. destruct Hin as [Hx | Hin]; [| apply (IH _ a ps p); assumption].
  subst x. intro Hc.
  apply (fold_subset (step_to_revoke m) (step_to_revoke_subset m)) in Hc.
  pose proof (fold_failed (step_to_revoke m) (step_to_revoke_failed m) l _ Hf) as Hs.
  destruct acc as [st failed]. unfold step_to_revoke in Hc, Hs. cbn [fst snd] in *.
  rewrite Hs in Hc. cbn [fst] in Hc. unfold revoke_perms in Hc. apply filter_In in Hc as [_ Hc].
  apply negb_true_iff in Hc.
  assert (Ht : existsb (fun p0 => grant_eqb (m, a, p0) (m, a, p)) ps = true).
  { apply existsb_exists. exists p. split; [exact Hp | apply grant_eqb_eq; reflexivity]. }
  rewrite Ht in Hc. discriminate Hc.
Qed.

Lemma step_to_grant_superset : forall m acc ag g, In g (fst acc) -> In g (fst (step_to_grant m acc ag)).
Proof.
  intros m [st failed] [a ps] g H. unfold step_to_grant. cbn [fst] in *.
  destruct (failed || _); cbn [fst]; [exact H |]. apply grant_perms_In. left. exact H.
Qed.

Lemma fold_to_grant_superset : forall m l acc g, In g (fst acc) -> In g (fst (fold_left (step_to_grant m) l acc)).
Proof.
  intros m. induction l as [| x l IH]; intros acc g H; cbn [fold_left]; [exact H |].
  apply IH. apply step_to_grant_superset. exact H.
Qed.

Lemma fold_to_grant_adds : forall m l acc a ps p,
  snd (fold_left (step_to_grant m) l acc) = false -> In (a, ps) l -> In p ps ->
  In (m, a, p) (fst (fold_left (step_to_grant m) l acc)).
Proof.
  intros m. induction l as [| x l IH]; intros acc a ps p Hf Hin Hp; [destruct Hin |].
  cbn [fold_left] in *. destruct Hin as [Hx | Hin]; [| apply (IH _ a ps p); assumption].
  subst x. apply fold_to_grant_superset.
  pose proof (fold_failed (step_to_grant m) (step_to_grant_failed m) l _ Hf) as Hs.
  destruct acc as [st failed]. unfold step_to_grant in *. cbn [fst snd] in *.
  rewrite Hs. cbn [fst]. apply grant_perms_In. right. exists p. split; [exact Hp | reflexivity].
Qed.

Lemma ungranted_unnamed : forall r a p,
  grants r a p = false -> unnamed_in_grants (u_market r) (u_to_grant r) (u_market r, a, p).
Proof.
  intros r a p H ag Hin. unfold grants in H.
  destruct (existsb _ (snd ag)) eqn:E; [| reflexivity]. exfalso.
  apply existsb_exists in E as [q [Hq Heq]]. apply grant_eqb_eq in Heq. inversion Heq as [[Ea Ep]].
  pose proof (existsb_false_forall _ _ H ag Hin) as Hf. cbn beta in Hf.
  rewrite <- Ea in Hf. rewrite N.eqb_refl in Hf. cbn [andb] in Hf.
  pose proof (existsb_false_forall _ _ Hf q Hq) as Hp.
  assert (Ht : perm_eqb p q = true) by (apply perm_eqb_eq; symmetry; exact Ep).
  rewrite Ht in Hp. discriminate Hp.
Qed.

Lemma revokes_spec : forall r a p, revokes r a p = true ->
  In a (u_revoke_all r) \/ exists ps, In (a, ps) (u_to_revoke r) /\ In p ps.
Proof.
  intros r a p H. unfold revokes in H. apply orb_true_iff in H as [H | H].
  - left. apply existsb_exists in H as [x [Hin He]]. apply N.eqb_eq in He. subst x. exact Hin.
  - right. apply existsb_exists in H as [[a' ps] [Hin He]]. cbn in He.
    apply andb_true_iff in He as [Ha Hp]. apply N.eqb_eq in Ha. subst a'.
    apply existsb_exists in Hp as [q [Hq Hpq]]. apply perm_eqb_eq in Hpq. subst q.
    exists ps. split; assumption.
Qed.

Lemma grants_spec : forall r a p, grants r a p = true -> exists ps, In (a, ps) (u_to_grant r) /\ In p ps.
Proof.
  intros r a p H. unfold grants in H. apply existsb_exists in H as [[a' ps] [Hin He]]. cbn in He.
  apply andb_true_iff in He as [Ha Hp]. apply N.eqb_eq in Ha. subst a'.
  apply existsb_exists in Hp as [q [Hq Hpq]]. apply perm_eqb_eq in Hpq. subst q.
  exists ps. split; assumption.
Qed.

Lemma update_raw_success_effects : forall st r st',
  update_permissions_raw st r = (st', false) ->
  (forall a p, revokes r a p = true -> grants r a p = false -> ~ In (u_market r, a, p) st') /\
  (forall a p, grants r a p = true -> In (u_market r, a, p) st').
Proof.
  intros st r st' H. unfold update_permissions_raw in H.
  set (m := u_market r) in *.
  set (acc1 := fold_left (step_revoke_all m) (u_revoke_all r) (st, false)) in *.
  set (acc2 := fold_left (step_to_revoke m) (u_to_revoke r) acc1) in *.
  assert (H3 : snd (fold_left (step_to_grant m) (u_to_grant r) acc2) = false) by (rewrite H; reflexivity).
  assert (H2 : snd acc2 = false) by (exact (fold_failed _ (step_to_grant_failed m) _ _ H3)).
  assert (H1 : snd acc1 = false) by (exact (fold_failed _ (step_to_revoke_failed m) _ _ H2)).
  assert (Hst : st' = fst (fold_left (step_to_grant m) (u_to_grant r) acc2)) by (rewrite H; reflexivity).
  split.
  - intros a p Hr Hg. rewrite Hst.
    rewrite (fold_to_grant_frame m (u_to_grant r) acc2 (m, a, p) (ungranted_unnamed r a p Hg)).
    apply revokes_spec in Hr as [Hin | [ps [Hin Hp]]].
    + intro Hc. apply (fold_subset (step_to_revoke m) (step_to_revoke_subset m)) in Hc.
      exact (fold_revoke_all_removes m _ _ a p H1 Hin Hc).
    + exact (fold_to_revoke_removes m _ _ a ps p H2 Hin Hp).
  - intros a p Hg. rewrite Hst. apply grants_spec in Hg as [ps [Hin Hp]].
    exact (fold_to_grant_adds m _ _ a ps p H3 Hin Hp).
Qed.

Lemma manage_success_effects : forall auth st admin r st',
  manage_permissions auth st admin r = (st', true) ->
  (admin = auth \/ In (u_market r, admin, PPermissions) st) /\
  (forall a p, revokes r a p = true -> grants r a p = false -> ~ In (u_market r, a, p) st') /\
  (forall a p, grants r a p = true -> In (u_market r, a, p) st').
Proof.
  intros auth st admin r st' H. unfold manage_permissions in H.
  destruct (endpoint_allowed "MarketManagePermissions" auth st (u_market r) admin) eqn:E; [| inversion H].
  split.
  - assert (Hrow : exists row, In row gen_endpoints /\ ep_name row = "MarketManagePermissions").
    { destruct (lookup_endpoint "MarketManagePermissions") as [row |] eqn:L; [| vm_compute in L; discriminate L].
      unfold lookup_endpoint in L. apply find_some in L as [Hin Hn]. apply String.eqb_eq in Hn.
      exists row. split; assumption. }
    destruct Hrow as [row [Hin Hn]].
    pose proof (endpoint_needs_its_permission row Hin auth st (u_market r) admin) as Hp.
    rewrite Hn in Hp. specialize (Hp E).
    assert (Hd : documented_requirement "MarketManagePermissions" = RPerm PPermissions) by (vm_compute; reflexivity).
    rewrite Hd in Hp. exact Hp.
  - unfold update_permissions in H. destruct (update_permissions_raw st r) as [s f] eqn:U.
    destruct f; inversion H; subst s. exact (update_raw_success_effects st r st' U).
Qed.

(** Revoking takes effect at once: after an accepted request, an account that is not the authority is
    rejected by every endpoint documented to need a permission the request revoked (and did not grant
    again), on that market. *)
Lemma revocation_immediate : forall auth st admin r st',
  manage_permissions auth st admin r = (st', true) ->
  forall a p, revokes r a p = true -> grants r a p = false -> a <> auth ->
  forall row, In row gen_endpoints -> documented_requirement (ep_name row) = RPerm p ->
    endpoint_allowed (ep_name row) auth st' (u_market r) a = false.
Proof.
  intros auth st admin r st' H a p Hr Hg Hna row Hrow Hdoc.
  destruct (manage_success_effects _ _ _ _ _ H) as [_ [Hrev _]].
  exact (per_market row Hrow p Hdoc auth st' (u_market r) a Hna (Hrev a p Hr Hg)).
Qed.
