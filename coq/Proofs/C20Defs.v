(** Shared Prop-level definitions for the second group of C20 proofs (configuration changes,
    coin validity, quotes).  No lemmas with content here. *)
From Coq Require Import ZArith List Bool String Ascii Sorted.
From PV Require Import Exchange.Arith Exchange.ReqAttr Exchange.FeeCheck Exchange.AdmitSpec Proofs.C20Proofs.
Import ListNotations.
Open Scope Z_scope.

(** sdk.Coins order *)
Definition denom_lt (a b : coin) : Prop := String.ltb (denom_of a) (denom_of b) = true.

(** A stored required attribute: a fixed point of NormalizeName that passes IsValidReqAttr. *)
Definition norm_ok (e : bytes) : Prop := normalize_name e = e /\ is_valid_req_attr e = true.
Definition reqs_ok (l : list bytes) : Prop := Forall norm_ok l /\ NoDup l.
Definition stored_reqs_ok (s : stored) : Prop :=
  reqs_ok (s_req_ask s) /\ reqs_ok (s_req_bid s) /\ reqs_ok (s_req_com s).

(** What the keyed store guarantees in addition to [market_wf]: one ratio per (price denom, fee
    denom), positive flat options (Market.Validate at creation, MsgGovManageFees.ValidateBasic
    for every addition). *)
Definition ratio_key (r : ratio) : string * string := (r_pd r, r_fd r).
Definition ratio_keys_nodup (rs : list ratio) : Prop := NoDup (map ratio_key rs).
Definition flats_pos (l : list coin) : Prop := Forall (fun c => 0 < amt_of c) l.
Definition market_ok (m : market) : Prop :=
  market_wf m /\
  ratio_keys_nodup (m_seller_ratios m) /\ ratio_keys_nodup (m_buyer_ratios m) /\
  flats_pos (m_create_ask m) /\ flats_pos (m_create_bid m) /\ flats_pos (m_create_com m) /\
  flats_pos (m_seller_flat m) /\ flats_pos (m_buyer_flat m).

(** [pick l o]: [o] is one of the quoted options, or nothing when nothing is quoted. *)
Definition pick (l : list coin) (o : option coin) : Prop :=
  (l = [] /\ o = None) \/ (exists c, In c l /\ o = Some c).

(** Every attribute of a list as written (any case / blanks) is carried by the account. *)
Definition carries (raw : list string) (accs : list bytes) : Prop :=
  forall r, In r raw -> exists acc, In acc accs /\ levels_match (normalize_name (bytes_of r)) acc = true.

(** A flat requirement is met (the reading of [C20_flat_fee_iff]). *)
Definition flat_met (opts : list coin) (fee : option coin) : Prop :=
  opts = [] \/ exists d a f, fee = Some (d, a) /\ get_flat opts d = Some f /\ f <= a.

(** The market can price a fill in this denom: no seller ratios at all, or one for the denom. *)
Definition seller_ratio_known (rs : list ratio) (d : string) : Prop :=
  rs = [] \/ exists r, get_ratio rs d d = Some r.
