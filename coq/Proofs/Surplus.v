(** C01: who gets the price improvement of a settlement.

    [allocate_price] (Exchange/Fulfill.v) first gives every ask its own price ([first_pass]) and
    then, when the bids pay more than the asks ask for, hands the surplus to the asks
    ([leftover_loop]).  This file proves that what each ask receives on top of its price is the
    closed form [surplus] of Exchange/SurplusSpec.v:
      [allocate_price_surplus]  at the level of the price allocation,
      [build_surplus]           for the filled orders reported by an accepted BuildSettlement,
    and some facts about the closed form itself ([greedy_bounds], [surplus_sum],
    [surplus_entry]). *)
From Coq Require Import ZArith List Bool Lia ZifyBool PArith Permutation.
From PV Require Import Exchange.Arith Exchange.Split Exchange.Fulfill Exchange.SettleSpec
  Exchange.SurplusSpec Proofs.ArithProofs Proofs.SplitProofs Proofs.FulfillProofs
  Proofs.FulfillSteps Proofs.FulfillShape Proofs.FulfillSums.
Import ListNotations.
Open Scope Z_scope.
Ltac Zify.zify_post_hook ::= Z.div_mod_to_equations.

Notation idz := (fun z : Z => z).

(** ** Lists of integers: [zip_add], [greedy] *)
Lemma zip_add_length x : forall y, length x = length y -> length (zip_add x y) = length x.
Proof.
  induction x as [|a x IH]; intros [|b y] H; cbn in *; try reflexivity; try discriminate.
  rewrite IH; [reflexivity|lia].
Qed.

Lemma zip_add_app x1 : forall y1 x2 y2, length x1 = length y1 ->
  zip_add (x1 ++ x2) (y1 ++ y2) = zip_add x1 y1 ++ zip_add x2 y2.
Proof.
  induction x1 as [|a x IH]; intros [|b y] x2 y2 H; cbn in *; try reflexivity; try discriminate.
  rewrite IH; [reflexivity|lia].
Qed.

Lemma zip_add_assoc x : forall y z, zip_add (zip_add x y) z = zip_add x (zip_add y z).
Proof.
  induction x as [|a x IH]; intros [|b y] [|c z]; cbn; try reflexivity.
  rewrite IH. f_equal. lia.
Qed.

Lemma zip_add_zero x : forall y, length x = length y -> Forall (fun e => e = 0) y -> zip_add x y = x.
Proof.
  induction x as [|a x IH]; intros [|b y] H Hz; cbn in *; try reflexivity; try discriminate.
  pose proof (Forall_inv Hz) as Hb. cbn beta in Hb. subst b.
  rewrite IH; [f_equal; lia|lia|exact (Forall_inv_tail Hz)].
Qed.

Lemma zip_add_zeros x : forall y, Forall (fun e => e = 0) x -> Forall (fun e => e = 0) y ->
  Forall (fun e => e = 0) (zip_add x y).
Proof.
  induction x as [|a x IH]; intros [|b y] Hx Hy; cbn; try constructor.
  - pose proof (Forall_inv Hx). pose proof (Forall_inv Hy). cbn beta in *. lia.
  - apply IH; [exact (Forall_inv_tail Hx)|exact (Forall_inv_tail Hy)].
Qed.

Lemma sumz_zip_add x : forall y, length x = length y ->
  sumz idz (zip_add x y) = sumz idz x + sumz idz y.
Proof.
  induction x as [|a x IH]; intros [|b y] H; cbn [zip_add length] in *; try reflexivity; try discriminate.
  rewrite !sumz_cons, IH; [lia|lia].
Qed.

Lemma sumz_nonneg {A} (g : A -> Z) l : Forall (fun x => 0 <= g x) l -> 0 <= sumz g l.
Proof. induction 1 as [|x l Hx _ IH]; [cbn; lia|]. rewrite sumz_cons. lia. Qed.

Lemma sumz_zero_all {A} (g : A -> Z) l :
  Forall (fun x => 0 <= g x) l -> sumz g l <= 0 -> Forall (fun x => g x = 0) l.
Proof.
  induction 1 as [|x l Hx Hl IH]; intros Hs; [constructor|]. rewrite sumz_cons in Hs.
  pose proof (sumz_nonneg g l Hl). constructor; [lia|apply IH; lia].
Qed.

Lemma greedy_length caps : forall r, length (greedy caps r) = length caps.
Proof. induction caps as [|c cs IH]; intros r; cbn; [reflexivity|]. rewrite IH. reflexivity. Qed.

Lemma greedy_zero caps : Forall (fun c => 0 <= c) caps -> Forall (fun e => e = 0) (greedy caps 0).
Proof.
  induction 1 as [|c cs Hc _ IH]; cbn [greedy]; [constructor|].
  cbn zeta. replace (Z.min c 0) with 0 by lia. constructor; [reflexivity|exact IH].
Qed.

Lemma Forall2_weaken {A B} (P Q : A -> B -> Prop) l l' :
  (forall a b, P a b -> Q a b) -> Forall2 P l l' -> Forall2 Q l l'.
Proof. intros H. induction 1; constructor; auto. Qed.

Lemma Forall2_map_r {A B C} (P : A -> C -> Prop) (f : B -> C) l : forall l',
  Forall2 P l (map f l') -> Forall2 (fun a b => P a (f b)) l l'.
Proof.
  induction l as [|a l IH]; intros [|b l'] H; cbn [map] in H; inversion H; subst; constructor; auto.
Qed.

(** (3) Every entry of [greedy caps r] is between 0 and its cap and at most [r]; together the
    entries hand out all of [r], or all the caps when these add up to less. *)
Lemma greedy_bounds caps : forall r, 0 <= r -> Forall (fun c => 0 <= c) caps ->
  Forall2 (fun e c => 0 <= e <= c /\ e <= r) (greedy caps r) caps /\
  sumz idz (greedy caps r) = Z.min r (sumz idz caps).
Proof.
  induction caps as [|c cs IH]; intros r Hr Hc; cbn [greedy].
  - split; [constructor|]. cbn. lia.
  - cbn zeta. pose proof (Forall_inv Hc) as Hc0. cbn beta in Hc0.
    pose proof (Forall_inv_tail Hc) as Hcs.
    destruct (IH (r - Z.min c r) ltac:(lia) Hcs) as [I1 I2].
    pose proof (sumz_nonneg idz cs Hcs) as Hnn.
    split.
    + constructor; [lia|]. eapply Forall2_weaken; [|exact I1]. cbn beta. intros; lia.
    + rewrite !sumz_cons, I2. lia.
Qed.

(** ** The floor shares lose less than one unit per ask *)
Lemma floor_share_nonneg L TA af : 0 <= L -> 0 < TA -> 0 <= af -> 0 <= floor_share L TA af.
Proof. intros. unfold floor_share. apply Z.quot_pos; nia. Qed.

Lemma floor_loss L TA afs : 0 <= L -> 0 < TA -> Forall (fun a => 0 <= a) afs ->
  0 <= L * sumz idz afs - TA * sumz (floor_share L TA) afs <= Z.of_nat (length afs) * (TA - 1).
Proof.
  intros HL HT H. induction H as [|a l Ha _ IH]; [cbn; lia|].
  rewrite !sumz_cons. cbn [length]. rewrite Nat2Z.inj_succ. unfold floor_share at 1 3.
  pose proof (Z.quot_rem' (L * a) TA) as Hqr.
  pose proof (Z.rem_bound_pos (L * a) TA ltac:(nia) HT) as Hrb.
  lia.
Qed.

Lemma rest_bounds L TA afs : 0 <= L -> 0 < TA -> Forall (fun a => 0 <= a) afs -> sumz idz afs = TA ->
  0 <= L - sumz (floor_share L TA) afs <= Z.of_nat (length afs) /\
  (afs <> [] -> L - sumz (floor_share L TA) afs < Z.of_nat (length afs)).
Proof.
  intros HL HT H Hs. pose proof (floor_loss L TA afs HL HT H) as Hf. rewrite Hs in Hf.
  split; [nia|]. intros Hne. assert (0 < Z.of_nat (length afs)) by (destruct afs; [contradiction|cbn [length]; lia]).
  nia.
Qed.

Lemma sum_caps_ge l : Forall (fun c => 1 <= c) l -> Z.of_nat (length l) <= sumz idz l.
Proof. induction 1 as [|c l Hc _ IH]; [cbn; lia|]. rewrite sumz_cons. cbn [length]. lia. Qed.

(** ** The closed form [surplus] *)
Lemma surplus_length L afs : length (surplus L afs) = length afs.
Proof.
  unfold surplus. rewrite zip_add_length; [apply map_length|].
  rewrite greedy_length, !map_length. reflexivity.
Qed.

(** Nothing to hand out: nobody gets anything. *)
Lemma surplus_zero afs : Forall (fun e => e = 0) (surplus 0 afs).
Proof.
  unfold surplus. set (TA := sumz idz afs).
  assert (Hq : Forall (fun e => e = 0) (map (floor_share 0 TA) afs)).
  { rewrite Forall_map. apply Forall_forall. intros a _. reflexivity. }
  assert (Hs : sumz idz (map (floor_share 0 TA) afs) = 0).
  { apply sumz_zero. intros x Hx. rewrite Forall_forall in Hq. apply (Hq x Hx). }
  rewrite Hs. apply zip_add_zeros; [exact Hq|]. apply greedy_zero.
  rewrite Forall_map. apply Forall_forall. cbn beta. intros; lia.
Qed.

(** (3) What is left after the floor shares: fewer units than there are asks. *)
Lemma surplus_rest L afs : 0 <= L -> Forall (fun a => 0 < a) afs -> afs <> [] ->
  let TA := sumz idz afs in
  0 <= L - sumz idz (map (floor_share L TA) afs) < Z.of_nat (length afs).
Proof.
  intros HL Hpos Hne TA.
  assert (Hnn : Forall (fun a => 0 <= a) afs) by (eapply Forall_impl; [|exact Hpos]; cbn beta; intros; lia).
  assert (HT : 0 < TA).
  { unfold TA. destruct afs as [|a l]; [contradiction|]. rewrite sumz_cons.
    pose proof (Forall_inv Hpos). pose proof (sumz_nonneg idz l (Forall_inv_tail Hnn)). cbn beta in *. lia. }
  assert (E : sumz idz (map (floor_share L TA) afs) = sumz (floor_share L TA) afs) by exact (sumz_map (floor_share L TA) idz afs).
  rewrite E. destruct (rest_bounds L TA afs HL HT Hnn eq_refl) as [H1 H2]. specialize (H2 Hne). lia.
Qed.

(** (3) All of the surplus is handed out. *)
Lemma surplus_sum L afs : 0 <= L -> Forall (fun a => 0 < a) afs -> afs <> [] ->
  sumz idz (surplus L afs) = L.
Proof.
  intros HL Hpos Hne. pose proof (surplus_rest L afs HL Hpos Hne) as HR. cbn zeta in HR.
  unfold surplus. set (TA := sumz idz afs) in *. set (qs := map (floor_share L TA) afs) in *.
  set (R := L - sumz idz qs) in *.
  assert (Hcaps : Forall (fun c => 1 <= c) (map (fun q => Z.max q 1) qs)).
  { rewrite Forall_map. apply Forall_forall. cbn beta. intros; lia. }
  assert (Hcaps0 : Forall (fun c => 0 <= c) (map (fun q => Z.max q 1) qs)).
  { eapply Forall_impl; [|exact Hcaps]. cbn beta. intros; lia. }
  destruct (greedy_bounds _ R ltac:(lia) Hcaps0) as [_ Hsum].
  rewrite sumz_zip_add by (rewrite greedy_length, map_length; reflexivity).
  rewrite Hsum.
  assert (Hlen : Z.of_nat (length afs) <= sumz idz (map (fun q => Z.max q 1) qs)).
  { replace (length afs) with (length (map (fun q => Z.max q 1) qs)) by (unfold qs; rewrite !map_length; reflexivity).
    clear - Hcaps. induction Hcaps as [|c l Hc _ IH]; [cbn; lia|].
    rewrite sumz_cons. cbn [length]. lia. }
  unfold R in *. lia.
Qed.

(** (3) Entry by entry: the floor share plus at most max (floor share, 1), and at most what the
    floor shares left over. *)
Lemma surplus_entry L afs : 0 <= L -> Forall (fun a => 0 < a) afs -> afs <> [] ->
  let TA := sumz idz afs in
  let R := L - sumz idz (map (floor_share L TA) afs) in
  0 <= R < Z.of_nat (length afs) /\
  exists es, surplus L afs = zip_add (map (floor_share L TA) afs) es /\
    sumz idz es = R /\
    Forall2 (fun e af => 0 <= e <= Z.max (floor_share L TA af) 1 /\ e <= R) es afs.
Proof.
  intros HL Hpos Hne TA R. pose proof (surplus_rest L afs HL Hpos Hne) as HR. cbn zeta in HR.
  fold TA in HR. fold R in HR. split; [exact HR|].
  exists (greedy (map (fun q => Z.max q 1) (map (floor_share L TA) afs)) R).
  split; [reflexivity|].
  assert (Hcaps0 : Forall (fun c => 0 <= c) (map (fun q => Z.max q 1) (map (floor_share L TA) afs))).
  { rewrite Forall_map. apply Forall_forall. cbn beta. intros; lia. }
  destruct (greedy_bounds _ R ltac:(lia) Hcaps0) as [Hb Hsum]. split.
  - rewrite Hsum.
    assert (Hlen : Z.of_nat (length afs) <= sumz idz (map (fun q => Z.max q 1) (map (floor_share L TA) afs))).
    { replace (length afs) with (length (map (fun q => Z.max q 1) (map (floor_share L TA) afs)))
        by (rewrite !map_length; reflexivity).
      apply sum_caps_ge. rewrite Forall_map. apply Forall_forall. cbn beta. intros; lia. }
    lia.
  - apply Forall2_map_r, Forall2_map_r in Hb. exact Hb.
Qed.

Example surplus_example_1 : surplus 20 [10; 15] = [8; 12].
Proof. vm_compute. reflexivity. Qed.
Example surplus_example_2 : surplus 5 [1; 1; 1] = [2; 2; 1].
Proof. vm_compute. reflexivity. Qed.
(** Order of the request matters for the units the floor shares leave over: floor shares of 7
    over assets 5,5,1,1 are 2,2,0,0; the 3 units left go to whoever is listed first. *)
Example surplus_example_3 :
  surplus 7 [5; 5; 1; 1] = [4; 3; 0; 0] /\ surplus 7 [1; 5; 5; 1] = [1; 4; 2; 0] /\
  surplus 7 [1; 1; 5; 5] = [1; 1; 3; 2].
Proof. vm_compute. repeat split. Qed.

(** ** The first pass pays every ask exactly its own price *)
Lemma fp_inner_papp fuel : forall a bdone brest tot a' bd' br' tot',
  fp_inner fuel a bdone brest tot = Ok (a', bd', br', tot') ->
  pos_bids brest -> 0 <= f_pleft a ->
  f_pleft a' = 0 /\ f_papplied a' = f_papplied a + f_pleft a /\ tot' = tot + f_pleft a.
Proof.
  induction fuel as [|fuel IH]; intros a bdone brest tot a' bd' br' tot' H Hp Ha.
  - cbn [fp_inner] in H. destruct (Z.leb_spec (f_pleft a) 0); [inversion H; subst; lia|].
    destruct brest as [|b br]; [discriminate|]. pose proof (Forall_inv Hp) as Hb. cbn beta in Hb.
    destruct (Z.leb_spec (f_pleft b) 0); [lia|discriminate].
  - cbn [fp_inner] in H. destruct (Z.leb_spec (f_pleft a) 0); [inversion H; subst; lia|].
    destruct brest as [|b br]; [discriminate|]. pose proof (Forall_inv Hp) as Hb. cbn beta in Hb.
    pose proof (Forall_inv_tail Hp) as Hpr.
    destruct (Z.leb_spec (f_pleft b) 0); [lia|].
    inv_bind H. destruct x as [a1 b1]. destruct (dist_price2_inv _ _ _ _ _ Hx) as [Ea1 Eb1].
    assert (Ha1 : f_pleft a1 = f_pleft a - Z.min (f_pleft a) (f_pleft b)) by (subst a1; reflexivity).
    assert (Hpa1 : f_papplied a1 = f_papplied a + Z.min (f_pleft a) (f_pleft b)) by (subst a1; reflexivity).
    assert (Hb1 : f_pleft b1 = f_pleft b - Z.min (f_pleft a) (f_pleft b)) by (subst b1; reflexivity).
    destruct (Z.leb_spec (f_pleft b1) 0).
    + apply IH in H; [lia|assumption|lia].
    + apply IH in H; [lia|constructor; [lia|assumption]|lia].
Qed.

Lemma first_pass_papp asks : forall bdone brest tot asks' bd' br' tot',
  first_pass asks bdone brest tot = Ok (asks', bd', br', tot') ->
  pos_bids brest -> zero_bids bdone -> Forall (fun a => 0 <= f_pleft a) asks ->
  map f_papplied asks' = map (fun a => f_papplied a + f_pleft a) asks /\ tot' = tot + SP asks.
Proof.
  induction asks as [|a ar IH]; intros bdone brest tot asks' bd' br' tot' H Hp Hz Hn; cbn [first_pass] in H.
  - inversion H; subst. cbn. split; [reflexivity|lia].
  - inv_bind H. destruct x as [[[a1 bd1] br1] t1]. inv_bind H. destruct x as [[[ar1 bd2] br2] t2].
    inversion H; subst; clear H.
    destruct (fp_inner_spec _ _ _ _ _ _ _ _ _ Hx Hp Hz) as (H1 & H2 & _).
    destruct (fp_inner_papp _ _ _ _ _ _ _ _ _ Hx Hp (Forall_inv Hn)) as (_ & P2 & P3).
    destruct (IH _ _ _ _ _ _ _ Hx0 H1 H2 (Forall_inv_tail Hn)) as (G1 & G2).
    cbn [map]. rewrite G1, P2, SP_cons. split; [reflexivity|lia].
Qed.

(** ** One iteration of the leftover loop: the ask receives what leaves [lft] *)
Lemma consume_papp brest : forall a add lft bdone a' add' lft' bd' br',
  consume a add lft bdone brest = Ok (a', add', lft', bd', br') ->
  f_papplied a' - f_papplied a = lft - lft'.
Proof.
  induction brest as [|b br IH]; intros a add lft bdone a' add' lft' bd' br' H; cbn [consume] in H.
  - inversion H; subst. lia.
  - destruct (add =? 0); [inversion H; subst; lia|].
    destruct (add <? f_pleft b); [inversion H; subst; lia|].
    inv_bind H. destruct x as [a1 b1]. destruct (dist_price2_inv _ _ _ _ _ Hx) as [-> _].
    apply IH in H. cbn [add_pdist f_papplied] in H. lia.
Qed.

Lemma lo_step_papp L TA a first1 lft bdone brest a' lft' bd' br' :
  lo_step L TA a first1 lft bdone brest = Ok (a', lft', bd', br') ->
  f_papplied a' - f_papplied a = lft - lft'.
Proof.
  unfold lo_step. intros H.
  destruct brest as [|b0 br0] eqn:Eb; [discriminate|]. rewrite <- Eb in *. clear Eb b0 br0.
  inv_bind H. destruct (TA =? 0); [discriminate|].
  destruct ((Z.quot x TA =? 0) && first1); [inversion H; subst; lia|].
  inv_bind H. destruct x0 as [[[[a1 add3] left1] bdone1] brest1].
  pose proof (consume_papp _ _ _ _ _ _ _ _ _ _ Hx0) as Hc.
  destruct (add3 =? 0); [inversion H; subst; exact Hc|].
  destruct brest1 as [|b br]; [inversion H; subst; exact Hc|].
  inv_bind H. destruct x0 as [a2 b2]. destruct (dist_price2_inv _ _ _ _ _ Hx1) as [Ea2 _].
  assert (f_papplied a2 = f_papplied a1 + add3) by (subst a2; reflexivity).
  destruct (f_pleft b2 =? 0); inversion H; subst a' lft'; lia.
Qed.

Definition qf (L TA : Z) (a : ofl) : Z := floor_share L TA (f_afilled a).
Definition capf (L TA : Z) (a : ofl) : Z := Z.max (qf L TA a) 1.

Lemma lo_step_full L TA a first1 lft bdone brest a' lft' bd' br' :
  0 < L -> 0 < TA -> 0 <= f_afilled a -> pos_bids brest -> lft = SP brest -> 0 < lft ->
  lo_step L TA a first1 lft bdone brest = Ok (a', lft', bd', br') ->
  pos_bids br' /\ lft' = SP br' /\ f_afilled a' = f_afilled a /\
  f_papplied a' = f_papplied a + (lft - lft') /\ 0 <= qf L TA a /\
  (if (qf L TA a =? 0) && first1 then lft' = lft else lft' = lft - Z.min (capf L TA a) lft).
Proof.
  intros HL HA Ha Hp Hl Hpos H.
  pose proof (lo_step_spec L TA a first1 lft bdone brest HL HA Ha Hp Hl Hpos) as Hs. rewrite H in Hs.
  destruct Hs as (S1 & S2 & S3 & S4). pose proof (lo_step_papp _ _ _ _ _ _ _ _ _ _ _ H) as Hpa.
  assert (Hq : 0 <= qf L TA a) by (apply floor_share_nonneg; lia).
  repeat split; try assumption; try lia.
  cbn zeta in S4. unfold capf, qf, floor_share in *.
  destruct ((Z.quot (L * f_afilled a) TA =? 0) && first1); [exact S4|].
  destruct (Z.eqb_spec (Z.quot (L * f_afilled a) TA) 0); lia.
Qed.

(** The wrap-around of the loop is the loop started again on the whole list, second round. *)
Lemma leftover_wrap fuel L TA adone first lft bdone brest :
  leftover_loop fuel L TA adone [] first lft bdone brest =
  leftover_loop fuel L TA [] (rev adone) false lft bdone brest.
Proof.
  destruct fuel as [|fuel]; cbn [leftover_loop].
  - cbn [rev app]. rewrite app_nil_r. reflexivity.
  - destruct (lft =? 0); [cbn [rev app]; rewrite app_nil_r; reflexivity|].
    destruct (rev adone); reflexivity.
Qed.

Lemma capf_ge1 L TA l : Forall (fun c => 0 <= c) (map (capf L TA) l).
Proof. rewrite Forall_map. apply Forall_forall. unfold capf. cbn beta. intros; lia. Qed.

(** ** Second round: every turn takes min (max q 1) of what is left; at most one unit per ask
    is left at its start, so the round is never completed. *)
Lemma lo_phase2 L TA fuel : forall adone arest lft bdone brest A' B',
  0 < L -> 0 < TA -> nonneg_af arest -> pos_bids brest -> lft = SP brest ->
  lft <= Z.of_nat (length arest) ->
  leftover_loop fuel L TA adone arest false lft bdone brest = Ok (A', B') ->
  map f_papplied A' =
    map f_papplied (rev adone) ++ zip_add (map f_papplied arest) (greedy (map (capf L TA) arest) lft).
Proof.
  assert (Hbase : forall adone arest : list ofl,
    map f_papplied (rev adone ++ arest) =
    map f_papplied (rev adone) ++ zip_add (map f_papplied arest) (greedy (map (capf L TA) arest) 0)).
  { intros adone arest. rewrite map_app. f_equal. symmetry. apply zip_add_zero.
    - rewrite greedy_length, !map_length. reflexivity.
    - apply greedy_zero, capf_ge1. }
  induction fuel as [|fuel IH]; intros adone arest lft bdone brest A' B' HL HA Hn Hp Hl Hle H.
  - cbn [leftover_loop] in H. destruct (Z.eqb_spec lft 0) as [E|]; [|discriminate].
    injection H as EA EB. subst A' B'. rewrite E. apply Hbase.
  - cbn [leftover_loop] in H. destruct (Z.eqb_spec lft 0) as [E|Hne].
    + injection H as EA EB. subst A' B'. rewrite E. apply Hbase.
    + assert (Hpos : 0 < lft) by (pose proof (SP_nonneg _ Hp); lia).
      destruct arest as [|a ar]; [cbn [length] in Hle; lia|].
      inv_bind H. destruct x as [[[a' l'] bd'] br'].
      pose proof (Forall_inv Hn) as Ha. cbn beta in Ha. pose proof (Forall_inv_tail Hn) as Har.
      destruct (lo_step_full _ _ _ _ _ _ _ _ _ _ _ HL HA Ha Hp Hl Hpos Hx) as (S1 & S2 & S3 & S4 & S5 & S6).
      rewrite andb_false_r in S6.
      assert (Hc : 1 <= capf L TA a) by (unfold capf; lia).
      apply IH in H; try assumption.
      * rewrite H. cbn [rev map greedy zip_add]. rewrite map_app, <- app_assoc. cbn [map app].
        cbn zeta. rewrite S4, S6. f_equal. f_equal. lia.
      * cbn [length] in Hle. lia.
Qed.

(** ** First round: every ask takes exactly its floor share (there is always enough), what the
    floor shares leave over is carried to the wrap-around. *)
Lemma lo_phase1 L TA fuel : forall adone arest lft bdone brest A' B',
  0 < L -> 0 < TA -> nonneg_af adone -> nonneg_af arest -> pos_bids brest -> lft = SP brest ->
  0 <= lft - sumz (qf L TA) arest <= Z.of_nat (length adone + length arest) ->
  leftover_loop fuel L TA adone arest true lft bdone brest = Ok (A', B') ->
  map f_papplied A' =
    zip_add (map f_papplied (rev adone) ++ zip_add (map f_papplied arest) (map (qf L TA) arest))
            (greedy (map (capf L TA) (rev adone ++ arest)) (lft - sumz (qf L TA) arest)).
Proof.
  induction fuel as [|fuel IH]; intros adone arest lft bdone brest A' B' HL HA Hn1 Hn2 Hp Hl HR H.
  all: assert (Hqnn : forall l, nonneg_af l -> Forall (fun a => 0 <= qf L TA a) l)
    by (intros l Hl0; eapply Forall_impl; [|exact Hl0]; cbn beta; intros a Ha; apply floor_share_nonneg; lia).
  all: assert (Hbase : lft = 0 ->
    map f_papplied (rev adone ++ arest) =
    zip_add (map f_papplied (rev adone) ++ zip_add (map f_papplied arest) (map (qf L TA) arest))
            (greedy (map (capf L TA) (rev adone ++ arest)) (lft - sumz (qf L TA) arest))).
  1,3: intros E; subst lft.
  1,2: pose proof (Hqnn _ Hn2) as Hq; pose proof (sumz_nonneg _ _ Hq) as Hs.
  1,2: pose proof (sumz_zero_all _ _ Hq ltac:(lia)) as Hq0.
  1,2: replace (SP brest - sumz (qf L TA) arest) with 0 by lia.
  1,2: rewrite (zip_add_zero (map f_papplied arest) (map (qf L TA) arest))
         by (rewrite ?map_length, ?Forall_map; auto).
  1,2: rewrite zip_add_zero; [rewrite map_app; reflexivity
                             |rewrite greedy_length, <- map_app, !map_length; reflexivity
                             |apply greedy_zero, capf_ge1].
  - cbn [leftover_loop] in H. destruct (Z.eqb_spec lft 0) as [E|]; [|discriminate].
    injection H as EA EB. subst A' B'. apply Hbase, E.
  - destruct arest as [|a ar].
    + (* wrap-around *)
      rewrite leftover_wrap in H. cbn [length] in HR. rewrite sumz_nil, Z.sub_0_r, Nat.add_0_r in HR.
      apply lo_phase2 in H; try assumption.
      * rewrite H. cbn [rev app map zip_add]. rewrite !app_nil_r, sumz_nil, Z.sub_0_r. reflexivity.
      * apply Forall_rev, Hn1.
      * rewrite rev_length. lia.
    + cbn [leftover_loop] in H. destruct (Z.eqb_spec lft 0) as [E|Hne].
      * injection H as EA EB. subst A' B'. apply Hbase, E.
      * assert (Hpos : 0 < lft) by (pose proof (SP_nonneg _ Hp); lia).
        inv_bind H. destruct x as [[[a' l'] bd'] br'].
        pose proof (Forall_inv Hn2) as Ha. cbn beta in Ha. pose proof (Forall_inv_tail Hn2) as Har.
        destruct (lo_step_full _ _ _ _ _ _ _ _ _ _ _ HL HA Ha Hp Hl Hpos Hx) as (S1 & S2 & S3 & S4 & S5 & S6).
        rewrite andb_true_r in S6. rewrite sumz_cons in HR.
        pose proof (sumz_nonneg _ _ (Hqnn _ Har)) as Hs.
        assert (El : l' = lft - qf L TA a).
        { unfold capf in S6. destruct (Z.eqb_spec (qf L TA a) 0); lia. }
        assert (Ec : capf L TA a' = capf L TA a) by (unfold capf, qf; rewrite S3; reflexivity).
        apply IH in H; try assumption.
        -- rewrite H. cbn [rev map zip_add]. rewrite !map_app, <- !app_assoc. cbn [map app].
           rewrite Ec, S4, sumz_cons, El. f_equal; [f_equal; f_equal; lia|f_equal; lia].
        -- constructor; [lia|assumption].
        -- cbn [length] in *. lia.
Qed.

(** ** (1) allocatePrice: every ask receives its price plus its entry of [surplus] *)
Lemma qf_map L TA l : map (qf L TA) l = map (floor_share L TA) (map f_afilled l).
Proof. rewrite map_map. reflexivity. Qed.
Lemma capf_map L TA l :
  map (capf L TA) l = map (fun q => Z.max q 1) (map (floor_share L TA) (map f_afilled l)).
Proof. rewrite !map_map. reflexivity. Qed.
Lemma qf_sum L TA l : sumz (qf L TA) l = sumz idz (map (floor_share L TA) (map f_afilled l)).
Proof. rewrite !sumz_map. reflexivity. Qed.
Lemma SA_sumz l : SA l = sumz idz (map f_afilled l).
Proof. rewrite sumz_map. reflexivity. Qed.
Lemma SP_sumz l : SP l = sumz f_pleft l.
Proof. reflexivity. Qed.

Lemma pproj_afilled l l' : map pproj l = map pproj l' -> map f_afilled l = map f_afilled l'.
Proof. apply (map_coarser pproj f_afilled (fun '(_, _, af, _, _) => af) (fun f => eq_refl)). Qed.

Lemma allocate_price_surplus asks bids a3 b3 :
  Forall (fun a => 0 <= f_afilled a /\ 0 <= f_pleft a) asks -> pos_bids bids ->
  allocate_price asks bids = Ok (a3, b3) ->
  0 <= SP bids - SP asks /\
  map f_papplied a3 =
    zip_add (map (fun a => f_papplied a + f_pleft a) asks)
            (surplus (SP bids - SP asks) (map f_afilled asks)) /\
  map pproj a3 = map pproj asks /\ map pproj b3 = map pproj bids.
Proof.
  intros Hasks Hp H.
  pose proof (allocate_price_steps _ _ _ _ H) as Hst. apply price_steps_inv in Hst.
  destruct Hst as (P1 & P2 & _).
  assert (Hn : nonneg_af asks) by (eapply Forall_impl; [|exact Hasks]; cbn beta; intros a [Ha _]; exact Ha).
  assert (Hpl : Forall (fun a => 0 <= f_pleft a) asks)
    by (eapply Forall_impl; [|exact Hasks]; cbn beta; intros a [_ Ha]; exact Ha).
  unfold allocate_price in H. unfold sum_pleft in H. rewrite !fold_left_add_pleft in H.
  destruct (Z.ltb_spec (0 + SP bids) (0 + SP asks)) as [|Hge]; [discriminate|].
  inv_bind H. destruct x as [[[asks1 bd] br] tot]. lazy beta iota in H.
  unfold sum_afilled in H. rewrite fold_left_add_afilled in H.
  destruct (first_pass_spec _ _ _ _ _ _ _ _ Hx Hp (Forall_nil _) Hn) as (F1 & F2 & F3 & F4 & F5 & F6).
  destruct (first_pass_papp _ _ _ _ _ _ _ _ Hx Hp (Forall_nil _) Hpl) as (G1 & G2).
  pose proof (first_pass_steps _ _ _ _ _ _ _ _ [] Hx) as Hfs. cbn [app] in Hfs.
  apply price_steps_inv in Hfs. destruct Hfs as (Q1 & _). apply pproj_afilled in Q1.
  split; [lia|]. split; [|split; assumption].
  destruct (Z.eqb_spec tot (0 + SP bids)) as [Et|Hne].
  - (* nothing left *)
    injection H as EA EB. subst a3 b3. replace (SP bids - SP asks) with 0 by lia.
    rewrite G1. symmetry. apply zip_add_zero; [rewrite surplus_length, !map_length; reflexivity|apply surplus_zero].
  - set (L := SP bids - SP asks). replace (0 + SP bids - tot) with L in H by (unfold L; lia).
    assert (HL : 0 < L) by (unfold L; lia).
    destruct (Z.eq_dec (SA asks1) 0) as [Hz|Hz].
    + (* no assets at all: the first iteration divides by zero *)
      exfalso. cbn [leftover_loop] in H. destruct (Z.eqb_spec L 0); [lia|].
      destruct asks1 as [|a ar]; [discriminate|]. unfold lo_step in H.
      destruct br; cbn [rbind] in H; [discriminate|].
      destruct (mulchk L (f_afilled a)); cbn [rbind] in H; try discriminate.
      rewrite Hz in H. cbn in H. discriminate.
    + assert (HA : 0 < 0 + SA asks1) by (pose proof (sumz_nonneg _ _ F5) as Hs; change (sumz f_afilled asks1) with (SA asks1) in Hs; lia).
      set (TA := 0 + SA asks1) in *.
      assert (ETA : TA = sumz idz (map f_afilled asks)) by (unfold TA; rewrite F4, SA_sumz; lia).
      assert (Hafs : Forall (fun a => 0 <= a) (map f_afilled asks)) by (rewrite Forall_map; exact Hn).
      destruct (rest_bounds L TA (map f_afilled asks) ltac:(lia) HA Hafs (eq_sym ETA)) as [HR _].
      apply lo_phase1 in H; try assumption.
      * cbn [rev app map] in H. rewrite H, G1, qf_map, capf_map, qf_sum, Q1, zip_add_assoc.
        unfold surplus. rewrite <- ETA. reflexivity.
      * constructor.
      * cbn. lia.
      * rewrite qf_sum, Q1, sumz_map. cbn [length Nat.add]. rewrite F6. rewrite map_length in HR. exact HR.
Qed.

(** ** (2) BuildSettlement *)

(** [build_shape] (Proofs/FulfillSums.v) once more, this time keeping the fulfillments handed to
    and returned by [allocate_price]. *)
Lemma build_trace asks bids lk s :
  build asks bids lk = Ok s ->
  exists r a2 b2 a3 b3 A B AD PD,
    lk = Ok r /\ built asks bids r s A B AD PD /\
    allocate_price a2 b2 = Ok (a3, b3) /\
    map nofee A = map nofee a3 /\ map nofee B = map nofee b3 /\
    (Forall valid_order asks -> Forall valid_order bids -> Forall J a2 /\ Forall J b2).
Proof.
  unfold build. intros H.
  destruct (validate_can_settle asks bids) eqn:Hvcs; cbn [negb] in H; [|discriminate].
  destruct (validate_can_settle_sides _ _ Hvcs) as (AD & PD & HsA & HsB).
  inv_bind H. destruct x as [a1 b1]. inv_bind H. destruct x as [[a2 b2] lft].
  inv_bind H. destruct x as [a3 b3]. inv_bind H. rename x into r. inv_bind H. rename x into a4.
  set (b4 := set_bid_fees b3) in *.
  destruct (forallb validate_ofl a4 && forallb validate_ofl b4) eqn:Hval; cbn [negb] in H; [|discriminate].
  apply andb_prop in Hval as [Hva Hvb].
  inv_bind H. destruct x as [ts1 fees1]. inv_bind H. destruct x as [ts2 fees2]. inv_bind H. rename x into fi.
  destruct (populate a4 lft [] None) as [full1 part1] eqn:Hp1.
  destruct (populate b4 lft full1 part1) as [full2 part2] eqn:Hp2.
  inversion H; subst s; clear H.
  pose proof Hx1 as Hap.
  (* phases *)
  destruct (phase1 _ _ _ _ Hx) as (O1a & O1b & S1 & S2 & Za1 & Zb1).
  destruct (phase2 _ _ _ _ _ Hx0) as (Osh & Qa2 & Qb2 & Pa2 & Pb2). rewrite O1a, O1b in Osh.
  apply allocate_price_steps, price_steps_inv in Hx1. destruct Hx1 as (Pp3a & Pp3b & S3 & S4 & _).
  destruct (pproj_coarser _ _ Pp3a) as (Qa3 & Oa3). destruct (pproj_coarser _ _ Pp3b) as (Qb3 & Ob3).
  pose proof (set_ask_fees_spec _ _ _ Hx3) as Hfa.
  pose proof (ask_fee_ok_nofee _ _ _ Hfa) as NA. pose proof (set_bid_fees_nofee b3) as NB. fold b4 in NB.
  destruct (nofee_coarser _ _ NA) as (Qa4 & Pa4 & Oa4).
  destruct (nofee_coarser _ _ NB) as (Qb4 & Pb4 & Ob4).
  (* orders of the final fulfillments *)
  assert (OA : map f_order a4 = map f_order a2) by (rewrite Oa4, Oa3; reflexivity).
  assert (OB : map f_order b4 = map f_order b2) by (rewrite Ob4, Ob3; reflexivity).
  rewrite <- OA, <- OB in Osh.
  destruct (oshape_sides _ _ _ _ _ _ _ Osh HsA HsB) as [SdA SdB].
  rewrite Forall_map in SdA, SdB.
  (* sums *)
  destruct (aq_sums _ _ Qa2) as (A21 & A22 & A23). destruct (aq_sums _ _ Qb2) as (B21 & B22 & B23).
  destruct (aq_sums _ _ Qa3) as (A31 & A32 & A33). destruct (aq_sums _ _ Qb3) as (B31 & B32 & B33).
  destruct (aq_sums _ _ Qa4) as (A41 & A42 & A43). destruct (aq_sums _ _ Qb4) as (B41 & B42 & B43).
  destruct (pq_sums _ _ Pa2) as (PA21 & PA22 & PA23). destruct (pq_sums _ _ Pb2) as (PB21 & PB22 & PB23).
  destruct (pq_sums _ _ Pa4) as (PA41 & PA42 & PA43). destruct (pq_sums _ _ Pb4) as (PB41 & PB42 & PB43).
  destruct Za1 as (Za11 & Za12 & Za13). destruct Zb1 as (Zb11 & Zb12 & Zb13).
  exists r, a2, b2, a3, b3, a4, b4, AD, PD. split; [assumption|].
  rewrite forallb_forall in Hva, Hvb.
  split; [|split; [exact Hap|split; [exact NA|split; [exact NB|]]]].
  - constructor; cbn [s_left s_transfers s_fee_inputs s_full s_partial].
    + exact SdA.
    + exact SdB.
    + exact Osh.
    + apply Forall_forall. intros f Hf. specialize (Hva f Hf). rewrite Forall_forall in SdA.
      destruct (SdA f Hf) as (Ek & _). unfold validate_ofl in Hva. rewrite Ek in Hva. lia.
    + apply Forall_forall. intros f Hf. specialize (Hvb f Hf). rewrite Forall_forall in SdB.
      destruct (SdB f Hf) as (Ek & _). unfold validate_ofl in Hvb. rewrite Ek in Hvb. lia.
    + clear - Hfa. induction Hfa as [|a a' l l' Hh _ IH]; constructor; [|exact IH].
      destruct r as [rt|]; cbn [ask_fee_ok] in Hh; [destruct Hh as (amt & Hr & ->); exists amt; split; [exact Hr|reflexivity]|subst a'; reflexivity].
    + apply Forall_forall. intros f Hf. unfold b4, set_bid_fees in Hf. apply in_map_iff in Hf as (b & <- & _). reflexivity.
    + rewrite A41, A31, A21, B41, B31, B21. exact S1.
    + rewrite PA41, PB41. lia.
    + intros x. rewrite A43, A33, A23, B42, B32, B22. apply S2.
    + intros x. specialize (S4 x). rewrite PB43, PA42. rewrite PA22, PB23, Za12, Zb13 in S4. lia.
    + exists ts1, fees1, ts2. split; [assumption|]. split; [|reflexivity].
      destruct fees2; [inversion Hx6; subst; exact Hx5|apply idx_get_ok in Hx6; subst; exact Hx5].
    + destruct fees2; [inversion Hx6; subst; constructor|apply (idx_get_pos _ _ Hx6)].
    + rewrite populate_app, Hp1. exact Hp2.
  - intros Va Vb.
    assert (HJ0 : forall l, Forall valid_order l -> Forall J (map new_ofl l)).
    { induction 1; cbn; constructor; auto using J_new. }
    unfold allocate_assets in Hx.
    destruct (alloc_assets_J _ _ _ _ _ _ _ (Forall_nil _) (HJ0 _ Va) (Forall_nil _) (HJ0 _ Vb) Hx) as [Ja1 Jb1].
    unfold split_partial in Hx0. inv_bind Hx0. destruct x as [a2' l1]. inv_bind Hx0. destruct x as [b2' l2].
    inversion Hx0; subst a2' b2' l2.
    split; [apply (split_fs_J _ _ _ _ Ja1 Hx1)|apply (split_fs_J _ _ _ _ Jb1 Hx7)].
Qed.

(** The reported fills are the final fulfillments, up to the position of the partially filled one. *)
Lemma built_perm asks bids r s A B AD PD :
  built asks bids r s A B AD PD -> NoDup (map o_id (asks ++ bids)) ->
  Permutation (fills_of s) (map as_filled A ++ map as_filled B).
Proof.
  intros Hb Hnd. pose proof (b_shape _ _ _ _ _ _ _ _ Hb) as Osh. pose proof (b_filled _ _ _ _ _ _ _ _ Hb) as Hp.
  destruct (oshape_ids _ _ _ _ _ Osh) as [Ia Ib].
  assert (Hnd' : NoDup (map fid (A ++ B))).
  { unfold fid. rewrite <- (map_map f_order o_id), map_app, map_app, Ia, Ib, <- map_app. exact Hnd. }
  unfold fills_of. rewrite <- map_app.
  destruct (s_left s) as [unf|] eqn:El.
  - assert (Hcase : exists F1 f F2, A ++ B = F1 ++ f :: F2 /\ fid f = o_id unf).
    { inversion Osh as [|pre o fil unf' Ea Hs E1 E2 E3|pre o fil unf' Eb Hs E1 E2 E3]; subst unf'.
      - symmetry in E1. apply map_eq_app_last in E1 as (A0 & f & -> & E1 & E1').
        exists A0, f, B. rewrite <- app_assoc. cbn [app]. split; [reflexivity|].
        destruct (split_sound _ _ _ _ Hs) as (_ & _ & (S0 & _) & (U0 & _) & _).
        unfold fid; rewrite E1', S0, U0; reflexivity.
      - symmetry in E2. apply map_eq_app_last in E2 as (B0 & f & -> & E2 & E2').
        exists (A ++ B0), f, []. rewrite <- app_assoc. split; [reflexivity|].
        destruct (split_sound _ _ _ _ Hs) as (_ & _ & (S0 & _) & (U0 & _) & _).
        unfold fid; rewrite E2', S0, U0; reflexivity. }
    destruct Hcase as (F1 & f & F2 & EAB & Hid).
    rewrite EAB in *. rewrite (populate_one _ _ _ _ Hnd' Hid) in Hp. inversion Hp as [[Hfull Hpart]].
    cbn [opt_list]. rewrite !map_app. cbn [map]. rewrite <- app_assoc.
    apply Permutation_app_head. symmetry. apply Permutation_cons_append.
  - rewrite populate_none in Hp. inversion Hp as [[Hfull Hpart]]. cbn [app opt_list].
    rewrite app_nil_r. apply Permutation_refl.
Qed.

Lemma J_prices l : Forall J l ->
  map (fun a => f_papplied a + f_pleft a) l = map o_price (map f_order l) /\
  SP l = sumz o_price (map f_order l) /\
  Forall (fun a => 0 <= f_afilled a /\ 0 <= f_pleft a) l /\ pos_bids l.
Proof.
  induction 1 as [|f l (J1 & J2 & J3 & J4 & J5) _ (I1 & I2 & I3 & I4)]; [repeat split; constructor|].
  cbn [map]. rewrite SP_cons, sumz_cons, I1, I2, J2, J3. repeat split; try reflexivity.
  - constructor; [lia|exact I3].
  - constructor; [lia|exact I4].
Qed.

Theorem build_surplus : forall asks bids lk s,
  build asks bids lk = Ok s -> NoDup (map o_id (asks ++ bids)) ->
  Forall valid_order asks -> Forall valid_order bids ->
  exists fa fb : list filled,
    Permutation (fills_of s) (fa ++ fb) /\
    map (fun f => o_id (fo_order f)) fa = map o_id asks /\
    map (fun f => o_id (fo_order f)) fb = map o_id bids /\
    Forall (fun f => o_ask (fo_order f) = true) fa /\ Forall (fun f => o_ask (fo_order f) = false) fb /\
    Forall (fun f => fo_price f = o_price (fo_order f)) fb /\
    let L := sumz (fun f => o_price (fo_order f)) fb - sumz (fun f => o_price (fo_order f)) fa in
    0 <= L /\
    map fo_price fa = zip_add (map (fun f => o_price (fo_order f)) fa)
                              (surplus L (map (fun f => o_assets (fo_order f)) fa)).
Proof.
  intros asks bids lk s H Hnd Va Vb.
  destruct (build_trace _ _ _ _ H) as (r & a2 & b2 & a3 & b3 & A & B & AD & PD & _ & Hb & Hap & NA & NB & HJ).
  destruct (HJ Va Vb) as [Ja2 Jb2].
  destruct (J_prices _ Ja2) as (Pa & SPa & Ha2 & _). destruct (J_prices _ Jb2) as (_ & SPb & _ & Hb2).
  destruct (allocate_price_surplus _ _ _ _ Ha2 Hb2 Hap) as (HL & HP & Pp3a & Pp3b).
  destruct (oshape_ids _ _ _ _ _ (b_shape _ _ _ _ _ _ _ _ Hb)) as [Ia Ib].
  pose proof (b_sideA _ _ _ _ _ _ _ _ Hb) as SdA. pose proof (b_sideB _ _ _ _ _ _ _ _ Hb) as SdB.
  pose proof (b_validA _ _ _ _ _ _ _ _ Hb) as VA. pose proof (b_validB _ _ _ _ _ _ _ _ Hb) as VB.
  (* projections of the final fulfillments *)
  destruct (nofee_coarser _ _ NA) as (_ & _ & OA). destruct (nofee_coarser _ _ NB) as (_ & _ & OB).
  destruct (pproj_coarser _ _ Pp3a) as (_ & OA3). destruct (pproj_coarser _ _ Pp3b) as (_ & OB3).
  rewrite OA3 in OA. rewrite OB3 in OB.
  assert (PA : map f_papplied A = map f_papplied a3)
    by (apply (map_coarser nofee f_papplied (fun '(_, _, _, _, _, pa, _) => pa) (fun f => eq_refl) _ _ NA)).
  assert (FA : map f_afilled A = map f_afilled a2).
  { rewrite <- (pproj_afilled _ _ Pp3a).
    apply (map_coarser nofee f_afilled (fun '(_, _, _, af, _, _, _) => af) (fun f => eq_refl) _ _ NA). }
  exists (map as_filled A), (map as_filled B).
  split; [apply (built_perm _ _ _ _ _ _ _ _ Hb Hnd)|].
  split; [rewrite map_map; cbn [as_filled fo_order]; rewrite <- (map_map f_order o_id); exact Ia|].
  split; [rewrite map_map; cbn [as_filled fo_order]; rewrite <- (map_map f_order o_id); exact Ib|].
  split; [rewrite Forall_map; eapply Forall_impl; [|exact SdA]; cbn; intros f (E & _); exact E|].
  split; [rewrite Forall_map; eapply Forall_impl; [|exact SdB]; cbn; intros f (E & _); exact E|].
  split; [rewrite Forall_map; eapply Forall_impl; [|exact VB]; cbn; intros f (_ & E); symmetry; exact E|].
  assert (EpA : map (fun f => o_price (fo_order f)) (map as_filled A) = map o_price (map f_order a2))
    by (rewrite map_map; cbn [as_filled fo_order]; rewrite <- (map_map f_order o_price), OA; reflexivity).
  assert (EsA : sumz (fun f => o_price (fo_order f)) (map as_filled A) = SP a2)
    by (rewrite SPa, <- OA, !sumz_map; reflexivity).
  assert (EsB : sumz (fun f => o_price (fo_order f)) (map as_filled B) = SP b2)
    by (rewrite SPb, <- OB, !sumz_map; reflexivity).
  assert (EaA : map (fun f => o_assets (fo_order f)) (map as_filled A) = map f_afilled a2).
  { rewrite map_map, <- FA. cbn [as_filled fo_order]. apply map_ext_in. intros f Hf.
    rewrite Forall_forall in VA. apply (VA f Hf). }
  cbn zeta. rewrite EsA, EsB, EpA, EaA. split; [exact HL|].
  rewrite map_map. cbn [as_filled fo_price]. change (map (fun x => f_papplied x) A) with (map f_papplied A).
  rewrite PA, HP, Pa. reflexivity.
Qed.

(** ** Concrete instances, computed on the model itself *)
Definition ex_order (ask : bool) (id : positive) (assets price : Z) : order :=
  {| o_id := id; o_ask := ask; o_owner := id; o_ad := 1%positive; o_assets := assets;
     o_pd := 2%positive; o_price := price; o_fees := []; o_partial := false |}.
Definition ex_ofl (ask : bool) (id : positive) (assets price : Z) : ofl :=
  {| f_order := ex_order ask id assets price; f_adists := []; f_pdists := [];
     f_afilled := assets; f_aunfilled := 0; f_papplied := 0; f_pleft := price; f_fees := [] |}.

(** Four asks with 5,5,1,1 assets for 10,10,2,2; two bids paying 20 and 11: 7 units of surplus. *)
Example allocate_price_example :
  match allocate_price [ex_ofl true 1 5 10; ex_ofl true 2 5 10; ex_ofl true 3 1 2; ex_ofl true 4 1 2]
                       [ex_ofl false 5 6 20; ex_ofl false 6 6 11] with
  | Ok (a3, _) => map f_papplied a3 = zip_add [10; 10; 2; 2] (surplus 7 [5; 5; 1; 1])
                  /\ map f_papplied a3 = [14; 13; 2; 2]
  | _ => False
  end.
Proof. vm_compute. split; reflexivity. Qed.

(** The same asks listed in another order: the one-asset ask listed first now gets a unit. *)
Example allocate_price_example_order :
  match allocate_price [ex_ofl true 3 1 2; ex_ofl true 1 5 10; ex_ofl true 2 5 10; ex_ofl true 4 1 2]
                       [ex_ofl false 5 6 20; ex_ofl false 6 6 11] with
  | Ok (a3, _) => map f_papplied a3 = [3; 14; 12; 2]
  | _ => False
  end.
Proof. vm_compute. reflexivity. Qed.

Example build_example :
  match build [ex_order true 1 10 20; ex_order true 2 15 30] [ex_order false 3 25 70] (Ok None) with
  | Ok s => map fo_price (s_full s) = [28; 42; 70] /\ surplus 20 [10; 15] = [8; 12]
  | _ => False
  end.
Proof. vm_compute. split; reflexivity. Qed.

Print Assumptions allocate_price_surplus.
Print Assumptions build_surplus.
Print Assumptions surplus_entry.
