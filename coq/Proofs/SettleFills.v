(** C01: FillBids and FillAsks refine the same abstract specification as SettleOrders
    (Proofs/SettleRefine.v), with the filling seller / buyer as one more party: it hands over
    the total assets (price), receives the total price (assets) and pays its own fees. *)
From Coq Require Import ZArith List Bool Lia ZifyBool PArith.
From PV Require Import Exchange.Arith Exchange.Split Exchange.Fulfill Exchange.Settle Exchange.SettleSpec
  Proofs.ArithProofs Proofs.SplitProofs Proofs.FulfillProofs Proofs.FulfillSteps
  Proofs.FulfillShape Proofs.FulfillSums Proofs.SettleProofs Proofs.SettleRefine.
Import ListNotations.
Open Scope Z_scope.

(** ** Folds that build coins and indexed amounts *)
Lemma fold_add1_spec {A} (dn : A -> denom) (am : A -> Z) l : forall acc,
  sorted acc ->
  sorted (fold_left (fun acc o => coins_add1 acc (dn o) (am o)) l acc) /\
  forall d, amount_of (fold_left (fun acc o => coins_add1 acc (dn o) (am o)) l acc) d =
            amount_of acc d + sumz (fun o => at_d d (dn o) (am o)) l.
Proof.
  induction l as [|o r IH]; intros acc Hs; cbn [fold_left].
  - split; [assumption|]. intros; cbn; lia.
  - destruct (coins_add1_spec acc (dn o) (am o) Hs) as [Hs1 Ha1]. destruct (IH _ Hs1) as [Hs2 Ha2].
    split; [assumption|]. intros d. rewrite Ha2, Ha1, sumz_cons. unfold at_d. lia.
Qed.

Lemma fold_idx_add_spec {A} (own : A -> addr) (cf : A -> coins) l : forall i,
  idx_sorted i -> Forall (fun o => sorted (cf o)) l ->
  let i' := fold_left (fun i o => idx_add i (own o) (cf o)) l i in
  idx_sorted i' /\
  (forall x d, idx_at i' x d = idx_at i x d + sumz (fun o => if Pos.eqb x (own o) then amount_of (cf o) d else 0) l) /\
  (forall d, idx_amount i' d = idx_amount i d + sumz (fun o => amount_of (cf o) d) l).
Proof.
  induction l as [|o r IH]; intros i Hs Hf; cbn [fold_left].
  - split; [assumption|]. split; intros; cbn; lia.
  - inversion Hf as [|? ? Hc Hr]; subst.
    destruct (idx_add_spec i (own o) (cf o) Hs Hc) as [Hs1 Hm1].
    destruct (IH _ Hs1 Hr) as (Hs2 & Ha2 & Hm2). split; [assumption|]. split.
    + intros x d. rewrite Ha2, (idx_add_at _ _ _ Hs Hc), sumz_cons, (raw_sum_sorted _ Hc). lia.
    + intros d. rewrite Hm2, Hm1, sumz_cons, (raw_sum_sorted _ Hc). lia.
Qed.

Lemma fi_of_idx (i fi : indexed) :
  (match i with [] => Ok [] | _ => idx_get i end) = Ok fi -> fi = i /\ idx_pos fi.
Proof.
  destruct i as [|e r]; intros H.
  - inversion H; subst. split; [reflexivity|constructor].
  - split; [apply (idx_get_ok _ _ H)|apply (idx_get_pos _ _ H)].
Qed.

Lemma sumz_const_if {A} (b : bool) (g : A -> Z) l :
  sumz (fun o => if b then g o else 0) l = if b then sumz g l else 0.
Proof. apply sumz_scale. Qed.

Lemma idx_at_one a c x d : idx_at [(a, c)] x d = if Pos.eqb x a then amount_of c d else 0.
Proof. unfold idx_at. cbn. destruct (Pos.eqb x a); lia. Qed.

(** ** FillBids *)
Definition bid_fill (o : order) : filled := {| fo_order := o; fo_price := o_price o; fo_fees := o_fees o |}.

Lemma seller_fee_sorted cfg pd p f : seller_ratio_fee cfg pd p = Ok f -> sorted f.
Proof.
  unfold seller_ratio_fee. intros H. inv_bind H. destruct x as [rt|]; [|inversion H; constructor].
  inv_bind H. destruct x as [d amt]. inversion H; subst. apply (coins_add1_spec [] d amt sorted_nil).
Qed.

Lemma ratio_fees_sorted cfg price : forall rf, ratio_fees_of cfg price = Ok rf -> sorted rf.
Proof.
  induction price as [|[d p] r IH]; intros rf H; cbn [ratio_fees_of] in H.
  - inversion H; constructor.
  - inv_bind H. inv_bind H. inversion H; subst. apply (coins_add_spec x _ (IH _ Hx0)).
Qed.

Lemma fill_bids_refine cfg st seller ids total_assets flat st' :
  store_ok (st_orders st) ->
  fill_bids cfg st seller ids total_assets flat = Ok st' ->
  exists bids rf,
    get_orders (st_orders st) false ids (Some seller) = Ok bids /\
    total_assets = sum_assets bids /\
    ratio_fees_of cfg (sum_price bids) = Ok rf /\
    let fills := map bid_fill bids in
    let me := {| p_addr := seller; p_gets := sum_price bids; p_gives := total_assets;
                 p_fees := coins_add (match flat with Some (d, z) => coins_add1 [] d z | None => [] end) rf |} in
    (forall x d, aget (st_bal st') x d = aget (st_bal st) x d + spec_delta cfg (me :: map party_of_fill fills) x d) /\
    (forall x d, aget (st_hold st') x d = aget (st_hold st) x d - hold_released fills x d) /\
    (forall id, find_order (st_orders st') id = orders_after (st_orders st) fills None id) /\
    (forall d, total (st_bal st') d = total (st_bal st) d) /\
    store_ok (st_orders st').
Proof.
  intros Hok H. unfold fill_bids in H.
  destruct (valid_ids ids && negb (coins_is_zero total_assets)); cbn [negb] in H; [|discriminate].
  destruct (validate_flat (c_seller_flat cfg) flat); cbn [negb] in H; [|discriminate].
  inv_bind H. rename x into bids. rename Hx into Gb.
  destruct (coins_eqb (sum_assets bids) total_assets) eqn:Eta; cbn [negb] in H; [|discriminate].
  apply coins_eqb_eq in Eta.
  inv_bind H. rename x into rf. inv_bind H. rename x into outs. inv_bind H. rename x into ins.
  inv_bind H. rename x into fi.
  set (flatc := match flat with Some (d, z) => coins_add1 [] d z | None => [] end) in *.
  set (sfee := coins_add flatc rf) in *.
  destruct (get_orders_spec _ _ _ _ _ Gb) as [Ib Fb].
  assert (Hbid : forall o, In o bids -> o_ask o = false /\ sorted (o_fees o)).
  { intros o Ho. rewrite Forall_forall in Fb. destruct (Fb o Ho) as (Hin & Hk & _). split; [exact Hk|].
    unfold store_ok in Hok. rewrite Forall_forall in Hok. apply Hok, Hin. }
  (* the three indexes *)
  destruct (fold_idx_add_spec o_owner (fun o => [(o_ad o, o_assets o)]) bids [] (Forall_nil _))
    as (Sa & Aa & _); [apply Forall_forall; intros; apply sorted_one|].
  destruct (fold_idx_add_spec o_owner (fun o => [(o_pd o, o_price o)]) bids [] (Forall_nil _))
    as (Sp & Ap & _); [apply Forall_forall; intros; apply sorted_one|].
  destruct (fold_idx_add_spec o_owner o_fees bids [] (Forall_nil _))
    as (Sf & Af & Tf); [apply Forall_forall; intros o Ho; apply (Hbid o Ho)|].
  cbn zeta in Sa, Aa, Sp, Ap, Sf, Af, Tf.
  apply idx_get_ok in Hx0, Hx1. subst outs ins.
  destruct (fi_of_idx _ _ Hx2) as [-> Hfpos].
  (* totals *)
  destruct (fold_add1_spec o_ad o_assets bids [] sorted_nil) as [Ssa Asa]. fold (sum_assets bids) in Ssa, Asa.
  destruct (fold_add1_spec o_pd o_price bids [] sorted_nil) as [Ssp Asp]. fold (sum_price bids) in Ssp, Asp.
  assert (Sflat : sorted flatc).
  { unfold flatc. destruct flat as [[d z]|]; [apply (coins_add1_spec [] d z sorted_nil)|constructor]. }
  destruct (coins_add_spec rf flatc Sflat) as [Ssfee Asfee]. fold sfee in Ssfee, Asfee.
  pose proof (ratio_fees_sorted _ _ _ Hx) as Srf.
  destruct (idx_add_spec _ seller sfee Sf Ssfee) as [Sfi Tfi].
  pose proof (idx_add_at _ seller sfee Sf Ssfee) as Afi.
  (* close *)
  match type of H with close _ _ ?s0 = _ => set (s := s0) in * end.
  assert (Hts : Forall transfer_sorted (s_transfers s)).
  { unfold s. cbn [s_transfers]. constructor; [|constructor; [|constructor]]; split; cbn [t_in t_out].
    - rewrite <- Eta. apply one_sorted, Ssa.
    - exact Sa.
    - exact Sp.
    - apply one_sorted, Ssp. }
  assert (Hsfo : Forall (fun f => sorted (o_fees (fo_order f))) (fills_of s)).
  { unfold fills_of. cbn. rewrite app_nil_r. apply Forall_forall. intros f Hf.
    apply in_map_iff in Hf as (o & <- & Ho). apply (Hbid o Ho). }
  destruct (close_refine _ _ _ _ H Hts Sfi Hfpos Hsfo) as (Hbal & Hhold & Hord).
  assert (Efills : fills_of s = map bid_fill bids) by (unfold fills_of; cbn; apply app_nil_r).
  exists bids, rf. split; [exact Gb|]. split; [symmetry; exact Eta|]. split; [exact Hx|]. cbn zeta.
  split; [|split; [|split; [|split]]].
  - intros x d. rewrite (Hbal x d). cbn zeta. cbn [s_transfers s_fee_inputs s].
    unfold spec_delta, exchange_share, fees_total, transfers_net. rewrite !sumz_cons, sumz_nil.
    unfold transfer_net. cbn [t_in t_out p_fees p_addr]. rewrite Afi, Tfi, Aa, Ap, Af, Tf.
    rewrite !sumz_map. unfold party_delta at 1. cbn [p_addr p_gets p_gives p_fees].
    unfold idx_at at 1 2. cbn [sumz fold_right fst snd]. fold sfee. rewrite <- Eta, Asa, Asp, (raw_sum_sorted _ Ssfee).
    cbn [amount_of idx_amount fold_right].
    rewrite (sumz_ext (fun f => party_delta (party_of_fill (bid_fill f)) x d)
               (fun o => (if Pos.eqb x (o_owner o) then at_d d (o_ad o) (o_assets o) else 0)
                         - (if Pos.eqb x (o_owner o) then at_d d (o_pd o) (o_price o) else 0)
                         - (if Pos.eqb x (o_owner o) then amount_of (o_fees o) d else 0)) bids).
    2:{ intros o Ho. destruct (Hbid o Ho) as [Hk _]. unfold party_delta, party_of_fill, bid_fill, at_d.
        cbn [fo_order fo_price fo_fees]. rewrite Hk. cbn [p_addr p_gets p_gives p_fees amount_of].
        destruct (Pos.eqb x (o_owner o)); lia. }
    rewrite !sumz_minus.
    rewrite (sumz_ext (fun f => amount_of (p_fees (party_of_fill (bid_fill f))) d) (fun o => amount_of (o_fees o) d) bids).
    2:{ intros o Ho. destruct (Hbid o Ho) as [Hk _]. unfold party_of_fill, bid_fill. cbn [fo_order]. rewrite Hk. reflexivity. }
    unfold at_d. change (idx_at [] x d) with 0. rewrite idx_at_one, Asp. unfold at_d. cbn [amount_of].
    set (SF := sumz (fun o : order => amount_of (o_fees o) d) bids).
    replace (0 + SF + amount_of sfee d) with (amount_of sfee d + SF) by lia.
    destruct (Pos.eqb x seller), (Pos.eqb x (c_market cfg)), (Pos.eqb x (c_feecol cfg)); lia.
  - intros x d. rewrite (Hhold x d), Efills. reflexivity.
  - intros id. rewrite (Hord id). reflexivity.
  - intros d. apply (close_total _ _ _ _ _ H).
  - apply (close_orders_ok _ _ _ _ H Hok). exact I.
Qed.

(** ** FillAsks *)
Definition ask_fill_ok (cfg : config) (o : order) (f : filled) : Prop :=
  fo_order f = o /\ fo_price f = o_price o /\
  exists rfee, seller_ratio_fee cfg (o_pd o) (o_price o) = Ok rfee /\ fo_fees f = coins_add (o_fees o) rfee.

Lemma ask_fills_spec cfg asks : forall full, ask_fills cfg asks = Ok full -> Forall2 (ask_fill_ok cfg) asks full.
Proof.
  induction asks as [|o r IH]; intros full H; cbn [ask_fills] in H.
  - inversion H; constructor.
  - inv_bind H. inv_bind H. inversion H; subst; clear H. constructor; [|apply IH, Hx0].
    repeat split. exists x. split; [assumption|reflexivity].
Qed.

Lemma Forall2_map_l {A B} (R : A -> B -> Prop) (g : B -> A) l l' :
  Forall2 R l l' -> (forall a b, R a b -> g b = a) -> map g l' = l.
Proof. induction 1 as [|a b l l' H _ IH]; intros Hg; [reflexivity|]. cbn [map]. rewrite (Hg _ _ H), IH; auto. Qed.

Lemma fill_asks_refine cfg st buyer ids total_price fees st' :
  store_ok (st_orders st) -> sorted fees ->
  fill_asks cfg st buyer ids total_price fees = Ok st' ->
  exists asks fills,
    get_orders (st_orders st) true ids (Some buyer) = Ok asks /\
    sum_price asks = [total_price] /\
    Forall2 (ask_fill_ok cfg) asks fills /\
    let me := {| p_addr := buyer; p_gets := sum_assets asks; p_gives := [total_price]; p_fees := fees |} in
    (forall x d, aget (st_bal st') x d = aget (st_bal st) x d + spec_delta cfg (me :: map party_of_fill fills) x d) /\
    (forall x d, aget (st_hold st') x d = aget (st_hold st) x d - hold_released fills x d) /\
    (forall id, find_order (st_orders st') id = orders_after (st_orders st) fills None id) /\
    (forall d, total (st_bal st') d = total (st_bal st) d) /\
    store_ok (st_orders st').
Proof.
  intros Hok Sfees H. unfold fill_asks in H.
  destruct (valid_ids ids && (0 <? snd total_price)); cbn [negb] in H; [|discriminate].
  destruct (validate_buyer_flat (c_buyer_flat cfg) fees); cbn [negb] in H; [|discriminate].
  inv_bind H. rename x into asks. rename Hx into Ga.
  destruct (coins_eqb (sum_price asks) [total_price]) eqn:Etp; cbn [negb] in H; [|discriminate].
  apply coins_eqb_eq in Etp.
  inv_bind H. rename x into full. inv_bind H. rename x into ins. inv_bind H. rename x into outs.
  inv_bind H. rename x into fi.
  destruct (get_orders_spec _ _ _ _ _ Ga) as [Ia Fa].
  pose proof (ask_fills_spec _ _ _ Hx) as Hfull.
  assert (Emap : map fo_order full = asks) by (apply (Forall2_map_l _ _ _ _ Hfull); intros a b (E & _); exact E).
  assert (Hask : forall o, In o asks -> o_ask o = true /\ sorted (o_fees o)).
  { intros o Ho. rewrite Forall_forall in Fa. destruct (Fa o Ho) as (Hin & Hk & _). split; [exact Hk|].
    unfold store_ok in Hok. rewrite Forall_forall in Hok. apply Hok, Hin. }
  assert (Hf : forall f, In f full -> o_ask (fo_order f) = true /\ sorted (o_fees (fo_order f)) /\
                                      fo_price f = o_price (fo_order f) /\ sorted (fo_fees f)).
  { clear - Hfull Hask. induction Hfull as [|o f l l' (E1 & E2 & rfee & E3 & E4) _ IH]; intros g Hg; [destruct Hg|].
    destruct Hg as [<-|Hg].
    - destruct (Hask o (or_introl eq_refl)) as [K S]. rewrite E1, E2, E4. repeat split; try assumption.
      apply (coins_add_spec rfee _ S).
    - apply IH; [|exact Hg]. intros o' Ho'. apply Hask. right; exact Ho'. }
  destruct (fold_idx_add_spec o_owner (fun o => [(o_ad o, o_assets o)]) asks [] (Forall_nil _))
    as (Sa & Aa & _); [apply Forall_forall; intros; apply sorted_one|].
  destruct (fold_idx_add_spec o_owner (fun o => [(o_pd o, o_price o)]) asks [] (Forall_nil _))
    as (Sp & Ap & _); [apply Forall_forall; intros; apply sorted_one|].
  destruct (fold_idx_add_spec (fun f => o_owner (fo_order f)) fo_fees full [] (Forall_nil _))
    as (Sf & Af & Tf); [apply Forall_forall; intros f Hf'; apply (Hf f Hf')|].
  cbn zeta in Sa, Aa, Sp, Ap, Sf, Af, Tf.
  apply idx_get_ok in Hx0, Hx1. subst outs ins.
  destruct (fi_of_idx _ _ Hx2) as [-> Hfpos].
  destruct (fold_add1_spec o_ad o_assets asks [] sorted_nil) as [Ssa Asa]. fold (sum_assets asks) in Ssa, Asa.
  destruct (idx_add_spec _ buyer fees Sf Sfees) as [Sfi Tfi].
  pose proof (idx_add_at _ buyer fees Sf Sfees) as Afi.
  match type of H with close _ _ ?s0 = _ => set (s := s0) in * end.
  assert (Hts : Forall transfer_sorted (s_transfers s)).
  { unfold s. cbn [s_transfers]. constructor; [|constructor; [|constructor]]; split; cbn [t_in t_out].
    - exact Sa.
    - apply one_sorted, Ssa.
    - apply one_sorted. destruct total_price. apply sorted_one.
    - exact Sp. }
  assert (Efills : fills_of s = full) by (unfold fills_of; cbn; apply app_nil_r).
  assert (Hsfo : Forall (fun f => sorted (o_fees (fo_order f))) (fills_of s)).
  { rewrite Efills. apply Forall_forall. intros f Hf'. apply (Hf f Hf'). }
  destruct (close_refine _ _ _ _ H Hts Sfi Hfpos Hsfo) as (Hbal & Hhold & Hord).
  exists asks, full. split; [exact Ga|]. split; [exact Etp|]. split; [exact Hfull|]. cbn zeta.
  split; [|split; [|split; [|split]]].
  - intros x d. rewrite (Hbal x d). cbn zeta. cbn [s_transfers s_fee_inputs s].
    unfold spec_delta, exchange_share, fees_total, transfers_net. rewrite !sumz_cons, sumz_nil.
    unfold transfer_net. cbn [t_in t_out p_fees p_addr]. rewrite Afi, Tfi, Aa, Ap, Af, Tf.
    rewrite !sumz_map. unfold party_delta at 1. cbn [p_addr p_gets p_gives p_fees].
    rewrite !idx_at_one, Asa, (raw_sum_sorted _ Sfees). change (idx_at [] x d) with 0.
    change (idx_amount [] d) with 0. rewrite <- Emap, !sumz_map.
    rewrite (sumz_ext (fun f => party_delta (party_of_fill f) x d)
               (fun f => (if Pos.eqb x (o_owner (fo_order f)) then at_d d (o_pd (fo_order f)) (o_price (fo_order f)) else 0)
                         - (if Pos.eqb x (o_owner (fo_order f)) then at_d d (o_ad (fo_order f)) (o_assets (fo_order f)) else 0)
                         - (if Pos.eqb x (o_owner (fo_order f)) then amount_of (fo_fees f) d else 0)) full).
    2:{ intros f Hf'. destruct (Hf f Hf') as (Hk & _ & Hp & _). unfold party_delta, party_of_fill, at_d.
        rewrite Hk, Hp. cbn [p_addr p_gets p_gives p_fees amount_of].
        destruct (Pos.eqb x (o_owner (fo_order f))); lia. }
    rewrite !sumz_minus.
    rewrite (sumz_ext (fun f => amount_of (p_fees (party_of_fill f)) d) (fun f => amount_of (fo_fees f) d) full).
    2:{ intros f Hf'. destruct (Hf f Hf') as (Hk & _). unfold party_of_fill. rewrite Hk. reflexivity. }
    unfold at_d. cbn [amount_of].
    set (SF := sumz (fun f : filled => amount_of (fo_fees f) d) full).
    replace (0 + SF + amount_of fees d) with (amount_of fees d + SF) by lia.
    destruct total_price as [tpd tpa]. cbn [amount_of].
    destruct (Pos.eqb x buyer), (Pos.eqb x (c_market cfg)), (Pos.eqb x (c_feecol cfg)); lia.
  - intros x d. rewrite (Hhold x d), Efills. reflexivity.
  - intros id. rewrite (Hord id). reflexivity.
  - intros d. apply (close_total _ _ _ _ _ H).
  - apply (close_orders_ok _ _ _ _ H Hok). exact I.
Qed.
