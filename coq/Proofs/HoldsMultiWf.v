(** Property C02, the two operations whose [reserved_delta] needs well-formed stores
    (RejectPayments over several sources, CloseMarket), and the exact acceptance condition of a
    cancellation under [wf] + [cover].
    Self-contained: the few facts shared with Proofs/HoldsMulti.v are proved here as private
    copies (names with a trailing '), so this file depends on HoldsProofs and HoldsWf only. *)
From Coq Require Import ZArith List Bool Lia ZifyBool.
From PV Require Import Exchange.Holds Proofs.HoldsProofs Proofs.HoldsWf.
Import ListNotations. Open Scope Z_scope.
Ltac Zify.zify_post_hook ::= Z.div_mod_to_equations.

(** * First-match association lists. *)
Section AListMore'.
  Context {K V : Type}.
  Variable eqb : K -> K -> bool.
  Hypothesis eqb_spec : forall x y, reflect (x = y) (eqb x y).

  Lemma afind_adel_other' k k' (l : list (K * V)) :
    k' <> k -> afind eqb k' (adel eqb k l) = afind eqb k' l.
  Proof.
    intros Hne. induction l as [|[k0 v0] r IH]; cbn [adel afind]; [reflexivity|].
    destruct (eqb_spec k k0) as [E|E]; cbn [afind].
    - subst k0. destruct (eqb_spec k' k) as [E'|E']; [congruence | reflexivity].
    - rewrite IH. reflexivity.
  Qed.

  Lemma afind_aset_other' k k' v (l : list (K * V)) :
    k' <> k -> afind eqb k' (aset eqb k v l) = afind eqb k' l.
  Proof.
    intros Hne. rewrite (afind_aset eqb eqb_spec).
    destruct (eqb_spec k' k) as [E|E]; [congruence | reflexivity].
  Qed.

  (** Deleting a key does not change a filter that rejects every entry with that key. *)
  Lemma filter_adel (Q : K * V -> bool) k (l : list (K * V)) :
    (forall e, In e l -> fst e = k -> Q e = false) -> filter Q (adel eqb k l) = filter Q l.
  Proof.
    induction l as [|[k0 v0] r IH]; cbn [adel filter]; intros H; [reflexivity|].
    destruct (eqb_spec k k0) as [E|E].
    - subst k0. rewrite (H (k, v0) (or_introl eq_refl) eq_refl). reflexivity.
    - cbn [filter]. rewrite IH; [reflexivity|]. intros e He. apply H. right. exact He.
  Qed.

  Lemma filter_fold_adel (Q : K * V -> bool) ks : forall l : list (K * V),
    (forall e, In e l -> In (fst e) ks -> Q e = false) ->
    filter Q (fold_left (fun l k => adel eqb k l) ks l) = filter Q l.
  Proof.
    induction ks as [|k r IH]; intros l H; cbn [fold_left]; [reflexivity|].
    rewrite IH.
    - apply filter_adel. intros e He Ek. apply H; [exact He | left; symmetry; exact Ek].
    - intros e He Hk. apply H; [exact (in_adel eqb eqb_spec k l e He) | right; exact Hk].
  Qed.

  Lemma nodup_fold_adel ks : forall l : list (K * V),
    NoDup (map fst l) -> NoDup (map fst (fold_left (fun l k => adel eqb k l) ks l)).
  Proof.
    induction ks as [|k r IH]; intros l H; cbn [fold_left]; [exact H|].
    apply IH. apply (nodup_adel eqb eqb_spec). exact H.
  Qed.

  (** Over a KV store, summing the stored items of the keys of a sub-list is summing the sub-list. *)
  Lemma sum_keys (f : K * V -> Z) (l F : list (K * V)) :
    NoDup (map fst l) -> (forall e, In e F -> In e l) ->
    sum_by (fun k => match afind eqb k l with Some v => f (k, v) | None => 0 end) (map fst F) =
    sum_by f F.
  Proof.
    intros Hnd. induction F as [|[k v] r IH]; intros H; cbn [map]; [reflexivity|].
    rewrite !sum_by_cons. cbn [fst].
    rewrite (In_afind eqb eqb_spec k l v Hnd (H _ (or_introl eq_refl))).
    rewrite IH; [reflexivity|]. intros e He. apply H. right. exact He.
  Qed.
End AListMore'.

(** * Sums and lists. *)
Lemma sum_by_ext' {X} (f g : X -> Z) l : (forall x, In x l -> f x = g x) -> sum_by f l = sum_by g l.
Proof.
  induction l as [|x r IH]; intros H; [reflexivity|].
  rewrite !sum_by_cons, (H x (or_introl eq_refl)), IH; [reflexivity|].
  intros y Hy. apply H. right. exact Hy.
Qed.

Lemma sum_by_map' {X Y} (g : X -> Y) (f : Y -> Z) l : sum_by f (map g l) = sum_by (fun x => f (g x)) l.
Proof.
  induction l as [|x r IH]; cbn [map]; [reflexivity|].
  rewrite !sum_by_cons, IH. reflexivity.
Qed.

Lemma existsb_eqb_in' x l : existsb (Z.eqb x) l = true <-> In x l.
Proof.
  rewrite existsb_exists. split.
  - intros (y & Hy & E). apply Z.eqb_eq in E. subst y. exact Hy.
  - intros H. exists x. split; [exact H | apply Z.eqb_refl].
Qed.

Lemma dedupe_spec' : forall l seen,
  NoDup (dedupe l seen) /\ forall x, In x (dedupe l seen) -> ~ In x seen.
Proof.
  induction l as [|x r IH]; intros seen; cbn [dedupe].
  - split; [constructor | intros y []].
  - destruct (existsb (Z.eqb x) seen) eqn:E.
    + apply IH.
    + destruct (IH (x :: seen)) as [N D]. split.
      * constructor; [|exact N]. intros Hin. apply (D x Hin). left. reflexivity.
      * intros y [<-|Hy].
        -- intros Hin. apply existsb_eqb_in' in Hin. congruence.
        -- intros Hin. apply (D y Hy). right. exact Hin.
Qed.

Lemma dedupe_NoDup' l : NoDup (dedupe l []).
Proof. exact (proj1 (dedupe_spec' l [])). Qed.

Lemma cget_cset_other' k k' v l : k' <> k -> cget k' (cset k v l) = cget k' l.
Proof.
  intros H. unfold cget, cset. destruct (coins_is_zero v).
  - rewrite (afind_adel_other' k2_eqb k2_eqb_spec) by exact H. reflexivity.
  - rewrite (afind_aset_other' k2_eqb k2_eqb_spec) by exact H. reflexivity.
Qed.

Lemma eff_cover s s' h : eff s s' h -> cover s -> cover s'.
Proof.
  intros (Hh & Hr & _) C a d. rewrite Hh, Hr. specialize (C a d). lia.
Qed.

(** * Cancelling a duplicate-free list of orders. *)
Lemma cancel_order_recs' id s s' :
  cancel_order id s = Some s' ->
  orders s' = adel Z.eqb id (orders s) /\ commits s' = commits s /\ pays s' = pays s.
Proof.
  unfold cancel_order.
  destruct (afind Z.eqb id (orders s)) as [o|]; cbn [obind]; [|discriminate].
  destruct (release_hold s (o_owner o) (order_hold o)) as [s1|] eqn:Er; cbn [obind]; [|discriminate].
  intros H. injection H as <-. apply release_hold_spec in Er.
  destruct Er as ((Ho & _ & Hc & Hp) & _).
  cbn [orders commits pays set_orders]. rewrite Ho. auto.
Qed.

Lemma cancel_list_delta' : forall ids s s',
  NoDup ids -> fold_opt cancel_order ids s = Some s' ->
  (forall a d, hold_of s' a d = hold_of s a d - sum_by (fun id => order_req_of s id a d) ids) /\
  (forall id', ~ In id' ids -> afind Z.eqb id' (orders s') = afind Z.eqb id' (orders s)) /\
  commits s' = commits s /\ pays s' = pays s.
Proof.
  induction ids as [|id r IH]; intros s s' Hnd H; cbn [fold_opt] in H.
  - injection H as <-. repeat split. intros a d. unfold sum_by. cbn [fold_right]. lia.
  - destruct (cancel_order id s) as [s1|] eqn:E; cbn [obind] in H; [|discriminate].
    apply NoDup_cons_iff in Hnd. destruct Hnd as [Hnin Hnd].
    destruct (IH s1 s' Hnd H) as (Hh & Ho & Hc & Hp).
    destruct (cancel_order_recs' _ _ _ E) as (Ro & Rc & Rp).
    destruct (cancel_order_eff _ _ _ E) as (Eh & _).
    assert (Hother : forall id', id' <> id ->
                                 afind Z.eqb id' (orders s1) = afind Z.eqb id' (orders s)).
    { intros id' Hne. rewrite Ro. apply (afind_adel_other' Z.eqb Z.eqb_spec). exact Hne. }
    split; [|split; [|split]].
    + intros a d. rewrite Hh, Eh, sum_by_cons.
      rewrite (sum_by_ext' (fun id0 => order_req_of s1 id0 a d) (fun id0 => order_req_of s id0 a d)).
      * lia.
      * intros x Hx. unfold order_req_of. rewrite Hother; [reflexivity|].
        intros ->. exact (Hnin Hx).
    + intros id' Hnin'. rewrite Ho by (intros Hin; apply Hnin'; right; exact Hin).
      apply Hother. intros ->. apply Hnin'. left. reflexivity.
    + congruence.
    + congruence.
Qed.

(** * Deleting a duplicate-free list of payment keys. *)
Lemma delete_release_recs' k s s' :
  delete_release k s = Some s' ->
  pays s' = adel k2_eqb k (pays s) /\ orders s' = orders s /\ commits s' = commits s.
Proof.
  unfold delete_release.
  destruct (afind k2_eqb k (pays s)) as [p|]; cbn [obind]; [|discriminate].
  destruct (release_hold s (fst k) (p_samt p)) as [s1|] eqn:Er; cbn [obind]; [|discriminate].
  intros H. injection H as <-. apply release_hold_spec in Er.
  destruct Er as ((Ho & _ & Hc & Hp) & _).
  cbn [orders commits pays set_pays]. rewrite Hp. auto.
Qed.

Lemma del_keys_delta' : forall ks s s',
  NoDup ks -> fold_opt delete_release ks s = Some s' ->
  (forall a d, hold_of s' a d = hold_of s a d - sum_by (fun k => pay_req_of s k a d) ks) /\
  pays s' = fold_left (fun l k => adel k2_eqb k l) ks (pays s) /\
  orders s' = orders s /\ commits s' = commits s.
Proof.
  induction ks as [|k r IH]; intros s s' Hnd H; cbn [fold_opt] in H.
  - injection H as <-. repeat split. intros a d. unfold sum_by. cbn [fold_right]. lia.
  - destruct (delete_release k s) as [s1|] eqn:E; cbn [obind] in H; [|discriminate].
    apply NoDup_cons_iff in Hnd. destruct Hnd as [Hnin Hnd].
    destruct (IH s1 s' Hnd H) as (Hh & Hp & Ho & Hc).
    destruct (delete_release_recs' _ _ _ E) as (Rp & Ro & Rc).
    destruct (delete_release_eff _ _ _ E) as (Eh & _).
    split; [|split; [|split]].
    + intros a d. rewrite Hh, Eh, sum_by_cons.
      rewrite (sum_by_ext' (fun k0 => pay_req_of s1 k0 a d) (fun k0 => pay_req_of s k0 a d)).
      * lia.
      * intros x Hx. unfold pay_req_of. rewrite Rp.
        rewrite (afind_adel_other' k2_eqb k2_eqb_spec); [reflexivity|].
        intros ->. exact (Hnin Hx).
    + cbn [fold_left]. rewrite Hp, Rp. reflexivity.
    + congruence.
    + congruence.
Qed.

(** * RejectPayments over several sources. *)
Lemma pays_from_to_in t x l e : In e (pays_from_to t x l) -> In e l /\ fst (fst e) = x.
Proof.
  unfold pays_from_to. intros H. apply filter_In in H. destruct H as [H1 H2].
  apply andb_prop in H2. destruct H2 as [H2 _]. apply Z.eqb_eq in H2. split; [exact H1 | exact H2].
Qed.

Lemma reject_source_spec t x s s1 :
  NoDup (map fst (pays s)) -> pay_reject_source t x s = Some s1 ->
  (forall a d, hold_of s1 a d = hold_of s a d - sum_by (pay_req a d) (pays_from_to t x (pays s))) /\
  NoDup (map fst (pays s1)) /\
  (forall src, src <> x -> pays_from_to t src (pays s1) = pays_from_to t src (pays s)).
Proof.
  intros Hnd H.
  assert (H' : fold_opt delete_release (map fst (pays_from_to t x (pays s))) s = Some s1).
  { unfold pay_reject_source in H. cbv zeta in H.
    destruct (map fst (pays_from_to t x (pays s))); [discriminate | exact H]. }
  clear H.
  apply del_keys_delta' in H'; [|apply nodup_filter_fst, Hnd].
  destruct H' as (Hh & Hp & _ & _).
  split; [|split].
  - intros a d. rewrite Hh. f_equal. unfold pay_req_of.
    apply (sum_keys k2_eqb k2_eqb_spec (pay_req a d)); [exact Hnd|].
    intros e He. apply (pays_from_to_in t x _ e He).
  - rewrite Hp. apply (nodup_fold_adel k2_eqb k2_eqb_spec). exact Hnd.
  - intros src Hne. rewrite Hp. unfold pays_from_to at 1 3.
    apply (filter_fold_adel k2_eqb k2_eqb_spec). intros e He Hk.
    apply in_map_iff in Hk. destruct Hk as (e' & Ee & He').
    apply pays_from_to_in in He'. destruct He' as [_ Hx].
    rewrite Ee in Hx. cbn beta.
    apply andb_false_intro1. apply Z.eqb_neq. intros E. apply Hne.
    rewrite <- Hx. symmetry. exact E.
Qed.

Lemma reject_sources_delta t a d : forall L s s',
  NoDup L -> NoDup (map fst (pays s)) -> fold_opt (pay_reject_source t) L s = Some s' ->
  hold_of s' a d =
  hold_of s a d - sum_by (fun src => sum_by (pay_req a d) (pays_from_to t src (pays s))) L.
Proof.
  induction L as [|x r IH]; intros s s' HL Hnd H; cbn [fold_opt] in H.
  - injection H as <-. unfold sum_by. cbn [fold_right]. lia.
  - destruct (pay_reject_source t x s) as [s1|] eqn:E; cbn [obind] in H; [|discriminate].
    apply NoDup_cons_iff in HL. destruct HL as [Hnin HL].
    destruct (reject_source_spec t x s s1 Hnd E) as (Hh & Hnd1 & Hoth).
    rewrite (IH s1 s' HL Hnd1 H), Hh, sum_by_cons.
    rewrite (sum_by_ext' (fun src => sum_by (pay_req a d) (pays_from_to t src (pays s1)))
                         (fun src => sum_by (pay_req a d) (pays_from_to t src (pays s)))).
    + lia.
    + intros src Hsrc. cbn beta. rewrite Hoth; [reflexivity|]. intros ->. exact (Hnin Hsrc).
Qed.

Lemma pay_reject_all_delta t srcs s s' a d :
  NoDup (map fst (pays s)) -> pay_reject_all t srcs s = Some s' ->
  hold_of s' a d - hold_of s a d =
  - sum_by (fun src => sum_by (pay_req a d) (pays_from_to t src (pays s))) (dedupe srcs []).
Proof.
  intros Hnd H. unfold pay_reject_all in H. destruct (t =? 0); [discriminate|].
  assert (H' : fold_opt (pay_reject_source t) (dedupe srcs []) s = Some s').
  { destruct srcs; [discriminate | exact H]. }
  rewrite (reject_sources_delta t a d _ s s' (dedupe_NoDup' srcs) Hnd H'). lia.
Qed.

(** * Under [wf] + [cover] a cancellation / a release of a whole commitment cannot fail. *)
Lemma cancel_succeeds id o s :
  wf s -> cover s -> afind Z.eqb id (orders s) = Some o -> exists s', cancel_order id s = Some s'.
Proof.
  intros W C E.
  destruct (release_hold_succeeds (order_hold o) s (o_owner o)) as [s1 Hs1].
  - eapply order_nonneg; eassumption.
  - intros d. pose proof (order_le_required s id o d W E). pose proof (C (o_owner o) d). lia.
  - unfold cancel_order. rewrite E. cbn [obind]. rewrite Hs1. cbn [obind]. eexists. reflexivity.
Qed.

Lemma skip_cancel_fold : forall ids s s1,
  NoDup ids -> wf s -> cover s ->
  (forall id, In id ids -> exists o, afind Z.eqb id (orders s) = Some o) ->
  fold_opt (fun id => try_or_skip (cancel_order id)) ids s = Some s1 ->
  fold_opt cancel_order ids s = Some s1 /\ wf s1 /\ cover s1.
Proof.
  induction ids as [|id r IH]; intros s s1 Hnd W C Hex H; cbn [fold_opt] in H |- *.
  - injection H as <-. auto.
  - apply NoDup_cons_iff in Hnd. destruct Hnd as [Hnin Hnd].
    destruct (Hex id (or_introl eq_refl)) as [o Ef].
    destruct (cancel_succeeds id o s W C Ef) as [s2 E2].
    unfold try_or_skip in H at 1. rewrite E2 in H |- *. cbn [obind] in H |- *.
    apply (IH s2 s1 Hnd); [eapply cancel_order_wf; eassumption | | | exact H].
    + eapply eff_cover; [eapply cancel_order_eff; exact E2 | exact C].
    + intros id' Hin. destruct (Hex id' (or_intror Hin)) as [o' Ef'].
      exists o'. destruct (cancel_order_recs' _ _ _ E2) as (Ro & _). rewrite Ro.
      rewrite (afind_adel_other' Z.eqb Z.eqb_spec); [exact Ef'|].
      intros ->. exact (Hnin Hin).
Qed.

Lemma release_all_spec m x s :
  wf s -> cover s ->
  (coins_is_zero (cget (m, x) (commits s)) = true /\ release_commitment m (x, []) s = None) \/
  (exists s2, release_commitment m (x, []) s = Some s2 /\
              commits s2 = cset (m, x) [] (commits s) /\
              eff s s2 (fun a d => if x =? a then - amt_of (cget (m, x) (commits s)) d else 0)).
Proof.
  intros W C.
  destruct (coins_is_zero (cget (m, x) (commits s))) eqn:Ez.
  - left. split; [reflexivity|]. unfold release_commitment, release_split. cbn [fst snd].
    rewrite Ez. reflexivity.
  - right.
    assert (Esp : release_split (cget (m, x) (commits s)) [] = Some ([], cget (m, x) (commits s))).
    { unfold release_split. rewrite Ez. reflexivity. }
    destruct (release_hold_succeeds (cget (m, x) (commits s)) s x) as [s1 Hs1].
    + apply (cget_ok s (m, x) W).
    + intros d. pose proof (commit_le_required s m x d W). pose proof (C x d). lia.
    + assert (E : release_commitment m (x, []) s =
                  Some (set_commits s1 (cset (m, x) [] (commits s1)))).
      { unfold release_commitment. cbn [fst snd]. rewrite Esp. cbn [obind fst snd].
        rewrite Hs1. reflexivity. }
      eexists. split; [exact E|]. split.
      * cbn [commits set_commits]. apply release_hold_spec in Hs1.
        destruct Hs1 as ((_ & _ & Hc & _) & _). rewrite Hc. reflexivity.
      * destruct (release_commitment_eff _ _ _ _ _ E) as (nr & Enr & Heff).
        rewrite Esp in Enr. injection Enr as <-. exact Heff.
Qed.

Lemma release_all_fold m a d : forall L s s',
  NoDup L -> wf s -> cover s ->
  fold_opt (fun x => try_or_skip (release_commitment m (x, []))) L s = Some s' ->
  hold_of s' a d =
  hold_of s a d - sum_by (fun x => if x =? a then amt_of (cget (m, x) (commits s)) d else 0) L.
Proof.
  induction L as [|x r IH]; intros s s' HL W C H; cbn [fold_opt] in H.
  - injection H as <-. unfold sum_by. cbn [fold_right]. lia.
  - apply NoDup_cons_iff in HL. destruct HL as [Hnin HL].
    rewrite sum_by_cons. unfold try_or_skip in H at 1.
    destruct (release_all_spec m x s W C) as [(Ez & En)|(s2 & E2 & Hc & Heff)].
    + rewrite En in H. cbn [obind] in H.
      rewrite (IH s s' HL W C H), (amt_of_zero _ d Ez). destruct (x =? a); lia.
    + rewrite E2 in H. cbn [obind] in H.
      pose proof (release_commitment_wf _ _ _ _ E2 W) as W2.
      pose proof (eff_cover _ _ _ Heff C) as C2.
      rewrite (IH s2 s' HL W2 C2 H). destruct Heff as (Hh & _). rewrite Hh.
      rewrite (sum_by_ext' (fun y => if y =? a then amt_of (cget (m, y) (commits s2)) d else 0)
                           (fun y => if y =? a then amt_of (cget (m, y) (commits s)) d else 0)).
      * destruct (x =? a); lia.
      * intros y Hy. cbn beta. rewrite Hc, cget_cset_other'; [reflexivity|].
        intros Ek. injection Ek as ->. exact (Hnin Hy).
Qed.

Lemma nodup_accts m (l : list (key2 * coins)) :
  NoDup (map fst l) -> (forall e, In e l -> fst (fst e) = m) ->
  NoDup (map (fun e => snd (fst e)) l).
Proof.
  induction l as [|e r IH]; cbn [map]; intros Hnd Hm; [constructor|].
  apply NoDup_cons_iff in Hnd. destruct Hnd as [Hnin Hnd].
  constructor; [|apply IH; [exact Hnd | intros e' He'; apply Hm; right; exact He']].
  intros Hin. apply in_map_iff in Hin. destruct Hin as (e' & Ee & He').
  apply Hnin. apply in_map_iff. exists e'. split; [|exact He'].
  pose proof (Hm e (or_introl eq_refl)) as M1. pose proof (Hm e' (or_intror He')) as M2.
  destruct e as [[m1 a1] v1], e' as [[m2 a2] v2]. cbn [fst snd] in *. congruence.
Qed.

Lemma close_market_delta m s s' a d :
  wf s -> cover s -> close_market m s = Some s' ->
  hold_of s' a d - hold_of s a d =
  - sum_by (order_req a d) (market_orders m (orders s)) - sum_by (commit_req a d) (market_commits m (commits s)).
Proof.
  intros W C H. unfold close_market in H.
  destruct (fold_opt (fun id => try_or_skip (cancel_order id)) (map fst (market_orders m (orders s))) s)
    as [s1|] eqn:E1; cbn [obind] in H; [|discriminate].
  pose proof W as ((K1 & K2 & K3) & _).
  assert (Hids : NoDup (map fst (market_orders m (orders s)))).
  { unfold market_orders. apply nodup_filter_fst, K1. }
  apply skip_cancel_fold in E1; [|exact Hids|exact W|exact C|].
  2:{ intros id Hin. apply in_map_iff in Hin. destruct Hin as ([id' o] & <- & He).
      unfold market_orders in He. apply filter_In in He. destruct He as [He _].
      exists o. cbn [fst]. apply (In_afind Z.eqb Z.eqb_spec); assumption. }
  destruct E1 as (E1 & W1 & C1).
  apply cancel_list_delta' in E1; [|exact Hids]. destruct E1 as (Hh1 & _ & Hc1 & _).
  rewrite Hc1 in H.
  assert (Hacc : NoDup (map (fun e : key2 * coins => snd (fst e)) (market_commits m (commits s)))).
  { apply (nodup_accts m).
    - unfold market_commits. apply nodup_filter_fst, K2.
    - intros e He. unfold market_commits in He. apply filter_In in He. destruct He as [_ He].
      apply Z.eqb_eq in He. exact He. }
  rewrite (release_all_fold m a d _ s1 s' Hacc W1 C1 H), Hh1.
  assert (S1 : sum_by (fun id => order_req_of s id a d) (map fst (market_orders m (orders s))) =
               sum_by (order_req a d) (market_orders m (orders s))).
  { unfold order_req_of. apply (sum_keys Z.eqb Z.eqb_spec (order_req a d)); [exact K1|].
    intros e He. unfold market_orders in He. apply filter_In in He. apply He. }
  assert (S2 : sum_by (fun x => if x =? a then amt_of (cget (m, x) (commits s1)) d else 0)
                      (map (fun e : key2 * coins => snd (fst e)) (market_commits m (commits s))) =
               sum_by (commit_req a d) (market_commits m (commits s))).
  { rewrite sum_by_map'. apply sum_by_ext'. intros e He. cbn beta.
    unfold market_commits in He. apply filter_In in He. destruct He as [He Hm].
    destruct e as [[m' x] v]. cbn [fst snd] in Hm |- *.
    assert (m' = m) by lia. subst m'.
    unfold commit_req. cbn [fst snd]. rewrite Hc1. unfold cget.
    rewrite (In_afind k2_eqb k2_eqb_spec (m, x) (commits s) v K2 He). reflexivity. }
  rewrite S1, S2. lia.
Qed.

(** * A cancellation is accepted exactly when the order exists and the signer may cancel it. *)
Lemma cancel_accept_iff signer priv id s :
  wf s -> cover s ->
  ((exists s', cancel_order_by signer priv id s = Some s') <->
   exists o, afind Z.eqb id (orders s) = Some o /\ (signer = o_owner o \/ priv = true)).
Proof.
  intros W C. unfold cancel_order_by. split.
  - intros (s' & H).
    destruct (afind Z.eqb id (orders s)) as [o|] eqn:Ef; cbn [obind] in H; [|discriminate].
    exists o. split; [reflexivity|].
    destruct ((signer =? o_owner o) || priv) eqn:Eb; [|discriminate].
    apply orb_prop in Eb. destruct Eb as [Eb|Eb]; [left; lia | right; exact Eb].
  - intros (o & Ef & Hp). rewrite Ef. cbn [obind].
    assert (Eb : (signer =? o_owner o) || priv = true).
    { destruct Hp as [->| ->]; [rewrite Z.eqb_refl; reflexivity | apply orb_true_r]. }
    rewrite Eb. exact (cancel_succeeds id o s W C Ef).
Qed.
