(** C01: the shape of what BuildSettlement returns, phase by phase.

    [build_shape] opens an accepted [build] into its final ask / bid fulfillments [A], [B] and
    states everything later proofs need about them: which orders they are for (the input orders,
    the last ask or last bid possibly replaced by the filled part of [Order.Split]), the sums
    that link the two sides (Proofs/FulfillSteps.v), what was validated, which transfers and fee
    inputs were built from them, and which filled orders are reported. *)
From Coq Require Import ZArith List Bool Lia ZifyBool PArith.
From PV Require Import Exchange.Arith Exchange.Split Exchange.Fulfill Exchange.SettleSpec
  Proofs.ArithProofs Proofs.SplitProofs Proofs.FulfillProofs Proofs.FulfillSteps.
Import ListNotations.
Open Scope Z_scope.

(** ** Small list facts *)
Lemma map_eq_app_last {A B} (g : A -> B) l pre x :
  map g l = pre ++ [x] -> exists l0 y, l = l0 ++ [y] /\ map g l0 = pre /\ g y = x.
Proof.
  revert pre. induction l as [|a r IH]; intros pre H; cbn [map] in H.
  - destruct pre; discriminate.
  - destruct pre as [|p pre]; cbn [app] in H.
    + destruct r; [|discriminate]. inversion H; subst. exists [], a. repeat split.
    + inversion H; subst. destruct (IH _ H2) as (l0 & y & -> & E1 & E2).
      exists (a :: l0), y. cbn. rewrite E1. repeat split; assumption.
Qed.

Lemma sumz_snoc_mid {A} (g : A -> Z) l1 x l2 : sumz g (l1 ++ x :: l2) = sumz g ((l1 ++ l2) ++ [x]).
Proof. rewrite !sumz_app, !sumz_cons, sumz_nil. lia. Qed.

(** ** Order.Split keeps the fee coins sorted *)
Lemma ask_fee_sorted c : sorted c -> sorted (ask_fee c).
Proof. destruct c as [|[d a] r]; intros H; [constructor|apply sorted_one]. Qed.

Lemma split_sorted o k f u :
  sorted (o_fees o) -> split o k = Ok (f, u) -> sorted (o_fees f) /\ sorted (o_fees u).
Proof.
  intros Hs H. unfold split in H.
  destruct (Z.leb_spec k 0); [discriminate|]. destruct (k =? o_assets o) eqn:Ek; [discriminate|].
  destruct (Z.ltb_spec (o_assets o) k); [discriminate|]. destruct (negb (o_partial o)); [discriminate|].
  inv_bind H. unfold quo_rem in H. destruct (negb (Z.rem x (o_assets o) =? 0)); [discriminate|].
  inv_bind H. destruct x0 as [ff fu]. inversion H; subst; clear H. cbn [o_fees with_amounts].
  assert (Hff : sorted ff /\ sorted fu).
  { destruct (coins_is_zero (o_fees o)).
    - inversion Hx0; subst. split; constructor.
    - inv_bind Hx0. destruct (coins_any_neg (coins_sub (o_fees o) x0)); [discriminate|].
      inversion Hx0; subst; clear Hx0.
      assert (Hnz : o_assets o <> 0) by lia.
      destruct (split_fees_spec _ _ _ _ _ sorted_nil Hnz Hx1) as [Hs1 _]. split; [assumption|].
      unfold coins_sub. apply (coins_add_spec (coins_neg ff) _ Hs). }
  destruct Hff as [Hf1 Hf2]. destruct (o_ask o); split; auto using ask_fee_sorted.
Qed.

(** ** validateCanSettle: one side, one asset denom, one price denom *)
Definition side_ok (ask : bool) (AD PD : denom) (o : order) : Prop :=
  o_ask o = ask /\ o_ad o = AD /\ o_pd o = PD.

Lemma all_eq_hd l : all_eq l = true -> Forall (fun d => d = hd_denom l) l.
Proof.
  destruct l as [|d r]; cbn; [discriminate|]. intros H. constructor; [reflexivity|].
  rewrite forallb_forall in H. apply Forall_forall. intros y Hy. symmetry. apply Pos.eqb_eq, H, Hy.
Qed.

Lemma validate_can_settle_sides asks bids :
  validate_can_settle asks bids = true ->
  exists AD PD, Forall (side_ok true AD PD) asks /\ Forall (side_ok false AD PD) bids.
Proof.
  unfold validate_can_settle. destruct asks as [|a ar]; [discriminate|]. destruct bids as [|b br]; [discriminate|].
  set (asks := a :: ar). set (bids := b :: br). intros H.
  do 7 (apply andb_prop in H; destruct H as [H ?]).
  apply Pos.eqb_eq in H0, H1.
  apply all_eq_hd in H2, H3, H4, H5.
  rewrite forallb_forall in H, H6.
  exists (hd_denom (map o_ad asks)), (hd_denom (map o_pd asks)). split; apply Forall_forall; intros o Ho.
  - rewrite Forall_forall in H4, H5. repeat split.
    + apply H, Ho.
    + apply H5, in_map, Ho.
    + apply H4, in_map, Ho.
  - rewrite Forall_forall in H2, H3. repeat split.
    + specialize (H6 _ Ho). destruct (o_ask o); [discriminate|reflexivity].
    + rewrite H1. apply H3, in_map, Ho.
    + rewrite H0. apply H2, in_map, Ho.
Qed.

(** ** splitPartial, with every field of the split fulfillment *)
Definition splitted (f : ofl) (fil : order) : ofl :=
  {| f_order := fil; f_adists := f_adists f; f_pdists := f_pdists f;
     f_afilled := f_afilled f; f_aunfilled := 0;
     f_papplied := f_papplied f; f_pleft := o_price fil - f_papplied f; f_fees := f_fees f |}.

Lemma split_fs_full fs : forall lft fs' lft',
  split_fs fs lft = Ok (fs', lft') ->
  (lft' = lft /\ fs' = fs) \/
  (lft = None /\ exists pre f fil unf,
     fs = pre ++ [f] /\ fs' = pre ++ [splitted f fil] /\ lft' = Some unf /\
     split (f_order f) (f_afilled f) = Ok (fil, unf)).
Proof.
  induction fs as [|f r IH]; intros lft fs' lft' H; cbn [split_fs] in H.
  - inversion H; subst. left; split; reflexivity.
  - destruct (f_afilled f =? 0); [discriminate|].
    destruct (f_aunfilled f =? 0); cbn [negb] in H.
    + inv_bind H. destruct x as [r' l']. inversion H; subst.
      destruct (IH _ _ _ Hx) as [[-> ->]|(-> & pre & f0 & fil & unf & -> & -> & -> & Hs)]; [left; split; reflexivity|].
      right; split; [reflexivity|]. exists (f :: pre), f0, fil, unf. repeat split; assumption.
    + destruct r; [|discriminate]. destruct lft; [discriminate|].
      inv_bind H. destruct x as [f' unf]. inversion H; subst.
      unfold split_ofl in Hx. inv_bind Hx. destruct x as [fil unf']. inversion Hx; subst.
      right; split; [reflexivity|]. exists [], f, fil, unf. cbn. repeat split. exact Hx0.
Qed.

Lemma split_partial_full a1 b1 a2 b2 lft :
  split_partial a1 b1 = Ok (a2, b2, lft) ->
  match lft with
  | None => a2 = a1 /\ b2 = b1
  | Some unf =>
      exists pre f fil, split (f_order f) (f_afilled f) = Ok (fil, unf) /\
        ((a1 = pre ++ [f] /\ a2 = pre ++ [splitted f fil] /\ b2 = b1) \/
         (b1 = pre ++ [f] /\ b2 = pre ++ [splitted f fil] /\ a2 = a1))
  end.
Proof.
  unfold split_partial. intros H. inv_bind H. destruct x as [a' l1]. inv_bind H. destruct x as [b' l2].
  inversion H; subst; clear H.
  destruct (split_fs_full _ _ _ _ Hx) as [[-> ->]|(_ & pre & f & fil & unf & -> & -> & -> & Hs)].
  - destruct (split_fs_full _ _ _ _ Hx0) as [[-> ->]|(_ & pre & f & fil & unf & -> & -> & -> & Hs)].
    + split; reflexivity.
    + exists pre, f, fil. split; [assumption|]. right. repeat split.
  - destruct (split_fs_full _ _ _ _ Hx0) as [[-> ->]|(Hn & _)]; [|discriminate].
    exists pre, f, fil. split; [assumption|]. left. repeat split.
Qed.

(** How the orders of the final fulfillments relate to the input orders. *)
Inductive oshape (asks bids : list order) : list order -> list order -> option order -> Prop :=
| os_none : oshape asks bids asks bids None
| os_ask pre o fil unf : asks = pre ++ [o] -> split o (o_assets fil) = Ok (fil, unf) ->
    oshape asks bids (pre ++ [fil]) bids (Some unf)
| os_bid pre o fil unf : bids = pre ++ [o] -> split o (o_assets fil) = Ok (fil, unf) ->
    oshape asks bids asks (pre ++ [fil]) (Some unf).

(** ** Projections kept by whole phases *)
Definition aq (f : ofl) := (f_owner f, f_adists f, f_afilled f).
Definition pq (f : ofl) := (f_owner f, f_pdists f, f_papplied f).

Lemma aq_sums l : forall l', map aq l = map aq l' ->
  sumz f_afilled l = sumz f_afilled l' /\
  (forall x, sumz (owned_by x f_afilled) l = sumz (owned_by x f_afilled) l') /\
  (forall x, sumz (fun a => dsum (f_adists a) x) l = sumz (fun a => dsum (f_adists a) x) l').
Proof.
  induction l as [|f r IH]; intros [|f' r'] H; cbn [map] in H; try discriminate; [repeat split|].
  injection H as E1 E2 E3 Ht.
  destruct (IH _ Ht) as (I1 & I2 & I3). repeat split; intros; rewrite !sumz_cons; unfold owned_by.
  - rewrite E3, I1. reflexivity.
  - rewrite E1, E3. fold (owned_by x f_afilled). rewrite I2. reflexivity.
  - rewrite E2, I3. reflexivity.
Qed.

Lemma pq_sums l : forall l', map pq l = map pq l' ->
  sumz f_papplied l = sumz f_papplied l' /\
  (forall x, sumz (owned_by x f_papplied) l = sumz (owned_by x f_papplied) l') /\
  (forall x, sumz (fun a => dsum (f_pdists a) x) l = sumz (fun a => dsum (f_pdists a) x) l').
Proof.
  induction l as [|f r IH]; intros [|f' r'] H; cbn [map] in H; try discriminate; [repeat split|].
  injection H as E1 E2 E3 Ht.
  destruct (IH _ Ht) as (I1 & I2 & I3). repeat split; intros; rewrite !sumz_cons; unfold owned_by.
  - rewrite E3, I1. reflexivity.
  - rewrite E1, E3. fold (owned_by x f_papplied). rewrite I2. reflexivity.
  - rewrite E2, I3. reflexivity.
Qed.

(** [map p l = map p l'] from a finer projection. *)
Lemma map_coarser {T U} (p : ofl -> T) (q : ofl -> U) (h : T -> U) :
  (forall f, q f = h (p f)) -> forall l l', map p l = map p l' -> map q l = map q l'.
Proof.
  intros Hq l l' H. rewrite (map_ext q (fun f => h (p f)) Hq l), (map_ext q (fun f => h (p f)) Hq l').
  rewrite <- (map_map p h l), <- (map_map p h l'), H. reflexivity.
Qed.

(** ** set_ask_fees / set_bid_fees *)
Definition ask_fee_ok (r : option ratio) (a a' : ofl) : Prop :=
  match r with
  | None => a' = set_fee a (o_fees (f_order a))
  | Some rt => exists amt, ratio_fee rt (o_pd (f_order a)) (f_papplied a) = Ok (r_fd rt, amt) /\
                           a' = set_fee a (coins_add1 (o_fees (f_order a)) (r_fd rt) amt)
  end.

Lemma set_ask_fees_spec r asks : forall asks',
  set_ask_fees asks r = Ok asks' -> Forall2 (ask_fee_ok r) asks asks'.
Proof.
  induction asks as [|a ar IH]; intros asks' H; cbn [set_ask_fees] in H.
  - inversion H; subst. constructor.
  - inv_bind H. inv_bind H. inversion H; subst; clear H. constructor; [|apply IH, Hx0].
    destruct r as [rt|]; cbn [ask_fee_ok].
    + inv_bind Hx. destruct x1 as [d amt]. inversion Hx; subst; clear Hx.
      assert (d = r_fd rt).
      { unfold ratio_fee in Hx1. destruct (negb _); [discriminate|].
        destruct (apply_loosely_chk _ _ _) as [[[? ?]|]|]; inversion Hx1; reflexivity. }
      subst d. exists amt. split; [assumption|reflexivity].
    + inversion Hx; reflexivity.
Qed.

(** Everything but the fees. *)
Definition nofee (f : ofl) :=
  (f_order f, f_adists f, f_pdists f, f_afilled f, f_aunfilled f, f_papplied f, f_pleft f).

Lemma ask_fee_ok_nofee r l l' : Forall2 (ask_fee_ok r) l l' -> map nofee l' = map nofee l.
Proof.
  induction 1 as [|a a' l l' H _ IH]; [reflexivity|]. cbn [map]. rewrite IH. f_equal.
  destruct r as [rt|]; cbn [ask_fee_ok] in H; [destruct H as (amt & _ & ->)|subst a']; reflexivity.
Qed.

Lemma set_bid_fees_nofee l : map nofee (set_bid_fees l) = map nofee l.
Proof. unfold set_bid_fees. rewrite map_map. apply map_ext. reflexivity. Qed.

(** ** Indexed amounts per address *)
Definition idx_at (i : indexed) (x : addr) (d : denom) : Z :=
  sumz (fun e => if Pos.eqb x (fst e) then amount_of (snd e) d else 0) i.

Lemma idx_at_cons a c r x d : idx_at ((a, c) :: r) x d = (if Pos.eqb x a then amount_of c d else 0) + idx_at r x d.
Proof. reflexivity. Qed.

Lemma idx_add_known_at i a c : forall i', idx_sorted i -> idx_add_known i a c = Some i' ->
  forall x d, idx_at i' x d = idx_at i x d + (if Pos.eqb x a then raw_sum c d else 0).
Proof.
  induction i as [|[a1 c1] r IH]; intros i' Hs H x d; cbn in H; [discriminate|].
  inversion Hs as [|? ? Hc1 Hr]; subst. cbn in Hc1.
  destruct (Pos.eqb_spec a a1) as [->|Hne].
  - inversion H; subst. destruct (coins_add_spec c c1 Hc1) as [_ Ha1].
    rewrite !idx_at_cons, Ha1. destruct (Pos.eqb x a1); lia.
  - destruct (idx_add_known r a c) as [r'|] eqn:E; [|discriminate]. inversion H; subst.
    rewrite !idx_at_cons, (IH _ Hr eq_refl). lia.
Qed.

Lemma idx_add_at i a c : idx_sorted i -> sorted c ->
  forall x d, idx_at (idx_add i a c) x d = idx_at i x d + (if Pos.eqb x a then raw_sum c d else 0).
Proof.
  intros Hs Hc x d. unfold idx_add. destruct (coins_is_zero c) eqn:Hz.
  - rewrite (coins_is_zero_raw _ _ Hz). destruct (Pos.eqb x a); lia.
  - destruct (idx_add_known i a c) as [i'|] eqn:E.
    + apply (idx_add_known_at _ _ _ _ Hs E).
    + unfold idx_at. rewrite sumz_app, sumz_cons, sumz_nil. cbn [fst snd].
      rewrite (raw_sum_sorted _ Hc). lia.
Qed.

Lemma index_dists_at dn dists : forall idx sum idx' sum',
  idx_sorted idx -> index_dists dn dists idx sum = Ok (idx', sum') ->
  idx_sorted idx' /\ sum' = sum + sumz snd dists /\
  forall x d, idx_at idx' x d = idx_at idx x d + at_d d dn (dsum dists x).
Proof.
  induction dists as [|[a amt] r IH]; intros idx sum idx' sum' Hs H; cbn [index_dists] in H.
  - inversion H; subst. split; [assumption|]. split; [cbn; lia|]. intros x d. unfold at_d, dsum. cbn.
    destruct (Pos.eqb d dn); lia.
  - destruct (Z.leb_spec amt 0); [discriminate|].
    destruct (idx_add_spec idx a [(dn, amt)] Hs (sorted_one dn amt)) as [Hs1 _].
    destruct (IH _ _ _ _ Hs1 H) as (Hs2 & Hsum & Ha2). split; [assumption|]. split; [rewrite sumz_cons; cbn [snd]; lia|].
    intros x d. rewrite Ha2, (idx_add_at idx a [(dn, amt)] Hs (sorted_one dn amt)), raw_sum_cons.
    unfold at_d, dsum. rewrite sumz_cons. cbn [fst snd raw_sum fold_right].
    destruct (Pos.eqb x a), (Pos.eqb d dn); lia.
Qed.

(** ** Net effect of one transfer on address [x], denom [d] *)
Definition transfer_net (t : transfer) (x : addr) (d : denom) : Z := idx_at (t_out t) x d - idx_at (t_in t) x d.
Definition transfer_sorted (t : transfer) : Prop := idx_sorted (t_in t) /\ idx_sorted (t_out t).

Lemma own_at o dn z x d : idx_at [(o, [(dn, z)])] x d = if Pos.eqb x o then at_d d dn z else 0.
Proof. unfold idx_at, at_d. cbn. destruct (Pos.eqb x o), (Pos.eqb d dn); lia. Qed.

Lemma own_sorted o dn z : idx_sorted [(o, [(dn, z)])].
Proof. constructor; [apply sorted_one|constructor]. Qed.

Lemma asset_transfer_net f t :
  get_asset_transfer f = Ok t -> o_ask (f_order f) = true ->
  transfer_sorted t /\
  forall x d, transfer_net t x d = at_d d (o_ad (f_order f)) (dsum (f_adists f) x - owned_by x f_afilled f).
Proof.
  unfold get_asset_transfer. intros H Hask.
  destruct (f_afilled f <=? 0); [discriminate|].
  inv_bind H. destruct x as [idx sum]. destruct (negb (sum =? f_afilled f)); [discriminate|].
  inv_bind H. apply idx_get_ok in Hx0. subst x.
  destruct (index_dists_at _ _ _ _ _ _ (Forall_nil _) Hx) as (Hs & _ & Ha).
  rewrite Hask in H. inversion H; subst; clear H. unfold transfer_net, transfer_sorted. cbn [t_in t_out]. split.
  - split; [apply own_sorted|assumption].
  - intros x d. rewrite own_at, Ha. unfold owned_by, f_owner, at_d, idx_at. cbn.
    destruct (Pos.eqb x (o_owner (f_order f))), (Pos.eqb d (o_ad (f_order f))); lia.
Qed.

Lemma price_transfer_net f t :
  get_price_transfer f = Ok t -> o_ask (f_order f) = false ->
  transfer_sorted t /\
  forall x d, transfer_net t x d = at_d d (o_pd (f_order f)) (dsum (f_pdists f) x - owned_by x f_papplied f).
Proof.
  unfold get_price_transfer. intros H Hask.
  destruct (f_papplied f <=? 0); [discriminate|].
  inv_bind H. destruct x as [idx sum]. destruct (negb (sum =? f_papplied f)); [discriminate|].
  inv_bind H. apply idx_get_ok in Hx0. subst x.
  destruct (index_dists_at _ _ _ _ _ _ (Forall_nil _) Hx) as (Hs & _ & Ha).
  rewrite Hask in H. inversion H; subst; clear H. unfold transfer_net, transfer_sorted. cbn [t_in t_out]. split.
  - split; [apply own_sorted|assumption].
  - intros x d. rewrite own_at, Ha. unfold owned_by, f_owner, at_d, idx_at. cbn.
    destruct (Pos.eqb x (o_owner (f_order f))), (Pos.eqb d (o_pd (f_order f))); lia.
Qed.

(** ** buildTransfers' record loop *)
Lemma record_all_spec getter fs : forall fees ts fees',
  record_all getter fs fees = Ok (ts, fees') ->
  Forall2 (fun f t => getter f = Ok t) fs ts /\
  (idx_sorted fees -> Forall (fun f => sorted (f_fees f)) fs ->
   idx_sorted fees' /\
   (forall x d, idx_at fees' x d = idx_at fees x d + sumz (owned_by x (fun f => raw_sum (f_fees f) d)) fs) /\
   (forall d, idx_amount fees' d = idx_amount fees d + sumz (fun f => raw_sum (f_fees f) d) fs)).
Proof.
  induction fs as [|f r IH]; intros fees ts fees' H; cbn [record_all] in H.
  - inversion H; subst. split; [constructor|]. intros Hs _. split; [assumption|]. split; intros; cbn; lia.
  - inv_bind H. inv_bind H. inv_bind H. destruct x1 as [ts1 fees1]. inversion H; subst; clear H.
    destruct (IH _ _ _ Hx1) as [IH1 IH2]. split; [constructor; assumption|].
    intros Hs Hf. inversion Hf as [|? ? Hf1 Hf2]; subst.
    assert (Hx0' : idx_sorted x0 /\
                   (forall y d, idx_at x0 y d = idx_at fees y d + owned_by y (fun f => raw_sum (f_fees f) d) f) /\
                   (forall d, idx_amount x0 d = idx_amount fees d + raw_sum (f_fees f) d)).
    { unfold owned_by. destruct (coins_is_zero (f_fees f)) eqn:Ez.
      - inversion Hx0; subst. split; [assumption|]. split.
        + intros y d. rewrite (coins_is_zero_raw _ _ Ez). destruct (Pos.eqb y (f_owner f)); lia.
        + intros d. rewrite (coins_is_zero_raw _ _ Ez). lia.
      - destruct (coins_any_neg (f_fees f)); [discriminate|]. inversion Hx0; subst. split; [|split].
        + apply (idx_add_spec _ _ _ Hs Hf1).
        + intros y d. apply (idx_add_at _ _ _ Hs Hf1).
        + apply (idx_add_spec _ _ _ Hs Hf1). }
    destruct Hx0' as (Hs0 & Ha0 & Hb0). destruct (IH2 Hs0 Hf2) as (Hs1 & Ha1 & Hb1). split; [assumption|]. split.
    + intros y d. rewrite Ha1, Ha0, sumz_cons. lia.
    + intros d. rewrite Hb1, Hb0, sumz_cons. lia.
Qed.

(** GetAsInputs: every entry is all-positive. *)
Definition idx_pos (i : indexed) : Prop := Forall (fun e => coins_all_pos (snd e) = true) i.

Lemma idx_get_pos i io : idx_get i = Ok io -> idx_pos io.
Proof.
  unfold idx_get. destruct (forallb _ i) eqn:E; intros H; inversion H; subst.
  rewrite forallb_forall in E. apply Forall_forall. exact E.
Qed.

(** ** populateFilled *)
Definition fid (f : ofl) : positive := o_id (f_order f).

Lemma populate_none fs : forall full part,
  populate fs None full part = (full ++ map as_filled fs, part).
Proof.
  unfold populate. induction fs as [|f r IH]; intros full part; cbn [fold_left map].
  - rewrite app_nil_r. reflexivity.
  - rewrite IH, <- app_assoc. reflexivity.
Qed.

Lemma populate_nomatch l fs : forall full part,
  Forall (fun f => fid f <> o_id l) fs ->
  populate fs (Some l) full part = (full ++ map as_filled fs, part).
Proof.
  unfold populate. induction fs as [|f r IH]; intros full part H; cbn [fold_left map].
  - rewrite app_nil_r. reflexivity.
  - inversion H as [|? ? H1 H2]; subst. unfold fid in H1.
    destruct (Pos.eqb_spec (o_id l) (o_id (f_order f))) as [E|_]; [exfalso; apply H1; symmetry; exact E|].
    rewrite (IH _ _ H2), <- app_assoc. reflexivity.
Qed.

Lemma populate_app fs1 fs2 lft full part :
  populate (fs1 ++ fs2) lft full part =
  let '(full1, part1) := populate fs1 lft full part in populate fs2 lft full1 part1.
Proof.
  unfold populate. rewrite fold_left_app.
  destruct (fold_left _ fs1 (full, part)) as [full1 part1]. reflexivity.
Qed.

Lemma populate_one l F1 f F2 :
  NoDup (map fid (F1 ++ f :: F2)) -> fid f = o_id l ->
  populate (F1 ++ f :: F2) (Some l) [] None = (map as_filled (F1 ++ F2), Some (as_filled f)).
Proof.
  intros Hnd Hid.
  assert (Hother : Forall (fun g => fid g <> o_id l) F1 /\ Forall (fun g => fid g <> o_id l) F2).
  { rewrite map_app in Hnd. cbn [map] in Hnd. apply NoDup_remove_2 in Hnd. rewrite <- Hid.
    split; apply Forall_forall; intros g Hg E; apply Hnd, in_or_app; [left|right]; rewrite <- E; apply in_map, Hg. }
  destruct Hother as [H1 H2].
  rewrite populate_app, (populate_nomatch _ _ _ _ H1). change (f :: F2) with ([f] ++ F2).
  rewrite populate_app. unfold populate at 1. cbn [fold_left].
  unfold fid in Hid. rewrite <- Hid, Pos.eqb_refl. rewrite (populate_nomatch _ _ _ _ H2).
  cbn [app]. rewrite map_app. reflexivity.
Qed.
