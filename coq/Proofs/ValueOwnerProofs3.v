(** Proofs about [PV.Metadata.ValueOwner] (property C09), part 3: what one accepted operation does to
    every scope token ([trans]: untouched, moved with a justification, minted, burnt), for each of
    the twenty-three operations; the invariant over all histories. *)
From Coq Require Import ZArith NArith List Bool Lia.
From PV Require Import Metadata.ValueOwner Proofs.ValueOwnerProofs Proofs.ValueOwnerProofs2.
Import ListNotations.
Open Scope Z_scope.

(** Why the token of scope [d] went from [f] to [to'] in operation [o] (state [s] before):
    - a metadata message: its signers (the effective ones) were the transfer agents of a transfer
      from [f] addressed to [to] that the marker restriction let pass, and [f] signed, is a marker,
      or has a usable authz grant for this message type to an effective signer;
    - a bank send / multi-send by [f] itself, addressed to [to], that the marker restriction let pass
      without agents;
    - the acceptance, by [to'], of a quarantine record addressed to [to'] that lists [d].
    [to'] is where a transfer addressed to [to] ends up ([qdest]: the quarantine funds holder when
    [to] quarantines [f]). *)
Inductive moved (s : state) (o : op) (d : sid) (f to' : addr) : Prop :=
| mv_meta sg k to :
    signers_of o = sg -> kind_of o = Some k -> sg <> [] ->
    restrict (markers s) f to (effective_signers s sg) = true ->
    (In f (effective_signers s sg) \/ is_marker s f = true \/
     exists g, In g (effective_signers s sg) /\ has_grant s f g k = true) ->
    to' = qdest s f to -> moved s o d f to'
| mv_send to amt :
    o = OSend f to d amt -> restrict (markers s) f to [] = true -> to' = qdest s f to -> moved s o d f to'
| mv_multi outs to ds :
    o = OMultiSend f outs -> In (to, ds) outs -> In d ds -> restrict (markers s) f to [] = true ->
    to' = qdest s f to -> moved s o d f to'
| mv_accept froms perm r :
    o = OAccept to' froms perm -> f = QHOLD -> In r (qrecs s) -> accepted to' froms r = true ->
    In d (denoms (q_coins r)) -> restrict (markers s) QHOLD to' [] = true -> moved s o d f to'.

(** A token minted by MsgWriteScope and delivered. *)
Definition minted (s : state) (o : op) (to' : addr) : Prop :=
  exists sg to, signers_of o = sg /\ sg <> [] /\
                restrict (markers s) MODULE to (effective_signers s sg) = true /\ to' = qdest s MODULE to.

Definition trans (s : state) (o : op) (s' : state) : Prop := forall d,
  (tok s' d = tok s d /\ sup s' d = sup s d) \/
  (exists f to', tok s d = [(f, 1)] /\ tok s' d = [(to', 1)] /\ sup s' d = sup s d /\
                 mem f (sanctioned s) = false /\ moved s o d f to') \/
  (exists to', tok s d = [] /\ tok s' d = [(to', 1)] /\ sup s' d = 1 /\ minted s o to') \/
  (exists f, tok s d = [(f, 1)] /\ tok s' d = [] /\ sup s' d = 0 /\
             mem f (sanctioned s) = false /\ moved s o d f MODULE /\ kind_of o = Some KDelete).

Definition good (s : state) (o : op) (s' : state) : Prop :=
  trans s o s' /\ TokScope s' /\ marker_of s' QHOLD = None.

Lemma trans_bankinv s o s' : BankInv s -> trans s o s' -> BankInv s'.
Proof.
  intros HB HT d. destruct (HT d) as [(A & B)|[(f & t & A & B & C & _)|[(t & A & B & C & _)|(f & A & B & C & _)]]].
  - rewrite A, B. apply HB.
  - right. rewrite C. destruct (HB d) as [(_ & Hn)|(Hs & _)]; [congruence|]. split; [exact Hs|exists t; exact B].
  - right. split; [exact C|exists t; exact B].
  - left. split; assumption.
Qed.

Lemma good_inv s o s' : Inv s -> good s o s' -> Inv s'.
Proof. intros (HB & _ & _) (HT & HS & HQ). split; [eapply trans_bankinv; eassumption|split; assumption]. Qed.

(** Operations that touch no balance, supply, scope or marker. *)
Lemma quiet_good s o s' :
  Inv s -> (forall d, tok s' d = tok s d) -> sups s' = sups s -> scopes s' = scopes s -> markers s' = markers s ->
  good s o s'.
Proof.
  intros (HB & HT & HQ) Ht Hs Hsc Hm. split; [|split].
  - intros d. left. split; [apply Ht|apply sup_same; exact Hs].
  - intros d Hne. rewrite (scope_of_same _ _ d Hsc). apply HT. rewrite <- Ht. exact Hne.
  - rewrite (marker_of_same _ _ QHOLD Hm). exact HQ.
Qed.

(** ** MsgWriteScope *)
Lemma write_parties_le s sg existing prop cur vo pused a1 :
  write_parties s sg existing prop cur vo = Some (pused, a1) -> le (now s) a1 (actx0 s).
Proof.
  unfold write_parties. destruct (get (specs s) (sc_spec prop)) as [roles|]; [|discriminate].
  destruct (negb (roles_present roles (sc_parties prop))); [discriminate|].
  destruct (negb (prov_ok s (sc_parties prop))); [discriminate|].
  destruct existing as [e|]; [|intros [= _ <-]; apply le_refl].
  destruct (negb (sc_rollup e)).
  - destruct (scope_eqb e prop && opt_addr_eqb cur vo); [intros [= _ <-]; apply le_refl|].
    apply all_required_signed_le.
  - destruct (parties_signed (now s) (sc_parties e) roles sg KWrite (actx0 s)) as [[pds a2]|] eqn:E; [|discriminate].
    intros [= _ <-]. eapply parties_signed_le. exact E.
Qed.

(** From the value-owner signer check to the justification of the move. *)
Lemma meta_consent s existing proposed sg k a agents used a' f :
  k <> KAddData -> le (now s) a (actx0 s) ->
  vo_signers s existing proposed sg k a = Some (agents, used, a') ->
  In f existing -> proposed <> Some f ->
  agents = effective_signers s sg /\
  (In f (effective_signers s sg) \/ is_marker s f = true \/
   exists g, In g (effective_signers s sg) /\ has_grant s f g k = true).
Proof.
  intros Hk Hle Hv Hin Hne.
  destruct (vo_signers_spec _ _ _ _ _ _ _ _ _ _ Hv Hin Hne) as (-> & H). split; [reflexivity|].
  destruct H as [H|[H|(g & Hg & Hgr)]]; [left; exact H|right; left; exact H|].
  right. right. exists g. split; [exact Hg|]. apply granted_plain; [exact Hk|].
  eapply granted_le; eassumption.
Qed.

Lemma step_write_good s sg d parties spec data rollup vo s' :
  Inv s -> step_write s sg d parties spec data rollup vo = Some s' ->
  good s (OWrite sg d parties spec data rollup vo) s'.
Proof.
  intros (HB & HT & HQ). unfold step_write.
  destruct (is_nil sg || negb (parties_basic parties rollup)) eqn:Eb; [discriminate|].
  assert (Hsg : sg <> []).
  { apply is_nil_false. apply orb_false_elim in Eb. apply Eb. }
  set (prop := {| sc_parties := parties; sc_spec := spec; sc_data := data; sc_rollup := rollup |}).
  destruct (match scope_of s d, vo with Some _, Some _ => denom_owner (tok s d) | _, _ => Some None end)
    as [cur|] eqn:Ecur; [|discriminate].
  match goal with |- match ?P with _ => _ end = _ -> _ => destruct P as [[pused a1]|] eqn:Epres; [|discriminate] end.
  assert (Hle : le (now s) a1 (actx0 s)).
  { match type of Epres with (if ?c then _ else _) = _ => destruct c end.
    - injection Epres as _ <-. apply le_refl.
    - eapply write_parties_le. exact Epres. }
  destruct (vo_signers s (opt_list cur) vo sg KWrite a1) as [[[agents used] a2]|] eqn:Ev; [|discriminate].
  destruct (sc_check s (used ++ pused) KWrite true sg a2) as [a3|]; [|discriminate].
  destruct vo as [p|].
  - (* a value owner is proposed *)
    destruct (set_vo s d (Some p) agents) as [s1|] eqn:Es; [|discriminate]. intros [= <-].
    destruct (set_vo_spec _ _ _ _ _ HB Es) as ((Hsc & Hmk & _) & Ho & Hd).
    set (s2 := commit (with_scopes s1 (put (scopes s1) d (Some prop))) a3).
    assert (Htok : forall d', tok s2 d' = tok s1 d') by reflexivity.
    assert (Hsup : forall d', sup s2 d' = sup s1 d') by reflexivity.
    (* the looked-up current owner is the real one *)
    assert (Hcur : forall h, tok s d = [(h, 1)] -> cur = Some h).
    { intros h Hth.
      destruct (scope_of s d) eqn:Esc; [|exfalso; apply (HT d); [rewrite Hth; discriminate|exact Esc]].
      rewrite Hth in Ecur. cbn in Ecur. congruence. }
    assert (Hnone : tok s d = [] -> cur = None).
    { intros Hn. destruct (scope_of s d); [|congruence]. rewrite Hn in Ecur. cbn in Ecur. congruence. }
    split; [|split].
    + intros d'. rewrite Htok, Hsup. destruct (N.eq_dec d' d) as [->|Hne]; [|left; apply Ho; exact Hne].
      destruct Hd as [(_ & A & B)|[(p' & [= <-] & A & B & C & D)|[(h & p' & [= <-] & Hhp & A & B & C & D & E)|(h & Hx & _)]]];
        [left; split; assumption| | |discriminate].
      * (* minted *)
        right. right. left. exists (qdest s MODULE p). split; [exact A|]. split; [exact B|]. split; [exact C|].
        exists sg, p. split; [reflexivity|]. split; [exact Hsg|]. split; [|reflexivity].
        rewrite (Hnone A) in Ev. cbn [opt_list] in Ev.
        destruct (vo_signers_agents _ _ _ _ _ _ _ _ _ Ev) as [(e & He & _)|Ha]; [discriminate|]. rewrite <- Ha. exact D.
      * (* moved from h *)
        right. left. exists h, (qdest s h p). split; [exact A|]. split; [exact B|]. split; [exact C|]. split; [exact E|].
        rewrite (Hcur h A) in Ev. cbn [opt_list] in Ev.
        destruct (meta_consent s [h] (Some p) sg KWrite a1 agents used a2 h) as (Ha & Hc);
          [discriminate|exact Hle|exact Ev|left; reflexivity|congruence|].
        eapply (mv_meta s _ d h _ sg KWrite p); [reflexivity|reflexivity|exact Hsg| |exact Hc|reflexivity].
        rewrite <- Ha. exact D.
    + intros d' Hne. unfold s2. unfold commit. cbn [with_grants].
      change (scope_of (with_grants (with_scopes s1 (put (scopes s1) d (Some prop))) (a_grants a3)) d')
        with (scope_of (with_scopes s1 (put (scopes s1) d (Some prop))) d').
      rewrite scope_of_put. destruct (N.eqb_spec d' d) as [->|Hd']; [discriminate|].
      rewrite (scope_of_same s s1 d' Hsc). apply HT.
      change (tok s1 d' <> []) in Hne. rewrite (proj1 (Ho d' Hd')) in Hne. exact Hne.
    + change (marker_of s1 QHOLD = None). rewrite (marker_of_same _ _ QHOLD Hmk). exact HQ.
  - (* no value owner field: the token is not touched *)
    intros [= <-]. split; [|split].
    + intros d'. left. split; reflexivity.
    + intros d' Hne.
      change (scope_of (with_scopes s (put (scopes s) d (Some prop))) d' <> None).
      rewrite scope_of_put. destruct (N.eqb_spec d' d) as [->|Hd]; [discriminate|]. apply HT. exact Hne.
    + exact HQ.
Qed.

(** ** MsgDeleteScope *)
Lemma step_delete_spec s sg d s' :
  Inv s -> step_delete s sg d = Some s' ->
  good s (ODelete sg d) s' /\ sup s' d = 0 /\ tok s' d = [] /\ scope_of s' d = None.
Proof.
  intros (HB & HT & HQ). unfold step_delete.
  destruct (is_nil sg) eqn:Eb; [discriminate|].
  assert (Hsg : sg <> []) by (apply is_nil_false; exact Eb).
  destruct (scope_of s d) as [e|] eqn:Esc; [|discriminate].
  destruct (existing_signed s e (get (specs s) (sc_spec e)) sg KDelete (actx0 s)) as [[pused a1]|] eqn:Ep; [|discriminate].
  assert (Hle : le (now s) a1 (actx0 s)) by (eapply existing_signed_le; exact Ep).
  destruct (denom_owner (tok s d)) as [cur|] eqn:Ecur; [|discriminate].
  destruct (vo_signers s (opt_list cur) None sg KDelete a1) as [[[agents used] a2]|] eqn:Ev; [|discriminate].
  destruct (sc_check s (used ++ pused) KDelete true sg a2) as [a3|]; [|discriminate].
  destruct (set_vo s d None agents) as [s1|] eqn:Es; [|discriminate]. intros [= <-].
  destruct (set_vo_spec _ _ _ _ _ HB Es) as ((Hsc & Hmk & _) & Ho & Hd).
  set (s2 := commit (with_scopes s1 (put (scopes s1) d None)) a3).
  assert (Htok : forall d', tok s2 d' = tok s1 d') by reflexivity.
  assert (Hsup : forall d', sup s2 d' = sup s1 d') by reflexivity.
  assert (Hfin : tok s1 d = [] /\ sup s1 d = 0).
  { destruct Hd as [(Hv & A & B)|[(p' & Hx & _)|[(h & p' & Hx & _)|(h & _ & A & B & C & _)]]]; try discriminate.
    - unfold value_owner in Hv. destruct (HB d) as [(Hs0 & Ht0)|(_ & x & Ht0)].
      + rewrite A, B. split; assumption.
      + rewrite Ht0 in Hv. discriminate.
    - split; assumption. }
  split; [split; [|split]|].
  - intros d'. rewrite Htok, Hsup. destruct (N.eq_dec d' d) as [->|Hne]; [|left; apply Ho; exact Hne].
    destruct Hd as [(_ & A & B)|[(p' & Hx & _)|[(h & p' & Hx & _)|(h & _ & A & B & C & D & E & G)]]]; try discriminate;
      [left; split; assumption|].
    right. right. right. exists h. split; [exact A|]. split; [exact B|]. split; [exact C|]. split; [exact G|].
    rewrite A in Ecur. cbn in Ecur. injection Ecur as <-. cbn [opt_list] in Ev.
    destruct (meta_consent s [h] None sg KDelete a1 agents used a2 h) as (Ha & Hc);
      [discriminate|exact Hle|exact Ev|left; reflexivity|discriminate|].
    split; [|reflexivity].
    eapply (mv_meta s _ d h _ sg KDelete MODULE); [reflexivity|reflexivity|exact Hsg| |exact Hc|symmetry; exact D].
    rewrite <- Ha. exact E.
  - intros d' Hne.
    change (scope_of (with_scopes s1 (put (scopes s1) d None)) d' <> None).
    rewrite scope_of_put. destruct (N.eqb_spec d' d) as [->|Hd'].
    + change (tok s1 d <> []) in Hne. destruct Hfin as (Hf & _). contradiction.
    + rewrite (scope_of_same s s1 d' Hsc). apply HT.
      change (tok s1 d' <> []) in Hne. rewrite (proj1 (Ho d' Hd')) in Hne. exact Hne.
  - change (marker_of s1 QHOLD = None). rewrite (marker_of_same _ _ QHOLD Hmk). exact HQ.
  - rewrite Hsup, Htok. destruct Hfin as (A & B). split; [exact B|]. split; [exact A|].
    change (scope_of (with_scopes s1 (put (scopes s1) d None)) d = None).
    rewrite scope_of_put, N.eqb_refl. reflexivity.
Qed.

(** ** Bulk update and migrate *)
Lemma update_core_spec s o sg links p k s' :
  Inv s -> signers_of o = sg -> kind_of o = Some k -> k <> KAddData -> sg <> [] ->
  (forall f d, In (f, d) links -> tok s d = [(f, 1)]) ->
  update_core s sg links p k = Some s' ->
  good s o s' /\ (forall f d, In (f, d) links -> tok s' d = [(qdest s f p, 1)]) /\
  (forall d, (forall f, ~ In (f, d) links) -> tok s' d = tok s d).
Proof.
  intros (HB & HT & HQ) Hsg Hk Hka Hne Hlinks. unfold update_core.
  destruct (is_nil links); [discriminate|].
  destruct (existsb (fun l => N.eqb (fst l) p) links) eqn:Ep; [discriminate|].
  assert (Hnp : forall f d, In (f, d) links -> f <> p).
  { intros f d Hin ->. assert (existsb (fun l => N.eqb (fst l) p) links = true); [|congruence].
    apply existsb_exists. exists (p, d). split; [exact Hin|apply N.eqb_refl]. }
  set (froms := dedup (map fst links)).
  destruct (vo_signers s froms (Some p) sg k (actx0 s)) as [[[agents used] a1]|] eqn:Ev; [|discriminate].
  destruct (mem p (blocked s)); [discriminate|].
  destruct (send_groups s froms links p agents) as [s1|] eqn:Eg; [|discriminate]. intros [= <-].
  destruct (send_groups_spec s links p agents Hlinks froms [] s s1) as (F & _ & HR);
    [apply dedup_NoDup|apply bankinv_wk; exact HB|apply frame_refl| |exact Eg|].
  { intros d. right. split; [intros f _; left; intros []|reflexivity]. }
  cbn [app] in HR.
  assert (Htok : forall d, tok (commit s1 a1) d = tok s1 d) by reflexivity.
  assert (Hsup : forall d, sup (commit s1 a1) d = sup s d).
  { intros d. change (sup s1 d = sup s d). apply sup_same. apply frame_sups. exact F. }
  assert (Hfroms : forall f d, In (f, d) links -> In f froms).
  { intros f d Hin. apply dedup_complete. apply (in_map fst _ _ Hin). }
  split; [split; [|split]|split].
  - intros d. rewrite Htok, Hsup.
    destruct (HR d) as [(f & A & B & C & D & E & G & I)|(_ & B)]; [|left; split; [exact B|reflexivity]].
    right. left. exists f, (qdest s f p). split; [exact D|]. split; [exact E|]. split; [reflexivity|]. split; [exact I|].
    destruct (meta_consent s froms (Some p) sg k (actx0 s) agents used a1 f) as (Ha & Hc);
      [exact Hka|apply le_refl|exact Ev|exact B|congruence|].
    eapply (mv_meta s o d f _ sg k p); [exact Hsg|exact Hk|exact Hne| |exact Hc|reflexivity].
    rewrite <- Ha. exact G.
  - intros d Hd. change (scope_of s1 d <> None). rewrite (scope_of_same _ _ d (frame_scopes _ _ F)). apply HT.
    change (tok s1 d <> []) in Hd.
    destruct (HR d) as [(f & _ & _ & _ & D & _)|(_ & B)]; [rewrite D; discriminate|rewrite <- B; exact Hd].
  - change (marker_of s1 QHOLD = None). rewrite (marker_of_same _ _ QHOLD (frame_markers _ _ F)). exact HQ.
  - intros f d Hin. rewrite Htok.
    destruct (HR d) as [(f0 & A & _ & _ & D & E & _)|(A & _)].
    + rewrite (Hlinks f d Hin) in D. injection D as <-. exact E.
    + exfalso. destruct (A f Hin) as [Hn|Hp]; [apply Hn; eapply Hfroms; exact Hin|exact (Hnp f d Hin Hp)].
  - intros d Hno. rewrite Htok.
    destruct (HR d) as [(f0 & A & _)|(_ & B)]; [exfalso; exact (Hno f0 A)|exact B].
Qed.

Lemma links_of_spec s : forall ds seen links,
  links_of s seen ds = Some links ->
  map snd links = ds /\ forall f d, In (f, d) links -> tok s d <> [] /\ denom_owner (tok s d) = Some (Some f).
Proof.
  induction ds as [|d r IH]; intros seen links; cbn [links_of].
  - intros [= <-]. split; [reflexivity|intros f d []].
  - destruct (mem d seen); [discriminate|].
    destruct (denom_owner (tok s d)) as [[a|]|] eqn:Eo; try discriminate.
    destruct (links_of s (d :: seen) r) as [l|] eqn:El; [|discriminate]. cbn [option_map]. intros [= <-].
    destruct (IH _ _ El) as (Hm & Hall). split; [cbn [map snd]; rewrite Hm; reflexivity|].
    intros f d' [[= <- <-]|Hin]; [|apply Hall; exact Hin].
    split; [|exact Eo]. intros Hn. rewrite Hn in Eo. discriminate.
Qed.

Lemma denom_owner_single s d f : BankInv s -> denom_owner (tok s d) = Some (Some f) -> tok s d = [(f, 1)].
Proof.
  intros HB. destruct (HB d) as [(_ & Ht)|(_ & h & Ht)]; rewrite Ht; cbn; [discriminate|].
  intros [= ->]. reflexivity.
Qed.

Lemma step_update_spec s sg ds p s' :
  Inv s -> step_update s sg ds p = Some s' ->
  good s (OUpdate sg ds p) s' /\
  (forall d, In d ds -> exists f, tok s d = [(f, 1)] /\ f <> p /\ tok s' d = [(qdest s f p, 1)]) /\
  (forall d, ~ In d ds -> tok s' d = tok s d).
Proof.
  intros HI. unfold step_update.
  destruct (is_nil sg || is_nil ds) eqn:Eb; [discriminate|].
  destruct (links_of s [] ds) as [links|] eqn:El; [|discriminate]. intros H.
  destruct (links_of_spec _ _ _ _ El) as (Hm & Hall).
  assert (Hlinks : forall f d, In (f, d) links -> tok s d = [(f, 1)]).
  { intros f d Hin. apply denom_owner_single; [apply HI|apply (Hall f d Hin)]. }
  assert (Hnp : forall f d, In (f, d) links -> f <> p).
  { intros f d Hin ->. unfold update_core in H. destruct (is_nil links); [discriminate|].
    assert (E : existsb (fun l => N.eqb (fst l) p) links = true).
    { apply existsb_exists. exists (p, d). split; [exact Hin|apply N.eqb_refl]. }
    rewrite E in H. discriminate. }
  destruct (update_core_spec s (OUpdate sg ds p) sg links p KUpdate s' HI eq_refl eq_refl) as (Hg & Hmv & Hkeep);
    [discriminate|apply is_nil_false; apply orb_false_elim in Eb; apply Eb|exact Hlinks|exact H|].
  split; [exact Hg|]. split.
  - intros d Hd. rewrite <- Hm in Hd. apply in_map_iff in Hd. destruct Hd as ([f d'] & Hd' & Hin). cbn in Hd'. subst d'.
    exists f. split; [apply Hlinks; exact Hin|]. split; [eapply Hnp; exact Hin|eapply Hmv; exact Hin].
  - intros d Hd. apply Hkeep. intros f Hin. apply Hd. rewrite <- Hm. apply (in_map snd _ _ Hin).
Qed.

Lemma get_some_in {V} (m : list (N * V)) k v : get m k = Some v -> In k (map fst m).
Proof.
  induction m as [|[k' v'] r IH]; cbn [get]; [discriminate|].
  destruct (N.eqb_spec k k') as [->|_]; [intros _; left; reflexivity|]. intros H. right. apply IH. exact H.
Qed.

Lemma scopes_held_spec s e d : BankInv s -> (In d (scopes_held s e) <-> tok s d = [(e, 1)]).
Proof.
  intros HB. unfold scopes_held. rewrite filter_In. unfold balance. split.
  - intros (_ & Hb). destruct (HB d) as [(_ & Ht)|(_ & h & Ht)]; rewrite Ht in Hb |- *.
    + cbn in Hb. discriminate.
    + rewrite bal_of_single in Hb. destruct (N.eqb_spec h e) as [Heq|_]; [subst h; reflexivity|cbn in Hb; discriminate].
  - intros Ht. split.
    + apply dedup_complete. unfold tok in Ht. destruct (get (toks s) d) as [l|] eqn:Eg; [|discriminate].
      eapply get_some_in. exact Eg.
    + rewrite Ht, bal_of_single, N.eqb_refl. reflexivity.
Qed.

Lemma step_migrate_spec s sg e p s' :
  Inv s -> step_migrate s sg e p = Some s' ->
  good s (OMigrate sg e p) s' /\ e <> p /\
  (forall d, tok s d = [(e, 1)] -> tok s' d = [(qdest s e p, 1)]) /\
  (forall d, tok s d <> [(e, 1)] -> tok s' d = tok s d).
Proof.
  intros HI. unfold step_migrate. destruct (is_nil sg) eqn:Eb; [discriminate|]. intros H.
  assert (HB : BankInv s) by apply HI.
  assert (Hlinks : forall f d, In (f, d) (map (fun d => (e, d)) (scopes_held s e)) -> tok s d = [(f, 1)]).
  { intros f d Hin. apply in_map_iff in Hin. destruct Hin as (d' & [= <- <-] & Hd). apply scopes_held_spec; assumption. }
  destruct (update_core_spec s (OMigrate sg e p) sg (map (fun d => (e, d)) (scopes_held s e)) p KMigrate s' HI eq_refl eq_refl) as (Hg & Hmv & Hkeep);
    [discriminate|apply is_nil_false; exact Eb|exact Hlinks|exact H|].
  split; [exact Hg|]. split; [|split].
  - intros ->. unfold update_core in H.
    destruct (scopes_held s p) as [|d0 r] eqn:Eh; [cbn in H; discriminate|].
    cbn [map is_nil existsb fst] in H. rewrite N.eqb_refl in H. cbn in H. discriminate.
  - intros d Ht. apply (Hmv e d). apply in_map_iff. exists d. split; [reflexivity|apply scopes_held_spec; assumption].
  - intros d Hne. apply Hkeep. intros f Hin. apply in_map_iff in Hin. destruct Hin as (d' & [= <- <-] & Hd).
    apply Hne. apply scopes_held_spec; assumption.
Qed.

(** ** Plain bank send and multi-send of tokens *)
Lemma step_send_good s from to d amt s' :
  Inv s -> step_send s from to d amt = Some s' -> good s (OSend from to d amt) s'.
Proof.
  intros (HB & HT & HQ). unfold step_send.
  destruct (Z.leb_spec amt 0) as [|Hamt]; [discriminate|].
  destruct (mem to (blocked s)); [discriminate|]. intros H.
  destruct (send_spec _ _ _ _ _ _ _ (bankinv_wk _ HB) H) as (Hr & Hs & F & Hall & Ht & _).
  cbn [dest denoms map fst] in Ht.
  assert (Hd : tok s d = [(from, 1)]) by (apply (Hall (d, amt)); left; reflexivity).
  split; [|split].
  - intros d'. rewrite Ht, mem_cons, (sup_same _ _ d' (frame_sups _ _ F)).
    destruct (N.eqb_spec d' d) as [Heq|_]; cbn [orb mem existsb]; [subst d'|left; split; reflexivity].
    right. left. exists from, (qdest s from to). split; [exact Hd|]. split; [reflexivity|]. split; [reflexivity|].
    split; [exact Hs|]. eapply mv_send; [reflexivity|exact Hr|reflexivity].
  - intros d' Hne. rewrite (scope_of_same _ _ d' (frame_scopes _ _ F)). apply HT.
    rewrite Ht, mem_cons in Hne. destruct (N.eqb_spec d' d) as [Heq|_]; cbn [orb mem existsb] in Hne;
      [subst d'; rewrite Hd; discriminate|exact Hne].
  - rewrite (marker_of_same _ _ QHOLD (frame_markers _ _ F)). exact HQ.
Qed.

Lemma step_multisend_good s from outs s' :
  Inv s -> step_multisend s from outs = Some s' -> good s (OMultiSend from outs) s'.
Proof.
  intros (HB & HT & HQ). unfold step_multisend.
  destruct (is_nil outs); [discriminate|].
  destruct (existsb (fun o => is_nil (snd o) || has_dup (snd o)) outs); [discriminate|].
  destruct (existsb (fun o => mem (fst o) (blocked s)) outs); [discriminate|].
  destruct (sub_coins s from (flat_map (fun o => ones (snd o)) outs)) as [sa|] eqn:Es; [|discriminate]. intros H.
  assert (Hpos : forall e, In e (flat_map (fun o : addr * list sid => ones (snd o)) outs) -> 0 < snd e).
  { intros e He. apply in_flat_map in He. destruct He as (o & _ & He). rewrite (proj2 (in_ones _ _ He)). lia. }
  destruct (sub_coins_spec _ _ _ _ (bankinv_wk _ HB) Hpos Es) as (F0 & _ & ND & Hall & Ht0 & _).
  rewrite denoms_flat in ND, Ht0.
  destruct (deliver_spec from outs sa s' ND) as (F1 & HR); [|exact H|].
  { intros d Hd. rewrite Ht0. apply mem_In in Hd. rewrite Hd. reflexivity. }
  assert (F : frame s s') by (eapply frame_trans; eassumption).
  assert (Hfrom : forall d, In d (flat_map snd outs) -> tok s d = [(from, 1)]).
  { intros d Hd. rewrite <- denoms_flat in Hd. unfold denoms in Hd. apply in_map_iff in Hd.
    destruct Hd as (e & <- & He). apply Hall. exact He. }
  assert (Hcase : forall d,
            (tok s d = [(from, 1)] /\ exists to ds, In (to, ds) outs /\ In d ds /\ tok s' d = [(qdest s from to, 1)] /\
               restrict (markers s) from to [] = true /\ mem from (sanctioned s) = false) \/
            tok s' d = tok s d).
  { intros d. destruct (HR d) as [(Hin & (to & ds & A & B & C & D & E))|(Hnin & Hsame)].
    - left. split; [apply Hfrom; exact Hin|]. exists to, ds. split; [exact A|]. split; [exact B|].
      split; [rewrite C, (frame_qdest _ _ _ _ F0); reflexivity|].
      split; [rewrite <- (frame_markers _ _ F0); exact D|rewrite <- (frame_sanctioned _ _ F0); exact E].
    - right. rewrite Hsame, Ht0. destruct (mem d (flat_map snd outs)) eqn:Em; [|reflexivity].
      apply mem_In in Em. contradiction. }
  split; [|split].
  - intros d. rewrite (sup_same _ _ d (frame_sups _ _ F)).
    destruct (Hcase d) as [(A & to & ds & B & C & D & E & G)|A]; [|left; split; [exact A|reflexivity]].
    right. left. exists from, (qdest s from to). split; [exact A|]. split; [exact D|]. split; [reflexivity|].
    split; [exact G|]. eapply mv_multi; [reflexivity|exact B|exact C|exact E|reflexivity].
  - intros d Hne. rewrite (scope_of_same _ _ d (frame_scopes _ _ F)). apply HT.
    destruct (Hcase d) as [(A & _)|A]; [rewrite A; discriminate|rewrite <- A; exact Hne].
  - rewrite (marker_of_same _ _ QHOLD (frame_markers _ _ F)). exact HQ.
Qed.

(** ** Quarantine MsgAccept *)
Lemma step_accept_spec s to froms perm s' :
  Inv s -> step_accept s to froms perm = Some s' ->
  good s (OAccept to froms perm) s'.
Proof.
  intros (HB & HT & HQ). unfold step_accept. destruct (is_nil froms); [discriminate|].
  set (hit := filter (accepted to froms) (qrecs s)).
  set (rest := filter (fun r => negb (accepted to froms r)) (qrecs s)).
  destruct (release_all (with_qrecs s rest) to hit) as [s1|] eqn:Er; [|discriminate]. intros H.
  assert (HWx : Wk (with_qrecs s rest)) by (apply (bankinv_wk _ HB)).
  destruct (release_all_spec to hit _ s1 HWx Er) as (F & _ & HR).
  assert (Htok : forall d, tok s' d = tok s1 d) by (injection H as <-; destruct perm; reflexivity).
  assert (Hsup : forall d, sup s' d = sup s d).
  { intros d. injection H as <-. transitivity (sup s1 d); [destruct perm; reflexivity|].
    apply (sup_same (with_qrecs s rest) s1 d (frame_sups _ _ F)). }
  assert (Hsc : forall d, scope_of s' d = scope_of s d).
  { intros d. injection H as <-. transitivity (scope_of s1 d); [destruct perm; reflexivity|].
    apply (scope_of_same (with_qrecs s rest) s1 d (frame_scopes _ _ F)). }
  assert (Hmk : marker_of s' QHOLD = marker_of s QHOLD).
  { injection H as <-. transitivity (marker_of s1 QHOLD); [destruct perm; reflexivity|].
    apply (marker_of_same (with_qrecs s rest) s1 QHOLD (frame_markers _ _ F)). }
  split; [|split].
  - intros d. rewrite Htok, Hsup.
    destruct (HR d) as [A|(r & A & B & C & D & E & G)]; [left; split; [exact A|reflexivity]|].
    right. left. exists QHOLD, to. split; [exact C|]. split; [exact D|]. split; [reflexivity|]. split; [exact G|].
    apply filter_In in A. destruct A as (A1 & A2).
    eapply (mv_accept s _ d QHOLD to froms perm r); [reflexivity|reflexivity|exact A1|exact A2|exact B|exact E].
  - intros d Hne. rewrite Hsc. apply HT. rewrite Htok in Hne.
    destruct (HR d) as [A|(r & _ & _ & C & _)]; [change (tok s1 d = tok s d) in A; rewrite <- A; exact Hne|].
    change (tok s d = [(QHOLD, 1)]) in C. rewrite C. discriminate.
  - rewrite Hmk. exact HQ.
Qed.

(** ** MsgAddScopeDataAccess rewrites the scope record only *)
Lemma step_adddata_good s sg d da s' :
  Inv s -> step_adddata s sg d da = Some s' -> good s (OAddData sg d da) s'.
Proof.
  intros (HB & HT & HQ). unfold step_adddata.
  destruct (is_nil sg || is_nil da); [discriminate|].
  destruct (scope_of s d) as [e|] eqn:Esc; [|discriminate].
  destruct (existsb (fun x => mem x (sc_data e)) da); [discriminate|].
  match goal with |- match ?c with _ => _ end = _ -> _ => destruct c as [a2|]; [|discriminate] end.
  intros [= <-]. split; [|split].
  - intros d'. left. split; reflexivity.
  - intros d' Hne.
    match goal with |- scope_of (commit (with_scopes s (put (scopes s) d ?v)) a2) d' <> None =>
      change (scope_of (with_scopes s (put (scopes s) d v)) d' <> None) end.
    rewrite scope_of_put. destruct (N.eqb_spec d' d) as [->|Hd]; [discriminate|]. apply HT. exact Hne.
  - exact HQ.
Qed.

(** ** Every operation *)
Lemma step_opt_good s o s' : Inv s -> step_opt s o = Some s' -> good s o s'.
Proof.
  intros HI. destruct o; cbn [step_opt].
  - apply step_write_good; exact HI.
  - apply step_adddata_good; exact HI.
  - intros H. apply (step_update_spec _ _ _ _ _ HI H).
  - intros H. apply (step_migrate_spec _ _ _ _ _ HI H).
  - intros H. apply (step_delete_spec _ _ _ _ HI H).
  - apply step_send_good; exact HI.
  - apply step_multisend_good; exact HI.
  - match goal with |- (if ?c then _ else _) = _ -> _ => destruct c; [discriminate|] end.
    intros [= <-]. apply quiet_good; [exact HI|reflexivity..].
  - match goal with |- match ?c with _ => _ end = _ -> _ => destruct c; [|discriminate] end.
    intros [= <-]. apply quiet_good; [exact HI|reflexivity..].
  - destruct (N.eqb_spec a QHOLD) as [|Hne]; [discriminate|]. intros [= <-].
    destruct HI as (HB & HT & HQ). split; [|split].
    + intros d. left. split; reflexivity.
    + exact HT.
    + unfold marker_of. cbn [markers with_markers]. rewrite get_put.
      destruct (N.eqb_spec QHOLD a) as [Heq|_]; [congruence|exact HQ].
  - intros [= <-]. apply quiet_good; [exact HI|reflexivity..].
  - match goal with |- (if ?c then _ else _) = _ -> _ => destruct c; [discriminate|] end.
    intros [= <-]. apply quiet_good; [exact HI|reflexivity..].
  - intros [= <-]. apply quiet_good; [exact HI|reflexivity..].
  - intros [= <-]. apply quiet_good; [exact HI|reflexivity..].
  - intros [= <-]. apply quiet_good; [exact HI|reflexivity..].
  - intros [= <-]. apply quiet_good; [exact HI|reflexivity..].
  - apply step_accept_spec; exact HI.
  - destruct (is_nil froms); [discriminate|]. intros [= <-]. apply quiet_good; [exact HI|reflexivity..].
  - discriminate.
  - discriminate.
  - discriminate.
  - discriminate.
  - intros [= <-]. apply quiet_good; [exact HI|reflexivity..].
Qed.

(** ** Histories *)
Lemma run_op_inv s o : Inv s -> Inv (run_op s o).
Proof.
  intros HI. unfold run_op, step. destruct (step_opt s o) as [s'|] eqn:E; cbn [fst]; [|exact HI].
  apply (good_inv s o s' HI). apply step_opt_good; assumption.
Qed.

Lemma run_inv ops : forall s, Inv s -> Inv (run s ops).
Proof.
  unfold run. induction ops as [|o r IH]; intros s HI; cbn [fold_left]; [exact HI|].
  apply IH. apply run_op_inv. exact HI.
Qed.

Lemma init_inv sp mks w bl : get mks QHOLD = None -> Inv (init sp mks w bl).
Proof.
  intros HQ. split; [|split].
  - intros d. left. split; reflexivity.
  - intros d Hne. contradiction Hne. reflexivity.
  - exact HQ.
Qed.

Lemma run_app s a b : run s (a ++ b) = run (run s a) b.
Proof. unfold run. apply fold_left_app. Qed.

(** What an accepted or rejected step does, in one statement. *)
Lemma run_op_trans s o : Inv s -> trans s o (run_op s o).
Proof.
  intros HI. unfold run_op, step. destruct (step_opt s o) as [s'|] eqn:E; cbn [fst].
  - apply (step_opt_good _ _ _ HI E).
  - intros d. left. split; reflexivity.
Qed.
