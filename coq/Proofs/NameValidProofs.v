(** Proofs/NameValidProofs.v — the validity predicate of the name model, by cases, and what it
    implies for the store-key pre-image and for direct parents (property C15).

    Only the string-level lemmas of Proofs/NameProofs.v are used (nothing from its sections
    [Inv] and [Steps]). *)
From Coq Require Import Arith NArith List String Ascii Bool Lia.
From PV Require Import Name.Name Proofs.NameProofs.
Import ListNotations.
Open Scope string_scope.
Open Scope list_scope.

(** * Character-level facts *)

Lemma plain_char_facts : forall c,
  implb (plain_char c) (negb (is_space c) && Ascii.eqb (lower_char c) c) = true.
Proof. intros c. destruct c as [[] [] [] [] [] [] [] []]; reflexivity. Qed.

Lemma plain_not_space : forall c, plain_char c = true -> is_space c = false.
Proof.
  intros c H. pose proof (plain_char_facts c) as F. rewrite H in F. cbn [implb] in F.
  apply andb_true_iff in F. destruct F as [F _]. apply negb_true_iff in F. exact F.
Qed.

Lemma plain_lower_char : forall c, plain_char c = true -> lower_char c = c.
Proof.
  intros c H. pose proof (plain_char_facts c) as F. rewrite H in F. cbn [implb] in F.
  apply andb_true_iff in F. destruct F as [_ F]. apply Ascii.eqb_eq in F. exact F.
Qed.

Lemma space_dot_facts : forall c, implb (is_space c) (negb (is_dot c)) = true.
Proof. intros c. destruct c as [[] [] [] [] [] [] [] []]; reflexivity. Qed.

Lemma space_not_dot : forall c, is_space c = true -> is_dot c = false.
Proof.
  intros c H. pose proof (space_dot_facts c) as F. rewrite H in F. cbn [implb] in F.
  apply negb_true_iff in F. exact F.
Qed.

(** * A plain segment is in normal form *)

Lemma plain_trim_left : forall s, forallb plain_char (chars s) = true -> trim_left_by is_space s = s.
Proof.
  intros [|c r] H; [reflexivity|]. cbn [chars forallb] in H. apply andb_true_iff in H.
  destruct H as [Hc _]. cbn [trim_left_by]. rewrite (plain_not_space c Hc). reflexivity.
Qed.

Lemma plain_trim_right : forall s, forallb plain_char (chars s) = true -> trim_right_by is_space s = s.
Proof.
  intros s. induction s as [|c r IH]; intros H; [reflexivity|].
  cbn [chars forallb] in H. apply andb_true_iff in H. destruct H as [Hc Hr].
  cbn [trim_right_by]. rewrite (IH Hr), (plain_not_space c Hc). reflexivity.
Qed.

Lemma plain_to_lower : forall s, forallb plain_char (chars s) = true -> to_lower s = s.
Proof.
  intros s. induction s as [|c r IH]; intros H; [reflexivity|].
  cbn [chars forallb] in H. apply andb_true_iff in H. destruct H as [Hc Hr].
  cbn [to_lower]. rewrite (IH Hr), (plain_lower_char c Hc). reflexivity.
Qed.

Lemma plain_normal : forall s, forallb plain_char (chars s) = true -> to_lower (trim s) = s.
Proof.
  intros s H. unfold trim. rewrite (plain_trim_left s H), (plain_trim_right s H).
  exact (plain_to_lower s H).
Qed.

Lemma is_normal_iff : forall seg, is_normal seg = true <-> to_lower (trim seg) = seg.
Proof. intros seg. unfold is_normal. apply String.eqb_eq. Qed.

(** * [normalize p n = Some n], unfolded *)

Definition lim_seg (p : params) (seg : string) : bool :=
  (p_min_seg p <=? slen seg)%N && ((slen seg <=? p_max_seg p)%N || is_uuid seg).

Lemma normalize_some : forall p raw n, normalize p raw = Some n -> n = normalize_name raw.
Proof.
  intros p raw n H. unfold normalize in H. cbv zeta in H.
  destruct (negb (is_valid_name (normalize_name raw))); [discriminate|].
  match type of H with (if ?c then _ else _) = _ => destruct c end; [|discriminate].
  injection H as H. symmetry. exact H.
Qed.

Lemma normalize_self_iff : forall p n,
  normalize p n = Some n <->
  normalize_name n = n /\ is_valid_name n = true /\
  forallb (lim_seg p) (split_dots n) && (N.of_nat (List.length (split_dots n)) <=? p_max_levels p)%N = true.
Proof.
  intros p n. split.
  - intros H. pose proof (normalize_some p n n H) as Hn. symmetry in Hn.
    unfold normalize in H. cbv zeta in H. rewrite Hn in H.
    destruct (is_valid_name n) eqn:E1; cbn [negb] in H; [|discriminate].
    split; [exact Hn|]. split; [reflexivity|].
    match type of H with (if ?c then _ else _) = _ => destruct c eqn:E2 end; [|discriminate].
    exact E2.
  - intros [Hn [Hv Hl]]. unfold normalize. cbv zeta. rewrite Hn, Hv. cbn [negb].
    unfold lim_seg in Hl. rewrite Hl. reflexivity.
Qed.

(** * [normalize_name n = n], per segment *)

Lemma Forall_nodot_map : forall l,
  Forall (fun x => has_dot x = false) l -> Forall (fun x => has_dot x = false) (map seg_norm l).
Proof.
  intros l H. induction H as [|x l Hx Hl IH]; cbn [map]; constructor; [|exact IH].
  apply has_dot_seg_norm. exact Hx.
Qed.

Lemma split_normalize_name : forall s, split_dots (normalize_name s) = map seg_norm (split_dots s).
Proof.
  intros s. unfold normalize_name. change (fun seg : string => to_lower (trim seg)) with seg_norm.
  apply split_join.
  - destruct (split_dots_cons s) as [h [t E]]. rewrite E. discriminate.
  - apply Forall_nodot_map. apply split_dots_nodot.
Qed.

Lemma map_fix : forall (A : Type) (f : A -> A) (l : list A),
  map f l = l <-> Forall (fun x => f x = x) l.
Proof.
  intros A f l. induction l as [|a l IH]; cbn [map].
  - split; [intros _; constructor|reflexivity].
  - split.
    + intros H. injection H as Ha Hl. constructor; [exact Ha|]. apply IH. exact Hl.
    + intros H. inversion H as [|x l' Ha Hl]; subst. rewrite Ha. f_equal. apply IH. exact Hl.
Qed.

Lemma normalize_name_fix_iff : forall n,
  normalize_name n = n <-> Forall (fun seg => seg_norm seg = seg) (split_dots n).
Proof.
  intros n. split.
  - intros H. apply map_fix. rewrite <- split_normalize_name. rewrite H. reflexivity.
  - intros H. apply map_fix in H. unfold normalize_name.
    change (fun seg : string => to_lower (trim seg)) with seg_norm. rewrite H. apply join_split.
Qed.

(** * One segment: the model's three conditions are the documented rule *)

Lemma segment_iff : forall p s,
  (seg_norm s = s /\ valid_segment s = true /\ lim_seg p s = true) <-> doc_segment p s = true.
Proof.
  intros p s. unfold lim_seg, doc_segment, valid_segment, is_normal, seg_norm.
  change (fun c : ascii => is_dash c || is_lower c || is_digit c) with plain_char.
  destruct (forallb plain_char (chars s)) eqn:Epl.
  - pose proof (plain_normal s Epl) as Hpn. rewrite Hpn. rewrite String.eqb_refl.
    destruct (is_uuid s), (count_by is_dash s <=? 1)%N, (p_min_seg p <=? slen s)%N,
             (slen s <=? p_max_seg p)%N; cbn [andb orb]; intuition congruence.
  - destruct (String.eqb_spec (to_lower (trim s)) s) as [En|En];
    destruct (is_uuid s), (count_by is_dash s <=? 1)%N, (p_min_seg p <=? slen s)%N,
             (slen s <=? p_max_seg p)%N; cbn [andb orb]; intuition congruence.
Qed.

Lemma segments_iff : forall p l,
  (Forall (fun s => seg_norm s = s) l /\ forallb valid_segment l = true /\ forallb (lim_seg p) l = true)
  <-> forallb (doc_segment p) l = true.
Proof.
  intros p l. induction l as [|a l IH]; cbn [forallb].
  - split; [intros _; reflexivity|]. intros _. split; [constructor|]. split; reflexivity.
  - split.
    + intros [HF [Hv Hl]]. apply andb_true_iff in Hv. apply andb_true_iff in Hl.
      destruct Hv as [Hv1 Hv2]. destruct Hl as [Hl1 Hl2].
      inversion HF as [|x l' Hx Hl']; subst. apply andb_true_iff. split.
      * apply (proj1 (segment_iff p a)). split; [exact Hx|]. split; [exact Hv1|exact Hl1].
      * apply (proj1 IH). split; [exact Hl'|]. split; [exact Hv2|exact Hl2].
    + intros H. apply andb_true_iff in H. destruct H as [Ha Hr].
      destruct (proj2 (segment_iff p a) Ha) as [A1 [A2 A3]].
      destruct (proj2 IH Hr) as [R1 [R2 R3]].
      split; [constructor; [exact A1|exact R1]|].
      split; apply andb_true_iff; split; assumption.
Qed.

(** * 1. the model's validity predicate is the documented rule, by cases *)
Theorem valid_iff : forall p n, valid p n <-> doc_valid p n = true.
Proof.
  intros p n. unfold valid, doc_valid. split.
  - intros H. apply normalize_self_iff in H. destruct H as [Hn [Hv Hl]].
    apply andb_true_iff in Hl. destruct Hl as [Hl1 Hl2].
    apply andb_true_iff. split; [exact Hl2|].
    apply (proj1 (segments_iff p (split_dots n))).
    split; [apply normalize_name_fix_iff; exact Hn|]. split; [exact Hv|exact Hl1].
  - intros H. apply andb_true_iff in H. destruct H as [Hlev Hsegs].
    destruct (proj2 (segments_iff p (split_dots n)) Hsegs) as [S1 [S2 S3]].
    apply normalize_self_iff. split; [apply normalize_name_fix_iff; exact S1|].
    split; [exact S2|]. apply andb_true_iff. split; [exact S3|exact Hlev].
Qed.

(** * The key pre-image: the whole-name guard is implied by the per-segment guard *)

Lemma trim_left_empty_spaces : forall s,
  trim_left_by is_space s = EmptyString -> forallb is_space (chars s) = true.
Proof.
  intros s. induction s as [|c r IH]; intros H; [reflexivity|].
  cbn [trim_left_by] in H. cbn [chars forallb].
  destruct (is_space c) eqn:E; [exact (IH H)|discriminate H].
Qed.

Lemma trim_right_empty : forall t,
  hd_ok t -> is_empty (trim_right_by is_space t) = true -> t = EmptyString.
Proof.
  intros [|c r] H He; [reflexivity|]. cbn [hd_ok] in H. cbn [trim_right_by] in He.
  rewrite H in He. cbn [andb is_empty] in He. discriminate He.
Qed.

Lemma trim_empty_spaces : forall s, is_empty (trim s) = true -> forallb is_space (chars s) = true.
Proof.
  intros s H. apply trim_left_empty_spaces. apply trim_right_empty; [apply hd_ok_trim_left|exact H].
Qed.

Lemma spaces_nodot : forall s, forallb is_space (chars s) = true -> has_dot s = false.
Proof.
  intros s. unfold has_dot. induction s as [|c r IH]; intros H; [reflexivity|].
  cbn [chars forallb] in H. apply andb_true_iff in H. destruct H as [Hc Hr].
  cbn [chars existsb]. rewrite (space_not_dot c Hc), (IH Hr). reflexivity.
Qed.

Lemma preimage_simpl : forall n,
  name_key_preimage n =
  if existsb is_empty (map trim (split_dots n)) then None
  else Some (String.concat "" (rev (map trim (split_dots n)))).
Proof.
  intros n. unfold name_key_preimage. cbv zeta.
  destruct (is_empty (trim n)) eqn:E; [|reflexivity].
  rewrite (split_nodot n (spaces_nodot n (trim_empty_spaces n E))).
  cbn [map existsb]. rewrite E. reflexivity.
Qed.

Lemma seg_norm_trim : forall x, trim (seg_norm x) = seg_norm x.
Proof. intros x. unfold seg_norm. rewrite trim_lower, trim_idem. reflexivity. Qed.

Lemma seg_fix_trim : forall s, seg_norm s = s -> trim s = s.
Proof. intros s H. rewrite <- H. apply seg_norm_trim. Qed.

Lemma min_nonempty : forall p l,
  (1 <= p_min_seg p)%N -> forallb (lim_seg p) l = true -> existsb is_empty l = false.
Proof.
  intros p l Hmin. induction l as [|a l IH]; cbn [forallb existsb]; intros H; [reflexivity|].
  apply andb_true_iff in H. destruct H as [Ha Hr]. rewrite (IH Hr).
  destruct a as [|c r]; [|reflexivity]. exfalso.
  unfold lim_seg in Ha. apply andb_true_iff in Ha. destruct Ha as [Ha _].
  apply N.leb_le in Ha. change (slen EmptyString) with 0%N in Ha. lia.
Qed.

(** * 2. the key pre-image of a valid name is the plain reversed concatenation *)
Lemma preimage_of_valid : forall p n, (1 <= p_min_seg p)%N -> valid p n ->
  name_key_preimage n = Some (String.concat "" (rev (split_dots n))).
Proof.
  intros p n Hmin Hv. unfold valid in Hv. apply normalize_self_iff in Hv.
  destruct Hv as [Hn [_ Hl]]. apply andb_true_iff in Hl. destruct Hl as [Hl _].
  apply normalize_name_fix_iff in Hn. rewrite preimage_simpl.
  assert (Ht : map trim (split_dots n) = split_dots n).
  { apply map_fix. eapply Forall_impl; [|exact Hn]. intros a Ha. apply seg_fix_trim. exact Ha. }
  rewrite Ht. rewrite (min_nonempty p _ Hmin Hl). reflexivity.
Qed.

(** * 3. exact characterisation of key equality for an injective hash *)
Section InjectiveHash.
  Variable hash : string -> string.
  Hypothesis Hinj : forall x y, hash x = hash y -> x = y.

  Lemma keys_equal_iff_preimage_equal : forall n1 n2,
    name_key hash n1 = name_key hash n2 <-> name_key_preimage n1 = name_key_preimage n2.
  Proof.
    intros n1 n2. split; [|apply same_preimage_same_key].
    unfold name_key. destruct (name_key_preimage n1) as [a|], (name_key_preimage n2) as [b|];
      intros H; try discriminate H; [|reflexivity].
    injection H as H. rewrite (Hinj a b H). reflexivity.
  Qed.

  Lemma keys_equal_iff_revcat : forall p n1 n2, (1 <= p_min_seg p)%N -> valid p n1 -> valid p n2 ->
    (name_key hash n1 = name_key hash n2 <->
     String.concat "" (rev (split_dots n1)) = String.concat "" (rev (split_dots n2))).
  Proof.
    intros p n1 n2 Hmin H1 H2. rewrite keys_equal_iff_preimage_equal.
    rewrite (preimage_of_valid p n1 Hmin H1), (preimage_of_valid p n2 Hmin H2).
    split; [intros H; injection H as H; exact H|intros H; rewrite H; reflexivity].
  Qed.
End InjectiveHash.

(** * 4. normalisation and the key pre-image *)

Lemma to_lower_app : forall a b, to_lower (a ++ b)%string = (to_lower a ++ to_lower b)%string.
Proof.
  intros a b. induction a as [|c a IH]; [reflexivity|].
  cbn [append to_lower]. rewrite IH. reflexivity.
Qed.

Lemma to_lower_concat : forall l, to_lower (String.concat "" l) = String.concat "" (map to_lower l).
Proof.
  intros l. induction l as [|a l IH]; [reflexivity|].
  cbn [map]. rewrite !concat_empty_cons, to_lower_app, IH. reflexivity.
Qed.

Lemma existsb_empty_lower : forall l, existsb is_empty (map to_lower l) = existsb is_empty l.
Proof.
  intros l. induction l as [|a l IH]; [reflexivity|].
  cbn [map existsb]. rewrite is_empty_lower, IH. reflexivity.
Qed.

Lemma preimage_normalize_name : forall n,
  name_key_preimage (normalize_name n) = option_map to_lower (name_key_preimage n).
Proof.
  intros n. rewrite !preimage_simpl. rewrite split_normalize_name.
  assert (Hm : map trim (map seg_norm (split_dots n)) = map to_lower (map trim (split_dots n))).
  { rewrite !map_map. apply map_ext. intros x. apply seg_norm_trim. }
  rewrite Hm, existsb_empty_lower.
  destruct (existsb is_empty (map trim (split_dots n))); cbn [option_map]; [reflexivity|].
  f_equal. rewrite to_lower_concat, map_rev. reflexivity.
Qed.

Lemma preimage_lower_of_normal : forall n, normalize_name n = n ->
  option_map to_lower (name_key_preimage n) = name_key_preimage n.
Proof. intros n H. rewrite <- preimage_normalize_name, H. reflexivity. Qed.

(** * 5. what BindName builds *)
Lemma bind_name_shape : forall p parent child name, has_dot child = false ->
  normalize p (child ++ "." ++ parent) = Some name -> parent_of name = Some (normalize_name parent).
Proof.
  intros p parent child name Hc H. apply normalize_some in H. subst name.
  unfold parent_of. rewrite split_normalize_name.
  change (child ++ "." ++ parent)%string with (child ++ String "."%char parent)%string.
  rewrite (split_app_dot child parent Hc).
  unfold normalize_name. change (fun seg : string => to_lower (trim seg)) with seg_norm.
  destruct (split_dots_cons parent) as [h [t E]]. rewrite E. cbn [map]. reflexivity.
Qed.

(** * 6. direct parents *)

Lemma parent_of_inv : forall n dp, parent_of n = Some dp ->
  exists a b t, split_dots n = a :: b :: t /\ dp = join_dots (b :: t).
Proof.
  intros n dp H. unfold parent_of in H. destruct (split_dots n) as [|a [|b t]]; try discriminate H.
  injection H as H. exists a, b, t. split; [reflexivity|symmetry; exact H].
Qed.

(** a name with a parent is child-segment ++ "." ++ parent *)
Lemma parent_of_split : forall n dp, parent_of n = Some dp ->
  exists seg, has_dot seg = false /\ n = (seg ++ "." ++ dp)%string /\ split_dots n = seg :: split_dots dp.
Proof.
  intros n dp H. destruct (parent_of_inv n dp H) as [a [b [t [Es Ed]]]].
  pose proof (split_dots_nodot n) as Hnd. rewrite Es in Hnd.
  inversion Hnd as [|x l Ha Hbt]; subst x l.
  exists a. split; [exact Ha|]. split.
  - rewrite <- (join_split n) at 1. rewrite Es. unfold join_dots. rewrite concat_cons2.
    rewrite Ed. reflexivity.
  - rewrite Es, Ed. rewrite split_join; [reflexivity|discriminate|exact Hbt].
Qed.

(** validity is inherited by the direct parent *)
Lemma parent_of_valid : forall p n dp, valid p n -> parent_of n = Some dp -> valid p dp.
Proof.
  intros p n dp Hv Hp. apply valid_iff in Hv. apply valid_iff.
  destruct (parent_of_split n dp Hp) as [seg [_ [_ Es]]].
  unfold doc_valid in *. rewrite Es in Hv. cbn [forallb List.length] in Hv.
  apply andb_true_iff in Hv. destruct Hv as [Hlev Hs].
  apply andb_true_iff in Hs. destruct Hs as [_ Hs].
  apply andb_true_iff. split; [|exact Hs].
  apply N.leb_le in Hlev. apply N.leb_le. lia.
Qed.

(** * Examples *)
Example doc_valid_examples :
  doc_valid default_params "aa.bb-cc.123e4567-e89b-12d3-a456-426614174000" = true /\
  doc_valid default_params "a.bb" = false /\
  doc_valid default_params "aa.b--c" = false /\
  doc_valid default_params "Aa.bb" = false.
Proof. vm_compute. repeat split. Qed.
