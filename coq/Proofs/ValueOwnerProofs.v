(** Proofs about [PV.Metadata.ValueOwner] (property C09), part 1: finite maps, the bank primitives
    (subtract / restrict / add), the composed send restriction, the authz store as threaded through
    the signer checks, the value-owner signer check. *)
From Coq Require Import ZArith NArith List Bool Lia.
From PV Require Import Metadata.ValueOwner.
Import ListNotations.
Open Scope Z_scope.

(** ** Finite maps and small helpers *)
Lemma get_put {V} (m : list (N * V)) k v k' :
  get (put m k v) k' = if N.eqb k' k then Some v else get m k'.
Proof. reflexivity. Qed.

Lemma mem_In a l : mem a l = true <-> In a l.
Proof.
  unfold mem. rewrite existsb_exists. split.
  - intros (x & Hx & He). apply N.eqb_eq in He. subst. exact Hx.
  - intros H. exists a. split; [exact H|apply N.eqb_refl].
Qed.

Lemma mem_false a l : mem a l = false <-> ~ In a l.
Proof.
  split.
  - intros H Hin. apply mem_In in Hin. congruence.
  - intros H. destruct (mem a l) eqn:E; [|reflexivity]. apply mem_In in E. contradiction.
Qed.

Lemma mem_cons a b l : mem a (b :: l) = N.eqb a b || mem a l.
Proof. reflexivity. Qed.

Lemma any_in_spec agents l : any_in agents l = true <-> exists g, In g agents /\ In g l.
Proof.
  unfold any_in. rewrite existsb_exists. split.
  - intros (g & Hg & Hm). exists g. split; [exact Hg|apply mem_In; exact Hm].
  - intros (g & Hg & Hm). exists g. split; [exact Hg|apply mem_In; exact Hm].
Qed.

Lemma is_nil_false {A} (l : list A) : is_nil l = false <-> l <> [].
Proof. destruct l; cbn; split; congruence. Qed.

Lemma has_dup_false l : has_dup l = false -> NoDup l.
Proof.
  induction l as [|a r IH]; cbn [has_dup]; intros H; [constructor|].
  apply orb_false_elim in H. destruct H as (H1 & H2). constructor; [|apply IH; exact H2].
  apply mem_false. exact H1.
Qed.

Lemma NoDup_app_inv {A} (l l' : list A) :
  NoDup (l ++ l') -> NoDup l /\ NoDup l' /\ forall x, In x l -> ~ In x l'.
Proof.
  induction l as [|a r IH]; cbn [app]; intros H.
  - split; [constructor|]. split; [exact H|]. intros x [].
  - inversion H as [|x y Hx Hy]; subst. destruct (IH Hy) as (H1 & H2 & H3).
    split; [constructor; [|exact H1]|split; [exact H2|]].
    + intros Hin. apply Hx. apply in_or_app. left. exact Hin.
    + intros x [<-|Hin]; [|apply H3; exact Hin]. intros Hin. apply Hx. apply in_or_app. right. exact Hin.
Qed.

Lemma dedup_incl l : forall x, In x (dedup l) -> In x l.
Proof.
  induction l as [|a r IH]; cbn [dedup]; intros x; [intros []|].
  intros [<-|H]; [left; reflexivity|]. apply filter_In in H. right. apply IH. apply H.
Qed.

Lemma dedup_complete l : forall x, In x l -> In x (dedup l).
Proof.
  induction l as [|a r IH]; cbn [dedup]; intros x; [intros []|].
  intros [<-|H]; [left; reflexivity|].
  destruct (N.eqb_spec a x) as [->|Hne]; [left; reflexivity|].
  right. apply filter_In. split; [apply IH; exact H|]. apply negb_true_iff. apply N.eqb_neq. exact Hne.
Qed.

Lemma dedup_NoDup l : NoDup (dedup l).
Proof.
  induction l as [|a r IH]; cbn [dedup]; [constructor|]. constructor.
  - intros H. apply filter_In in H. destruct H as (_ & H). rewrite N.eqb_refl in H. discriminate.
  - apply NoDup_filter. exact IH.
Qed.

(** ** Accessors of updated states *)
Lemma tok_put s d l d' :
  tok (with_toks s (put (toks s) d l)) d' = if N.eqb d' d then l else tok s d'.
Proof. unfold tok at 1. cbn [toks with_toks]. rewrite get_put. destruct (N.eqb d' d); reflexivity. Qed.

Lemma sup_put s d v d' :
  sup (with_sups s (put (sups s) d v)) d' = if N.eqb d' d then v else sup s d'.
Proof. unfold sup at 1. cbn [sups with_sups]. rewrite get_put. destruct (N.eqb d' d); reflexivity. Qed.

Lemma scope_of_put s d v d' :
  scope_of (with_scopes s (put (scopes s) d v)) d' = if N.eqb d' d then v else scope_of s d'.
Proof.
  unfold scope_of at 1. cbn [scopes with_scopes]. rewrite get_put.
  destruct (N.eqb d' d); [destruct v|]; reflexivity.
Qed.

(** Everything but the token balances and the quarantine records is the same. *)
Definition frame (s s' : state) : Prop :=
  scopes s' = scopes s /\ specs s' = specs s /\ sups s' = sups s /\ markers s' = markers s /\
  grants s' = grants s /\ wasm s' = wasm s /\ blocked s' = blocked s /\ sanctioned s' = sanctioned s /\
  qopt s' = qopt s /\ qauto s' = qauto s /\ now s' = now s.

Lemma frame_refl s : frame s s.
Proof. repeat split. Qed.

Lemma frame_trans a b c : frame a b -> frame b c -> frame a c.
Proof.
  intros (H1 & H2 & H3 & H4 & H5 & H6 & H7 & H8 & H9 & H10 & H11)
         (G1 & G2 & G3 & G4 & G5 & G6 & G7 & G8 & G9 & G10 & G11).
  repeat split; congruence.
Qed.

Lemma frame_with_toks s t : frame s (with_toks s t).
Proof. repeat split. Qed.
Lemma frame_with_qrecs s t : frame s (with_qrecs s t).
Proof. repeat split. Qed.

Lemma frame_markers s s' : frame s s' -> markers s' = markers s.
Proof. intros H. apply H. Qed.
Lemma frame_sups s s' : frame s s' -> sups s' = sups s.
Proof. intros H. apply H. Qed.
Lemma frame_scopes s s' : frame s s' -> scopes s' = scopes s.
Proof. intros H. apply H. Qed.
Lemma frame_sanctioned s s' : frame s s' -> sanctioned s' = sanctioned s.
Proof. intros H. apply H. Qed.

Lemma frame_qdest s s' f t : frame s s' -> qdest s' f t = qdest s f t.
Proof.
  intros (_ & _ & _ & _ & _ & _ & _ & _ & Ho & Ha & _).
  unfold qdest, quarantines, is_auto. rewrite Ho, Ha. reflexivity.
Qed.

Lemma sup_same s s' d : sups s' = sups s -> sup s' d = sup s d.
Proof. intros H. unfold sup. rewrite H. reflexivity. Qed.

Lemma scope_of_same s s' d : scopes s' = scopes s -> scope_of s' d = scope_of s d.
Proof. intros H. unfold scope_of. rewrite H. reflexivity. Qed.

Lemma marker_of_same s s' a : markers s' = markers s -> marker_of s' a = marker_of s a.
Proof. intros H. unfold marker_of. rewrite H. reflexivity. Qed.

(** ** Holder lists *)
Lemma bal_of_single a v b : bal_of [(a, v)] b = if N.eqb a b then v else 0.
Proof. unfold bal_of. cbn. destruct (N.eqb a b); reflexivity. Qed.

Lemma set_bal_single_zero a v : set_bal [(a, v)] a 0 = [].
Proof. unfold set_bal. cbn. rewrite N.eqb_refl. reflexivity. Qed.

Lemma set_bal_nil a v : v <> 0 -> set_bal [] a v = [(a, v)].
Proof. intros H. unfold set_bal. cbn. destruct (Z.eqb_spec v 0); [contradiction|reflexivity]. Qed.

(** Weak well-formedness kept while a transfer is under way: every holder list is empty or one
    account with one unit. *)
Definition Wk (s : state) : Prop := forall d, tok s d = [] \/ exists h, tok s d = [(h, 1)].

Lemma bank_sub_spec s from d amt s1 :
  Wk s -> 0 < amt -> bank_sub s from d amt = Some s1 ->
  tok s d = [(from, 1)] /\ amt = 1 /\
  (forall d', tok s1 d' = if N.eqb d' d then [] else tok s d') /\ frame s s1 /\ qrecs s1 = qrecs s.
Proof.
  intros HW Hamt. unfold bank_sub.
  destruct (HW d) as [Ht|(h & Ht)]; rewrite Ht.
  - cbn [bal_of find]. destruct (Z.ltb_spec 0 amt); [discriminate|lia].
  - rewrite bal_of_single. destruct (N.eqb_spec h from) as [->|Hne].
    + destruct (Z.ltb_spec 1 amt); [discriminate|]. assert (amt = 1) by lia. subst amt.
      intros [= <-]. split; [reflexivity|]. split; [reflexivity|].
      split; [|split; [apply frame_with_toks|reflexivity]].
      intros d'. rewrite tok_put. replace (1 - 1) with 0 by reflexivity.
      rewrite set_bal_single_zero. reflexivity.
    + destruct (Z.ltb_spec 0 amt); [discriminate|lia].
Qed.

Lemma bank_add_spec s to d :
  tok s d = [] ->
  (forall d', tok (bank_add s to d 1) d' = if N.eqb d' d then [(to, 1)] else tok s d') /\
  frame s (bank_add s to d 1) /\ qrecs (bank_add s to d 1) = qrecs s.
Proof.
  intros Ht. unfold bank_add. split; [|split; [apply frame_with_toks|reflexivity]].
  intros d'. rewrite tok_put, Ht. cbn [bal_of find]. rewrite set_bal_nil by discriminate. reflexivity.
Qed.

Definition denoms (c : list (sid * Z)) : list sid := map fst c.

Lemma sub_coins_spec from : forall coins s s0,
  Wk s -> (forall e, In e coins -> 0 < snd e) -> sub_coins s from coins = Some s0 ->
  frame s s0 /\ qrecs s0 = qrecs s /\ NoDup (denoms coins) /\
  (forall e, In e coins -> tok s (fst e) = [(from, 1)] /\ snd e = 1) /\
  (forall d, tok s0 d = if mem d (denoms coins) then [] else tok s d) /\ Wk s0.
Proof.
  induction coins as [|[d amt] r IH]; intros s s0 HW Hpos; cbn [sub_coins].
  - intros [= <-]. split; [apply frame_refl|]. split; [reflexivity|]. split; [constructor|].
    split; [intros e []|]. split; [intros d; reflexivity|exact HW].
  - destruct (bank_sub s from d amt) as [s1|] eqn:E; [|discriminate]. intros H.
    assert (Hamt : 0 < amt) by (apply (Hpos (d, amt)); left; reflexivity).
    destruct (bank_sub_spec _ _ _ _ _ HW Hamt E) as (Ht & Hone & Ht1 & F1 & Q1). subst amt.
    assert (HW1 : Wk s1).
    { intros d'. rewrite Ht1. destruct (N.eqb d' d); [left; reflexivity|apply HW]. }
    destruct (IH s1 s0 HW1 (fun e He => Hpos e (or_intror He)) H) as (F2 & Q2 & ND & Hall & Ht0 & HW0).
    split; [eapply frame_trans; eassumption|]. split; [congruence|].
    assert (Hnd : ~ In d (denoms r)).
    { intros Hin. apply in_map_iff in Hin. destruct Hin as ([d2 a2] & Hd2 & Hin). cbn in Hd2. subst d2.
      destruct (Hall _ Hin) as (Hx & _). cbn [fst] in Hx. rewrite Ht1, N.eqb_refl in Hx. discriminate. }
    split; [constructor; assumption|]. split; [|split; [|exact HW0]].
    + intros e [<-|He]; [cbn [fst snd]; split; [exact Ht|reflexivity]|].
      destruct (Hall e He) as (Hx & Hy). split; [|exact Hy].
      rewrite Ht1 in Hx. destruct (N.eqb (fst e) d); [discriminate|exact Hx].
    + intros d'. rewrite Ht0, Ht1. unfold denoms. cbn [map fst]. rewrite mem_cons.
      destruct (N.eqb d' d); cbn [orb]; [destruct (mem d' (map fst r)); reflexivity|reflexivity].
Qed.

Lemma add_coins_spec to : forall coins s,
  NoDup (denoms coins) -> (forall e, In e coins -> snd e = 1) -> (forall e, In e coins -> tok s (fst e) = []) ->
  frame s (add_coins s to coins) /\ qrecs (add_coins s to coins) = qrecs s /\
  (forall d, tok (add_coins s to coins) d = if mem d (denoms coins) then [(to, 1)] else tok s d).
Proof.
  induction coins as [|[d amt] r IH]; intros s ND Hone Hnil; cbn [add_coins].
  - split; [apply frame_refl|]. split; [reflexivity|]. intros d. reflexivity.
  - assert (amt = 1) by (apply (Hone (d, amt)); left; reflexivity). subst amt.
    destruct (bank_add_spec s to d (Hnil (d, 1) (or_introl eq_refl))) as (Ht1 & F1 & Q1).
    inversion ND as [|x l Hnd ND']; subst.
    destruct (IH (bank_add s to d 1) ND' (fun e He => Hone e (or_intror He))) as (F2 & Q2 & Ht2).
    { intros e He. rewrite Ht1. destruct (N.eqb_spec (fst e) d) as [Heq|_]; [|apply Hnil; right; exact He].
      exfalso. apply Hnd. rewrite <- Heq. apply in_map. exact He. }
    split; [exact (frame_trans _ _ _ F1 F2)|]. split; [rewrite Q2; exact Q1|].
    intros d'. rewrite Ht2, Ht1. unfold denoms in *. cbn [map fst]. rewrite mem_cons.
    destruct (N.eqb_spec d' d) as [->|_]; cbn [orb]; [|reflexivity].
    destruct (mem d (map fst r)) eqn:Em; [|reflexivity]. apply mem_In in Em. contradiction.
Qed.

(** ** The send restriction *)
Lemma restrict_from mks from to agents m :
  restrict mks from to agents = true -> get mks from = Some m ->
  exists g, In g agents /\ In g (mk_withdraw m).
Proof.
  unfold restrict. intros H Hm. rewrite Hm in H. apply andb_prop in H. destruct H as (H & _).
  apply andb_prop in H. destruct H as (_ & H). apply any_in_spec. exact H.
Qed.

Lemma restrict_to mks from to agents m :
  restrict mks from to agents = true -> get mks to = Some m -> mk_restricted m = true ->
  (agents = [] /\ In from (mk_deposit m)) \/ (exists g, In g agents /\ In g (mk_deposit m)).
Proof.
  unfold restrict. intros H Hm Hr. rewrite Hm, Hr in H. apply andb_prop in H. destruct H as (_ & H).
  destruct agents as [|a r]; cbn [is_nil] in H.
  - left. split; [reflexivity|apply mem_In; exact H].
  - right. apply any_in_spec. exact H.
Qed.

Definition dest (s : state) (qbyp : bool) (from to : addr) : addr := if qbyp then to else qdest s from to.

Lemma apply_restrictions_spec s from to coins agents qbyp s1 to' :
  apply_restrictions s from to coins agents qbyp = Some (s1, to') ->
  restrict (markers s) from to agents = true /\ mem from (sanctioned s) = false /\
  to' = dest s qbyp from to /\ frame s s1 /\ toks s1 = toks s /\
  (qrecs s1 = qrecs s \/ (qbyp = false /\ to' = QHOLD /\ qrecs s1 = add_rec (qrecs s) to from coins)).
Proof.
  unfold apply_restrictions, dest, qdest.
  destruct (restrict (markers s) from to agents); [|discriminate]. cbn [negb].
  destruct (mem from (sanctioned s)); [discriminate|].
  destruct qbyp; cbn [orb].
  - intros [= <- <-]. repeat split. left. reflexivity.
  - destruct (quarantines s from to); cbn [negb].
    + intros [= <- <-]. split; [reflexivity|]. split; [reflexivity|]. split; [reflexivity|].
      split; [apply frame_with_qrecs|]. split; [reflexivity|]. right. auto.
    + intros [= <- <-]. repeat split. left. reflexivity.
Qed.

Lemma tok_toks s s' d : toks s' = toks s -> tok s' d = tok s d.
Proof. intros H. unfold tok. rewrite H. reflexivity. Qed.

Lemma coins_valid_spec coins :
  coins_valid coins = true -> (forall e, In e coins -> 0 < snd e) /\ NoDup (denoms coins).
Proof.
  unfold coins_valid. intros H. apply andb_prop in H. destruct H as (H1 & H2). split.
  - intros e He. rewrite forallb_forall in H1. specialize (H1 e He). apply Z.ltb_lt. exact H1.
  - apply has_dup_false. apply negb_true_iff. exact H2.
Qed.

(** SendCoins under the weak invariant: every listed denom was held as one unit by the sender and
    is afterwards held as one unit by the (possibly redirected) receiver; nothing else moved. *)
Lemma send_spec s from to coins agents qbyp s' :
  Wk s -> send s from to coins agents qbyp = Some s' ->
  restrict (markers s) from to agents = true /\ mem from (sanctioned s) = false /\ frame s s' /\
  (forall e, In e coins -> tok s (fst e) = [(from, 1)]) /\
  (forall d, tok s' d = if mem d (denoms coins) then [(dest s qbyp from to, 1)] else tok s d) /\
  (qrecs s' = qrecs s \/
   (qbyp = false /\ dest s qbyp from to = QHOLD /\ qrecs s' = add_rec (qrecs s) to from coins)).
Proof.
  intros HW. unfold send. destruct (coins_valid coins) eqn:Ev; [|discriminate]. cbn [negb].
  destruct (coins_valid_spec _ Ev) as (Hpos & ND).
  destruct (sub_coins s from coins) as [s0|] eqn:Es; [|discriminate].
  destruct (sub_coins_spec _ _ _ _ HW Hpos Es) as (F0 & Q0 & _ & Hall & Ht0 & HW0).
  destruct (apply_restrictions s0 from to coins agents qbyp) as [[s1 to']|] eqn:Ea; [|discriminate].
  intros [= <-].
  destruct (apply_restrictions_spec _ _ _ _ _ _ _ _ Ea) as (Hr & Hs & Hto & F1 & T1 & Q1).
  assert (Hd : dest s0 qbyp from to = dest s qbyp from to).
  { unfold dest. destruct qbyp; [reflexivity|apply frame_qdest; exact F0]. }
  rewrite Hd in Hto. subst to'.
  destruct (add_coins_spec (dest s qbyp from to) coins s1 ND (fun e He => proj2 (Hall e He))) as (F2 & Q2 & Ht2).
  { intros e He. rewrite (tok_toks _ _ _ T1), Ht0.
    assert (Hm : mem (fst e) (denoms coins) = true) by (apply mem_In; apply in_map; exact He).
    rewrite Hm. reflexivity. }
  split; [rewrite <- (frame_markers _ _ F0); exact Hr|].
  split; [rewrite <- (frame_sanctioned _ _ F0); exact Hs|].
  split; [eapply frame_trans; [exact F0|eapply frame_trans; eassumption]|].
  split; [intros e He; apply (Hall e He)|]. split.
  - intros d. rewrite Ht2, (tok_toks _ _ _ T1), Ht0. destruct (mem d (denoms coins)); reflexivity.
  - rewrite Q2. destruct Q1 as [Q1|(Hq & Hh & Q1)]; [left; congruence|].
    right. split; [exact Hq|]. split; [exact Hh|]. rewrite Q1, Q0. reflexivity.
Qed.

Lemma denoms_ones ds : denoms (ones ds) = ds.
Proof. unfold denoms, ones. rewrite map_map. cbn. apply map_id. Qed.

Lemma in_ones e ds : In e (ones ds) -> In (fst e) ds /\ snd e = 1.
Proof.
  unfold ones. intros H. apply in_map_iff in H. destruct H as (d & <- & Hd). split; [exact Hd|reflexivity].
Qed.

(** ** The authz store threaded through one message *)
Lemma kind_eqb_eq a b : kind_eqb a b = true <-> a = b.
Proof. destruct a, b; cbn; split; congruence. Qed.

Lemma kind_eqb_refl a : kind_eqb a a = true.
Proof. destruct a; reflexivity. Qed.

(** Acceptable for the rest of this message: accepted before (cache) or usable in the store. *)
Definition acceptable (t : Z) (a : actx) (x y : addr) (k : kind) : bool :=
  cache_has (a_cache a) x y k || usable t (a_grants a) x y k.
Definition le (t : Z) (a' a : actx) : Prop :=
  forall x y k, acceptable t a' x y k = true -> acceptable t a x y k = true.

Lemma le_refl t a : le t a a.
Proof. intros x y k H. exact H. Qed.
Lemma le_trans t a b c : le t a b -> le t b c -> le t a c.
Proof. intros H1 H2 x y k H. apply H2. apply H1. exact H. Qed.

Lemma acceptable_actx0 s x y k : acceptable (now s) (actx0 s) x y k = has_grant s x y k.
Proof. reflexivity. Qed.

Lemma g_is_key x y k x' y' k' g :
  g_is x y k g = true -> g_is x' y' k' g = true -> x = x' /\ y = y' /\ k = k'.
Proof.
  unfold g_is. intros H1 H2.
  apply andb_prop in H1. destruct H1 as (H1 & K1). apply andb_prop in H1. destruct H1 as (X1 & Y1).
  apply andb_prop in H2. destruct H2 as (H2 & K2). apply andb_prop in H2. destruct H2 as (X2 & Y2).
  apply N.eqb_eq in X1, Y1, X2, Y2. apply kind_eqb_eq in K1, K2. repeat split; congruence.
Qed.

(** Replacing or removing the authorization under one key does not change the others. *)
Lemma lookup_st_update_other x y k new x' y' k' : forall st,
  (x, y, k) <> (x', y', k') ->
  (forall g', new = Some g' -> g_is x y k g' = true) ->
  lookup (st_update st x y k new) x' y' k' = lookup st x' y' k'.
Proof.
  intros st Hne Hnew. unfold lookup. induction st as [|g r IH]; cbn [st_update find]; [reflexivity|].
  destruct (g_is x y k g) eqn:Eg.
  - assert (Hg : g_is x' y' k' g = false).
    { destruct (g_is x' y' k' g) eqn:E2; [|reflexivity]. exfalso. apply Hne.
      destruct (g_is_key _ _ _ _ _ _ _ Eg E2) as (-> & -> & ->). reflexivity. }
    rewrite Hg. destruct new as [g'|]; [|reflexivity]. cbn [find].
    assert (Hg' : g_is x' y' k' g' = false).
    { destruct (g_is x' y' k' g') eqn:E2; [|reflexivity]. exfalso. apply Hne.
      destruct (g_is_key _ _ _ _ _ _ _ (Hnew g' eq_refl) E2) as (-> & -> & ->). reflexivity. }
    rewrite Hg'. reflexivity.
  - cbn [find]. destruct (g_is x' y' k' g); [reflexivity|exact IH].
Qed.

Lemma cache_has_cons c x y k x' y' k' :
  cache_has ((x, y, k) :: c) x' y' k' = (N.eqb x x' && N.eqb y y' && kind_eqb k k') || cache_has c x' y' k'.
Proof. reflexivity. Qed.

Lemma key_dec (x y : addr) (k : kind) x' y' k' : {(x, y, k) = (x', y', k')} + {(x, y, k) <> (x', y', k')}.
Proof.
  destruct (N.eq_dec x x') as [->|Hx]; [|right; congruence].
  destruct (N.eq_dec y y') as [->|Hy]; [|right; congruence].
  destruct k, k'; try (left; reflexivity); right; congruence.
Qed.

(** After an accepted probe the key is in the cache; other keys are as before. *)
Lemma cached_le t a st x y k :
  usable t (a_grants a) x y k = true ->
  (forall x' y' k', (x, y, k) <> (x', y', k') -> lookup st x' y' k' = lookup (a_grants a) x' y' k') ->
  le t (cached a st x y k) a.
Proof.
  intros Hu Hoth x' y' k'. unfold acceptable, cached. cbn [a_cache a_grants]. rewrite cache_has_cons.
  destruct (key_dec x y k x' y' k') as [Heq|Hne].
  - injection Heq as <- <- <-. intros _. rewrite Hu. apply orb_true_r.
  - assert (Hk : N.eqb x x' && N.eqb y y' && kind_eqb k k' = false).
    { destruct (N.eqb_spec x x') as [->|]; [|reflexivity]. destruct (N.eqb_spec y y') as [->|]; [|reflexivity].
      cbn [andb]. destruct (kind_eqb k k') eqn:Ek; [|reflexivity]. apply kind_eqb_eq in Ek. subst. congruence. }
    rewrite Hk. cbn [orb]. unfold usable. rewrite (Hoth _ _ _ Hne). intros H. exact H.
Qed.

Lemma lookup_g_is st x y k g : lookup st x y k = Some g -> g_is x y k g = true.
Proof. unfold lookup. intros H. apply find_some in H. apply H. Qed.

Lemma lookup1_spec t a x y k a' :
  lookup1 t a x y k = LYes a' -> acceptable t a x y k = true /\ le t a' a.
Proof.
  unfold lookup1, acceptable. destruct (cache_has (a_cache a) x y k) eqn:Ec.
  - intros [= <-]. split; [reflexivity|apply le_refl].
  - cbn [orb]. unfold usable, live. destruct (lookup (a_grants a) x y k) as [g|] eqn:El; [|discriminate].
    destruct (expired t g) eqn:Ee; [discriminate|]. cbn [negb andb].
    destruct (g_left g) as [n|] eqn:En.
    + destruct (Z.leb_spec n 0) as [|Hn]; [discriminate|].
      assert (Hpos : (0 <? n) = true) by (apply Z.ltb_lt; exact Hn).
      assert (Hu : usable t (a_grants a) x y k = true).
      { unfold usable, live. rewrite El, Ee, En. exact Hpos. }
      destruct (n =? 1).
      * intros [= <-]. split; [exact Hpos|]. apply cached_le; [exact Hu|].
        intros x' y' k' Hne. apply lookup_st_update_other; [exact Hne|discriminate].
      * destruct (match g_exp g with Some e => e <=? t | None => false end); [discriminate|].
        intros [= <-]. split; [exact Hpos|]. apply cached_le; [exact Hu|].
        intros x' y' k' Hne. apply lookup_st_update_other; [exact Hne|].
        intros g' [= <-]. apply lookup_g_is in El. exact El.
    + intros [= <-]. split; [reflexivity|]. apply cached_le.
      * unfold usable, live. rewrite El, Ee, En. reflexivity.
      * intros. reflexivity.
Qed.

Lemma try_kinds_spec t x y : forall ks a a',
  try_kinds t a x y ks = LYes a' ->
  (exists k', In k' ks /\ acceptable t a x y k' = true) /\ le t a' a.
Proof.
  induction ks as [|k r IH]; intros a a'; cbn [try_kinds]; [discriminate|].
  destruct (lookup1 t a x y k) as [| |a1] eqn:E; [discriminate| |].
  - intros H. destruct (IH _ _ H) as ((k' & Hk & Ha) & Hle). split; [|exact Hle].
    exists k'. split; [right; exact Hk|exact Ha].
  - intros [= <-]. destruct (lookup1_spec _ _ _ _ _ _ E) as (Ha & Hle). split; [|exact Hle].
    exists k. split; [left; reflexivity|exact Ha].
Qed.

Lemma find_grantee_spec t x k : forall gs a g a',
  find_grantee t a x gs k = Some (Some g, a') ->
  In g gs /\ (exists k', In k' (kind_urls k) /\ acceptable t a x g k' = true) /\ le t a' a.
Proof.
  induction gs as [|y r IH]; intros a g a'; cbn [find_grantee]; [discriminate|].
  destruct (try_kinds t a x y (kind_urls k)) as [| |a1] eqn:E; [discriminate| |].
  - intros H. destruct (IH _ _ _ H) as (Hin & Hk & Hle). split; [right; exact Hin|]. split; assumption.
  - intros [= <- <-]. destruct (try_kinds_spec _ _ _ _ _ _ E) as (Hk & Hle).
    split; [left; reflexivity|]. split; assumption.
Qed.

Lemma find_grantee_none t x k : forall gs a a',
  find_grantee t a x gs k = Some (None, a') -> a' = a.
Proof.
  induction gs as [|y r IH]; intros a a'; cbn [find_grantee]; [intros [= <-]; reflexivity|].
  destruct (try_kinds t a x y (kind_urls k)); [discriminate| |discriminate]. apply IH.
Qed.

Lemma find_grantee_le t x k gs a o a' :
  find_grantee t a x gs k = Some (o, a') -> le t a' a.
Proof.
  destruct o as [g|]; intros H.
  - apply (find_grantee_spec _ _ _ _ _ _ _ H).
  - rewrite (find_grantee_none _ _ _ _ _ _ H). apply le_refl.
Qed.

(** Every signer check only ever shrinks what is acceptable. *)
Lemma all_required_signed_le t sg k : forall req a l a',
  all_required_signed t req sg k a = Some (l, a') -> le t a' a.
Proof.
  induction req as [|o r IH]; intros a l a'; cbn [all_required_signed]; [intros [= _ <-]; apply le_refl|].
  destruct (mem o sg).
  - destruct (all_required_signed t r sg k a) as [[l2 a2]|] eqn:E; [|discriminate].
    intros [= _ <-]. eapply IH. exact E.
  - destruct (find_grantee t a o sg k) as [[[x|] a1]|] eqn:Ef; try discriminate.
    destruct (all_required_signed t r sg k a1) as [[l2 a2]|] eqn:E; [|discriminate].
    intros [= _ <-]. eapply le_trans; [eapply IH; exact E|eapply find_grantee_le; exact Ef].
Qed.

Lemma assoc_authz_le t sg k : forall ps a l a',
  assoc_authz t sg k ps a = Some (l, a') -> le t a' a.
Proof.
  induction ps as [|d r IH]; intros a l a'; cbn [assoc_authz]; [intros [= _ <-]; apply le_refl|].
  destruct (negb (pd_opt d) && negb (has_signer d)).
  - destruct (find_grantee t a (pd_addr d) sg k) as [[o a1]|] eqn:Ef; [|discriminate].
    assert (Hle1 : le t a1 a) by (eapply find_grantee_le; exact Ef).
    destruct o as [g|].
    + destruct (assoc_authz t sg k r a1) as [[l2 a2]|] eqn:E; [|discriminate].
      intros [= _ <-]. eapply le_trans; [eapply IH; exact E|exact Hle1].
    + destruct (assoc_authz t sg k r a1) as [[l2 a2]|] eqn:E; [|discriminate].
      intros [= _ <-]. eapply le_trans; [eapply IH; exact E|exact Hle1].
  - destruct (assoc_authz t sg k r a) as [[l2 a2]|] eqn:E; [|discriminate].
    intros [= _ <-]. eapply IH. exact E.
Qed.

Lemma role_authz_le t sg k r : forall ps a o a',
  role_authz t sg k r ps a = Some (o, a') -> le t a' a.
Proof.
  induction ps as [|d rest IH]; intros a o a'; cbn [role_authz]; [intros [= _ <-]; apply le_refl|].
  destruct (usable_as r d && negb (has_signer d)).
  - destruct (find_grantee t a (pd_addr d) sg k) as [[og a1]|] eqn:Ef; [|discriminate].
    assert (Hle1 : le t a1 a) by (eapply find_grantee_le; exact Ef).
    destruct og as [g|]; [intros [= _ <-]; exact Hle1|].
    destruct (role_authz t sg k r rest a1) as [[[l|] a2]|] eqn:E; [| |discriminate];
      intros [= _ <-]; (eapply le_trans; [eapply IH; exact E|exact Hle1]).
  - destruct (role_authz t sg k r rest a) as [[[l|] a2]|] eqn:E; [| |discriminate];
      intros [= _ <-]; (eapply IH; exact E).
Qed.

Lemma assoc_authz_roles_le t sg k : forall missing ps bad a ps' bad' a',
  assoc_authz_roles t sg k missing ps bad a = Some (ps', bad', a') -> le t a' a.
Proof.
  induction missing as [|r rest IH]; intros ps bad a ps' bad' a'; cbn [assoc_authz_roles];
    [intros [= _ _ <-]; apply le_refl|].
  destruct (role_authz t sg k r ps a) as [[[l|] a1]|] eqn:E; [| |discriminate]; intros H;
    (eapply le_trans; [eapply IH; exact H|eapply role_authz_le; exact E]).
Qed.

Lemma parties_signed_le t parties roles sg k a l a' :
  parties_signed t parties roles sg k a = Some (l, a') -> le t a' a.
Proof.
  unfold parties_signed.
  match goal with |- context [assoc_authz t sg k ?p a] => destruct (assoc_authz t sg k p a) as [[p2 a1]|] eqn:E1 end;
    [|discriminate].
  destruct (existsb _ p2); [discriminate|].
  destruct (assoc_roles roles p2) as [p3 missing].
  destruct (assoc_authz_roles t sg k missing p3 false a1) as [[[p4 bad] a2]|] eqn:E2; [|discriminate].
  destruct bad; [discriminate|]. intros [= _ <-].
  eapply le_trans; [eapply assoc_authz_roles_le; exact E2|eapply assoc_authz_le; exact E1].
Qed.

Lemma existing_signed_le s e roles sg k a l a' :
  existing_signed s e roles sg k a = Some (l, a') -> le (now s) a' a.
Proof.
  unfold existing_signed. destruct (negb (sc_rollup e)); [apply all_required_signed_le|].
  destruct roles as [rs|]; [|apply all_required_signed_le].
  destruct (parties_signed (now s) (sc_parties e) rs sg k a) as [[pds a1]|] eqn:E; [|discriminate].
  intros [= _ <-]. eapply parties_signed_le. exact E.
Qed.

(** ** Signer checks *)
Lemma effective_signers_incl s sg g : In g (effective_signers s sg) -> In g sg.
Proof.
  unfold effective_signers. destruct sg as [|a r]; [intros []|].
  destruct (is_wasm s a); [|auto]. intros [<-|[]]. left. reflexivity.
Qed.

Lemma effective_signers_nonempty s sg : sg <> [] -> effective_signers s sg <> [].
Proof.
  unfold effective_signers. destruct sg as [|a r]; [congruence|]. intros _.
  destruct (is_wasm s a); discriminate.
Qed.

Lemma opt_is_true o a : opt_is o a = true <-> o = Some a.
Proof.
  unfold opt_is. destruct o as [b|]; [|split; discriminate].
  rewrite N.eqb_eq. split; [intros ->; reflexivity|intros [= ->]; reflexivity].
Qed.

(** A grant acceptable at the start of the message for one of the types this message accepts. *)
Definition granted (t : Z) (a : actx) (e g : addr) (k : kind) : Prop :=
  exists k', In k' (kind_urls k) /\ acceptable t a e g k' = true.

Lemma granted_le t a' a e g k : le t a' a -> granted t a' e g k -> granted t a e g k.
Proof. intros Hle (k' & Hk & Ha). exists k'. split; [exact Hk|apply Hle; exact Ha]. Qed.

(** Every current holder that is not the proposed one signed (effectively), is a marker, or
    granted authz to an effective signer. *)
Lemma vo_check_spec s proposed eff k : forall existing a used a',
  vo_check s existing proposed eff k a = Some (used, a') ->
  le (now s) a' a /\
  forall e, In e existing -> proposed <> Some e ->
  In e eff \/ is_marker s e = true \/ (exists g, In g eff /\ granted (now s) a e g k).
Proof.
  induction existing as [|x r IH]; intros a used a' H; cbn [vo_check] in H.
  - injection H as _ <-. split; [apply le_refl|intros e []].
  - destruct (opt_is proposed x) eqn:Eo.
    + destruct (IH _ _ _ H) as (Hle & Hr). split; [exact Hle|].
      intros e [<-|Hin] Hne; [apply opt_is_true in Eo; contradiction|apply Hr; assumption].
    + destruct (mem x eff) eqn:Em.
      * destruct (vo_check s r proposed eff k a) as [[l a1]|] eqn:Eu; [|discriminate].
        injection H as _ <-. destruct (IH _ _ _ Eu) as (Hle & Hr). split; [exact Hle|].
        intros e [<-|Hin] Hne; [left; apply mem_In; exact Em|apply Hr; assumption].
      * destruct (is_marker s x) eqn:Ek.
        -- destruct (IH _ _ _ H) as (Hle & Hr). split; [exact Hle|].
           intros e [<-|Hin] Hne; [right; left; exact Ek|apply Hr; assumption].
        -- destruct (find_grantee (now s) a x eff k) as [[[g|] a1]|] eqn:Eg; try discriminate.
           destruct (vo_check s r proposed eff k a1) as [[l a2]|] eqn:Eu; [|discriminate].
           injection H as _ <-. destruct (IH _ _ _ Eu) as (Hle & Hr).
           destruct (find_grantee_spec _ _ _ _ _ _ _ Eg) as (Hg & Hgr & Hle1).
           split; [eapply le_trans; eassumption|].
           intros e [<-|Hin] Hne.
           ++ right. right. exists g. split; [exact Hg|exact Hgr].
           ++ destruct (Hr e Hin Hne) as [H1|[H2|(g' & Hg' & Hgr')]]; [left; exact H1|right; left; exact H2|].
              right. right. exists g'. split; [exact Hg'|eapply granted_le; eassumption].
Qed.

(** What an accepted ValidateScopeValueOwnersSigners gives about a holder [e] that changes. *)
Lemma vo_signers_spec s existing proposed sg k a agents used a' e :
  vo_signers s existing proposed sg k a = Some (agents, used, a') ->
  In e existing -> proposed <> Some e ->
  agents = effective_signers s sg /\
  (In e agents \/ is_marker s e = true \/ (exists g, In g agents /\ granted (now s) a e g k)).
Proof.
  unfold vo_signers. intros H Hin Hne.
  destruct (match existing with [x] => opt_is proposed x | _ => false end) eqn:Eearly.
  - destruct existing as [|x [|y r]]; try discriminate.
    apply opt_is_true in Eearly. destruct Hin as [->|[]]. contradiction.
  - destruct (vo_check s existing proposed (effective_signers s sg) k a) as [[u a1]|] eqn:Eu; [|discriminate].
    injection H as <- _ _. split; [reflexivity|]. eapply vo_check_spec; eassumption.
Qed.

(** When ValidateScopeValueOwnersSigners did not return early, the agents are the effective signers. *)
Lemma vo_signers_agents s existing proposed sg k a agents used a' :
  vo_signers s existing proposed sg k a = Some (agents, used, a') ->
  (exists e, existing = [e] /\ proposed = Some e /\ agents = []) \/ agents = effective_signers s sg.
Proof.
  unfold vo_signers.
  destruct (match existing with [x] => opt_is proposed x | _ => false end) eqn:Eearly.
  - destruct existing as [|x [|y r]]; try discriminate. apply opt_is_true in Eearly.
    intros [= <- _ _]. left. exists x. auto.
  - destruct (vo_check s existing proposed (effective_signers s sg) k a) as [[u a1]|]; [|discriminate].
    intros [= <- _ _]. right. reflexivity.
Qed.

(** For the four message types that move tokens only the type itself is accepted. *)
Lemma granted_plain s e g k :
  k <> KAddData -> granted (now s) (actx0 s) e g k -> has_grant s e g k = true.
Proof.
  intros Hk (k' & Hin & Ha). rewrite acceptable_actx0 in Ha.
  destruct k; cbn [kind_urls] in Hin; try contradiction;
    (destruct Hin as [<-|[]]; exact Ha).
Qed.
