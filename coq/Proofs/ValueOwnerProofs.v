(** Proofs about [PV.Metadata.ValueOwner] (property C09), part 1: the bank primitives, the
    send restriction, the signer checks. *)
From Coq Require Import ZArith NArith List Bool Lia.
From PV Require Import Metadata.ValueOwner.
Import ListNotations.
Open Scope Z_scope.

(** ** Finite maps and small helpers *)
Lemma get_put {V} (m : list (N * V)) k v k' :
  get (put m k v) k' = if N.eqb k' k then Some v else get m k'.
Proof. reflexivity. Qed.

Lemma mem_In a l : mem a l = true <-> In a l.
Proof.
  unfold mem. rewrite existsb_exists. split.
  - intros (x & Hx & He). apply N.eqb_eq in He. subst. exact Hx.
  - intros H. exists a. split; [exact H|apply N.eqb_refl].
Qed.

Lemma any_in_spec agents l : any_in agents l = true <-> exists g, In g agents /\ In g l.
Proof.
  unfold any_in. rewrite existsb_exists. split.
  - intros (g & Hg & Hm). exists g. split; [exact Hg|apply mem_In; exact Hm].
  - intros (g & Hg & Hm). exists g. split; [exact Hg|apply mem_In; exact Hm].
Qed.

Lemma is_nil_false {A} (l : list A) : is_nil l = false <-> l <> [].
Proof. destruct l; cbn; split; congruence. Qed.

(** ** Accessors of updated states *)
Lemma tok_with_toks s t d : tok (with_toks s t) d = match get t d with Some l => l | None => [] end.
Proof. reflexivity. Qed.

Lemma tok_put s d l d' :
  tok (with_toks s (put (toks s) d l)) d' = if N.eqb d' d then l else tok s d'.
Proof. unfold tok at 1. cbn [toks with_toks]. rewrite get_put. destruct (N.eqb d' d); reflexivity. Qed.

Lemma sup_put s d v d' :
  sup (with_sups s (put (sups s) d v)) d' = if N.eqb d' d then v else sup s d'.
Proof. unfold sup at 1. cbn [sups with_sups]. rewrite get_put. destruct (N.eqb d' d); reflexivity. Qed.

Lemma scope_of_put s d v d' :
  scope_of (with_scopes s (put (scopes s) d v)) d' = if N.eqb d' d then v else scope_of s d'.
Proof.
  unfold scope_of at 1. cbn [scopes with_scopes]. rewrite get_put.
  destruct (N.eqb d' d); [destruct v|]; reflexivity.
Qed.

(** Everything but the token balances is the same. *)
Definition same_but_toks (s s' : state) : Prop :=
  scopes s' = scopes s /\ specs s' = specs s /\ sups s' = sups s /\ markers s' = markers s /\
  grants s' = grants s /\ wasm s' = wasm s /\ blocked s' = blocked s.

Lemma same_but_toks_refl s : same_but_toks s s.
Proof. repeat split. Qed.

Lemma same_but_toks_trans a b c : same_but_toks a b -> same_but_toks b c -> same_but_toks a c.
Proof.
  intros (H1 & H2 & H3 & H4 & H5 & H6 & H7) (G1 & G2 & G3 & G4 & G5 & G6 & G7).
  repeat split; congruence.
Qed.

Lemma same_but_toks_with s t : same_but_toks s (with_toks s t).
Proof. repeat split. Qed.

Lemma sup_same s s' d : sups s' = sups s -> sup s' d = sup s d.
Proof. intros H. unfold sup. rewrite H. reflexivity. Qed.

Lemma scope_of_same s s' d : scopes s' = scopes s -> scope_of s' d = scope_of s d.
Proof. intros H. unfold scope_of. rewrite H. reflexivity. Qed.

(** ** Holder lists *)
Lemma bal_of_single a v b : bal_of [(a, v)] b = if N.eqb a b then v else 0.
Proof. unfold bal_of. cbn. destruct (N.eqb a b); reflexivity. Qed.

Lemma set_bal_single_zero a v : set_bal [(a, v)] a 0 = [].
Proof. unfold set_bal. cbn. rewrite N.eqb_refl. reflexivity. Qed.

Lemma set_bal_nil a v : v <> 0 -> set_bal [] a v = [(a, v)].
Proof. intros H. unfold set_bal. cbn. destruct (Z.eqb_spec v 0); [contradiction|reflexivity]. Qed.

(** ** One unit moving under the bank invariant *)
Lemma move_inv s from to d amt s' :
  BankInv s -> 0 < amt -> move s from to d amt = Some s' ->
  tok s d = [(from, 1)] /\ amt = 1 /\
  s' = with_toks (with_toks s (put (toks s) d [])) (put (put (toks s) d []) d [(to, 1)]).
Proof.
  intros HB Hamt. unfold move, bank_sub.
  destruct (HB d) as [(Hs & Ht)|(Hs & h & Ht)]; rewrite Ht.
  - cbn. destruct (Z.ltb_spec 0 amt); [discriminate|lia].
  - rewrite bal_of_single. destruct (N.eqb_spec h from) as [->|Hne].
    + destruct (Z.ltb_spec 1 amt); [discriminate|]. assert (amt = 1) by lia. subst amt.
      intros [= <-]. split; [reflexivity|]. split; [reflexivity|].
      unfold bank_add. rewrite tok_put, N.eqb_refl. cbn [Z.sub Z.pos_sub].
      replace (1 - 1) with 0 by reflexivity. rewrite set_bal_single_zero.
      cbn [bal_of find]. rewrite set_bal_nil by discriminate. reflexivity.
    + destruct (Z.ltb_spec 0 amt); [discriminate|lia].
Qed.

(** The token of [d] went from [f] to [to]; nothing else happened. *)
Lemma moved_tok s d to d' :
  tok (with_toks (with_toks s (put (toks s) d [])) (put (put (toks s) d []) d [(to, 1)])) d' =
  if N.eqb d' d then [(to, 1)] else tok s d'.
Proof.
  unfold tok at 1. cbn [toks with_toks]. rewrite !get_put.
  destruct (N.eqb d' d); reflexivity.
Qed.

(** [sent P s s' to]: every scope token either stayed, or went from some holder [f] with [P f] to [to]. *)
Definition sent (P : addr -> Prop) (s s' : state) (to : addr) : Prop :=
  same_but_toks s s' /\
  forall d, tok s' d = tok s d \/ (exists f, P f /\ tok s d = [(f, 1)] /\ tok s' d = [(to, 1)]).

Lemma sent_refl P s to : sent P s s to.
Proof. split; [apply same_but_toks_refl|]. intros d. left. reflexivity. Qed.

Lemma sent_trans P a b c to : sent P a b to -> sent P b c to -> sent P a c to.
Proof.
  intros (F1 & H1) (F2 & H2). split; [eapply same_but_toks_trans; eassumption|].
  intros d. destruct (H1 d) as [E1|(f1 & P1 & A1 & B1)]; destruct (H2 d) as [E2|(f2 & P2 & A2 & B2)].
  - left. congruence.
  - right. exists f2. rewrite <- E1. auto.
  - right. exists f1. rewrite E2. auto.
  - right. exists f1. auto.
Qed.

Lemma sent_bankinv P s s' to : BankInv s -> sent P s s' to -> BankInv s'.
Proof.
  intros HB ((_ & _ & Hsup & _) & H) d. rewrite (sup_same _ _ d Hsup).
  destruct (H d) as [E|(f & _ & A & B)].
  - rewrite E. apply HB.
  - right. destruct (HB d) as [(_ & Ht)|(Hs & _)]; [congruence|]. split; [exact Hs|]. exists to. exact B.
Qed.

Lemma sent_tokscope P s s' to : TokScope s -> sent P s s' to -> TokScope s'.
Proof.
  intros HT ((Hsc & _) & H) d Hne. rewrite (scope_of_same _ _ d Hsc). apply HT.
  destruct (H d) as [E|(f & _ & A & _)]; congruence.
Qed.

Lemma move_sent (P : addr -> Prop) s from to d amt s' :
  BankInv s -> 0 < amt -> P from -> move s from to d amt = Some s' -> sent P s s' to.
Proof.
  intros HB Hamt HP H. destruct (move_inv _ _ _ _ _ _ HB Hamt H) as (Ht & _ & ->).
  split; [repeat split|].
  intros d'. rewrite moved_tok. destruct (N.eqb_spec d' d) as [->|]; [|left; reflexivity].
  right. exists from. auto.
Qed.

Lemma move_all_sent (P : addr -> Prop) from to ds : forall s s',
  BankInv s -> P from -> move_all s from to ds = Some s' -> sent P s s' to.
Proof.
  induction ds as [|d r IH]; intros s s' HB HP; cbn [move_all].
  - intros [= <-]. apply sent_refl.
  - destruct (move s from to d 1) as [s1|] eqn:E; [|discriminate]. intros H.
    assert (S1 : sent P s s1 to) by (apply (move_sent P s from to d 1 s1 HB ltac:(lia) HP E)).
    eapply sent_trans; [exact S1|]. apply IH; [eapply sent_bankinv; eassumption|exact HP|exact H].
Qed.

(** ** The send restriction *)
Lemma restrict_from mks from to agents m :
  restrict mks from to agents = true -> get mks from = Some m ->
  exists g, In g agents /\ In g (mk_withdraw m).
Proof.
  unfold restrict. intros H Hm. rewrite Hm in H. apply andb_prop in H. destruct H as (H & _).
  apply andb_prop in H. destruct H as (_ & H). apply any_in_spec. exact H.
Qed.

Lemma restrict_to mks from to agents m :
  restrict mks from to agents = true -> get mks to = Some m -> mk_restricted m = true ->
  (agents = [] /\ In from (mk_deposit m)) \/ (exists g, In g agents /\ In g (mk_deposit m)).
Proof.
  unfold restrict. intros H Hm Hr. rewrite Hm, Hr in H. apply andb_prop in H. destruct H as (_ & H).
  destruct agents as [|a r]; cbn [is_nil] in H.
  - left. split; [reflexivity|apply mem_In; exact H].
  - right. apply any_in_spec. exact H.
Qed.

(** ** Signer checks *)
Lemma find_grantee_spec s granter grantees k g :
  find_grantee s granter grantees k = Some g -> In g grantees /\ authz s granter g k = true.
Proof. unfold find_grantee. intros H. apply find_some in H. exact H. Qed.

Lemma effective_signers_incl s sg g : In g (effective_signers s sg) -> In g sg.
Proof.
  unfold effective_signers. destruct sg as [|a r]; [intros []|].
  destruct (is_wasm s a); [|auto]. intros [<-|[]]. left. reflexivity.
Qed.

Lemma effective_signers_nonempty s sg : sg <> [] -> effective_signers s sg <> [].
Proof.
  unfold effective_signers. destruct sg as [|a r]; [congruence|]. intros _.
  destruct (is_wasm s a); discriminate.
Qed.

Lemma opt_is_true o a : opt_is o a = true <-> o = Some a.
Proof.
  unfold opt_is. destruct o as [b|]; [|split; discriminate].
  rewrite N.eqb_eq. split; [intros ->; reflexivity|intros [= ->]; reflexivity].
Qed.

Lemma authz_plain s a g k : k <> KAddData -> authz s a g k = has_grant s a g k.
Proof. intros H. unfold authz. destruct k; cbn [kind_urls existsb]; try apply orb_false_r. contradiction. Qed.

(** Every current holder that is not the proposed one signed (effectively), is a marker, or
    granted authz to an effective signer. *)
Lemma vo_check_spec s proposed eff k : forall existing used,
  vo_check s existing proposed eff k = Some used ->
  forall e, In e existing -> proposed <> Some e ->
  In e eff \/ is_marker s e = true \/ (exists g, In g eff /\ authz s e g k = true).
Proof.
  induction existing as [|x r IH]; intros used H e Hin Hne; [destruct Hin|].
  cbn [vo_check] in H.
  assert (Hr : forall u, vo_check s r proposed eff k = Some u -> In e r ->
               In e eff \/ is_marker s e = true \/ (exists g, In g eff /\ authz s e g k = true)).
  { intros u Hu Hi. eapply IH; eassumption. }
  destruct (opt_is proposed x) eqn:Eo.
  - apply opt_is_true in Eo. destruct Hin as [->|Hin]; [contradiction|]. eapply Hr; eassumption.
  - destruct (mem x eff) eqn:Em.
    + destruct (vo_check s r proposed eff k) as [u|] eqn:Eu; [|discriminate].
      destruct Hin as [->|Hin]; [left; apply mem_In; exact Em|eapply Hr; [reflexivity|exact Hin]].
    + destruct (is_marker s x) eqn:Ek.
      * destruct Hin as [->|Hin]; [right; left; exact Ek|eapply Hr; eassumption].
      * destruct (find_grantee s x eff k) as [g|] eqn:Eg; [|discriminate].
        destruct (vo_check s r proposed eff k) as [u|] eqn:Eu; [|discriminate].
        destruct Hin as [->|Hin]; [|eapply Hr; [reflexivity|exact Hin]].
        right. right. exists g. apply find_grantee_spec in Eg. exact Eg.
Qed.

(** What an accepted ValidateScopeValueOwnersSigners gives about a holder [e] that changes. *)
Lemma vo_signers_spec s existing proposed sg k agents used e :
  vo_signers s existing proposed sg k = Some (agents, used) ->
  In e existing -> proposed <> Some e ->
  agents = effective_signers s sg /\
  (In e agents \/ is_marker s e = true \/ (exists g, In g agents /\ authz s e g k = true)).
Proof.
  unfold vo_signers. intros H Hin Hne.
  destruct (match existing with [x] => opt_is proposed x | _ => false end) eqn:Eearly.
  - destruct existing as [|x [|y r]]; try discriminate.
    apply opt_is_true in Eearly. destruct Hin as [->|[]]. contradiction.
  - destruct (vo_check s existing proposed (effective_signers s sg) k) as [u|] eqn:Eu; [|discriminate].
    injection H as <- <-. split; [reflexivity|]. eapply vo_check_spec; eassumption.
Qed.
