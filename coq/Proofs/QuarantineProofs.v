(** Proofs about [PV.Quarantine.Quarantine] (property C07). *)
From Coq Require Import ZArith PArith List Bool Lia ZifyBool Permutation Sorted.
From PV Require Import Quarantine.Quarantine.
Import ListNotations.
Open Scope Z_scope.

Notation rget := (aget rkey_eqb).
Notation rdel := (adel rkey_eqb).
Notation rset := (aset rkey_eqb).

(** * Basics *)
Lemma amt_app c1 c2 d : amt (c1 ++ c2) d = amt c1 d + amt c2 d.
Proof. induction c1 as [|e r IH]; cbn [amt app]; [lia | rewrite IH; lia]. Qed.

Lemma amt_notin c d : ~ In d (denoms c) -> amt c d = 0.
Proof.
  induction c as [|e r IH]; cbn [amt denoms map]; intros Hn; [reflexivity|].
  destruct (Pos.eqb_spec (fst e) d) as [E|E].
  - exfalso. apply Hn. left. exact E.
  - rewrite IH; [lia|]. intros Hi. apply Hn. right. exact Hi.
Qed.

Lemma sorted_pos_nonneg c d : sorted_pos c = true -> 0 <= amt c d.
Proof.
  induction c as [|e r IH]; cbn [sorted_pos amt]; intros H; [lia|].
  apply andb_true_iff in H. destruct H as [H H3]. apply andb_true_iff in H. destruct H as [H1 _].
  specialize (IH H3). destruct (Pos.eqb (fst e) d); lia.
Qed.

Lemma coins_valid_nonneg c d : coins_valid c = true -> 0 <= amt c d.
Proof. destruct c as [|e r]; [discriminate|]. apply sorted_pos_nonneg. Qed.

Lemma addrs_eqb_eq x y : addrs_eqb x y = true <-> x = y.
Proof.
  revert y; induction x as [|a x IH]; destruct y as [|b y]; cbn [addrs_eqb]; try (split; congruence).
  rewrite andb_true_iff, Pos.eqb_eq, IH. split.
  - intros [-> ->]; reflexivity.
  - intros [= -> ->]; auto.
Qed.

Lemma rkey_eqb_eq x y : rkey_eqb x y = true <-> x = y.
Proof.
  destruct x as [a l], y as [b m]; unfold rkey_eqb; cbn [fst snd].
  rewrite andb_true_iff, Pos.eqb_eq, addrs_eqb_eq. split.
  - intros [-> ->]; reflexivity.
  - intros [= -> ->]; auto.
Qed.

Lemma rkey_eqb_refl k : rkey_eqb k k = true.
Proof. apply rkey_eqb_eq; reflexivity. Qed.

Lemma rkey_eqb_neq x y : x <> y -> rkey_eqb x y = false.
Proof. intros H. destruct (rkey_eqb x y) eqn:E; [apply rkey_eqb_eq in E; contradiction | reflexivity]. Qed.

Lemma rkey_eqb_sym x y : rkey_eqb x y = rkey_eqb y x.
Proof.
  destruct (rkey_eqb x y) eqn:E.
  - apply rkey_eqb_eq in E; subst. symmetry; apply rkey_eqb_refl.
  - symmetry. apply rkey_eqb_neq. intros ->. rewrite rkey_eqb_refl in E. discriminate.
Qed.

Lemma mem_In a l : mem a l = true <-> In a l.
Proof.
  unfold mem. rewrite existsb_exists. split.
  - intros (x & Hx & E). apply Pos.eqb_eq in E. subst. exact Hx.
  - intros H. exists a. split; [exact H | apply Pos.eqb_refl].
Qed.

(** * Sorting: the record key does not depend on the order of the sender lists *)
Lemma insert_perm a l : Permutation (insert a l) (a :: l).
Proof.
  induction l as [|b r IH]; cbn [insert]; [apply Permutation_refl|].
  destruct (Pos.leb a b); [apply Permutation_refl|].
  eapply perm_trans; [apply perm_skip, IH | apply perm_swap].
Qed.

Lemma sort_perm l : Permutation (sort l) l.
Proof.
  induction l as [|a r IH]; cbn [sort]; [apply perm_nil|].
  eapply perm_trans; [apply insert_perm | apply perm_skip, IH].
Qed.

Lemma insert_sorted a l : StronglySorted Pos.le l -> StronglySorted Pos.le (insert a l).
Proof.
  induction 1 as [|b r Hs IH Hf]; cbn [insert].
  - constructor; constructor.
  - destruct (Pos.leb_spec a b) as [L|L].
    + constructor; [constructor; assumption|]. constructor; [exact L|].
      eapply Forall_impl; [|exact Hf]. intros x Hx. cbv beta in Hx. lia.
    + constructor; [exact IH|].
      eapply Permutation_Forall; [apply Permutation_sym, insert_perm|].
      constructor; [lia | exact Hf].
Qed.

Lemma sort_sorted l : StronglySorted Pos.le (sort l).
Proof. induction l as [|a r IH]; cbn [sort]; [constructor | apply insert_sorted, IH]. Qed.

Lemma sorted_perm_eq l : forall l', StronglySorted Pos.le l -> StronglySorted Pos.le l' ->
  Permutation l l' -> l = l'.
Proof.
  induction l as [|a l IH]; intros l' Hs Hs' Hp.
  - apply Permutation_nil in Hp. subst; reflexivity.
  - destruct l' as [|b l']; [apply Permutation_sym, Permutation_nil in Hp; discriminate|].
    inversion Hs as [|? ? Hsl Hfa]; subst. inversion Hs' as [|? ? Hsl' Hfb]; subst.
    assert (Hab : a = b).
    { assert (Ia : In a (b :: l')) by (eapply Permutation_in; [exact Hp | left; reflexivity]).
      assert (Ib : In b (a :: l)) by (eapply Permutation_in; [apply Permutation_sym, Hp | left; reflexivity]).
      destruct Ia as [Ia|Ia]; [congruence|]. destruct Ib as [Ib|Ib]; [congruence|].
      rewrite Forall_forall in Hfa, Hfb. specialize (Hfa _ Ib). specialize (Hfb _ Ia). lia. }
    subst b. f_equal. apply IH; try assumption. eapply Permutation_cons_inv; exact Hp.
Qed.

Lemma perm_sort_eq l l' : Permutation l l' -> sort l = sort l'.
Proof.
  intros Hp. apply sorted_perm_eq; try apply sort_sorted.
  eapply perm_trans; [apply sort_perm|]. eapply perm_trans; [exact Hp|]. apply Permutation_sym, sort_perm.
Qed.

Lemma sfx_multi l : is_multi l = true -> sfx_of l = sort l.
Proof. destruct l as [|a [|b l]]; cbn [is_multi]; try discriminate. reflexivity. Qed.

Lemma perm_sfx_eq l l' : Permutation l l' -> sfx_of l = sfx_of l'.
Proof.
  intros Hp. destruct l as [|a [|b l]].
  - apply Permutation_nil in Hp. subst. reflexivity.
  - apply Permutation_length_1_inv in Hp. subst. reflexivity.
  - pose proof (Permutation_length Hp) as Hl. destruct l' as [|a' [|b' l']]; try discriminate.
    unfold sfx_of. apply perm_sort_eq, Hp.
Qed.

(* no two different named senders share their first 32 bytes *)
Definition inj_named (froms : list addr) : Prop :=
  forall a b, In a froms -> In b froms -> trunc a = trunc b -> a = b.

Lemma key_sfx_multi x : is_multi x = true -> key_sfx x = x.
Proof. destruct x as [|a [|b l]]; cbn [is_multi]; try discriminate. reflexivity. Qed.

Lemma partition_perm (f : addr -> bool) l :
  Permutation (filter f l ++ filter (fun a => negb (f a)) l) l.
Proof.
  induction l as [|a r IH]; cbn [filter]; [apply perm_nil|].
  destruct (f a); cbn [negb app].
  - apply perm_skip, IH.
  - eapply perm_trans; [apply Permutation_sym, Permutation_middle|]. apply perm_skip, IH.
Qed.

(** * Association lists keyed by record key *)
Lemma rget_rdel k k' (l : list (rkey * qrec)) :
  rget k' (rdel k l) = if rkey_eqb k' k then None else rget k' l.
Proof.
  induction l as [|e r IH]; cbn [aget adel].
  - destruct (rkey_eqb k' k); reflexivity.
  - destruct (rkey_eqb k (fst e)) eqn:E.
    + apply rkey_eqb_eq in E. subst k. rewrite IH. destruct (rkey_eqb k' (fst e)); reflexivity.
    + cbn [aget]. rewrite IH. destruct (rkey_eqb k' (fst e)) eqn:E2; [|reflexivity].
      apply rkey_eqb_eq in E2. subst k'. rewrite rkey_eqb_sym, E. reflexivity.
Qed.

Lemma rget_rset k k' v (l : list (rkey * qrec)) :
  rget k' (rset k v l) = if rkey_eqb k' k then Some v else rget k' l.
Proof. unfold aset. cbn [aget fst snd]. rewrite rget_rdel. destruct (rkey_eqb k' k); reflexivity. Qed.

Lemma In_rdel e k (l : list (rkey * qrec)) : In e (rdel k l) -> In e l /\ fst e <> k.
Proof.
  induction l as [|x r IH]; cbn [adel]; [intros []|].
  destruct (rkey_eqb k (fst x)) eqn:E.
  - intros H. destruct (IH H) as [H1 H2]. split; [right; exact H1 | exact H2].
  - intros [H|H].
    + subst x. split; [left; reflexivity|]. intros Hk. rewrite Hk, rkey_eqb_refl in E. discriminate.
    + destruct (IH H) as [H1 H2]. split; [right; exact H1 | exact H2].
Qed.

Lemma notin_rdel k (l : list (rkey * qrec)) : ~ In k (map fst (rdel k l)).
Proof.
  intros H. apply in_map_iff in H. destruct H as (e & He & Hi).
  apply In_rdel in Hi. destruct Hi as [_ Hn]. contradiction.
Qed.

Lemma rdel_notin k (l : list (rkey * qrec)) : ~ In k (map fst l) -> rdel k l = l.
Proof.
  induction l as [|x r IH]; cbn [adel map]; intros Hn; [reflexivity|].
  destruct (rkey_eqb k (fst x)) eqn:E.
  - apply rkey_eqb_eq in E. exfalso. apply Hn. left. symmetry; exact E.
  - f_equal. apply IH. intros Hi. apply Hn. right. exact Hi.
Qed.

Lemma NoDup_rdel k (l : list (rkey * qrec)) : NoDup (map fst l) -> NoDup (map fst (rdel k l)).
Proof.
  induction l as [|x r IH]; cbn [adel map]; intros Hn; [constructor|].
  inversion Hn as [|? ? Hni Hnd]; subst.
  destruct (rkey_eqb k (fst x)); [apply IH, Hnd|].
  cbn [map]. constructor; [|apply IH, Hnd].
  intros Hi. apply Hni. apply in_map_iff in Hi. destruct Hi as (e & He & Hin).
  apply In_rdel in Hin. apply in_map_iff. exists e. split; [exact He | apply Hin].
Qed.

Lemma NoDup_rset k v (l : list (rkey * qrec)) : NoDup (map fst l) -> NoDup (map fst (rset k v l)).
Proof. intros Hn. unfold aset. cbn [map fst]. constructor; [apply notin_rdel | apply NoDup_rdel, Hn]. Qed.

Lemma rget_In k r (l : list (rkey * qrec)) : rget k l = Some r -> In (k, r) l.
Proof.
  induction l as [|x t IH]; cbn [aget]; [discriminate|].
  destruct (rkey_eqb k (fst x)) eqn:E.
  - intros [= <-]. apply rkey_eqb_eq in E. subst k. left. destruct x; reflexivity.
  - intros H. right. apply IH, H.
Qed.

Lemma rget_notin k (l : list (rkey * qrec)) : rget k l = None -> ~ In k (map fst l).
Proof.
  induction l as [|x t IH]; cbn [aget map]; [intros _ []|].
  destruct (rkey_eqb k (fst x)) eqn:E; [discriminate|].
  intros H [Hi|Hi]; [subst k; rewrite rkey_eqb_refl in E; discriminate | exact (IH H Hi)].
Qed.

Definition old (k : rkey) (l : list (rkey * qrec)) (d : denom) : Z :=
  match rget k l with Some r => amt (q_coins r) d | None => 0 end.

Lemma rec_total_cons x t d : rec_total (x :: t) d = amt (q_coins (snd x)) d + rec_total t d.
Proof. reflexivity. Qed.

Lemma rec_total_rdel k l d : NoDup (map fst l) -> rec_total (rdel k l) d = rec_total l d - old k l d.
Proof.
  unfold old. induction l as [|x t IH]; cbn [adel map aget]; intros Hn; [cbn; lia|].
  inversion Hn as [|? ? Hni Hnd]; subst. rewrite rec_total_cons.
  destruct (rkey_eqb k (fst x)) eqn:E.
  - apply rkey_eqb_eq in E. subst k. rewrite rdel_notin by exact Hni. lia.
  - rewrite rec_total_cons. rewrite IH by exact Hnd. lia.
Qed.

Lemma rec_total_rset k v l d : NoDup (map fst l) ->
  rec_total (rset k v l) d = rec_total l d - old k l d + amt (q_coins v) d.
Proof.
  intros Hn. unfold aset. rewrite rec_total_cons. cbn [snd].
  rewrite rec_total_rdel by exact Hn. lia.
Qed.

(** * Well-formed record stores *)
Definition rec_ok (kr : rkey * qrec) : Prop :=
  snd (fst kr) = sfx_of (all_froms (snd kr)) /\ q_unacc (snd kr) <> [].
Definition wf (s : state) : Prop := NoDup (map fst (s_recs s)) /\ Forall rec_ok (s_recs s).
Definition covers (h : addr) (s : state) : Prop := forall d, rec_total (s_recs s) d <= s_bal s h d.

Lemma wfl_rdel k l : NoDup (map fst l) /\ Forall rec_ok l -> NoDup (map fst (rdel k l)) /\ Forall rec_ok (rdel k l).
Proof.
  intros [Hn Hf]. split; [apply NoDup_rdel, Hn|].
  apply Forall_forall. intros e He. apply In_rdel in He. rewrite Forall_forall in Hf. apply Hf, He.
Qed.

Lemma wfl_rset k v l : NoDup (map fst l) /\ Forall rec_ok l -> rec_ok (k, v) ->
  NoDup (map fst (rset k v l)) /\ Forall rec_ok (rset k v l).
Proof.
  intros Hw Hk. split; [apply NoDup_rset, Hw|].
  unfold aset. constructor; [exact Hk | apply (wfl_rdel k l Hw)].
Qed.

Lemma wf_rget s k r : wf s -> rget k (s_recs s) = Some r -> rec_ok (k, r).
Proof. intros [_ Hf] Hg. rewrite Forall_forall in Hf. apply Hf, rget_In, Hg. Qed.

(** * SetQuarantineRecord *)
Definition same_settings (s s' : state) : Prop := s_optin s' = s_optin s /\ s_auto s' = s_auto s.

Lemma set_record_spec s to r s' : set_record s to r = Some s' ->
  s_bal s' = s_bal s /\ same_settings s s' /\
  s_recs s' = if fully_accepted r then rdel (mk_key to (all_froms r)) (s_recs s)
              else rset (mk_key to (all_froms r)) r (s_recs s).
Proof.
  unfold set_record, same_settings. destruct (all_froms r) as [|a l] eqn:E; [discriminate|].
  destruct (fully_accepted r); intros [= <-]; cbn [s_bal s_optin s_auto s_recs with_recs]; auto.
Qed.

Lemma settings_get_auto s s' to from : same_settings s s' -> get_auto s' to from = get_auto s to from.
Proof. intros [_ H]. unfold get_auto. rewrite H. reflexivity. Qed.

(** * AddQuarantinedCoins *)
Lemma add_quarantined_spec s c to froms s' :
  wf s -> add_quarantined s c to froms = Some s' ->
  let k := mk_key to froms in
  wf s' /\ s_bal s' = s_bal s /\ same_settings s s' /\
  (exists r', s_recs s' = rset k r' (s_recs s) /\
              forall d, amt (q_coins r') d = old k (s_recs s) d + amt c d).
Proof.
  intros Hw. unfold add_quarantined. destruct froms as [|f0 fr] eqn:Ef; [discriminate|]. rewrite <- Ef.
  set (qr := match get_record s to froms with Some r => _ | None => _ end).
  destruct (fully_accepted qr) eqn:Efa; [discriminate|]. intros Hs. cbn zeta.
  apply set_record_spec in Hs. destruct Hs as (Hb & Hset & Hr).
  change (fully_accepted (with_declined qr (is_auto_decline s to froms))) with (fully_accepted qr) in Hr.
  rewrite Efa in Hr.
  change (all_froms (with_declined qr (is_auto_decline s to froms))) with (all_froms qr) in Hr.
  assert (Hkey : sfx_of (all_froms qr) = sfx_of froms /\ forall d, amt (q_coins qr) d = old (mk_key to froms) (s_recs s) d + amt c d).
  { unfold qr, old, get_record. destruct (rget (mk_key to froms) (s_recs s)) as [r|] eqn:Eg.
    - pose proof (wf_rget _ _ _ Hw Eg) as [Hk _]. cbn [fst snd mk_key] in Hk. split.
      + change (all_froms (with_coins r (q_coins r ++ c))) with (all_froms r). symmetry; exact Hk.
      + intros d. cbn [q_coins with_coins]. apply amt_app.
    - split.
      + apply perm_sfx_eq. unfold all_froms. cbn [q_unacc q_acc].
        eapply perm_trans; [apply Permutation_app_comm|].
        apply (partition_perm (fun f => is_auto_accept s to [f]) froms).
      + intros d. cbn [q_coins]. lia. }
  destruct Hkey as [Hk Hc].
  assert (Hmk : mk_key to (all_froms qr) = mk_key to froms) by (unfold mk_key; rewrite Hk; reflexivity).
  rewrite Hmk in Hr.
  split; [|split; [exact Hb | split; [exact Hset|]]].
  - unfold wf. rewrite Hr. apply wfl_rset; [exact Hw|].
    split; cbn [fst snd mk_key].
    + symmetry; exact Hk.
    + cbn [q_unacc with_declined]. unfold fully_accepted in Efa. destruct (q_unacc qr); [discriminate | discriminate].
  - eexists. split; [exact Hr|]. intros d. cbn [q_coins with_declined]. apply Hc.
Qed.

(** * One transfer: restriction + credit *)
Section WithHolder.
Variable h : addr.

Definition is_quarantined (s : state) (from to : addr) : bool :=
  negb (Pos.eqb from to) && negb (Pos.eqb from h) && is_optin s to && negb (is_accept (get_auto s to from)).

Lemma is_optin_with_bal s b a : is_optin (with_bal s b) a = is_optin s a.
Proof. reflexivity. Qed.

(** what [credit] does, by case: direct, or quarantined into the (to, [trunc from]) record *)
Lemma credit_spec s from to c s' :
  wf s -> credit h (Some s) (from, to, c) = Some s' ->
  wf s' /\ same_settings s s' /\
  ((is_quarantined s from to = false /\ s_recs s' = s_recs s /\ s_bal s' = bal_add (s_bal s) to c) \/
   (is_quarantined s from to = true /\ s_bal s' = bal_add (s_bal s) h c /\
    exists r', s_recs s' = rset (to, [trunc from]) r' (s_recs s) /\
               forall d, amt (q_coins r') d = old (to, [trunc from]) (s_recs s) d + amt c d)).
Proof.
  intros Hw. unfold credit, restrict, is_quarantined.
  assert (Haa : is_auto_accept s to [from] = is_accept (get_auto s to from))
    by (unfold is_auto_accept; cbn [forallb]; apply andb_true_r).
  rewrite Haa.
  destruct (marker_ok h s from c); cbn [negb]; [|discriminate].
  destruct (Pos.eqb from to || Pos.eqb from h) eqn:E1.
  - intros [= <-]. split; [exact Hw|]. split; [split; reflexivity|]. left.
    split; [|split; reflexivity].
    destruct (Pos.eqb from to), (Pos.eqb from h); cbn in *; try discriminate; reflexivity.
  - apply orb_false_iff in E1. destruct E1 as [E1 E2]. rewrite E1, E2. cbn [negb andb].
    destruct (negb (is_optin s to) || is_accept (get_auto s to from)) eqn:E3.
    + intros [= <-]. split; [exact Hw|]. split; [split; reflexivity|]. left.
      split; [|split; reflexivity].
      destruct (is_optin s to), (is_accept (get_auto s to from)); cbn in *; try discriminate; reflexivity.
    + destruct (add_quarantined s c to [from]) as [s2|] eqn:Ea; [|discriminate].
      intros [= <-]. apply (add_quarantined_spec _ _ _ _ _ Hw) in Ea. cbn zeta in Ea.
      destruct Ea as (Hw2 & Hb & Hset & r' & Hr & Hc).
      split; [exact Hw2|]. split; [exact Hset|]. right.
      apply orb_false_iff in E3. destruct E3 as [E3 E4]. apply negb_false_iff in E3.
      rewrite E3, E4. split; [reflexivity|].
      cbn [s_bal with_bal s_recs]. rewrite Hb. split; [reflexivity|].
      exists r'. split; [exact Hr | exact Hc].
Qed.

Lemma debit_spec s a c s' : debit (Some s) (a, c) = Some s' ->
  s' = with_bal s (bal_sub (s_bal s) a c) /\ can_pay (s_bal s) a c = true.
Proof. unfold debit. cbn [fst snd]. destruct (can_pay (s_bal s) a c); [intros [= <-]; auto | discriminate]. Qed.

(** * Slack: the holder's balance minus the total of all records *)
Lemma slack_credit s from to c s' d :
  wf s -> credit h (Some s) (from, to, c) = Some s' ->
  wf s' /\ same_settings s s' /\
  slack h s' d = slack h s d + (if is_quarantined s from to then 0 else if Pos.eqb h to then amt c d else 0).
Proof.
  intros Hw Hc. destruct (credit_spec _ _ _ _ _ Hw Hc) as (Hw' & Hset & [(Hq & Hr & Hb)|(Hq & Hb & r' & Hr & Hcn)]);
    (split; [exact Hw'|]; split; [exact Hset|]); rewrite Hq; unfold slack; rewrite Hr, Hb; unfold bal_add.
  - destruct (Pos.eqb h to); lia.
  - rewrite Pos.eqb_refl. rewrite rec_total_rset by apply Hw. rewrite Hcn. lia.
Qed.

Lemma fold_credit_none l : fold_left (credit h) l None = None.
Proof. induction l as [|t l IH]; cbn [fold_left]; [reflexivity | exact IH]. Qed.

Lemma fold_debit_none l : fold_left debit l None = None.
Proof. induction l as [|t l IH]; cbn [fold_left]; [reflexivity | exact IH]. Qed.

Definition nonneg_coins (c : coins) : Prop := forall d, 0 <= amt c d.

(* a list of credits: slack never shrinks, and is unchanged when none goes to the holder directly *)
Lemma slack_credits ts : forall s s' d,
  wf s -> Forall (fun t => nonneg_coins (snd t)) ts ->
  fold_left (credit h) ts (Some s) = Some s' ->
  wf s' /\ same_settings s s' /\ slack h s d <= slack h s' d /\
  (Forall (fun t => snd (fst t) <> h) ts -> slack h s' d = slack h s d).
Proof.
  induction ts as [|[[from to] c] ts IH]; intros s s' d Hw Hnn; cbn [fold_left].
  - intros [= <-]. split; [exact Hw|]. split; [split; reflexivity|]. split; [lia | reflexivity].
  - destruct (credit h (Some s) (from, to, c)) as [s1|] eqn:E1; [|rewrite fold_credit_none; discriminate].
    intros Hf. inversion Hnn as [|? ? Hn1 Hn2]; subst. cbn [snd] in Hn1.
    destruct (slack_credit _ _ _ _ _ d Hw E1) as (Hw1 & Hs1 & Hsl1).
    destruct (IH _ _ d Hw1 Hn2 Hf) as (Hw' & Hs' & Hle & Heq).
    split; [exact Hw'|]. split.
    { destruct Hs1 as [A B], Hs' as [A' B']. split; congruence. }
    specialize (Hn1 d). split.
    + rewrite Hsl1 in Hle. destruct (is_quarantined s from to); [lia|]. destruct (Pos.eqb h to); lia.
    + intros Hnh. inversion Hnh as [|? ? Hh1 Hh2]; subst. cbn [fst snd] in Hh1.
      rewrite (Heq Hh2), Hsl1. destruct (is_quarantined s from to); [lia|].
      destruct (Pos.eqb_spec h to); [congruence | lia].
Qed.

Lemma slack_debit s a c s' d : a <> h -> debit (Some s) (a, c) = Some s' ->
  slack h s' d = slack h s d /\ s_recs s' = s_recs s /\ same_settings s s'.
Proof.
  intros Ha Hd. apply debit_spec in Hd. destruct Hd as [-> _].
  unfold slack, bal_sub. cbn [s_bal s_recs with_bal].
  destruct (Pos.eqb_spec h a); [congruence|]. split; [lia|]. split; [reflexivity | split; reflexivity].
Qed.

Lemma wf_with_bal s b : wf s -> wf (with_bal s b).
Proof. intros H; exact H. Qed.

Lemma slack_debits ins : forall s s' d,
  Forall (fun i => fst i <> h) ins -> fold_left debit ins (Some s) = Some s' ->
  slack h s' d = slack h s d /\ s_recs s' = s_recs s /\ same_settings s s'.
Proof.
  induction ins as [|[a c] ins IH]; intros s s' d Hf; cbn [fold_left].
  - intros [= <-]. split; [reflexivity|]. split; [reflexivity | split; reflexivity].
  - destruct (debit (Some s) (a, c)) as [s1|] eqn:E1; [|rewrite fold_debit_none; discriminate].
    inversion Hf as [|? ? Ha Hr]; subst. cbn [fst] in Ha. intros H.
    destruct (slack_debit _ _ _ _ d Ha E1) as (A & B & [C1 C2]).
    destruct (IH _ _ d Hr H) as (A' & B' & [C1' C2']).
    split; [lia|]. split; [congruence | split; congruence].
Qed.

(** * Accept *)
Definition unchanged_but (s s' : state) : Prop := same_settings s s'.

Lemma get_suffixes_nodup (l : list (list addr)) : NoDup (dedup l).
Proof.
  induction l as [|x r IH]; cbn [dedup]; [constructor|].
  destruct (smem x r) eqn:E; [exact IH|]. constructor; [|exact IH].
  intros Hi. assert (Hx : In x r).
  { clear - Hi. induction r as [|y r IH]; cbn [dedup] in Hi; [exact Hi|].
    destruct (smem y r); [right; apply IH, Hi|]. destruct Hi as [Hi|Hi]; [left; exact Hi | right; apply IH, Hi]. }
  unfold smem in E. assert (existsb (addrs_eqb x) r = true); [|congruence].
  apply existsb_exists. exists x. split; [exact Hx | apply addrs_eqb_eq; reflexivity].
Qed.

Lemma dedup_incl x (l : list (list addr)) : In x (dedup l) -> In x l.
Proof.
  induction l as [|y r IH]; cbn [dedup]; [tauto|].
  destruct (smem y r); [intros H; right; apply IH, H|]. intros [H|H]; [left; exact H | right; apply IH, H].
Qed.

Lemma idx_get_multi i to f x : In x (idx_get i to f) -> is_multi x = true.
Proof.
  unfold idx_get. destruct (aget pair_eqb (to, f) i) as [l|]; [|intros []].
  intros H. apply filter_In in H. apply H.
Qed.

Lemma NoDup_map_on {A B} (f : A -> B) (l : list A) :
  NoDup l -> (forall x y, In x l -> In y l -> f x = f y -> x = y) -> NoDup (map f l).
Proof.
  induction 1 as [|a l Hni Hnd IH]; intros Hinj; cbn [map]; constructor.
  - intros Hi. apply in_map_iff in Hi. destruct Hi as (y & Ey & Hy).
    assert (y = a) by (apply Hinj; [right; exact Hy | left; reflexivity | exact Ey]). subst. contradiction.
  - apply IH. intros x y Hx Hy. apply Hinj; right; assumption.
Qed.

Lemma key_sfx_single_or_multi x : (exists f, x = [f]) \/ key_sfx x = x.
Proof. destruct x as [|a [|b l]]; [right; reflexivity | left; exists a; reflexivity | right; reflexivity]. Qed.

(* after the cut the looked-up suffixes are still pairwise different, unless two different named
   senders share their first 32 bytes *)
Lemma get_suffixes_keys_nodup s to froms :
  inj_named froms -> NoDup (map key_sfx (get_suffixes s to froms)).
Proof.
  intros Hinj. unfold get_suffixes. apply NoDup_map_on; [apply get_suffixes_nodup|].
  assert (Hel : forall x, In x (dedup (flat_map (fun f => idx_get (s_idx s) to f ++ [[f]]) froms)) ->
                          is_multi x = true \/ exists f, In f froms /\ x = [f]).
  { intros x Hx. apply dedup_incl, in_flat_map in Hx. destruct Hx as (f & Hf & Hx).
    apply in_app_or in Hx. destruct Hx as [Hx|[Hx|[]]].
    - left. apply (idx_get_multi _ _ _ _ Hx).
    - right. exists f. split; [exact Hf | symmetry; exact Hx]. }
  intros x y Hx Hy E.
  destruct (Hel x Hx) as [Mx|(a & Ha & ->)], (Hel y Hy) as [My|(b & Hb & ->)].
  - rewrite !key_sfx_multi in E by assumption. exact E.
  - rewrite key_sfx_multi in E by assumption. cbn [key_sfx] in E. subst x. discriminate.
  - rewrite (key_sfx_multi y) in E by assumption. cbn [key_sfx] in E. subst y. discriminate.
  - cbn [key_sfx] in E. injection E as E. rewrite (Hinj a b Ha Hb E). reflexivity.
Qed.

Lemma records_of_suffixes (recs : list (rkey * qrec)) to (l : list (list addr)) :
  let rs := flat_map (fun sfx => match rget (to, key_sfx sfx) recs with Some r => [((to, key_sfx sfx), r)] | None => [] end) l in
  (NoDup (map key_sfx l) -> NoDup (map fst rs)) /\ forall k r, In (k, r) rs -> fst k = to /\ rget k recs = Some r.
Proof.
  induction l as [|x l IH]; cbn [flat_map]; [split; [constructor | intros ? ? []]|].
  cbn zeta in IH. destruct IH as [IH1 IH2].
  destruct (rget (to, key_sfx x) recs) as [r0|] eqn:E; cbn [app].
  - split.
    + cbn [map fst]. intros Hn. inversion Hn as [|? ? Hni Hnd]; subst. constructor; [|apply IH1, Hnd].
      intros Hi. apply in_map_iff in Hi.
      destruct Hi as ([k r] & Hk & Hin). cbn [fst] in Hk. subst k.
      apply in_flat_map in Hin. destruct Hin as (y & Hy & Hin).
      destruct (rget (to, key_sfx y) recs); [|destruct Hin]. destruct Hin as [Hin|[]].
      injection Hin as Ek _. apply Hni. rewrite <- Ek. apply in_map, Hy.
    + intros k r [Hi|Hi]; [injection Hi as <- <-; split; [reflexivity | exact E] | apply IH2, Hi].
  - split; [|exact IH2]. cbn [map]. intros Hn. inversion Hn; subst. apply IH1. assumption.
Qed.

Lemma get_records_mem s to froms :
  forall k r, In (k, r) (get_records s to froms) -> fst k = to /\ rget k (s_recs s) = Some r.
Proof. unfold get_records. apply (records_of_suffixes (s_recs s) to (get_suffixes s to froms)). Qed.

Lemma get_records_spec s to froms :
  inj_named froms ->
  NoDup (map fst (get_records s to froms)) /\
  forall k r, In (k, r) (get_records s to froms) -> fst k = to /\ rget k (s_recs s) = Some r.
Proof.
  intros Hinj. split; [|apply get_records_mem].
  unfold get_records. apply (records_of_suffixes (s_recs s) to (get_suffixes s to froms)).
  apply get_suffixes_keys_nodup, Hinj.
Qed.

Lemma accept_from_spec r froms r' : accept_from r froms = Some r' ->
  q_coins r' = q_coins r /\ q_unacc r' = filter (fun a => negb (mem a froms)) (q_unacc r) /\
  sfx_of (all_froms r') = sfx_of (all_froms r).
Proof.
  unfold accept_from. destruct (filter (fun a => mem a froms) (q_unacc r)) as [|x fnd] eqn:E; [discriminate|].
  rewrite <- E. intros [= <-]. cbn [q_coins q_unacc]. split; [reflexivity|]. split; [reflexivity|].
  apply perm_sfx_eq. unfold all_froms. cbn [q_unacc q_acc].
  set (F := filter (fun a => mem a froms) (q_unacc r)). set (L := filter (fun a => negb (mem a froms)) (q_unacc r)).
  assert (Hp : Permutation (F ++ L) (q_unacc r)) by apply (partition_perm (fun a => mem a froms)).
  eapply perm_trans; [apply Permutation_app_comm|]. rewrite <- app_assoc.
  eapply perm_trans; [apply Permutation_app_head, Hp|]. apply Permutation_app_comm.
Qed.

Lemma filter_nil_incl (froms l : list addr) :
  filter (fun a => negb (mem a froms)) l = [] -> incl l froms.
Proof.
  induction l as [|a l IH]; cbn [filter]; intros H x Hx; [destruct Hx|].
  destruct (mem a froms) eqn:E; cbn [negb] in H; [|discriminate].
  destruct Hx as [<-|Hx]; [apply mem_In, E | apply IH; assumption].
Qed.

(* the relation between the state before an accept and a state reached while it runs *)
Definition acc_rel (to : addr) (froms : list addr) (s : state) (si : state) (rel : coins) : Prop :=
  wf si /\ same_settings s si /\
  (forall a d, s_bal si a d = bal_add (bal_sub (s_bal s) h rel) to rel a d) /\
  (forall d, rec_total (s_recs si) d = rec_total (s_recs s) d - amt rel d) /\
  (forall k, match rget k (s_recs s), rget k (s_recs si) with
             | Some r, Some r' => q_coins r' = q_coins r /\ q_unacc r' <> []
             | Some r, None => fst k = to /\ incl (q_unacc r) froms
             | None, None => True
             | None, Some _ => False
             end).

Lemma bal_add_sub_app b to rel c a d :
  bal_add (bal_sub (bal_add (bal_sub b h rel) to rel) h c) to c a d = bal_add (bal_sub b h (rel ++ c)) to (rel ++ c) a d.
Proof. unfold bal_add, bal_sub. rewrite amt_app. destruct (Pos.eqb a to), (Pos.eqb a h); lia. Qed.

Lemma fold_accept_none to froms l : fold_left (accept_one h to froms) l None = None.
Proof. induction l as [|x l IH]; cbn [fold_left]; [reflexivity | exact IH]. Qed.

Lemma accept_fold to froms s : forall rest si rel s' rel',
  NoDup (map fst rest) ->
  (forall k r, In (k, r) rest -> fst k = to /\ rget k (s_recs s) = Some r /\ rget k (s_recs si) = Some r) ->
  acc_rel to froms s si rel ->
  fold_left (accept_one h to froms) rest (Some (si, rel)) = Some (s', rel') ->
  acc_rel to froms s s' rel'.
Proof.
  induction rest as [|[k0 r0] rest IH]; intros si rel s' rel' Hnd Hrest Hinv; cbn [fold_left].
  - intros [= <- <-]. exact Hinv.
  - inversion Hnd as [|? ? Hni Hnd']; subst. cbn [fst] in Hni.
    destruct (Hrest k0 r0 (or_introl eq_refl)) as (Hto & Hs0 & Hsi0).
    destruct Hinv as (Hw & Hset & Hbal & Htot & Hkeys).
    pose proof (wf_rget _ _ _ Hw Hsi0) as [Hk0 Hun0]. cbn [fst snd] in Hk0, Hun0.
    assert (Hrest' : forall s1, (forall k, k <> k0 -> rget k (s_recs s1) = rget k (s_recs si)) ->
              forall k r, In (k, r) rest -> fst k = to /\ rget k (s_recs s) = Some r /\ rget k (s_recs s1) = Some r).
    { intros s1 Hs1 k r Hin. destruct (Hrest k r (or_intror Hin)) as (A & B & C).
      split; [exact A|]. split; [exact B|]. rewrite Hs1; [exact C|].
      intros ->. apply Hni. apply in_map_iff. exists (k0, r). split; [reflexivity | exact Hin]. }
    unfold accept_one at 2. cbn [snd].
    destruct (accept_from r0 froms) as [r1|] eqn:Eaf.
    2:{ apply IH; try assumption.
        - intros k r Hin. apply (Hrest k r (or_intror Hin)).
        - exact (conj Hw (conj Hset (conj Hbal (conj Htot Hkeys)))). }
    destruct (accept_from_spec _ _ _ Eaf) as (Hc1 & Hu1 & Hsort1).
    assert (Hkey : forall r2, all_froms r2 = all_froms r1 -> mk_key to (all_froms r2) = k0).
    { intros r2 E. rewrite E. unfold mk_key. rewrite Hsort1, <- Hk0, <- Hto. destruct k0; reflexivity. }
    destruct (fully_accepted r1) eqn:Efa.
    + (* paid out *)
      destruct (marker_ok h si h (q_coins r1) && can_pay (s_bal si) h (q_coins r1)); [|rewrite fold_accept_none; discriminate].
      destruct (set_record _ to r1) as [s1|] eqn:Esr; [|rewrite fold_accept_none; discriminate].
      apply set_record_spec in Esr. rewrite Efa in Esr. rewrite (Hkey r1 eq_refl) in Esr.
      cbn [s_bal s_recs with_bal] in Esr. destruct Esr as (Hb1 & Hset1 & Hr1).
      apply IH; try assumption.
      * apply Hrest'. intros k Hk. rewrite Hr1, rget_rdel, rkey_eqb_neq by exact Hk. reflexivity.
      * split; [|split; [|split; [|split]]].
        -- unfold wf. rewrite Hr1. apply wfl_rdel, Hw.
        -- destruct Hset as [A B], Hset1 as [A1 B1]. cbn [s_optin s_auto with_bal] in A1, B1. split; congruence.
        -- intros a d. rewrite Hb1. unfold bal_add, bal_sub. rewrite !Hbal. unfold bal_add, bal_sub.
           rewrite !amt_app. destruct (Pos.eqb a to), (Pos.eqb a h); lia.
        -- intros d. rewrite Hr1, rec_total_rdel by apply Hw. unfold old. rewrite Hsi0, Htot, amt_app, Hc1. lia.
        -- intros k. rewrite Hr1, rget_rdel. destruct (rkey_eqb k k0) eqn:Ek.
           ++ apply rkey_eqb_eq in Ek. subst k. rewrite Hs0. split; [exact Hto|].
              apply filter_nil_incl. rewrite <- Hu1. unfold fully_accepted in Efa. destruct (q_unacc r1); [reflexivity | discriminate].
           ++ apply Hkeys.
    + (* some senders are still unaccepted *)
      destruct (set_record si to _) as [s1|] eqn:Esr; [|rewrite fold_accept_none; discriminate].
      apply set_record_spec in Esr.
      change (fully_accepted (with_declined r1 (is_auto_decline si to (q_unacc r1)))) with (fully_accepted r1) in Esr.
      rewrite Efa in Esr.
      rewrite (Hkey (with_declined r1 (is_auto_decline si to (q_unacc r1))) eq_refl) in Esr.
      destruct Esr as (Hb1 & Hset1 & Hr1).
      apply IH; try assumption.
      * apply Hrest'. intros k Hk. rewrite Hr1, rget_rset, rkey_eqb_neq by exact Hk. reflexivity.
      * assert (Hne : q_unacc r1 <> []) by (unfold fully_accepted in Efa; destruct (q_unacc r1); [discriminate | discriminate]).
        split; [|split; [|split; [|split]]].
        -- unfold wf. rewrite Hr1. apply wfl_rset; [exact Hw|]. split; cbn [fst snd].
           ++ change (all_froms (with_declined r1 (is_auto_decline si to (q_unacc r1)))) with (all_froms r1).
              rewrite Hsort1. exact Hk0.
           ++ exact Hne.
        -- destruct Hset as [A B], Hset1 as [A1 B1]. split; congruence.
        -- intros a d. rewrite Hb1. apply Hbal.
        -- intros d. rewrite Hr1, rec_total_rset by apply Hw. unfold old. rewrite Hsi0. cbn [q_coins with_declined].
           rewrite Hc1, Htot. lia.
        -- intros k. rewrite Hr1, rget_rset. destruct (rkey_eqb k k0) eqn:Ek.
           ++ apply rkey_eqb_eq in Ek. subst k. rewrite Hs0. cbn [q_coins q_unacc with_declined]. split; assumption.
           ++ apply Hkeys.
Qed.

End WithHolder.

(** * Whole operations *)
Section Ops.
Variable h : addr.

Lemma set_auto_keeps s to f r :
  s_recs (set_auto s to f r) = s_recs s /\ s_bal (set_auto s to f r) = s_bal s /\
  s_optin (set_auto s to f r) = s_optin s.
Proof. unfold set_auto. destruct r; cbn; auto. Qed.

Lemma fold_set_auto_keeps {A} (g : A -> addr) (v : A -> auto) to l : forall s,
  let s' := fold_left (fun s x => set_auto s to (g x) (v x)) l s in
  s_recs s' = s_recs s /\ s_bal s' = s_bal s /\ s_optin s' = s_optin s.
Proof.
  induction l as [|x l IH]; intros s; cbn [fold_left]; [auto|].
  specialize (IH (set_auto s to (g x) (v x))). cbn zeta in IH.
  destruct IH as (A1 & B1 & C1). destruct (set_auto_keeps s to (g x) (v x)) as (A2 & B2 & C2).
  repeat split; congruence.
Qed.

(** what an accepted Accept does (settings apart) *)
Definition acc_out (to : addr) (froms : list addr) (s s' : state) (rel : coins) : Prop :=
  wf s' /\ s_optin s' = s_optin s /\
  (forall a d, s_bal s' a d = bal_add (bal_sub (s_bal s) h rel) to rel a d) /\
  (forall d, rec_total (s_recs s') d = rec_total (s_recs s) d - amt rel d) /\
  (forall k, match rget k (s_recs s), rget k (s_recs s') with
             | Some r, Some r' => q_coins r' = q_coins r /\ q_unacc r' <> []
             | Some r, None => fst k = to /\ incl (q_unacc r) froms
             | None, None => True
             | None, Some _ => False
             end).

Lemma acc_rel_init to froms s : wf s -> acc_rel h to froms s s [].
Proof.
  intros Hw. split; [exact Hw|]. split; [split; reflexivity|]. split; [|split].
  - intros a d. unfold bal_add, bal_sub. cbn [amt]. destruct (Pos.eqb a to), (Pos.eqb a h); lia.
  - intros d. cbn [amt]. lia.
  - intros k. destruct (rget k (s_recs s)) as [r|] eqn:E; [|exact I].
    split; [reflexivity|]. apply (wf_rget _ _ _ Hw E).
Qed.

Lemma accept_spec s to froms perm s' rel :
  wf s -> inj_named froms -> accept h s to froms perm = Some (s', rel) -> acc_out to froms s s' rel.
Proof.
  intros Hw Hinj. unfold accept. destruct froms as [|f0 fr] eqn:Ef; [discriminate|]. rewrite <- Ef in *.
  destruct (fold_left _ _ _) as [[s1 rel1]|] eqn:Efold; [|discriminate].
  intros [= <- <-].
  destruct (get_records_spec s to froms Hinj) as [Hnd Hrs].
  assert (Hrel : acc_rel h to froms s s1 rel1).
  { eapply accept_fold; [exact Hnd| |apply acc_rel_init, Hw|exact Efold].
    intros k r Hin. destruct (Hrs k r Hin) as [A B]. auto. }
  destruct Hrel as (Hw1 & [Ho1 _] & Hb1 & Ht1 & Hk1).
  set (sf := if perm then _ else s1).
  assert (Hk : s_recs sf = s_recs s1 /\ s_bal sf = s_bal s1 /\ s_optin sf = s_optin s1).
  { unfold sf. destruct perm; [|auto].
    apply (fold_set_auto_keeps (fun f : addr => f) (fun _ => AAccept) to froms s1). }
  destruct Hk as (A & B & C). unfold acc_out, wf. rewrite A, B, C.
  split; [exact Hw1|]. split; [exact Ho1|]. split; [exact Hb1|]. split; [exact Ht1 | exact Hk1].
Qed.

(** decline: no balance and no record's coins change *)
Definition coins_view (s : state) (k : rkey) : option coins := option_map q_coins (rget k (s_recs s)).

Lemma fold_decline_none to froms l : fold_left (decline_one to froms) l None = None.
Proof. induction l as [|x l IH]; cbn [fold_left]; [reflexivity | exact IH]. Qed.

Lemma decline_from_spec r froms r' : decline_from r froms = Some r' ->
  q_coins r' = q_coins r /\ (q_unacc r <> [] -> q_unacc r' <> []) /\ sfx_of (all_froms r') = sfx_of (all_froms r).
Proof.
  unfold decline_from.
  set (B := filter (fun a => mem a froms) (q_acc r)). set (L := filter (fun a => negb (mem a froms)) (q_acc r)).
  assert (Hp : Permutation (B ++ L) (q_acc r)) by apply (partition_perm (fun a => mem a froms)).
  assert (G : forall r', r' = {| q_unacc := q_unacc r ++ B; q_acc := L; q_coins := q_coins r; q_declined := true |} ->
     q_coins r' = q_coins r /\ (q_unacc r <> [] -> q_unacc r' <> []) /\ sfx_of (all_froms r') = sfx_of (all_froms r)).
  { intros ? ->. cbn [q_coins q_unacc]. split; [reflexivity|]. split.
    - intros Hn Hc. apply app_eq_nil in Hc. apply Hn, Hc.
    - apply perm_sfx_eq. unfold all_froms. cbn [q_unacc q_acc]. rewrite <- app_assoc.
      apply Permutation_app_head, Hp. }
  destruct B; destruct (q_declined r); try discriminate; intros [= <-]; apply G; reflexivity.
Qed.

Definition dec_rel (s si : state) : Prop :=
  wf si /\ s_bal si = s_bal s /\ s_optin si = s_optin s /\ (forall k, coins_view si k = coins_view s k) /\
  (forall d, rec_total (s_recs si) d = rec_total (s_recs s) d).

Lemma decline_fold to froms s : wf s -> forall rest si s',
  (forall k r, In (k, r) rest -> fst k = to /\ rget k (s_recs s) = Some r) ->
  dec_rel s si ->
  fold_left (decline_one to froms) rest (Some si) = Some s' ->
  dec_rel s s'.
Proof.
  intros Hws. induction rest as [|[k0 r0] rest IH]; intros si s' Hrest Hinv; cbn [fold_left].
  - intros [= <-]. exact Hinv.
  - destruct (Hrest k0 r0 (or_introl eq_refl)) as [Hto Hs0].
    assert (Hrest' : forall k r, In (k, r) rest -> fst k = to /\ rget k (s_recs s) = Some r)
      by (intros k r Hin; apply Hrest; right; exact Hin).
    unfold decline_one at 2. cbn [snd].
    destruct (decline_from r0 froms) as [r1|] eqn:Ed; [|apply IH; assumption].
    destruct (set_record si to r1) as [s1|] eqn:Esr; [|rewrite fold_decline_none; discriminate].
    apply IH; [exact Hrest'|].
    destruct (decline_from_spec _ _ _ Ed) as (Hc & Hne & Hsort).
    pose proof (wf_rget _ _ _ Hws Hs0) as [Hk0 Hun0]. cbn [fst snd] in Hk0, Hun0.
    specialize (Hne Hun0).
    apply set_record_spec in Esr. destruct Esr as (Hb1 & [Ho1 _] & Hr1).
    assert (Efa : fully_accepted r1 = false) by (unfold fully_accepted; destruct (q_unacc r1); [contradiction | reflexivity]).
    rewrite Efa in Hr1.
    assert (Hkey : mk_key to (all_froms r1) = k0).
    { unfold mk_key. rewrite Hsort, <- Hk0, <- Hto. destruct k0; reflexivity. }
    rewrite Hkey in Hr1. destruct Hinv as (Hw & Hb & Ho & Hv & Ht).
    split; [|split; [congruence | split; [congruence | split]]].
    + unfold wf. rewrite Hr1. apply wfl_rset; [exact Hw|]. split; cbn [fst snd]; [rewrite Hsort; exact Hk0 | exact Hne].
    + intros k. unfold coins_view. rewrite Hr1, rget_rset. destruct (rkey_eqb k k0) eqn:Ek.
      * apply rkey_eqb_eq in Ek. subst k. rewrite Hs0. cbn [option_map]. rewrite Hc. reflexivity.
      * apply Hv.
    + intros d. rewrite Hr1, rec_total_rset by apply Hw. rewrite Hc, <- Ht.
      specialize (Hv k0). unfold coins_view in Hv. rewrite Hs0 in Hv. unfold old.
      destruct (rget k0 (s_recs si)) as [rc|]; cbn [option_map] in Hv; [|discriminate].
      injection Hv as ->. lia.
Qed.

Lemma decline_spec s to froms perm s' : wf s -> decline s to froms perm = Some s' -> dec_rel s s'.
Proof.
  intros Hw. unfold decline. destruct froms as [|f0 fr] eqn:Ef; [discriminate|]. rewrite <- Ef.
  destruct (fold_left _ _ _) as [s1|] eqn:Efold; [|discriminate]. intros [= <-].
  assert (H1 : dec_rel s s1).
  { eapply (decline_fold to froms s Hw); [| |exact Efold].
    - intros k r Hin. apply (get_records_mem s to froms k r Hin).
    - split; [exact Hw|]. split; [reflexivity|]. split; [reflexivity|]. split; reflexivity. }
  set (sf := if perm then _ else s1).
  assert (Hk : s_recs sf = s_recs s1 /\ s_bal sf = s_bal s1 /\ s_optin sf = s_optin s1).
  { unfold sf. destruct perm; [|auto].
    apply (fold_set_auto_keeps (fun f : addr => f) (fun _ => ADecline) to froms s1). }
  destruct Hk as (A & B & C). unfold dec_rel, wf, coins_view. rewrite A, B, C. exact H1.
Qed.

(** transfers: all debits, then all credits *)
Lemma transfer_slack ins ts s s' d :
  wf s -> Forall (fun i => fst i <> h) ins -> Forall (fun t => nonneg_coins (snd t)) ts ->
  fold_left (credit h) ts (fold_left debit ins (Some s)) = Some s' ->
  wf s' /\ s_optin s' = s_optin s /\ slack h s d <= slack h s' d /\
  (Forall (fun t => snd (fst t) <> h) ts -> slack h s' d = slack h s d).
Proof.
  intros Hw Hi Hn. destruct (fold_left debit ins (Some s)) as [s1|] eqn:Ed; [|rewrite fold_credit_none; discriminate].
  intros Hc. destruct (slack_debits h ins _ _ d Hi Ed) as (Hs1 & Hr1 & [Ho1 _]).
  assert (Hw1 : wf s1) by (unfold wf; rewrite Hr1; exact Hw).
  destruct (slack_credits h ts _ _ d Hw1 Hn Hc) as (Hw' & [Ho' _] & Hle & Heq).
  split; [exact Hw'|]. split; [congruence|]. split; [lia|]. intros Hf. rewrite (Heq Hf). exact Hs1.
Qed.

Definition signer_ok (o : op) : Prop :=
  match o with
  | OOptIn a | OOptOut a => a <> h
  | OSend from _ _ | OMulti from _ _ => from <> h
  | OMultiIn ins _ => Forall (fun i => fst i <> h) ins
  | OAccept to froms _ | ODecline to froms _ => to <> h /\ inj_named froms
  | OUpdate to _ => to <> h
  end.

(* no Accept / Decline names two different senders that share their first 32 bytes (such senders
   share one record key: known finding, see C07_prefix_collision_*_refuted) *)
Definition named_ok (o : op) : Prop :=
  match o with OAccept _ froms _ | ODecline _ froms _ => inj_named froms | _ => True end.

Lemma signer_named o : signer_ok o -> named_ok o.
Proof. destruct o; cbn [signer_ok named_ok]; try tauto. Qed.

(* no transfer names the holder itself as the receiver *)
Definition no_direct (o : op) : Prop :=
  match o with
  | OSend _ to _ | OMultiIn _ to => to <> h
  | OMulti _ _ outs => Forall (fun x => fst x <> h) outs
  | _ => True
  end.

Lemma valid_all_nonneg {A} (g : A -> coins) (l : list A) :
  forallb (fun x => coins_valid (g x)) l = true -> Forall (fun x => nonneg_coins (g x)) l.
Proof.
  intros H. apply Forall_forall. intros x Hx. rewrite forallb_forall in H.
  intros d. apply coins_valid_nonneg, H, Hx.
Qed.

Lemma step_slack s o s' res d :
  wf s -> signer_ok o -> step h s o = (s', res) ->
  wf s' /\ slack h s d <= slack h s' d /\ (no_direct o -> slack h s' d = slack h s d).
Proof.
  intros Hw Hs. destruct o as [a|a|from to c|from inc outs|ins to|to froms perm|to froms perm|to ups]; cbn [step signer_ok no_direct] in *.
  - intros [= <- _]. unfold opt_in, slack. destruct (is_optin s a); cbn [s_bal s_recs with_optin];
      (split; [exact Hw|]; split; [lia | reflexivity]).
  - intros [= <- _]. unfold opt_out, slack. cbn [s_bal s_recs with_optin]. split; [exact Hw|]. split; [lia | reflexivity].
  - unfold lift. destruct (send h s from to c) as [s1|] eqn:E; intros [= <- _];
      [|split; [exact Hw|]; split; [lia | reflexivity]].
    unfold send in E. destruct (coins_valid c) eqn:Ev; [|discriminate].
    change (fold_left (credit h) [(from, to, c)] (fold_left debit [(from, c)] (Some s)) = Some s1) in E.
    assert (Hi : Forall (fun i : addr * coins => fst i <> h) [(from, c)]) by (constructor; [exact Hs | constructor]).
    assert (Hn : Forall (fun t : addr * addr * coins => nonneg_coins (snd t)) [(from, to, c)]).
    { constructor; [|constructor]. intros d'. apply coins_valid_nonneg, Ev. }
    destruct (transfer_slack _ _ _ _ d Hw Hi Hn E) as (A & _ & B & C).
    split; [exact A|]. split; [exact B|]. intros Hd. apply C. constructor; [exact Hd | constructor].
  - unfold lift. destruct (multi_send h s from inc outs) as [s1|] eqn:E; intros [= <- _];
      [|split; [exact Hw|]; split; [lia | reflexivity]].
    unfold multi_send in E. destruct outs as [|o0 outs0] eqn:Eo; [discriminate|]. rewrite <- Eo in *.
    destruct (coins_valid inc && _ && _) eqn:Ev; [|discriminate].
    apply andb_true_iff in Ev. destruct Ev as [Ev _]. apply andb_true_iff in Ev. destruct Ev as [_ Ev].
    change (debit (Some s) (from, inc)) with (fold_left debit [(from, inc)] (Some s)) in E.
    assert (Hn : Forall (fun t : addr * addr * coins => nonneg_coins (snd t)) (map (fun o => (from, fst o, snd o)) outs)).
    { apply Forall_map. cbn [snd]. apply (valid_all_nonneg (fun o : addr * coins => snd o)), Ev. }
    assert (Hi : Forall (fun i : addr * coins => fst i <> h) [(from, inc)]) by (constructor; [exact Hs | constructor]).
    destruct (transfer_slack _ _ _ _ d Hw Hi Hn E) as (A & _ & B & C).
    split; [exact A|]. split; [exact B|]. intros Hd. apply C. apply Forall_map. cbn [fst snd]. exact Hd.
  - unfold lift. destruct (multi_in h s ins to) as [s1|] eqn:E; intros [= <- _];
      [|split; [exact Hw|]; split; [lia | reflexivity]].
    unfold multi_in in E. destruct ins as [|i0 ins0] eqn:Ei; [discriminate|]. rewrite <- Ei in *.
    destruct (forallb _ ins) eqn:Ev; [|discriminate].
    assert (Hn : Forall (fun t : addr * addr * coins => nonneg_coins (snd t)) (map (fun i => (fst i, to, snd i)) ins)).
    { apply Forall_map. cbn [snd]. apply (valid_all_nonneg (fun o : addr * coins => snd o)), Ev. }
    destruct (transfer_slack _ _ _ _ d Hw Hs Hn E) as (A & _ & B & C).
    split; [exact A|]. split; [exact B|]. intros Hd. apply C. apply Forall_map. cbn [fst snd].
    apply Forall_forall. intros x _. exact Hd.
  - destruct (accept h s to froms perm) as [[s1 rel]|] eqn:E; intros [= <- _];
      [|split; [exact Hw|]; split; [lia | reflexivity]].
    destruct Hs as [Hs Hinj].
    destruct (accept_spec _ _ _ _ _ _ Hw Hinj E) as (A & _ & B & C & _).
    split; [exact A|]. unfold slack. rewrite B, C. unfold bal_add, bal_sub. rewrite Pos.eqb_refl.
    destruct (Pos.eqb_spec h to); [congruence|]. split; [lia | intros _; lia].
  - unfold lift. destruct (decline s to froms perm) as [s1|] eqn:E; intros [= <- _];
      [|split; [exact Hw|]; split; [lia | reflexivity]].
    destruct (decline_spec _ _ _ _ _ Hw E) as (A & B & _ & _ & Ht).
    split; [exact A|]. unfold slack. rewrite B, Ht. split; [lia | reflexivity].
  - unfold lift. destruct (update_auto s to ups) as [s1|] eqn:E; intros [= <- _];
      [|split; [exact Hw|]; split; [lia | reflexivity]].
    unfold update_auto in E. destruct ups as [|u0 ups0] eqn:Eu; [discriminate|]. rewrite <- Eu in *.
    destruct (forallb _ ups); [|discriminate]. injection E as <-.
    pose proof (fold_set_auto_keeps (fun u : addr * auto => fst u) (fun u => snd u) to ups s) as Hk. cbn zeta in Hk.
    destruct Hk as (A & B & C). unfold wf, slack. rewrite A, B. split; [exact Hw|]. split; [lia | reflexivity].
Qed.

End Ops.

(** * Histories *)
Section Histories.
Variable h : addr.

Lemma run_app s ops o : run h s (ops ++ [o]) = fst (step h (run h s ops) o).
Proof. unfold run. rewrite fold_left_app. reflexivity. Qed.

Lemma run_slack ops : forall s d,
  wf s -> Forall (signer_ok h) ops ->
  wf (run h s ops) /\ slack h s d <= slack h (run h s ops) d /\
  (Forall (no_direct h) ops -> slack h (run h s ops) d = slack h s d).
Proof.
  induction ops as [|o ops IH]; intros s d Hw Hs; cbn [run fold_left].
  - split; [exact Hw|]. split; [lia | reflexivity].
  - inversion Hs as [|? ? Ho Hr]; subst.
    destruct (step h s o) as [s1 res] eqn:E. cbn [fst].
    destruct (step_slack h _ _ _ _ d Hw Ho E) as (Hw1 & Hle & Heq).
    destruct (IH s1 d Hw1 Hr) as (Hw2 & Hle2 & Heq2). fold (run h s1 ops).
    split; [exact Hw2|]. split; [lia|]. intros Hn. inversion Hn as [|? ? Hn1 Hn2]; subst.
    rewrite (Heq2 Hn2), (Heq Hn1). reflexivity.
Qed.

(** C07_holder_covers_records *)
Lemma holder_covers_records : forall s0 ops,
  wf s0 -> covers h s0 -> Forall (signer_ok h) ops ->
  let s := run h s0 ops in
  wf s /\
  (forall d, rec_total (s_recs s) d <= s_bal s h d) /\
  (forall d, slack h s0 d <= slack h s d) /\
  (Forall (no_direct h) ops -> forall d, slack h s d = slack h s0 d).
Proof.
  intros s0 ops Hw Hc Hs. cbn zeta. split; [apply (run_slack ops s0 1%positive Hw Hs)|].
  split; [|split].
  - intros d. destruct (run_slack ops s0 d Hw Hs) as (_ & Hle & _). specialize (Hc d). unfold slack in Hle. lia.
  - intros d. apply (run_slack ops s0 d Hw Hs).
  - intros Hn d. apply (run_slack ops s0 d Hw Hs), Hn.
Qed.

(** one MsgSend, by case *)
Lemma send_spec s from to c s' :
  wf s -> send h s from to c = Some s' ->
  (is_quarantined h s from to = false /\ s_recs s' = s_recs s /\
   forall a d, s_bal s' a d = bal_add (bal_sub (s_bal s) from c) to c a d) \/
  (is_quarantined h s from to = true /\
   (forall a d, s_bal s' a d = bal_add (bal_sub (s_bal s) from c) h c a d) /\
   exists r', s_recs s' = rset (to, [trunc from]) r' (s_recs s) /\
              forall d, amt (q_coins r') d = old (to, [trunc from]) (s_recs s) d + amt c d).
Proof.
  intros Hw. unfold send. destruct (coins_valid c); [|discriminate].
  destruct (debit (Some s) (from, c)) as [s1|] eqn:Ed; [|discriminate].
  apply debit_spec in Ed. destruct Ed as [-> _]. intros Hc.
  destruct (credit_spec h _ _ _ _ _ (wf_with_bal s _ Hw) Hc) as (_ & _ & [(Hq & Hr & Hb)|(Hq & Hb & r' & Hr & Hcn)]).
  - left. split; [exact Hq|]. split; [exact Hr|]. intros a d. rewrite Hb. reflexivity.
  - right. split; [exact Hq|]. split; [intros a d; rewrite Hb; reflexivity|]. exists r'. split; [exact Hr | exact Hcn].
Qed.

(** C07_not_credited_until_accept *)
Lemma not_credited_until_accept : forall s0 ops from to c s' res,
  wf s0 -> Forall (signer_ok h) ops ->
  let s := run h s0 ops in
  step h s (OSend from to c) = (s', Some res) ->
  is_optin s to = true -> get_auto s to from <> AAccept -> from <> h -> to <> h ->
  (forall d, s_bal s' to d = s_bal s to d) /\
  (forall d, s_bal s' h d = s_bal s h d + amt c d) /\
  (forall d, s_bal s' from d = s_bal s from d - amt c d) /\
  (forall d, rec_total (s_recs s') d = rec_total (s_recs s) d + amt c d) /\
  (exists r', rget (to, [trunc from]) (s_recs s') = Some r' /\
              forall d, amt (q_coins r') d = old (to, [trunc from]) (s_recs s) d + amt c d) /\
  (forall k, k <> (to, [trunc from]) -> rget k (s_recs s') = rget k (s_recs s)).
Proof.
  intros s0 ops from to c s' res Hw0 Hs. cbn zeta. set (s := run h s0 ops).
  assert (Hw : wf s) by apply (run_slack ops s0 1%positive Hw0 Hs).
  cbn [step]. unfold lift. destruct (send h s from to c) as [s1|] eqn:E; [|discriminate].
  intros [= <- _] Ho Ha Hfh Hth.
  assert (Hft : from <> to).
  { intros ->. apply Ha. unfold get_auto. rewrite Pos.eqb_refl. reflexivity. }
  assert (Hq : is_quarantined h s from to = true).
  { unfold is_quarantined. rewrite Ho. destruct (Pos.eqb_spec from to); [contradiction|].
    destruct (Pos.eqb_spec from h); [contradiction|]. destruct (get_auto s to from); try reflexivity. congruence. }
  destruct (send_spec _ _ _ _ _ Hw E) as [(Hq' & _)|(_ & Hb & r' & Hr & Hc)]; [congruence|].
  split; [|split; [|split; [|split; [|split]]]].
  - intros d. rewrite Hb. unfold bal_add, bal_sub.
    destruct (Pos.eqb_spec to h); [contradiction|]. destruct (Pos.eqb_spec to from); [congruence | reflexivity].
  - intros d. rewrite Hb. unfold bal_add, bal_sub. rewrite Pos.eqb_refl.
    destruct (Pos.eqb_spec h from); [congruence | reflexivity].
  - intros d. rewrite Hb. unfold bal_add, bal_sub. rewrite Pos.eqb_refl.
    destruct (Pos.eqb_spec from h); [contradiction | reflexivity].
  - intros d. rewrite Hr, rec_total_rset by apply Hw. rewrite Hc. lia.
  - exists r'. split; [|exact Hc]. rewrite Hr, rget_rset, rkey_eqb_refl. reflexivity.
  - intros k Hk. rewrite Hr, rget_rset, rkey_eqb_neq by exact Hk. reflexivity.
Qed.

(** C07_auto_accept_direct *)
Lemma auto_accept_direct : forall s0 ops from to c s' res,
  wf s0 -> Forall (signer_ok h) ops ->
  let s := run h s0 ops in
  step h s (OSend from to c) = (s', Some res) ->
  is_optin s to = false \/ get_auto s to from = AAccept ->
  s_recs s' = s_recs s /\
  (forall a d, s_bal s' a d = bal_add (bal_sub (s_bal s) from c) to c a d) /\
  (from <> to -> forall d, s_bal s' to d = s_bal s to d + amt c d /\ s_bal s' from d = s_bal s from d - amt c d) /\
  (forall a d, a <> from -> a <> to -> s_bal s' a d = s_bal s a d).
Proof.
  intros s0 ops from to c s' res Hw0 Hs. cbn zeta. set (s := run h s0 ops).
  assert (Hw : wf s) by apply (run_slack ops s0 1%positive Hw0 Hs).
  cbn [step]. unfold lift. destruct (send h s from to c) as [s1|] eqn:E; [|discriminate].
  intros [= <- _] Hd.
  assert (Hq : is_quarantined h s from to = false).
  { unfold is_quarantined. destruct Hd as [Hd|Hd]; rewrite Hd; cbn [is_accept negb]; rewrite ?andb_false_r; reflexivity. }
  destruct (send_spec _ _ _ _ _ Hw E) as [(_ & Hr & Hb)|(Hq' & _)]; [|congruence].
  split; [exact Hr|]. split; [exact Hb|]. split.
  - intros Hft d. rewrite !Hb. unfold bal_add, bal_sub. rewrite !Pos.eqb_refl.
    destruct (Pos.eqb_spec to from); [congruence|]. destruct (Pos.eqb_spec from to); [congruence|]. split; reflexivity.
  - intros a d Haf Hat. rewrite Hb. unfold bal_add, bal_sub.
    destruct (Pos.eqb_spec a to); [contradiction|]. destruct (Pos.eqb_spec a from); [contradiction | reflexivity].
Qed.

(** C07_paid_once_in_full *)
Lemma paid_once_in_full : forall s0 ops to froms perm s' rel,
  wf s0 -> Forall (signer_ok h) ops -> to <> h -> inj_named froms ->
  let s := run h s0 ops in
  step h s (OAccept to froms perm) = (s', Some rel) ->
  (* every record is either kept with exactly its coins and still has an unaccepted sender, or
     it is removed, was addressed to [to], and every one of its unaccepted senders was named *)
  (forall k r, rget k (s_recs s) = Some r ->
     (exists r', rget k (s_recs s') = Some r' /\ q_coins r' = q_coins r /\ q_unacc r' <> []) \/
     (rget k (s_recs s') = None /\ fst k = to /\ incl (q_unacc r) froms)) /\
  (forall k r', rget k (s_recs s') = Some r' -> exists r, rget k (s_recs s) = Some r) /\
  (* the released amount is exactly what left the records, leaves the holder, and reaches [to] *)
  (forall d, amt rel d = rec_total (s_recs s) d - rec_total (s_recs s') d) /\
  (forall d, s_bal s' to d = s_bal s to d + amt rel d) /\
  (forall d, s_bal s' h d = s_bal s h d - amt rel d) /\
  (forall a d, a <> to -> a <> h -> s_bal s' a d = s_bal s a d).
Proof.
  intros s0 ops to froms perm s' rel Hw0 Hs Hth Hinj. cbn zeta. set (s := run h s0 ops).
  assert (Hw : wf s) by apply (run_slack ops s0 1%positive Hw0 Hs).
  cbn [step]. destruct (accept h s to froms perm) as [[s1 rel1]|] eqn:E; [|discriminate].
  intros [= <- <-]. destruct (accept_spec h _ _ _ _ _ _ Hw Hinj E) as (_ & _ & Hb & Ht & Hk).
  split; [|split; [|split; [|split; [|split]]]].
  - intros k r Hg. specialize (Hk k). rewrite Hg in Hk.
    destruct (rget k (s_recs s1)) as [r'|]; [left; exists r'; split; [reflexivity | exact Hk] | right; split; [reflexivity | exact Hk]].
  - intros k r' Hg. specialize (Hk k). rewrite Hg in Hk.
    destruct (rget k (s_recs s)) as [r|]; [exists r; reflexivity | contradiction].
  - intros d. rewrite Ht. lia.
  - intros d. rewrite Hb. unfold bal_add, bal_sub. rewrite Pos.eqb_refl.
    destruct (Pos.eqb_spec to h); [contradiction | reflexivity].
  - intros d. rewrite Hb. unfold bal_add, bal_sub. rewrite Pos.eqb_refl.
    destruct (Pos.eqb_spec h to); [congruence | reflexivity].
  - intros a d Hat Hah. rewrite Hb. unfold bal_add, bal_sub.
    destruct (Pos.eqb_spec a to); [contradiction|]. destruct (Pos.eqb_spec a h); [contradiction | reflexivity].
Qed.

(** C07_neutral_ops *)
Definition neutral (o : op) : Prop :=
  match o with OOptIn _ | OOptOut _ | ODecline _ _ _ | OUpdate _ _ => True | _ => False end.

Lemma neutral_ops : forall s0 ops o s' res,
  wf s0 -> Forall (signer_ok h) ops -> neutral o ->
  let s := run h s0 ops in
  step h s o = (s', res) ->
  (forall a d, s_bal s' a d = s_bal s a d) /\
  (forall k, option_map q_coins (rget k (s_recs s')) = option_map q_coins (rget k (s_recs s))) /\
  (forall d, rec_total (s_recs s') d = rec_total (s_recs s) d).
Proof.
  intros s0 ops o s' res Hw0 Hs Hn. cbn zeta. set (s := run h s0 ops).
  assert (Hw : wf s) by apply (run_slack ops s0 1%positive Hw0 Hs).
  destruct o as [a|a|from to c|from inc outs|ins to|to froms perm|to froms perm|to ups]; try contradiction; cbn [step].
  - intros [= <- _]. unfold opt_in. destruct (is_optin s a); repeat split; reflexivity.
  - intros [= <- _]. repeat split; reflexivity.
  - unfold lift. destruct (decline s to froms perm) as [s1|] eqn:E; intros [= <- _]; [|repeat split; reflexivity].
    destruct (decline_spec _ _ _ _ _ Hw E) as (_ & B & _ & V & T).
    split; [intros a d; rewrite B; reflexivity|]. split; [exact V | exact T].
  - unfold lift. destruct (update_auto s to ups) as [s1|] eqn:E; intros [= <- _]; [|repeat split; reflexivity].
    unfold update_auto in E. destruct ups as [|u0 ups0] eqn:Eu; [discriminate|]. rewrite <- Eu in *.
    destruct (forallb _ ups); [|discriminate]. injection E as <-.
    pose proof (fold_set_auto_keeps (fun u : addr * auto => fst u) (fun u => snd u) to ups s) as Hk. cbn zeta in Hk.
    destruct Hk as (A & B & C). rewrite A, B. repeat split; reflexivity.
Qed.

End Histories.
