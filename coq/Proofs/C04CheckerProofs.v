(** The property checker of Corr/C04.v holds on the model: whatever the code model permits satisfies
    every "prop:" clause the correspondence evaluates on the implementation's answers.  A "prop:"
    failure on the real code is therefore a behaviour the model cannot show. *)
From Coq Require Import ZArith PArith List Bool Ascii String.
From PV Require Import Marker.SendRestr Marker.SendRestrSpec Marker.SendCompose
  Proofs.SendRestrProofs Proofs.SendComposeProofs Proofs.ReqAttrProofs Corr.CorrBase Corr.C04.
Import ListNotations.

Lemma bypassed_false_not_bypassed c from : bypassed c from = false -> not_bypassed c from.
Proof.
  unfold bypassed, not_bypassed. intros H.
  apply orb_false_iff in H as [H H3]. apply orb_false_iff in H as [H1 H2].
  repeat split; [exact H1 | |]; intros ->; rewrite addr_eqb_refl in *; discriminate.
Qed.

Lemma some_agent_has_intro m l r a : In a l -> has_access m a r = true -> some_agent_has m l r = true.
Proof.
  intros Hin Ha. unfold some_agent_has. apply existsb_exists. exists a. split; [exact Hin | exact Ha].
Qed.

Lemma fee_collector_clause_on_model c from to amt :
  allowed c from to amt = true -> fee_collector_clause c to amt = true.
Proof.
  intros Ha. unfold fee_collector_clause.
  destruct (addr_eqb to (cfg_fee_collector c)) eqn:E; [|reflexivity].
  apply addr_eqb_eq in E. subst to.
  apply forallb_forall. intros [d a] Hin. cbn [fst].
  unfold restricted_coin, marker_for_denom, marker_at.
  destruct (lookup_acct (AMarker d) (cfg_accounts c)) as [[|m]|] eqn:El; try reflexivity.
  assert (Hg : get_marker c (AMarker d) = GMSome m) by (unfold get_marker; rewrite El; reflexivity).
  rewrite (no_restricted_to_fee_collector c from amt Ha d a m Hin Hg). reflexivity.
Qed.

Lemma withdraw_clause_on_model c from to amt :
  allowed c from to amt = true -> withdraw_clause c from = true.
Proof.
  intros Ha. unfold withdraw_clause.
  destruct (marker_at c from) as [fm|] eqn:Em; [|reflexivity].
  destruct (bypassed c from) eqn:Eb; [reflexivity|].
  assert (Hg : get_marker c from = GMSome fm).
  { unfold marker_at in Em. unfold get_marker.
    destruct (lookup_acct from (cfg_accounts c)) as [[|m]|]; try discriminate. injection Em as ->. reflexivity. }
  destruct (withdraw_needs_authority c from to amt fm (bypassed_false_not_bypassed _ _ Eb) Hg Ha) as [[Hf | (a & Hin & Hacc)] _].
  - rewrite Hf. reflexivity.
  - rewrite (some_agent_has_intro fm (cfg_agents c) AcWithdraw a Hin Hacc). apply orb_true_r.
Qed.

Lemma deposit_clause_on_model c from to amt :
  allowed c from to amt = true -> deposit_clause c from to = true.
Proof.
  intros Ha. unfold deposit_clause.
  destruct (marker_at c to) as [tm|] eqn:Em; [|reflexivity].
  destruct (m_type tm) eqn:Et; [reflexivity|].
  destruct (bypassed c from) eqn:Eb; [reflexivity|].
  assert (Hg : get_marker c to = GMSome tm).
  { unfold marker_at in Em. unfold get_marker.
    destruct (lookup_acct to (cfg_accounts c)) as [[|m]|]; try discriminate. injection Em as ->. reflexivity. }
  destruct (deposit_needs_authority c from to amt tm (bypassed_false_not_bypassed _ _ Eb) Hg Et Ha)
    as [[Hnil Hacc] | (a & Hin & Hacc)].
  - rewrite Hnil. exact Hacc.
  - destruct (cfg_agents c) as [|x l] eqn:El; [destruct Hin|].
    apply (some_agent_has_intro tm (x :: l) AcDeposit a Hin Hacc).
Qed.

Lemma tag_true s : tag true s = [].
Proof. reflexivity. Qed.

(** The marker keeper's own answer: the model's verdict passes every check. *)
Lemma check_answer_on_model what c from to amt :
  coins_valid amt -> check_answer what c from to amt (allowed c from to amt) = [].
Proof.
  intros Hv. unfold check_answer.
  rewrite <- (code_eq_doc c from to amt Hv), Bool.eqb_reflx. cbn [tag app].
  destruct (allowed c from to amt) eqn:Ha; [|reflexivity].
  rewrite (fee_collector_clause_on_model _ _ _ _ Ha), (withdraw_clause_on_model _ _ _ _ Ha),
    (deposit_clause_on_model _ _ _ _ Ha). reflexivity.
Qed.

(** A movement the composed model lets through satisfies every clause demanded of a moved amount ... *)
Lemma moved_clauses_on_model what ac from to amt dest :
  coins_valid amt -> app_restriction_seq ac from to amt = Some dest ->
  moved_clauses what ac from to amt = [].
Proof.
  intros Hv H. rewrite app_restriction_seq_eq in H.
  destruct (allowed (ac_marker ac) from to amt) eqn:Ha; cbn [andb] in H; [|discriminate].
  destruct (sanction_passes (ac_sanction ac) from) eqn:Es; [|discriminate].
  unfold moved_clauses. rewrite <- (code_eq_doc _ from to amt Hv), Ha, Es.
  rewrite (fee_collector_clause_on_model _ _ _ _ Ha), (withdraw_clause_on_model _ _ _ _ Ha),
    (deposit_clause_on_model _ _ _ _ Ha). reflexivity.
Qed.

(** ... and one it refuses is refused by the documented rules or by the sanction. *)
Lemma denied_clauses_on_model what ac from to amt :
  coins_valid amt -> app_restriction_seq ac from to amt = None ->
  denied_clauses what ac from to amt = [].
Proof.
  intros Hv H. rewrite app_restriction_seq_eq in H.
  unfold denied_clauses. rewrite <- (code_eq_doc _ from to amt Hv).
  destruct (allowed (ac_marker ac) from to amt && sanction_passes (ac_sanction ac) from); [discriminate | reflexivity].
Qed.

(** The quarantine clause holds of the balance changes the model predicts (distinct sender, receiver, holder). *)
Lemma quarantine_clause_on_model ac from to amt dest :
  from <> to -> app_restriction_seq ac from to amt = Some dest ->
  quarantine_clause ac from to amt (expected_deltas from to (qc_holder (ac_quar ac)) dest amt) = true.
Proof.
  intros Hft H. rewrite app_restriction_seq_eq in H.
  destruct (allowed (ac_marker ac) from to amt && sanction_passes (ac_sanction ac) from); [|discriminate].
  injection H as <-. unfold quarantine_clause.
  set (qc := ac_quar ac).
  destruct (negb (qc_bypass qc) && is_quarantined qc to && negb (is_auto_accept qc to from)
            && negb (addr_eqb from (qc_holder qc)) && negb (addr_eqb to (qc_holder qc))) eqn:E; [|reflexivity].
  repeat (apply andb_true_iff in E as [E ?]).
  assert (Hr : q_redirects qc from to = true).
  { unfold q_redirects. rewrite E, (addr_eqb_neq _ _ Hft). cbn [negb andb].
    repeat (apply andb_true_iff; split); assumption. }
  unfold q_dest. rewrite Hr. unfold expected_deltas.
  assert (Hfh : addr_eqb from (qc_holder qc) = false) by (destruct (addr_eqb from (qc_holder qc)); [discriminate | reflexivity]).
  assert (Hth : addr_eqb to (qc_holder qc) = false) by (destruct (addr_eqb to (qc_holder qc)); [discriminate | reflexivity]).
  induction amt as [|p amt IH]; [reflexivity|].
  cbn [map list_eqb]. rewrite IH, andb_true_r.
  unfold net, delta_eqb. rewrite Hfh, Hth, !addr_eqb_refl, (addr_eqb_neq _ _ (not_eq_sym Hft)).
  rewrite Pos.eqb_refl. cbn [andb].
  rewrite (addr_eqb_sym (qc_holder qc) from), Hfh.
  repeat (apply andb_true_iff; split); apply Z.eqb_eq; ring.
Qed.

Lemma checker_holds_on_model what ac from to amt :
  coins_valid amt ->
  check_answer what (ac_marker ac) from to amt (allowed (ac_marker ac) from to amt) = [] /\
  (forall dest, app_restriction_seq ac from to amt = Some dest ->
     moved_clauses what ac from to amt = [] /\
     (from <> to ->
      quarantine_clause ac from to amt (expected_deltas from to (qc_holder (ac_quar ac)) dest amt) = true)) /\
  (app_restriction_seq ac from to amt = None -> denied_clauses what ac from to amt = []).
Proof.
  intros Hv. split; [apply check_answer_on_model; exact Hv|]. split.
  - intros dest H. split; [eapply moved_clauses_on_model; eassumption|].
    intros Hft. apply quarantine_clause_on_model; assumption.
  - apply denied_clauses_on_model. exact Hv.
Qed.

(** The required-attribute clause evaluated by [CReqAttr] holds on the model: where the attributes
    decide, the model's verdict is the per-requirement rule on the configuration's own name lists. *)
Lemma required_attributes_clause_on_model c from to d a m :
  (0 < a)%Z -> attribute_decided c from to d = true -> marker_for_denom c d = Some m ->
  Bool.eqb (allowed c from to [(d, a)]) (each_requirement_matched (m_req_attrs m) (attributes_of c to)) = true.
Proof.
  intros Ha Hd Hm. rewrite (attribute_decided_verdict c from to d a m Ha Hd Hm). apply Bool.eqb_reflx.
Qed.

