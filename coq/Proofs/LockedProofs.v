(** Proofs about [PV.Hold.Locked] (property C03). *)
From Coq Require Import ZArith NArith List Bool Lia ZifyBool.
From PV Require Import Hold.Locked.
Import ListNotations.
Open Scope Z_scope.

Lemma upd_same s a d v : upd s a d v a d = v.
Proof. unfold upd. rewrite !N.eqb_refl. reflexivity. Qed.

Lemma upd_other s a d v a' d' : (a, d) <> (a', d') -> upd s a d v a' d' = s a' d'.
Proof.
  intros H. unfold upd.
  destruct (N.eqb_spec a a'), (N.eqb_spec d d'); simpl; try reflexivity. subst. congruence.
Qed.

Lemma upd_cases s a d v a' d' :
  (a = a' /\ d = d' /\ upd s a d v a' d' = v) \/ ((a, d) <> (a', d') /\ upd s a d v a' d' = s a' d').
Proof.
  destruct (N.eq_dec a a'), (N.eq_dec d d'); subst;
    try (right; split; [congruence| apply upd_other; congruence]).
  left. rewrite upd_same. auto.
Qed.

Lemma locked_ge_hold s vb a d : 0 <= hold s a d -> hold s a d <= locked s vb false a d.
Proof. intros H. unfold locked, pos_part. destruct vb; lia. Qed.

(** A successful subUnlockedCoins leaves at least the locked amount, hence at least the hold. *)
Lemma sub_unlocked_spec s a d amt s' :
  sub_unlocked s a d amt = Some s' ->
  amt <= bal s a d - locked s false false a d /\
  hold s' = hold s /\ unvested s' = unvested s /\
  bal s' = upd (bal s) a d (bal s a d - amt).
Proof.
  unfold sub_unlocked. destruct (Z.ltb_spec (bal s a d) (locked s false false a d)); [discriminate|].
  destruct (Z.ltb_spec (bal s a d - locked s false false a d) amt); [discriminate|].
  intros [= <-]. cbn. repeat split; lia.
Qed.

Lemma sub_unlocked_inv s a d amt s' : Inv s -> 0 <= amt -> sub_unlocked s a d amt = Some s' -> Inv s'.
Proof.
  intros HI Ha H. apply sub_unlocked_spec in H. destruct H as (Hle & Hh & Hu & Hb).
  intros a' d'. rewrite Hh, Hu, Hb. destruct (HI a' d') as (Hh0 & Hh1 & Hh2).
  destruct (upd_cases (bal s) a d (bal s a d - amt) a' d') as [(-> & -> & ->)|(_ & ->)].
  - pose proof (locked_ge_hold s false a' d' Hh0). lia.
  - lia.
Qed.

Lemma delegate_sub_inv s a d amt s' : Inv s -> 0 <= amt -> delegate_sub s a d amt = Some s' -> Inv s'.
Proof.
  intros HI Ha. unfold delegate_sub.
  destruct (Z.ltb_spec (bal s a d - locked s true false a d) amt); [discriminate|].
  intros [= <-]. intros a' d'. cbn. destruct (HI a' d') as (Hh0 & Hh1 & Hh2).
  destruct (upd_cases (bal s) a d (bal s a d - amt) a' d') as [(-> & -> & ->)|(_ & ->)].
  - pose proof (locked_ge_hold s true a' d' Hh0). lia.
  - lia.
Qed.

Lemma add_coins_inv s a d amt : Inv s -> 0 <= amt -> Inv (add_coins s a d amt).
Proof.
  intros HI Ha a' d'. cbn. destruct (HI a' d') as (Hh0 & Hh1 & Hh2).
  destruct (upd_cases (bal s) a d (bal s a d + amt) a' d') as [(-> & -> & ->)|(_ & ->)]; lia.
Qed.

Lemma all_pos_forall l : all_pos l = true -> Forall (fun p => 0 < snd p) l.
Proof.
  unfold all_pos. rewrite forallb_forall. intros H. apply Forall_forall. intros x Hx.
  specialize (H x Hx). lia.
Qed.

Lemma sum_amts_nonneg l : Forall (fun p => 0 < snd p) l -> 0 <= sum_amts l.
Proof. induction 1 as [|p l Hp Hl IH]; cbn; [lia|]. unfold sum_amts in IH. lia. Qed.

Lemma add_all_inv l : Forall (fun p => 0 < snd p) l -> forall s d, Inv s -> Inv (add_all s d l).
Proof.
  unfold add_all. induction 1 as [|p l Hp Hl IH]; intros s d HI; cbn [fold_left]; [assumption|].
  apply IH. apply add_coins_inv; [assumption|lia].
Qed.

Lemma sub_all_inv l : Forall (fun p => 0 < snd p) l -> forall s d s', Inv s -> sub_all s d l = Some s' -> Inv s'.
Proof.
  induction 1 as [|[a amt] l Hp Hl IH]; intros s d s' HI; cbn [sub_all].
  - intros [= <-]; assumption.
  - destruct (sub_unlocked s a d amt) as [s1|] eqn:E; [|discriminate].
    intros H. eapply IH; [|exact H]. eapply sub_unlocked_inv; [exact HI| |exact E]. cbn in Hp. lia.
Qed.

(** Every primitive preserves [hold <= balance]. *)
Lemma step_inv s o s' : Inv s -> step s o = Some s' -> Inv s'.
Proof.
  intros HI. destruct o as [from to d amt|from outs d|ins to d|from pool d amt|pool to d amt|from d amt|to d amt|a d amt|a d amt|a d v];
    cbn [step].
  - destruct (Z.leb_spec amt 0); [discriminate|].
    destruct (sub_unlocked s from d amt) as [s1|] eqn:E; [|discriminate]. intros [= <-].
    apply add_coins_inv; [|lia]. eapply sub_unlocked_inv; [exact HI| |exact E]. lia.
  - destruct (all_pos outs) eqn:Ep; [|discriminate]. cbn [negb].
    apply all_pos_forall in Ep.
    destruct (sub_unlocked s from d (sum_amts outs)) as [s1|] eqn:E; [|discriminate]. intros [= <-].
    apply add_all_inv; [assumption|]. eapply sub_unlocked_inv; [exact HI| |exact E].
    apply sum_amts_nonneg; assumption.
  - destruct (all_pos ins) eqn:Ep; [|discriminate]. cbn [negb].
    apply all_pos_forall in Ep.
    destruct (sub_all s d ins) as [s1|] eqn:E; [|discriminate]. intros [= <-].
    apply add_coins_inv; [|apply sum_amts_nonneg; assumption].
    eapply sub_all_inv; [exact Ep|exact HI|exact E].
  - destruct (Z.leb_spec amt 0); [discriminate|].
    destruct (delegate_sub s from d amt) as [s1|] eqn:E; [|discriminate]. intros [= <-].
    apply add_coins_inv; [|lia]. eapply delegate_sub_inv; [exact HI| |exact E]. lia.
  - destruct (Z.leb_spec amt 0); [discriminate|].
    destruct (sub_unlocked s pool d amt) as [s1|] eqn:E; [|discriminate]. intros [= <-].
    apply add_coins_inv; [|lia]. eapply sub_unlocked_inv; [exact HI| |exact E]. lia.
  - destruct (Z.leb_spec amt 0); [discriminate|].
    intros E. eapply sub_unlocked_inv; [exact HI| |exact E]. lia.
  - destruct (Z.leb_spec amt 0); [discriminate|]. intros [= <-]. apply add_coins_inv; [assumption|lia].
  - destruct (Z.eqb_spec amt 0); [intros [= <-]; assumption|].
    destruct (Z.ltb_spec amt 0); [discriminate|].
    destruct (Z.ltb_spec (spendable s a d) amt); [discriminate|]. intros [= <-].
    intros a' d'. cbn. destruct (HI a' d') as (Hh0 & Hh1 & Hh2).
    destruct (upd_cases (hold s) a d (hold s a d + amt) a' d') as [(-> & -> & ->)|(_ & ->)]; [|lia].
    unfold spendable, locked, pos_part in *. lia.
  - destruct (Z.eqb_spec amt 0); [intros [= <-]; assumption|].
    destruct (Z.ltb_spec amt 0); [discriminate|].
    destruct (Z.ltb_spec (hold s a d - amt) 0); [discriminate|]. intros [= <-].
    intros a' d'. cbn. destruct (HI a' d') as (Hh0 & Hh1 & Hh2).
    destruct (upd_cases (hold s) a d (hold s a d - amt) a' d') as [(-> & -> & ->)|(_ & ->)]; lia.
  - destruct (Z.ltb_spec v 0); [discriminate|]. intros [= <-].
    intros a' d'. cbn. destruct (HI a' d') as (Hh0 & Hh1 & Hh2).
    destruct (upd_cases (unvested s) a d v a' d') as [(-> & -> & ->)|(_ & ->)]; lia.
Qed.

Lemma run_op_inv s o : Inv s -> Inv (run_op s o).
Proof. intros HI. unfold run_op. destruct (step s o) eqn:E; [eapply step_inv; eauto|assumption]. Qed.

Theorem run_inv ops : forall s, Inv s -> Inv (run s ops).
Proof.
  unfold run. induction ops as [|o ops IH]; intros s HI; cbn [fold_left]; [assumption|].
  apply IH. apply run_op_inv. assumption.
Qed.

(** No operation other than ReleaseHold/AddHold changes a hold, and no successful
    balance-decreasing primitive takes the sender below its hold (+ unvested, unless delegating). *)
Lemma sub_unlocked_hold s a d amt s' : sub_unlocked s a d amt = Some s' -> hold s' = hold s.
Proof. intros H. apply sub_unlocked_spec in H. tauto. Qed.

Lemma delegate_sub_hold s a d amt s' : delegate_sub s a d amt = Some s' -> hold s' = hold s.
Proof. unfold delegate_sub. destruct (_ <? _); [discriminate|]. intros [= <-]. reflexivity. Qed.

Lemma add_all_hold l : forall s d, hold (add_all s d l) = hold s.
Proof. unfold add_all. induction l as [|p l IH]; intros s d; cbn [fold_left]; [reflexivity|]. rewrite IH. reflexivity. Qed.

Lemma sub_all_hold l : forall s d s', sub_all s d l = Some s' -> hold s' = hold s.
Proof.
  induction l as [|[a amt] l IH]; intros s d s'; cbn [sub_all].
  - intros [= <-]. reflexivity.
  - destruct (sub_unlocked s a d amt) as [s1|] eqn:E; [|discriminate]. intros H.
    rewrite (IH _ _ _ H). eapply sub_unlocked_hold; eassumption.
Qed.

Lemma step_hold_frame s o s' :
  step s o = Some s' ->
  (forall a d amt, o <> OAddHold a d amt) -> (forall a d amt, o <> OReleaseHold a d amt) ->
  hold s' = hold s.
Proof.
  intros H N1 N2.
  destruct o as [from to d amt|from outs d|ins to d|from pool d amt|pool to d amt|from d amt|to d amt|a d amt|a d amt|a d v];
    cbn [step] in H.
  - destruct (amt <=? 0); [discriminate|].
    destruct (sub_unlocked s from d amt) as [s1|] eqn:E; [|discriminate]. injection H as <-.
    cbn. eapply sub_unlocked_hold; eassumption.
  - destruct (negb (all_pos outs)); [discriminate|].
    destruct (sub_unlocked s from d (sum_amts outs)) as [s1|] eqn:E; [|discriminate]. injection H as <-.
    rewrite add_all_hold. eapply sub_unlocked_hold; eassumption.
  - destruct (negb (all_pos ins)); [discriminate|].
    destruct (sub_all s d ins) as [s1|] eqn:E; [|discriminate]. injection H as <-.
    cbn. eapply sub_all_hold; eassumption.
  - destruct (amt <=? 0); [discriminate|].
    destruct (delegate_sub s from d amt) as [s1|] eqn:E; [|discriminate]. injection H as <-.
    cbn. eapply delegate_sub_hold; eassumption.
  - destruct (amt <=? 0); [discriminate|].
    destruct (sub_unlocked s pool d amt) as [s1|] eqn:E; [|discriminate]. injection H as <-.
    cbn. eapply sub_unlocked_hold; eassumption.
  - destruct (amt <=? 0); [discriminate|]. eapply sub_unlocked_hold; eassumption.
  - destruct (amt <=? 0); [discriminate|]. injection H as <-. reflexivity.
  - exfalso. eapply N1. reflexivity.
  - exfalso. eapply N2. reflexivity.
  - destruct (v <? 0); [discriminate|]. injection H as <-. reflexivity.
Qed.

(** The spendable balance reported to clients. *)
Lemma spendable_formula s a d :
  0 <= hold s a d -> 0 <= unvested s a d ->
  spendable s a d = Z.max 0 (bal s a d - hold s a d - unvested s a d).
Proof. intros. unfold spendable, locked, pos_part. lia. Qed.

(** Exact success condition of a plain send and of a delegation. *)
Lemma send_succeeds_iff s from to d amt :
  Inv s -> 0 < amt ->
  (step s (OSend from to d amt) <> None <-> amt <= bal s from d - hold s from d - unvested s from d).
Proof.
  intros HI Ha. cbn [step]. replace (amt <=? 0) with false by lia.
  unfold sub_unlocked. destruct (HI from d) as (Hh0 & Hh1 & Hh2).
  unfold locked, pos_part.
  destruct (Z.ltb_spec (bal s from d) (Z.max 0 (unvested s from d) + Z.max 0 (hold s from d)));
    [split; [congruence|lia]|].
  destruct (Z.ltb_spec (bal s from d - (Z.max 0 (unvested s from d) + Z.max 0 (hold s from d))) amt);
    split; try congruence; try lia; try (intros _; discriminate).
Qed.

Lemma delegate_succeeds_iff s from pool d amt :
  Inv s -> 0 < amt ->
  (step s (ODelegate from pool d amt) <> None <-> amt <= bal s from d - hold s from d).
Proof.
  intros HI Ha. cbn [step]. replace (amt <=? 0) with false by lia.
  unfold delegate_sub. destruct (HI from d) as (Hh0 & Hh1 & Hh2). unfold locked, pos_part.
  destruct (Z.ltb_spec (bal s from d - (0 + Z.max 0 (hold s from d))) amt);
    split; try congruence; try lia; try (intros _; discriminate).
Qed.
