(** Lemmas about sorted tables, runs of writes and the generic indexed import
    (Genesis/Indexed.v); used by the exchange / marker / metadata genesis proofs (property C18).
    Closed under the global context. *)
From Coq Require Import ZArith NArith List Bool Sorted Lia.
From PV Require Import Genesis.RoundTrip Genesis.Indexed Proofs.RoundTripProofs.
Import ListNotations.
Open Scope Z_scope.

(* ------------------------------------------------------------------ kcmp *)

Lemma kcmp_neq_sym : forall a b, kcmp a b <> Eq -> kcmp b a <> Eq.
Proof. intros a b H E. apply H. apply kcmp_eq in E. subst. apply kcmp_refl. Qed.

Lemma keqb_true : forall a b, keqb a b = true -> a = b.
Proof. intros a b H. unfold keqb in H. destruct (kcmp a b) eqn:E; try discriminate. apply kcmp_eq; exact E. Qed.

Lemma keqb_refl : forall a, keqb a a = true.
Proof. intro a. unfold keqb. rewrite kcmp_refl. reflexivity. Qed.

Lemma keqb_false_neq : forall a b, keqb a b = false -> a <> b.
Proof. intros a b H E. subst. rewrite keqb_refl in H. discriminate. Qed.

Lemma kcmp_cons_same : forall x a b, kcmp (x :: a) (x :: b) = kcmp a b.
Proof. intros. simpl. rewrite N.compare_refl. reflexivity. Qed.

(** equal-length heads decide the comparison of concatenations *)
Lemma kcmp_app_same_len : forall a1 a2 d1 d2, length a1 = length a2 ->
  kcmp (a1 ++ d1) (a2 ++ d2) = match kcmp a1 a2 with Eq => kcmp d1 d2 | c => c end.
Proof.
  induction a1 as [|x a1 IH]; destruct a2 as [|y a2]; intros d1 d2 H; simpl in H; try discriminate.
  - reflexivity.
  - simpl. destruct (N.compare x y); try reflexivity. apply IH. lia.
Qed.

Lemma kcmp_len_prefixed_app : forall a1 a2 d1 d2,
  kcmp (len_prefixed a1 ++ d1) (len_prefixed a2 ++ d2) =
  match kcmp (len_prefixed a1) (len_prefixed a2) with Eq => kcmp d1 d2 | c => c end.
Proof.
  intros. unfold len_prefixed. simpl.
  destruct (N.compare (N.of_nat (length a1)) (N.of_nat (length a2))) eqn:E; try reflexivity.
  apply N.compare_eq_iff in E. apply Nat2N.inj in E. apply kcmp_app_same_len. exact E.
Qed.

Lemma len_prefixed_inj : forall a b, len_prefixed a = len_prefixed b -> a = b.
Proof. intros a b H. unfold len_prefixed in H. inversion H. reflexivity. Qed.

(* ------------------------------------------------------------------ get after alter *)

Lemma tget_head_gt : forall (R : Type) k k0 (r0 : R) (t : table R),
  Forall (klt (k0, r0)) t -> kcmp k k0 <> Gt -> tget k t = None.
Proof. intros. eapply tget_below; eassumption. Qed.

Lemma tget_talter_same : forall (R : Type) (f : option R -> option (option R)) k (t u : table R),
  tsorted t -> talter f k t = Some u ->
  exists r, f (tget k t) = Some r /\ tget k u = r.
Proof.
  intros R f k t. induction t as [|[k' r'] t IH]; intros u Hs H; simpl in H |- *.
  - destruct (f None) as [[v|]|]; inversion H; subst; eexists; split; try reflexivity.
    simpl. rewrite kcmp_refl. reflexivity.
  - inversion Hs as [|? ? Hs' Hall]; subst. destruct (kcmp k k') eqn:E.
    + destruct (f (Some r')) as [[v|]|] eqn:F; inversion H; subst; eexists; split; try reflexivity.
      * simpl. rewrite kcmp_refl. reflexivity.
      * eapply tget_below; [eassumption | rewrite E; discriminate].
    + destruct (f None) as [[v|]|] eqn:F; inversion H; subst; eexists; split; try reflexivity.
      * simpl. rewrite kcmp_refl. reflexivity.
      * simpl. rewrite E. reflexivity.
    + destruct (talter f k t) as [u0|] eqn:Et; inversion H; subst.
      destruct (IH u0 Hs' eq_refl) as [r [Hf Hg]]. exists r. split; [exact Hf|].
      simpl. rewrite E. exact Hg.
Qed.

Lemma tget_talter_other : forall (R : Type) (f : option R -> option (option R)) k k2 (t u : table R),
  tsorted t -> talter f k t = Some u -> kcmp k2 k <> Eq -> tget k2 u = tget k2 t.
Proof.
  intros R f k k2 t. induction t as [|[k' r'] t IH]; intros u Hs H Hne; simpl in H.
  - destruct (f None) as [[v|]|]; inversion H; subst; [|reflexivity].
    simpl. destruct (kcmp k2 k) eqn:E; [congruence | reflexivity | reflexivity].
  - inversion Hs as [|? ? Hs' Hall]; subst. destruct (kcmp k k') eqn:E.
    + apply kcmp_eq in E. subst k'.
      destruct (f (Some r')) as [[v|]|]; inversion H; subst.
      * simpl. destruct (kcmp k2 k) eqn:E2; [congruence | reflexivity | reflexivity].
      * simpl. destruct (kcmp k2 k) eqn:E2; [congruence | | reflexivity].
        eapply tget_below; [eassumption | rewrite E2; discriminate].
    + destruct (f None) as [[v|]|]; inversion H; subst; [|reflexivity].
      simpl. destruct (kcmp k2 k) eqn:E2; [congruence | | reflexivity].
      rewrite (kcmp_lt_trans _ _ _ E2 E). reflexivity.
    + destruct (talter f k t) as [u0|] eqn:Et; inversion H; subst.
      simpl. destruct (kcmp k2 k'); try reflexivity. apply IH; [exact Hs' | reflexivity | exact Hne].
Qed.

Lemma talter_total : forall (R : Type) (f : option R -> option (option R)) k (t : table R),
  (forall o, f o <> None) -> exists u, talter f k t = Some u.
Proof.
  intros R f k t Hf. induction t as [|[k' r'] t IH]; simpl.
  - destruct (f None) as [[v|]|] eqn:F; [eexists; reflexivity | eexists; reflexivity | exfalso; eapply Hf; eassumption].
  - destruct (kcmp k k').
    + destruct (f (Some r')) as [[v|]|] eqn:F; [eexists; reflexivity | eexists; reflexivity | exfalso; eapply Hf; eassumption].
    + destruct (f None) as [[v|]|] eqn:F; [eexists; reflexivity | eexists; reflexivity | exfalso; eapply Hf; eassumption].
    + destruct IH as [u Hu]. rewrite Hu. eexists; reflexivity.
Qed.

Lemma tset_spec : forall (R : Type) k (v : R) t, talter (fun _ => Some (Some v)) k t = Some (tset k v t).
Proof.
  intros. unfold tset. destruct (talter_total R (fun _ => Some (Some v)) k t) as [u Hu]; [intros o; discriminate|].
  rewrite Hu. reflexivity.
Qed.

Lemma tdel_spec : forall (R : Type) k (t : table R), talter (fun _ => Some None) k t = Some (tdel k t).
Proof.
  intros. unfold tdel. destruct (talter_total R (fun _ => Some None) k t) as [u Hu]; [intros o; discriminate|].
  rewrite Hu. reflexivity.
Qed.

Lemma tget_tset_same : forall (R : Type) k (v : R) t, tsorted t -> tget k (tset k v t) = Some v.
Proof.
  intros R k v t Hs. destruct (tget_talter_same R _ k t _ Hs (tset_spec R k v t)) as [r [Hf Hg]].
  rewrite Hg. injection Hf as Hf. symmetry. exact Hf.
Qed.

Lemma tget_tset_other : forall (R : Type) k k2 (v : R) t,
  tsorted t -> kcmp k2 k <> Eq -> tget k2 (tset k v t) = tget k2 t.
Proof. intros R k k2 v t Hs Hne. eapply tget_talter_other; [exact Hs | apply tset_spec | exact Hne]. Qed.

Lemma tget_tdel_same : forall (R : Type) k (t : table R), tsorted t -> tget k (tdel k t) = None.
Proof.
  intros R k t Hs. destruct (tget_talter_same R _ k t _ Hs (tdel_spec R k t)) as [r [Hf Hg]].
  rewrite Hg. injection Hf as Hf. symmetry. exact Hf.
Qed.

Lemma tget_tdel_other : forall (R : Type) k k2 (t : table R),
  tsorted t -> kcmp k2 k <> Eq -> tget k2 (tdel k t) = tget k2 t.
Proof. intros R k k2 t Hs Hne. eapply tget_talter_other; [exact Hs | apply tdel_spec | exact Hne]. Qed.

(* ------------------------------------------------------------------ membership *)

Lemma tget_In : forall (R : Type) k (v : R) t, tget k t = Some v -> In (k, v) t.
Proof.
  intros R k v t. induction t as [|[k' r'] t IH]; simpl; intro H; [discriminate|].
  destruct (kcmp k k') eqn:E; try discriminate.
  - apply kcmp_eq in E. inversion H; subst. left; reflexivity.
  - right. apply IH. exact H.
Qed.

Lemma In_tget : forall (R : Type) k (v : R) t, tsorted t -> In (k, v) t -> tget k t = Some v.
Proof.
  intros R k v t Hs. induction Hs as [|[k' r'] t Hs IH Hall]; intro H; [destruct H|].
  simpl. destruct H as [H|H].
  - inversion H; subst. rewrite kcmp_refl. reflexivity.
  - rewrite Forall_forall in Hall. specialize (Hall _ H). unfold klt in Hall. cbn [fst] in Hall.
    rewrite (kcmp_lt_gt _ _ Hall). apply IH. exact H.
Qed.

Lemma tget_None_notin : forall (R : Type) k (t : table R), tsorted t -> tget k t = None -> ~ In k (map fst t).
Proof.
  intros R k t Hs Hg Hin. apply in_map_iff in Hin. destruct Hin as [[k' v] [E Hin]]. cbn [fst] in E. subst k'.
  rewrite (In_tget R k v t Hs Hin) in Hg. discriminate.
Qed.

Lemma sorted_keys_unique : forall (R : Type) k (v1 v2 : R) t, tsorted t -> In (k, v1) t -> In (k, v2) t -> v1 = v2.
Proof.
  intros R k v1 v2 t Hs H1 H2. apply (In_tget R k v1 t Hs) in H1. apply (In_tget R k v2 t Hs) in H2. congruence.
Qed.

Lemma thas_true : forall (R : Type) k (t : table R), thas k t = true -> exists v, tget k t = Some v.
Proof. intros R k t H. unfold thas in H. destruct (tget k t) as [v|]; [eexists; reflexivity | discriminate]. Qed.

(* ------------------------------------------------------------------ runs of writes *)

Lemma set_all_sorted : forall (R : Type) (es : list (key * R)) t, tsorted t -> tsorted (set_all es t).
Proof.
  intros R es. induction es as [|e es IH]; intros t Hs; [exact Hs|].
  unfold set_all. simpl. apply IH. apply tset_sorted. exact Hs.
Qed.

Lemma del_all_sorted : forall (R : Type) (ks : list key) (t : table R), tsorted t -> tsorted (del_all ks t).
Proof.
  intros R ks. induction ks as [|k ks IH]; intros t Hs; [exact Hs|].
  unfold del_all. simpl. apply IH. apply tdel_sorted. exact Hs.
Qed.

Lemma tbuild_sorted : forall (R : Type) (es : list (key * R)), tsorted (tbuild es).
Proof. intros. unfold tbuild. apply set_all_sorted. constructor. Qed.

Lemma set_all_app : forall (R : Type) (e1 e2 : list (key * R)) t, set_all (e1 ++ e2) t = set_all e2 (set_all e1 t).
Proof. intros. unfold set_all. apply fold_left_app. Qed.

Lemma set_all_nil : forall (R : Type) (t : table R), set_all [] t = t.
Proof. reflexivity. Qed.

Lemma del_all_nil : forall (R : Type) (t : table R), del_all [] t = t.
Proof. reflexivity. Qed.

Lemma tget_set_all_notin : forall (R : Type) (es : list (key * R)) k t,
  tsorted t -> ~ In k (map fst es) -> tget k (set_all es t) = tget k t.
Proof.
  intros R es. induction es as [|[k' v'] es IH]; intros k t Hs Hn; [reflexivity|].
  unfold set_all. simpl. fold (set_all es (tset k' v' t)).
  rewrite IH; [| apply tset_sorted; exact Hs | intro H; apply Hn; right; exact H].
  apply tget_tset_other; [exact Hs|]. intro E. apply kcmp_eq in E. apply Hn. left. symmetry. exact E.
Qed.

Lemma tget_set_all_in : forall (R : Type) (es : list (key * R)) k v t,
  tsorted t -> tget k (set_all es t) = Some v -> In (k, v) es \/ tget k t = Some v.
Proof.
  intros R es. induction es as [|[k' v'] es IH]; intros k v t Hs H; [right; exact H|].
  unfold set_all in H. simpl in H. fold (set_all es (tset k' v' t)) in H.
  destruct (IH k v _ (tset_sorted R k' v' t Hs) H) as [Hin|Hg]; [left; right; exact Hin|].
  destruct (kcmp k k') eqn:E.
  - apply kcmp_eq in E. subst k'. rewrite (tget_tset_same R k v' t Hs) in Hg. inversion Hg; subst. left; left; reflexivity.
  - rewrite tget_tset_other in Hg; [right; exact Hg | exact Hs | rewrite E; discriminate].
  - rewrite tget_tset_other in Hg; [right; exact Hg | exact Hs | rewrite E; discriminate].
Qed.

(** writing the entries of a sorted table in order appends them *)
Lemma set_all_append : forall (R : Type) (t2 t1 : table R), tsorted (t1 ++ t2) -> set_all t2 t1 = t1 ++ t2.
Proof.
  intros R t2. induction t2 as [|[k v] t2 IH]; intros t1 Hs; [rewrite app_nil_r; reflexivity|].
  unfold set_all. simpl. fold (set_all t2 (tset k v t1)).
  assert (E : tset k v t1 = t1 ++ [(k, v)]).
  { unfold tset. rewrite (talter_app_end _ _ _ _ (sorted_app_head _ _ _ _ _ Hs)). reflexivity. }
  rewrite E. change ((k, v) :: t2) with ([(k, v)] ++ t2) in Hs. rewrite app_assoc in Hs.
  rewrite (IH _ Hs). rewrite <- app_assoc. reflexivity.
Qed.

Lemma tbuild_self : forall (R : Type) (t : table R), tsorted t -> tbuild t = t.
Proof. intros R t Hs. unfold tbuild. apply (set_all_append R t []). exact Hs. Qed.

(** re-writing what is stored changes nothing *)
Lemma tset_same_id : forall (R : Type) k (v : R) t, tget k t = Some v -> tset k v t = t.
Proof.
  intros R k v t. unfold tset. induction t as [|[k' r'] t IH]; simpl; intro H; [discriminate|].
  destruct (kcmp k k') eqn:E; try discriminate.
  - apply kcmp_eq in E. inversion H; subst. reflexivity.
  - specialize (IH H). destruct (talter (fun _ : option R => Some (Some v)) k t) as [u|] eqn:Et.
    + rewrite IH. reflexivity.
    + reflexivity.
Qed.

Lemma set_all_same_id : forall (R : Type) (es : list (key * R)) t,
  Forall (fun e => tget (fst e) t = Some (snd e)) es -> set_all es t = t.
Proof.
  intros R es t H. induction H as [|[k v] es Hx Hes IH]; [reflexivity|].
  unfold set_all. simpl. cbn [fst snd] in Hx. rewrite (tset_same_id R k v t Hx). exact IH.
Qed.

(* ------------------------------------------------------------------ timport of plain last-wins setters *)

Lemma timport_plain : forall (G : Type) (key_of : G -> option key) (t : table G),
  tsorted t -> Forall (fun kr => key_of (snd kr) = Some (fst kr)) t ->
  timport key_of (fun g _ => Some (Some g)) (texport (fun g => g) t) = Some t.
Proof.
  intros G key_of t Hs Hf. apply timport_texport. split; [exact Hs|].
  eapply Forall_impl; [|exact Hf]. intros kr H. split; [exact H | reflexivity].
Qed.

(* ------------------------------------------------------------------ the indexed import *)

Section IndexedProofs.
  Context {G R : Type}.
  Variable pk : G -> option key.
  Variable mk : G -> option R -> table R -> R.
  Variable guard : G -> option R -> index -> bool.
  Variable add : G -> option R -> list (key * key).
  Variable rem : G -> option R -> list key.
  Variable proj : R -> G.

  Lemma iimport_none : forall l, fold_left (istep pk mk guard add rem) l None = None.
  Proof. induction l as [|g l IH]; [reflexivity | exact IH]. Qed.

  (** Importing the export of a table into a store that does not hold its records yet: every
      record is new, the guards pass, nothing is deleted; the primary table is rebuilt and the
      index receives exactly the derived entries. *)
  Lemma iimport_fresh_from : forall (t2 t1 : table R) (ix : index),
    tsorted (t1 ++ t2) ->
    Forall (fun kr => pk (proj (snd kr)) = Some (fst kr) /\
                      (forall p, mk (proj (snd kr)) None p = snd kr) /\
                      rem (proj (snd kr)) None = []) t2 ->
    (forall ta kr tb, t2 = ta ++ kr :: tb ->
       guard (proj (snd kr)) None (set_all (derived_index proj add ta) ix) = true) ->
    iimport pk mk guard add rem (texport proj t2) t1 ix =
    Some (t1 ++ t2, set_all (derived_index proj add t2) ix).
  Proof.
    induction t2 as [|[k r] t2 IH]; intros t1 ix Hs Hf Hg.
    - rewrite app_nil_r. reflexivity.
    - inversion Hf as [|? ? (Hk & Hm & Hr) Hf']; subst. cbn [fst snd] in Hk, Hm, Hr.
      unfold iimport. change (texport proj ((k, r) :: t2)) with (proj r :: texport proj t2).
      cbn [fold_left]. unfold istep at 2. rewrite Hk.
      assert (Hnone : tget k t1 = None).
      { pose proof (sorted_app_head _ _ _ _ _ Hs) as Hlt.
        clear - Hlt. induction t1 as [|[k' r'] t1 IH]; [reflexivity|].
        inversion Hlt as [|? ? Hx Hl]; subst. cbn [fst] in Hx. simpl.
        rewrite (kcmp_lt_gt _ _ Hx). apply IH. exact Hl. }
      rewrite Hnone.
      pose proof (Hg [] (k, r) t2 eq_refl) as Hg0.
      unfold derived_index, set_all in Hg0. cbn [flat_map fold_left snd] in Hg0.
      rewrite Hg0. rewrite Hm, Hr.
      assert (E : tset k r t1 = t1 ++ [(k, r)]).
      { unfold tset. rewrite (talter_app_end _ _ _ _ (sorted_app_head _ _ _ _ _ Hs)). reflexivity. }
      rewrite E. rewrite del_all_nil.
      change ((k, r) :: t2) with ([(k, r)] ++ t2) in Hs. rewrite app_assoc in Hs.
      pose proof (IH (t1 ++ [(k, r)]) (set_all (add (proj r) None) ix) Hs Hf') as IH'.
      unfold iimport in IH'. etransitivity.
      + apply IH'. intros ta kr tb Et. specialize (Hg ((k, r) :: ta) kr tb). rewrite Et in Hg. specialize (Hg eq_refl).
        unfold derived_index in Hg |- *. cbn [flat_map snd] in Hg. rewrite set_all_app in Hg. exact Hg.
      + rewrite <- app_assoc. f_equal. f_equal.
        unfold derived_index. cbn [flat_map snd]. rewrite set_all_app. reflexivity.
  Qed.

  Lemma iimport_fresh : forall (t : table R) (ix : index),
    tsorted t ->
    Forall (fun kr => pk (proj (snd kr)) = Some (fst kr) /\
                      (forall p, mk (proj (snd kr)) None p = snd kr) /\
                      rem (proj (snd kr)) None = []) t ->
    (forall ta kr tb, t = ta ++ kr :: tb ->
       guard (proj (snd kr)) None (set_all (derived_index proj add ta) ix) = true) ->
    iimport pk mk guard add rem (texport proj t) [] ix = Some (t, set_all (derived_index proj add t) ix).
  Proof. intros t ix Hs Hf Hg. apply (iimport_fresh_from t [] ix); assumption. Qed.
End IndexedProofs.

(* ------------------------------------------------------------------ regrouping *)

Lemma StronglySorted_filter : forall (A : Type) (P : A -> A -> Prop) (f : A -> bool) (l : list A),
  StronglySorted P l -> StronglySorted P (filter f l).
Proof.
  intros A P f l H. induction H as [|a l Hs IH Hall]; [constructor|].
  simpl. destruct (f a); [|exact IH]. constructor; [exact IH|].
  rewrite Forall_forall in Hall |- *. intros x Hx. apply filter_In in Hx. apply Hall. tauto.
Qed.

Section RegroupProofs.
  Context {O E : Type}.
  Variable oaddr : O -> key.
  Variable eaddr : E -> key.
  Variable ord : key -> key.

  Definition olt (o1 o2 : O) : Prop := kcmp (ord (oaddr o1)) (ord (oaddr o2)) = Lt.
  Definition ele (e1 e2 : E) : Prop := kcmp (ord (eaddr e1)) (ord (eaddr e2)) <> Gt.
  Definition belongs (o : O) (e : E) : bool := keqb (eaddr e) (oaddr o).

  Lemma regroup_groups : forall owners entries,
    flat_map snd (regroup oaddr eaddr owners entries) = flat_map (fun o => filter (belongs o) entries) owners.
  Proof.
    intros owners entries. unfold regroup. induction owners as [|o os IH]; [reflexivity|].
    cbn [map flat_map snd]. rewrite IH. reflexivity.
  Qed.

  Lemma filter_none : forall (o : O) (es : list E),
    Forall (fun e => belongs o e = false) es -> filter (belongs o) es = [].
  Proof.
    intros o es H. induction H as [|e es Hx Hes IH]; [reflexivity|]. simpl. rewrite Hx. exact IH.
  Qed.

  Lemma filter_all : forall (A : Type) (f : A -> bool) (es : list A),
    Forall (fun e => f e = true) es -> filter f es = es.
  Proof.
    intros A f es H. induction H as [|e es Hx Hes IH]; [reflexivity|]. simpl. rewrite Hx, IH. reflexivity.
  Qed.

  (** the entries of the smallest owner come first *)
  Lemma span_first : forall (o : O) (es : list E),
    StronglySorted ele es ->
    Forall (fun e => belongs o e = true \/ kcmp (ord (oaddr o)) (ord (eaddr e)) = Lt) es ->
    filter (belongs o) es ++ filter (fun e => negb (belongs o e)) es = es.
  Proof.
    intros o es Hs Hc. induction Hs as [|e es Hs IH Hle]; [reflexivity|].
    inversion Hc as [|? ? Hce Hc']; subst. cbn [filter].
    destruct (belongs o e) eqn:B; cbn [negb app].
    - f_equal. apply IH. exact Hc'.
    - destruct Hce as [Hce|Hlt]; [congruence|].
      assert (Hnone : Forall (fun e0 => belongs o e0 = false) es).
      { rewrite Forall_forall in Hle |- *. intros e0 Hin. specialize (Hle _ Hin). unfold ele in Hle.
        destruct (belongs o e0) eqn:B0; [|reflexivity]. unfold belongs in B0. apply keqb_true in B0.
        rewrite B0 in Hle. exfalso. apply Hle. apply kcmp_lt_gt. exact Hlt. }
      rewrite (filter_none o es Hnone). cbn [app]. f_equal.
      apply filter_all. eapply Forall_impl; [|exact Hnone]. intros a Ha. cbv beta in Ha. rewrite Ha. reflexivity.
  Qed.

  Lemma filter_belongs_other : forall (o o2 : O) (es : list E),
    oaddr o2 <> oaddr o ->
    filter (belongs o2) (filter (fun e => negb (belongs o e)) es) = filter (belongs o2) es.
  Proof.
    intros o o2 es Hne. induction es as [|e es IH]; [reflexivity|].
    cbn [filter]. destruct (belongs o e) eqn:B; cbn [negb filter].
    - destruct (belongs o2 e) eqn:B2; [|exact IH].
      unfold belongs in B, B2. apply keqb_true in B. apply keqb_true in B2. congruence.
    - rewrite IH. reflexivity.
  Qed.

  Lemma rest_filter : forall (o : O) (os : list O) (entries : list E),
    Forall (fun o2 => oaddr o2 <> oaddr o) os ->
    flat_map (fun o0 => filter (belongs o0) entries) os =
    flat_map (fun o0 => filter (belongs o0) (filter (fun e => negb (belongs o e)) entries)) os.
  Proof.
    intros o os entries H. induction H as [|o2 os Hx Hos IH]; [reflexivity|].
    cbn [flat_map]. rewrite IH. rewrite (filter_belongs_other o o2 entries Hx). reflexivity.
  Qed.

  (** entries sorted by owner address, owners strictly sorted, every entry has its owner:
      listing per owner what is stored under the owner's address lists every entry once, in order *)
  Lemma regroup_flat : forall (owners : list O) (entries : list E),
    StronglySorted olt owners -> StronglySorted ele entries ->
    Forall (fun e => exists o, In o owners /\ oaddr o = eaddr e) entries ->
    flat_map snd (regroup oaddr eaddr owners entries) = entries.
  Proof.
    intros owners entries. rewrite regroup_groups. revert entries.
    induction owners as [|o os IH]; intros entries Ho He Hc.
    - destruct entries as [|e es]; [reflexivity|].
      inversion Hc as [|? ? [o [Hin _]] _]; subst. destruct Hin.
    - inversion Ho as [|? ? Ho' Hlt]; subst. cbn [flat_map].
      assert (Hne : Forall (fun o2 => oaddr o2 <> oaddr o) os).
      { eapply Forall_impl; [|exact Hlt]. intros o2 Hx Eq. unfold olt in Hx.
        rewrite Eq, kcmp_refl in Hx. discriminate. }
      pose proof (rest_filter o os entries Hne) as Hrest.
      rewrite Hrest. rewrite IH.
      + apply span_first; [exact He|].
        rewrite Forall_forall in Hc |- *. intros e Hin. destruct (Hc _ Hin) as [o2 [[Eo|Hin2] Ea]].
        * subst o2. left. unfold belongs. rewrite Ea. apply keqb_refl.
        * right. rewrite Forall_forall in Hlt. specialize (Hlt _ Hin2). unfold olt in Hlt. rewrite Ea in Hlt. exact Hlt.
      + exact Ho'.
      + apply StronglySorted_filter. exact He.
      + rewrite Forall_forall in Hc |- *. intros e Hin. apply filter_In in Hin. destruct Hin as [Hin Hb].
        destruct (Hc _ Hin) as [o2 [[Eo|Hin2] Ea]].
        * subst o2. unfold belongs in Hb. rewrite Ea, keqb_refl in Hb. discriminate.
        * exists o2. split; assumption.
  Qed.
End RegroupProofs.
