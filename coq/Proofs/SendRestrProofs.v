(** Proofs about [PV.Marker.SendRestr] (the code model) and [PV.Marker.SendRestrSpec] (the
    documented flowcharts) for property C04. *)
From Coq Require Import ZArith PArith List Bool Ascii Lia.
From PV Require Import Marker.SendRestr Marker.SendRestrSpec.
Import ListNotations.

(** ** Equality tests *)
Lemma addr_eqb_eq a b : addr_eqb a b = true <-> a = b.
Proof.
  destruct a as [x|x], b as [y|y]; cbn [addr_eqb]; split; intros H; try discriminate;
    try (apply Pos.eqb_eq in H; subst; reflexivity);
    try (injection H as ->; apply Pos.eqb_refl).
Qed.

Lemma addr_eqb_refl a : addr_eqb a a = true.
Proof. apply addr_eqb_eq; reflexivity. Qed.

Lemma addr_eqb_sym a b : addr_eqb a b = addr_eqb b a.
Proof. destruct a, b; cbn [addr_eqb]; try reflexivity; apply Pos.eqb_sym. Qed.

Lemma addr_eqb_neq a b : a <> b -> addr_eqb a b = false.
Proof.
  intros H. destruct (addr_eqb a b) eqn:E; [|reflexivity].
  apply addr_eqb_eq in E. contradiction.
Qed.

Lemma bytes_eqb_eq x y : bytes_eqb x y = true <-> x = y.
Proof.
  revert y. induction x as [|a x IH]; intros [|b y]; cbn [bytes_eqb]; split; intros H;
    try discriminate; try reflexivity.
  - apply andb_true_iff in H as [H1 H2]. apply Ascii.eqb_eq in H1. apply IH in H2. subst; reflexivity.
  - injection H as -> ->. apply andb_true_iff; split; [apply Ascii.eqb_refl | apply IH; reflexivity].
Qed.

Lemma levels_eqb_eq x y : levels_eqb x y = true <-> x = y.
Proof.
  revert y. induction x as [|a x IH]; intros [|b y]; cbn [levels_eqb]; split; intros H;
    try discriminate; try reflexivity.
  - apply andb_true_iff in H as [H1 H2]. apply bytes_eqb_eq in H1. apply IH in H2. subst; reflexivity.
  - injection H as -> ->. apply andb_true_iff; split; [apply bytes_eqb_eq | apply IH]; reflexivity.
Qed.

(** ** Prefix / suffix *)
Lemma has_prefix_iff s p : has_prefix s p = true <-> exists r, s = p ++ r.
Proof.
  revert s. induction p as [|b p IH]; intros s; cbn [has_prefix].
  - split; [intros _; exists s; reflexivity | reflexivity].
  - destruct s as [|a s].
    + split; [discriminate | intros [r Hr]; discriminate].
    + split.
      * intros H. apply andb_true_iff in H as [H1 H2]. apply Ascii.eqb_eq in H1.
        apply IH in H2 as [r ->]. subst. exists r; reflexivity.
      * intros [r Hr]. cbn [app] in Hr. injection Hr as -> ->.
        apply andb_true_iff; split; [apply Ascii.eqb_refl | apply IH; exists r; reflexivity].
Qed.

Lemma has_suffix_iff s p : has_suffix s p = true <-> exists pre, s = pre ++ p.
Proof.
  unfold has_suffix. rewrite has_prefix_iff. split.
  - intros [r Hr]. exists (rev r). apply (f_equal (@rev ascii)) in Hr.
    rewrite rev_involutive, rev_app_distr, rev_involutive in Hr. exact Hr.
  - intros [pre ->]. exists (rev pre). apply rev_app_distr.
Qed.

(** ** Levels *)
Fixpoint join_levels (l : list name) : name :=
  match l with
  | [] => []
  | [x] => x
  | x :: r => x ++ dot :: join_levels r
  end.

Lemma split_levels_nonempty s : split_levels s <> [].
Proof.
  induction s as [|ch s IH]; cbn [split_levels]; [discriminate|].
  destruct (Ascii.eqb ch "."%char); [discriminate|].
  destruct (split_levels s); discriminate.
Qed.

Lemma join_split s : join_levels (split_levels s) = s.
Proof.
  induction s as [|ch s IH]; cbn [split_levels]; [reflexivity|].
  destruct (Ascii.eqb ch "."%char) eqn:E.
  - apply Ascii.eqb_eq in E. subst ch.
    pose proof (split_levels_nonempty s) as Hn.
    destruct (split_levels s) as [|h t] eqn:Es; [contradiction|].
    cbn [join_levels app]. cbn [join_levels] in IH. rewrite IH. reflexivity.
  - pose proof (split_levels_nonempty s) as Hn.
    destruct (split_levels s) as [|h t] eqn:Es; [contradiction|].
    destruct t as [|h2 t]; cbn [join_levels app] in *; rewrite IH; reflexivity.
Qed.

Lemma split_app_dot p b : split_levels (p ++ dot :: b) = split_levels p ++ split_levels b.
Proof.
  induction p as [|ch p IH]; cbn [app split_levels].
  - change (Ascii.eqb dot "."%char) with true. cbn iota. reflexivity.
  - destruct (Ascii.eqb ch "."%char).
    + rewrite IH. reflexivity.
    + rewrite IH. pose proof (split_levels_nonempty p) as Hn.
      destruct (split_levels p) as [|h t]; [contradiction|]. reflexivity.
Qed.

Lemma join_app l1 l2 : l1 <> [] -> l2 <> [] ->
  join_levels (l1 ++ l2) = join_levels l1 ++ dot :: join_levels l2.
Proof.
  intros H1 H2. induction l1 as [|x l1 IH]; [contradiction|].
  destruct l1 as [|y l1].
  - cbn [app join_levels]. destruct l2; [contradiction|]. reflexivity.
  - change ((x :: y :: l1) ++ l2) with (x :: (y :: l1) ++ l2).
    change (join_levels (x :: (y :: l1) ++ l2)) with (x ++ dot :: join_levels ((y :: l1) ++ l2)).
    rewrite IH by discriminate.
    change (join_levels (x :: y :: l1)) with (x ++ dot :: join_levels (y :: l1)).
    rewrite <- app_assoc. reflexivity.
Qed.

Lemma extends_levels_iff attr base :
  extends_levels (split_levels attr) (split_levels base) = true <->
  exists pre, attr = pre ++ dot :: base.
Proof.
  unfold extends_levels. split.
  - intros H. apply andb_true_iff in H as [Hl He].
    apply Nat.ltb_lt in Hl. apply levels_eqb_eq in He.
    set (k := (length (split_levels attr) - length (split_levels base))%nat) in *.
    pose proof (firstn_skipn k (split_levels attr)) as Hfs. rewrite He in Hfs.
    assert (Hl1 : firstn k (split_levels attr) <> []).
    { intros Hnil. apply (f_equal (@length name)) in Hnil. rewrite firstn_length in Hnil.
      cbn [length] in Hnil. unfold k in Hnil. lia. }
    remember (firstn k (split_levels attr)) as l1 eqn:El1.
    exists (join_levels l1).
    rewrite <- (join_split attr) at 1. rewrite <- Hfs.
    rewrite join_app; [|exact Hl1|apply split_levels_nonempty].
    rewrite join_split. reflexivity.
  - intros [pre ->]. rewrite split_app_dot.
    pose proof (split_levels_nonempty pre) as Hn.
    rewrite app_length.
    replace (length (split_levels pre) + length (split_levels base) - length (split_levels base))%nat
      with (length (split_levels pre)) by lia.
    rewrite skipn_app, skipn_all, Nat.sub_diag. cbn [skipn app].
    apply andb_true_iff; split; [|apply levels_eqb_eq; reflexivity].
    apply Nat.ltb_lt. destruct (split_levels pre); [contradiction|]. cbn [length]. lia.
Qed.

(** ** MatchAttribute *)
Lemma match_attribute_wildcard base attr :
  match_attribute (star :: dot :: base) attr = true <-> exists pre, attr = pre ++ dot :: base.
Proof.
  unfold match_attribute. cbn [has_prefix]. unfold ascii_eqb. rewrite !Ascii.eqb_refl.
  cbn [andb]. apply has_suffix_iff.
Qed.

Lemma match_attribute_no_zero_levels base : match_attribute (star :: dot :: base) base = false.
Proof.
  destruct (match_attribute (star :: dot :: base) base) eqn:E; [|reflexivity].
  apply match_attribute_wildcard in E as [pre Hp].
  apply (f_equal (@length ascii)) in Hp. rewrite app_length in Hp. cbn [length] in Hp. lia.
Qed.

Lemma match_attribute_exact req attr :
  req <> [] -> has_prefix req [star; dot] = false ->
  (match_attribute req attr = true <-> req = attr).
Proof.
  intros Hne Hp. unfold match_attribute. destruct req as [|a tl]; [contradiction|].
  rewrite Hp. apply bytes_eqb_eq.
Qed.

Lemma split_star_prefix req first b0 base :
  split_levels req = first :: b0 :: base -> bytes_eqb first [star] = true ->
  exists rest, req = star :: dot :: rest.
Proof.
  intros Hs Hf. apply bytes_eqb_eq in Hf. subst first.
  pose proof (join_split req) as Hj. rewrite Hs in Hj.
  cbn [join_levels app] in Hj. eexists. symmetry. exact Hj.
Qed.

Lemma match_attribute_eq_doc req attr : match_attribute req attr = doc_match req attr.
Proof.
  destruct req as [|a tl]; [reflexivity|].
  destruct (has_prefix (a :: tl) [star; dot]) eqn:Hp.
  - apply has_prefix_iff in Hp as [rest Hr]. cbn [app] in Hr. injection Hr as -> ->.
    apply eq_true_iff_eq. rewrite match_attribute_wildcard.
    unfold doc_match.
    change (star :: dot :: rest) with ([star] ++ dot :: rest). rewrite split_app_dot.
    change (split_levels [star]) with [[star]]. cbn [app].
    pose proof (split_levels_nonempty rest) as Hn.
    destruct (split_levels rest) as [|b0 base] eqn:Es; [contradiction|].
    change (bytes_eqb [star] ["*"%char]) with true. cbn iota.
    rewrite <- Es. symmetry. apply extends_levels_iff.
  - unfold match_attribute. rewrite Hp. unfold doc_match.
    destruct (split_levels (a :: tl)) as [|first [|b0 base]] eqn:Es; try reflexivity.
    destruct (bytes_eqb first ["*"%char]) eqn:Ef; [|reflexivity].
    destruct (split_star_prefix _ _ _ _ Es Ef) as [rest Hr]. rewrite Hr in Hp.
    cbn [has_prefix] in Hp. unfold ascii_eqb in Hp. rewrite !Ascii.eqb_refl in Hp. discriminate.
Qed.

(** ** Vocabulary bridges *)
Lemma marker_at_ign c a : marker_at c a = get_marker_ign c a.
Proof.
  unfold marker_at, get_marker_ign, get_marker.
  destruct (lookup_acct a (cfg_accounts c)) as [[|m]|]; reflexivity.
Qed.

Lemma bypass_account_eq c a : bypass_account c a = is_req_attr_bypass c a.
Proof.
  unfold bypass_account, is_req_attr_bypass.
  induction (cfg_bypass_addrs c) as [|b l IH]; cbn [existsb]; [reflexivity|].
  rewrite IH, addr_eqb_sym. reflexivity.
Qed.

Lemma validate_at_least_one_eq m l r : validate_at_least_one m l r = some_agent_has m l r.
Proof.
  unfold validate_at_least_one, some_agent_has, at_least_one_has_access, has_role, has_access.
  destruct l as [|a [|b l]]; cbn [existsb]; try reflexivity.
  rewrite orb_false_r. reflexivity.
Qed.

Lemma find_missing_eq req attrs :
  match find_missing_attributes req attrs with [] => true | _ => false end =
  forallb (fun r => existsb (match_attribute r) attrs) req.
Proof.
  unfold find_missing_attributes.
  induction req as [|r req IH]; cbn [filter forallb]; [reflexivity|].
  destruct (existsb (match_attribute r) attrs); cbn [negb andb]; [exact IH | reflexivity].
Qed.

Lemma has_required_attributes_eq c m to :
  has_required_attributes c m to =
  forallb (fun r => existsb (match_attribute r) (attributes_of c to)) (m_req_attrs m).
Proof.
  unfold has_required_attributes.
  induction (m_req_attrs m) as [|r rs IHr]; cbn [forallb]; [reflexivity|].
  rewrite IHr. f_equal.
  generalize (attributes_of c to) as l. intros l.
  induction l as [|x l IH]; cbn [existsb]; [reflexivity|].
  rewrite IH, match_attribute_eq_doc. reflexivity.
Qed.

(** ** validateSendDenom *)
Lemma vsd_eq_doc c from to admins d :
  validate_send_denom c from to admins d (get_marker_ign c to) =
  doc_validate_send_denom c from to d admins.
Proof.
  unfold validate_send_denom, doc_validate_send_denom, restricted_coin, marker_for_denom, marker_at,
    get_marker_ign at 1, get_marker.
  destruct (lookup_acct (AMarker d) (cfg_accounts c)) as [[|m]|] eqn:El; [reflexivity| |reflexivity].
  unfold marker_active, is_active.
  destruct (m_status m); cbn [negb]; try reflexivity.
  unfold is_restricted. destruct (m_type m); cbn [negb]; [reflexivity|].
  destruct (addr_eqb to (cfg_fee_collector c)); [reflexivity|].
  replace (negb (Nat.eqb (length admins) 0) && at_least_one_has_access m admins AcTransfer)
    with (some_agent_has m admins AcTransfer)
    by (unfold some_agent_has, at_least_one_has_access, has_role, has_access;
        destruct admins; reflexivity).
  destruct (some_agent_has m admins AcTransfer); [reflexivity|].
  change (is_send_deny c (AMarker d) from) with (on_deny_list c d from).
  destruct (on_deny_list c d from); [reflexivity|].
  change (has_access m from AcTransfer) with (has_role m from AcTransfer).
  destruct (has_role m from AcTransfer); [reflexivity|].
  fold (marker_at c to). rewrite <- marker_at_ign.
  destruct (marker_at c to); [reflexivity|].
  rewrite !bypass_account_eq.
  destruct (m_req_attrs m) as [|r0 rs] eqn:Er.
  - destruct (is_req_attr_bypass c from); reflexivity.
  - destruct (is_req_attr_bypass c to); [reflexivity|].
    rewrite find_missing_eq, has_required_attributes_eq, Er. reflexivity.
Qed.

(** ** Coins *)
Definition coins_valid (amt : coins) : Prop := Forall (fun p => (0 < snd p)%Z) amt.

Lemma own_coin_check d amt :
  coins_valid amt ->
  match coins_find d amt with
  | Some a => if negb (Z.eqb a 0) then false else true
  | None => true
  end = negb (amount_has_denom amt d).
Proof.
  unfold amount_has_denom. induction 1 as [|[d' a] amt Ha Hv IH]; cbn [coins_find existsb fst snd] in *.
  - reflexivity.
  - rewrite (Pos.eqb_sym d' d). destruct (Pos.eqb d d'); cbn [orb].
    + replace (Z.eqb a 0) with false by lia. reflexivity.
    + exact IH.
Qed.

Lemma denom_loop_forallb c from to admins tm amt :
  denom_loop c from to admins tm amt =
  forallb (fun p => validate_send_denom c from to admins (fst p) tm) amt.
Proof.
  induction amt as [|[d a] amt IH]; cbn [denom_loop forallb fst]; [reflexivity|].
  destruct (validate_send_denom c from to admins d tm); cbn [andb]; [exact IH | reflexivity].
Qed.

Lemma bypass_loop_forallb c amt :
  bypass_fee_collector_loop c amt =
  forallb (fun p => match get_marker_ign c (AMarker (fst p)) with
                    | Some m => negb (is_restricted (m_type m))
                    | None => true
                    end) amt.
Proof.
  induction amt as [|[d a] amt IH]; cbn [bypass_fee_collector_loop forallb fst]; [reflexivity|].
  destruct (get_marker_ign c (AMarker d)) as [m|]; cbn [andb]; try exact IH.
  destruct (is_restricted (m_type m)); cbn [negb andb]; [reflexivity | exact IH].
Qed.

Lemma bypass_loop_eq_doc c amt :
  bypass_fee_collector_loop c amt = negb (existsb (fun p => restricted_coin c (fst p)) amt).
Proof.
  rewrite bypass_loop_forallb.
  induction amt as [|[d a] amt IH]; cbn [forallb existsb fst] in *; [reflexivity|].
  rewrite negb_orb, <- IH. f_equal.
  unfold restricted_coin, marker_for_denom. rewrite marker_at_ign. unfold is_restricted.
  destruct (get_marker_ign c (AMarker d)) as [m|]; [|reflexivity].
  destruct (m_type m); reflexivity.
Qed.

(** ** The two marker blocks *)
Lemma sender_block_eq_doc c from admins amt :
  coins_valid amt ->
  sender_marker_block c from admins amt = check_sender_marker c from admins amt.
Proof.
  intros Hv. unfold sender_marker_block, check_sender_marker. rewrite marker_at_ign.
  destruct (get_marker_ign c from) as [fm|]; [|reflexivity].
  rewrite (own_coin_check (m_denom fm) amt Hv).
  rewrite validate_at_least_one_eq.
  unfold marker_active, is_active.
  assert (Hl : Nat.eqb (length admins) 0 = true -> some_agent_has fm admins AcWithdraw = false).
  { destruct admins; [reflexivity | discriminate]. }
  destruct (cfg_fee_grant c); cbn [negb];
    destruct (Nat.eqb (length admins) 0) eqn:El;
    try rewrite (Hl eq_refl);
    destruct (some_agent_has fm admins AcWithdraw);
    destruct (amount_has_denom amt (m_denom fm)); destruct (m_status fm); reflexivity.
Qed.

Lemma receiver_block_eq_doc c from to admins :
  receiver_marker_block c from admins (get_marker_ign c to) = check_receiver_marker c to from admins.
Proof.
  unfold receiver_marker_block, check_receiver_marker. rewrite marker_at_ign.
  destruct (get_marker_ign c to) as [tm|]; [|reflexivity].
  unfold is_restricted. destruct (m_type tm); [reflexivity|].
  rewrite validate_at_least_one_eq.
  destruct admins; reflexivity.
Qed.

(** ** Code = document *)
Lemma code_eq_doc c from to amt :
  coins_valid amt -> allowed c from to amt = doc_send_allowed c from to amt.
Proof.
  intros Hv. unfold allowed, send_restriction, doc_send_allowed.
  destruct (cfg_ctx_bypass c || addr_eqb from (cfg_marker_module c) || addr_eqb from (cfg_ibc_module c)).
  - destruct (addr_eqb to (cfg_fee_collector c)); [|reflexivity].
    rewrite <- (bypass_loop_eq_doc c amt).
    destruct (bypass_fee_collector_loop c amt); reflexivity.
  - rewrite (sender_block_eq_doc c from (cfg_agents c) amt Hv).
    destruct (check_sender_marker c from (cfg_agents c) amt); [|reflexivity].
    rewrite receiver_block_eq_doc.
    destruct (check_receiver_marker c to from (cfg_agents c)); [|reflexivity].
    rewrite denom_loop_forallb.
    replace (forallb (fun p => validate_send_denom c from to (cfg_agents c) (fst p) (get_marker_ign c to)) amt)
      with (forallb (fun p => doc_validate_send_denom c from to (fst p) (cfg_agents c)) amt).
    + destruct (forallb _ amt); reflexivity.
    + clear Hv. induction amt as [|p amt IH]; cbn [forallb]; [reflexivity|].
      rewrite IH, (vsd_eq_doc c from to (cfg_agents c) (fst p)). reflexivity.
Qed.

(** ** The code before fix commit f4bdf3346: GetMarker's "not a marker account" error was returned
    by validateSendDenom and by the fee-collector loop, so a non-marker account sitting at a
    denom's marker address (anyone can create one by sending a coin there) made every send of the
    denom fail although the document says "no marker for Denom -> allowed". *)
Definition prefix_validate_send_denom (c : config) (from to : addr) (admins : list addr) (d : denom)
           (to_marker : option marker) : bool :=
  match get_marker c (AMarker d) with
  | GMErr => false
  | _ => validate_send_denom c from to admins d to_marker
  end.

Definition prefix_allowed (c : config) (from to : addr) (amt : coins) : bool :=
  if cfg_ctx_bypass c || addr_eqb from (cfg_marker_module c) || addr_eqb from (cfg_ibc_module c) then
    if addr_eqb to (cfg_fee_collector c) then
      forallb (fun p => match get_marker c (AMarker (fst p)) with
                        | GMErr => false
                        | GMSome m => negb (is_restricted (m_type m))
                        | GMNone => true
                        end) amt
    else true
  else
    sender_marker_block c from (cfg_agents c) amt &&
    receiver_marker_block c from (cfg_agents c) (get_marker_ign c to) &&
    forallb (fun p => prefix_validate_send_denom c from to (cfg_agents c) (fst p) (get_marker_ign c to)) amt.

Definition squat_cfg : config :=
  {| cfg_accounts := [(AMarker 1%positive, AcctOther)];
     cfg_deny := []; cfg_attrs := []; cfg_bypass_addrs := [AAcct 9%positive];
     cfg_fee_collector := AAcct 9%positive; cfg_marker_module := AAcct 8%positive;
     cfg_ibc_module := AAcct 7%positive;
     cfg_ctx_bypass := false; cfg_fee_grant := false; cfg_agents := [] |}.

Lemma prefix_refuted :
  exists c from to amt, coins_valid amt /\
    prefix_allowed c from to amt = false /\ doc_send_allowed c from to amt = true /\
    allowed c from to amt = true.
Proof.
  exists squat_cfg, (AAcct 1%positive), (AAcct 2%positive), [(1%positive, 5%Z)].
  split; [repeat constructor | vm_compute; repeat split].
Qed.

(** ** Fee collector *)
Lemma no_restricted_to_fee_collector c from amt :
  allowed c from (cfg_fee_collector c) amt = true ->
  forall d a m, In (d, a) amt -> get_marker c (AMarker d) = GMSome m -> m_type m = MCoin.
Proof.
  unfold allowed, send_restriction. rewrite addr_eqb_refl.
  intros H d a m Hin Hm.
  assert (Hi : get_marker_ign c (AMarker d) = Some m) by (unfold get_marker_ign; rewrite Hm; reflexivity).
  destruct (cfg_ctx_bypass c || addr_eqb from (cfg_marker_module c) || addr_eqb from (cfg_ibc_module c)).
  - destruct (bypass_fee_collector_loop c amt) eqn:E; [|discriminate].
    rewrite bypass_loop_forallb, forallb_forall in E. specialize (E _ Hin). cbn [fst] in E.
    rewrite Hi in E. unfold is_restricted in E. destruct (m_type m); [reflexivity | discriminate].
  - destruct (sender_marker_block c from (cfg_agents c) amt); [|discriminate].
    destruct (receiver_marker_block _ _ _ _); [|discriminate].
    destruct (denom_loop _ _ _ _ _ amt) eqn:E; [|discriminate].
    rewrite denom_loop_forallb, forallb_forall in E. specialize (E _ Hin). cbn [fst] in E.
    unfold validate_send_denom in E. rewrite Hi in E.
    destruct (negb (is_active (m_status m))); [discriminate|].
    unfold is_restricted in E. destruct (m_type m); [reflexivity|]. cbn [negb] in E.
    rewrite addr_eqb_refl in E. discriminate.
Qed.

(** ** Withdrawals and deposits *)
Definition not_bypassed (c : config) (from : addr) : Prop :=
  cfg_ctx_bypass c = false /\ from <> cfg_marker_module c /\ from <> cfg_ibc_module c.

Lemma not_bypassed_cond c from :
  not_bypassed c from ->
  cfg_ctx_bypass c || addr_eqb from (cfg_marker_module c) || addr_eqb from (cfg_ibc_module c) = false.
Proof.
  intros (H1 & H2 & H3). rewrite H1, (addr_eqb_neq _ _ H2), (addr_eqb_neq _ _ H3). reflexivity.
Qed.

Lemma some_agent_has_ex m l r :
  some_agent_has m l r = true -> exists a, In a l /\ has_access m a r = true.
Proof.
  unfold some_agent_has. intros H. apply existsb_exists in H as (a & Ha & Hr).
  exists a; split; assumption.
Qed.

Lemma withdraw_needs_authority c from to amt fm :
  not_bypassed c from -> get_marker c from = GMSome fm ->
  allowed c from to amt = true ->
  (cfg_fee_grant c = true \/ exists a, In a (cfg_agents c) /\ has_access fm a AcWithdraw = true) /\
  (m_status fm = SActive \/ coins_find (m_denom fm) amt = None \/ coins_find (m_denom fm) amt = Some 0%Z).
Proof.
  intros Hnb Hm. unfold allowed, send_restriction. rewrite (not_bypassed_cond _ _ Hnb).
  destruct (sender_marker_block c from (cfg_agents c) amt) eqn:E; [|discriminate]. intros _.
  unfold sender_marker_block, get_marker_ign in E. rewrite Hm in E.
  split.
  - destruct (cfg_fee_grant c); [left; reflexivity|right]. cbn [negb] in E.
    destruct (Nat.eqb (length (cfg_agents c)) 0); [discriminate|].
    rewrite validate_at_least_one_eq in E.
    destruct (some_agent_has fm (cfg_agents c) AcWithdraw) eqn:Ea; [|discriminate].
    apply some_agent_has_ex. exact Ea.
  - destruct (if negb (cfg_fee_grant c) then _ else true); [|discriminate].
    unfold is_active in E. destruct (m_status fm); cbn [negb] in E; try (left; reflexivity); right;
      (destruct (coins_find (m_denom fm) amt) as [a|]; [|left; reflexivity]; right;
       destruct (Z.eqb_spec a 0); [subst; reflexivity | discriminate]).
Qed.

Lemma deposit_needs_authority c from to amt tm :
  not_bypassed c from -> get_marker c to = GMSome tm -> m_type tm = MRestricted ->
  allowed c from to amt = true ->
  (cfg_agents c = [] /\ has_access tm from AcDeposit = true) \/
  (exists a, In a (cfg_agents c) /\ has_access tm a AcDeposit = true).
Proof.
  intros Hnb Hm Ht. unfold allowed, send_restriction. rewrite (not_bypassed_cond _ _ Hnb).
  destruct (sender_marker_block c from (cfg_agents c) amt); [|discriminate].
  destruct (receiver_marker_block c from (cfg_agents c) (get_marker_ign c to)) eqn:E; [|discriminate].
  intros _. unfold receiver_marker_block, get_marker_ign in E. rewrite Hm in E.
  unfold is_restricted in E. rewrite Ht in E.
  destruct (cfg_agents c) as [|a l] eqn:Ea; cbn [length Nat.eqb negb] in E.
  - left; split; [reflexivity | exact E].
  - right. rewrite validate_at_least_one_eq in E. apply some_agent_has_ex. exact E.
Qed.

(** What a context bypass or a marker/ibc module sender skips: everything but the fee collector. *)
Lemma bypass_skips_marker_checks c from to amt :
  cfg_ctx_bypass c || addr_eqb from (cfg_marker_module c) || addr_eqb from (cfg_ibc_module c) = true ->
  to <> cfg_fee_collector c -> send_restriction c from to amt = Some to.
Proof.
  intros H Hn. unfold send_restriction. rewrite H, (addr_eqb_neq _ _ Hn). reflexivity.
Qed.

(** The destination is never changed. *)
Lemma send_restriction_same_to c from to amt x : send_restriction c from to amt = Some x -> x = to.
Proof.
  unfold send_restriction.
  repeat match goal with |- context [if ?b then _ else _] => destruct b end;
    intros H; try discriminate; injection H as <-; reflexivity.
Qed.

(** ** Each denom on its own *)
Lemma allowed_decomposition c from to amt :
  cfg_ctx_bypass c || addr_eqb from (cfg_marker_module c) || addr_eqb from (cfg_ibc_module c) = false ->
  allowed c from to amt =
  sender_marker_block c from (cfg_agents c) amt &&
  receiver_marker_block c from (cfg_agents c) (get_marker_ign c to) &&
  forallb (fun p => validate_send_denom c from to (cfg_agents c) (fst p) (get_marker_ign c to)) amt.
Proof.
  intros H. unfold allowed, send_restriction. rewrite H, denom_loop_forallb.
  destruct (sender_marker_block _ _ _ _); [|reflexivity].
  destruct (receiver_marker_block _ _ _ _); [|reflexivity].
  destruct (forallb _ amt); reflexivity.
Qed.

Lemma coins_valid_app a1 a2 : coins_valid a1 -> coins_valid a2 -> coins_valid (a1 ++ a2).
Proof. intros H1 H2. apply Forall_app; split; assumption. Qed.

Lemma amount_has_denom_app a1 a2 d :
  amount_has_denom (a1 ++ a2) d = amount_has_denom a1 d || amount_has_denom a2 d.
Proof. unfold amount_has_denom. apply existsb_app. Qed.

Lemma sender_block_app c from admins a1 a2 :
  coins_valid a1 -> coins_valid a2 ->
  sender_marker_block c from admins (a1 ++ a2) =
  sender_marker_block c from admins a1 && sender_marker_block c from admins a2.
Proof.
  intros H1 H2. pose proof (coins_valid_app _ _ H1 H2) as H12.
  unfold sender_marker_block.
  destruct (get_marker_ign c from) as [fm|]; [|reflexivity].
  rewrite (own_coin_check _ _ H1), (own_coin_check _ _ H2), (own_coin_check _ _ H12).
  rewrite amount_has_denom_app.
  destruct (if negb (cfg_fee_grant c) then _ else true); [|reflexivity].
  destruct (negb (is_active (m_status fm))); [|reflexivity].
  destruct (amount_has_denom a1 (m_denom fm)), (amount_has_denom a2 (m_denom fm)); reflexivity.
Qed.

Lemma per_denom_independent c from to a1 a2 :
  coins_valid a1 -> coins_valid a2 ->
  allowed c from to (a1 ++ a2) = allowed c from to a1 && allowed c from to a2.
Proof.
  intros H1 H2.
  destruct (cfg_ctx_bypass c || addr_eqb from (cfg_marker_module c) || addr_eqb from (cfg_ibc_module c)) eqn:Hb.
  - unfold allowed, send_restriction. rewrite Hb.
    destruct (addr_eqb to (cfg_fee_collector c)); [|reflexivity].
    rewrite !bypass_loop_forallb, forallb_app.
    destruct (forallb _ a1), (forallb _ a2); reflexivity.
  - rewrite !(allowed_decomposition _ _ _ _ Hb), (sender_block_app _ _ _ _ _ H1 H2), forallb_app.
    destruct (sender_marker_block c from (cfg_agents c) a1),
             (sender_marker_block c from (cfg_agents c) a2),
             (receiver_marker_block c from (cfg_agents c) (get_marker_ign c to)),
             (forallb _ a1), (forallb _ a2); reflexivity.
Qed.
