(** Proofs about Genesis/MarkerLifecycle.v (property C18): which manager a marker account carries
    in which status along EVERY life-cycle history, that the genesis round trip of
    Genesis/MarkerGenesis.v keeps it (and with it DeleteMarker's decision about every caller),
    and that an export through the constructor NewMarkerAccount would not. *)
From Coq Require Import ZArith NArith List Bool Lia.
From PV Require Import Genesis.RoundTrip Genesis.Indexed Genesis.MarkerGenesis Genesis.MarkerLifecycle
                       Proofs.MarkerGenesisProofs.
Import ListNotations.
Open Scope N_scope.

(** what every life-cycle history preserves, relative to the marker [m0] that MsgAddMarker stored *)
Definition lm_inv (m0 m : lmarker) : Prop :=
  lm_valid m = true /\ lm_access m = lm_access m0 /\
  (lm_status m = st_active -> lm_manager m = []) /\
  (lm_status m = st_proposed \/ lm_status m = st_finalized -> lm_manager m = lm_manager m0) /\
  (lm_manager m = [] \/ lm_manager m = lm_manager m0).

Lemma lm_inv_init : forall m0, lm_init_ok m0 -> lm_inv m0 m0.
Proof.
  intros m0 (Hst & _ & Hv). unfold lm_inv. repeat split; auto.
  intro H. unfold st_proposed, st_finalized, st_active in *. destruct Hst as [E|E]; rewrite E in H; discriminate.
Qed.

Lemma checked_some : forall m m', checked m = Some m' -> m' = m /\ lm_valid m = true.
Proof. unfold checked. intros m m' H. destruct (lm_valid m) eqn:E; inversion H; auto. Qed.

Ltac lm_fin Hpf E :=
  unfold lm_inv, lm_set_status; cbn; repeat split; auto; try discriminate;
  try (intros [X|X]; discriminate); try (intros _; apply Hpf; left; exact E).

Lemma lm_step_inv : forall m0 m op m', lm_inv m0 m -> lm_step m op = Some m' -> lm_inv m0 m'.
Proof.
  intros m0 m op m' (Hv & Ha & Hact & Hpf & Hm) H.
  unfold st_proposed, st_finalized, st_active, st_cancelled, st_destroyed in *.
  destruct op as [c|c|c|c]; cbn [lm_step] in H;
    unfold st_proposed, st_finalized, st_active, st_cancelled, st_destroyed in *.
  - (* finalize *)
    destruct (keqb (lm_manager m) c && (lm_status m =? 1) && lm_valid m) eqn:E; [|discriminate].
    apply andb_prop in E. destruct E as [E _]. apply andb_prop in E. destruct E as [_ E].
    apply N.eqb_eq in E.
    apply checked_some in H. destruct H as [-> Hv'].
    lm_fin Hpf E.
  - (* activate *)
    destruct (keqb (lm_manager m) c && (lm_status m =? 2)) eqn:E; [|discriminate].
    apply checked_some in H. destruct H as [-> Hv'].
    lm_fin Hpf E.
  - (* cancel *)
    destruct ((lm_status m =? 2) || (lm_status m =? 3)) eqn:E23.
    + destruct (lm_has m c acc_delete); [|discriminate].
      apply checked_some in H. destruct H as [-> Hv'].
      lm_fin Hpf E23.
    + destruct (lm_status m =? 1) eqn:E1.
      * destruct (lm_has m c acc_delete || keqb (lm_manager m) c); [|discriminate].
        apply checked_some in H. destruct H as [-> Hv'].
        lm_fin Hpf E1.
      * destruct (lm_status m =? 4); [|discriminate]. inversion H; subst m'.
        unfold lm_inv. repeat split; auto.
  - (* delete *)
    destruct ((lm_has m c acc_delete || keqb (lm_manager m) c) && (lm_status m =? 4)); [|discriminate].
    apply checked_some in H. destruct H as [-> Hv'].
    lm_fin Hpf Hv.
Qed.

Lemma lm_apply_inv : forall m0 m op, lm_inv m0 m -> lm_inv m0 (lm_apply m op).
Proof.
  intros m0 m op H. unfold lm_apply. destruct (lm_step m op) eqn:E; [|exact H].
  eapply lm_step_inv; eauto.
Qed.

Lemma lm_run_inv : forall ops m0 m, lm_inv m0 m -> lm_inv m0 (lm_run ops m).
Proof.
  induction ops as [|op ops IH]; intros m0 m H; [exact H|].
  cbn [lm_run fold_left]. apply IH. apply lm_apply_inv. exact H.
Qed.

(** For every history of finalize / activate / cancel / delete calls by any callers on a marker
    created by MsgAddMarker: the stored account stays valid, its access list is the one it was
    created with, an ACTIVE marker has no manager, a PROPOSED or FINALIZED one has the manager it
    was created with, and in every other status (CANCELLED, DESTROYED) the manager is either
    that one or empty. *)
Theorem lifecycle_manager_by_status : forall m0 ops,
  lm_init_ok m0 ->
  let m := lm_run ops m0 in
  lm_valid m = true /\ lm_access m = lm_access m0 /\
  (lm_status m = st_active -> lm_manager m = []) /\
  (lm_status m = st_proposed \/ lm_status m = st_finalized -> lm_manager m = lm_manager m0) /\
  (lm_manager m = [] \/ lm_manager m = lm_manager m0).
Proof. intros m0 ops H. exact (lm_run_inv ops m0 m0 (lm_inv_init m0 H)). Qed.

(** Both cases of the last clause are reached: a CANCELLED / DESTROYED marker WITH its manager
    (cancelled before it ever was active) and without (cancelled after it was active). *)
Definition lm_sample (perms_mgr : list N) : lmarker :=
  {| lm_status := st_proposed; lm_manager := [7];
     lm_access := [{| ac_addr := [7]; ac_perms := perms_mgr |}; {| ac_addr := [9]; ac_perms := [6; 1; 5] |}];
     lm_supply_zero := false |}.

Lemma lm_sample_init : forall p, lm_init_ok (lm_sample p).
Proof. intro p. unfold lm_init_ok, lm_sample; cbn. repeat split; auto; discriminate. Qed.

(** the ten routes of the harness, each with the status it ends in and whether the manager survives *)
Definition lm_routes : list (list lop) :=
  [ []; [LFinalize [7]]; [LFinalize [7]; LActivate [7]];
    [LCancel [7]]; [LFinalize [7]; LCancel [9]]; [LFinalize [7]; LActivate [7]; LCancel [9]];
    [LCancel [7]; LDelete [7]]; [LFinalize [7]; LCancel [9]; LDelete [7]];
    [LFinalize [7]; LActivate [7]; LCancel [9]; LDelete [9]];
    [LFinalize [7]; LActivate [7]; LCancel [9]; LDelete [7]] ].

Lemma lm_routes_outcomes :
  map (fun ops => let m := lm_run ops (lm_sample []) in (lm_status m, negb (is_nil (lm_manager m)))) lm_routes =
  [ (1, true); (2, true); (3, false); (4, true); (4, true); (4, false); (5, true); (5, true); (5, false);
    (4, false) ].
Proof. vm_compute. reflexivity. Qed.

(* ---------- the export keeps what the life cycle left ---------- *)

Lemma exported_keeps_fields : forall m,
  mr_status (exported m) = mr_status m /\ mr_manager (exported m) = mr_manager m /\
  mr_access (exported m) = mr_access m /\ lm_of (exported m) = lm_of m.
Proof. intro m. repeat split. Qed.

(** The genesis round trip of the marker module (export, then InitGenesis on a fresh chain whose
    auth genesis carries the marker accounts as bare base accounts) gives back, for every marker
    account in EVERY status, the same status, manager and access list; hence DeleteMarker takes
    the same decision about every caller before and after. *)
Theorem marker_roundtrip_keeps_manager : forall mv nv other next s g,
  marker_wf mv nv s -> marker_export s = Some g ->
  (forall k m, In (k, m) (mks_accounts s) -> other (mr_addr m) = Some (mr_accnum m)) ->
  exists s', marker_import mv nv [] other next g = Some s' /\
    forall a m, tget (k_account a) (mks_accounts s) = Some m ->
      exists m', tget (k_account a) (mks_accounts s') = Some m' /\
        mr_status m' = mr_status m /\ mr_manager m' = mr_manager m /\ mr_access m' = mr_access m /\
        forall c, delete_allowed (lm_of m') c = delete_allowed (lm_of m) c.
Proof.
  intros mv nv other next s g Hwf He Ho. exists s. split.
  - apply marker_import_export; assumption.
  - intros a m Hg. exists m. repeat split; auto.
Qed.

(* ---------- an export through NewMarkerAccount would not ---------- *)

Lemma lm_ctor_id_iff : forall m,
  lm_ctor m = m <-> (st_active <=? lm_status m = true -> lm_manager m = []).
Proof.
  intros [st mg ac sz]. unfold lm_ctor, ctor_manager; cbn. split.
  - intros H Hs. rewrite Hs in H. inversion H. reflexivity.
  - intro H. destruct (st_active <=? st) eqn:E; [|reflexivity]. rewrite (H eq_refl). reflexivity.
Qed.

(** The constructor clears the manager when status >= ACTIVE.  For a marker cancelled straight
    from PROPOSED that loses the manager whose MsgDelete the exporting chain accepts: the export
    must copy the field (as the literal in ExportGenesis does), it cannot be derived from the
    status. *)
Theorem ctor_export_drops_manager :
  exists m0 ops c, lm_init_ok m0 /\
    delete_allowed (lm_run ops m0) c = true /\ delete_allowed (lm_ctor (lm_run ops m0)) c = false.
Proof.
  exists (lm_sample []), [LCancel [7]], [7]. split; [apply lm_sample_init|].
  split; vm_compute; reflexivity.
Qed.

(** ... while for the statuses in which the usual flows leave a marker (PROPOSED, FINALIZED, ACTIVE,
    cancelled after having been active) both forms of the export agree. *)
Theorem ctor_export_agrees_on_usual_flows : forall m0 ops,
  lm_init_ok m0 ->
  let m := lm_run ops m0 in
  lm_status m = st_proposed \/ lm_status m = st_finalized \/ lm_status m = st_active -> lm_ctor m = m.
Proof.
  intros m0 ops Hi m Hs. apply lm_ctor_id_iff. intro Hge.
  destruct (lifecycle_manager_by_status m0 ops Hi) as (_ & _ & Hact & _ & _). fold m in Hact.
  unfold st_proposed, st_finalized, st_active in *.
  destruct Hs as [E|[E|E]].
  - rewrite E in Hge. discriminate.
  - rewrite E in Hge. discriminate.
  - apply Hact. exact E.
Qed.
