(** Proofs for Genesis/MetadataGenesis.v (property C18, metadata module): importing the export of a
    well-formed metadata state gives the state back, secondary index included.
    Closed under the global context. *)
From Coq Require Import ZArith NArith List Bool Sorted Lia.
From PV Require Import Genesis.RoundTrip Genesis.Indexed Genesis.MetadataGenesis Proofs.RoundTripProofs Proofs.TableLemmas.
Import ListNotations.
Open Scope Z_scope.

(* ------------------------------------------------------------------ small facts *)

Lemma addr_ok_not_nil : forall a, addr_ok a = true -> is_nil a = false.
Proof. intros [|x a] H; [cbv in H; discriminate H | reflexivity]. Qed.

Lemma scope_id_ok_len : forall id, scope_id_ok id = true -> length id = 17%nat.
Proof.
  intros id H. unfold scope_id_ok in H. apply andb_true_iff in H. destruct H as [H _].
  apply Nat.eqb_eq. exact H.
Qed.

Lemma scope_id_ok_not_nil : forall id, scope_id_ok id = true -> is_nil id = false.
Proof. intros [|x a] H; [cbv in H; discriminate H | reflexivity]. Qed.

Lemma kcmp_len_prefixed_same_len : forall a b, length a = length b ->
  kcmp (len_prefixed a) (len_prefixed b) = kcmp a b.
Proof. intros a b H. unfold len_prefixed. rewrite H. apply kcmp_cons_same. Qed.

Lemma StronglySorted_map_in : forall (A B : Type) (f : A -> B) (P : A -> A -> Prop) (Q : B -> B -> Prop)
    (l : list A),
  (forall x y, In x l -> In y l -> P x y -> Q (f x) (f y)) ->
  StronglySorted P l -> StronglySorted Q (map f l).
Proof.
  intros A B f P Q l H Hs. induction Hs as [|a l Hs IH Hall]; [constructor|].
  cbn [map]. constructor.
  - apply IH. intros x y Hx Hy. apply H; right; assumption.
  - rewrite Forall_forall in Hall |- *. intros b Hb. apply in_map_iff in Hb.
    destruct Hb as [x [Ex Hx]]. subst b.
    apply H; [left; reflexivity | right; exact Hx | apply Hall; exact Hx].
Qed.

(* ------------------------------------------------------------------ 1. the value-owner pass *)

Lemma vo_pass : forall (blocked : key -> bool) (vo_send_ok : key -> key -> key -> bool)
    (vo : table key) (scopes : table scope),
  Forall (fun kr => fst kr = sc_id (snd kr) /\ sc_vo (snd kr) = [] /\
                    scope_id_ok (sc_id (snd kr)) = true) scopes ->
  Forall (fun kr => forall a, tget (fst kr) vo = Some a ->
                    addr_ok a = true /\ blocked a = false) scopes ->
  fold_left (vo_step blocked vo_send_ok) (texport (with_vo vo) scopes) (Some vo) = Some vo.
Proof.
  intros blocked vso vo scopes H. induction H as [|[k sc] t (Hk & _ & Hid) Ht IH]; intro Hown;
    [reflexivity|].
  inversion Hown as [|? ? Ho Hown']; subst. cbn [fst snd] in Hk, Hid, Ho.
  change (texport (with_vo vo) ((k, sc) :: t)) with (with_vo vo sc :: texport (with_vo vo) t).
  cbn [fold_left].
  assert (E : vo_step blocked vso (Some vo) (with_vo vo sc) = Some vo).
  { unfold vo_step, with_vo. cbn [sc_id sc_vo]. subst k.
    destruct (tget (sc_id sc) vo) as [a|] eqn:G.
    - destruct (Ho a eq_refl) as [Ha Hb].
      rewrite (addr_ok_not_nil a Ha), Hid, Ha, Hb. cbn [negb]. rewrite keqb_refl. reflexivity.
    - reflexivity. }
  rewrite E. apply IH. exact Hown'.
Qed.

(* ------------------------------------------------------------------ 2. scopes *)

Lemma scope_add_with_vo : forall vo sc, scope_add (with_vo vo sc) None = scope_add sc None.
Proof. reflexivity. Qed.

Lemma derived_index_with_vo : forall vo (t : table scope),
  derived_index (with_vo vo) scope_add t = derived_index (fun x => x) scope_add t.
Proof.
  intros vo t. unfold derived_index. apply flat_map_ext. intro kr. apply scope_add_with_vo.
Qed.

Lemma strip_with_vo : forall vo sc, sc_vo sc = [] -> strip_vo (with_vo vo sc) = sc.
Proof.
  intros vo [id sp ow ac v ru] H. cbn [sc_vo] in H. subst v. reflexivity.
Qed.

Lemma scopes_pass : forall vo (t : table scope),
  tsorted t ->
  Forall (fun kr => fst kr = sc_id (snd kr) /\ sc_vo (snd kr) = [] /\
                    scope_id_ok (sc_id (snd kr)) = true) t ->
  iimport (fun s => Some (sc_id s)) (fun s _ _ => strip_vo s) (fun _ _ _ => true)
          scope_add scope_rem (texport (with_vo vo) t) [] [] =
  Some (t, tbuild (derived_index (fun x => x) scope_add t)).
Proof.
  intros vo t Hs Hf.
  rewrite (iimport_fresh (fun s => Some (sc_id s)) (fun s _ _ => strip_vo s) (fun _ _ _ => true)
             scope_add scope_rem (with_vo vo) t [] Hs).
  - rewrite derived_index_with_vo. reflexivity.
  - eapply Forall_impl; [|exact Hf]. intros [k sc] (Hk & Hvo & _). cbn [fst snd] in *.
    split; [|split].
    + rewrite Hk. reflexivity.
    + intros _. apply strip_with_vo. exact Hvo.
    + reflexivity.
  - intros ta kr tb _. reflexivity.
Qed.

(* ------------------------------------------------------------------ 4. specifications *)

Lemma sspecs_pass : forall (t : table sspec) (ix : index),
  tsorted t -> Forall (fun kr => fst kr = ss_id (snd kr)) t ->
  iimport (fun s => Some (ss_id s)) (fun s _ _ => s) (fun _ _ _ => true)
          sspec_add sspec_rem (texport (fun x => x) t) [] ix =
  Some (t, set_all (derived_index (fun x => x) sspec_add t) ix).
Proof.
  intros t ix Hs Hf.
  apply (iimport_fresh (fun s => Some (ss_id s)) (fun s _ _ => s) (fun _ _ _ => true)
           sspec_add sspec_rem (fun x => x) t ix Hs).
  - eapply Forall_impl; [|exact Hf]. intros [k x] Hk. cbn [fst snd] in *.
    split; [rewrite Hk; reflexivity | split; [intros _; reflexivity | reflexivity]].
  - intros ta kr tb _. reflexivity.
Qed.

Lemma cspecs_pass : forall (t : table cspec) (ix : index),
  tsorted t -> Forall (fun kr => fst kr = cs_id (snd kr)) t ->
  iimport (fun s => Some (cs_id s)) (fun s _ _ => s) (fun _ _ _ => true)
          cspec_add cspec_rem (texport (fun x => x) t) [] ix =
  Some (t, set_all (derived_index (fun x => x) cspec_add t) ix).
Proof.
  intros t ix Hs Hf.
  apply (iimport_fresh (fun s => Some (cs_id s)) (fun s _ _ => s) (fun _ _ _ => true)
           cspec_add cspec_rem (fun x => x) t ix Hs).
  - eapply Forall_impl; [|exact Hf]. intros [k x] Hk. cbn [fst snd] in *.
    split; [rewrite Hk; reflexivity | split; [intros _; reflexivity | reflexivity]].
  - intros ta kr tb _. reflexivity.
Qed.

(* ------------------------------------------------------------------ 5. object store locators *)

Lemma locators_pass : forall (t : table locator),
  tsorted t ->
  Forall (fun kr => fst kr = k_locator (lo_owner (snd kr)) /\ addr_ok (lo_owner (snd kr)) = true /\
                    (lo_enc (snd kr) = [] \/ addr_ok (lo_enc (snd kr)) = true)) t ->
  timport locator_key locator_upd (texport (fun x => x) t) = Some t.
Proof.
  intros t Hs Hf. apply timport_texport. split; [exact Hs|].
  eapply Forall_impl; [|exact Hf]. intros [k [ow ur en]] (Hk & Ho & He).
  cbn [fst snd lo_owner lo_enc] in *. split.
  - unfold locator_key. cbn [lo_owner]. rewrite Ho, Hk. reflexivity.
  - unfold locator_upd. cbn [lo_owner lo_uri lo_enc].
    destruct He as [He|He].
    + subst en. reflexivity.
    + rewrite He. reflexivity.
Qed.

(* ------------------------------------------------------------------ 6. net asset values *)

Lemma snav_fix_id : forall n, (1 <= sn_volume n)%N -> snav_fix n = n.
Proof.
  intros [d a v h] H. cbn [sn_volume] in H. unfold snav_fix. cbn [sn_denom sn_amount sn_volume sn_height].
  apply N.ltb_ge in H. rewrite H. reflexivity.
Qed.

Lemma filter_map_fix : forall (a : key) (es : list (key * snav)),
  map (fun e => (a, snd e)) (filter (fun e => keqb (fst e) a) es) = filter (fun e => keqb (fst e) a) es.
Proof.
  intros a es. induction es as [|[k n] es IH]; [reflexivity|].
  cbn [filter fst]. destruct (keqb k a) eqn:E; [|exact IH].
  cbn [map snd]. rewrite IH. apply keqb_true in E. subst k. reflexivity.
Qed.

Lemma regroup_entries : forall (owners : list scope) (entries : list (key * snav)),
  flat_map snav_entries
    (map (fun g : key * list (key * snav) => (fst g, map snd (snd g)))
         (regroup sc_id fst owners entries)) =
  flat_map snd (regroup sc_id fst owners entries).
Proof.
  intros owners entries. unfold regroup. induction owners as [|o os IH]; [reflexivity|].
  cbn [map flat_map fst snd]. rewrite IH. f_equal.
  unfold snav_entries. cbn [fst snd]. rewrite map_map. apply filter_map_fix.
Qed.

Definition scope_ok (kr : key * scope) : Prop :=
  fst kr = sc_id (snd kr) /\ sc_vo (snd kr) = [] /\ scope_id_ok (sc_id (snd kr)) = true.

Lemma nav_scope : forall (scopes : table scope) id sc,
  Forall scope_ok scopes -> tget id scopes = Some sc ->
  In (id, sc) scopes /\ id = sc_id sc /\ scope_id_ok id = true.
Proof.
  intros scopes id sc Hf Hg. apply tget_In in Hg. split; [exact Hg|].
  rewrite Forall_forall in Hf. destruct (Hf _ Hg) as (Hk & _ & Hid). cbn [fst snd] in *.
  split; [exact Hk | rewrite Hk; exact Hid].
Qed.

Lemma navs_regroup : forall (snav_valid : snav -> bool) vo (scopes : table scope)
    (navs : table (key * snav)),
  tsorted scopes -> Forall scope_ok scopes ->
  tsorted navs ->
  Forall (fun kr => fst kr = k_snav (fst (snd kr)) (sn_denom (snd (snd kr))) /\
                    snav_valid (snd (snd kr)) = true /\ (1 <= sn_volume (snd (snd kr)))%N /\
                    (exists sc, tget (fst (snd kr)) scopes = Some sc)) navs ->
  flat_map snav_entries
    (map (fun g : key * list (key * snav) => (fst g, map snd (snd g)))
         (regroup sc_id fst (texport (with_vo vo) scopes) (texport (fun e => e) navs))) =
  texport (fun e => e) navs.
Proof.
  intros sv vo scopes navs Hs1 Hf1 Hs2 Hf2. rewrite regroup_entries.
  apply (regroup_flat sc_id fst len_prefixed).
  - (* owners strictly sorted *)
    unfold texport. apply (StronglySorted_map_in _ _ _ (@klt scope)); [|exact Hs1].
    intros [k1 s1] [k2 s2] H1 H2 Hlt. rewrite Forall_forall in Hf1.
    destruct (Hf1 _ H1) as (Hk1 & _ & Hid1). destruct (Hf1 _ H2) as (Hk2 & _ & Hid2).
    unfold klt in Hlt. cbn [fst snd] in *. unfold olt, with_vo. cbn [sc_id].
    rewrite kcmp_len_prefixed_same_len.
    + rewrite <- Hk1, <- Hk2. exact Hlt.
    + rewrite (scope_id_ok_len _ Hid1), (scope_id_ok_len _ Hid2). reflexivity.
  - (* entries sorted by owner *)
    unfold texport. apply (StronglySorted_map_in _ _ _ (@klt (key * snav))); [|exact Hs2].
    intros [k1 [i1 n1]] [k2 [i2 n2]] H1 H2 Hlt. rewrite Forall_forall in Hf2.
    destruct (Hf2 _ H1) as (Hk1 & _). destruct (Hf2 _ H2) as (Hk2 & _).
    unfold klt in Hlt. cbn [fst snd] in *. subst k1 k2. unfold k_snav in Hlt.
    rewrite kcmp_cons_same, kcmp_len_prefixed_app in Hlt.
    unfold ele. cbn [fst]. intro G. rewrite G in Hlt. discriminate Hlt.
  - (* every entry has its scope *)
    unfold texport. rewrite Forall_forall. intros e He. apply in_map_iff in He.
    destruct He as [[k [i n]] [Ee Hin]]. cbn [snd] in Ee. subst e.
    rewrite Forall_forall in Hf2. destruct (Hf2 _ Hin) as (_ & _ & _ & sc & Hsc). cbn [fst snd] in Hsc.
    destruct (nav_scope scopes i sc Hf1 Hsc) as (Hin2 & Hi & _).
    exists (with_vo vo sc). split.
    + apply in_map_iff. exists (i, sc). split; [reflexivity | exact Hin2].
    + cbn [fst]. unfold with_vo. cbn [sc_id]. symmetry. exact Hi.
Qed.

Lemma navs_pass : forall (snav_valid : snav -> bool) (scopes : table scope) (navs : table (key * snav)),
  Forall scope_ok scopes ->
  tsorted navs ->
  Forall (fun kr => fst kr = k_snav (fst (snd kr)) (sn_denom (snd (snd kr))) /\
                    snav_valid (snd (snd kr)) = true /\ (1 <= sn_volume (snd (snd kr)))%N /\
                    (exists sc, tget (fst (snd kr)) scopes = Some sc)) navs ->
  timport (snav_key snav_valid) snav_upd (texport (fun e => e) navs) = Some navs.
Proof.
  intros sv scopes navs Hf1 Hs2 Hf2. apply timport_texport. split; [exact Hs2|].
  eapply Forall_impl; [|exact Hf2]. intros [k [i n]] (Hk & Hv & Hvol & sc & Hsc).
  cbn [fst snd] in *. destruct (nav_scope scopes i sc Hf1 Hsc) as (_ & _ & Hid).
  unfold snav_key, snav_upd. cbn [fst snd].
  rewrite (snav_fix_id n Hvol), (scope_id_ok_not_nil i Hid), Hv, Hk. split; reflexivity.
Qed.

(* ------------------------------------------------------------------ 7. the module *)

Lemma md_import_export : forall rec_addr blocked vo_send_ok snav_valid s,
  md_wf rec_addr blocked snav_valid s ->
  md_import rec_addr blocked vo_send_ok snav_valid (md_vo s) (md_export s) = Some s.
Proof.
  intros rec_addr blocked vso sv s Hwf. unfold md_wf in Hwf.
  destruct Hwf as (Hs1 & Hf1 & Hvo & Hs2 & Hf2 & Hs3 & Hf3 & Hs4 & Hf4 & Hs5 & Hf5 & Hs6 & Hf6 &
                   Hs7 & Hf7 & Hs8 & Hf8 & Hix).
  unfold md_import, md_export.
  cbn [mg_params' mg_scopes mg_sessions mg_records mg_sspecs mg_cspecs mg_rspecs mg_locators mg_navs].
  rewrite (vo_pass blocked vso (md_vo s) (md_scopes s) Hf1 Hvo).
  rewrite (scopes_pass (md_vo s) (md_scopes s) Hs1 Hf1).
  rewrite (timport_plain session (fun x => Some (se_id x)) (md_sessions s) Hs2).
  2:{ eapply Forall_impl; [|exact Hf2]. intros kr Hk. rewrite Hk. reflexivity. }
  rewrite (timport_plain mrecord (fun r => rec_addr (rc_session r) (rc_name r)) (md_records s) Hs3 Hf3).
  rewrite (sspecs_pass (md_sspecs s) _ Hs4 Hf4).
  rewrite (cspecs_pass (md_cspecs s) _ Hs5 Hf5).
  rewrite (timport_plain rspec (fun x => Some (rs_id x)) (md_rspecs s) Hs6).
  2:{ eapply Forall_impl; [|exact Hf6]. intros kr Hk. rewrite Hk. reflexivity. }
  rewrite (locators_pass (md_locators s) Hs7 Hf7).
  rewrite (navs_regroup sv (md_vo s) (md_scopes s) (md_navs s) Hs1 Hf1 Hs8 Hf8).
  rewrite (navs_pass sv (md_scopes s) (md_navs s) Hf1 Hs8 Hf8).
  fold (md_index_of (md_scopes s) (md_sspecs s) (md_cspecs s)). rewrite <- Hix.
  destruct s; reflexivity.
Qed.

Lemma md_index_rebuilt : forall rec_addr blocked vo_send_ok snav_valid s s',
  md_wf rec_addr blocked snav_valid s ->
  md_import rec_addr blocked vo_send_ok snav_valid (md_vo s) (md_export s) = Some s' ->
  md_index s' = md_index s.
Proof.
  intros rec_addr blocked vso sv s s' Hwf H.
  rewrite (md_import_export rec_addr blocked vso sv s Hwf) in H.
  injection H as H. subst s'. reflexivity.
Qed.

Print Assumptions md_import_export.
Print Assumptions md_index_rebuilt.
