(** C13 proofs about Exchange/GenesisImport.v, commitment / market part.

    After InitGenesis of any valid genesis the commitment / market part of the store satisfies the
    invariant [CInv] of a reachable state (CommitProofs), with the genesis market ids in the place
    of the ids created so far.  Hence every C13 theorem about markets and commitments holds for
    every history that starts from an imported state: market ids stay unique across the import,
    the commitment listings stay consistent, and right after the import the stored commitment of a
    (market, account) pair is the sum of the genesis entries of that pair. *)
From Coq Require Import ZArith NArith List Bool Lia Sorted.
From PV Require Import Exchange.KV Exchange.Index Exchange.Paging Exchange.Commit Exchange.GenesisImport
  Proofs.KVProofs Proofs.IndexProofs Proofs.PaymentProofs Proofs.PagingProofs Proofs.CommitProofs.
Import ListNotations.
Open Scope N_scope.

#[local] Arguments u32be : simpl never.
#[local] Arguments u64be : simpl never.
#[local] Opaque two32 two64 u64max.

(** ================= small facts ================= *)
Lemma nodup_ids_nodup : forall l, nodup_ids l = true -> NoDup l.
Proof.
  induction l as [|x r IH]; intros H; [constructor|].
  cbn [nodup_ids] in H. apply andb_true_iff in H. destruct H as [H1 H2].
  constructor; [|apply IH; exact H2].
  apply mem_id_false. unfold mem_id. destruct (existsb (N.eqb x) r); [discriminate|reflexivity].
Qed.

Lemma mem_id_true : forall x l, mem_id x l = true -> In x l.
Proof.
  intros x l H. unfold mem_id in H. apply existsb_exists in H. destruct H as [y [Hy E]].
  apply N.eqb_eq in E. subst y. exact Hy.
Qed.

Lemma mkt_ok_lt : forall m, mkt_ok m = true -> m < two32.
Proof.
  intros m H. unfold mkt_ok in H. apply andb_true_iff in H. destruct H as [_ H].
  apply N.ltb_lt. exact H.
Qed.

(** what GenesisState.Validate gives for the market / commitment part *)
Lemma valid_genesis_commit : forall g, valid_genesis g = true ->
  Forall (fun m => m < two32) (map fst (g_markets g)) /\
  NoDup (map fst (g_markets g)) /\
  Forall (fun c => fst (fst c) < two32 /\ snd (fst c) <> [] /\ cvalid (snd c) = true /\
                   In (fst (fst c)) (map fst (g_markets g))) (g_commits g).
Proof.
  intros g H. unfold valid_genesis in H. cbv zeta in H. rewrite !andb_true_iff in H.
  destruct H as [[[[[[[[A B] _] _] _] _] G] _] _].
  split; [|split].
  - apply Forall_forall. intros m Hm. rewrite forallb_forall in A. apply mkt_ok_lt. apply A. exact Hm.
  - apply nodup_ids_nodup. exact B.
  - apply Forall_forall. intros c Hc. rewrite forallb_forall in G. specialize (G c Hc).
    rewrite !andb_true_iff in G. destruct G as [[[G1 G2] G3] G4].
    split; [apply mkt_ok_lt; exact G1|]. split; [apply addr_ok_ne; exact G2|].
    split; [exact G3|apply mem_id_true; exact G4].
Qed.

(** the commitment / market part of InitGenesis *)
Definition genesis_cstate (g : genesis) : cstate :=
  let c1 := fold_left init_market (g_markets g) cinit in
  let c2 := with_kv c1 (set (cs_kv c1) k_last_mkt (CRaw (u32be (g_last_market g)))) in
  with_kv c2 (import_commitments (cs_kv c2) (g_commits g)).

Lemma init_genesis_snd : forall g s0, init_genesis xinit g = Some s0 ->
  valid_genesis g = true /\ snd s0 = genesis_cstate g.
Proof.
  intros g s0 H. unfold init_genesis in H.
  destruct (valid_genesis g) eqn:V; cbn [negb] in H; [|discriminate].
  cbv zeta in H.
  destruct (import_orders (fst xinit) (g_orders g)) as [s1|]; [|discriminate].
  destruct (import_payments (set s1 k_last (VBytes (u64be (g_last_order g)))) (g_pays g)) as [s3|];
    [|discriminate].
  injection H as <-. split; reflexivity.
Qed.

(** ================= (1) the invariant after the import ================= *)
Lemma init_market_inv : forall L s ma, CInv L s -> fst ma < two32 -> ~ In (fst ma) L ->
  CInv (L ++ [fst ma]) (init_market s ma).
Proof.
  intros L s [mid acc] HI Hmid HnL. cbn [fst] in Hmid, HnL |- *. unfold init_market. cbn [fst snd].
  cbv zeta. pose proof (ci_KI _ _ HI) as K1.
  unfold k_known, k_accepting.
  destruct (KI_set_other (cs_kv s) 7 (u32be mid) (CRaw []) K1) as [K2 [M2 _]]; [discriminate|].
  set (kv2 := set (cs_kv s) (7 :: u32be mid) (CRaw [])) in *.
  assert (H3 : KI (if acc then set kv2 (1 :: u32be mid ++ [16]) (CRaw [])
                   else del kv2 (1 :: u32be mid ++ [16])) /\
               same7 kv2 (if acc then set kv2 (1 :: u32be mid ++ [16]) (CRaw [])
                          else del kv2 (1 :: u32be mid ++ [16]))).
  { destruct acc.
    - destruct (KI_set_other kv2 1 (u32be mid ++ [16]) (CRaw []) K2) as [K [_ S]]; [discriminate|].
      split; [exact K|apply S; discriminate].
    - apply KI_del_other; [exact K2|discriminate|discriminate]. }
  destruct H3 as [K3 S3].
  set (kv3 := if acc then set kv2 (1 :: u32be mid ++ [16]) (CRaw [])
              else del kv2 (1 :: u32be mid ++ [16])) in *.
  assert (G7 : forall r, get kv3 (7 :: r) =
                         if key_eqb (7 :: r) (7 :: u32be mid) then Some (CRaw []) else get (cs_kv s) (7 :: r)).
  { intros r. rewrite S3. unfold kv2. rewrite get_set. reflexivity. }
  constructor; cbn [cs_kv cs_accts].
  - exact K3.
  - intros r v G. rewrite G7 in G.
    destruct (key_eqb (7 :: r) (7 :: u32be mid)) eqn:E.
    + apply key_eqb_eq in E. injection E as ->. exists mid.
      split; [exact Hmid|]. split; [reflexivity|]. apply in_or_app. right. left. reflexivity.
    + destruct (ci_known _ _ HI _ _ G) as [m [A [B C]]]. exists m.
      split; [exact A|]. split; [exact B|]. apply in_or_app. left. exact C.
  - intros m Hm. apply in_app_or in Hm. destruct Hm as [Hm|[<-|[]]].
    + destruct (ci_L _ _ HI _ Hm) as [A [B C]]. split; [exact A|]. split.
      * destruct (mem_id mid (cs_accts s)); [exact B|right; exact B].
      * unfold k_known in *. rewrite G7.
        destruct (key_eqb (7 :: u32be m) (7 :: u32be mid)); [discriminate|exact C].
    + split; [exact Hmid|]. split.
      * destruct (mem_id mid (cs_accts s)) eqn:Em; [apply mem_id_true; exact Em|left; reflexivity].
      * unfold k_known. rewrite G7, key_eqb_refl. discriminate.
  - apply NoDup_snoc; [exact (ci_nodup _ _ HI)|exact HnL].
Qed.

Lemma init_markets_inv : forall l L s, CInv L s ->
  Forall (fun m => m < two32) (map fst l) -> NoDup (L ++ map fst l) ->
  CInv (L ++ map fst l) (fold_left init_market l s).
Proof.
  induction l as [|ma l IH]; intros L s HI Hf Hn; cbn [map fold_left].
  - rewrite app_nil_r. exact HI.
  - cbn [map] in Hf, Hn. inversion Hf as [|x l' Hx Hl]; subst.
    assert (E : L ++ fst ma :: map fst l = (L ++ [fst ma]) ++ map fst l).
    { rewrite <- app_assoc. reflexivity. }
    rewrite E. apply IH; [|exact Hl|rewrite <- E; exact Hn].
    apply init_market_inv; [exact HI|exact Hx|].
    intros Hin. apply NoDup_remove_2 in Hn. apply Hn. apply in_or_app. left. exact Hin.
Qed.

Lemma import_commitments_ok : forall l kv, KI kv ->
  Forall (fun c => snd (fst c) <> [] /\ cvalid (snd c) = true /\
                   get kv (k_known (fst (fst c))) <> None) l ->
  KI (import_commitments kv l) /\ same7 kv (import_commitments kv l).
Proof.
  unfold import_commitments.
  induction l as [|c l IH]; intros kv HK Hf; [split; [exact HK|apply same7_refl]|].
  inversion Hf as [|x l' [Hx1 [Hx2 Hx3]] Hl]; subst. cbn [fold_left].
  destruct (add_commitment_ok kv (fst (fst c)) (snd (fst c)) (snd c) HK Hx1 Hx2 Hx3) as [K1 S1].
  destruct (IH _ K1) as [K2 S2].
  { eapply Forall_impl; [|exact Hl]. intros e [He1 [He2 He3]].
    split; [exact He1|]. split; [exact He2|]. rewrite (same7_known _ _ _ S1). exact He3. }
  split; [exact K2|eapply same7_trans; eassumption].
Qed.

Lemma genesis_cstate_inv : forall g, valid_genesis g = true ->
  CInv (map fst (g_markets g)) (genesis_cstate g).
Proof.
  intros g V. destruct (valid_genesis_commit g V) as [Hlt [Hnd Hc]].
  unfold genesis_cstate. cbv zeta.
  pose proof (init_markets_inv (g_markets g) [] cinit CInv_init Hlt Hnd) as I1.
  cbn [app] in I1.
  set (c1 := fold_left init_market (g_markets g) cinit) in *.
  pose proof (ci_KI _ _ I1) as K1.
  destruct (KI_set_other (cs_kv c1) 6 [] (CRaw (u32be (g_last_market g))) K1) as [K2 [_ S2]];
    [discriminate|].
  specialize (S2 ltac:(discriminate)).
  pose proof (CInv_lift _ _ _ I1 K2 S2) as I2. fold k_last_mkt in I2.
  set (c2 := with_kv c1 (set (cs_kv c1) k_last_mkt (CRaw (u32be (g_last_market g))))) in *.
  destruct (import_commitments_ok (g_commits g) (cs_kv c2) (ci_KI _ _ I2)) as [K3 S3].
  { eapply Forall_impl; [|exact Hc]. intros c [_ [H2 [H3 H4]]].
    split; [exact H2|]. split; [exact H3|]. exact (proj2 (proj2 (ci_L _ _ I2 _ H4))). }
  apply CInv_lift; assumption.
Qed.

Theorem genesis_cinv : forall g s0, init_genesis xinit g = Some s0 ->
  CInv (map fst (g_markets g)) (snd s0).
Proof.
  intros g s0 H. destruct (init_genesis_snd g s0 H) as [V ->]. apply genesis_cstate_inv. exact V.
Qed.

(** ================= (2) market ids across an import ================= *)
Theorem genesis_market_ids : forall g s0 ops, init_genesis xinit g = Some s0 ->
  let s := crun_from (snd s0) ops in
  NoDup (map fst (g_markets g) ++ markets_created_from (snd s0) ops) /\
  StronglySorted N.lt (known_markets (cs_kv s)) /\
  (forall m, m < two32 -> (In m (known_markets (cs_kv s)) <->
       In m (map fst (g_markets g)) \/ In m (markets_created_from (snd s0) ops))) /\
  (forall m, In m (map fst (g_markets g)) \/ In m (markets_created_from (snd s0) ops) ->
       m < two32 /\ In m (cs_accts s)).
Proof.
  intros g s0 ops H s.
  pose proof (crun_from_inv ops _ _ (genesis_cinv g s0 H) : CInv _ s) as HI. clearbody s.
  split; [exact (ci_nodup _ _ HI)|]. split; [exact (known_sorted _ _ HI)|]. split.
  - intros m _. rewrite (known_iff _ _ m HI). apply in_app_iff.
  - intros m Hm. apply in_or_app in Hm. destruct (ci_L _ _ HI _ Hm) as [A [B _]]. split; assumption.
Qed.

(** ================= (3) the commitment listings of any state with the invariant ================= *)
Lemma commitments_consistent_inv : forall L s, CInv L s -> let kv := cs_kv s in
  (forall m, m < two32 ->
     NoDup (map fst (market_commitments kv m)) /\
     forall a c, In (a, c) (market_commitments kv m) <-> (a <> [] /\ c <> [] /\ get_commitment kv m a = c)) /\
  (NoDup (map fst (all_commitments kv)) /\
   (forall m a c, In (m, a, c) (all_commitments kv) -> m < two32) /\
   forall m a c, m < two32 -> (In (m, a, c) (all_commitments kv) <-> (a <> [] /\ c <> [] /\ get_commitment kv m a = c))) /\
  (forall a, a <> [] ->
     NoDup (map fst (account_commitments kv a)) /\
     forall m c, m < two32 -> (In (m, c) (account_commitments kv a) <-> (c <> [] /\ get_commitment kv m a = c))) /\
  (forall m a, m < two32 -> a <> [] -> get_commitment kv m a <> [] ->
     cvalid (get_commitment kv m a) = true /\ In m (known_markets kv)).
Proof.
  intros L s HI kv. pose proof (ci_KI _ _ HI : KI kv) as HK.
  split; [|split; [|split]].
  - intros m _. apply market_ok. exact HK.
  - apply all_ok_c. exact HK.
  - intros a _. exact (account_ok _ _ a HI).
  - intros m a Hm _ Hne.
    destruct (get_commitment_cases kv m a HK) as [E|[_ [_ [Hv [_ Hk]]]]]; [congruence|].
    split; [exact Hv|exact (known_of_get _ _ _ HI Hm Hk)].
Qed.

Theorem genesis_commitments_consistent : forall g s0 ops, init_genesis xinit g = Some s0 ->
  let kv := cs_kv (crun_from (snd s0) ops) in
  (forall m, m < two32 ->
     NoDup (map fst (market_commitments kv m)) /\
     forall a c, In (a, c) (market_commitments kv m) <-> (a <> [] /\ c <> [] /\ get_commitment kv m a = c)) /\
  (NoDup (map fst (all_commitments kv)) /\
   (forall m a c, In (m, a, c) (all_commitments kv) -> m < two32) /\
   forall m a c, m < two32 -> (In (m, a, c) (all_commitments kv) <-> (a <> [] /\ c <> [] /\ get_commitment kv m a = c))) /\
  (forall a, a <> [] ->
     NoDup (map fst (account_commitments kv a)) /\
     forall m c, m < two32 -> (In (m, c) (account_commitments kv a) <-> (c <> [] /\ get_commitment kv m a = c))) /\
  (forall m a, m < two32 -> a <> [] -> get_commitment kv m a <> [] ->
     cvalid (get_commitment kv m a) = true /\ In m (known_markets kv)).
Proof.
  intros g s0 ops H.
  exact (commitments_consistent_inv _ _ (crun_from_inv ops _ _ (genesis_cinv g s0 H))).
Qed.

(** the paging / listing facts of CommitProofs for histories from an imported state *)
Lemma commitment_entries_listed_inv : forall L s, CInv L s -> let kv := cs_kv s in
  (forall m e, m < two32 -> In e (pstore kv (p_commit_mkt m)) -> exists a c, commitment_of_entry e = [(a, c)]) /\
  (forall e, In e (pstore kv p_commit_all) -> exists m a c, commitment_of_entry_all e = [(m, a, c)]).
Proof.
  intros L s HI kv. pose proof (ci_KI _ _ HI : KI kv) as HK. split.
  - intros m [r v] _ Hin. destruct (mkt_entry_c _ _ _ _ HK Hin) as [a [c [_ [_ [_ [_ [_ [_ E]]]]]]]].
    exists a, c. exact E.
  - intros [r v] Hin. destruct (all_entry_c _ _ _ HK Hin) as [m [a [c [_ [_ [_ [_ [_ [_ [_ E]]]]]]]]]].
    exists m, a, c. exact E.
Qed.

Lemma genesis_commitment_entries_listed : forall g s0 ops, init_genesis xinit g = Some s0 ->
  let kv := cs_kv (crun_from (snd s0) ops) in
  (forall m e, m < two32 -> In e (pstore kv (p_commit_mkt m)) -> exists a c, commitment_of_entry e = [(a, c)]) /\
  (forall e, In e (pstore kv p_commit_all) -> exists m a c, commitment_of_entry_all e = [(m, a, c)]).
Proof.
  intros g s0 ops H.
  exact (commitment_entries_listed_inv _ _ (crun_from_inv ops _ _ (genesis_cinv g s0 H))).
Qed.

Lemma genesis_paging_complete_commitments : forall g s0 ops p limit reverse fuel,
  init_genesis xinit g = Some s0 ->
  let l := pstore (cs_kv (crun_from (snd s0) ops)) p in
  (p = p_commit_all \/ exists m, p = p_commit_mkt m) ->
  1 <= limit -> N.of_nat (length l) + limit + 1 < two64 -> (length l < fuel)%nat ->
  follow_keys (fun rq => sdk_paginate l rq) fuel limit reverse [] = Some (if reverse then rev l else l) /\
  follow_offsets (fun rq => sdk_paginate l rq) fuel limit reverse 0 = Some (if reverse then rev l else l).
Proof.
  intros g s0 ops p limit reverse fuel H l Hp HL Hb Hf.
  pose proof (ci_KI _ _ (crun_from_inv ops _ _ (genesis_cinv g s0 H))) as HK.
  apply sdk_paging_complete; [|intros k v Hin|exact HL|exact Hb|exact Hf].
  - apply pstore_sorted. exact (proj1 HK).
  - unfold l in Hin. destruct Hp as [->|[m ->]].
    + destruct (all_entry_c _ _ _ HK Hin) as [m [a [c [_ [_ [-> _]]]]]].
      intros E. apply app_eq_nil in E. destruct E as [_ E]. exact (len_prefix_ne _ E).
    + destruct (mkt_entry_c _ _ _ _ HK Hin) as [a [c [_ [-> _]]]]. apply len_prefix_ne.
Qed.

(** ================= (4) the imported amounts add up ================= *)
Lemma k_commit_eqb : forall m a m' a', m < two32 -> m' < two32 ->
  key_eqb (k_commit m a) (k_commit m' a') = (m' =? m) && bytes_eqb a' a.
Proof.
  intros m a m' a' Hm Hm'.
  destruct (key_eqb (k_commit m a) (k_commit m' a')) eqn:E.
  - apply key_eqb_eq in E. rewrite !k_commit_eq in E.
    apply (f_equal (@tl N)) in E. cbn [tl] in E.
    apply u32be_app_inj in E. destruct E as [E1 E2].
    apply u32be_inj in E1; [|assumption|assumption]. apply len_prefix_inj0 in E2. subst.
    rewrite N.eqb_refl. unfold bytes_eqb. rewrite key_eqb_refl. reflexivity.
  - symmetry. apply andb_false_iff.
    destruct (N.eqb_spec m' m) as [->|Hne]; [|left; reflexivity].
    right. unfold bytes_eqb. apply key_eqb_neq. intros ->.
    rewrite key_eqb_refl in E. discriminate.
Qed.

Lemma get_set_commitment : forall kv m' a' c m a,
  get_commitment (set_commitment kv m' a' c) m a =
  if key_eqb (k_commit m a) (k_commit m' a') then (if cis_zero c then [] else c)
  else get_commitment kv m a.
Proof.
  intros kv m' a' c m a. unfold get_commitment, set_commitment. destruct (cis_zero c).
  - rewrite get_del. destruct (key_eqb (k_commit m a) (k_commit m' a')); reflexivity.
  - rewrite get_set. destruct (key_eqb (k_commit m a) (k_commit m' a')); reflexivity.
Qed.

Lemma ctrim_zero_nil : forall c, cis_zero (ctrim c) = true -> ctrim c = [].
Proof.
  unfold cis_zero, ctrim.
  induction c as [|[d v] r IH]; intros H; [reflexivity|].
  cbn [filter snd] in H |- *. destruct (Z.eqb v 0) eqn:E; cbn [negb] in H |- *.
  - apply IH. exact H.
  - cbn [forallb snd] in H. rewrite E in H. discriminate.
Qed.

Lemma get_add_commitment : forall kv m' a' amt m a, m < two32 -> m' < two32 ->
  get_commitment (add_commitment kv m' a' amt) m a =
  if (m' =? m) && bytes_eqb a' a then cadd (get_commitment kv m a) amt else get_commitment kv m a.
Proof.
  intros kv m' a' amt m a Hm Hm'. unfold add_commitment.
  rewrite get_set_commitment, k_commit_eqb by assumption.
  destruct ((m' =? m) && bytes_eqb a' a) eqn:E; [|reflexivity].
  apply andb_true_iff in E. destruct E as [E1 E2]. apply N.eqb_eq in E1.
  unfold bytes_eqb in E2. apply key_eqb_eq in E2. subst m' a'.
  destruct (cis_zero (cadd (get_commitment kv m a) amt)) eqn:Z; [|reflexivity].
  symmetry. unfold cadd in Z |- *. apply ctrim_zero_nil. exact Z.
Qed.

Lemma import_commitments_get : forall l kv m a, m < two32 ->
  Forall (fun c : N * bytes * coins => fst (fst c) < two32) l ->
  get_commitment (import_commitments kv l) m a =
  fold_left (fun acc (c : N * bytes * coins) =>
               if (fst (fst c) =? m) && bytes_eqb (snd (fst c)) a then cadd acc (snd c) else acc)
            l (get_commitment kv m a).
Proof.
  unfold import_commitments.
  induction l as [|c l IH]; intros kv m a Hm Hf; [reflexivity|].
  inversion Hf as [|x l' Hx Hl]; subst. cbn [fold_left].
  rewrite IH by assumption. rewrite get_add_commitment by assumption. reflexivity.
Qed.

(** no commitment key is written before the commitments are imported *)
Definition no99 (kv : cst) : Prop := forall r, get kv (99 :: r) = None.

Lemma init_market_no99 : forall s ma, no99 (cs_kv s) -> no99 (cs_kv (init_market s ma)).
Proof.
  intros s [mid acc] H r. unfold init_market. cbn [cs_kv fst snd]. unfold k_known, k_accepting.
  destruct acc.
  - rewrite !gsn by (apply hd_neq; discriminate). apply H.
  - rewrite gdn, gsn by (apply hd_neq; discriminate). apply H.
Qed.

Lemma init_markets_no99 : forall l s, no99 (cs_kv s) -> no99 (cs_kv (fold_left init_market l s)).
Proof.
  induction l as [|ma l IH]; intros s H; [exact H|].
  cbn [fold_left]. apply IH. apply init_market_no99. exact H.
Qed.

Theorem genesis_commitment_sums : forall g s0 m a, init_genesis xinit g = Some s0 -> m < two32 ->
  get_commitment (cs_kv (snd s0)) m a
  = fold_left (fun acc c => if (fst (fst c) =? m) && bytes_eqb (snd (fst c)) a
                            then cadd acc (snd c) else acc) (g_commits g) [].
Proof.
  intros g s0 m a H Hm. destruct (init_genesis_snd g s0 H) as [V ->].
  destruct (valid_genesis_commit g V) as [_ [_ Hc]].
  unfold genesis_cstate. cbv zeta. cbn [with_kv cs_kv].
  rewrite import_commitments_get.
  - f_equal. unfold get_commitment. rewrite k_commit_eq. unfold k_last_mkt.
    rewrite gsn by (apply hd_neq; discriminate).
    rewrite (init_markets_no99 (g_markets g) cinit); [reflexivity|].
    intros r. reflexivity.
  - exact Hm.
  - eapply Forall_impl; [|exact Hc]. intros c [Hc1 _]. exact Hc1.
Qed.

(** ================= (5) joint histories from an imported state ================= *)
Theorem genesis_joint : forall g s0 xs, init_genesis xinit g = Some s0 ->
  fst (xrun_from s0 xs) = run_from (fst s0) (flat_map proj_o xs) /\
  snd (xrun_from s0 xs) = crun_from (snd s0) (flat_map proj_c xs).
Proof.
  intros g s0 xs _. split; [apply xrun_from_fst|apply xrun_from_snd].
Qed.

(** ================= (6) non-vacuity ================= *)
Example example_genesis_commit_ok :
  exists s0, init_genesis xinit example_genesis = Some s0 /\
    known_markets (cs_kv (snd s0)) = [2; 5] /\
    market_commitments (cs_kv (snd s0)) 2 = [([1;1;1], [(aaa, 5%Z); (bbb, 1%Z)])] /\
    last_market_id (cs_kv (snd s0)) = 2.
Proof.
  exists (match init_genesis xinit example_genesis with Some s => s | None => xinit end).
  vm_compute. repeat split; reflexivity.
Qed.

Print Assumptions genesis_cinv.
Print Assumptions genesis_market_ids.
Print Assumptions genesis_commitments_consistent.
Print Assumptions genesis_commitment_entries_listed.
Print Assumptions genesis_paging_complete_commitments.
Print Assumptions genesis_commitment_sums.
Print Assumptions genesis_joint.
Print Assumptions example_genesis_commit_ok.
