(** Conservation of the sum of all balances (property C07), about [PV.Quarantine.Quarantine]. *)
From Coq Require Import ZArith PArith List Bool Lia ZifyBool.
From PV Require Import Quarantine.Quarantine Proofs.QuarantineProofs.
Import ListNotations.
Open Scope Z_scope.

Lemma total_cons a U b d : total (a :: U) b d = b a d + total U b d.
Proof. reflexivity. Qed.

Lemma total_ext U (b b' : bal) d : (forall a, b a d = b' a d) -> total U b d = total U b' d.
Proof. intros H. induction U as [|x U IH]; [reflexivity|]. rewrite !total_cons, IH, H. reflexivity. Qed.

Lemma total_add_notin U b a c d : ~ In a U -> total U (bal_add b a c) d = total U b d.
Proof.
  induction U as [|x U IH]; intros Hn; [reflexivity|]. rewrite !total_cons, IH by (intros Hi; apply Hn; right; exact Hi).
  unfold bal_add. destruct (Pos.eqb_spec x a); [exfalso; apply Hn; left; assumption | reflexivity].
Qed.

Lemma total_add_in U b a c d : NoDup U -> In a U -> total U (bal_add b a c) d = total U b d + amt c d.
Proof.
  induction U as [|x U IH]; intros Hn Hi; [destruct Hi|]. inversion Hn as [|? ? Hx Hn']; subst.
  rewrite !total_cons. destruct (Pos.eq_dec x a) as [->|Hne].
  - rewrite total_add_notin by exact Hx. unfold bal_add. rewrite Pos.eqb_refl. lia.
  - destruct Hi as [Hi|Hi]; [contradiction|]. rewrite IH by assumption.
    unfold bal_add. destruct (Pos.eqb_spec x a); [contradiction | lia].
Qed.

Lemma total_sub_in U b a c d : NoDup U -> In a U -> total U (bal_sub b a c) d = total U b d - amt c d.
Proof.
  intros Hn Hi.
  assert (E : total U (bal_add (bal_sub b a c) a c) d = total U b d).
  { apply total_ext. intros x. unfold bal_add, bal_sub. destruct (Pos.eqb x a); lia. }
  rewrite total_add_in in E by assumption. lia.
Qed.

Lemma add_quarantined_bal s c to froms s' : add_quarantined s c to froms = Some s' -> s_bal s' = s_bal s.
Proof.
  unfold add_quarantined. destruct froms as [|f fr]; [discriminate|].
  match goal with |- (if ?b then _ else _) = _ -> _ => destruct b end; [discriminate|].
  intros H. apply set_record_spec in H. apply H.
Qed.

Section Conservation.
Variable h : addr.
Variable U : list addr.
Hypothesis HU : NoDup U.
Hypothesis HhU : In h U.

Lemma credit_total s from to c s' d : In to U ->
  credit h (Some s) (from, to, c) = Some s' -> total U (s_bal s') d = total U (s_bal s) d + amt c d.
Proof.
  intros Ht. unfold credit, restrict.
  destruct (marker_ok h s from c); cbn [negb]; [|discriminate].
  destruct (Pos.eqb from to || Pos.eqb from h).
  - intros [= <-]. cbn [s_bal with_bal]. apply total_add_in; assumption.
  - destruct (negb (is_optin s to) || is_auto_accept s to [from]).
    + intros [= <-]. cbn [s_bal with_bal]. apply total_add_in; assumption.
    + destruct (add_quarantined s c to [from]) as [s2|] eqn:E; [|discriminate].
      intros [= <-]. cbn [s_bal with_bal]. rewrite (add_quarantined_bal _ _ _ _ _ E). apply total_add_in; assumption.
Qed.

Definition sum_c (l : list coins) (d : denom) : Z := sum_amt l d.

Lemma credits_total ts : forall s s' d,
  Forall (fun t : addr * addr * coins => In (snd (fst t)) U) ts ->
  fold_left (credit h) ts (Some s) = Some s' ->
  total U (s_bal s') d = total U (s_bal s) d + sum_amt (map snd ts) d.
Proof.
  induction ts as [|[[from to] c] ts IH]; intros s s' d Hf; cbn [fold_left map sum_amt fold_right].
  - intros [= <-]. lia.
  - destruct (credit h (Some s) (from, to, c)) as [s1|] eqn:E; [|rewrite fold_credit_none; discriminate].
    inversion Hf as [|? ? H1 H2]; subst. cbn [fst snd] in H1. intros H.
    rewrite (IH _ _ d H2 H), (credit_total _ _ _ _ _ d H1 E). cbn [snd]. fold (sum_amt (map snd ts) d). lia.
Qed.

Lemma debits_total ins : forall s s' d,
  Forall (fun i : addr * coins => In (fst i) U) ins ->
  fold_left debit ins (Some s) = Some s' ->
  total U (s_bal s') d = total U (s_bal s) d - sum_amt (map snd ins) d.
Proof.
  induction ins as [|[a c] ins IH]; intros s s' d Hf; cbn [fold_left map sum_amt fold_right].
  - intros [= <-]. lia.
  - destruct (debit (Some s) (a, c)) as [s1|] eqn:E; [|rewrite fold_debit_none; discriminate].
    inversion Hf as [|? ? H1 H2]; subst. cbn [fst] in H1. intros H.
    rewrite (IH _ _ d H2 H). apply debit_spec in E. destruct E as [-> _]. cbn [s_bal with_bal snd].
    rewrite total_sub_in by assumption. fold (sum_amt (map snd ins) d). lia.
Qed.

Lemma sum_amt_notin l d : ~ In d (flat_map denoms l) -> sum_amt l d = 0.
Proof.
  induction l as [|c l IH]; cbn [sum_amt fold_right flat_map]; intros Hn; [reflexivity|].
  fold (sum_amt l d). rewrite IH by (intros Hi; apply Hn, in_or_app; right; exact Hi).
  rewrite amt_notin by (intros Hi; apply Hn, in_or_app; left; exact Hi). lia.
Qed.

(* the parties of an operation: every address whose balance it may touch, the holder apart *)
Definition parties (o : op) : list addr :=
  match o with
  | OSend from to _ => [from; to]
  | OMulti from _ outs => from :: map fst outs
  | OMultiIn ins to => to :: map fst ins
  | OAccept to _ _ => [to]
  | _ => []
  end.

Lemma step_total s o s' res d :
  wf s -> named_ok o -> incl (parties o) U -> step h s o = (s', res) -> total U (s_bal s') d = total U (s_bal s) d.
Proof.
  intros Hw Hno Hp. destruct o as [a|a|from to c|from inc outs|ins to|to froms perm|to froms perm|to ups]; cbn [step parties] in *.
  - intros [= <- _]. unfold opt_in. destruct (is_optin s a); reflexivity.
  - intros [= <- _]. reflexivity.
  - unfold lift. destruct (send h s from to c) as [s1|] eqn:E; intros [= <- _]; [|reflexivity].
    unfold send in E. destruct (coins_valid c); [|discriminate].
    change (fold_left (credit h) [(from, to, c)] (fold_left debit [(from, c)] (Some s)) = Some s1) in E.
    destruct (fold_left debit [(from, c)] (Some s)) as [s0|] eqn:Ed; [|discriminate].
    assert (Hf : In from U) by (apply Hp; left; reflexivity).
    assert (Ht : In to U) by (apply Hp; right; left; reflexivity).
    rewrite (credits_total _ _ _ d (Forall_cons (from, to, c) Ht (Forall_nil _)) E).
    rewrite (debits_total _ _ _ d (Forall_cons (from, c) Hf (Forall_nil _)) Ed).
    cbn [map snd sum_amt fold_right]. lia.
  - unfold lift. destruct (multi_send h s from inc outs) as [s1|] eqn:E; intros [= <- _]; [|reflexivity].
    unfold multi_send in E. destruct outs as [|o0 outs0] eqn:Eo; [discriminate|]. rewrite <- Eo in *.
    destruct (coins_valid inc && _ && _) eqn:Ev; [|discriminate].
    apply andb_true_iff in Ev. destruct Ev as [_ Ev].
    change (debit (Some s) (from, inc)) with (fold_left debit [(from, inc)] (Some s)) in E.
    destruct (fold_left debit [(from, inc)] (Some s)) as [s0|] eqn:Ed; [|rewrite fold_credit_none in E; discriminate].
    assert (Hf : In from U) by (apply Hp; left; reflexivity).
    assert (Hts : Forall (fun t : addr * addr * coins => In (snd (fst t)) U) (map (fun o => (from, fst o, snd o)) outs)).
    { apply Forall_map. cbn [fst snd]. apply Forall_forall. intros x Hx. apply Hp. right. apply in_map, Hx. }
    rewrite (credits_total _ _ _ d Hts E), (debits_total _ _ _ d (Forall_cons (from, inc) Hf (Forall_nil _)) Ed).
    rewrite map_map. cbn [snd map sum_amt fold_right].
    assert (Hsum : amt inc d = sum_amt (map snd outs) d).
    { destruct (in_dec Pos.eq_dec d (denoms inc ++ flat_map (fun o => denoms (snd o)) outs)) as [Hi|Hi].
      - rewrite forallb_forall in Ev. apply Z.eqb_eq, Ev, Hi.
      - rewrite amt_notin by (intros H; apply Hi, in_or_app; left; exact H).
        rewrite sum_amt_notin; [reflexivity|]. intros H. apply Hi, in_or_app. right.
        rewrite flat_map_concat_map, map_map, <- flat_map_concat_map in H. exact H. }
    change (map (fun x : addr * coins => snd x) outs) with (map snd outs). lia.
  - unfold lift. destruct (multi_in h s ins to) as [s1|] eqn:E; intros [= <- _]; [|reflexivity].
    unfold multi_in in E. destruct ins as [|i0 ins0] eqn:Ei; [discriminate|]. rewrite <- Ei in *.
    destruct (forallb _ ins); [|discriminate].
    destruct (fold_left debit ins (Some s)) as [s0|] eqn:Ed; [|rewrite fold_credit_none in E; discriminate].
    assert (Hts : Forall (fun t : addr * addr * coins => In (snd (fst t)) U) (map (fun i => (fst i, to, snd i)) ins)).
    { apply Forall_map. cbn [fst snd]. apply Forall_forall. intros x _. apply Hp. left. reflexivity. }
    assert (Hin : Forall (fun i : addr * coins => In (fst i) U) ins).
    { apply Forall_forall. intros x Hx. apply Hp. right. apply in_map, Hx. }
    rewrite (credits_total _ _ _ d Hts E), (debits_total _ _ _ d Hin Ed). rewrite map_map. cbn [snd].
    change (map (fun x : addr * coins => snd x) ins) with (map snd ins). lia.
  - destruct (accept h s to froms perm) as [[s1 rel]|] eqn:E; intros [= <- _]; [|reflexivity].
    destruct (accept_spec h _ _ _ _ _ _ Hw Hno E) as (_ & _ & Hb & _).
    rewrite (total_ext U (s_bal s1) (bal_add (bal_sub (s_bal s) h rel) to rel) d) by (intros a; apply Hb).
    rewrite total_add_in, total_sub_in; try assumption; [lia|]. apply Hp. left. reflexivity.
  - unfold lift. destruct (decline s to froms perm) as [s1|] eqn:E; intros [= <- _]; [|reflexivity].
    destruct (decline_spec _ _ _ _ _ Hw E) as (_ & B & _). rewrite B. reflexivity.
  - unfold lift. destruct (update_auto s to ups) as [s1|] eqn:E; intros [= <- _]; [|reflexivity].
    unfold update_auto in E. destruct ups as [|u0 ups0] eqn:Eu; [discriminate|]. rewrite <- Eu in *.
    destruct (forallb _ ups); [|discriminate]. injection E as <-.
    pose proof (fold_set_auto_keeps (fun u : addr * auto => fst u) (fun u => snd u) to ups s) as Hk. cbn zeta in Hk.
    destruct Hk as (_ & B & _). rewrite B. reflexivity.
Qed.

Lemma conservation : forall ops s0 d,
  wf s0 -> Forall (signer_ok h) ops -> Forall (fun o => incl (parties o) U) ops ->
  total U (s_bal (run h s0 ops)) d = total U (s_bal s0) d.
Proof.
  induction ops as [|o ops IH]; intros s d Hw Hs Hp; cbn [run fold_left]; [reflexivity|].
  inversion Hs as [|? ? Hs1 Hs2]; subst. inversion Hp as [|? ? Hp1 Hp2]; subst.
  destruct (step h s o) as [s1 res] eqn:E. cbn [fst]. fold (run h s1 ops).
  destruct (step_slack h _ _ _ _ 1%positive Hw Hs1 E) as (Hw1 & _).
  rewrite (IH s1 d Hw1 Hs2 Hp2). apply (step_total _ _ _ _ d Hw (signer_named h o Hs1) Hp1 E).
Qed.

End Conservation.
