(** Proofs/NameGenesisProofs.v — what InitGenesis and MsgUpdateParams of the name module do
    (property C15, deepening), over the model of Name/NameMsgs.v.

    1. [import_bindings_spec]: a successful import wrote exactly the bindings, normalised, each under
       a key that was free, no two under the same key; everything that was stored stays.
    2./3. an import with two bindings of one key, or with an invalid name, panics.
    5. MsgUpdateParams: only the authority; only the parameters (and the flag) change.
    6. the allow_unrestricted_names flag is dead.
    7. witnesses (identity hash): orphans are accepted, spellings are normalised, tightened parameters
       freeze stored names, parameters are not validated, export/import breaks after a tightening. *)
From Coq Require Import Arith NArith List String Ascii Bool Lia.
From PV Require Import Name.Name Name.NameMsgs Proofs.NameProofs Proofs.NameMsgsProofs.
Import ListNotations.
Open Scope string_scope.
Open Scope list_scope.

Section Genesis.
  Variable hash : string -> string.

  (* the store key a binding is written under: [None] = the import panics on it *)
  Definition bkey (p : params) (b : binding) : option string :=
    match normalize p (fst (fst b)) with Some n => name_key hash n | None => None end.

  (** ** The fold of InitGenesis, one binding at a time *)

  Definition imp_body (p : params) (acc : option state) (b : binding) : option state :=
    match acc with
    | Some s1 => let '(n, a, r) := b in set_name_record hash p s1 n a r
    | None => None
    end.

  Lemma import_bindings_fold : forall p s bs,
    import_bindings hash p s bs = fold_left (imp_body p) bs (Some s).
  Proof. intros p s bs. reflexivity. Qed.

  Lemma imp_fold_none : forall p bs, fold_left (imp_body p) bs None = None.
  Proof.
    intros p bs. induction bs as [|b bs IH]; [reflexivity|]. cbn [fold_left imp_body]. exact IH.
  Qed.

  Lemma import_bindings_nil : forall p s, import_bindings hash p s [] = Some s.
  Proof. intros p s. reflexivity. Qed.

  Lemma import_bindings_cons : forall p s raw a r bs,
    import_bindings hash p s ((raw, a, r) :: bs) =
      match set_name_record hash p s raw a r with
      | Some s1 => import_bindings hash p s1 bs
      | None => None
      end.
  Proof.
    intros p s raw a r bs. rewrite import_bindings_fold. cbn [fold_left imp_body].
    destruct (set_name_record hash p s raw a r) as [s1|].
    - rewrite import_bindings_fold. reflexivity.
    - apply imp_fold_none.
  Qed.

  (** an import is the import of a prefix followed by the import of the rest *)
  Lemma import_bindings_app : forall p bs1 bs2 s,
    import_bindings hash p s (bs1 ++ bs2) =
      match import_bindings hash p s bs1 with
      | Some s1 => import_bindings hash p s1 bs2
      | None => None
      end.
  Proof.
    intros p bs1 bs2. induction bs1 as [|[[raw a] r] bs1 IH]; intros s.
    - rewrite import_bindings_nil. reflexivity.
    - rewrite <- app_comm_cons. rewrite !import_bindings_cons.
      destruct (set_name_record hash p s raw a r) as [s1|]; [apply IH|reflexivity].
  Qed.

  Lemma bkey_some : forall p raw a r n k,
    normalize p raw = Some n -> name_key hash n = Some k -> bkey p (raw, a, r) = Some k.
  Proof.
    intros p raw a r n k Hn Hk. unfold bkey. cbn [fst]. rewrite Hn. exact Hk.
  Qed.

  (** the per-binding clause of the specification *)
  Definition written (p : params) (s s' : state) (b : binding) : Prop :=
    let '(raw, a, r) := b in
    exists n k, normalize p raw = Some n /\ name_key hash n = Some k /\ rget s k = None /\
                rget s' k = Some {| r_name := n; r_addr := a; r_restricted := r |}.

  Lemma written_bkey : forall p s s' b, written p s s' b -> exists k, bkey p b = Some k /\ rget s k = None.
  Proof.
    intros p s s' [[raw a] r] Hw. cbn [written] in Hw.
    destruct Hw as [n [k [Hn [Hk [Hfree _]]]]]. exists k. split; [|exact Hfree].
    exact (bkey_some p raw a r n k Hn Hk).
  Qed.

  (* 1. what a successful import did *)
  Theorem import_bindings_spec : forall p bs s s',
    import_bindings hash p s bs = Some s' ->
    (* every binding is resolvable afterwards, normalised, with the owner and flag as written, under a key that was free *)
    Forall (fun b : binding => let '(raw, a, r) := b in
              exists n k, normalize p raw = Some n /\ name_key hash n = Some k /\ rget s k = None /\
                          rget s' k = Some {| r_name := n; r_addr := a; r_restricted := r |}) bs /\
    (* no two bindings share a key (in particular: no duplicate names, no two spellings of one name) *)
    NoDup (map (bkey p) bs) /\
    (* what was there stays *)
    (forall k r, rget s k = Some r -> rget s' k = Some r) /\
    (* and nothing else appears *)
    (forall k r, rget s' k = Some r -> rget s k = Some r \/
        exists raw a rs n, In (raw, a, rs) bs /\ normalize p raw = Some n /\ name_key hash n = Some k /\
                           r = {| r_name := n; r_addr := a; r_restricted := rs |}).
  Proof.
    intros p bs. change (forall s s', import_bindings hash p s bs = Some s' ->
      Forall (written p s s') bs /\ NoDup (map (bkey p) bs) /\
      (forall k r, rget s k = Some r -> rget s' k = Some r) /\
      (forall k r, rget s' k = Some r -> rget s k = Some r \/
        exists raw a rs n, In (raw, a, rs) bs /\ normalize p raw = Some n /\ name_key hash n = Some k /\
                           r = {| r_name := n; r_addr := a; r_restricted := rs |})).
    induction bs as [|[[raw a] rs] bs IH]; intros s s' H.
    - rewrite import_bindings_nil in H. injection H as H. subst s'.
      split; [constructor|]. split; [constructor|]. split.
      + intros k r Hk. exact Hk.
      + intros k r Hk. left. exact Hk.
    - rewrite import_bindings_cons in H.
      destruct (set_name_record hash p s raw a rs) as [s1|] eqn:E; [|discriminate H].
      destruct (set_name_record_spec hash p s raw a rs s1 E) as [n [k [Hn [Hk [Hfree [Hset Hframe]]]]]].
      destruct (IH s1 s' H) as [HA [HB [HC HD]]].
      split; [|split; [|split]].
      + (* every binding written *)
        constructor.
        * cbn [written]. exists n, k. split; [exact Hn|]. split; [exact Hk|]. split; [exact Hfree|].
          apply HC. exact Hset.
        * rewrite Forall_forall in HA. rewrite Forall_forall. intros [[raw' a'] rs'] Hin.
          specialize (HA _ Hin). cbn [written] in HA. cbn [written].
          destruct HA as [n' [k' [Hn' [Hk' [Hfree' Hset']]]]].
          exists n', k'. split; [exact Hn'|]. split; [exact Hk'|]. split; [|exact Hset'].
          assert (Hne : k' <> k).
          { intros Heq. subst k'. rewrite Hset in Hfree'. discriminate Hfree'. }
          rewrite <- (Hframe k' Hne). exact Hfree'.
      + (* keys pairwise different *)
        cbn [map]. constructor; [|exact HB].
        rewrite (bkey_some p raw a rs n k Hn Hk). intros Hin.
        apply in_map_iff in Hin. destruct Hin as [b [Hb Hinb]].
        rewrite Forall_forall in HA. specialize (HA b Hinb).
        destruct (written_bkey p s1 s' b HA) as [k' [Hbk Hfree']].
        rewrite Hb in Hbk. injection Hbk as Hbk. subst k'.
        rewrite Hset in Hfree'. discriminate Hfree'.
      + (* what was there stays *)
        intros k0 r0 H0. apply HC.
        assert (Hne : k0 <> k).
        { intros Heq. subst k0. rewrite Hfree in H0. discriminate H0. }
        rewrite (Hframe k0 Hne). exact H0.
      + (* nothing else appears *)
        intros k0 r0 H0. destruct (HD k0 r0 H0) as [H1 | [raw' [a' [rs' [n' [Hin [Hn' [Hk' Hr]]]]]]]].
        * destruct (string_dec k0 k) as [Heq|Hne].
          -- subst k0. rewrite Hset in H1. injection H1 as H1. right.
             exists raw, a, rs, n. split; [left; reflexivity|]. split; [exact Hn|]. split; [exact Hk|].
             symmetry. exact H1.
          -- left. rewrite <- (Hframe k0 Hne). exact H1.
        * right. exists raw', a', rs', n'. split; [right; exact Hin|]. split; [exact Hn'|].
          split; [exact Hk'|exact Hr].
  Qed.

  (** the key of every binding of a successful import is defined *)
  Lemma import_bindings_keys_defined : forall p bs s s',
    import_bindings hash p s bs = Some s' -> Forall (fun b => exists k, bkey p b = Some k /\ rget s k = None) bs.
  Proof.
    intros p bs s s' H. destruct (import_bindings_spec p bs s s' H) as [HA _].
    rewrite Forall_forall in HA. rewrite Forall_forall. intros [[raw a] r] Hin.
    specialize (HA _ Hin). cbn beta iota in HA.
    exact (written_bkey p s s' (raw, a, r) HA).
  Qed.

  (* 2. duplicates (two bindings with the same key) make the import panic, wherever they stand *)
  Corollary import_bindings_rejects_duplicates : forall p s bs1 b1 bs2 b2 bs3,
    bkey p b1 = bkey p b2 -> import_bindings hash p s (bs1 ++ b1 :: bs2 ++ b2 :: bs3) = None.
  Proof.
    intros p s bs1 b1 bs2 b2 bs3 Heq.
    destruct (import_bindings hash p s (bs1 ++ b1 :: bs2 ++ b2 :: bs3)) as [s'|] eqn:E; [|reflexivity].
    exfalso. destruct (import_bindings_spec p _ s s' E) as [_ [Hnd _]].
    rewrite map_app in Hnd. cbn [map] in Hnd. apply NoDup_remove_2 in Hnd. apply Hnd.
    apply in_or_app. right. rewrite map_app. apply in_or_app. right. cbn [map]. left.
    symmetry. exact Heq.
  Qed.

  (** a binding whose key is already occupied makes the import panic as well *)
  Corollary import_bindings_rejects_occupied : forall p s bs1 b bs2 k r,
    bkey p b = Some k -> rget s k = Some r -> import_bindings hash p s (bs1 ++ b :: bs2) = None.
  Proof.
    intros p s bs1 b bs2 k r Hb Hocc.
    destruct (import_bindings hash p s (bs1 ++ b :: bs2)) as [s'|] eqn:E; [|reflexivity].
    exfalso. pose proof (import_bindings_keys_defined p _ s s' E) as HF.
    rewrite Forall_forall in HF. destruct (HF b (in_elt b bs1 bs2)) as [k' [Hb' Hfree]].
    rewrite Hb in Hb'. injection Hb' as Hb'. subst k'. rewrite Hocc in Hfree. discriminate Hfree.
  Qed.

  (* 3. an invalid name makes it panic *)
  Lemma import_bindings_rejects_invalid : forall p s bs1 raw a r bs2,
    normalize p raw = None -> import_bindings hash p s (bs1 ++ (raw, a, r) :: bs2) = None.
  Proof.
    intros p s bs1 raw a r bs2 Hinv.
    destruct (import_bindings hash p s (bs1 ++ (raw, a, r) :: bs2)) as [s'|] eqn:E; [|reflexivity].
    exfalso. destruct (import_bindings_spec p _ s s' E) as [HA _].
    rewrite Forall_forall in HA. specialize (HA (raw, a, r) (in_elt (raw, a, r) bs1 bs2)).
    cbn beta iota in HA. destruct HA as [n [k [Hn _]]]. rewrite Hinv in Hn. discriminate Hn.
  Qed.

  (** more generally: a binding without a key (invalid name, or a name without a store key) *)
  Lemma import_bindings_rejects_keyless : forall p s bs1 b bs2,
    bkey p b = None -> import_bindings hash p s (bs1 ++ b :: bs2) = None.
  Proof.
    intros p s bs1 b bs2 Hb.
    destruct (import_bindings hash p s (bs1 ++ b :: bs2)) as [s'|] eqn:E; [|reflexivity].
    exfalso. pose proof (import_bindings_keys_defined p _ s s' E) as HF.
    rewrite Forall_forall in HF. destruct (HF b (in_elt b bs1 bs2)) as [k [Hb' _]].
    rewrite Hb in Hb'. discriminate Hb'.
  Qed.

  (* 5. MsgUpdateParams: only the authority, and nothing but the parameters changes *)
  Lemma params_only_by_authority : forall ps signer p allow,
    (snd (pstep hash ps (MParams signer p allow)) = Ok ->
       signer = gov_authority /\
       fst (pstep hash ps (MParams signer p allow)) = {| ps_p := p; ps_allow := allow; ps_s := ps_s ps |}) /\
    (snd (pstep hash ps (MParams signer p allow)) = Err ->
       signer <> gov_authority /\ fst (pstep hash ps (MParams signer p allow)) = ps).
  Proof.
    intros ps signer p allow. unfold pstep. cbn [pexec].
    destruct (N.eqb_spec signer gov_authority) as [Heq|Hne]; cbn [fst snd]; split; intros H.
    - split; [exact Heq|reflexivity].
    - discriminate H.
    - discriminate H.
    - split; [exact Hne|reflexivity].
  Qed.

  (** ** 6. the allow flag is dead *)

  (** one step: with the same parameters and the same name store, whatever the flags are (in the
      state and in the message), the step gives the same parameters, name store and verdict *)
  Lemma allow_flag_step : forall b m ps1 ps2,
    ps_p ps1 = ps_p ps2 -> ps_s ps1 = ps_s ps2 ->
    ps_p (fst (pstep hash ps1 (set_allow b m))) = ps_p (fst (pstep hash ps2 m)) /\
    ps_s (fst (pstep hash ps1 (set_allow b m))) = ps_s (fst (pstep hash ps2 m)) /\
    snd (pstep hash ps1 (set_allow b m)) = snd (pstep hash ps2 m).
  Proof.
    intros b m [p1 al1 s1] [p2 al2 s2] Hp Hs. cbn [ps_p ps_s] in Hp, Hs. subst p2 s2.
    destruct m as [o|signer p allow|p allow bs]; unfold pstep; cbn [set_allow pexec ps_p ps_s ps_allow].
    - destruct (exec hash p1 s1 o) as [s'|]; cbn [fst snd ps_p ps_s]; repeat split.
    - destruct (N.eqb signer gov_authority); cbn [fst snd ps_p ps_s]; repeat split.
    - destruct (import_bindings hash p s1 bs) as [s'|]; cbn [fst snd ps_p ps_s]; repeat split.
  Qed.

  Theorem allow_flag_is_dead : forall b ms ps1 ps2,
    ps_p ps1 = ps_p ps2 -> ps_s ps1 = ps_s ps2 ->
    ps_p (prun_from hash ps1 (map (set_allow b) ms)) = ps_p (prun_from hash ps2 ms) /\
    ps_s (prun_from hash ps1 (map (set_allow b) ms)) = ps_s (prun_from hash ps2 ms).
  Proof.
    intros b ms. unfold prun_from. induction ms as [|m ms IH]; intros ps1 ps2 Hp Hs; cbn [map fold_left].
    - split; [exact Hp|exact Hs].
    - destruct (allow_flag_step b m ps1 ps2 Hp Hs) as [Hp' [Hs' _]].
      exact (IH _ _ Hp' Hs').
  Qed.

  Lemma allow_flag_same_verdicts : forall b m ps1 ps2,
    ps_p ps1 = ps_p ps2 -> ps_s ps1 = ps_s ps2 ->
    snd (pstep hash ps1 (set_allow b m)) = snd (pstep hash ps2 m).
  Proof.
    intros b m ps1 ps2 Hp Hs. destruct (allow_flag_step b m ps1 ps2 Hp Hs) as [_ [_ Hv]]. exact Hv.
  Qed.

  (** the verdicts of a whole history: the list of results is the same *)
  Fixpoint verdicts (ps : pstate) (ms : list msg) : list result :=
    match ms with
    | [] => []
    | m :: ms' => snd (pstep hash ps m) :: verdicts (fst (pstep hash ps m)) ms'
    end.

  Theorem allow_flag_same_history_verdicts : forall b ms ps1 ps2,
    ps_p ps1 = ps_p ps2 -> ps_s ps1 = ps_s ps2 ->
    verdicts ps1 (map (set_allow b) ms) = verdicts ps2 ms.
  Proof.
    intros b ms. induction ms as [|m ms IH]; intros ps1 ps2 Hp Hs; cbn [map verdicts]; [reflexivity|].
    destruct (allow_flag_step b m ps1 ps2 Hp Hs) as [Hp' [Hs' Hv]].
    rewrite Hv. f_equal. exact (IH _ _ Hp' Hs').
  Qed.
End Genesis.

(** * 7. Witnesses (identity hash [hid] of Proofs/NameProofs.v: records keyed by pre-image) *)

Definition tight_params : params := {| p_min_seg := 2; p_max_seg := 3; p_max_levels := 2 |}.

(* 7a. an orphan is accepted: the import never looks at parents.  Importing only "cc.aa.pb" into the
       empty store succeeds; neither "aa.pb" nor "pb" exists; nobody can bind under the missing parent
       "aa.pb", while a stranger (7) can bind under the unrestricted orphan. *)
Example genesis_accepts_orphan :
  exists s,
    import_bindings hid default_params init [("cc.aa.pb", 3%N, false)] = Some s /\
    get_record hid s "cc.aa.pb" = Some {| r_name := "cc.aa.pb"; r_addr := 3%N; r_restricted := false |} /\
    get_record hid s "aa.pb" = None /\
    get_record hid s "pb" = None /\
    snd (step hid default_params s (OpBind "aa.pb" 1%N "dd" 1%N false)) = Err /\
    snd (step hid default_params s (OpBind "cc.aa.pb" 7%N "dd" 7%N false)) = Ok.
Proof. eexists. vm_compute. repeat split; try reflexivity. Qed.

(* 7b. an un-normalised spelling is accepted and stored normalised *)
Example genesis_normalises :
  exists s,
    import_bindings hid default_params init [(" Aa . PB ", 2%N, true)] = Some s /\
    get_record hid s "aa.pb" = Some {| r_name := "aa.pb"; r_addr := 2%N; r_restricted := true |} /\
    reverse_lookup s 2%N = ["aa.pb"].
Proof. eexists. vm_compute. repeat split; try reflexivity. Qed.

(* 7c. the same name twice (second spelled in upper case) panics; so does the colliding pair
       "aa.bbcc" / "ccaa.bb" (two DIFFERENT valid names with one store key, [keys_collide]) *)
Example genesis_rejects_duplicates :
  import_bindings hid default_params init [("aa.pb", 2%N, true); ("AA.PB", 3%N, false)] = None /\
  import_bindings hid default_params init [("aa.bbcc", 2%N, true); ("ccaa.bb", 3%N, false)] = None /\
  bkey hid default_params ("aa.bbcc", 2%N, true) = bkey hid default_params ("ccaa.bb", 3%N, false).
Proof. vm_compute. repeat split; try reflexivity. Qed.

(* 7d. tightened parameters freeze names: "abcdef" is created under the defaults, then the maximum
       segment length is lowered to 3.  The record is still served, but its name no longer
       normalises, so the owner cannot delete or modify it, the authority cannot modify it, and
       nothing can be bound under it — until the parameters are relaxed again. *)
Definition frozen_history : list msg :=
  [MOp (OpCreateRoot 0%N "abcdef" 1%N false); MParams 0%N tight_params true].

Example tightened_params_freeze_names :
  let ps := prun hid default_params true frozen_history in
  ps_p ps = tight_params /\
  get_record hid (ps_s ps) "abcdef" = Some {| r_name := "abcdef"; r_addr := 1%N; r_restricted := false |} /\
  normalize (ps_p ps) "abcdef" = None /\
  snd (pstep hid ps (MOp (OpDelete "abcdef" 1%N))) = Err /\
  snd (pstep hid ps (MOp (OpModify 1%N "abcdef" 2%N false))) = Err /\
  snd (pstep hid ps (MOp (OpModify 0%N "abcdef" 2%N false))) = Err /\
  snd (pstep hid ps (MOp (OpBind "abcdef" 1%N "ab" 1%N false))) = Err /\
  (let ps' := fst (pstep hid ps (MParams 0%N default_params true)) in
   snd (pstep hid ps' (MOp (OpDelete "abcdef" 1%N))) = Ok).
Proof. vm_compute. repeat split; try reflexivity. Qed.

(* 7e. a stored name need not be valid under the parameters in force (refutes the naive invariant
       "every stored name is valid under the current parameters") *)
Lemma stored_names_valid_under_current_params_refuted :
  exists ms n r,
    let ps := prun hid default_params true ms in
    get_record hid (ps_s ps) n = Some r /\ normalize (ps_p ps) (r_name r) = None.
Proof.
  exists frozen_history, "abcdef", {| r_name := "abcdef"; r_addr := 1%N; r_restricted := false |}.
  vm_compute. split; reflexivity.
Qed.

(* 7f. MsgUpdateParams accepts nonsensical limits: min 5 > max 3 is accepted, and then no root can
       be created *)
Example params_not_validated :
  let nonsense := {| p_min_seg := 5; p_max_seg := 3; p_max_levels := 16 |} in
  let ps0 := pstart default_params true in
  snd (pstep hid ps0 (MParams 0%N nonsense true)) = Ok /\
  ps_p (fst (pstep hid ps0 (MParams 0%N nonsense true))) = nonsense /\
  snd (pstep hid (fst (pstep hid ps0 (MParams 0%N nonsense true))) (MOp (OpCreateRoot 0%N "abcd" 1%N false))) = Err.
Proof. vm_compute. repeat split; try reflexivity. Qed.

(* 7g. an export/import round trip breaks after a tightening: the exported genesis of the state of
       7d is (tight_params, [("abcdef", 1, false)]); InitGenesis of it panics *)
Example export_import_fails_after_tightening :
  let ps := prun hid default_params true frozen_history in
  ps_p ps = tight_params /\
  map (fun kr : string * record => (r_name (snd kr), r_addr (snd kr), r_restricted (snd kr))) (st_recs (ps_s ps))
    = [("abcdef", 1%N, false)] /\
  import_bindings hid tight_params init [("abcdef", 1%N, false)] = None /\
  snd (pstep hid (pstart default_params true) (MGenesis tight_params true [("abcdef", 1%N, false)])) = Err.
Proof. vm_compute. repeat split; try reflexivity. Qed.
