(** Payout liveness, decline-after-accept, "an unaccepted sender blocks the payout" over histories,
    and well-formedness of every genesis, for [PV.Quarantine.Quarantine] (property C07). *)
From Coq Require Import ZArith PArith List Bool Lia ZifyBool Permutation.
From PV Require Import Quarantine.Quarantine Proofs.QuarantineProofs Proofs.QuarantineIndex Proofs.QuarantineSteps
  Proofs.QuarantineTransfers.
Import ListNotations.
Open Scope Z_scope.

(** * Genesis *)
Lemma set_record_wf s to r s' : wf s -> q_unacc r <> [] -> set_record s to r = Some s' -> wf s'.
Proof.
  intros Hw Hne Hs. apply set_record_full in Hs. destruct Hs as (_ & _ & _ & Hr & _).
  assert (Hfa : fully_accepted r = false) by (unfold fully_accepted; destruct (q_unacc r); [contradiction | reflexivity]).
  rewrite Hfa in Hr. unfold wf. rewrite Hr. apply wfl_rset; [exact Hw|].
  split; cbn [fst snd mk_key]; [reflexivity | exact Hne].
Qed.

Lemma fold_gen_fund_none l : fold_left gen_fund l None = None.
Proof. induction l as [|e l IH]; cbn [fold_left]; [reflexivity | exact IH]. Qed.

Lemma gen_funds_good funds : forall s s',
  good s -> Forall (fun e : addr * list addr * coins * bool => forall d, 0 <= amt (snd (fst e)) d) funds ->
  fold_left gen_fund funds (Some s) = Some s' -> good s' /\ s_xfer s' = s_xfer s /\ s_bal s' = s_bal s.
Proof.
  induction funds as [|[[[to froms] c] decl] funds IH]; intros s s' Hg Hnn; cbn [fold_left].
  - intros [= <-]. auto.
  - inversion Hnn as [|? ? Hc Hnn']; subst. cbn [fst snd] in Hc.
    cbn [gen_fund]. set (r := {| q_unacc := froms; q_acc := []; q_coins := c; q_declined := decl |}).
    destruct (set_record s to r) as [s1|] eqn:E; [|rewrite fold_gen_fund_none; discriminate].
    intros Hf. destruct Hg as (Hw & Hi & Hn).
    assert (Hne : q_unacc r <> []).
    { cbn [q_unacc r]. intros ->. unfold set_record in E. cbn in E. discriminate. }
    assert (Hg1 : good s1).
    { split; [apply (set_record_wf _ _ _ _ Hw Hne E)|]. split; [apply (set_record_idx_sound _ _ _ _ Hw Hi E)|].
      pose proof E as E'. apply set_record_full in E'. destruct E' as (_ & _ & _ & Hr & _).
      unfold recs_nn. rewrite Hr. destruct (fully_accepted r); [apply nn_rdel, Hn | apply nn_rset; [exact Hn | exact Hc]]. }
    apply set_record_full in E. destruct E as (Hb1 & _ & Hx1 & _).
    destruct (IH _ _ Hg1 Hnn' Hf) as (A & B & C). split; [exact A|]. split; congruence.
Qed.

Lemma fold_opt_in_frame2 l : forall s,
  s_recs (fold_left opt_in l s) = s_recs s /\ s_idx (fold_left opt_in l s) = s_idx s /\
  s_xfer (fold_left opt_in l s) = s_xfer s /\ s_bal (fold_left opt_in l s) = s_bal s.
Proof.
  induction l as [|a l IH]; intros s; cbn [fold_left]; [auto|].
  destruct (IH (opt_in s a)) as (A & B & C & D). rewrite A, B, C, D. unfold opt_in. destruct (is_optin s a); auto.
Qed.

Lemma fold_gen_auto_frame (l : list (addr * addr * auto)) : forall s,
  let s' := fold_left (fun s e => let '(to, from, r) := e in set_auto s to from r) l s in
  s_recs s' = s_recs s /\ s_idx s' = s_idx s /\ s_xfer s' = s_xfer s /\ s_bal s' = s_bal s.
Proof.
  induction l as [|[[to from] r] l IH]; intros s; cbn [fold_left]; [auto|].
  specialize (IH (set_auto s to from r)). cbn zeta in IH. destruct IH as (A & B & C & D).
  destruct (set_auto_frame s to from r) as (A2 & B2 & C2 & D2). repeat split; congruence.
Qed.

Definition fund_nn (e : addr * list addr * coins * bool) : Prop := forall d, 0 <= amt (snd (fst e)) d.
Definition fund_senders (e : addr * list addr * coins * bool) : list addr := snd (fst (fst e)).

Lemma funds_total_cons e funds d : funds_total (e :: funds) d = amt (snd (fst e)) d + funds_total funds d.
Proof. reflexivity. Qed.

(* the records never hold more than the imported entries add up to *)
Lemma gen_funds_total_le funds : forall s s',
  good s -> Forall fund_nn funds -> fold_left gen_fund funds (Some s) = Some s' ->
  forall d, rec_total (s_recs s') d <= rec_total (s_recs s) d + funds_total funds d.
Proof.
  induction funds as [|[[[to froms] c] decl] funds IH]; intros s s' Hg Hnn; cbn [fold_left].
  - intros [= <-] d. cbn. lia.
  - inversion Hnn as [|? ? Hc Hnn']; subst. unfold fund_nn in Hc. cbn [fst snd] in Hc.
    cbn [gen_fund]. set (r := {| q_unacc := froms; q_acc := []; q_coins := c; q_declined := decl |}).
    destruct (set_record s to r) as [s1|] eqn:E; [|rewrite fold_gen_fund_none; discriminate].
    intros Hf d.
    assert (Hg1 : good s1).
    { apply (gen_funds_good [(to, froms, c, decl)] s s1 Hg); [constructor; [exact Hc | constructor]|].
      cbn [fold_left gen_fund]. exact E. }
    specialize (IH _ _ Hg1 Hnn' Hf d). rewrite funds_total_cons. cbn [fst snd].
    destruct Hg as (Hw & _ & Hn).
    apply set_record_full in E. destruct E as (_ & _ & _ & Hr & _).
    assert (Hle : rec_total (s_recs s1) d <= rec_total (s_recs s) d + amt c d).
    { rewrite Hr. pose proof (old_nn (s_recs s) (mk_key to (all_froms r)) d Hn) as Ho. specialize (Hc d).
      destruct (fully_accepted r).
      - rewrite rec_total_rdel by apply Hw. lia.
      - rewrite rec_total_rset by apply Hw. cbn [q_coins r]. lia. }
    lia.
Qed.

Lemma gen_funds_some funds : forall s,
  (exists s', fold_left gen_fund funds (Some s) = Some s') <-> Forall (fun e => fund_senders e <> []) funds.
Proof.
  induction funds as [|[[[to froms] c] decl] funds IH]; intros s; cbn [fold_left].
  - split; [constructor | intros _; eexists; reflexivity].
  - cbn [gen_fund]. set (r := {| q_unacc := froms; q_acc := []; q_coins := c; q_declined := decl |}).
    destruct froms as [|f0 fr] eqn:Ef.
    + split.
      * intros [s' H]. unfold set_record in H. cbn in H. rewrite fold_gen_fund_none in H. discriminate.
      * intros H. inversion H as [|? ? H1 _]. exfalso. apply H1. reflexivity.
    + destruct (set_record_some s to r) as [s1 E1]; [unfold all_froms, r; cbn; discriminate|].
      rewrite E1. rewrite IH. split.
      * intros H. constructor; [unfold fund_senders; cbn; discriminate | exact H].
      * intros H. inversion H; assumption.
Qed.

Lemma funds_total_notin funds d : ~ In d (funds_denoms funds) -> funds_total funds d = 0.
Proof.
  induction funds as [|e funds IH]; intros Hn; [reflexivity|]. rewrite funds_total_cons.
  unfold funds_denoms in Hn. cbn [flat_map] in Hn.
  rewrite IH by (intros Hi; apply Hn, in_or_app; right; exact Hi).
  rewrite amt_notin by (intros Hi; apply Hn, in_or_app; left; exact Hi). lia.
Qed.

(** C07_genesis_good: InitGenesis accepts a genesis exactly when every record has a sender and the
    holder holds the imported total in every denom; what it accepts is a good state in which the
    holder covers the records *)
Lemma genesis_good h g :
  Forall fund_nn (g_funds g) ->
  (init_genesis h g <> None <->
     Forall (fun e => fund_senders e <> []) (g_funds g) /\
     forall d, In d (funds_denoms (g_funds g)) -> funds_total (g_funds g) d <= bal_of_list (g_bal g) h d) /\
  (forall s, init_genesis h g = Some s ->
     good s /\ s_xfer s = g_xfer g /\ s_bal s = bal_of_list (g_bal g) /\
     ((forall d, 0 <= bal_of_list (g_bal g) h d) -> covers h s)).
Proof.
  intros Hnn. unfold init_genesis.
  set (s1 := fold_left opt_in (g_optin g) _).
  set (s2 := fold_left _ (g_auto g) s1).
  destruct (fold_gen_auto_frame (g_auto g) s1) as (A2 & B2 & C2 & D2). fold s2 in A2, B2, C2, D2.
  destruct (fold_opt_in_frame2 (g_optin g) (empty_state (bal_of_list (g_bal g)) (g_xfer g))) as (A1 & B1 & C1 & D1).
  fold s1 in A1, B1, C1, D1. cbn [s_recs s_idx s_xfer s_bal empty_state] in A1, B1, C1, D1.
  assert (Hg2 : good s2).
  { unfold good, wf, idx_sound, recs_nn. rewrite A2, A1, B2, B1. split; [split; constructor|]. split; [|constructor].
    intros k r Hk. discriminate. }
  assert (Hcheck : forall s, s_bal s = bal_of_list (g_bal g) ->
            (forallb (fun d => funds_total (g_funds g) d <=? s_bal s h d) (funds_denoms (g_funds g)) = true <->
             forall d, In d (funds_denoms (g_funds g)) -> funds_total (g_funds g) d <= bal_of_list (g_bal g) h d)).
  { intros s Hb. rewrite forallb_forall, Hb. split; intros H d Hd; [apply Z.leb_le, H, Hd | apply Z.leb_le, H, Hd]. }
  split.
  - destruct (fold_left gen_fund (g_funds g) (Some s2)) as [s|] eqn:Ef.
    + destruct (gen_funds_good _ _ _ Hg2 Hnn Ef) as (_ & _ & Hb).
      assert (Hbs : s_bal s = bal_of_list (g_bal g)) by congruence.
      assert (Hsome : Forall (fun e => fund_senders e <> []) (g_funds g)) by (apply (gen_funds_some _ s2); exists s; exact Ef).
      destruct (forallb _ _) eqn:Ec.
      * split; [intros _; split; [exact Hsome | exact (proj1 (Hcheck s Hbs) Ec)] | discriminate].
      * split; [intros H; exfalso; apply H; reflexivity|]. intros [_ H]. pose proof (proj2 (Hcheck s Hbs) H). congruence.
    + split; [intros H; exfalso; apply H; reflexivity|]. intros [H _].
      apply (gen_funds_some _ s2) in H. destruct H as [s' H]. congruence.
  - intros s. destruct (fold_left gen_fund (g_funds g) (Some s2)) as [s'|] eqn:Ef; [|discriminate].
    destruct (forallb _ _) eqn:Ec; [|discriminate]. intros [= <-].
    destruct (gen_funds_good _ _ _ Hg2 Hnn Ef) as (A & B & Hb).
    assert (Hbs : s_bal s' = bal_of_list (g_bal g)) by congruence.
    split; [exact A|]. split; [congruence|]. split; [exact Hbs|].
    intros Hpos d. pose proof (gen_funds_total_le _ _ _ Hg2 Hnn Ef d) as Hle.
    assert (H0 : rec_total (s_recs s2) d = 0) by (rewrite A2, A1; reflexivity). rewrite H0 in Hle.
    destruct (in_dec Pos.eq_dec d (funds_denoms (g_funds g))) as [Hi|Hi].
    + pose proof (proj1 (Hcheck s' Hbs) Ec d Hi). rewrite Hbs. lia.
    + rewrite (funds_total_notin _ _ Hi) in Hle. rewrite Hbs. specialize (Hpos d). lia.
Qed.

(** * Accept: payout liveness *)
Lemma filter_incl_nil (froms l : list addr) : incl l froms -> filter (fun a => negb (mem a froms)) l = [].
Proof.
  induction l as [|a l IH]; intros Hi; [reflexivity|]. cbn [filter].
  assert (Hm : mem a froms = true) by (apply mem_In, Hi; left; reflexivity). rewrite Hm. cbn [negb].
  apply IH. intros x Hx. apply Hi. right. exact Hx.
Qed.

Lemma acc_res_all s to froms r :
  q_unacc r <> [] -> incl (q_unacc r) froms -> acc_res s to froms r = None /\ acc_paid froms r = q_coins r.
Proof.
  intros Hne Hi. unfold acc_res, acc_paid, accept_from.
  destruct (filter (fun a => mem a froms) (q_unacc r)) as [|x fnd] eqn:E.
  - exfalso. destruct (q_unacc r) as [|a l]; [contradiction|]. cbn [filter] in E.
    assert (Hm : mem a froms = true) by (apply mem_In, Hi; left; reflexivity). rewrite Hm in E. discriminate.
  - unfold fully_accepted. cbn [q_unacc]. rewrite (filter_incl_nil _ _ Hi). auto.
Qed.

Section WithHolder.
Variable h : addr.

Lemma accept_pays_out s to froms perm k r :
  good s -> covers h s -> to <> h -> inj_named froms ->
  rget k (s_recs s) = Some r -> fst k = to -> incl (q_unacc r) froms ->
  exists s' rel, accept h s to froms perm = Some (s', rel) /\ rget k (s_recs s') = None /\
                 (forall d, amt (q_coins r) d <= amt rel d).
Proof.
  intros (Hw & Hi & Hn) Hc Hth Hinj Hg Hto Hincl.
  pose proof (wf_rget _ _ _ Hw Hg) as [_ Hun]. cbn [snd] in Hun.
  destruct (q_unacc r) as [|f ul] eqn:Eu; [contradiction|].
  assert (Hf : In f froms) by (apply Hincl; left; reflexivity).
  assert (Hfa : In f (all_froms r)) by (unfold all_froms; rewrite Eu; left; reflexivity).
  assert (Hin : In (k, r) (get_records s to froms)).
  { rewrite <- Hto. apply (get_records_complete _ _ _ _ _ Hw Hi Hg Hfa Hf). }
  destruct (get_records_spec s to froms Hinj) as [Hnd Hrs].
  destruct (accept_fold_total h to froms Hth _ s [] Hnd Hw Hn Hc Hrs) as (s1 & rel1 & Ef).
  assert (Hacc : exists s' rel, accept h s to froms perm = Some (s', rel)).
  { unfold accept. destruct froms as [|f0 fr] eqn:Efr; [destruct Hf|]. eexists. eexists.
    match goal with |- match ?X with _ => _ end = _ => replace X with (Some (s1, rel1)) by (symmetry; exact Ef) end.
    reflexivity. }
  destruct Hacc as (s' & rel & Hacc). exists s', rel. split; [exact Hacc|].
  destruct (accept_sharp h _ _ _ _ _ _ Hw Hinj Hacc) as (_ & _ & _ & _ & _ & Hk & Hrel).
  assert (Hne : q_unacc r <> []) by (rewrite Eu; discriminate).
  assert (Hincl' : incl (q_unacc r) froms) by (rewrite Eu; exact Hincl).
  destruct (acc_res_all s to froms r Hne Hincl') as [Hres Hpaid].
  split; [rewrite (Hk k r Hin); exact Hres|].
  intros d. rewrite Hrel, <- Hpaid.
  apply (paid_sum_ge froms (s_recs s) _ k r d Hn); [|exact Hin].
  intros k' r' Hin'. apply (Hrs k' r' Hin').
Qed.

(** * Decline: a named sender is unaccepted afterwards *)
Lemma dec_res_spec froms r f :
  In f (all_froms r) -> In f froms ->
  In f (q_unacc (dec_res froms r)) /\ incl (q_unacc r) (q_unacc (dec_res froms r)) /\
  q_coins (dec_res froms r) = q_coins r /\ q_declined (dec_res froms r) = true.
Proof.
  intros Hf Hfr. unfold dec_res, decline_from.
  assert (Hback : In f (q_acc r) -> In f (filter (fun a => mem a froms) (q_acc r))).
  { intros H. apply filter_In. split; [exact H | apply mem_In, Hfr]. }
  unfold all_froms in Hf. apply in_app_or in Hf.
  destruct (filter (fun a => mem a froms) (q_acc r)) as [|b back] eqn:Eb; destruct (q_declined r) eqn:Ed; cbn [q_unacc q_coins q_declined].
  - destruct Hf as [Hf|Hf]; [|destruct (Hback Hf)]. split; [exact Hf|]. split; [apply incl_refl | split; [reflexivity | exact Ed]].
  - destruct Hf as [Hf|Hf]; [|destruct (Hback Hf)]. rewrite app_nil_r.
    split; [exact Hf|]. split; [apply incl_refl | split; reflexivity].
  - split; [apply in_or_app; destruct Hf as [Hf|Hf]; [left; exact Hf | right; apply Hback, Hf]|].
    split; [apply incl_appl, incl_refl | split; reflexivity].
  - split; [apply in_or_app; destruct Hf as [Hf|Hf]; [left; exact Hf | right; apply Hback, Hf]|].
    split; [apply incl_appl, incl_refl | split; reflexivity].
Qed.

Lemma dec_res_keeps froms r : incl (q_unacc r) (q_unacc (dec_res froms r)) /\ q_coins (dec_res froms r) = q_coins r.
Proof.
  unfold dec_res, decline_from.
  destruct (filter (fun a => mem a froms) (q_acc r)); destruct (q_declined r); cbn [q_unacc q_coins];
    split; try reflexivity; try apply incl_refl; apply incl_appl, incl_refl.
Qed.

Lemma decline_revokes s to froms perm k r f :
  good s -> inj_named froms -> rget k (s_recs s) = Some r -> fst k = to -> In f (all_froms r) -> In f froms ->
  exists s', decline s to froms perm = Some s' /\
  (forall a d, s_bal s' a d = s_bal s a d) /\
  exists r', rget k (s_recs s') = Some r' /\ In f (q_unacc r') /\ incl (q_unacc r) (q_unacc r') /\
             q_coins r' = q_coins r /\ q_declined r' = true.
Proof.
  intros (Hw & Hi & Hn) Hinj Hg Hto Hf Hfr.
  assert (Hne : froms <> []) by (intros ->; destruct Hfr).
  destruct (decline_sharp s to froms perm Hw Hinj Hne) as (s' & Hd & _ & Hb & _ & _ & _ & _ & Hk).
  exists s'. split; [exact Hd|]. split; [intros a d; rewrite Hb; reflexivity|].
  assert (Hin : In (k, r) (get_records s to froms)).
  { rewrite <- Hto. apply (get_records_complete _ _ _ _ _ Hw Hi Hg Hf Hfr). }
  exists (dec_res froms r). split; [apply (Hk k r Hin)|]. apply dec_res_spec; assumption.
Qed.

(** * An unaccepted sender blocks the payout, over histories *)
(* the operation is an Accept by [to] that names [f] *)
Definition accepts_sender (to f : addr) (o : op) : Prop :=
  match o with OAccept to' froms _ => to' = to /\ In f froms | _ => False end.

(* record [k] keeps [f] among its unaccepted senders and loses no coins *)
Definition keeps (k : rkey) (f : addr) (s s' : state) : Prop :=
  forall r, rget k (s_recs s) = Some r -> In f (q_unacc r) ->
  exists r', rget k (s_recs s') = Some r' /\ In f (q_unacc r') /\ forall d, amt (q_coins r) d <= amt (q_coins r') d.

Lemma keeps_refl k f s : keeps k f s s.
Proof. intros r Hg Hf. exists r. split; [exact Hg|]. split; [exact Hf|]. intros d. lia. Qed.

Lemma keeps_same_recs k f s s' : s_recs s' = s_recs s -> keeps k f s s'.
Proof. intros E r Hg Hf. exists r. rewrite E. split; [exact Hg|]. split; [exact Hf|]. intros d. lia. Qed.

Lemma keeps_trans k f s1 s2 s3 : keeps k f s1 s2 -> keeps k f s2 s3 -> keeps k f s1 s3.
Proof.
  intros H12 H23 r Hg Hf. destruct (H12 r Hg Hf) as (r2 & Hg2 & Hf2 & Hc2).
  destruct (H23 r2 Hg2 Hf2) as (r3 & Hg3 & Hf3 & Hc3). exists r3. split; [exact Hg3|]. split; [exact Hf3|].
  intros d. specialize (Hc2 d). specialize (Hc3 d). lia.
Qed.

Lemma add_quarantined_lists s c to froms s' :
  wf s -> add_quarantined s c to froms = Some s' ->
  forall k r, rget k (s_recs s) = Some r ->
  exists r', rget k (s_recs s') = Some r' /\ q_unacc r' = q_unacc r /\ q_acc r' = q_acc r.
Proof.
  intros Hw. unfold add_quarantined. destruct froms as [|f0 fr] eqn:Ef; [discriminate|]. rewrite <- Ef.
  set (qr := match get_record s to froms with Some r => _ | None => _ end).
  destruct (fully_accepted qr) eqn:Efa; [discriminate|]. intros Hs.
  apply set_record_full in Hs. destruct Hs as (_ & _ & _ & Hr & _).
  change (fully_accepted (with_declined qr (is_auto_decline s to froms))) with (fully_accepted qr) in Hr.
  rewrite Efa in Hr.
  change (all_froms (with_declined qr (is_auto_decline s to froms))) with (all_froms qr) in Hr.
  assert (Hkey : mk_key to (all_froms qr) = mk_key to froms /\
                 forall r0, rget (mk_key to froms) (s_recs s) = Some r0 -> q_unacc qr = q_unacc r0 /\ q_acc qr = q_acc r0).
  { unfold qr, get_record. destruct (rget (mk_key to froms) (s_recs s)) as [r0|] eqn:Eg.
    - split.
      + apply (key_of_record s (mk_key to froms) r0 _ to Hw Eg eq_refl). reflexivity.
      + intros r1 [= <-]. split; reflexivity.
    - split; [|discriminate]. unfold mk_key. f_equal. apply perm_sfx_eq. unfold all_froms. cbn [q_unacc q_acc].
      eapply perm_trans; [apply Permutation_app_comm|].
      apply (partition_perm (fun f => is_auto_accept s to [f]) froms). }
  destruct Hkey as [Hk Hl]. rewrite Hk in Hr.
  intros k r Hg. rewrite Hr, rget_rset. destruct (rkey_eqb k (mk_key to froms)) eqn:Ek.
  - apply rkey_eqb_eq in Ek. subst k. eexists. split; [reflexivity|]. cbn [q_unacc q_acc with_declined]. apply Hl, Hg.
  - exists r. auto.
Qed.

Lemma credit_keeps s t s' k f :
  wf s -> nonneg_coins (x_coins t) -> credit h (Some s) t = Some s' -> keeps k f s s'.
Proof.
  intros Hw Hnn Hc r Hg Hf.
  assert (Hl : exists r', rget k (s_recs s') = Some r' /\ q_unacc r' = q_unacc r).
  { revert Hc. destruct t as [[from to] c]. unfold credit, restrict.
    destruct (marker_ok h s from c); cbn [negb]; [|discriminate].
    destruct (Pos.eqb from to || Pos.eqb from h); [intros [= <-]; exists r; auto|].
    destruct (negb (is_optin s to) || is_auto_accept s to [from]); [intros [= <-]; exists r; auto|].
    destruct (add_quarantined s c to [from]) as [s2|] eqn:Ea; [|discriminate]. intros [= <-].
    destruct (add_quarantined_lists _ _ _ _ _ Hw Ea k r Hg) as (r' & A & B & _). exists r'. auto. }
  destruct Hl as (r' & Hg' & Hu'). exists r'. split; [exact Hg'|]. split; [rewrite Hu'; exact Hf|].
  destruct (one_credit h _ _ _ Hw Hc) as (_ & _ & _ & Ho & _). intros d. specialize (Ho k d).
  unfold old in Ho. rewrite Hg, Hg' in Ho. rewrite Ho. specialize (Hnn d).
  destruct (is_quarantined h s (x_from t) (x_to t) && rkey_eqb k (rec_key t)); lia.
Qed.

Lemma credits_keep ts k f : forall s s',
  wf s -> Forall (fun t => nonneg_coins (x_coins t)) ts ->
  fold_left (credit h) ts (Some s) = Some s' -> keeps k f s s'.
Proof.
  induction ts as [|t ts IH]; intros s s' Hw Hnn; cbn [fold_left].
  - intros [= <-]. apply keeps_refl.
  - destruct (credit h (Some s) t) as [s1|] eqn:E1; [|rewrite fold_credit_none; discriminate]. intros Hf.
    inversion Hnn as [|? ? Hn1 Hn2]; subst.
    destruct (one_credit h _ _ _ Hw E1) as (Hw1 & _).
    eapply keeps_trans; [apply (credit_keeps _ _ _ _ _ Hw Hn1 E1) | apply (IH _ _ Hw1 Hn2 Hf)].
Qed.

Lemma step_none s o s' : step h s o = (s', None) -> s' = s.
Proof.
  destruct o as [a|a|from to c|from inc outs|ins to|to froms perm|to froms perm|to ups]; cbn [step]; unfold lift;
    try discriminate.
  - destruct (send h s from to c); [discriminate | intros [= <-]; reflexivity].
  - destruct (multi_send h s from inc outs); [discriminate | intros [= <-]; reflexivity].
  - destruct (multi_in h s ins to); [discriminate | intros [= <-]; reflexivity].
  - destruct (accept h s to froms perm) as [[? ?]|]; [discriminate | intros [= <-]; reflexivity].
  - destruct (decline s to froms perm); [discriminate | intros [= <-]; reflexivity].
  - destruct (update_auto s to ups); [discriminate | intros [= <-]; reflexivity].
Qed.

Lemma rkey_in_dec (k : rkey) (l : list rkey) : {In k l} + {~ In k l}.
Proof.
  apply in_dec. intros x y. destruct (rkey_eqb x y) eqn:E; [left; apply rkey_eqb_eq, E | right].
  intros ->. rewrite rkey_eqb_refl in E. discriminate.
Qed.

Lemma step_keeps s o s' res k f :
  good s -> named_ok o -> ~ accepts_sender (fst k) f o -> step h s o = (s', res) -> keeps k f s s'.
Proof.
  intros Hg Hno Hna Hst. destruct res as [rel|]; [|apply step_none in Hst; subst; apply keeps_refl].
  destruct Hg as (Hw & Hi & Hn).
  destruct o as [a|a|from to c|from inc outs|ins to|to froms perm|to froms perm|to ups]; cbn [step] in Hst.
  - injection Hst as <- _. apply keeps_same_recs. unfold opt_in. destruct (is_optin s a); reflexivity.
  - injection Hst as <- _. apply keeps_same_recs. reflexivity.
  - pose proof (transfer_nonneg h s (OSend from to c) _ _ Hst) as Hnn. cbn [transfers_of] in Hnn.
    unfold lift in Hst. destruct (send h s from to c) as [s1|] eqn:E; [|discriminate]. injection Hst as <- _.
    unfold send in E. destruct (coins_valid c); [|discriminate].
    destruct (debit (Some s) (from, c)) as [s0|] eqn:Ed; [|discriminate]. apply debit_spec in Ed. destruct Ed as [-> _].
    change (fold_left (credit h) [(from, to, c)] (Some (with_bal s (bal_sub (s_bal s) from c))) = Some s1) in E.
    apply (credits_keep _ k f _ _ (wf_with_bal s _ Hw) Hnn E).
  - pose proof (transfer_nonneg h s (OMulti from inc outs) _ _ Hst) as Hnn. cbn [transfers_of] in Hnn.
    unfold lift in Hst. destruct (multi_send h s from inc outs) as [s1|] eqn:E; [|discriminate]. injection Hst as <- _.
    unfold multi_send in E. destruct outs as [|o0 outs0] eqn:Eo; [discriminate|]. rewrite <- Eo in *.
    destruct (coins_valid inc && _ && _); [|discriminate].
    destruct (debit (Some s) (from, inc)) as [s0|] eqn:Ed; [|rewrite fold_credit_none in E; discriminate].
    apply debit_spec in Ed. destruct Ed as [-> _].
    apply (credits_keep _ k f _ _ (wf_with_bal s _ Hw) Hnn E).
  - pose proof (transfer_nonneg h s (OMultiIn ins to) _ _ Hst) as Hnn. cbn [transfers_of] in Hnn.
    unfold lift in Hst. destruct (multi_in h s ins to) as [s1|] eqn:E; [|discriminate]. injection Hst as <- _.
    unfold multi_in in E. destruct ins as [|i0 ins0] eqn:Ei; [discriminate|]. rewrite <- Ei in *.
    destruct (forallb _ ins); [|discriminate].
    destruct (fold_left debit ins (Some s)) as [s0|] eqn:Ed; [|rewrite fold_credit_none in E; discriminate].
    destruct (debits_spec _ _ _ Ed) as (Hr0 & _).
    assert (Hw0 : wf s0) by (unfold wf; rewrite Hr0; exact Hw).
    eapply keeps_trans; [apply keeps_same_recs, Hr0 | apply (credits_keep _ k f _ _ Hw0 Hnn E)].
  - destruct (accept h s to froms perm) as [[s1 rel1]|] eqn:E; [|discriminate]. injection Hst as <- _.
    destruct (accept_sharp h _ _ _ _ _ _ Hw Hno E) as (_ & _ & _ & _ & Hfr & Hk & _).
    pose proof (get_records_mem s to froms) as Hrs.
    intros r Hg Hf.
    destruct (rkey_in_dec k (map fst (get_records s to froms))) as [Hin|Hnin].
    + apply in_map_iff in Hin. destruct Hin as ([k' r'] & Ek & Hin). cbn [fst] in Ek. subst k'.
      destruct (Hrs k r' Hin) as [Hto Hg']. rewrite Hg in Hg'. injection Hg' as <-.
      rewrite (Hk k r Hin). unfold acc_res.
      assert (Hnf : ~ In f froms) by (intros Hff; apply Hna; cbn [accepts_sender]; split; [symmetry; exact Hto | exact Hff]).
      destruct (accept_from r froms) as [r1|] eqn:Eaf.
      * destruct (accept_from_spec _ _ _ Eaf) as (Hc1 & Hu1 & _).
        assert (Hf1 : In f (q_unacc r1)).
        { rewrite Hu1. apply filter_In. split; [exact Hf|]. destruct (mem f froms) eqn:Em; [|reflexivity].
          apply mem_In in Em. contradiction. }
        unfold fully_accepted. destruct (q_unacc r1) as [|u ul] eqn:Eu; [destruct Hf1|].
        eexists. split; [reflexivity|]. cbn [q_unacc q_coins with_declined]. rewrite Eu. split; [exact Hf1|].
        intros d. rewrite Hc1. lia.
      * exists r. split; [reflexivity|]. split; [exact Hf|]. intros d. lia.
    + exists r. rewrite (Hfr k Hnin). split; [exact Hg|]. split; [exact Hf|]. intros d. lia.
  - unfold lift in Hst. destruct froms as [|f0 fr] eqn:Ef; [cbn [decline] in Hst; discriminate|]. rewrite <- Ef in *.
    assert (Hne : froms <> []) by (rewrite Ef; discriminate).
    destruct (decline_sharp s to froms perm Hw Hno Hne) as (s1 & Hd & _ & _ & _ & _ & _ & Hfr & Hk).
    rewrite Hd in Hst. injection Hst as <- _.
    pose proof (get_records_mem s to froms) as Hrs.
    intros r Hg Hf.
    destruct (rkey_in_dec k (map fst (get_records s to froms))) as [Hin|Hnin].
    + apply in_map_iff in Hin. destruct Hin as ([k' r'] & Ek & Hin). cbn [fst] in Ek. subst k'.
      destruct (Hrs k r' Hin) as [_ Hg']. rewrite Hg in Hg'. injection Hg' as <-.
      exists (dec_res froms r). split; [apply (Hk k r Hin)|].
      destruct (dec_res_keeps froms r) as [Hinc Hco]. split; [apply Hinc, Hf|]. intros d. rewrite Hco. lia.
    + exists r. rewrite (Hfr k Hnin). split; [exact Hg|]. split; [exact Hf|]. intros d. lia.
  - unfold lift in Hst. destruct (update_auto s to ups) as [s1|] eqn:E; [|discriminate]. injection Hst as <- _.
    unfold update_auto in E. destruct ups as [|u0 ups0] eqn:Eu; [discriminate|]. rewrite <- Eu in *.
    destruct (forallb _ ups); [|discriminate]. injection E as <-.
    apply keeps_same_recs.
    apply (fold_set_auto_frame (fun u : addr * auto => fst u) (fun u => snd u) to ups s).
Qed.

Lemma run_keeps ops k f : forall s,
  good s -> Forall named_ok ops -> Forall (fun o => ~ accepts_sender (fst k) f o) ops -> keeps k f s (run h s ops).
Proof.
  induction ops as [|o ops IH]; intros s Hg Hno Hna; cbn [run fold_left]; [apply keeps_refl|].
  inversion Hna as [|? ? H1 H2]; subst. inversion Hno as [|? ? N1 N2]; subst.
  destruct (step h s o) as [s1 res] eqn:E. cbn [fst]. fold (run h s1 ops).
  destruct (step_good h _ _ _ _ Hg N1 E) as [Hg1 _].
  eapply keeps_trans; [apply (step_keeps _ _ _ _ _ _ Hg N1 H1 E) | apply (IH s1 Hg1 N2 H2)].
Qed.

End WithHolder.
