(** Proofs about Exchange/FeeQuote.v (C19): ratio fee quotes and the transaction fee meter. *)
From Coq Require Import ZArith NArith List Bool Lia ZifyBool.
From PV Require Import Exchange.Arith Proofs.ArithProofs Exchange.FeeQuote.
Import ListNotations.
Open Scope Z_scope.

(** * Ratio fee options *)

Definition ratio_ok (r : ratio) : Prop := 0 < r_p r /\ 0 <= r_f r.

(** [x] is the documented charge of ratio [r] for price amount [p]. *)
Definition is_charge (r : ratio) (p x : Z) : Prop :=
  r_p r * (x - 1) < p * r_f r <= r_p r * x /\ 0 <= x.

Lemma ratio_charge_spec r p :
  ratio_ok r -> 0 <= p -> exists x, ratio_charge r p = Some x /\ is_charge r p x.
Proof.
  intros [Hp Hf] H0. unfold ratio_charge.
  destruct (apply_loosely_ceiling (r_p r) (r_f r) p Hp Hf H0) as (x & b & -> & Hc & Hx & _).
  exists x. split; [reflexivity|]. split; assumption.
Qed.

Lemma is_charge_unique r p x y : ratio_ok r -> is_charge r p x -> is_charge r p y -> x = y.
Proof. intros [Hp _] [[A B] _] [[C D] _]. nia. Qed.

Lemma charges_spec l p :
  Forall ratio_ok l -> 0 <= p ->
  Forall2 (fun r e => fst e = r_fd r /\ is_charge r p (snd e)) l (charges l p).
Proof.
  intros Hl H0. induction l as [|r t IH]; cbn [charges]; [constructor|].
  inversion Hl as [|? ? Hr Ht]; subst.
  destruct (ratio_charge_spec r p Hr H0) as (x & -> & Hx).
  constructor; [split; [reflexivity|exact Hx]|apply IH; assumption].
Qed.

Lemma ratios_for_In rs pd r : In r (ratios_for rs pd) <-> In r rs /\ r_pd r = pd.
Proof.
  unfold ratios_for. rewrite filter_In. split; intros [A B]; split; try assumption.
  - apply N.eqb_eq; assumption.
  - apply N.eqb_eq; assumption.
Qed.

Lemma ratios_for_ok rs pd : Forall ratio_ok rs -> Forall ratio_ok (ratios_for rs pd).
Proof.
  rewrite !Forall_forall. intros H r Hr. apply H. apply ratios_for_In in Hr. tauto.
Qed.

(** The quote is exactly one option per stored ratio of the price's denom, each the ceiling of
    price * fee / ratio price in that ratio's fee denom, in store order; it fails exactly when the
    market has ratios but none for this denom. *)
Lemma buyer_options_spec rs pd p :
  Forall ratio_ok rs -> 0 <= p ->
  match buyer_options rs pd p with
  | Some l => Forall2 (fun r e => fst e = r_fd r /\ is_charge r p (snd e)) (ratios_for rs pd) l
  | None => rs <> [] /\ ratios_for rs pd = []
  end.
Proof.
  intros Hrs H0. unfold buyer_options.
  pose proof (charges_spec (ratios_for rs pd) p (ratios_for_ok rs pd Hrs) H0) as HF.
  destruct (ratios_for rs pd) as [|r t] eqn:E.
  - destruct rs; [constructor|]. split; [discriminate|reflexivity].
  - destruct (charges (r :: t) p) as [|e l] eqn:Ec.
    + inversion HF.
    + exact HF.
Qed.

Lemma buyer_options_none_iff rs pd p :
  Forall ratio_ok rs -> 0 <= p ->
  (buyer_options rs pd p = None <-> rs <> [] /\ forall r, In r rs -> r_pd r <> pd).
Proof.
  intros Hrs H0. pose proof (buyer_options_spec rs pd p Hrs H0) as S.
  split.
  - intros E. rewrite E in S. destruct S as [Hne Hnil]. split; [assumption|].
    intros r Hr Hpd. assert (In r (ratios_for rs pd)) as Hin by (apply ratios_for_In; tauto).
    rewrite Hnil in Hin. exact Hin.
  - intros [Hne Hall]. unfold buyer_options.
    assert (ratios_for rs pd = []) as ->.
    { destruct (ratios_for rs pd) as [|r t] eqn:E; [reflexivity|].
      assert (In r (ratios_for rs pd)) as Hin by (rewrite E; left; reflexivity).
      apply ratios_for_In in Hin. destruct Hin as [Hin Hpd]. exfalso. exact (Hall r Hin Hpd). }
    destruct rs; [contradiction|reflexivity].
Qed.

Lemma seller_ratio_fee_spec rs pd p :
  Forall ratio_ok rs -> 0 <= p ->
  match seller_ratio_fee rs pd p with
  | Some (Some x) => exists r, In r rs /\ r_pd r = pd /\ r_fd r = pd /\ is_charge r p x
  | Some None => rs = []
  | None => rs <> [] /\ forall r, In r rs -> ~ (r_pd r = pd /\ r_fd r = pd)
  end.
Proof.
  intros Hrs H0. unfold seller_ratio_fee.
  destruct (find _ rs) as [r|] eqn:F.
  - apply find_some in F. destruct F as [Hin Hb]. apply andb_true_iff in Hb. destruct Hb as [A B].
    apply N.eqb_eq in A. apply N.eqb_eq in B.
    rewrite Forall_forall in Hrs.
    destruct (ratio_charge_spec r p (Hrs r Hin) H0) as (x & -> & Hx).
    exists r. tauto.
  - destruct rs as [|r0 t]; [reflexivity|]. split; [discriminate|].
    intros r Hr [A B]. pose proof (find_none _ _ F r Hr) as Hn. cbn beta in Hn.
    rewrite A, B, N.eqb_refl in Hn. discriminate.
Qed.

(** * The fee meter *)

Lemma on_eqb_eq a b : on_eqb a b = true <-> a = b.
Proof.
  destruct a, b; cbn; try (split; [discriminate|discriminate]); try tauto.
  - rewrite N.eqb_eq. split; [intros ->; reflexivity|intros [=]; assumption].
Qed.

Lemma on_eqb_refl a : on_eqb a a = true.
Proof. apply on_eqb_eq. reflexivity. Qed.

Lemma mkey_eqb_snd k k' : mkey_eqb k k' = true -> snd k = snd k'.
Proof. unfold mkey_eqb. intros H. apply andb_true_iff in H. destruct H as [_ H]. apply on_eqb_eq. exact H. Qed.

Lemma meter_total_add m k v : meter_total (meter_add m k v) = meter_total m + v.
Proof.
  induction m as [|[k' v'] t IH]; cbn [meter_add meter_total fold_right snd]; [lia|].
  destruct (mkey_eqb k k'); cbn [meter_total fold_right snd]; [lia|].
  fold (meter_total (meter_add t k v)). fold (meter_total t). rewrite IH. lia.
Qed.

Lemma meter_for_add m k v r :
  meter_for (meter_add m k v) r = meter_for m r + (if on_eqb (snd k) r then v else 0).
Proof.
  induction m as [|[k' v'] t IH]; cbn [meter_add meter_for fold_right fst snd].
  - destruct (on_eqb (snd k) r); lia.
  - destruct (mkey_eqb k k') eqn:E; cbn [meter_for fold_right fst snd].
    + apply mkey_eqb_snd in E. rewrite <- E. destruct (on_eqb (snd k) r); lia.
    + fold (meter_for (meter_add t k v) r). fold (meter_for t r). rewrite IH.
      destruct (on_eqb (snd k') r); destruct (on_eqb (snd k) r); lia.
Qed.

(** One message: the meter grows by the fee, the recipient's entry by its floor share and the
    module's entry by the rest. *)
Lemma meter_msg_total m o : mop_ok o ->
  meter_total (meter_msg m o) = meter_total m + fees_total [o].
Proof.
  destruct o as [[[ty amt] bips] rcp]. intros Hb. cbn [mop_ok] in Hb.
  unfold meter_msg, fees_total, dist_increase. cbn [fold_right].
  destruct (amt <=? 0) eqn:Ea.
  - cbn [fst d_total dist_empty Z.eqb]. assert ((0 <? amt) = false) as -> by lia. lia.
  - assert ((0 <? amt) = true) as -> by lia.
    destruct rcp as [r|].
    + destruct (split_by_bips_spec amt bips ltac:(lia) Hb) as (rc & rest & -> & Hrc & Hsum & Hr0 & Hrest0).
      cbn [fst d_total d_module d_recips dist_empty recip_add].
      replace (0 + amt =? 0) with false by lia.
      destruct (rest =? 0) eqn:Er; cbn [fold_left fst snd].
      * replace (0 =? 0) with true by reflexivity. rewrite meter_total_add. lia.
      * replace (0 + rest =? 0) with false by lia. rewrite !meter_total_add. lia.
    + cbn [fst d_total d_module d_recips dist_empty fold_left].
      replace (0 + amt =? 0) with false by lia. rewrite meter_total_add. lia.
Qed.

Lemma meter_msg_for_recipient m o r : mop_ok o ->
  meter_for (meter_msg m o) (Some r) = meter_for m (Some r) + share_of o r.
Proof.
  destruct o as [[[ty amt] bips] rcp]. intros Hb. cbn [mop_ok] in Hb.
  unfold meter_msg, share_of, dist_increase.
  destruct (amt <=? 0) eqn:Ea.
  - cbn [fst d_total dist_empty]. cbn [Z.eqb]. assert ((0 <? amt) = false) as -> by lia.
    destruct rcp; [rewrite andb_false_r|]; lia.
  - assert ((0 <? amt) = true) as -> by lia.
    destruct rcp as [r'|].
    + rewrite andb_true_r. destruct (split_by_bips_spec amt bips ltac:(lia) Hb) as (rc & rest & -> & Hrc & Hsum & Hr0 & Hrest0).
      cbn [fst d_total d_module d_recips dist_empty recip_add].
      replace (0 + amt =? 0) with false by lia.
      destruct (rest =? 0) eqn:Er; cbn [fold_left fst snd].
      * replace (0 =? 0) with true by reflexivity. rewrite meter_for_add. cbn [snd on_eqb].
        rewrite (N.eqb_sym r' r). destruct (N.eqb r r'); lia.
      * replace (0 + rest =? 0) with false by lia. rewrite !meter_for_add. cbn [snd on_eqb].
        rewrite (N.eqb_sym r' r). destruct (N.eqb r r'); lia.
    + cbn [fst d_total d_module d_recips dist_empty fold_left].
      replace (0 + amt =? 0) with false by lia. rewrite meter_for_add. cbn [snd on_eqb]. lia.
Qed.

Lemma meter_msg_for_module m o : mop_ok o ->
  meter_for (meter_msg m o) None = meter_for m None + module_part_of o.
Proof.
  destruct o as [[[ty amt] bips] rcp]. intros Hb. cbn [mop_ok] in Hb.
  unfold meter_msg, module_part_of, dist_increase.
  destruct (amt <=? 0) eqn:Ea.
  - cbn [fst d_total dist_empty]. cbn [Z.eqb]. assert ((0 <? amt) = false) as -> by lia. lia.
  - assert ((0 <? amt) = true) as -> by lia.
    destruct rcp as [r'|].
    + destruct (split_by_bips_spec amt bips ltac:(lia) Hb) as (rc & rest & -> & Hrc & Hsum & Hr0 & Hrest0).
      cbn [fst d_total d_module d_recips dist_empty recip_add].
      replace (0 + amt =? 0) with false by lia.
      destruct (rest =? 0) eqn:Er; cbn [fold_left fst snd].
      * replace (0 =? 0) with true by reflexivity. rewrite meter_for_add. cbn [snd on_eqb]. lia.
      * replace (0 + rest =? 0) with false by lia. rewrite !meter_for_add. cbn [snd on_eqb]. lia.
    + cbn [fst d_total d_module d_recips dist_empty fold_left].
      replace (0 + amt =? 0) with false by lia. rewrite meter_for_add. cbn [snd on_eqb]. lia.
Qed.

Lemma fees_total_cons o ops : fees_total (o :: ops) = fees_total [o] + fees_total ops.
Proof. unfold fees_total. cbn [fold_right]. destruct o as [[[? amt] ?] ?]. lia. Qed.

Lemma meter_fold_total ops : forall m, Forall mop_ok ops ->
  meter_total (fold_left meter_msg ops m) = meter_total m + fees_total ops.
Proof.
  induction ops as [|o ops IH]; intros m Hf; cbn [fold_left].
  - unfold fees_total; cbn; lia.
  - inversion Hf as [|? ? Ho Hr]; subst. rewrite IH by assumption.
    rewrite meter_msg_total by assumption. rewrite (fees_total_cons o ops). lia.
Qed.

Lemma meter_fold_recipient ops r : forall m, Forall mop_ok ops ->
  meter_for (fold_left meter_msg ops m) (Some r) = meter_for m (Some r) + shares ops r.
Proof.
  induction ops as [|o ops IH]; intros m Hf; cbn [fold_left].
  - unfold shares; cbn; lia.
  - inversion Hf as [|? ? Ho Hr]; subst. rewrite IH by assumption.
    rewrite meter_msg_for_recipient by assumption. unfold shares. cbn [fold_right]. lia.
Qed.

Lemma meter_fold_module ops : forall m, Forall mop_ok ops ->
  meter_for (fold_left meter_msg ops m) None = meter_for m None + module_parts ops.
Proof.
  induction ops as [|o ops IH]; intros m Hf; cbn [fold_left].
  - unfold module_parts; cbn; lia.
  - inversion Hf as [|? ? Ho Hr]; subst. rewrite IH by assumption.
    rewrite meter_msg_for_module by assumption. unfold module_parts. cbn [fold_right]. lia.
Qed.

(** The three readings of the meter after any transaction. *)
Lemma meter_run_spec ops : Forall mop_ok ops ->
  meter_total (meter_run ops) = fees_total ops /\
  meter_for (meter_run ops) None = module_parts ops /\
  forall r, meter_for (meter_run ops) (Some r) = shares ops r.
Proof.
  intros Hf. unfold meter_run. repeat split.
  - rewrite meter_fold_total by assumption. cbn. lia.
  - rewrite meter_fold_module by assumption. cbn. lia.
  - intros r. rewrite meter_fold_recipient by assumption. cbn. lia.
Qed.

(** The parts add up: for any duplicate-free list of recipients that contains every recipient
    named in the transaction, total = module part + the recipients' parts. *)
Definition names (o : mop) : option N := let '(_, _, _, rcp) := o in rcp.

Lemma share_other o r : names o <> Some r -> share_of o r = 0.
Proof.
  destruct o as [[[ty amt] bips] rcp]. cbn [names share_of]. intros H.
  destruct rcp as [r'|]; [|reflexivity].
  destruct (N.eqb_spec r r') as [->|]; [contradiction H; reflexivity|reflexivity].
Qed.

Lemma sum_zero (g : N -> Z) R : (forall r, In r R -> g r = 0) -> fold_right (fun r acc => g r + acc) 0 R = 0.
Proof.
  induction R as [|a R IH]; intros H; [reflexivity|]. cbn [fold_right].
  rewrite IH by (intros r Hr; apply H; right; exact Hr). rewrite (H a) by (left; reflexivity). reflexivity.
Qed.

Lemma sum_single (g : N -> Z) r' R : (forall r, r <> r' -> g r = 0) -> NoDup R -> In r' R ->
  fold_right (fun r acc => g r + acc) 0 R = g r'.
Proof.
  intros Hz. induction R as [|a R IH]; intros Hnd Hin; [contradiction|]. cbn [fold_right].
  inversion Hnd as [|? ? Hna HndR]; subst. destruct Hin as [->|Hin].
  - rewrite sum_zero; [lia|]. intros r Hr. apply Hz. intros ->. exact (Hna Hr).
  - rewrite IH by assumption. rewrite (Hz a); [lia|]. intros ->. exact (Hna Hin).
Qed.

Lemma sum_shares_one o R : NoDup R -> (forall r, names o = Some r -> In r R) -> 0 <= (let '(_, _, bips, _) := o in bips) <= 10000 ->
  fold_right (fun r acc => share_of o r + acc) 0 R + module_part_of o = fees_total [o].
Proof.
  intros Hnd Hin Hb.
  destruct (names o) as [r'|] eqn:En.
  - rewrite (sum_single (share_of o) r' R); [| |assumption|apply Hin; reflexivity].
    + destruct o as [[[ty amt] bips] rcp]. cbn [names] in En. subst rcp.
      unfold fees_total, module_part_of. cbn [fold_right share_of]. rewrite N.eqb_refl. cbn [andb].
      destruct (0 <? amt); lia.
    + intros r Hr. apply share_other. rewrite En. intros [=]. congruence.
  - rewrite sum_zero.
    + destruct o as [[[ty amt] bips] rcp]. cbn [names] in En. subst rcp.
      unfold fees_total, module_part_of. cbn [fold_right]. destruct (0 <? amt); lia.
    + intros r _. apply share_other. rewrite En. discriminate.
Qed.

Lemma sum_shares_all ops R : NoDup R -> Forall mop_ok ops ->
  (forall o r, In o ops -> names o = Some r -> In r R) ->
  fold_right (fun r acc => shares ops r + acc) 0 R + module_parts ops = fees_total ops.
Proof.
  intros Hnd Hf Hin. induction ops as [|o ops IH].
  - unfold shares, module_parts, fees_total. cbn [fold_right].
    rewrite (sum_zero (fun _ => 0) R (fun _ _ => eq_refl)). lia.
  - inversion Hf as [|? ? Ho Hr]; subst.
    assert (fold_right (fun r acc => shares (o :: ops) r + acc) 0 R
            = fold_right (fun r acc => share_of o r + acc) 0 R + fold_right (fun r acc => shares ops r + acc) 0 R) as ->.
    { clear. induction R as [|a R IHR]; [reflexivity|]. cbn [fold_right]. rewrite IHR.
      unfold shares at 1. cbn [fold_right]. fold (shares ops a). lia. }
    rewrite (fees_total_cons o ops). unfold module_parts. cbn [fold_right]. fold (module_parts ops).
    pose proof (sum_shares_one o R Hnd (fun r H => Hin o r (or_introl eq_refl) H)) as S.
    assert (0 <= (let '(_, _, bips, _) := o in bips) <= 10000) as Hb.
    { destruct o as [[[? ?] ?] ?]. exact Ho. }
    specialize (S Hb).
    specialize (IH Hr (fun o' r H1 H2 => Hin o' r (or_intror H1) H2)). lia.
Qed.

Lemma meter_parts_add_up ops R : NoDup R -> Forall mop_ok ops ->
  (forall o r, In o ops -> names o = Some r -> In r R) ->
  meter_total (meter_run ops)
  = meter_for (meter_run ops) None + fold_right (fun r acc => meter_for (meter_run ops) (Some r) + acc) 0 R.
Proof.
  intros Hnd Hf Hin. destruct (meter_run_spec ops Hf) as (Ht & Hm & Hr).
  rewrite Ht, Hm.
  assert (fold_right (fun r acc => meter_for (meter_run ops) (Some r) + acc) 0 R
          = fold_right (fun r acc => shares ops r + acc) 0 R) as ->.
  { clear -Hr. induction R as [|a R IH]; [reflexivity|]. cbn [fold_right]. rewrite IH, Hr. reflexivity. }
  pose proof (sum_shares_all ops R Hnd Hf Hin). lia.
Qed.

Lemma shares_nonneg ops r : Forall mop_ok ops -> 0 <= shares ops r.
Proof.
  intros Hf. induction ops as [|o ops IH]; [unfold shares; cbn; lia|].
  inversion Hf as [|? ? Ho Hr]; subst. unfold shares. cbn [fold_right]. fold (shares ops r).
  specialize (IH Hr). destruct o as [[[ty amt] bips] rcp]. cbn [mop_ok] in Ho. cbn [share_of].
  destruct rcp as [r'|]; [|lia].
  destruct (N.eqb r r' && (0 <? amt)) eqn:E; [|lia].
  apply andb_true_iff in E. destruct E as [_ E]. assert (0 <= amt * bips / 10000) by (apply Z.div_pos; nia). lia.
Qed.

(** * The exchange's share of a multi-denom fee *)

Lemma exchange_split_coins_In dflt tbl coins d x :
  In (d, x) (exchange_split_coins dflt tbl coins) <->
  exists a, In (d, a) coins /\ a <> 0 /\ split_for dflt tbl d <> 0 /\ x = exchange_split a (split_for dflt tbl d).
Proof.
  induction coins as [|[d' a'] t IH]; cbn [exchange_split_coins].
  - split; [intros []|intros (a & [] & _)].
  - destruct ((a' =? 0) || (split_for dflt tbl d' =? 0)) eqn:E.
    + rewrite IH. split.
      * intros (a & Hin & H). exists a. split; [right; exact Hin|exact H].
      * intros (a & [Heq|Hin] & Ha & Hs & Hx).
        -- inversion Heq; subst. apply orb_true_iff in E. destruct E as [E|E]; apply Z.eqb_eq in E; contradiction.
        -- exists a. tauto.
    + apply orb_false_iff in E. destruct E as [Ea Es]. apply Z.eqb_neq in Ea. apply Z.eqb_neq in Es.
      cbn [In]. rewrite IH. split.
      * intros [Heq|(a & Hin & H)].
        -- inversion Heq; subst. exists a'. split; [left; reflexivity|]. tauto.
        -- exists a. split; [right; exact Hin|exact H].
      * intros (a & [Heq|Hin] & Ha & Hs & Hx).
        -- inversion Heq; subst. left. reflexivity.
        -- right. exists a. tauto.
Qed.

(** Every entry of the share is the documented ceiling of its own coin and never more than it. *)
Lemma exchange_split_coins_sound dflt tbl coins d x :
  0 <= dflt <= 10000 -> Forall (fun e => 0 <= snd e <= 10000) tbl -> Forall (fun c => 0 <= snd c) coins ->
  In (d, x) (exchange_split_coins dflt tbl coins) ->
  exists a, In (d, a) coins /\
    10000 * (x - 1) < a * split_for dflt tbl d <= 10000 * x /\ 0 < x <= a.
Proof.
  intros Hd Ht Hc Hin. apply exchange_split_coins_In in Hin. destruct Hin as (a & Hin & Ha & Hs & ->).
  exists a. split; [exact Hin|].
  assert (0 <= split_for dflt tbl d <= 10000) as Hsp.
  { unfold split_for. destruct (find _ tbl) as [[d0 s]|] eqn:F; [|exact Hd].
    apply find_some in F. destruct F as [F _]. rewrite Forall_forall in Ht. exact (Ht _ F). }
  rewrite Forall_forall in Hc. pose proof (Hc _ Hin) as Ha0. cbn [snd] in Ha0.
  pose proof (exchange_split_ceiling a (split_for dflt tbl d) Ha0 Hsp) as H. cbv zeta in H.
  destruct H as [Hceil Hle]. split; [exact Hceil|]. split; [nia|lia].
Qed.
