(** Liveness / fairness of the trigger queue (property C17), self-contained:
      1. nothing but dispatch and detection touches the queue;
      2. every gas limit in the registry and in the queue is <= MaximumTriggerGas, always;
      3. a begin blocker dispatches EXACTLY the longest prefix of at most [fuel] queue entries whose gas
         limits fit into MaximumQueueGas ([L_take], [L_take_spec]) and leaves the rest, in order;
      4. the head is always dispatched, hence the entry at queue position p is dispatched within p+1
         blocks, whatever the blocks contain ([no_starvation]); with small limits, m entries per block
         ([no_starvation_fast]);
      5. a computed carry-over example. *)
From Coq Require Import ZArith NArith List Bool Lia.
From PV Require Import Trigger.Trigger.
Import ListNotations.
Open Scope N_scope.

(* ------------------------------------------------------------------------------------------------ *)
(** * 0. List helpers *)

Lemma L_nth_firstn {A} : forall (l : list A) k p, (p < k)%nat -> nth_error (firstn k l) p = nth_error l p.
Proof.
  induction l as [|x l IH]; intros k p Hp.
  - rewrite firstn_nil. reflexivity.
  - destruct k as [|k]; [lia|]. rewrite firstn_cons. destruct p as [|p]; [reflexivity|].
    cbn [nth_error]. apply IH. lia.
Qed.

Lemma L_nth_skipn {A} : forall k (l : list A) p, nth_error (skipn k l) p = nth_error l (k + p).
Proof.
  induction k as [|k IH]; intros l p.
  - reflexivity.
  - destruct l as [|x l].
    + cbn [skipn Nat.add nth_error]. destruct p; reflexivity.
    + cbn [skipn Nat.add nth_error]. apply IH.
Qed.

(* ------------------------------------------------------------------------------------------------ *)
(** * 1. The queue is only touched by dispatch (head) and detection (tail) *)

Lemma L_eff0_queue s a : queue (eff0 s a) = queue s.
Proof. destruct a; reflexivity. Qed.

Lemma L_exec0_queue t s a s' : exec0 t s a = Some s' -> queue s' = queue s.
Proof.
  unfold exec0. destruct (pre0 t s a); intros H; inversion H. apply L_eff0_queue.
Qed.

Lemma L_register_queue s owner auths root ev acts lim pp :
  queue (register s owner auths root ev acts lim pp) = queue s.
Proof. reflexivity. Qed.

(** what one action can do to the state *)
Lemma L_exec_action_inv h t root plim nl s a s' :
  exec_action h t root plim nl s a = Some s' ->
  (exists b, exec0 t s b = Some s') \/
  (exists owner au ev acts lim, s' = register s owner au root ev acts lim plim /\ lim + SetGasLimitCost <= plim).
Proof.
  destruct a as [b|au ev acts]; cbn [exec_action].
  - intros H. left. exists b. exact H.
  - destruct nl as [lim|]; [|discriminate]. destruct au as [|owner au']; [discriminate|].
    destruct (validate_basic0 (owner :: au') ev acts && event_valid_ctx h t ev) ; cbn [andb]; [|discriminate].
    destruct (lim + SetGasLimitCost <=? plim) eqn:EL; [|discriminate].
    intros H. inversion H. right. exists owner, (owner :: au'), ev, (map ABasic acts), lim.
    split; [reflexivity|]. apply N.leb_le. exact EL.
Qed.

Lemma L_exec_action_queue h t root plim nl s a s' :
  exec_action h t root plim nl s a = Some s' -> queue s' = queue s.
Proof.
  intros H. apply L_exec_action_inv in H. destruct H as [[b Hb]|[owner [au [ev [acts [lim [Hs _]]]]]]].
  - eapply L_exec0_queue. exact Hb.
  - subst s'. reflexivity.
Qed.

Lemma L_exec_all_cons h t root plim nl s a r s' :
  exec_all h t root plim nl s (a :: r) = Some s' ->
  exists s1, exec_action h t root plim nl s a = Some s1 /\ exec_all h t root plim nl s1 r = Some s'.
Proof.
  cbn [exec_all]. destruct (exec_action h t root plim nl s a) as [s1|]; [|discriminate].
  intros H. exists s1. split; [reflexivity|].
  destruct a as [b|au ev acts]; [exact H|]. destruct r as [|a2 r]; [exact H|discriminate].
Qed.

Theorem exec_all_queue h t root plim nl : forall acts s s',
  exec_all h t root plim nl s acts = Some s' -> queue s' = queue s.
Proof.
  induction acts as [|a r IH]; intros s s' H.
  - cbn [exec_all] in H. inversion H. reflexivity.
  - apply L_exec_all_cons in H. destruct H as [s1 [H1 H2]].
    rewrite (IH _ _ H2). eapply L_exec_action_queue. exact H1.
Qed.

Theorem run_actions_queue h t s e oracle nest s' ok :
  run_actions h t s e oracle nest = (s', ok) -> queue s' = queue s.
Proof.
  unfold run_actions.
  destruct (snd e <? gas_lo * N.of_nat (length (t_actions (fst e)))); [intros H; inversion H; reflexivity|].
  destruct (mem (eid e) oracle); [intros H; inversion H; reflexivity|].
  destruct (exec_all h t (t_root (fst e)) (snd e) (lookupN (eid e) nest) s (t_actions (fst e))) as [s1|] eqn:EA;
    intros H; inversion H; subst.
  - eapply exec_all_queue. exact EA.
  - reflexivity.
Qed.

(** what one transaction can do to the state *)
Lemma L_apply_tx_inv h t s x s' ok :
  apply_tx h t s x = (s', ok) ->
  s' = s \/ (exists b, exec0 t s b = Some s') \/
  (exists owner au root ev acts lim pp, s' = register s owner au root ev acts lim pp /\ lim <= MaximumTriggerGas).
Proof.
  destruct x as [signers auths ev acts txgas used|who id|from to amt]; cbn [apply_tx].
  - destruct (negb (validate_basic auths ev acts)); [intros H; inversion H; auto|].
    destruct (negb (addrs_eqb signers auths)); [intros H; inversion H; auto|].
    destruct auths as [|owner au']; [intros H; inversion H; auto|].
    destruct (negb (event_valid_ctx h t ev)); [intros H; inversion H; auto|].
    destruct (txgas <? used); [intros H; inversion H; auto|].
    destruct (txgas - used <? SetGasLimitCost); [intros H; inversion H; auto|].
    intros H; inversion H. right; right.
    exists owner, (owner :: au'), (owner :: au'), ev, acts,
           (N.min (txgas - used - SetGasLimitCost) MaximumTriggerGas), txgas.
    split; [reflexivity|]. apply N.le_min_r.
  - destruct (exec0 t s (ADestroy who id)) as [s1|] eqn:E; intros H; inversion H; subst; auto.
    right; left. exists (ADestroy who id). exact E.
  - destruct (exec0 t s (ASend from to amt)) as [s1|] eqn:E; intros H; inversion H; subst; auto.
    right; left. exists (ASend from to amt). exact E.
Qed.

Lemma L_apply_tx_queue h t s x s' ok : apply_tx h t s x = (s', ok) -> queue s' = queue s.
Proof.
  intros H. apply L_apply_tx_inv in H.
  destruct H as [H|[[b Hb]|[owner [au [root [ev [acts [lim [pp [Hs _]]]]]]]]]].
  - subst; reflexivity.
  - eapply L_exec0_queue. exact Hb.
  - subst; reflexivity.
Qed.

Lemma L_apply_txs_cons h t s x r s' oks :
  apply_txs h t s (x :: r) = (s', oks) ->
  exists s1 ok oks', apply_tx h t s x = (s1, ok) /\ apply_txs h t s1 r = (s', oks') /\ oks = ok :: oks'.
Proof.
  cbn [apply_txs]. destruct (apply_tx h t s x) as [s1 ok]. destruct (apply_txs h t s1 r) as [s2 oks'] eqn:E2.
  intros H; inversion H; subst. exists s1, ok, oks'. repeat split; [exact E2].
Qed.

Theorem apply_txs_queue h t : forall l s s' oks, apply_txs h t s l = (s', oks) -> queue s' = queue s.
Proof.
  induction l as [|x r IH]; intros s s' oks H.
  - cbn [apply_txs] in H. inversion H. reflexivity.
  - apply L_apply_txs_cons in H. destruct H as [s1 [ok [oks' [H1 [H2 _]]]]].
    rewrite (IH _ _ _ H2). eapply L_apply_tx_queue. exact H1.
Qed.

Theorem move_all_queue : forall d s, queue (move_all s d) = queue s ++ d.
Proof.
  unfold move_all. induction d as [|e d IH]; intros s.
  - cbn [fold_left]. rewrite app_nil_r. reflexivity.
  - cbn [fold_left]. rewrite IH. unfold move_one. cbn [queue set_queue]. rewrite <- app_assoc. reflexivity.
Qed.

(* ------------------------------------------------------------------------------------------------ *)
(** * 2. Gas-limit invariant *)

Definition L_lim_ok (s : state) : Prop :=
  forall e, In e (reg s) \/ In e (queue s) -> snd e <= MaximumTriggerGas.

Lemma L_lim_ok_init c b rb : L_lim_ok (init_cfg c b rb).
Proof. intros e [H|H]; destruct H. Qed.

Lemma L_lim_ok_sub s s' :
  L_lim_ok s -> (forall e, In e (reg s') -> In e (reg s)) -> (forall e, In e (queue s') -> In e (queue s)) ->
  L_lim_ok s'.
Proof. intros HL HR HQ e [H|H]; apply HL; [left; apply HR|right; apply HQ]; exact H. Qed.

Lemma L_remove_id_incl i l e : In e (remove_id i l) -> In e l.
Proof. unfold remove_id. intros H. apply filter_In in H. tauto. Qed.

Lemma L_lim_ok_eff0 s a : L_lim_ok s -> L_lim_ok (eff0 s a).
Proof.
  intros HL. apply (L_lim_ok_sub s); [exact HL| |rewrite L_eff0_queue; auto].
  destruct a; cbn [eff0 reg set_bank set_rbank set_names set_grants set_reg]; auto.
  intros e. apply L_remove_id_incl.
Qed.

Lemma L_lim_ok_exec0 t s a s' : L_lim_ok s -> exec0 t s a = Some s' -> L_lim_ok s'.
Proof.
  unfold exec0. intros HL. destruct (pre0 t s a); intros H; inversion H. apply L_lim_ok_eff0. exact HL.
Qed.

Lemma L_lim_ok_register s owner au root ev acts lim pp :
  L_lim_ok s -> lim <= MaximumTriggerGas -> L_lim_ok (register s owner au root ev acts lim pp).
Proof.
  intros HL Hlim e [H|H].
  - cbn [register reg] in H. apply in_app_or in H. destruct H as [H|[H|[]]].
    + apply HL. left. exact H.
    + subst e. exact Hlim.
  - apply HL. right. exact H.
Qed.

Lemma L_lim_ok_exec_action h t root plim nl s a s' :
  plim <= MaximumTriggerGas -> L_lim_ok s -> exec_action h t root plim nl s a = Some s' -> L_lim_ok s'.
Proof.
  intros HP HL H. apply L_exec_action_inv in H.
  destruct H as [[b Hb]|[owner [au [ev [acts [lim [Hs Hlim]]]]]]].
  - eapply L_lim_ok_exec0; eauto.
  - subst s'. apply L_lim_ok_register; [exact HL|]. unfold SetGasLimitCost in Hlim. lia.
Qed.

Lemma L_lim_ok_exec_all h t root plim nl : plim <= MaximumTriggerGas ->
  forall acts s s', L_lim_ok s -> exec_all h t root plim nl s acts = Some s' -> L_lim_ok s'.
Proof.
  intros HP. induction acts as [|a r IH]; intros s s' HL H.
  - cbn [exec_all] in H. inversion H. subst. exact HL.
  - apply L_exec_all_cons in H. destruct H as [s1 [H1 H2]].
    eapply IH; [|exact H2]. eapply L_lim_ok_exec_action; eauto.
Qed.

Lemma L_lim_ok_run_actions h t s e oracle nest s' ok :
  snd e <= MaximumTriggerGas -> L_lim_ok s -> run_actions h t s e oracle nest = (s', ok) -> L_lim_ok s'.
Proof.
  intros HE HL. unfold run_actions.
  destruct (snd e <? gas_lo * N.of_nat (length (t_actions (fst e)))); [intros H; inversion H; subst; exact HL|].
  destruct (mem (eid e) oracle); [intros H; inversion H; subst; exact HL|].
  destruct (exec_all h t (t_root (fst e)) (snd e) (lookupN (eid e) nest) s (t_actions (fst e))) as [s1|] eqn:EA;
    intros H; inversion H; subst.
  - eapply L_lim_ok_exec_all; eauto.
  - exact HL.
Qed.

(** inversion of one dispatch round *)
Lemma L_dispatch_S f h t gas s oracle nest s' d :
  dispatch (S f) h t gas s oracle nest = (s', d) ->
  (queue s = [] /\ s' = s /\ d = []) \/
  (exists e rest, queue s = e :: rest /\ (MaximumQueueGas <? snd e + gas) = true /\ s' = s /\ d = []) \/
  (exists e rest s1 ok l,
     queue s = e :: rest /\ (MaximumQueueGas <? snd e + gas) = false /\
     run_actions h t (set_queue s rest) e oracle nest = (s1, ok) /\
     dispatch f h t (gas + snd e) s1 oracle nest = (s', l) /\ d = (e, ok) :: l).
Proof.
  cbn [dispatch]. destruct (queue s) as [|e rest] eqn:EQ.
  - intros H; inversion H; auto.
  - destruct (MaximumQueueGas <? snd e + gas) eqn:EG.
    + intros H; inversion H. right; left. exists e, rest. repeat split; first [reflexivity|assumption].
    + destruct (run_actions h t (set_queue s rest) e oracle nest) as [s1 ok] eqn:ER.
      destruct (dispatch f h t (gas + snd e) s1 oracle nest) as [s2 l] eqn:ED.
      intros H; inversion H; subst. right; right. exists e, rest, s1, ok, l.
      repeat split; first [reflexivity|assumption].
Qed.

Lemma L_lim_ok_dispatch h t oracle nest : forall fuel gas s s' d,
  L_lim_ok s -> dispatch fuel h t gas s oracle nest = (s', d) -> L_lim_ok s'.
Proof.
  induction fuel as [|f IH]; intros gas s s' d HL H.
  - cbn [dispatch] in H. inversion H; subst. exact HL.
  - apply L_dispatch_S in H.
    destruct H as [[_ [Hs _]]|[[e [rest [_ [_ [Hs _]]]]]|[e [rest [s1 [ok [l [EQ [_ [ER [ED _]]]]]]]]]]].
    + subst; exact HL.
    + subst; exact HL.
    + eapply IH; [|exact ED]. eapply L_lim_ok_run_actions; [| |exact ER].
      * apply HL. right. rewrite EQ. left. reflexivity.
      * apply (L_lim_ok_sub s); [exact HL|auto|]. cbn [queue set_queue]. intros x Hx. rewrite EQ. right. exact Hx.
Qed.

Lemma L_lim_ok_apply_tx h t s x s' ok : L_lim_ok s -> apply_tx h t s x = (s', ok) -> L_lim_ok s'.
Proof.
  intros HL H. apply L_apply_tx_inv in H.
  destruct H as [H|[[b Hb]|[owner [au [root [ev [acts [lim [pp [Hs Hlim]]]]]]]]]].
  - subst; exact HL.
  - eapply L_lim_ok_exec0; eauto.
  - subst. apply L_lim_ok_register; assumption.
Qed.

Lemma L_lim_ok_apply_txs h t : forall l s s' oks, L_lim_ok s -> apply_txs h t s l = (s', oks) -> L_lim_ok s'.
Proof.
  induction l as [|x r IH]; intros s s' oks HL H.
  - cbn [apply_txs] in H. inversion H; subst. exact HL.
  - apply L_apply_txs_cons in H. destruct H as [s1 [ok [oks' [H1 [H2 _]]]]].
    eapply IH; [|exact H2]. eapply L_lim_ok_apply_tx; eauto.
Qed.

(** detection only returns registry entries *)
Lemma L_insert_by_in k x y : forall l, In x (insert_by k y l) -> x = y \/ In x l.
Proof.
  induction l as [|z l IH]; cbn [insert_by]; intros H.
  - destruct H as [H|[]]. left; auto.
  - destruct (key_le (k y) (k z)).
    + destruct H as [H|H]; [left; auto|right; exact H].
    + destruct H as [H|H]; [right; left; exact H|]. apply IH in H. destruct H; [left|right; right]; assumption.
Qed.

Lemma L_sort_by_in k x : forall l, In x (sort_by k l) -> In x l.
Proof.
  unfold sort_by. induction l as [|y l IH]; cbn [fold_right]; intros H.
  - exact H.
  - apply L_insert_by_in in H. destruct H as [H|H]; [left; auto|right; apply IH; exact H].
Qed.

Lemma L_listeners_in p r x : In x (listeners p r) -> In x r.
Proof. unfold listeners. intros H. apply L_sort_by_in in H. apply filter_In in H. tauto. Qed.

Lemma L_scan_in mt tm x : forall l, In x (scan mt tm l) -> In x l.
Proof.
  induction l as [|y l IH]; cbn [scan]; intros H.
  - exact H.
  - apply in_app_or in H. destruct H as [H|H].
    + destruct (mt y); [|destruct H]. destruct H as [H|[]]. left; exact H.
    + destruct (tm y); [destruct H|]. right. apply IH. exact H.
Qed.

Lemma L_detect_tx_in r x : forall evs seen, In x (detect_tx evs r seen) -> In x r.
Proof.
  induction evs as [|e rest IH]; cbn [detect_tx]; intros seen H.
  - destruct H.
  - apply in_app_or in H. destruct H as [H|H].
    + apply filter_In in H. destruct H as [H _]. apply filter_In in H. destruct H as [H _].
      eapply L_listeners_in. exact H.
    + eapply IH. exact H.
Qed.

Lemma L_detect_incl h t evs r x : In x (detect h t evs r) -> In x r.
Proof.
  unfold detect, detect_height, detect_time. intros H.
  apply in_app_or in H. destruct H as [H|H]; [eapply L_detect_tx_in; exact H|].
  apply in_app_or in H. destruct H as [H|H]; apply L_scan_in in H; eapply L_listeners_in; exact H.
Qed.

Lemma L_lim_ok_move_all : forall d s,
  L_lim_ok s -> (forall e, In e d -> snd e <= MaximumTriggerGas) -> L_lim_ok (move_all s d).
Proof.
  unfold move_all. induction d as [|x d IH]; intros s HL HD.
  - exact HL.
  - cbn [fold_left]. apply IH; [|intros e He; apply HD; right; exact He].
    intros e [H|H].
    + unfold move_one in H. cbn [reg set_queue set_reg] in H. apply L_remove_id_incl in H. apply HL. left; exact H.
    + unfold move_one in H. cbn [queue set_queue] in H. apply in_app_or in H. destruct H as [H|[H|[]]].
      * apply HL. right; exact H.
      * subst e. apply HD. left; reflexivity.
Qed.

(** the shape of a block *)
Lemma L_step_inv s b s' o :
  step s b = (s', o) ->
  exists s1 s2,
    dispatch MaximumActions (b_height b) (b_time b) 0 s (b_oracle b) (b_nest b) = (s1, o_disp o) /\
    apply_txs (b_height b) (b_time b) s1 (b_txs b) = (s2, o_txres o) /\
    o_det o = detect (b_height b) (b_time b) (b_events b) (reg s2) /\
    s' = move_all s2 (o_det o).
Proof.
  unfold step.
  destruct (dispatch MaximumActions (b_height b) (b_time b) 0 s (b_oracle b) (b_nest b)) as [s1 d].
  destruct (apply_txs (b_height b) (b_time b) s1 (b_txs b)) as [s2 r] eqn:ET.
  intros H; inversion H; subst. exists s1, s2. cbn [o_disp o_txres o_det].
  repeat split; first [reflexivity|assumption].
Qed.

Lemma L_lim_ok_step s b s' o : L_lim_ok s -> step s b = (s', o) -> L_lim_ok s'.
Proof.
  intros HL H. apply L_step_inv in H. destruct H as [s1 [s2 [HD [HT [HE Hs]]]]].
  assert (H2 : L_lim_ok s2).
  { eapply L_lim_ok_apply_txs; [|exact HT]. eapply L_lim_ok_dispatch; [|exact HD]. exact HL. }
  subst s'. apply L_lim_ok_move_all; [exact H2|].
  intros e He. rewrite HE in He. apply L_detect_incl in He. apply H2. left; exact He.
Qed.

Lemma L_run_cons s b r s' outs :
  run s (b :: r) = (s', outs) ->
  exists s1 o os, step s b = (s1, o) /\ run s1 r = (s', os) /\ outs = o :: os.
Proof.
  cbn [run]. destruct (step s b) as [s1 o]. destruct (run s1 r) as [s2 os] eqn:E2.
  intros H; inversion H; subst. exists s1, o, os. repeat split; [exact E2].
Qed.

Theorem L_lim_ok_run : forall bs s s' outs, L_lim_ok s -> run s bs = (s', outs) -> L_lim_ok s'.
Proof.
  induction bs as [|b r IH]; intros s s' outs HL H.
  - cbn [run] in H. inversion H; subst. exact HL.
  - apply L_run_cons in H. destruct H as [s1 [o [os [H1 [H2 _]]]]].
    eapply IH; [|exact H2]. eapply L_lim_ok_step; eauto.
Qed.

(* ------------------------------------------------------------------------------------------------ *)
(** * 3. Exactness of the per-block selection *)

Fixpoint L_take (fuel : nat) (gas : N) (l : list N) : nat :=
  match fuel, l with
  | S f, x :: r => if MaximumQueueGas <? x + gas then O else S (L_take f (gas + x) r)
  | _, _ => O
  end.

Fixpoint L_sum (l : list N) : N := match l with [] => 0 | x :: r => x + L_sum r end.

Theorem dispatch_prefix h t oracle nest : forall fuel gas s s' d,
  dispatch fuel h t gas s oracle nest = (s', d) ->
  map fst d = firstn (length d) (queue s) /\
  queue s' = skipn (length d) (queue s) /\
  length d = L_take fuel gas (map snd (queue s)).
Proof.
  induction fuel as [|f IH]; intros gas s s' d H.
  - cbn [dispatch] in H. inversion H; subst. cbn [map length firstn skipn L_take]. auto.
  - apply L_dispatch_S in H.
    destruct H as [[EQ [Hs Hd]]|[[e [rest [EQ [EG [Hs Hd]]]]]|[e [rest [s1 [ok [l [EQ [EG [ER [ED Hd]]]]]]]]]]].
    + subst. rewrite EQ. cbn [map length firstn skipn L_take]. auto.
    + subst. rewrite EQ. cbn [map length firstn skipn L_take]. rewrite EG. auto.
    + apply IH in ED. apply run_actions_queue in ER. cbn [queue set_queue] in ER. rewrite ER in ED.
      destruct ED as [D1 [D2 D3]]. subst d. rewrite EQ.
      cbn [map fst length firstn skipn L_take]. rewrite EG.
      repeat split; [f_equal; exact D1|exact D2|f_equal; exact D3].
Qed.

(** [L_take] picks the LONGEST prefix of at most [fuel] entries whose limits fit under the cap *)
Theorem L_take_spec : forall fuel gas l,
  let k := L_take fuel gas l in
  (k <= fuel)%nat /\ (k <= length l)%nat /\
  (gas <= MaximumQueueGas -> gas + L_sum (firstn k l) <= MaximumQueueGas) /\
  (k = fuel \/ k = length l \/ MaximumQueueGas < gas + L_sum (firstn (S k) l)).
Proof.
  induction fuel as [|f IH]; intros gas l; cbn zeta.
  - cbn [L_take firstn L_sum]. repeat split; [lia|lia|lia|left; reflexivity].
  - destruct l as [|x r].
    + cbn [L_take firstn L_sum length]. repeat split; [lia|lia|lia|right; left; reflexivity].
    + cbn [L_take]. destruct (MaximumQueueGas <? x + gas) eqn:EG.
      * apply N.ltb_lt in EG. cbn [firstn L_sum length]. repeat split; [lia|lia|lia|right; right; lia].
      * apply N.ltb_ge in EG. specialize (IH (gas + x) r). cbn zeta in IH.
        destruct IH as [I1 [I2 [I3 I4]]].
        rewrite !firstn_cons. cbn [L_sum length].
        repeat split; [lia|lia|intros _; lia|].
        destruct I4 as [I4|[I4|I4]]; [left; lia|right; left; lia|right; right; lia].
Qed.

(* ------------------------------------------------------------------------------------------------ *)
(** * 4. Progress and no starvation *)

Theorem dispatch_progress f h t s oracle nest s' d e rest :
  queue s = e :: rest -> snd e <= MaximumQueueGas ->
  dispatch (S f) h t 0 s oracle nest = (s', d) -> exists ok d', d = (e, ok) :: d'.
Proof.
  intros EQ HE H. apply L_dispatch_S in H.
  destruct H as [[EQ' _]|[[e' [rest' [EQ' [EG _]]]]|[e' [rest' [s1 [ok [l [EQ' [_ [_ [_ Hd]]]]]]]]]]].
  - rewrite EQ in EQ'. discriminate.
  - rewrite EQ in EQ'. inversion EQ'; subst. apply N.ltb_lt in EG. lia.
  - rewrite EQ in EQ'. inversion EQ'; subst. exists ok, l. reflexivity.
Qed.

Theorem step_queue_shape s b s' o :
  step s b = (s', o) ->
  queue s' = skipn (length (o_disp o)) (queue s) ++ o_det o /\
  map fst (o_disp o) = firstn (length (o_disp o)) (queue s).
Proof.
  intros H. apply L_step_inv in H. destruct H as [s1 [s2 [HD [HT [_ Hs]]]]].
  apply dispatch_prefix in HD. destruct HD as [D1 [D2 _]].
  apply apply_txs_queue in HT. subst s'. rewrite move_all_queue, HT, D2. auto.
Qed.

(** a block with a non-empty queue dispatches at least the head *)
Lemma L_step_progress s b s' o e rest :
  L_lim_ok s -> queue s = e :: rest -> step s b = (s', o) -> (1 <= length (o_disp o))%nat.
Proof.
  intros HL EQ H. apply L_step_inv in H. destruct H as [s1 [s2 [HD _]]].
  assert (HE : snd e <= MaximumQueueGas).
  { change MaximumQueueGas with MaximumTriggerGas. apply HL. right. rewrite EQ. left; reflexivity. }
  change MaximumActions with (S 4) in HD.
  destruct (dispatch_progress _ _ _ _ _ _ _ _ _ _ EQ HE HD) as [ok [d' Hd]].
  rewrite Hd. cbn [length]. lia.
Qed.

Definition L_disp_of (outs : list bout) : list entry := flat_map (fun o => map fst (o_disp o)) outs.

(** the common induction step: where the entry at position p is after one block *)
Lemma L_shift s b s1 o p e :
  step s b = (s1, o) -> nth_error (queue s) p = Some e ->
  ((p < length (o_disp o))%nat /\ In e (map fst (o_disp o))) \/
  ((length (o_disp o) <= p)%nat /\ nth_error (queue s1) (p - length (o_disp o)) = Some e /\
   forall i, (i <= p - length (o_disp o))%nat ->
             nth_error (queue s1) i = nth_error (queue s) (length (o_disp o) + i)).
Proof.
  intros ES HN. destruct (step_queue_shape _ _ _ _ ES) as [HQ HD].
  assert (HP : (p < length (queue s))%nat) by (apply nth_error_Some; rewrite HN; discriminate).
  destruct (Nat.ltb_spec p (length (o_disp o))) as [Hlt|Hge].
  - left. split; [exact Hlt|]. rewrite HD. apply nth_error_In with p. rewrite L_nth_firstn; assumption.
  - right. split; [exact Hge|].
    assert (HI : forall i, (i <= p - length (o_disp o))%nat ->
                 nth_error (queue s1) i = nth_error (queue s) (length (o_disp o) + i)).
    { intros i Hi. rewrite HQ. rewrite nth_error_app1; [apply L_nth_skipn|]. rewrite skipn_length. lia. }
    split; [|exact HI]. rewrite HI; [|lia]. rewrite <- HN. f_equal. lia.
Qed.

Theorem no_starvation : forall bs s s' outs p e,
  L_lim_ok s -> nth_error (queue s) p = Some e -> run s bs = (s', outs) -> (p < length bs)%nat ->
  In e (L_disp_of outs).
Proof.
  induction bs as [|b r IH]; intros s s' outs p e HL HN HR HP.
  - cbn [length] in HP. lia.
  - apply L_run_cons in HR. destruct HR as [s1 [o [os [ES [ER Ho]]]]]. subst outs.
    unfold L_disp_of. cbn [flat_map]. apply in_or_app.
    assert (HK : (1 <= length (o_disp o))%nat).
    { destruct (queue s) as [|e0 rest] eqn:EQ; [destruct p; discriminate|].
      eapply L_step_progress; eauto. }
    destruct (L_shift _ _ _ _ _ _ ES HN) as [[_ HI]|[Hge [HN' _]]].
    + left. exact HI.
    + right. apply (IH s1 s' os (p - length (o_disp o))%nat e).
      * eapply L_lim_ok_step; eauto.
      * exact HN'.
      * exact ER.
      * cbn [length] in HP. lia.
Qed.

(** ** the sharper bound: when the entry and everything in front of it have limits <= g and m such
       limits fit under the cap (m <= MaximumActions), every block dispatches m of them *)
Lemma L_take_ge g : forall m fuel gas l,
  (m <= fuel)%nat -> (m <= length l)%nat ->
  (forall i x, (i < m)%nat -> nth_error l i = Some x -> x <= g) ->
  gas + N.of_nat m * g <= MaximumQueueGas ->
  (m <= L_take fuel gas l)%nat.
Proof.
  induction m as [|m IH]; intros fuel gas l HF HLn HG HC.
  - lia.
  - destruct fuel as [|f]; [lia|]. destruct l as [|x r]; [cbn [length] in HLn; lia|].
    cbn [L_take]. assert (HX : x <= g) by (apply (HG O x); [lia|reflexivity]).
    rewrite Nat2N.inj_succ, N.mul_succ_l in HC.
    destruct (MaximumQueueGas <? x + gas) eqn:EG.
    + apply N.ltb_lt in EG. lia.
    + apply le_n_S. apply IH.
      * lia.
      * cbn [length] in HLn. lia.
      * intros i y Hi Hy. apply (HG (S i) y); [lia|exact Hy].
      * lia.
Qed.

Lemma L_nth_map_snd : forall (l : list entry) i x,
  nth_error (map snd l) i = Some x -> exists e, nth_error l i = Some e /\ snd e = x.
Proof.
  induction l as [|y l IH]; intros i x H.
  - destruct i; discriminate.
  - destruct i as [|i].
    + cbn [map nth_error] in H. inversion H. exists y. split; reflexivity.
    + cbn [map nth_error] in H. cbn [nth_error]. apply IH. exact H.
Qed.

Theorem no_starvation_fast : forall bs s s' outs p e (m : nat) g,
  (1 <= m <= MaximumActions)%nat -> N.of_nat m * g <= MaximumQueueGas ->
  (forall i x, (i <= p)%nat -> nth_error (queue s) i = Some x -> snd x <= g) ->
  nth_error (queue s) p = Some e -> run s bs = (s', outs) -> (p < m * length bs)%nat ->
  In e (L_disp_of outs).
Proof.
  induction bs as [|b r IH]; intros s s' outs p e m g Hm HC HG HN HR HP.
  - cbn [length] in HP. lia.
  - apply L_run_cons in HR. destruct HR as [s1 [o [os [ES [ER Ho]]]]]. subst outs.
    unfold L_disp_of. cbn [flat_map]. apply in_or_app.
    assert (HPl : (p < length (queue s))%nat) by (apply nth_error_Some; rewrite HN; discriminate).
    assert (HK : (Nat.min m (S p) <= length (o_disp o))%nat).
    { destruct (L_step_inv _ _ _ _ ES) as [s1' [s2' [HD _]]].
      apply dispatch_prefix in HD. destruct HD as [_ [_ HD]]. rewrite HD.
      apply (L_take_ge g).
      - apply Nat.le_trans with m; [apply Nat.le_min_l|apply Hm].
      - rewrite map_length. apply Nat.le_trans with (S p); [apply Nat.le_min_r|exact HPl].
      - intros i x Hi Hx. apply L_nth_map_snd in Hx. destruct Hx as [y [Hy Hs]]. subst x.
        apply (HG i y); [lia|exact Hy].
      - assert (N.of_nat (Nat.min m (S p)) <= N.of_nat m) by (pose proof (Nat.le_min_l m (S p)); lia).
        assert (N.of_nat (Nat.min m (S p)) * g <= N.of_nat m * g) by (apply N.mul_le_mono_r; assumption).
        lia. }
    destruct (L_shift _ _ _ _ _ _ ES HN) as [[_ HI]|[Hge [HN' HS]]].
    + left. exact HI.
    + right. apply (IH s1 s' os (p - length (o_disp o))%nat e m g); try assumption.
      * intros i x Hi Hx. rewrite HS in Hx by exact Hi. apply (HG _ x) in Hx; [exact Hx|lia].
      * cbn [length] in HP. nia.
Qed.

(* ------------------------------------------------------------------------------------------------ *)
(** * 5. A computed carry-over *)

Definition L_tr (i : N) : trigger :=
  {| t_id := i; t_owner := 1; t_event := EvHeight 1; t_actions := [ABasic (ASend 1 2 1%Z)];
     t_auths := [1]; t_root := [1]; t_prepaid := 0 |}.

Definition L_q0 : list entry :=
  [(L_tr 1, 900000); (L_tr 2, 900000); (L_tr 3, 900000);
   (L_tr 4, 100000); (L_tr 5, 100000); (L_tr 6, 100000); (L_tr 7, 100000)].

Definition L_s0 : state :=
  init_gen cfg0 (fun a => if a =? 1 then 1000%Z else 0%Z) (fun _ => 0%Z) [] L_q0 8.

Definition L_idle (h : N) (t : Z) : block :=
  {| b_height := h; b_time := t; b_oracle := []; b_nest := []; b_txs := []; b_events := [] |}.

Definition L_ids (o : bout) : list (N * bool) := map (fun p => (eid (fst p), snd p)) (o_disp o).

(** 0.9M + 0.9M fit, the third 0.9M does not: it waits; the next block takes it with the four 0.1M
    (five entries = MaximumActions, 1.3M); the third block has nothing left *)
Example L_carry_over :
  let r := run L_s0 [L_idle 10 100; L_idle 11 200; L_idle 12 300] in
  map L_ids (snd r) = [ [(1, true); (2, true)];
                        [(3, true); (4, true); (5, true); (6, true); (7, true)];
                        [] ] /\
  map eid (queue (fst r)) = [] /\
  bank (fst r) 2 = 7%Z /\
  L_take MaximumActions 0 (map snd L_q0) = 2%nat /\
  L_take MaximumActions 0 (skipn 2 (map snd L_q0)) = 5%nat.
Proof. vm_compute. repeat split; reflexivity. Qed.

Print Assumptions no_starvation.
Print Assumptions dispatch_prefix.
Print Assumptions L_take_spec.
Print Assumptions L_lim_ok_run.
Print Assumptions no_starvation_fast.
