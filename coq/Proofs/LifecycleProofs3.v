(** Proofs about [PV.Marker.Lifecycle] (property C05), third part: what the maximum supply does
    and does not bound (the parameter is read by IncreaseSupply only), with parameter changes
    (OSetParams) as steps of a history. *)
From Coq Require Import ZArith NArith List Bool Lia ZifyBool.
From PV Require Import Marker.Lifecycle Proofs.LifecycleProofs Proofs.LifecycleProofs2.
Import ListNotations.
Open Scope Z_scope.

#[local] Opaque get set total.

(** * The step that makes a marker active leaves bank supply = recorded supply (whatever MaxSupply is) *)
Lemma step_opt_activation s o s' m' :
  step_opt s o = Some s' -> not_active s -> mk s' = Some m' -> st m' = Active ->
  supply s' = msupply m'.
Proof.
  intros H Hna Hmk' Hst'. unfold not_active in Hna.
  destruct o; open_step H; subst; use_specs; simp_state; know_mk; simp_state;
    repeat match goal with
    | Hx : mk ?x = Some _ |- _ => rewrite Hx in Hna
    | Hx : Some _ = Some _ |- _ => injection Hx as Hx; subst
    end; simp_state;
    unfold status_eqb in *; cbn [rank] in *;
    try discriminate; try congruence;
    try (match goal with Hx : ?x = Active |- _ => is_var x; subst x; cbn [rank] in *; discriminate end);
    slim; try lia;
    try (exfalso; apply Hna; destruct (st _); cbn [rank] in *; try reflexivity; lia).
Qed.

(** * While a marker stays active the supply rises only by a mint that respects the maximum in force,
      or back to the recorded supply (governance re-activation, begin-block repair) *)
Lemma step_opt_active_raise s o s' m m' :
  step_opt s o = Some s' -> mk s = Some m -> st m = Active -> mk s' = Some m' -> st m' = Active ->
  (supply s' <= supply s \/
   (exists amt, mint_amount o = Some amt /\ supply s' = supply s + amt /\ supply s' <= maxsupply s) \/
   supply s' = msupply m) /\
  (msupply m' = msupply m \/ (fixed m' = true /\ msupply m' = supply s')).
Proof.
  intros H Hmk Hst Hmk' Hst'.
  destruct o; open_step H; subst; use_specs; simp_state; know_mk; simp_state;
    repeat match goal with
    | Hx : Some _ = Some _ |- _ => injection Hx as Hx; subst
    end; simp_state;
    unfold status_eqb in *; cbn [rank mint_amount] in *;
    try discriminate; try congruence;
    repeat match goal with
    | Hx : st ?m = Active, Hy : st ?m = _ |- _ => rewrite Hx in Hy; try discriminate Hy; clear Hy
    end;
    (split;
     [ first [ left; slim; lia
             | right; left; eexists; split; [reflexivity|]; slim; lia
             | right; right; slim; lia ]
     | first [ left; reflexivity | right; split; [assumption || reflexivity | slim; lia] | left; slim; lia ] ]).
Qed.

(** A bound that holds before the step, and is at least the maximum in force, holds after it. *)
Lemma step_opt_active_bound s o s' m m' B :
  step_opt s o = Some s' -> mk s = Some m -> st m = Active -> mk s' = Some m' -> st m' = Active ->
  supply s <= B -> msupply m <= B -> maxsupply s <= B ->
  supply s' <= B /\ msupply m' <= B.
Proof.
  intros H Hmk Hst Hmk' Hst' Hs Hm Hx.
  destruct (step_opt_active_raise s o s' m m' H Hmk Hst Hmk' Hst') as [Hr Hm'].
  assert (supply s' <= B) as Hs'.
  { destruct Hr as [Hr|[(amt & _ & _ & Hr)|Hr]]; lia. }
  split; [exact Hs'|]. destruct Hm' as [->|[_ ->]]; lia.
Qed.

(** * Over histories *)
Lemma max_param_ge s ops : maxsupply s <= max_param s ops.
Proof. destruct ops; cbn [max_param]; lia. Qed.

Lemma max_param_const ops : forall s,
  (forall o, In o ops -> match o with OSetParams _ _ _ _ => False | _ => True end) ->
  max_param s ops = maxsupply s.
Proof.
  induction ops as [|o ops IH]; intros s Hno; [reflexivity|]. cbn [max_param].
  rewrite IH by (intros o' Ho'; apply Hno; right; exact Ho').
  assert (maxsupply (fst (step s o)) = maxsupply s) as ->; [|lia].
  specialize (Hno o (or_introl eq_refl)).
  destruct (step_cases s o) as [(s2 & Ho & ->)|(_ & ->)]; cbn [fst]; [|reflexivity].
  destruct o; try contradiction; open_step Ho; subst; use_specs; simp_state;
    repeat match goal with Hx : _ /\ _ |- _ => destruct Hx end; simp_state; congruence.
Qed.

Lemma lifepos_split s : 0 <= lifepos s - 8 * Z.of_N (gen s) <= 5.
Proof. unfold lifepos. destruct (mk s) as [m|]; [pose proof (rank_bounds (st m))|]; lia. Qed.

(** A marker that is active at both ends of a stretch of history, in the same lifetime, is the
    same active marker after the first step of it. *)
Lemma active_throughout s o post m1 m2 :
  let s' := fst (step s o) in let s2 := run s' post in
  mk s = Some m1 -> st m1 = Active -> mk s2 = Some m2 -> st m2 = Active -> gen s = gen s2 ->
  exists m', mk s' = Some m' /\ st m' = Active /\ gen s' = gen s2.
Proof.
  intros s' s2 H1 Hs1 H2 Hs2 Hg.
  pose proof (step_lifepos s o) as L1. fold s' in L1.
  pose proof (run_lifepos post s') as L2. fold s2 in L2.
  unfold lifepos in L1, L2. rewrite H1, Hs1 in L1. rewrite H2, Hs2 in L2. rewrite Hg in L1. cbn [rank] in *.
  destruct (mk s') as [m'|] eqn:E.
  - pose proof (rank_bounds (st m')). exists m'. split; [reflexivity|].
    assert (gen s' = gen s2) as Hg' by lia. split; [|exact Hg'].
    rewrite Hg' in *. destruct (st m'); cbn [rank] in *; try lia. reflexivity.
  - exfalso. lia.
Qed.

Lemma run_active_bound post : forall s m1 m2 B,
  let s2 := run s post in
  mk s = Some m1 -> st m1 = Active -> mk s2 = Some m2 -> st m2 = Active -> gen s = gen s2 ->
  supply s <= B -> msupply m1 <= B -> max_param s post <= B ->
  supply s2 <= B /\ msupply m2 <= B.
Proof.
  induction post as [|o post IH]; intros s m1 m2 B s2 H1 Hs1 H2 Hs2 Hg Hs Hm Hx.
  - subst s2. cbn [run fold_left] in *. rewrite H1 in H2. injection H2 as <-. split; assumption.
  - subst s2. change (run s (o :: post)) with (run (fst (step s o)) post) in *.
    cbn [max_param] in Hx.
    destruct (active_throughout s o post m1 m2 H1 Hs1 H2 Hs2 Hg) as (m' & Hm' & Hst' & Hg').
    assert (supply (fst (step s o)) <= B /\ msupply m' <= B) as [Hs' Hmm'].
    { destruct (step_cases s o) as [(sx & Ho & He)|(_ & He)]; rewrite He in *; cbn [fst] in *.
      - eapply step_opt_active_bound; try eassumption. lia.
      - rewrite H1 in Hm'. injection Hm' as <-. split; assumption. }
    eapply (IH (fst (step s o)) m' m2 B); try eassumption. lia.
Qed.

(** The statement of Properties/C05.v. *)
Lemma run_active_supply_bound s pre post m1 m2 :
  let s1 := run s pre in let s2 := run s1 post in
  mk s1 = Some m1 -> st m1 = Active -> mk s2 = Some m2 -> st m2 = Active -> gen s1 = gen s2 ->
  supply s2 <= Z.max (Z.max (supply s1) (msupply m1)) (max_param s1 post).
Proof.
  intros s1 s2 H1 Hs1 H2 Hs2 Hg.
  destruct (run_active_bound post s1 m1 m2 (Z.max (Z.max (supply s1) (msupply m1)) (max_param s1 post))
              H1 Hs1 H2 Hs2 Hg) as [Hb _]; try lia. exact Hb.
Qed.

(** Right after the activating step the two first terms coincide: supply <= max(supply at
    activation, largest MaxSupply in force since). *)
Lemma run_bound_since_activation s pre o post m2 :
  let s0 := run s pre in let s1 := fst (step s0 o) in let s2 := run s1 post in
  not_active s0 -> (exists m1, mk s1 = Some m1 /\ st m1 = Active) ->
  mk s2 = Some m2 -> st m2 = Active -> gen s1 = gen s2 ->
  supply s2 <= Z.max (supply s1) (max_param s1 post).
Proof.
  intros s0 s1 s2 Hna (m1 & H1 & Hs1) H2 Hs2 Hg.
  assert (supply s1 = msupply m1) as He.
  { subst s1. destruct (step_cases s0 o) as [(sx & Ho & Hx)|(_ & Hx)]; rewrite Hx in *; cbn [fst] in *.
    - eapply step_opt_activation; eassumption.
    - exfalso. unfold not_active in Hna. rewrite H1 in Hna. contradiction. }
  pose proof (run_active_supply_bound (run s pre) [o] post m1 m2) as Hb.
  cbn [run fold_left] in Hb. fold s0 in Hb. fold s1 in Hb. fold s2 in Hb.
  specialize (Hb H1 Hs1 H2 Hs2 Hg). lia.
Qed.
