(** Lemmas about the path checker of Exchange/GuardPaths.v and its verdict on the generated
    control-flow paths (Gen/GenHandlerPaths.v).  The facts about the generated tables are finite
    computations ([vm_compute]) lifted to quantified statements with [forallb_forall]; the meaning of
    the checker ([path_guarded_spec]) is proved for every path and every acceptance predicate. *)
From Coq Require Import List String Bool NArith Lia.
From PV Require Import Exchange.Perms Exchange.GovGuards Exchange.GuardPaths
  Gen.GenExchangePerms Gen.GenGovEndpoints Gen.GenHandlerPaths Proofs.PermsProofs.
Import ListNotations.
Open Scope string_scope.

(* ------------------------------------------------------------------ meaning of the checker *)

Definition dominated (acc : gpred -> bool) (p : list ev) : Prop :=
  forall i e, nth_error p i = Some e -> is_effect e = true ->
    exists j g, j < i /\ nth_error p j = Some (EvGuard true g) /\ acc g = true.

Lemma path_guarded_spec : forall acc p, path_guarded acc p = true -> dominated acc p.
Proof.
  intros acc p. induction p as [| a r IH]; intros H i e Hn He.
  - destruct i; discriminate Hn.
  - destruct i as [| i'].
    + cbn in Hn. inversion Hn; subst a. clear Hn.
      destruct e as [[|] g | c t | [|] | | w]; cbn in He; try discriminate He; cbn in H; discriminate H.
    + cbn in Hn.
      assert (Hcase : (exists g, a = EvGuard true g /\ acc g = true) \/ path_guarded acc r = true).
      { destruct a as [[|] g | c t | [|] | | w]; cbn in H; try discriminate H; try (right; exact H).
        destruct (acc g) eqn:E; [left; exists g; split; [reflexivity | exact E] | right; exact H]. }
      destruct Hcase as [[g [Ha Hg]] | Hr].
      * exists 0, g. subst a. split; [lia | split; [reflexivity | exact Hg]].
      * destruct (IH Hr i' e Hn He) as [j [g [Hj [Hnj Hg]]]].
        exists (S j), g. split; [lia | split; [exact Hnj | exact Hg]].
Qed.

(** The converse: the checker accepts every dominated path (so it is exactly dominance). *)
Lemma path_guarded_complete : forall acc p, dominated acc p -> path_guarded acc p = true.
Proof.
  intros acc p. induction p as [| a r IH]; intro H; [reflexivity |].
  assert (Ha : is_effect a = false).
  { destruct (is_effect a) eqn:E; [| reflexivity].
    destruct (H 0 a eq_refl E) as [j [_ [Hj _]]]. lia. }
  (* either the head is an accepted pass, or the tail is dominated *)
  assert (Hc : (exists g, a = EvGuard true g /\ acc g = true) \/ dominated acc r).
  { destruct a as [[|] g | c t | [|] | | w]; cbn in Ha; try discriminate Ha.
    - destruct (acc g) eqn:E; [left; exists g; split; [reflexivity | exact E] | right].
      intros i e Hn He. destruct (H (S i) e Hn He) as [j [g' [Hj [Hnj Hg']]]].
      destruct j as [| j'].
      + cbn in Hnj. inversion Hnj; subst g'. rewrite E in Hg'. discriminate Hg'.
      + exists j', g'. split; [lia | split; [exact Hnj | exact Hg']].
    - right. intros i e Hn He. destruct (H (S i) e Hn He) as [j [g' [Hj [Hnj Hg']]]].
      destruct j as [| j']; [cbn in Hnj; discriminate Hnj |].
      exists j', g'. split; [lia | split; [exact Hnj | exact Hg']].
    - right. intros i e Hn He. destruct (H (S i) e Hn He) as [j [g' [Hj [Hnj Hg']]]].
      destruct j as [| j']; [cbn in Hnj; discriminate Hnj |].
      exists j', g'. split; [lia | split; [exact Hnj | exact Hg']].
    - right. intros i e Hn He. destruct (H (S i) e Hn He) as [j [g' [Hj [Hnj Hg']]]].
      destruct j as [| j']; [cbn in Hnj; discriminate Hnj |].
      exists j', g'. split; [lia | split; [exact Hnj | exact Hg']].
    - right. intros i e Hn He. destruct (H (S i) e Hn He) as [j [g' [Hj [Hnj Hg']]]].
      destruct j as [| j']; [cbn in Hnj; discriminate Hnj |].
      exists j', g'. split; [lia | split; [exact Hnj | exact Hg']]. }
  destruct Hc as [[g [Hag Hg]] | Hr].
  - subst a. cbn. rewrite Hg. reflexivity.
  - specialize (IH Hr).
    destruct a as [[|] g | c t | [|] | | w]; cbn in Ha; try discriminate Ha; cbn; try exact IH.
    destruct (acc g); [reflexivity | exact IH].
Qed.

Lemma structured_spec : forall p, structured p = true -> forall w, ~ In (EvUnstructured w) p.
Proof.
  intros p H w Hin. unfold structured in H. rewrite forallb_forall in H.
  specialize (H _ Hin). discriminate H.
Qed.

(* ------------------------------------------------------------------ what the acceptance predicates accept *)

Lemma acceptable_perm : forall p g, acceptable (RPerm p) g = true ->
  exists h, g = GCan h "msg.MarketId" "msg.Admin" /\ helper_perm h = Some p.
Proof.
  intros p g H. destruct g as [h m c | | | | |]; cbn in H; try discriminate H.
  apply andb_true_iff in H as [H Hp]. apply andb_true_iff in H as [Hm Hc].
  apply String.eqb_eq in Hm, Hc. subst m c. exists h. split; [reflexivity |].
  destruct (helper_perm h) as [p' |]; [| discriminate Hp].
  apply perm_eqb_eq in Hp. subst p'. reflexivity.
Qed.

Lemma acceptable_authority : forall g, acceptable RAuthority g = true ->
  exists via, g = GAuth "msg.Authority" via /\ via_ok "exchange" via = true.
Proof.
  intros g H. destruct g as [| who via | | | |]; cbn in H; try discriminate H.
  apply andb_true_iff in H as [Hw Hv]. apply String.eqb_eq in Hw. subst who.
  exists via. split; [reflexivity | exact Hv].
Qed.

Lemma acceptable_reject : forall g, acceptable RRejectAll g = false.
Proof. intros g. destruct g; reflexivity. Qed.

(* ------------------------------------------------------------------ the generated tables *)

Lemma exchange_rows_check :
  forallb exchange_row_ok exchange_rows = true /\ same_endpoints = true.
Proof. vm_compute. split; reflexivity. Qed.

Lemma keeper_rows_check :
  forallb keeper_row_ok keeper_rows = true /\ keeper_names_ok = true.
Proof. vm_compute. split; reflexivity. Qed.

Lemma set_ids_delegation_check : set_ids_delegation_ok = true.
Proof. vm_compute. reflexivity. Qed.

Lemma msg_rows_check :
  forallb msg_row_ok gen_msg_paths = true /\ same_gov_rows = true /\ gov_rows_agree = true.
Proof. vm_compute. repeat split. Qed.

Lemma authority_uses_check :
  uses_match documented_authority_uses fieldless_rows = true /\ authority_sources_ok = true.
Proof. vm_compute. split; reflexivity. Qed.

Lemma authority_mentions_check : authority_mentions_ok = true.
Proof. vm_compute. reflexivity. Qed.

Lemma query_rows_check : forallb query_row_ok gen_query_handlers = true.
Proof. vm_compute. reflexivity. Qed.

Lemma exchange_queries_branch :
  forallb (fun r => negb (qh_module r =? "exchange") || query_branches (qh_endpoint r)) gen_query_handlers = true
  /\ exchange_writing_queries = ["ValidateCreateMarket"; "ValidateManageFees"].
Proof. vm_compute. split; reflexivity. Qed.

(* ------------------------------------------------------------------ lifted statements *)

Lemma in_exchange_rows : forall r, In r gen_exchange_paths -> hp_kind r = "exchange" -> In r exchange_rows.
Proof.
  intros r Hin Hk. unfold exchange_rows. apply filter_In. split; [exact Hin |].
  rewrite Hk. reflexivity.
Qed.

Lemma in_keeper_rows : forall r, In r gen_exchange_paths -> hp_kind r = "keeper" -> In r keeper_rows.
Proof.
  intros r Hin Hk. unfold keeper_rows. apply filter_In. split; [exact Hin |].
  rewrite Hk. reflexivity.
Qed.

(** Every path of every exchange endpoint: structured control flow only, and every state-writing
    call and every successful return is preceded, on that path, by the PASS branch of the endpoint's
    documented guard. *)
Lemma guard_dominates_effects :
  forall r, In r gen_exchange_paths -> hp_kind r = "exchange" ->
  forall p, In p (hp_paths r) ->
    (forall w, ~ In (EvUnstructured w) p) /\
    forall i e, nth_error p i = Some e -> is_effect e = true ->
      match documented_requirement (hp_endpoint r) with
      | RPerm perm =>
          exists j h, j < i /\ nth_error p j = Some (EvGuard true (GCan h "msg.MarketId" "msg.Admin"))
                      /\ helper_perm h = Some perm
      | RAuthority =>
          exists j via, j < i /\ nth_error p j = Some (EvGuard true (GAuth "msg.Authority" via))
                        /\ via_ok "exchange" via = true
      | RRejectAll => False
      | RDelegated _ => True
      | RUnknown => False
      end.
Proof.
  intros r Hin Hk p Hp.
  destruct exchange_rows_check as [Hall _]. rewrite forallb_forall in Hall.
  specialize (Hall r (in_exchange_rows r Hin Hk)). unfold exchange_row_ok in Hall.
  apply andb_true_iff in Hall as [Hs Hg].
  rewrite forallb_forall in Hs. split; [apply structured_spec; apply Hs; exact Hp |].
  intros i e Hn He.
  destruct (documented_requirement (hp_endpoint r)) as [perm | | | d |] eqn:D; try exact I; try discriminate Hg.
  - rewrite forallb_forall in Hg.
    destruct (path_guarded_spec _ _ (Hg p Hp) i e Hn He) as [j [g [Hj [Hnj Ha]]]].
    apply acceptable_perm in Ha as [h [Hgeq Hh]]. subst g. exists j, h. auto.
  - rewrite forallb_forall in Hg.
    destruct (path_guarded_spec _ _ (Hg p Hp) i e Hn He) as [j [g [Hj [Hnj Ha]]]].
    apply acceptable_authority in Ha as [via [Hgeq Hv]]. subst g. exists j, via. auto.
  - rewrite forallb_forall in Hg.
    destruct (path_guarded_spec _ _ (Hg p Hp) i e Hn He) as [j [g [_ [_ Ha]]]].
    rewrite acceptable_reject in Ha. discriminate Ha.
Qed.

(** The keeper functions that carry their own check. *)
Lemma keeper_checks_dominate :
  forall r, In r gen_exchange_paths -> hp_kind r = "keeper" ->
  forall p, In p (hp_paths r) ->
    (forall w, ~ In (EvUnstructured w) p) /\
    forall i e, nth_error p i = Some e -> is_effect e = true ->
      exists j g, j < i /\ nth_error p j = Some (EvGuard true g) /\ keeper_acceptable (hp_endpoint r) g = true.
Proof.
  intros r Hin Hk p Hp.
  destruct keeper_rows_check as [Hall _]. rewrite forallb_forall in Hall.
  specialize (Hall r (in_keeper_rows r Hin Hk)). unfold keeper_row_ok in Hall.
  apply andb_true_iff in Hall as [Hs Hg]. rewrite forallb_forall in Hs, Hg.
  split; [apply structured_spec; apply Hs; exact Hp |].
  exact (path_guarded_spec _ _ (Hg p Hp)).
Qed.

(** Msg handlers of every module whose request has an Authority field. *)
Lemma msg_guard_dominates :
  forall r, In r gen_msg_paths -> hp_has_field r = true ->
  forall p, In p (hp_paths r) ->
    (forall w, ~ In (EvUnstructured w) p) /\
    (is_open_endpoint (hp_module r) (hp_endpoint r) = false ->
     forall i e, nth_error p i = Some e -> is_effect e = true ->
       exists j g, j < i /\ nth_error p j = Some (EvGuard true g)
                   /\ msg_acceptable (hp_module r) (hp_endpoint r) g = true).
Proof.
  intros r Hin Hf p Hp.
  destruct msg_rows_check as [Hall _]. rewrite forallb_forall in Hall.
  specialize (Hall r Hin). unfold msg_row_ok in Hall. rewrite Hf in Hall.
  apply andb_true_iff in Hall as [Hs Hg]. rewrite forallb_forall in Hs.
  split; [apply structured_spec; apply Hs; exact Hp |].
  intro Hopen. rewrite Hopen in Hg. cbn [orb] in Hg. rewrite forallb_forall in Hg.
  exact (path_guarded_spec _ _ (Hg p Hp)).
Qed.

(** A handler that is governance-only by its paths has an Authority field: the sweep of the harness
    over the message types with such a field misses no governance-only endpoint the translator can see. *)
Lemma gov_only_has_field :
  forall r, In r gen_msg_paths -> gov_only_by_paths r = true -> hp_has_field r = true.
Proof.
  intros r Hin Hg. destruct (hp_has_field r) eqn:F; [reflexivity | exfalso].
  assert (Hf : In r fieldless_rows).
  { unfold fieldless_rows. apply filter_In. split; [exact Hin | rewrite F; reflexivity]. }
  destruct authority_uses_check as [Hu _].
  assert (Hgen : forall doc rows, uses_match doc rows = true -> forall x, In x rows -> gov_only_by_paths x = false).
  { induction doc as [| [[m e] who] doc IH]; intros rows Hm x Hx; destruct rows as [| y rows]; cbn in Hm; try discriminate Hm.
    - destruct Hx.
    - apply andb_true_iff in Hm as [Hm Hrest]. apply andb_true_iff in Hm as [_ Hng].
      destruct Hx as [Hx | Hx]; [subst y; apply negb_true_iff; exact Hng | exact (IH rows Hrest x Hx)]. }
  rewrite (Hgen _ _ Hu r Hf) in Hg. discriminate Hg.
Qed.

Lemma query_handlers_branch :
  forall r, In r gen_query_handlers ->
    qh_unstructured r = [] /\
    forall w, In w (qh_writes r) ->
      qw_branched w = true \/ In (qh_module r, qw_call w) reviewed_query_calls.
Proof.
  intros r Hin. pose proof query_rows_check as H. rewrite forallb_forall in H.
  specialize (H r Hin). unfold query_row_ok in H. apply andb_true_iff in H as [Hu Hw].
  split; [destruct (qh_unstructured r); [reflexivity | discriminate Hu] |].
  intros w Hinw. rewrite forallb_forall in Hw. specialize (Hw w Hinw).
  unfold query_write_ok in Hw. apply orb_true_iff in Hw as [Hb | He]; [left; exact Hb | right].
  apply existsb_exists in He as [[m c] [Hd Heq]]. cbn in Heq.
  apply andb_true_iff in Heq as [H1 H2]. apply String.eqb_eq in H1, H2. subst. exact Hd.
Qed.

Lemma exchange_query_branches : forall r, In r gen_query_handlers -> qh_module r = "exchange" ->
  query_branches (qh_endpoint r) = true.
Proof.
  intros r Hin Hm. destruct exchange_queries_branch as [H _]. rewrite forallb_forall in H.
  specialize (H r Hin). rewrite Hm in H. exact H.
Qed.
