(** C01: several markets, creation fees, governance-changed params, market flags, sanctions and
    the marker send restrictions (Exchange/SettleMulti.v) are GUARDS in front of the
    single-market functions of Exchange/Settle.v: an accepted multi-market operation is the
    single-market operation under the configuration [cfg_of w m (ms_params ms)] of the market
    found under the operation's market id, plus (for creations and user fills) one more
    single-payer fee collection.  So everything Proofs/SettleRefine.v, SettleFills.v and
    SettleHistory.v prove about one market carries over, step by step and over histories. *)
From Coq Require Import ZArith List Bool Lia ZifyBool PArith.
From PV Require Import Exchange.Arith Exchange.Split Exchange.Fulfill Exchange.Settle Exchange.SettleSpec
  Exchange.SettleMulti
  Proofs.ArithProofs Proofs.SplitProofs Proofs.FulfillProofs Proofs.FulfillSteps
  Proofs.FulfillShape Proofs.FulfillSums Proofs.SettleProofs Proofs.SettleRefine Proofs.SettleFills
  Proofs.SettleHistory.
Import ListNotations.
Open Scope Z_scope.

(** ** 1. A rejected operation changes nothing. *)
Lemma mstep_rejected w ms o ms' : mstep w ms o = (ms', false) -> ms' = ms.
Proof. unfold mstep. destruct (mrun_op w ms o); intros H; inversion H; reflexivity. Qed.

(** ** 2. Inversion of the guarded operations *)
Lemma of_opt_ok {A} (o : option A) a : of_opt o = Ok a -> o = Some a.
Proof. destruct o; cbn; intros H; inversion H; reflexivity. Qed.

Lemma msettle_inv w ms mid admin a b e ms' :
  msettle w ms mid admin a b e = Ok ms' ->
  exists m,
    lookup (ms_markets ms) mid = Some m /\
    forallb (in_market ms mid) (a ++ b) = true /\
    (exists asks bids s,
       get_orders (st_orders (ms_st ms)) true a None = Ok asks /\
       get_orders (st_orders (ms_st ms)) false b None = Ok bids /\
       build asks bids (match asks with x :: _ => ratio_lookup (cfg_of w m (ms_params ms)) (o_pd x) | [] => Err end) = Ok s /\
       settlement_allowed w (ms_sanctioned ms) (Some admin) (cfg_of w m (ms_params ms)) s = true) /\
    settle (cfg_of w m (ms_params ms)) (ms_st ms) a b e = Ok (ms_st ms') /\
    ms' = with_st ms (ms_st ms').
Proof.
  unfold msettle. intros H.
  apply rbind_ok in H as (m & Hm & H). apply of_opt_ok in Hm. cbn beta zeta in H.
  destruct (forallb (in_market ms mid) (a ++ b)) eqn:Ein; cbn [negb] in H; [|discriminate].
  apply rbind_ok in H as (asks & Ga & H). apply rbind_ok in H as (bids & Gb & H).
  apply rbind_ok in H as (s & Hb & H).
  destruct (settlement_allowed w (ms_sanctioned ms) (Some admin) (cfg_of w m (ms_params ms)) s) eqn:Eal;
    cbn [negb] in H; [|discriminate].
  apply rbind_ok in H as (st' & Hs & H). inversion H; subst ms'; clear H.
  exists m. split; [exact Hm|]. split; [reflexivity|]. split; [|split; [exact Hs|reflexivity]].
  exists asks, bids, s. auto.
Qed.

Lemma mfill_bids_inv w ms mid seller ids total flat cfee ms' :
  mfill_bids w ms mid seller ids total flat cfee = Ok ms' ->
  exists m st1 bal2,
    let cfg := cfg_of w m (ms_params ms) in
    lookup (ms_markets ms) mid = Some m /\
    mk_accepting m && mk_user_settle m = true /\
    validate_flat (mk_create_ask m) cfee = true /\
    forallb (in_market ms mid) ids = true /\
    (exists s, fill_bids_settlement cfg (ms_st ms) seller ids flat = Ok s /\
               settlement_allowed w (ms_sanctioned ms) None cfg s = true) /\
    fill_bids cfg (ms_st ms) seller ids total flat = Ok st1 /\
    collect_creation_fee w (ms_sanctioned ms) cfg (st_bal st1) (st_hold st1) seller cfee = Ok bal2 /\
    ms' = with_st ms {| st_bal := bal2; st_hold := st_hold st1; st_orders := st_orders st1 |}.
Proof.
  unfold mfill_bids. intros H.
  apply rbind_ok in H as (m & Hm & H). apply of_opt_ok in Hm. cbn beta zeta in H.
  destruct (mk_accepting m && mk_user_settle m) eqn:Eacc; cbn [negb] in H; [|discriminate].
  destruct (validate_flat (mk_create_ask m) cfee) eqn:Ecf; cbn [negb] in H; [|discriminate].
  destruct (forallb (in_market ms mid) ids) eqn:Ein; cbn [negb] in H; [|discriminate].
  apply rbind_ok in H as (s & Hs & H).
  destruct (settlement_allowed w (ms_sanctioned ms) None (cfg_of w m (ms_params ms)) s) eqn:Eal;
    cbn [negb] in H; [|discriminate].
  apply rbind_ok in H as (st1 & Hst1 & H). apply rbind_ok in H as (bal2 & Hbal2 & H).
  inversion H; subst ms'; clear H.
  exists m, st1, bal2. cbn zeta. repeat (split; [first [assumption|reflexivity]|]).
  split; [exists s; auto|]. auto.
Qed.

(** The configuration FillAsks hands to the single-market function: no buyer flat options
    (they were validated, together with the ratio options, by [validate_buyer_fee]). *)
Definition no_buyer_flat (cfg : config) : config :=
  {| c_ratios := c_ratios cfg; c_splits := c_splits cfg; c_default_split := c_default_split cfg;
     c_seller_flat := c_seller_flat cfg; c_buyer_flat := [];
     c_market := c_market cfg; c_feecol := c_feecol cfg |}.

Lemma nbf_market cfg : c_market (no_buyer_flat cfg) = c_market cfg. Proof. reflexivity. Qed.
Lemma nbf_feecol cfg : c_feecol (no_buyer_flat cfg) = c_feecol cfg. Proof. reflexivity. Qed.
Lemma nbf_ratios cfg : c_ratios (no_buyer_flat cfg) = c_ratios cfg. Proof. reflexivity. Qed.
Lemma nbf_get_split cfg d : get_split (no_buyer_flat cfg) d = get_split cfg d. Proof. reflexivity. Qed.
Lemma nbf_seller_ratio_fee cfg pd p : seller_ratio_fee (no_buyer_flat cfg) pd p = seller_ratio_fee cfg pd p.
Proof. reflexivity. Qed.
Lemma nbf_spec_delta cfg ps x d : spec_delta (no_buyer_flat cfg) ps x d = spec_delta cfg ps x d.
Proof. reflexivity. Qed.
Lemma nbf_ask_fill_ok cfg o f : ask_fill_ok (no_buyer_flat cfg) o f <-> ask_fill_ok cfg o f.
Proof. unfold ask_fill_ok. rewrite nbf_seller_ratio_fee. reflexivity. Qed.

Lemma nbf_step_spec_fill_asks cfg st buyer ids tp fees st' :
  step_spec (no_buyer_flat cfg) st (OFillAsks buyer ids tp fees) st' ->
  step_spec cfg st (OFillAsks buyer ids tp fees) st'.
Proof.
  cbn [step_spec]. intros (asks & fills & Ga & Hp & Hf & R). exists asks, fills.
  split; [exact Ga|]. split; [exact Hp|]. split; [|exact R].
  clear - Hf. induction Hf as [|o f l l' H _ IH]; constructor; [apply nbf_ask_fill_ok, H|exact IH].
Qed.

Lemma mfill_asks_inv w ms mid buyer ids tp fees cfee ms' :
  mfill_asks w ms mid buyer ids tp fees cfee = Ok ms' ->
  exists m st1 bal2,
    let cfg := cfg_of w m (ms_params ms) in
    lookup (ms_markets ms) mid = Some m /\
    mk_accepting m && mk_user_settle m = true /\
    validate_flat (mk_create_bid m) cfee = true /\
    validate_buyer_fee (mk_buyer_flat m) (mk_buyer_ratios m) tp fees = true /\
    forallb (in_market ms mid) ids = true /\
    (exists s, fill_asks_settlement cfg (ms_st ms) buyer ids tp fees = Ok s /\
               settlement_allowed w (ms_sanctioned ms) None cfg s = true) /\
    fill_asks (no_buyer_flat cfg) (ms_st ms) buyer ids tp fees = Ok st1 /\
    collect_creation_fee w (ms_sanctioned ms) cfg (st_bal st1) (st_hold st1) buyer cfee = Ok bal2 /\
    ms' = with_st ms {| st_bal := bal2; st_hold := st_hold st1; st_orders := st_orders st1 |}.
Proof.
  unfold mfill_asks. intros H.
  apply rbind_ok in H as (m & Hm & H). apply of_opt_ok in Hm. cbn beta zeta in H.
  destruct (mk_accepting m && mk_user_settle m) eqn:Eacc; cbn [negb] in H; [|discriminate].
  destruct (validate_flat (mk_create_bid m) cfee) eqn:Ecf; cbn [negb] in H; [|discriminate].
  destruct (validate_buyer_fee (mk_buyer_flat m) (mk_buyer_ratios m) tp fees) eqn:Ebf; cbn [negb] in H; [|discriminate].
  destruct (forallb (in_market ms mid) ids) eqn:Ein; cbn [negb] in H; [|discriminate].
  apply rbind_ok in H as (s & Hs & H).
  destruct (settlement_allowed w (ms_sanctioned ms) None (cfg_of w m (ms_params ms)) s) eqn:Eal;
    cbn [negb] in H; [|discriminate].
  apply rbind_ok in H as (st1 & Hst1 & H). apply rbind_ok in H as (bal2 & Hbal2 & H).
  inversion H; subst ms'; clear H.
  exists m, st1, bal2. cbn zeta. repeat (split; [first [assumption|reflexivity]|]).
  split; [exists s; auto|]. split; [exact Hst1|]. auto.
Qed.

Lemma mcreate_inv w ms mid o cfee ms' :
  mcreate w ms mid o cfee = Ok ms' ->
  exists m bal1 hold1,
    let cfg := cfg_of w m (ms_params ms) in
    lookup (ms_markets ms) mid = Some m /\
    collect_creation_fee w (ms_sanctioned ms) cfg (st_bal (ms_st ms)) (st_hold (ms_st ms)) (o_owner o) cfee = Ok bal1 /\
    add_hold bal1 (st_hold (ms_st ms)) (o_owner o) (hold_amount o) = Ok hold1 /\
    ms' = {| ms_st := {| st_bal := bal1; st_hold := hold1; st_orders := st_orders (ms_st ms) ++ [o] |};
             ms_market_of := ms_market_of ms ++ [(o_id o, mid)]; ms_markets := ms_markets ms;
             ms_params := ms_params ms; ms_sanctioned := ms_sanctioned ms |}.
Proof.
  unfold mcreate. intros H.
  apply rbind_ok in H as (m & Hm & H). apply of_opt_ok in Hm. cbn beta zeta in H.
  apply rbind_ok in H as (bal1 & Hb & H). apply rbind_ok in H as (hold1 & Hh & H).
  inversion H; subst ms'; clear H. exists m, bal1, hold1. cbn zeta. auto.
Qed.

(** ** 3. The creation fee on its own: one more party paying one coin. *)
Definition cfee_parties (payer : addr) (cfee : option coin) : list party :=
  match cfee with
  | Some c => [{| p_addr := payer; p_gets := []; p_gives := []; p_fees := [c] |}]
  | None => []
  end.

Lemma collect_creation_fee_at w sanc cfg bal hold payer cfee bal' :
  collect_creation_fee w sanc cfg bal hold payer cfee = Ok bal' ->
  (forall x d, aget bal' x d = aget bal x d + spec_delta cfg (cfee_parties payer cfee) x d) /\
  (forall d, total bal' d = total bal d) /\
  (forall d0 z, cfee = Some (d0, z) -> 0 < z).
Proof.
  unfold collect_creation_fee. intros H. destruct cfee as [[d0 z]|].
  - destruct (Z.leb_spec z 0) as [|Hz]; [discriminate|].
    destruct (sends_ok w sanc None (fee_sends cfg [(payer, [(d0, z)])])); cbn [negb] in H; [|discriminate].
    split; [|split].
    + intros x d.
      assert (Hc : collect_fees cfg bal hold [(payer, [(d0, z)])] = Ok bal') by exact H.
      assert (Hpos : idx_pos [(payer, [(d0, z)])]).
      { constructor; [|constructor]. cbn. rewrite andb_true_r. apply Z.ltb_lt, Hz. }
      pose proof (collect_fees_at cfg bal hold _ bal' x d (one_sorted payer _ (sorted_one d0 z)) Hpos Hc) as E.
      cbn zeta in E. rewrite E, idx_at_one.
      unfold spec_delta, exchange_share, fees_total, cfee_parties. rewrite !sumz_cons, !sumz_nil.
      unfold party_delta. cbn [p_addr p_gets p_gives p_fees].
      change (idx_amount [(payer, [(d0, z)])] d) with (amount_of [(d0, z)] d + 0).
      cbn [amount_of]. rewrite !Z.add_0_r.
      destruct (Pos.eqb d d0), (Pos.eqb x payer), (Pos.eqb x (c_market cfg)), (Pos.eqb x (c_feecol cfg));
        cbv iota; rewrite ?exchange_split_zero; lia.
    + intros d. apply (collect_fee_total _ _ _ _ _ _ d H).
    + intros d1 z1 E. inversion E; subst. exact Hz.
  - inversion H; subst. split; [|split].
    + intros x d. unfold spec_delta, exchange_share, fees_total, cfee_parties. rewrite !sumz_nil, exchange_split_zero.
      destruct (Pos.eqb x (c_market cfg)), (Pos.eqb x (c_feecol cfg)); lia.
    + reflexivity.
    + discriminate.
Qed.

(** The guard of the creation fee: its two sends pass the restrictions, with no transfer agent. *)
Lemma collect_creation_fee_guard w sanc cfg bal hold payer d0 z bal' :
  collect_creation_fee w sanc cfg bal hold payer (Some (d0, z)) = Ok bal' ->
  sends_ok w sanc None (fee_sends cfg [(payer, [(d0, z)])]) = true.
Proof.
  unfold collect_creation_fee. destruct (z <=? 0); [discriminate|].
  destruct (sends_ok w sanc None (fee_sends cfg [(payer, [(d0, z)])])); [reflexivity|discriminate].
Qed.

(** ** 4. The specification of one accepted step *)
(** What the request itself must satisfy (ValidateBasic): fee coins are a sorted sdk.Coins. *)
Definition mop_ok (o : mop) : Prop :=
  match o with
  | MCreate _ ord _ _ => sorted (o_fees ord)
  | MFillAsks _ _ _ _ fees _ => sorted fees
  | _ => True
  end.

(** The state after a user fill: the single-market result [st1], then the creation fee. *)
Definition after_cfee (cfg : config) (st1 st' : state) (payer : addr) (cfee : option coin) : Prop :=
  st_hold st' = st_hold st1 /\ st_orders st' = st_orders st1 /\
  (forall x d, aget (st_bal st') x d = aget (st_bal st1) x d + spec_delta cfg (cfee_parties payer cfee) x d) /\
  (forall d, total (st_bal st') d = total (st_bal st1) d) /\
  (forall d0 z, cfee = Some (d0, z) -> 0 < z).

Definition mstep_spec (w : world) (ms : mstate) (o : mop) (ms' : mstate) : Prop :=
  match o with
  | MSettle mid admin a b e =>
      exists m,
        lookup (ms_markets ms) mid = Some m /\
        forallb (in_market ms mid) (a ++ b) = true /\
        step_spec (cfg_of w m (ms_params ms)) (ms_st ms) (OSettle a b e) (ms_st ms') /\
        ms_market_of ms' = ms_market_of ms /\ ms_markets ms' = ms_markets ms /\
        ms_params ms' = ms_params ms /\ ms_sanctioned ms' = ms_sanctioned ms
  | MFillBids mid seller ids total_assets flat cfee =>
      exists m st1,
        let cfg := cfg_of w m (ms_params ms) in
        lookup (ms_markets ms) mid = Some m /\
        mk_accepting m && mk_user_settle m = true /\
        forallb (in_market ms mid) ids = true /\
        step_spec cfg (ms_st ms) (OFillBids seller ids total_assets flat) st1 /\
        after_cfee cfg st1 (ms_st ms') seller cfee /\
        ms_market_of ms' = ms_market_of ms /\ ms_markets ms' = ms_markets ms /\
        ms_params ms' = ms_params ms /\ ms_sanctioned ms' = ms_sanctioned ms
  | MFillAsks mid buyer ids total_price fees cfee =>
      exists m st1,
        let cfg := cfg_of w m (ms_params ms) in
        lookup (ms_markets ms) mid = Some m /\
        mk_accepting m && mk_user_settle m = true /\
        forallb (in_market ms mid) ids = true /\
        step_spec cfg (ms_st ms) (OFillAsks buyer ids total_price fees) st1 /\
        after_cfee cfg st1 (ms_st ms') buyer cfee /\
        ms_market_of ms' = ms_market_of ms /\ ms_markets ms' = ms_markets ms /\
        ms_params ms' = ms_params ms /\ ms_sanctioned ms' = ms_sanctioned ms
  | MCreate mid ord cfee _ =>
      exists m,
        let cfg := cfg_of w m (ms_params ms) in
        lookup (ms_markets ms) mid = Some m /\
        (forall x d, aget (st_bal (ms_st ms')) x d =
                     aget (st_bal (ms_st ms)) x d + spec_delta cfg (cfee_parties (o_owner ord) cfee) x d) /\
        (forall x d, aget (st_hold (ms_st ms')) x d =
                     aget (st_hold (ms_st ms)) x d + (if Pos.eqb x (o_owner ord) then amount_of (hold_amount ord) d else 0)) /\
        st_orders (ms_st ms') = st_orders (ms_st ms) ++ [ord] /\
        (forall d0 z, cfee = Some (d0, z) -> 0 < z) /\
        ms_market_of ms' = ms_market_of ms ++ [(o_id ord, mid)] /\ ms_markets ms' = ms_markets ms /\
        ms_params ms' = ms_params ms /\ ms_sanctioned ms' = ms_sanctioned ms
  | MSetParams p =>
      valid_params p = true /\
      ms_st ms' = ms_st ms /\ ms_params ms' = stored_params p /\
      ms_market_of ms' = ms_market_of ms /\ ms_markets ms' = ms_markets ms /\ ms_sanctioned ms' = ms_sanctioned ms
  | MSetAccepting mid acc =>
      (exists m, lookup (ms_markets ms) mid = Some m /\ mk_accepting m <> acc /\
                 ms_markets ms' = update (ms_markets ms) mid (set_flags m acc (mk_user_settle m))) /\
      ms_st ms' = ms_st ms /\ ms_market_of ms' = ms_market_of ms /\
      ms_params ms' = ms_params ms /\ ms_sanctioned ms' = ms_sanctioned ms
  | MSetUserSettle mid us =>
      (exists m, lookup (ms_markets ms) mid = Some m /\ mk_user_settle m <> us /\
                 ms_markets ms' = update (ms_markets ms) mid (set_flags m (mk_accepting m) us)) /\
      ms_st ms' = ms_st ms /\ ms_market_of ms' = ms_market_of ms /\
      ms_params ms' = ms_params ms /\ ms_sanctioned ms' = ms_sanctioned ms
  | MSanction a on =>
      ms_sanctioned ms' = (if on then a :: ms_sanctioned ms
                           else filter (fun x => negb (Pos.eqb x a)) (ms_sanctioned ms)) /\
      ms_st ms' = ms_st ms /\ ms_market_of ms' = ms_market_of ms /\
      ms_markets ms' = ms_markets ms /\ ms_params ms' = ms_params ms
  end.

Lemma after_cfee_intro w sanc cfg st1 payer cfee bal2 :
  collect_creation_fee w sanc cfg (st_bal st1) (st_hold st1) payer cfee = Ok bal2 ->
  after_cfee cfg st1 {| st_bal := bal2; st_hold := st_hold st1; st_orders := st_orders st1 |} payer cfee.
Proof.
  intros H. destruct (collect_creation_fee_at _ _ _ _ _ _ _ _ H) as (Hb & Ht & Hp).
  unfold after_cfee. cbn [st_bal st_hold st_orders]. auto.
Qed.

Lemma eqb_false_neq (a b : bool) : Bool.eqb a b = false -> a <> b.
Proof. destruct a, b; cbn; congruence. Qed.

Lemma mrun_op_refines w ms o ms' :
  store_ok (st_orders (ms_st ms)) -> mop_ok o -> mrun_op w ms o = Ok ms' ->
  mstep_spec w ms o ms' /\ store_ok (st_orders (ms_st ms')).
Proof.
  intros Hok Hop H.
  destruct o as [mid ord cfee [|]|mid admin a b e|mid seller ids ta fl cf|mid buyer ids tp fs cf|p|mid acc|mid us|a on];
    cbn [mrun_op] in H; cbn [mstep_spec mop_ok] in *.
  - (* MCreate *)
    destruct (mcreate_inv _ _ _ _ _ _ H) as (m & bal1 & hold1 & Hm & Hb & Hh & ->). cbn zeta in *.
    destruct (collect_creation_fee_at _ _ _ _ _ _ _ _ Hb) as (Hbal & _ & Hpos).
    cbn [ms_st ms_market_of ms_markets ms_params ms_sanctioned st_bal st_hold st_orders]. split.
    + exists m. split; [exact Hm|]. split; [exact Hbal|]. split; [|auto 10].
      intros y d. rewrite (add_hold_at _ _ _ _ _ y d Hh), (raw_sum_sorted _ (hold_amount_sorted _ Hop)). reflexivity.
    + unfold store_ok in *. apply Forall_app; split; [assumption|constructor; [assumption|constructor]].
  - discriminate.
  - (* MSettle *)
    destruct (msettle_inv _ _ _ _ _ _ _ _ H) as (m & Hm & Hin & _ & Hs & ->). cbn [with_st ms_st] in *.
    destruct (run_op_refines (cfg_of w m (ms_params ms)) (ms_st ms) (OSettle a b e) _ Hok I Hs) as [R Hok'].
    split; [|exact Hok']. exists m. cbn [ms_market_of ms_markets ms_params ms_sanctioned]. auto 10.
  - (* MFillBids *)
    destruct (mfill_bids_inv _ _ _ _ _ _ _ _ _ H) as (m & st1 & bal2 & Hm & Hacc & _ & Hin & _ & Hf & Hc & ->).
    cbn zeta in *.
    destruct (run_op_refines (cfg_of w m (ms_params ms)) (ms_st ms) (OFillBids seller ids ta fl) _ Hok I Hf) as [R Hok'].
    cbn [with_st ms_st ms_market_of ms_markets ms_params ms_sanctioned st_orders]. split; [|exact Hok'].
    exists m, st1. cbn zeta. split; [exact Hm|]. split; [exact Hacc|]. split; [exact Hin|]. split; [exact R|].
    split; [apply (after_cfee_intro _ _ _ _ _ _ _ Hc)|auto].
  - (* MFillAsks *)
    destruct (mfill_asks_inv _ _ _ _ _ _ _ _ _ H) as (m & st1 & bal2 & Hm & Hacc & _ & _ & Hin & _ & Hf & Hc & ->).
    cbn zeta in *.
    destruct (run_op_refines (no_buyer_flat (cfg_of w m (ms_params ms))) (ms_st ms) (OFillAsks buyer ids tp fs) _ Hok Hop Hf)
      as [R Hok'].
    cbn [with_st ms_st ms_market_of ms_markets ms_params ms_sanctioned st_orders]. split; [|exact Hok'].
    exists m, st1. cbn zeta. split; [exact Hm|]. split; [exact Hacc|]. split; [exact Hin|].
    split; [apply nbf_step_spec_fill_asks, R|].
    split; [apply (after_cfee_intro _ _ _ _ _ _ _ Hc)|auto].
  - (* MSetParams *)
    destruct (valid_params p) eqn:Ev; [|discriminate]. inversion H; subst ms'; clear H.
    cbn [ms_st ms_market_of ms_markets ms_params ms_sanctioned]. auto 10.
  - (* MSetAccepting *)
    apply rbind_ok in H as (m & Hm & H). apply of_opt_ok in Hm.
    destruct (Bool.eqb (mk_accepting m) acc) eqn:E; [discriminate|]. inversion H; subst ms'; clear H.
    cbn [with_market ms_st ms_market_of ms_markets ms_params ms_sanctioned]. split; [|exact Hok].
    split; [|auto]. exists m. split; [exact Hm|]. split; [apply eqb_false_neq, E|reflexivity].
  - (* MSetUserSettle *)
    apply rbind_ok in H as (m & Hm & H). apply of_opt_ok in Hm.
    destruct (Bool.eqb (mk_user_settle m) us) eqn:E; [discriminate|]. inversion H; subst ms'; clear H.
    cbn [with_market ms_st ms_market_of ms_markets ms_params ms_sanctioned]. split; [|exact Hok].
    split; [|auto]. exists m. split; [exact Hm|]. split; [apply eqb_false_neq, E|reflexivity].
  - (* MSanction *)
    inversion H; subst ms'; clear H. cbn [ms_st ms_market_of ms_markets ms_params ms_sanctioned]. auto 10.
Qed.

(** ** 5. Conservation and histories *)
Lemma mrun_op_total w ms o ms' :
  mrun_op w ms o = Ok ms' -> forall d, total (st_bal (ms_st ms')) d = total (st_bal (ms_st ms)) d.
Proof.
  intros H d.
  destruct o as [mid ord cfee [|]|mid admin a b e|mid seller ids ta fl cf|mid buyer ids tp fs cf|p|mid acc|mid us|a on];
    cbn [mrun_op] in H.
  - destruct (mcreate_inv _ _ _ _ _ _ H) as (m & bal1 & hold1 & _ & Hb & _ & ->). cbn zeta in *.
    destruct (collect_creation_fee_at _ _ _ _ _ _ _ _ Hb) as (_ & Ht & _). cbn [ms_st st_bal]. apply Ht.
  - discriminate.
  - destruct (msettle_inv _ _ _ _ _ _ _ _ H) as (m & _ & _ & _ & Hs & _).
    apply (run_op_total (cfg_of w m (ms_params ms)) (ms_st ms) (OSettle a b e) _ d Hs).
  - destruct (mfill_bids_inv _ _ _ _ _ _ _ _ _ H) as (m & st1 & bal2 & _ & _ & _ & _ & _ & Hf & Hc & ->).
    cbn zeta in *. destruct (collect_creation_fee_at _ _ _ _ _ _ _ _ Hc) as (_ & Ht & _).
    cbn [with_st ms_st st_bal]. rewrite Ht.
    apply (run_op_total (cfg_of w m (ms_params ms)) (ms_st ms) (OFillBids seller ids ta fl) _ d Hf).
  - destruct (mfill_asks_inv _ _ _ _ _ _ _ _ _ H) as (m & st1 & bal2 & _ & _ & _ & _ & _ & _ & Hf & Hc & ->).
    cbn zeta in *. destruct (collect_creation_fee_at _ _ _ _ _ _ _ _ Hc) as (_ & Ht & _).
    cbn [with_st ms_st st_bal]. rewrite Ht.
    apply (run_op_total (no_buyer_flat (cfg_of w m (ms_params ms))) (ms_st ms) (OFillAsks buyer ids tp fs) _ d Hf).
  - destruct (valid_params p); [|discriminate]. inversion H; reflexivity.
  - apply rbind_ok in H as (m & _ & H). destruct (Bool.eqb (mk_accepting m) acc); [discriminate|]. inversion H; reflexivity.
  - apply rbind_ok in H as (m & _ & H). destruct (Bool.eqb (mk_user_settle m) us); [discriminate|]. inversion H; reflexivity.
  - inversion H; reflexivity.
Qed.

Lemma mstep_total w ms o d : total (st_bal (ms_st (fst (mstep w ms o)))) d = total (st_bal (ms_st ms)) d.
Proof.
  unfold mstep. destruct (mrun_op w ms o) as [ms'| |] eqn:E; cbn [fst]; try reflexivity.
  apply (mrun_op_total _ _ _ _ E).
Qed.

(** Over every history, whatever the markets, params, flags and sanctions: the per-denom sum of
    all balances never changes. *)
Lemma mrun_total w ops : forall ms d, total (st_bal (ms_st (mrun w ms ops))) d = total (st_bal (ms_st ms)) d.
Proof.
  unfold mrun. induction ops as [|o r IH]; intros ms d; cbn [fold_left]; [reflexivity|].
  rewrite IH. apply mstep_total.
Qed.

Lemma mstep_store_ok w ms o :
  store_ok (st_orders (ms_st ms)) -> mop_ok o -> store_ok (st_orders (ms_st (fst (mstep w ms o)))).
Proof.
  intros Hok Hop. unfold mstep. destruct (mrun_op w ms o) as [ms'| |] eqn:E; cbn [fst]; try assumption.
  apply (mrun_op_refines _ _ _ _ Hok Hop E).
Qed.

Lemma mrun_store_ok w ops : forall ms,
  store_ok (st_orders (ms_st ms)) -> Forall mop_ok ops -> store_ok (st_orders (ms_st (mrun w ms ops))).
Proof.
  unfold mrun. induction ops as [|o r IH]; intros ms Hok Hops; cbn [fold_left]; [assumption|].
  inversion Hops as [|? ? Ho Hr]; subst. apply IH; [|assumption]. apply mstep_store_ok; assumption.
Qed.

Lemma mrun_app w ms l1 l2 : mrun w ms (l1 ++ l2) = mrun w (mrun w ms l1) l2.
Proof. unfold mrun. apply fold_left_app. Qed.

(** Over every history: whatever happened before (in whatever market, under whatever params),
    an accepted step satisfies the specification, a rejected step changes nothing, and no coin
    is created or destroyed. *)
Theorem mhistory_refines w ms ops :
  store_ok (st_orders (ms_st ms)) -> Forall mop_ok ops ->
  forall pre o post, ops = pre ++ o :: post ->
    let ms1 := mrun w ms pre in
    let ms2 := fst (mstep w ms1 o) in
    (snd (mstep w ms1 o) = true -> mstep_spec w ms1 o ms2) /\
    (snd (mstep w ms1 o) = false -> ms2 = ms1) /\
    (forall d, total (st_bal (ms_st ms2)) d = total (st_bal (ms_st ms)) d).
Proof.
  intros Hok Hops pre o post ->. cbn zeta.
  apply Forall_app in Hops as [Hpre Hrest]. inversion Hrest as [|? ? Ho _]; subst.
  pose proof (mrun_store_ok w pre ms Hok Hpre) as Hok1.
  split; [|split].
  - unfold mstep. destruct (mrun_op w (mrun w ms pre) o) as [ms'| |] eqn:E; cbn [fst snd]; try discriminate.
    intros _. apply (mrun_op_refines _ _ _ _ Hok1 Ho E).
  - unfold mstep. destruct (mrun_op w (mrun w ms pre) o); cbn [fst snd]; try discriminate; reflexivity.
  - intros d. rewrite mstep_total. apply mrun_total.
Qed.

(** ** 6. Orders of another market *)
Lemma forallb_false_in {A} (f : A -> bool) l x : In x l -> f x = false -> forallb f l = false.
Proof.
  intros Hin Hf. destruct (forallb f l) eqn:E; [|reflexivity].
  rewrite forallb_forall in E. rewrite (E x Hin) in Hf. discriminate.
Qed.

Lemma foreign_order_refused w ms mid admin a b e id :
  In id (a ++ b) -> in_market ms mid id = false ->
  mstep w ms (MSettle mid admin a b e) = (ms, false).
Proof.
  intros Hin Hf. unfold mstep. cbn [mrun_op]. unfold msettle.
  destruct (lookup (ms_markets ms) mid) as [m|]; cbn [of_opt rbind]; [|reflexivity].
  rewrite (forallb_false_in _ _ _ Hin Hf). reflexivity.
Qed.

Lemma foreign_order_refused_fill_bids w ms mid seller ids total flat cfee id :
  In id ids -> in_market ms mid id = false ->
  mstep w ms (MFillBids mid seller ids total flat cfee) = (ms, false).
Proof.
  intros Hin Hf. unfold mstep. cbn [mrun_op]. unfold mfill_bids.
  destruct (lookup (ms_markets ms) mid) as [m|]; cbn [of_opt rbind]; [|reflexivity].
  destruct (negb (mk_accepting m && mk_user_settle m)); [reflexivity|].
  destruct (negb (validate_flat (mk_create_ask m) cfee)); [reflexivity|].
  rewrite (forallb_false_in _ _ _ Hin Hf). reflexivity.
Qed.

Lemma foreign_order_refused_fill_asks w ms mid buyer ids tp fees cfee id :
  In id ids -> in_market ms mid id = false ->
  mstep w ms (MFillAsks mid buyer ids tp fees cfee) = (ms, false).
Proof.
  intros Hin Hf. unfold mstep. cbn [mrun_op]. unfold mfill_asks.
  destruct (lookup (ms_markets ms) mid) as [m|]; cbn [of_opt rbind]; [|reflexivity].
  destruct (negb (mk_accepting m && mk_user_settle m)); [reflexivity|].
  destruct (negb (validate_flat (mk_create_bid m) cfee)); [reflexivity|].
  destruct (negb (validate_buyer_fee (mk_buyer_flat m) (mk_buyer_ratios m) tp fees)); [reflexivity|].
  rewrite (forallb_false_in _ _ _ Hin Hf). reflexivity.
Qed.

Lemma lookup_app_some {A} (l l2 : list (positive * A)) k v : lookup l k = Some v -> lookup (l ++ l2) k = Some v.
Proof.
  induction l as [|[k' v'] r IH]; cbn [lookup app]; [discriminate|].
  destruct (Pos.eqb k k'); [auto|exact IH].
Qed.

(** The market of an order never changes: creations append, [lookup] takes the first match. *)
Lemma market_of_grows w ms o ms' id k :
  mrun_op w ms o = Ok ms' ->
  lookup (ms_market_of ms) id = Some k -> lookup (ms_market_of ms') id = Some k.
Proof.
  intros H Hk.
  destruct o as [mid ord cfee [|]|mid admin a b e|mid seller ids ta fl cf|mid buyer ids tp fs cf|p|mid acc|mid us|a on];
    cbn [mrun_op] in H.
  - destruct (mcreate_inv _ _ _ _ _ _ H) as (m & bal1 & hold1 & _ & _ & _ & ->). cbn [ms_market_of].
    apply lookup_app_some, Hk.
  - discriminate.
  - destruct (msettle_inv _ _ _ _ _ _ _ _ H) as (m & _ & _ & _ & _ & ->). exact Hk.
  - destruct (mfill_bids_inv _ _ _ _ _ _ _ _ _ H) as (m & st1 & bal2 & _ & _ & _ & _ & _ & _ & _ & ->). exact Hk.
  - destruct (mfill_asks_inv _ _ _ _ _ _ _ _ _ H) as (m & st1 & bal2 & _ & _ & _ & _ & _ & _ & _ & _ & ->). exact Hk.
  - destruct (valid_params p); [|discriminate]. inversion H; subst; exact Hk.
  - apply rbind_ok in H as (m & _ & H). destruct (Bool.eqb (mk_accepting m) acc); [discriminate|]. inversion H; subst; exact Hk.
  - apply rbind_ok in H as (m & _ & H). destruct (Bool.eqb (mk_user_settle m) us); [discriminate|]. inversion H; subst; exact Hk.
  - inversion H; subst; exact Hk.
Qed.

Lemma in_market_stable w ms o ms' mid id :
  mrun_op w ms o = Ok ms' -> in_market ms mid id = true -> in_market ms' mid id = true.
Proof.
  unfold in_market. intros H. destruct (lookup (ms_market_of ms) id) as [k|] eqn:E; [|discriminate].
  rewrite (market_of_grows _ _ _ _ _ _ H E). auto.
Qed.

(** ** 7. Guards *)
Lemma send_allowed_not_sanctioned w sanc ag from to c :
  send_allowed w sanc ag from to c = true -> mem from sanc = false.
Proof.
  unfold send_allowed. intros H. apply andb_prop in H as [H _]. apply andb_prop in H as [H _].
  apply andb_prop in H as [H _]. apply negb_true_iff, H.
Qed.

Lemma settlement_allowed_spec w sanc ag cfg s :
  settlement_allowed w sanc ag cfg s = true ->
  (forall t e, In t (s_transfers s) -> In e (t_out t) -> mem (fst e) (w_blocked w) = false) /\
  (forall from to c, In (from, to, c) (flat_map transfer_sends (s_transfers s) ++ fee_sends cfg (s_fee_inputs s)) ->
                     send_allowed w sanc ag from to c = true).
Proof.
  unfold settlement_allowed, sends_ok. intros H. apply andb_prop in H as [H1 H2].
  rewrite forallb_forall in H1, H2. split.
  - intros t e Ht He. specialize (H1 t Ht). rewrite forallb_forall in H1. apply negb_true_iff, (H1 e He).
  - intros from to c Hin. apply (H2 (from, to, c) Hin).
Qed.

(** An accepted market settlement: no transfer output is a blocked address, and every bank send
    of closeSettlement (transfers, fee collection) passes the sanction and marker restrictions
    with the admin as transfer agent; in particular no sender is sanctioned. *)
Lemma settle_needs_allowed_sends w ms mid admin a b e ms' :
  mrun_op w ms (MSettle mid admin a b e) = Ok ms' ->
  exists m asks bids s,
    let cfg := cfg_of w m (ms_params ms) in
    lookup (ms_markets ms) mid = Some m /\
    get_orders (st_orders (ms_st ms)) true a None = Ok asks /\
    get_orders (st_orders (ms_st ms)) false b None = Ok bids /\
    build asks bids (match asks with x :: _ => ratio_lookup cfg (o_pd x) | [] => Err end) = Ok s /\
    close cfg (ms_st ms) s = Ok (ms_st ms') /\
    (forall t e, In t (s_transfers s) -> In e (t_out t) -> mem (fst e) (w_blocked w) = false) /\
    (forall from to c, In (from, to, c) (flat_map transfer_sends (s_transfers s) ++ fee_sends cfg (s_fee_inputs s)) ->
                       send_allowed w (ms_sanctioned ms) (Some admin) from to c = true /\
                       mem from (ms_sanctioned ms) = false).
Proof.
  cbn [mrun_op]. intros H.
  destruct (msettle_inv _ _ _ _ _ _ _ _ H) as (m & Hm & _ & (asks & bids & s & Ga & Gb & Hb & Hal) & Hs & _).
  destruct (settlement_allowed_spec _ _ _ _ _ Hal) as [H1 H2].
  assert (Hc : close (cfg_of w m (ms_params ms)) (ms_st ms) s = Ok (ms_st ms')).
  { destruct (settle_ok_build _ _ _ _ _ _ Hs) as (asks' & bids' & s' & Ga' & Gb' & Hb' & _ & Hc).
    rewrite Ga in Ga'. inversion Ga'; subst asks'. rewrite Gb in Gb'. inversion Gb'; subst bids'.
    rewrite Hb in Hb'. inversion Hb'; subst s'. exact Hc. }
  exists m, asks, bids, s. cbn zeta. repeat (split; [assumption|]).
  intros from to c Hin. split; [apply (H2 _ _ _ Hin)|apply (send_allowed_not_sanctioned _ _ _ _ _ _ (H2 _ _ _ Hin))].
Qed.

(** The settlement inspected by the guard is the one that is closed. *)
Lemma fill_bids_closes cfg st seller ids total flat st1 s :
  fill_bids cfg st seller ids total flat = Ok st1 ->
  fill_bids_settlement cfg st seller ids flat = Ok s -> close cfg st s = Ok st1.
Proof.
  unfold fill_bids, fill_bids_settlement. intros H Hs.
  destruct (valid_ids ids && negb (coins_is_zero total)); cbn [negb] in H; [|discriminate].
  destruct (validate_flat (c_seller_flat cfg) flat); cbn [negb] in H; [|discriminate].
  apply rbind_ok in H as (bids & Gb & H). rewrite Gb in Hs. cbn [rbind] in Hs.
  destruct (coins_eqb (sum_assets bids) total) eqn:Eta; cbn [negb] in H; [|discriminate].
  apply coins_eqb_eq in Eta. cbn zeta in H, Hs.
  apply rbind_ok in H as (rf & Hrf & H). rewrite Hrf in Hs. cbn [rbind] in Hs.
  apply rbind_ok in H as (outs & Ho & H). rewrite Ho in Hs. cbn [rbind] in Hs.
  apply rbind_ok in H as (ins & Hi & H). rewrite Hi in Hs. cbn [rbind] in Hs.
  apply rbind_ok in H as (fi & Hfi & H). rewrite Hfi in Hs. cbn [rbind] in Hs.
  inversion Hs; subst s; clear Hs. rewrite Eta. exact H.
Qed.

Lemma nbf_calc_split cfg fee : calc_split (no_buyer_flat cfg) fee = calc_split cfg fee.
Proof. induction fee as [|[d z] r IH]; cbn [calc_split]; [reflexivity|]. rewrite IH. reflexivity. Qed.

Lemma nbf_collect_fees cfg bal hold inputs :
  collect_fees (no_buyer_flat cfg) bal hold inputs = collect_fees cfg bal hold inputs.
Proof.
  unfold collect_fees, collect_fee. destruct inputs as [|[payer fee] [|i2 ir]]; [reflexivity| |];
    cbn zeta; rewrite nbf_calc_split; reflexivity.
Qed.

Lemma nbf_close cfg st s : close (no_buyer_flat cfg) st s = close cfg st s.
Proof.
  unfold close. destruct (release_all (st_hold st) (filled_list s)) as [hold1| |]; cbn [rbind]; try reflexivity.
  destruct (transfer_all (st_bal st) hold1 (s_transfers s)) as [bal1| |]; cbn [rbind]; try reflexivity.
  rewrite nbf_collect_fees. reflexivity.
Qed.

Lemma nbf_ask_fills cfg asks : ask_fills (no_buyer_flat cfg) asks = ask_fills cfg asks.
Proof. induction asks as [|o r IH]; cbn [ask_fills]; [reflexivity|]. rewrite IH. reflexivity. Qed.

Lemma fill_asks_closes cfg st buyer ids tp fees st1 s :
  fill_asks (no_buyer_flat cfg) st buyer ids tp fees = Ok st1 ->
  fill_asks_settlement cfg st buyer ids tp fees = Ok s -> close cfg st s = Ok st1.
Proof.
  unfold fill_asks, fill_asks_settlement. intros H Hs.
  destruct (valid_ids ids && (0 <? snd tp)); cbn [negb] in H; [|discriminate].
  destruct (validate_buyer_flat (c_buyer_flat (no_buyer_flat cfg)) fees); cbn [negb] in H; [|discriminate].
  apply rbind_ok in H as (asks & Ga & H). rewrite Ga in Hs. cbn [rbind] in Hs.
  destruct (coins_eqb (sum_price asks) [tp]); cbn [negb] in H; [|discriminate]. cbn zeta in H, Hs.
  apply rbind_ok in H as (full & Hfull & H).
  rewrite nbf_ask_fills in Hfull. rewrite Hfull in Hs. cbn [rbind] in Hs.
  apply rbind_ok in H as (ins & Hi & H). rewrite Hi in Hs. cbn [rbind] in Hs.
  apply rbind_ok in H as (outs & Ho & H). rewrite Ho in Hs. cbn [rbind] in Hs.
  apply rbind_ok in H as (fi & Hfi & H). rewrite Hfi in Hs. cbn [rbind] in Hs.
  inversion Hs; subst s; clear Hs. rewrite nbf_close in H. exact H.
Qed.

(** Accepted user fills: the settlement that was closed has no blocked output and only
    allowed sends, with NO transfer agent (and so does the creation fee collection). *)
Lemma fill_bids_needs_allowed_sends w ms mid seller ids total flat cfee ms' :
  mrun_op w ms (MFillBids mid seller ids total flat cfee) = Ok ms' ->
  exists m s st1,
    let cfg := cfg_of w m (ms_params ms) in
    lookup (ms_markets ms) mid = Some m /\
    fill_bids_settlement cfg (ms_st ms) seller ids flat = Ok s /\
    close cfg (ms_st ms) s = Ok st1 /\
    (forall t e, In t (s_transfers s) -> In e (t_out t) -> mem (fst e) (w_blocked w) = false) /\
    (forall from to c, In (from, to, c) (flat_map transfer_sends (s_transfers s) ++ fee_sends cfg (s_fee_inputs s)) ->
                       send_allowed w (ms_sanctioned ms) None from to c = true) /\
    (forall d0 z, cfee = Some (d0, z) ->
                  sends_ok w (ms_sanctioned ms) None (fee_sends cfg [(seller, [(d0, z)])]) = true).
Proof.
  cbn [mrun_op]. intros H.
  destruct (mfill_bids_inv _ _ _ _ _ _ _ _ _ H) as (m & st1 & bal2 & Hm & _ & _ & _ & (s & Hs & Hal) & Hf & Hc & _).
  cbn zeta in *. destruct (settlement_allowed_spec _ _ _ _ _ Hal) as [H1 H2].
  exists m, s, st1. cbn zeta. split; [exact Hm|]. split; [exact Hs|].
  split; [apply (fill_bids_closes _ _ _ _ _ _ _ _ Hf Hs)|]. split; [exact H1|]. split; [exact H2|].
  intros d0 z ->. apply (collect_creation_fee_guard _ _ _ _ _ _ _ _ _ Hc).
Qed.

Lemma fill_asks_needs_allowed_sends w ms mid buyer ids tp fees cfee ms' :
  mrun_op w ms (MFillAsks mid buyer ids tp fees cfee) = Ok ms' ->
  exists m s st1,
    let cfg := cfg_of w m (ms_params ms) in
    lookup (ms_markets ms) mid = Some m /\
    fill_asks_settlement cfg (ms_st ms) buyer ids tp fees = Ok s /\
    close cfg (ms_st ms) s = Ok st1 /\
    (forall t e, In t (s_transfers s) -> In e (t_out t) -> mem (fst e) (w_blocked w) = false) /\
    (forall from to c, In (from, to, c) (flat_map transfer_sends (s_transfers s) ++ fee_sends cfg (s_fee_inputs s)) ->
                       send_allowed w (ms_sanctioned ms) None from to c = true) /\
    (forall d0 z, cfee = Some (d0, z) ->
                  sends_ok w (ms_sanctioned ms) None (fee_sends cfg [(buyer, [(d0, z)])]) = true).
Proof.
  cbn [mrun_op]. intros H.
  destruct (mfill_asks_inv _ _ _ _ _ _ _ _ _ H) as (m & st1 & bal2 & Hm & _ & _ & _ & _ & (s & Hs & Hal) & Hf & Hc & _).
  cbn zeta in *. destruct (settlement_allowed_spec _ _ _ _ _ Hal) as [H1 H2].
  exists m, s, st1. cbn zeta. split; [exact Hm|]. split; [exact Hs|].
  split; [apply (fill_asks_closes _ _ _ _ _ _ _ _ Hf Hs)|]. split; [exact H1|]. split; [exact H2|].
  intros d0 z ->. apply (collect_creation_fee_guard _ _ _ _ _ _ _ _ _ Hc).
Qed.

(** ** 8. The exchange's share is computed on the total per denom *)
Lemma spec_delta_feecol cfg ps d :
  (forall p, In p ps -> p_addr p <> c_feecol cfg) -> c_market cfg <> c_feecol cfg ->
  spec_delta cfg ps (c_feecol cfg) d =
  exchange_split (sumz (fun p => amount_of (p_fees p) d) ps) (get_split cfg d).
Proof.
  intros Hp Hne. unfold spec_delta, exchange_share, fees_total.
  rewrite (sumz_zero (fun p => party_delta p (c_feecol cfg) d)).
  2:{ intros p Hin. unfold party_delta. destruct (Pos.eqb_spec (c_feecol cfg) (p_addr p)) as [E|_]; [|reflexivity].
      exfalso. apply (Hp p Hin). symmetry; exact E. }
  rewrite Pos.eqb_refl. destruct (Pos.eqb_spec (c_feecol cfg) (c_market cfg)) as [E|_]; [exfalso; apply Hne; symmetry; exact E|].
  lia.
Qed.

Lemma spec_delta_market cfg ps d :
  (forall p, In p ps -> p_addr p <> c_market cfg) -> c_market cfg <> c_feecol cfg ->
  let T := sumz (fun p => amount_of (p_fees p) d) ps in
  spec_delta cfg ps (c_market cfg) d = T - exchange_split T (get_split cfg d).
Proof.
  intros Hp Hne. cbn zeta. unfold spec_delta, exchange_share, fees_total.
  rewrite (sumz_zero (fun p => party_delta p (c_market cfg) d)).
  2:{ intros p Hin. unfold party_delta. destruct (Pos.eqb_spec (c_market cfg) (p_addr p)) as [E|_]; [|reflexivity].
      exfalso. apply (Hp p Hin). symmetry; exact E. }
  rewrite Pos.eqb_refl. destruct (Pos.eqb_spec (c_market cfg) (c_feecol cfg)) as [E|_]; [exfalso; apply Hne; exact E|].
  lia.
Qed.

Lemma party_of_fill_addr f : p_addr (party_of_fill f) = o_owner (fo_order f).
Proof. unfold party_of_fill. destruct (o_ask (fo_order f)); reflexivity. Qed.

(** For an accepted market settlement: when neither the fee collector nor (second part) the
    market account owns a filled order, the fee collector receives exactly [exchange_split] of
    the per-denom TOTAL of the fees of all filled orders, under the split of the params in force,
    and the market the rest of that total. *)
Lemma msettle_fee_shares w ms mid admin a b e ms' :
  store_ok (st_orders (ms_st ms)) ->
  mrun_op w ms (MSettle mid admin a b e) = Ok ms' ->
  exists m asks bids r s,
    let cfg := cfg_of w m (ms_params ms) in
    lookup (ms_markets ms) mid = Some m /\
    get_orders (st_orders (ms_st ms)) true a None = Ok asks /\
    get_orders (st_orders (ms_st ms)) false b None = Ok bids /\
    build asks bids (Ok r) = Ok s /\
    (mk_addr m <> w_feecol w ->
     forall d, let T := sumz (fun f => amount_of (fo_fees f) d) (fills_of s) in
       ((forall f, In f (fills_of s) -> o_owner (fo_order f) <> w_feecol w) ->
        aget (st_bal (ms_st ms')) (w_feecol w) d =
        aget (st_bal (ms_st ms)) (w_feecol w) d + exchange_split T (get_split cfg d)) /\
       ((forall f, In f (fills_of s) -> o_owner (fo_order f) <> mk_addr m) ->
        aget (st_bal (ms_st ms')) (mk_addr m) d =
        aget (st_bal (ms_st ms)) (mk_addr m) d + (T - exchange_split T (get_split cfg d)))).
Proof.
  intros Hok H. destruct (mrun_op_refines w ms (MSettle mid admin a b e) ms' Hok I H) as [R _]. cbn [mstep_spec] in R.
  destruct R as (m & Hm & _ & R & _). cbn [step_spec] in R.
  destruct R as (asks & bids & r & s & Ga & Gb & Hb & _ & _ & _ & Hbal & _).
  exists m, asks, bids, r, s. cbn zeta. repeat (split; [assumption|]).
  intros Hne d. set (cfg := cfg_of w m (ms_params ms)).
  assert (HT : sumz (fun p => amount_of (p_fees p) d) (map party_of_fill (fills_of s)) =
               sumz (fun f => amount_of (fo_fees f) d) (fills_of s)) by apply fees_total_fills.
  split; intros Hown.
  - change (w_feecol w) with (c_feecol cfg). rewrite Hbal, spec_delta_feecol, HT; [reflexivity| |exact Hne].
    intros p Hp. apply in_map_iff in Hp as (f & <- & Hf). rewrite party_of_fill_addr. apply (Hown f Hf).
  - change (mk_addr m) with (c_market cfg). rewrite Hbal, spec_delta_market, HT; [reflexivity| |exact Hne].
    intros p Hp. apply in_map_iff in Hp as (f & <- & Hf). rewrite party_of_fill_addr. apply (Hown f Hf).
Qed.

(** ** 9. Non-vacuity: two markets, one history *)
Fixpoint mflags (w : world) (ms : mstate) (ops : list mop) : list bool :=
  match ops with
  | [] => []
  | o :: r => snd (mstep w ms o) :: mflags w (fst (mstep w ms o)) r
  end.

Definition exm_world : world := {| w_feecol := 10%positive; w_blocked := [10%positive]; w_markers := [] |}.
Definition exm_market (a : addr) : market :=
  {| mk_addr := a; mk_accepting := true; mk_user_settle := true;
     mk_create_ask := [(2%positive, 10)]; mk_create_bid := [];
     mk_seller_flat := []; mk_seller_ratios := []; mk_buyer_flat := []; mk_buyer_ratios := [] |}.
Definition exm_ms0 : mstate :=
  {| ms_st := {| st_bal := [(1%positive, 1%positive, 20); (1%positive, 2%positive, 10); (2%positive, 2%positive, 200)];
                 st_hold := []; st_orders := [] |};
     ms_market_of := [];
     ms_markets := [(1%positive, exm_market 9%positive); (2%positive, exm_market 8%positive)];
     ms_params := {| pr_default := 500; pr_splits := [] |};
     ms_sanctioned := [] |}.
Definition exm_ask (id : positive) : order :=
  {| o_id := id; o_ask := true; o_owner := 1%positive; o_ad := 1%positive; o_assets := 10;
     o_pd := 2%positive; o_price := 20; o_fees := []; o_partial := false |}.
Definition exm_bid (id : positive) : order :=
  {| o_id := id; o_ask := false; o_owner := 2%positive; o_ad := 1%positive; o_assets := 10;
     o_pd := 2%positive; o_price := 20; o_fees := [(2%positive, 40)]; o_partial := false |}.
Definition exm_ops : list mop :=
  [ MCreate 1 (exm_ask 1) (Some (2%positive, 10)) true;   (* creation fee 10: 9 market, 1 fee collector *)
    MCreate 1 (exm_bid 2) None true;
    MCreate 1 (exm_ask 3) None true;
    MCreate 1 (exm_bid 4) None true;
    MSettle 2 7%positive [1%positive] [2%positive] false;   (* orders of market 1: refused *)
    MSettle 1 7%positive [1%positive] [2%positive] false;   (* fee 40 at 5 %: 38 + 2 *)
    MSetParams {| pr_default := 1000; pr_splits := [] |};
    MSanction 2%positive true;
    MSettle 1 7%positive [3%positive] [4%positive] false;   (* the buyer is sanctioned: refused *)
    MSanction 2%positive false;
    MSettle 1 7%positive [3%positive] [4%positive] false ]. (* fee 40 at 10 %: 36 + 4 *)
Definition exm_keys : list (addr * denom) := [(1,1); (1,2); (2,1); (2,2); (9,2); (8,2); (10,2)]%positive.
Definition exm_bals (ms : mstate) : list Z := map (fun k => aget (st_bal (ms_st ms)) (fst k) (snd k)) exm_keys.

Example C01_multi_witness :
  mflags exm_world exm_ms0 exm_ops = [true; true; true; true; false; true; true; true; false; true; true] /\
  exm_bals exm_ms0                                        = [20; 10; 0; 200; 0; 0; 0] /\
  exm_bals (mrun exm_world exm_ms0 (firstn 1 exm_ops))    = [20; 0; 0; 200; 9; 0; 1] /\
  exm_bals (mrun exm_world exm_ms0 (firstn 6 exm_ops))    = [10; 20; 10; 140; 47; 0; 3] /\
  exm_bals (mrun exm_world exm_ms0 exm_ops)               = [0; 40; 20; 80; 83; 0; 7] /\
  ms_market_of (mrun exm_world exm_ms0 exm_ops) = [(1, 1); (2, 1); (3, 1); (4, 1)]%positive /\
  st_orders (ms_st (mrun exm_world exm_ms0 exm_ops)) = [] /\
  Forall mop_ok exm_ops.
Proof.
  vm_compute. repeat split; try reflexivity. repeat constructor.
Qed.

Print Assumptions mstep_rejected.
Print Assumptions msettle_inv.
Print Assumptions mfill_bids_inv.
Print Assumptions mfill_asks_inv.
Print Assumptions mcreate_inv.
Print Assumptions collect_creation_fee_at.
Print Assumptions mrun_op_refines.
Print Assumptions mrun_op_total.
Print Assumptions mrun_total.
Print Assumptions mhistory_refines.
Print Assumptions foreign_order_refused.
Print Assumptions foreign_order_refused_fill_bids.
Print Assumptions foreign_order_refused_fill_asks.
Print Assumptions market_of_grows.
Print Assumptions settle_needs_allowed_sends.
Print Assumptions send_allowed_not_sanctioned.
Print Assumptions spec_delta_feecol.
Print Assumptions spec_delta_market.
Print Assumptions msettle_fee_shares.
Print Assumptions fill_bids_closes.
Print Assumptions fill_asks_closes.
Print Assumptions fill_bids_needs_allowed_sends.
Print Assumptions fill_asks_needs_allowed_sends.
Print Assumptions C01_multi_witness.
