(** C20: OrderFeeCalc, bid side - what it quotes is what the buyer settlement fee check demands. *)
From Coq Require Import ZArith List Bool String Ascii Lia ZifyBool OrderedTypeEx.
From PV Require Import Exchange.Arith Proofs.ArithProofs Exchange.ReqAttr Exchange.FeeCheck Exchange.AdmitSpec
     Proofs.C20Proofs Proofs.C20Defs Proofs.C20Coins.
Import ListNotations.
Open Scope Z_scope.

(** ** Helpers *)
Lemma ltb_total_ne a b : a <> b -> String.ltb a b = false -> String.ltb b a = true.
Proof.
  unfold String.ltb. intros N. rewrite (String.compare_antisym b a).
  destruct (String.compare a b) eqn:E; cbn; try congruence.
  apply String.compare_eq_iff in E. contradiction.
Qed.

Lemma ceil_div_nonneg a b : 0 <= a -> 0 < b -> 0 <= ceil_div a b.
Proof. intros Ha Hb. pose proof (ceil_div_bounds a b Hb). nia. Qed.

Definition ropt (p : Z) (r : ratio) : coin := (r_fd r, ceil_div (p * r_fa r) (r_pa r)).

Lemma ropts_map l p :
  ratios_wf l -> 0 <= p ->
  flat_map (fun r => match apply_to_loosely (r_pa r) (r_fa r) p with
                     | Some x => [(r_fd r, x)]
                     | None => []
                     end) l = map (ropt p) l.
Proof.
  intros W Hp. induction W as [|r l Hr W IH]; cbn [flat_map map]; [reflexivity|].
  rewrite (apply_to_loosely_ceil r p Hr Hp), IH. reflexivity.
Qed.

Lemma get_ratio_nodup rs r :
  ratio_keys_nodup rs -> In r rs -> get_ratio rs (r_pd r) (r_fd r) = Some r.
Proof.
  unfold ratio_keys_nodup. induction rs as [|r' rest IH]; cbn [get_ratio map]; intros ND HI; [contradiction|].
  inversion ND as [|? ? Hn ND']; subst.
  destruct HI as [->|HI].
  - rewrite !String.eqb_refl. reflexivity.
  - destruct (String.eqb_spec (r_pd r') (r_pd r)) as [E1|N1]; cbn [andb]; [|auto].
    destruct (String.eqb_spec (r_fd r') (r_fd r)) as [E2|N2]; [|auto].
    exfalso. apply Hn. replace (ratio_key r') with (ratio_key r) by (unfold ratio_key; congruence).
    apply in_map. assumption.
Qed.

Lemma get_ratio_some_in rs r :
  In r rs -> exists r', get_ratio rs (r_pd r) (r_fd r) = Some r'.
Proof.
  induction rs as [|r' rest IH]; cbn [get_ratio]; intros HI; [contradiction|].
  destruct (String.eqb (r_pd r') (r_pd r) && String.eqb (r_fd r') (r_fd r)) eqn:E; [eauto|].
  destruct HI as [->|HI]; [|auto]. rewrite !String.eqb_refl in E. discriminate.
Qed.

Lemma ratio_filter_in rs pd r :
  In r (filter (fun r => String.eqb (r_pd r) pd) rs) <-> In r rs /\ r_pd r = pd.
Proof. rewrite filter_In, String.eqb_eq. reflexivity. Qed.

Lemma buyer_ratio_options_eq rs price :
  ratios_wf rs -> 0 <= amt_of price ->
  buyer_ratio_options rs price =
  match filter (fun r => String.eqb (r_pd r) (denom_of price)) rs with
  | [] => if nonempty rs then None else Some []
  | l => Some (map (ropt (amt_of price)) l)
  end.
Proof.
  intros W Hp. unfold buyer_ratio_options.
  assert (Wf : ratios_wf (filter (fun r => String.eqb (r_pd r) (denom_of price)) rs)).
  { unfold ratios_wf in *. rewrite Forall_forall in *. intros r H. apply filter_In in H. apply W, H. }
  destruct (filter _ rs) as [|r0 l] eqn:E; [reflexivity|].
  rewrite ropts_map by assumption. reflexivity.
Qed.

(** The ratio options quoted for a price: one per buyer ratio with that price denom, the ceiling charge. *)
Lemma buyer_ratio_options_spec rs price R :
  ratios_wf rs -> ratio_keys_nodup rs -> 0 <= amt_of price ->
  buyer_ratio_options rs price = Some R ->
  (forall d x, In (d, x) R <->
     exists r, get_ratio rs (denom_of price) d = Some r /\ x = ceil_div (amt_of price * r_fa r) (r_pa r)) /\
  (rs <> [] -> R <> []).
Proof.
  intros W ND Hp. rewrite buyer_ratio_options_eq by assumption.
  destruct (filter _ rs) as [|r0 l] eqn:E in |- *.
  - destruct rs as [|r1 rs']; cbn [nonempty]; [|discriminate]. intros [= <-].
    split; [|auto]. intros d x. cbn. split; [contradiction|]. intros (r & H & _); discriminate.
  - intros H. assert (HR : R = map (ropt (amt_of price)) (filter (fun r => String.eqb (r_pd r) (denom_of price)) rs)) by (rewrite E; congruence).
    clear H. subst R. split; [|intros _; rewrite E; discriminate].
    clear E. intros d x. rewrite in_map_iff. split.
    + intros (r & Hr & HI). apply ratio_filter_in in HI. destruct HI as [HI Hpd].
      unfold ropt in Hr. injection Hr as <- <-. exists r. split; [|reflexivity].
      rewrite <- Hpd. apply get_ratio_nodup; assumption.
    + intros (r & G & ->). apply get_ratio_spec in G. destruct G as (HI & Hpd & Hfd).
      exists r. split; [unfold ropt; congruence|]. apply ratio_filter_in. auto.
Qed.

Lemma buyer_ratio_options_none rs price :
  ratios_wf rs -> 0 <= amt_of price ->
  (buyer_ratio_options rs price = None <->
   rs <> [] /\ forall d, get_ratio rs (denom_of price) d = None).
Proof.
  intros W Hp. rewrite buyer_ratio_options_eq by assumption.
  destruct (filter _ rs) as [|r0 l] eqn:E.
  - assert (G : forall d, get_ratio rs (denom_of price) d = None).
    { intros d. destruct (get_ratio rs (denom_of price) d) as [r|] eqn:G; [|reflexivity].
      apply get_ratio_spec in G. destruct G as (HI & Hpd & _).
      assert (HF : In r (filter (fun r => String.eqb (r_pd r) (denom_of price)) rs)) by (apply ratio_filter_in; auto).
      rewrite E in HF. contradiction. }
    destruct rs as [|r1 rs']; cbn [nonempty]; split; try discriminate; auto.
    + intros [H _]. congruence.
    + intros _. split; [discriminate|assumption].
  - split; [discriminate|]. intros [_ G]. exfalso.
    assert (HF : In r0 (filter (fun r => String.eqb (r_pd r) (denom_of price)) rs)) by (rewrite E; left; reflexivity).
    apply ratio_filter_in in HF. destruct HF as [HI Hpd].
    destruct (get_ratio_some_in _ _ HI) as [r' G']. rewrite Hpd, G in G'. discriminate.
Qed.

Lemma buyer_fee_empty flats rs price :
  validate_buyer_settlement_fee flats rs price [] = negb (nonempty flats) && negb (nonempty rs).
Proof.
  unfold validate_buyer_settlement_fee. cbn [buyer_loop]. destruct (negb _ && negb _); reflexivity.
Qed.

Lemma flats_pos_get flats d f : flats_pos flats -> get_flat flats d = Some f -> 0 < f.
Proof.
  intros FP G. apply get_flat_in in G. unfold flats_pos in FP. rewrite Forall_forall in FP.
  apply (FP _ G).
Qed.

(** A fee of one coin passes exactly when it is at least the flat option of its denom (when the
    market has flat options) plus the ratio charge for its denom (when the market has ratios). *)
Lemma buyer_fee_single_coin flats rs price d a :
  ratios_wf rs -> flats_pos flats -> 0 <= amt_of price -> 0 < a ->
  validate_buyer_settlement_fee flats rs price [(d, a)] =
  match (match flats with [] => Some 0 | _ => get_flat flats d end),
        (match rs with
         | [] => Some 0
         | _ => option_map (fun r => ceil_div (amt_of price * r_fa r) (r_pa r)) (get_ratio rs (denom_of price) d)
         end) with
  | Some fl, Some x => fl + x <=? a
  | _, _ => false
  end.
Proof.
  intros W FP Hp Ha. rewrite buyer_fee_spec_eq by assumption.
  assert (HF : forall f, get_flat flats d = Some f -> 0 < f) by (intros f G; eapply flats_pos_get; eauto).
  assert (HR : forall r, get_ratio rs (denom_of price) d = Some r ->
                         0 < r_pa r /\ 0 <= ceil_div (amt_of price * r_fa r) (r_pa r)).
  { intros r G. destruct (get_ratio_wf _ _ _ _ W G) as [H1 H2]. split; [assumption|].
    apply ceil_div_nonneg; [nia|assumption]. }
  destruct price as [pd pa]. cbn [denom_of amt_of fst snd] in *.
  unfold buyer_fee_spec, covers_both, covers_flat, covers_ratio, ratio_charge.
  cbn [existsb two_coins denom_of amt_of fst snd].
  destruct flats as [|f0 fl]; destruct rs as [|r0 rl].
  - lia.
  - destruct (get_ratio (r0 :: rl) pd d) as [r|] eqn:G; cbn [option_map]; [|reflexivity].
    destruct (HR r eq_refl) as [H1 H2]. replace (0 <? r_pa r) with true by lia.
    destruct (Z.leb_spec (ceil_div (pa * r_fa r) (r_pa r)) a); cbn; lia.
  - destruct (get_flat (f0 :: fl) d) as [f|] eqn:G; [|reflexivity].
    specialize (HF f eq_refl). destruct (Z.leb_spec f a); cbn; lia.
  - destruct (get_flat (f0 :: fl) d) as [f|] eqn:G1;
    destruct (get_ratio (r0 :: rl) pd d) as [r|] eqn:G2; cbn [option_map is_some]; try reflexivity.
    + specialize (HF f eq_refl). destruct (HR r eq_refl) as [H1 H2]. replace (0 <? r_pa r) with true by lia.
      destruct (Z.leb_spec f a); destruct (Z.leb_spec (ceil_div (pa * r_fa r) (r_pa r)) a); cbn; lia.
    + destruct (Z.leb_spec f a); cbn; reflexivity.
    + cbn. rewrite andb_false_r. reflexivity.
Qed.

Lemma coins_valid_two c1 c2 :
  0 < amt_of c1 -> 0 < amt_of c2 -> denom_of c1 <> denom_of c2 ->
  coins_valid (if String.ltb (denom_of c1) (denom_of c2) then [c1; c2] else [c2; c1]) = true.
Proof.
  intros H1 H2 N. destruct (String.ltb (denom_of c1) (denom_of c2)) eqn:L.
  - cbn [coins_valid coins_ascending]. unfold coin_pos. rewrite L. lia.
  - apply ltb_total_ne in L; [|assumption]. cbn [coins_valid coins_ascending]. unfold coin_pos. rewrite L. lia.
Qed.

(** The two directions on abstract tables. *)
Lemma offer_sufficient flats rs price R f x :
  flats_wf flats -> flats_pos flats -> ratios_wf rs -> ratio_keys_nodup rs -> 0 <= amt_of price ->
  buyer_ratio_options rs price = Some R -> pick flats f -> pick R x ->
  (forall c, x = Some c -> 0 < amt_of c) ->
  coins_valid (offer f x) = true /\
  validate_buyer_settlement_fee flats rs price (offer f x) = true.
Proof.
  intros FW FP RW ND Hp B PF PX HX.
  destruct (buyer_ratio_options_spec _ _ _ RW ND Hp B) as [RS RN].
  destruct PF as [[-> ->]|([d1 a1] & I1 & ->)]; destruct PX as [[-> ->]|([d2 a2] & I2 & ->)].
  - assert (rs = []) as -> by (destruct rs; [reflexivity|exfalso; apply RN; [discriminate|reflexivity]]).
    split; reflexivity.
  - specialize (HX _ eq_refl). cbn [amt_of snd] in HX.
    apply RS in I2. destruct I2 as (r & G & Ea).
    unfold offer, drop_zero, amt_of, denom_of. cbn [fst snd]. replace (a2 =? 0) with false by lia.
    split; [cbn [coins_valid coins_ascending]; unfold coin_pos, amt_of; cbn [snd]; lia|].
    rewrite buyer_fee_single_coin by (assumption || constructor).
    destruct rs as [|r0 rl]; [discriminate|]. rewrite G. cbn [option_map]. lia.
  - assert (rs = []) as -> by (destruct rs; [reflexivity|exfalso; apply RN; [discriminate|reflexivity]]).
    assert (P1 : 0 < a1) by (unfold flats_pos in FP; rewrite Forall_forall in FP; apply (FP _ I1)).
    pose proof (in_get_flat _ _ _ FW I1) as G1.
    unfold offer, drop_zero, amt_of, denom_of. cbn [fst snd]. replace (a1 =? 0) with false by lia.
    split; [cbn [coins_valid coins_ascending]; unfold coin_pos, amt_of; cbn [snd]; lia|].
    rewrite buyer_fee_single_coin by assumption.
    destruct flats as [|f0 fl]; [contradiction|]. rewrite G1. lia.
  - specialize (HX _ eq_refl). cbn [amt_of snd] in HX.
    apply RS in I2. destruct I2 as (r & G & Ea).
    assert (P1 : 0 < a1) by (unfold flats_pos in FP; rewrite Forall_forall in FP; apply (FP _ I1)).
    pose proof (in_get_flat _ _ _ FW I1) as G1.
    unfold offer, drop_zero, amt_of, denom_of. cbn [fst snd].
    replace (a1 =? 0) with false by lia. replace (a2 =? 0) with false by lia. cbn [fst snd].
    destruct (String.eqb_spec d1 d2) as [<-|N].
    + split; [cbn [coins_valid coins_ascending]; unfold coin_pos, amt_of; cbn [snd]; lia|].
      rewrite buyer_fee_single_coin by (assumption || lia).
      destruct flats as [|f0 fl]; [contradiction|]. destruct rs as [|r0 rl]; [discriminate|].
      rewrite G1, G. cbn [option_map]. lia.
    + split; [apply (coins_valid_two (d1, a1) (d2, a2)); assumption|].
      assert (V : forall l, NoDup l -> In (d1, a1) l -> In (d2, a2) l ->
                            validate_buyer_settlement_fee flats rs price l = true).
      { intros l NDl J1 J2. apply buyer_fee_iff; try assumption. right; right; right.
        split; [intros ->; contradiction|]. split; [intros ->; discriminate|].
        exists (d1, a1), (d2, a2), a1, a2. split; [assumption|]. split; [assumption|].
        split; [split; [exact G1|cbn; lia]|].
        split; [exists r; split; [exact G|]; split; [exact Ea|cbn; lia]|].
        intros [= E _]. contradiction. }
      assert (NE : (d1, a1) <> (d2, a2)) by (intros [= E _]; contradiction).
      destruct (String.ltb d1 d2); apply V; cbn; auto;
        repeat constructor; cbn; intuition congruence.
Qed.

(** Sufficiency: any combination of a quoted flat option and a quoted ratio option of POSITIVE
    amount, put together like sdk.NewCoins does, is a valid coin set and passes the check. *)
Lemma bid_quote_sufficient m s price C F R f x :
  market_ok m -> stored_of m s -> 0 < amt_of price ->
  quote_bid (Some s) price = Some (C, F, R) -> pick F f -> pick R x ->
  (forall c, x = Some c -> 0 < amt_of c) ->
  C = m_create_bid m /\
  coins_valid (offer f x) = true /\
  validate_buyer_settlement_fee (m_buyer_flat m) (m_buyer_ratios m) price (offer f x) = true.
Proof.
  intros (MW & _ & ND & _ & _ & _ & _ & FP) (Em & _) Hp Q PF PX HX.
  destruct MW as (_ & _ & _ & _ & FW & _ & RW).
  unfold quote_bid in Q. rewrite Em in Q. cbn [clear_reqs m_create_bid m_buyer_flat m_buyer_ratios] in Q.
  destruct (buyer_ratio_options (m_buyer_ratios m) price) as [opts|] eqn:B; [|discriminate].
  injection Q as <- <- <-. split; [reflexivity|].
  apply (offer_sufficient _ _ _ opts); try assumption. lia.
Qed.

Lemma covers_one fee c n :
  In c fee -> denom_of c = denom_of n -> amt_of n <= amt_of c ->
  existsb (fun c' => String.eqb (denom_of c') (denom_of n) && (amt_of n <=? amt_of c')) fee = true.
Proof.
  intros HI E L. apply existsb_exists. exists c. split; [assumption|].
  rewrite E, String.eqb_refl. cbn [andb]. lia.
Qed.

Lemma offer_both d1 a1 d2 a2 :
  a1 <> 0 -> a2 <> 0 ->
  offer (Some (d1, a1)) (Some (d2, a2)) =
  if String.eqb d1 d2 then [(d1, a1 + a2)]
  else if String.ltb d1 d2 then [(d1, a1); (d2, a2)] else [(d2, a2); (d1, a1)].
Proof.
  intros H1 H2. unfold offer, drop_zero, amt_of, denom_of. cbn [fst snd].
  destruct (Z.eqb_spec a1 0); [contradiction|]. destruct (Z.eqb_spec a2 0); [contradiction|]. reflexivity.
Qed.
Lemma offer_both_zero d1 a1 d2 : a1 <> 0 -> offer (Some (d1, a1)) (Some (d2, 0)) = [(d1, a1)].
Proof.
  intros H1. unfold offer, drop_zero, amt_of, denom_of. cbn [fst snd].
  destruct (Z.eqb_spec a1 0); [contradiction|]. reflexivity.
Qed.
Lemma offer_flat d1 a1 : a1 <> 0 -> offer (Some (d1, a1)) None = [(d1, a1)].
Proof.
  intros H1. unfold offer, drop_zero, amt_of. cbn [snd]. destruct (Z.eqb_spec a1 0); [contradiction|]. reflexivity.
Qed.
Lemma offer_ratio d2 a2 : offer None (Some (d2, a2)) = if a2 =? 0 then [] else [(d2, a2)].
Proof. unfold offer, drop_zero, amt_of. cbn [snd]. destruct (a2 =? 0); reflexivity. Qed.

Lemma offer_necessary flats rs price fee :
  flats_pos flats -> ratios_wf rs -> ratio_keys_nodup rs -> 0 <= amt_of price ->
  coins_valid fee = true ->
  validate_buyer_settlement_fee flats rs price fee = true ->
  exists R f x, buyer_ratio_options rs price = Some R /\ pick flats f /\ pick R x /\
                covers_coins fee (offer f x) = true.
Proof.
  intros FP RW ND Hp CV V.
  assert (RO : forall c x, ratio_covered rs price c x ->
             exists R, buyer_ratio_options rs price = Some R /\ In (denom_of c, x) R /\ 0 <= x /\ x <= amt_of c).
  { intros c x (r & G & Ex & Lx).
    destruct (buyer_ratio_options rs price) as [R|] eqn:B.
    - exists R. split; [reflexivity|]. split.
      + apply (proj1 (buyer_ratio_options_spec _ _ _ RW ND Hp B)). exists r. auto.
      + split; [|assumption]. destruct (get_ratio_wf _ _ _ _ RW G) as [H1 H2].
        subst x. apply ceil_div_nonneg; [nia|assumption].
    - apply buyer_ratio_options_none in B; try assumption. destruct B as [_ B].
      rewrite B in G. discriminate. }
  apply buyer_fee_iff_valid_coins in V; try assumption.
  destruct V as [[-> ->]|[(NF & -> & c & fl & HI & G & L)|[(-> & NR & c & x & HI & HC)|
                 (NF & NR & c1 & c2 & fl & x & H1 & H2 & (G & L) & HC & HS)]]].
  - exists [], None, None. split; [reflexivity|]. split; [left; auto|]. split; [left; auto|]. reflexivity.
  - exists [], (Some (denom_of c, fl)), None. split; [reflexivity|].
    split; [right; eexists; split; [apply get_flat_in; exact G|reflexivity]|]. split; [left; auto|].
    pose proof (flats_pos_get _ _ _ FP G) as P.
    rewrite offer_flat by lia.
    unfold covers_coins. cbn [forallb]. rewrite (covers_one fee c (denom_of c, fl)) by (assumption || reflexivity). reflexivity.
  - destruct (RO c x HC) as (R & B & HR & P & L).
    exists R, None, (Some (denom_of c, x)). split; [assumption|]. split; [left; auto|].
    split; [right; eexists; split; [exact HR|reflexivity]|].
    rewrite offer_ratio. destruct (x =? 0); [reflexivity|].
    unfold covers_coins. cbn [forallb]. rewrite (covers_one fee c (denom_of c, x)) by (assumption || reflexivity). reflexivity.
  - destruct (RO c2 x HC) as (R & B & HR & P & Lx).
    pose proof (flats_pos_get _ _ _ FP G) as Pf.
    exists R, (Some (denom_of c1, fl)), (Some (denom_of c2, x)). split; [assumption|].
    split; [right; eexists; split; [apply get_flat_in; exact G|reflexivity]|].
    split; [right; eexists; split; [exact HR|reflexivity]|].
    unfold covers_coins.
    destruct (Z.eqb_spec x 0) as [Z0|NZ].
    + rewrite Z0 at 1. rewrite offer_both_zero by lia. cbn [forallb]. rewrite (covers_one fee c1 (denom_of c1, fl)) by (assumption || reflexivity). reflexivity.
    + rewrite offer_both by lia.
      destruct (String.eqb_spec (denom_of c1) (denom_of c2)) as [E|N].
      * pose proof (coins_valid_denom_inj _ _ _ CV H1 H2 E) as E12. specialize (HS E12).
        cbn [forallb]. rewrite (covers_one fee c1 (denom_of c1, fl + x)) by (assumption || reflexivity). reflexivity.
      * destruct (String.ltb (denom_of c1) (denom_of c2)); cbn [forallb];
          rewrite (covers_one fee c1 (denom_of c1, fl)), (covers_one fee c2 (denom_of c2, x)) by (assumption || reflexivity); reflexivity.
Qed.

(** Necessity: a valid coin set that passes the check offers, denom by denom, at least one
    combination of the quoted options. *)
Lemma bid_quote_necessary m s price fee :
  market_ok m -> stored_of m s -> 0 < amt_of price -> coins_valid fee = true ->
  validate_buyer_settlement_fee (m_buyer_flat m) (m_buyer_ratios m) price fee = true ->
  exists C F R f x, quote_bid (Some s) price = Some (C, F, R) /\ pick F f /\ pick R x /\
                    covers_coins fee (offer f x) = true.
Proof.
  intros (MW & _ & ND & _ & _ & _ & _ & FP) (Em & _) Hp CV V.
  destruct MW as (_ & _ & _ & _ & FW & _ & RW).
  destruct (offer_necessary _ _ _ _ FP RW ND (Z.lt_le_incl _ _ Hp) CV V) as (R & f & x & B & PF & PX & HC).
  exists (m_create_bid m), (m_buyer_flat m), R, f, x.
  split; [|auto]. unfold quote_bid. rewrite Em. cbn [clear_reqs m_create_bid m_buyer_flat m_buyer_ratios].
  rewrite B. reflexivity.
Qed.

(** One unit below the quoted flat + ratio of one denom, paid as one coin, is refused. *)
Lemma bid_quote_minus_one_single m s price C F R d fl x :
  market_ok m -> stored_of m s -> 0 < amt_of price ->
  quote_bid (Some s) price = Some (C, F, R) ->
  (F = [] /\ fl = 0 \/ In (d, fl) F) -> (R = [] /\ x = 0 \/ In (d, x) R) -> (F <> [] \/ R <> []) ->
  validate_buyer_settlement_fee (m_buyer_flat m) (m_buyer_ratios m) price
    (if 0 <? fl + x - 1 then [(d, fl + x - 1)] else []) = false.
Proof.
  intros (MW & _ & ND & _ & _ & _ & _ & FP) (Em & _) Hp Q HF HX NE.
  destruct MW as (_ & _ & _ & _ & FW & _ & RW).
  unfold quote_bid in Q. rewrite Em in Q. cbn [clear_reqs m_create_bid m_buyer_flat m_buyer_ratios] in Q.
  destruct (buyer_ratio_options (m_buyer_ratios m) price) as [opts|] eqn:B; [|discriminate].
  injection Q as <- <- <-.
  assert (Hp' : 0 <= amt_of price) by lia.
  destruct (buyer_ratio_options_spec _ _ _ RW ND Hp' B) as [RS RN].
  set (flats := m_buyer_flat m) in *. set (rs := m_buyer_ratios m) in *. clearbody flats rs.
  assert (RE : opts = [] -> rs = []).
  { intros ->. destruct rs; [reflexivity|exfalso; apply RN; [discriminate|reflexivity]]. }
  destruct (Z.ltb_spec 0 (fl + x - 1)) as [Pa|Pa].
  - rewrite buyer_fee_single_coin by assumption.
    assert (E1 : match flats with [] => Some 0 | _ => get_flat flats d end = Some fl).
    { destruct HF as [[-> ->]|HI]; [reflexivity|].
      rewrite (in_get_flat _ _ _ FW HI). destruct flats; [contradiction|reflexivity]. }
    assert (E2 : match rs with
                 | [] => Some 0
                 | _ => option_map (fun r => ceil_div (amt_of price * r_fa r) (r_pa r)) (get_ratio rs (denom_of price) d)
                 end = Some x).
    { destruct HX as [[E ->]|HI]; [rewrite (RE E); reflexivity|].
      apply RS in HI. destruct HI as (r & G & ->). rewrite G. cbn [option_map].
      destruct rs; [discriminate|reflexivity]. }
    rewrite E1, E2. lia.
  - rewrite buyer_fee_empty.
    destruct NE as [NE|NE].
    + destruct flats; [congruence|reflexivity].
    + destruct rs as [|r0 rl]; [|apply andb_false_r].
      cbn in B. congruence.
Qed.

Lemma two_coins_false_r (F R : coin -> bool) l : (forall c, R c = false) -> two_coins F R l = false.
Proof.
  intros HR. induction l as [|c l IH]; [reflexivity|]. cbn [two_coins].
  rewrite HR, IH. replace (existsb R l) with false.
  - rewrite andb_false_r. reflexivity.
  - symmetry. clear IH. induction l as [|c' l IH]; [reflexivity|]. cbn [existsb]. rewrite HR, IH. reflexivity.
Qed.

Lemma existsb_false {A} (f : A -> bool) l : (forall c, f c = false) -> existsb f l = false.
Proof. intros H. induction l as [|c l IH]; [reflexivity|]. cbn [existsb]. rewrite H, IH. reflexivity. Qed.

(** The quote fails for an existing market exactly when no bid at that price can be admitted
    because the market has buyer ratios but none for the price denom. *)
Lemma bid_quote_none m s price accs fees cf :
  market_wf m -> stored_of m s -> 0 <= amt_of price ->
  quote_bid (Some s) price = None -> admits (Some s) accs (ACreateBid price fees cf) = false.
Proof.
  intros MW (Em & _) Hp Q.
  destruct MW as (_ & _ & _ & _ & FW & _ & RW).
  unfold quote_bid in Q. unfold admits. rewrite Em in *.
  cbn [clear_reqs m_create_bid m_buyer_flat m_buyer_ratios m_accepting_orders] in *.
  destruct (buyer_ratio_options (m_buyer_ratios m) price) as [opts|] eqn:B; [discriminate|].
  apply buyer_ratio_options_none in B; try assumption. destruct B as [NR G].
  replace (validate_buyer_settlement_fee (m_buyer_flat m) (m_buyer_ratios m) price fees) with false;
    [apply andb_false_r|].
  symmetry. rewrite buyer_fee_spec_eq by assumption. unfold buyer_fee_spec.
  assert (HR : forall c, is_some (covers_ratio (m_buyer_ratios m) price c) = false).
  { intros c. unfold covers_ratio. rewrite G. reflexivity. }
  assert (HB : forall c, covers_both (m_buyer_flat m) (m_buyer_ratios m) price c = false).
  { intros c. unfold covers_both, covers_ratio. rewrite G. destruct (covers_flat _ c); reflexivity. }
  destruct (m_buyer_ratios m) as [|r0 rl] eqn:Er; [congruence|]. rewrite <- Er in *.
  destruct (m_buyer_flat m) as [|f0 fl] eqn:Ef; rewrite <- ?Ef in *.
  - apply existsb_false. assumption.
  - rewrite (existsb_false _ _ HB). apply two_coins_false_r. assumption.
Qed.

(** REFUTED for ratio options of amount zero: OrderFeeCalc quotes "0 <denom>" for a buyer ratio
    whose fee amount is zero; sdk.NewCoins drops the zero coin (and ValidateBasic refuses a zero
    coin), and the check then finds no coin for the ratio side. *)
Definition zq_market : market :=
  {| m_create_ask := []; m_create_bid := []; m_create_com := []; m_seller_flat := [];
     m_seller_ratios := [ {| r_pd := "pcoin"; r_pa := 100; r_fd := "pcoin"; r_fa := 1 |} ];
     m_buyer_flat := [("acoin"%string, 10)];
     m_buyer_ratios := [ {| r_pd := "pcoin"; r_pa := 2; r_fd := "bcoin"; r_fa := 0 |} ];
     m_accepting_orders := true; m_user_settle := true; m_accepting_commitments := true;
     m_req_ask := []; m_req_bid := []; m_req_com := []; m_bips := 0; m_interm := "" |}.

Lemma bid_quote_zero_ratio_refuted :
  exists s price C F R f x,
    market_ok zq_market /\ create_market zq_market = Some s /\ 0 < amt_of price /\
    quote_bid (Some s) price = Some (C, F, R) /\ pick F f /\ pick R x /\
    x = Some ("bcoin"%string, 0) /\
    validate_buyer_settlement_fee (m_buyer_flat zq_market) (m_buyer_ratios zq_market) price (offer f x) = false /\
    admits_msg (Some s) [] (ACreateBid price (offer f x) None) = false.
Proof.
  exists {| s_mkt := clear_reqs zq_market; s_req_ask := []; s_req_bid := []; s_req_com := [] |},
         ("pcoin"%string, 100), [], [("acoin"%string, 10)], [("bcoin"%string, 0)],
         (Some ("acoin"%string, 10)), (Some ("bcoin"%string, 0)).
  split.
  { unfold market_ok, market_wf, flats_wf, ratios_wf, ratio_wf, ratio_keys_nodup, flats_pos, zq_market.
    cbn [m_create_ask m_create_bid m_create_com m_seller_flat m_seller_ratios m_buyer_flat m_buyer_ratios
         map fst ratio_key r_pd r_fd r_pa r_fa].
    repeat split; repeat constructor; cbn; try lia; intros []. }
  split; [vm_compute; reflexivity|].
  split; [cbn; lia|].
  split; [vm_compute; reflexivity|].
  split; [right; eexists; split; [left; reflexivity|reflexivity]|].
  split; [right; eexists; split; [left; reflexivity|reflexivity]|].
  split; [reflexivity|].
  split; vm_compute; reflexivity.
Qed.
