(** Lemmas about Fees/TxBlocks.v: gas phases, blocks of several transactions on the running state,
    the mempool's check state, governance proposals and the configuration as chain state (C08). *)
From Coq Require Import ZArith NArith List Bool Lia ZifyBool.
From PV Require Import Exchange.Arith Fees.TxFees Fees.TxBlocks Proofs.TxFeesProofs.
Import ListNotations.
Open Scope Z_scope.

(** * Gas phases *)
Lemma gas_phase_block_full limit left used g : left <= 0 -> gas_phase limit left used g = GasBlockFull.
Proof. intros H. unfold gas_phase. destruct (left <=? 0) eqn:E; [reflexivity|lia]. Qed.

Lemma gas_phase_measured limit left used ga gt : 0 < left ->
  (limit < ga -> gas_phase limit left used (GMeasured ga gt) = GasAnte) /\
  (ga <= limit -> limit < gt -> gas_phase limit left used (GMeasured ga gt) = GasMsgs) /\
  (ga <= limit -> gt <= limit -> left < Z.min used limit -> gas_phase limit left used (GMeasured ga gt) = GasPost) /\
  (ga <= limit -> gt <= limit -> Z.min used limit <= left -> gas_phase limit left used (GMeasured ga gt) = GasOk).
Proof.
  intros Hl. unfold gas_phase. destruct (left <=? 0) eqn:E; [lia|].
  repeat split; intros.
  - destruct (limit <? ga) eqn:E1; [reflexivity|lia].
  - destruct (limit <? ga) eqn:E1; [lia|]. destruct (limit <? gt) eqn:E2; [reflexivity|lia].
  - destruct (limit <? ga) eqn:E1; [lia|]. destruct (limit <? gt) eqn:E2; [lia|].
    destruct (left <? Z.min used limit) eqn:E3; [reflexivity|lia].
  - destruct (limit <? ga) eqn:E1; [lia|]. destruct (limit <? gt) eqn:E2; [lia|].
    destruct (left <? Z.min used limit) eqn:E3; [lia|reflexivity].
Qed.

(** what each phase does to the state *)
Lemma deliver_phases cfg s t s' r :
  deliver cfg s t = (s', r) ->
  (t_gas_out t = GasAnte \/ t_gas_out t = GasBlockFull -> r = RAnteFail /\ s' = s) /\
  (t_gas_out t = GasMsgs \/ t_gas_out t = GasPost ->
     (r = RAnteFail /\ s' = s) \/
     (r = RFailed /\ (forall a d, bal s' a d = bal s a d + spec_fail_delta cfg t a d) /\
      seq_bumped s s' t /\ allow_others s s' t)) /\
  (r = ROk -> t_gas_out t = GasOk).
Proof.
  intros H. pose proof H as Hc. apply deliver_cases in Hc. split; [|split].
  - intros Hg. destruct Hc as [Hc|(s1 & Ea & Hnf & _)]; [exact Hc|].
    exfalso. destruct Hg as [Hg|Hg]; [|congruence].
    apply ante_spec in Ea. destruct Ea as (Hn & _). congruence.
  - intros Hg. destruct Hc as [Hc|(s1 & Ea & Hnf & [(-> & ->)|(-> & Hok & _)])].
    + left. exact Hc.
    + right. split; [reflexivity|]. apply deliver_failed. exact H.
    + exfalso. destruct Hg; congruence.
  - intros ->. destruct Hc as [(Hr & _)|(s1 & _ & _ & [(Hr & _)|(_ & Hok & _)])]; try discriminate. exact Hok.
Qed.

(** * One transaction executed in a block: the clauses of the property *)
Lemma deliver_clauses cfg s t : wf_cfg cfg -> wf_tx t ->
  tx_clauses cfg s t (fst (deliver cfg s t)) (snd (deliver cfg s t)).
Proof.
  intros Hc Hw. destruct (deliver cfg s t) as [s' r] eqn:Ed. cbn [fst snd]. destruct r; cbn [tx_clauses].
  - apply deliver_cases in Ed. destruct Ed as [(Hr & _)|(s1 & _ & _ & [(Hr & _)|(Hr & _)])]; discriminate.
  - apply deliver_cases in Ed. destruct Ed as [(_ & ->)|(s1 & _ & _ & [(Hr & _)|(Hr & _)])]; try discriminate. reflexivity.
  - apply deliver_failed. assumption.
  - apply deliver_ok; assumption.
Qed.

Lemma inst_fee s o b : t_fee (inst s o b) = t_fee (b_tx b).
Proof. reflexivity. Qed.
Lemma inst_msgs s o b : t_msgs (inst s o b) = t_msgs (b_tx b).
Proof. reflexivity. Qed.
Lemma inst_routed_all s o b : routed_all (inst s o b) = routed_all (b_tx b).
Proof. reflexivity. Qed.

Lemma inst_wf s o b : wf_tx (b_tx b) -> wf_tx (inst s o b).
Proof. intros H. exact H. Qed.

(** * The trace of a block *)
(* consecutive steps run on the running state *)
Inductive chained : state -> list tstep -> Prop :=
| chained_nil s : chained s []
| chained_cons s e tr : ts_pre e = s -> chained (ts_post e) tr -> chained s (e :: tr).

Lemma end_state_cons s e tr : end_state s (e :: tr) = end_state (ts_post e) tr.
Proof. reflexivity. Qed.

Lemma trace_chained cfg bs : forall s left, chained s (trace cfg s left bs).
Proof.
  induction bs as [|[b inb] bs IH]; intros s left; cbn [trace]; [constructor|].
  destruct inb; [|apply IH].
  destruct (deliver cfg s (deliver_inst s left b)) as [s' res] eqn:Ed.
  constructor; [reflexivity|]. cbn [ts_post]. apply IH.
Qed.

(* every step is the real [deliver] on its own pre-state *)
Lemma trace_deliver cfg bs : forall s left,
  Forall (fun e => deliver cfg (ts_pre e) (ts_tx e) = (ts_post e, ts_res e)) (trace cfg s left bs).
Proof.
  induction bs as [|[b inb] bs IH]; intros s left; cbn [trace]; [constructor|].
  destruct inb; [|apply IH].
  destruct (deliver cfg s (deliver_inst s left b)) as [s' res] eqn:Ed.
  constructor; [cbn [ts_pre ts_tx ts_post ts_res]; exact Ed|apply IH].
Qed.

Definition wf_btxs (bs : list (btx * bool)) : Prop := Forall (fun bb => wf_tx (b_tx (fst bb))) bs.

Lemma trace_wf cfg bs : forall s left, wf_btxs bs -> Forall (fun e => wf_tx (ts_tx e)) (trace cfg s left bs).
Proof.
  induction bs as [|[b inb] bs IH]; intros s left Hw; cbn [trace]; [constructor|].
  inversion Hw as [|? ? Hb Hbs]. subst. destruct inb; [|apply IH; assumption].
  destruct (deliver cfg s (deliver_inst s left b)) as [s' res] eqn:Ed.
  constructor; [cbn [ts_tx]; apply inst_wf; exact Hb|apply IH; assumption].
Qed.

Lemma trace_clauses cfg bs s left : wf_cfg cfg -> wf_btxs bs ->
  Forall (fun e => tx_clauses cfg (ts_pre e) (ts_tx e) (ts_post e) (ts_res e)) (trace cfg s left bs).
Proof.
  intros Hc Hw. pose proof (trace_deliver cfg bs s left) as Hd. pose proof (trace_wf cfg bs s left Hw) as Hwf.
  rewrite Forall_forall in *. intros e He. specialize (Hd e He). specialize (Hwf e He).
  pose proof (deliver_clauses cfg (ts_pre e) (ts_tx e) Hc Hwf) as H. rewrite Hd in H. exact H.
Qed.

(** the state after the block: every balance moved by the sum of the per-transaction closed forms;
    sequence numbers advanced exactly for the signers of transactions that passed the ante handler *)
Lemma clauses_delta cfg e :
  tx_clauses cfg (ts_pre e) (ts_tx e) (ts_post e) (ts_res e) ->
  (forall a d, bal (ts_post e) a d = bal (ts_pre e) a d + tx_delta cfg e a d) /\
  (forall a, seqn (ts_post e) a = seqn (ts_pre e) a + tx_seq_delta e a).
Proof.
  unfold tx_delta, tx_seq_delta. destruct (ts_res e); cbn [tx_clauses passed_ante andb].
  1, 2: intros ->; split; intros; ring.
  - intros (Hb & Hs & _). split; [exact Hb|]. intros a. rewrite Hs. unfold ind. reflexivity.
  - intros (Hb & _ & _ & Hs & _). split; [exact Hb|]. intros a. rewrite Hs. unfold ind. reflexivity.
Qed.

Lemma chained_sums cfg tr : forall s, chained s tr ->
  Forall (fun e => tx_clauses cfg (ts_pre e) (ts_tx e) (ts_post e) (ts_res e)) tr ->
  (forall a d, bal (end_state s tr) a d = bal s a d + zsum (fun e => tx_delta cfg e a d) tr) /\
  (forall a, seqn (end_state s tr) a = seqn s a + zsum (fun e => tx_seq_delta e a) tr).
Proof.
  induction tr as [|e tr IH]; intros s Hch Hall.
  - split; intros; cbn [end_state fold_left]; rewrite zsum_nil; ring.
  - inversion Hch as [|? ? ? Hpre Hrest]. subst. inversion Hall as [|? ? He Htr]. subst.
    destruct (IH _ Hrest Htr) as (Hb & Hs). destruct (clauses_delta cfg e He) as (Hb1 & Hs1).
    split; intros; rewrite end_state_cons, zsum_cons.
    + rewrite Hb, Hb1. ring.
    + rewrite Hs, Hs1. ring.
Qed.

Lemma block_sums cfg s left bs : wf_cfg cfg -> wf_btxs bs ->
  let tr := trace cfg s left bs in
  (forall a d, bal (end_state s tr) a d = bal s a d + zsum (fun e => tx_delta cfg e a d) tr) /\
  (forall a, seqn (end_state s tr) a = seqn s a + zsum (fun e => tx_seq_delta e a) tr).
Proof.
  intros Hc Hw tr. apply chained_sums; [apply trace_chained|apply trace_clauses; assumption].
Qed.

(** the charges of a block: what the payers are charged is what the fee collector keeps plus what the
    recipients get (per transaction: [C08_distribution_conserves]; here summed over the block) *)
Definition tx_recipients (cfg : config) (accts : list acct) (e : tstep) (d : denom) : Z :=
  match ts_res e with
  | ROk => zsum (fun a => share cfg (routed_all (ts_tx e)) a d) accts
  | _ => 0
  end.
Definition tx_collector (cfg : config) (e : tstep) (d : denom) : Z :=
  match ts_res e with
  | ROk => amount_of (t_fee (ts_tx e)) d - shares_total cfg (routed_all (ts_tx e)) d
  | RFailed => amount_of (base_fee cfg (t_gas (ts_tx e))) d
  | _ => 0
  end.

Lemma block_charges cfg accts d tr : NoDup accts ->
  (forall e ch a, In e tr -> In ch (flat_map (charges cfg) (routed_all (ts_tx e))) -> ch_recipient ch = Some a -> In a accts) ->
  zsum (fun e => tx_charge cfg e d) tr
  = zsum (fun e => tx_collector cfg e d) tr + zsum (fun e => tx_recipients cfg accts e d) tr.
Proof.
  intros Hnd Hin. rewrite <- zsum_plus. apply zsum_ext. intros e He.
  unfold tx_charge, tx_collector, tx_recipients. destruct (ts_res e); try ring.
  rewrite (shares_sum cfg _ accts d Hnd (fun ch a H1 H2 => Hin e ch a He H1 H2)). ring.
Qed.

(** success inside a block: the declared fee covers base + all additional fees under the configuration
    of the chain state, and every custom fee was convertible under it *)
Lemma route_all_calc cfg t rs : forall st st',
  route_all cfg t st rs = Some st' -> Forall (fun r => calc_one cfg dist0 r <> None) rs.
Proof.
  induction rs as [|r rs IH]; intros st st' H; [constructor|]. cbn [route_all] in H.
  destruct (route cfg t st r) as [st1|] eqn:E; [|discriminate].
  constructor; [|eapply IH; eassumption].
  unfold route in E. destruct st as [b m]. destruct (calc_one cfg dist0 r); [discriminate|discriminate E].
Qed.

Lemma calc_one_convertible cfg r cu :
  calc_one cfg dist0 r <> None -> r_custom r = Some cu -> convert cfg (cu_coin cu) <> None.
Proof.
  unfold calc_one. intros H Hcu. rewrite Hcu in H.
  destruct (match lookup_fee (schedule cfg) (r_type r) with
            | Some e => increase dist0 (fe_coin e) (fe_bips e) (fe_recipient e)
            | None => Some dist0 end); [|congruence].
  destruct (convert cfg (cu_coin cu)); congruence.
Qed.

Lemma deliver_ok_convertible cfg s t s' :
  deliver cfg s t = (s', ROk) ->
  forall r cu, In r (routed_all t) -> r_custom r = Some cu -> convert cfg (cu_coin cu) <> None.
Proof.
  intros H r cu Hr Hcu. apply deliver_cases in H.
  destruct H as [(Hr0 & _)|(s1 & _ & _ & [(Hr0 & _)|(_ & _ & b2 & m & Er & _)])]; try discriminate.
  apply route_all_calc in Er. rewrite Forall_forall in Er. eapply calc_one_convertible; [apply Er; exact Hr|exact Hcu].
Qed.

Lemma trace_ok_covered cfg bs s left : wf_cfg cfg -> wf_btxs bs ->
  forall e, In e (trace cfg s left bs) -> ts_res e = ROk ->
  (forall d, amount_of (base_fee cfg (t_gas (ts_tx e))) d + additional cfg (routed_all (ts_tx e)) d
             <= amount_of (t_fee (ts_tx e)) d) /\
  (forall r cu, In r (routed_all (ts_tx e)) -> r_custom r = Some cu -> convert cfg (cu_coin cu) <> None).
Proof.
  intros Hc Hw e He Hr. pose proof (trace_clauses cfg bs s left Hc Hw) as Hcl.
  pose proof (trace_deliver cfg bs s left) as Hd. rewrite Forall_forall in Hcl, Hd.
  specialize (Hcl e He). specialize (Hd e He). rewrite Hr in Hcl, Hd. cbn [tx_clauses] in Hcl.
  split; [exact (proj1 (proj2 Hcl))|]. eapply deliver_ok_convertible. exact Hd.
Qed.

(** * The mempool: admission is decided on the running check state; what is admitted is covered *)
Lemma mempool_length cfg bs : forall cs, length (mempool cfg cs bs) = length bs.
Proof.
  induction bs as [|b bs IH]; intros cs; cbn [mempool]; [reflexivity|].
  destruct (b_forced b); [cbn [length]; rewrite IH; reflexivity|].
  destruct (ante cfg cs (check_inst cs b) true); cbn [length]; rewrite IH; reflexivity.
Qed.

Lemma mempool_admitted_covered cfg bs : wf_cfg cfg -> Forall (fun b => wf_tx (b_tx b)) bs ->
  forall cs k b, nth_error bs k = Some b -> nth_error (mempool cfg cs bs) k = Some true ->
  covered_pre cfg (b_tx b) (routed_top (b_tx b)).
Proof.
  intros Hc. induction bs as [|b0 bs IH]; intros Hw cs k b Hb Hk; [destruct k; discriminate|].
  inversion Hw as [|? ? Hw0 Hws]. subst. cbn [mempool] in Hk.
  destruct k as [|k].
  - cbn [nth_error] in Hb. inversion Hb. subst b0. clear Hb.
    destruct (b_forced b); [cbn in Hk; discriminate|].
    destruct (ante cfg cs (check_inst cs b) true) as [cs'|] eqn:Ea; [|cbn in Hk; discriminate].
    assert (Hck : check_tx cfg cs (check_inst cs b) = true) by (unfold check_tx; rewrite Ea; reflexivity).
    pose proof Hw0 as (Hf & Hall).
    exact (admitted_covered cfg cs (check_inst cs b) Hc (conj Hf Hall) (routed_top_wf _ Hall) Hck).
  - cbn [nth_error] in Hb. destruct (b_forced b0).
    + cbn [nth_error] in Hk. eapply IH; eassumption.
    + destruct (ante cfg cs (check_inst cs b0) true); cbn [nth_error] in Hk; eapply IH; eassumption.
Qed.

(** a transaction that is not in the block changes nothing: [trace] skips it *)
Lemma trace_skip cfg s left b r : trace cfg s left ((b, false) :: r) = trace cfg s left r.
Proof. reflexivity. Qed.

(** * Governance *)
Lemma gov_exec_not_passed c v ms : snd (gov_exec c v ms) = false -> fst (gov_exec c v ms) = c.
Proof.
  unfold gov_exec. destruct v; [|reflexivity]. destruct (gov_msgs c ms); [discriminate|reflexivity].
Qed.

Lemma gov_exec_passed c v ms : snd (gov_exec c v ms) = true -> v = true /\ gov_msgs c ms = Some (fst (gov_exec c v ms)).
Proof.
  unfold gov_exec. destruct v; [|discriminate]. destruct (gov_msgs c ms); [intros _; split; reflexivity|discriminate].
Qed.

(* what one executed proposal message does to the accounts: only a bank send moves coins, and it moves
   exactly its amount - no message fee *)
Lemma gov_apply_state c m c' : gov_apply c m = Some c' ->
  (forall a d, bal (ch_st c') a d = bal (ch_st c) a d + credit_of (gov_moves [m]) a d - debit_of (gov_moves [m]) a d) /\
  seqn (ch_st c') = seqn (ch_st c) /\ allow (ch_st c') = allow (ch_st c).
Proof.
  unfold gov_apply, gov_moves. destruct m as [ty co r b|ty co r b|ty|d0|v|f t co]; cbn [flat_map app].
  1, 2: destruct (snd co <=? 0); [discriminate|]; destruct (determine_bips r b); [|discriminate];
    destruct (lookup_fee (schedule (ch_cfg c)) ty); try discriminate; intros H; inversion H; subst c';
    cbn [with_cfg ch_st]; (split; [intros; unfold credit_of, debit_of; rewrite !zsum_nil; ring|split; reflexivity]).
  - destruct (lookup_fee (schedule (ch_cfg c)) ty); [|discriminate]. intros H. inversion H. subst c'.
    cbn [with_cfg ch_st]. split; [intros; unfold credit_of, debit_of; rewrite !zsum_nil; ring|split; reflexivity].
  - intros H. inversion H. subst c'. cbn [with_cfg ch_st].
    split; [intros; unfold credit_of, debit_of; rewrite !zsum_nil; ring|split; reflexivity].
  - destruct (v <? 1); [discriminate|]. intros H. inversion H. subst c'. cbn [with_cfg ch_st].
    split; [intros; unfold credit_of, debit_of; rewrite !zsum_nil; ring|split; reflexivity].
  - destruct (is_zero co); [discriminate|]. destruct (N.eqb t collector); [discriminate|].
    destruct (exec_move (bal (ch_st c)) {| mv_from := f; mv_to := t; mv_coins := co |}) as [b|] eqn:Em; [|discriminate].
    intros H. inversion H. subst c'. cbn [ch_st with_bal bal seqn allow].
    split; [|split; reflexivity]. intros a d.
    assert (Hx : exec_moves (bal (ch_st c)) [{| mv_from := f; mv_to := t; mv_coins := co |}] = Some b)
      by (cbn [exec_moves]; rewrite Em; reflexivity).
    rewrite (exec_moves_spec _ _ _ Hx a d). ring.
Qed.

Lemma gov_moves_cons m ms : gov_moves (m :: ms) = gov_moves [m] ++ gov_moves ms.
Proof. unfold gov_moves. cbn [flat_map]. rewrite app_nil_r. reflexivity. Qed.

Lemma gov_msgs_state ms : forall c c', gov_msgs c ms = Some c' ->
  (forall a d, bal (ch_st c') a d = bal (ch_st c) a d + credit_of (gov_moves ms) a d - debit_of (gov_moves ms) a d) /\
  seqn (ch_st c') = seqn (ch_st c) /\ allow (ch_st c') = allow (ch_st c).
Proof.
  induction ms as [|m ms IH]; intros c c' H; cbn [gov_msgs] in H.
  - inversion H. subst. split; [intros; unfold gov_moves, credit_of, debit_of; cbn [flat_map]; rewrite !zsum_nil; ring|split; reflexivity].
  - destruct (gov_apply c m) as [c1|] eqn:E; [|discriminate].
    apply gov_apply_state in E. destruct E as (Hb1 & Hs1 & Ha1).
    destruct (IH _ _ H) as (Hb & Hs & Ha). split; [|split; congruence].
    intros a d. rewrite gov_moves_cons, credit_of_app, debit_of_app, Hb, Hb1. ring.
Qed.

(** the configuration a block consults is the chain state's, and only a direct write or a proposal that
    passes as a whole changes it *)
Lemma bstep_cfg c o :
  ch_cfg (fst (bstep c o)) = ch_cfg c \/
  (exists cfg, o = OSetCfg cfg) \/
  (exists v ms, o = OGov v ms /\ snd (gov_exec c v ms) = true).
Proof.
  destruct o as [mg bs|v ms|cfg|a d v|g p v]; cbn [bstep].
  - left. reflexivity.
  - destruct (gov_exec c v ms) as [c' ok] eqn:E. destruct ok.
    + right. right. exists v, ms. split; [reflexivity|rewrite E; reflexivity].
    + left. cbn [fst]. pose proof (gov_exec_not_passed c v ms) as H. rewrite E in H. cbn [fst snd] in H.
      rewrite (H eq_refl). reflexivity.
  - right. left. exists cfg. reflexivity.
  - left. reflexivity.
  - left. reflexivity.
Qed.

Lemma gov_failed_step c v ms : snd (gov_exec c v ms) = false -> fst (bstep c (OGov v ms)) = c.
Proof.
  intros H. cbn [bstep]. pose proof (gov_exec_not_passed c v ms H) as Hc.
  destruct (gov_exec c v ms) as [c' ok]. cbn [fst snd] in *. exact Hc.
Qed.

(** a block of transactions never changes the configuration *)
Lemma run_block_cfg c mg bs : ch_cfg (fst (run_block c mg bs)) = ch_cfg c.
Proof. reflexivity. Qed.

(** * Histories of blocks *)
Lemma in_block_wf bs adm : Forall (fun b => wf_tx (b_tx b)) bs -> wf_btxs (in_block bs adm).
Proof.
  intros H. unfold wf_btxs, in_block. rewrite Forall_forall in *. intros bb Hbb.
  apply in_map_iff in Hbb. destruct Hbb as ([b a] & <- & Hin). cbn [fst]. apply H. eapply in_combine_l. exact Hin.
Qed.

(** every block of every history: the per-transaction clauses hold against the RUNNING state, under the
    configuration of the chain state reached by the history *)
Lemma block_history c0 ops mg bs :
  let c := brun c0 ops in
  let cfg := ch_cfg c in
  let tr := block_trace c mg bs in
  wf_cfg cfg -> Forall (fun b => wf_tx (b_tx b)) bs ->
  chained (ch_st c) tr /\
  Forall (fun e => deliver cfg (ts_pre e) (ts_tx e) = (ts_post e, ts_res e) /\
                   tx_clauses cfg (ts_pre e) (ts_tx e) (ts_post e) (ts_res e)) tr /\
  (forall a d, bal (ch_st (fst (run_block c mg bs))) a d
               = bal (ch_st c) a d + zsum (fun e => tx_delta cfg e a d) tr) /\
  (forall a, seqn (ch_st (fst (run_block c mg bs))) a
             = seqn (ch_st c) a + zsum (fun e => tx_seq_delta e a) tr) /\
  ch_cfg (fst (run_block c mg bs)) = cfg.
Proof.
  intros c cfg tr Hc Hw. unfold tr, block_trace.
  pose proof (in_block_wf bs (mempool (ch_cfg c) (ch_st c) bs) Hw) as Hwb.
  split; [apply trace_chained|]. split; [|split; [|split]].
  - pose proof (trace_deliver cfg (in_block bs (mempool (ch_cfg c) (ch_st c) bs)) (ch_st c) mg) as Hd.
    pose proof (trace_clauses cfg _ (ch_st c) mg Hc Hwb) as Hcl.
    rewrite Forall_forall in *. intros e He. split; [apply Hd|apply Hcl]; exact He.
  - exact (proj1 (block_sums cfg (ch_st c) mg _ Hc Hwb)).
  - exact (proj2 (block_sums cfg (ch_st c) mg _ Hc Hwb)).
  - reflexivity.
Qed.

Lemma block_history_covered c0 ops mg bs :
  let c := brun c0 ops in
  wf_cfg (ch_cfg c) -> Forall (fun b => wf_tx (b_tx b)) bs ->
  forall e, In e (block_trace c mg bs) -> ts_res e = ROk ->
  (forall d, amount_of (base_fee (ch_cfg c) (t_gas (ts_tx e))) d + additional (ch_cfg c) (routed_all (ts_tx e)) d
             <= amount_of (t_fee (ts_tx e)) d) /\
  (forall r cu, In r (routed_all (ts_tx e)) -> r_custom r = Some cu ->
     fst (cu_coin cu) = usd_denom (ch_cfg c) \/ fst (cu_coin cu) = conv_denom (ch_cfg c)).
Proof.
  intros c Hc Hw e He Hr. unfold block_trace in He.
  pose proof (in_block_wf bs (mempool (ch_cfg c) (ch_st c) bs) Hw) as Hwb.
  destruct (trace_ok_covered (ch_cfg c) _ (ch_st c) mg Hc Hwb e He Hr) as (Hcov & Hconv).
  split; [exact Hcov|]. intros r cu Hin Hcu. specialize (Hconv r cu Hin Hcu).
  unfold convert in Hconv. destruct (cu_coin cu) as [dn amt]. cbn [fst].
  destruct (N.eqb dn (usd_denom (ch_cfg c))) eqn:E1; [left; apply N.eqb_eq; exact E1|].
  destruct (N.eqb dn (conv_denom (ch_cfg c))) eqn:E2; [right; apply N.eqb_eq; exact E2|]. congruence.
Qed.

(** a failed transaction or proposal leaves schedule, params and every third party's balance alone *)
Lemma failed_tx_third_parties cfg e :
  tx_clauses cfg (ts_pre e) (ts_tx e) (ts_post e) (ts_res e) -> ts_res e <> ROk ->
  forall a d, a <> fee_source (ts_tx e) -> a <> collector -> bal (ts_post e) a d = bal (ts_pre e) a d.
Proof.
  intros H Hr a d Hs Hc. apply N.eqb_neq in Hs, Hc. destruct (ts_res e); cbn [tx_clauses] in H.
  1, 2: rewrite H; reflexivity.
  - destruct H as (Hb & _). rewrite Hb. unfold spec_fail_delta, ind. rewrite Hs, Hc. ring.
  - congruence.
Qed.

Lemma gov_failed_block c v ms mg bs : snd (gov_exec c v ms) = false ->
  run_block (fst (bstep c (OGov v ms))) mg bs = run_block c mg bs.
Proof. intros H. rewrite (gov_failed_step c v ms H). reflexivity. Qed.

Lemma gov_passed_state c v ms : snd (gov_exec c v ms) = true ->
  let c' := fst (bstep c (OGov v ms)) in
  gov_msgs c ms = Some c' /\
  (forall a d, bal (ch_st c') a d = bal (ch_st c) a d + credit_of (gov_moves ms) a d - debit_of (gov_moves ms) a d) /\
  seqn (ch_st c') = seqn (ch_st c) /\ allow (ch_st c') = allow (ch_st c).
Proof.
  intros H c'. destruct (gov_exec_passed c v ms H) as (_ & Hm).
  assert (Hc : c' = fst (gov_exec c v ms)).
  { unfold c'. cbn [bstep]. destruct (gov_exec c v ms) as [x ok]. reflexivity. }
  rewrite Hc. split; [exact Hm|]. apply gov_msgs_state. exact Hm.
Qed.

Lemma deliver_phases_explicit cfg s t s' r :
  deliver cfg s t = (s', r) ->
  (t_gas_out t = GasAnte \/ t_gas_out t = GasBlockFull -> r = RAnteFail /\ s' = s) /\
  (t_gas_out t = GasMsgs \/ t_gas_out t = GasPost ->
     (r = RAnteFail /\ s' = s) \/
     (r = RFailed /\
      (forall a d, bal s' a d = bal s a d
                     - ind (N.eqb a (fee_source t)) (amount_of (base_fee cfg (t_gas t)) d)
                     + ind (N.eqb a collector) (amount_of (base_fee cfg (t_gas t)) d)) /\
      (forall a, seqn s' a = seqn s a + ind (existsb (N.eqb a) (t_signers t)) 1) /\
      (forall g p, (g, p) <> (fee_source t, t_payer t) -> allow s' g p = allow s g p))) /\
  (r = ROk -> t_gas_out t = GasOk).
Proof.
  intros H. destruct (deliver_phases cfg s t s' r H) as (H1 & H2 & H3). split; [exact H1|split; [|exact H3]].
  intros Hg. destruct (H2 Hg) as [Hl|(Hr & Hb & Hs & Ha)]; [left; exact Hl|right].
  split; [exact Hr|split; [|split; [exact Hs|exact Ha]]].
  intros a d. rewrite Hb. unfold spec_fail_delta. ring.
Qed.

(** recheck: the same mempool function under the configuration reached by the history *)
Lemma recheck_rejects c0 ops bs k b :
  let c := brun c0 ops in
  wf_cfg (ch_cfg c) -> Forall (fun b => wf_tx (b_tx b)) bs ->
  nth_error bs k = Some b ->
  ~ covered_pre (ch_cfg c) (b_tx b) (routed_top (b_tx b)) ->
  nth_error (mempool (ch_cfg c) (ch_st c) bs) k <> Some true.
Proof.
  intros c Hc Hw Hb Hn Hadm. apply Hn.
  exact (mempool_admitted_covered (ch_cfg c) bs Hc Hw (ch_st c) k b Hb Hadm).
Qed.
