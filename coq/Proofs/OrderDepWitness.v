(** C01: the order dependence of BuildSettlement is real (existential form of the two witnesses of
    Proofs/OrderDep.v, evaluated with vm_compute on the model). *)
From Coq Require Import ZArith List Bool PArith Permutation.
From PV Require Import Exchange.Arith Exchange.Split Exchange.Fulfill Exchange.SettleSpec
  Proofs.FulfillProofs Proofs.FulfillSums Proofs.OrderDep.
Import ListNotations.
Open Scope Z_scope.

Lemma order_dependence_is_real :
  (exists asks asks' bids s s' f f',
     Permutation asks asks' /\ NoDup (map o_id (asks ++ bids)) /\
     build asks bids (Ok None) = Ok s /\ build asks' bids (Ok None) = Ok s' /\
     s_left s = None /\ s_left s' = None /\
     In f (fills_of s) /\ In f' (fills_of s') /\ fo_order f = fo_order f' /\
     o_ask (fo_order f) = true /\ fo_price f <> fo_price f') /\
  (exists asks asks' bids s,
     Permutation asks asks' /\ NoDup (map o_id (asks ++ bids)) /\
     build asks bids (Ok None) = Ok s /\ s_left s <> None /\ build asks' bids (Ok None) = Err).
Proof.
  split.
  - exists [od_a1; od_a2; od_a3; od_a4], [od_a3; od_a1; od_a2; od_a4], od_bids.
    destruct (build [od_a1; od_a2; od_a3; od_a4] od_bids (Ok None)) as [s| |] eqn:E1;
      [|vm_compute in E1; discriminate|vm_compute in E1; discriminate].
    destruct (build [od_a3; od_a1; od_a2; od_a4] od_bids (Ok None)) as [s'| |] eqn:E2;
      [|vm_compute in E2; discriminate|vm_compute in E2; discriminate].
    vm_compute in E1. vm_compute in E2. injection E1 as <-. injection E2 as <-.
    eexists _, _, {| fo_order := od_a2; fo_price := 13; fo_fees := [] |}, {| fo_order := od_a2; fo_price := 12; fo_fees := [] |}.
    split; [apply Permutation_sym; apply (Permutation_trans (perm_swap od_a1 od_a3 _)); apply perm_skip, perm_swap|].
    split; [vm_compute; repeat constructor; cbn; intros Hin; repeat (destruct Hin as [Hin|Hin]; [discriminate|]); exact Hin|].
    split; [reflexivity|]. split; [reflexivity|]. split; [reflexivity|]. split; [reflexivity|].
    split; [vm_compute; right; left; reflexivity|]. split; [vm_compute; right; right; left; reflexivity|].
    split; [reflexivity|]. split; [reflexivity|]. cbn. discriminate.
  - exists [od_p2; od_p1], [od_p1; od_p2], od_q.
    destruct (build [od_p2; od_p1] od_q (Ok None)) as [s| |] eqn:E1;
      [|vm_compute in E1; discriminate|vm_compute in E1; discriminate].
    vm_compute in E1. injection E1 as <-. eexists.
    split; [apply perm_swap|].
    split; [vm_compute; repeat constructor; cbn; intros Hin; repeat (destruct Hin as [Hin|Hin]; [discriminate|]); exact Hin|].
    split; [reflexivity|]. split; [cbn; discriminate|]. vm_compute. reflexivity.
Qed.
