(** C13, tie to the Go source: the constants translate/exchkeys reads off
    /repo/x/exchange/keeper/keys.go (Gen/GenExchangeKeys.v, regenerated on every run) against the
    reviewed coverage table Exchange/KeyCoverage.v.  Everything here is decided by computation. *)
From Coq Require Import ZArith NArith List String Bool.
From PV Require Import Exchange.KeyTable Exchange.KV Exchange.Index Exchange.Commit
                       Exchange.KeyCoverage Gen.GenExchangeKeys.
Import ListNotations.
Open Scope N_scope.

(** Every constant of keys.go is modelled or listed as out of scope with its current value; no row
    is stale; the modelled bytes are the ones the model definitions use. *)
Lemma exchange_key_prefixes_covered :
  all_covered gen_exchange_key_consts = true /\
  no_stale_rows gen_exchange_key_consts = true /\
  model_bytes_ok = true.
Proof. vm_compute. repeat split; reflexivity. Qed.
Print Assumptions exchange_key_prefixes_covered.

(** [model_bytes_ok] probes each key function at one argument; the first byte does not depend on
    the argument: for ALL arguments the model keys start with the byte the table gives (by name). *)
Lemma model_first_bytes_for_all_arguments :
  (forall id, first_byte (k_order id) = modelled_byte "KeyTypeOrder") /\
  (forall m, first_byte (p_mkt m) = modelled_byte "KeyTypeMarketToOrderIndex") /\
  (forall m id, first_byte (k_mkt m id) = modelled_byte "KeyTypeMarketToOrderIndex") /\
  (forall a, first_byte (p_addr a) = modelled_byte "KeyTypeAddressToOrderIndex") /\
  (forall a id, first_byte (k_addr a id) = modelled_byte "KeyTypeAddressToOrderIndex") /\
  (forall d, first_byte (p_asset d) = modelled_byte "KeyTypeAssetToOrderIndex") /\
  (forall d id, first_byte (k_asset d id) = modelled_byte "KeyTypeAssetToOrderIndex") /\
  (forall m e, first_byte (k_ext m e) = modelled_byte "KeyTypeMarketExternalIDToOrderIndex") /\
  (forall s, first_byte (p_pay_src s) = modelled_byte "KeyTypePayment") /\
  (forall s e, first_byte (k_pay s e) = modelled_byte "KeyTypePayment") /\
  (forall t, first_byte (p_tgt t) = modelled_byte "KeyTypeTargetToPaymentIndex") /\
  (forall t s, first_byte (p_tgt_src t s) = modelled_byte "KeyTypeTargetToPaymentIndex") /\
  (forall t s e, first_byte (k_tgt t s e) = modelled_byte "KeyTypeTargetToPaymentIndex") /\
  (forall o, ty_byte o = if o_bid o then modelled_byte "OrderKeyTypeBid" else modelled_byte "OrderKeyTypeAsk") /\
  (forall m, first_byte (k_known m) = modelled_byte "KeyTypeKnownMarketID") /\
  (forall m, first_byte (p_commit_mkt m) = modelled_byte "KeyTypeCommitment") /\
  (forall m a, first_byte (k_commit m a) = modelled_byte "KeyTypeCommitment") /\
  (forall m, first_byte (k_accepting m) = modelled_byte "KeyTypeMarket") /\
  (forall m, last (k_accepting m) 257 = modelled_byte "MarketKeyTypeAcceptingCommitments").
Proof.
  repeat split; intros; reflexivity.
Qed.
Print Assumptions model_first_bytes_for_all_arguments.

(** No two kinds of entry share a type byte (top level, and below 0x01 | market id). *)
Lemma exchange_type_bytes_distinct : type_bytes_distinct = true.
Proof. vm_compute. reflexivity. Qed.
Print Assumptions exchange_type_bytes_distinct.
