(** Proofs about the byte-level view of the metadata store [PV.Metadata.RefsBytes]: the composite
    of the reference model (Refs.v, interned ids) and the address layout (Address.v, bytes).
      as_scope_*              AsScopeAddress of a session / record id = the scope it is filed under
      record_key_from_session_id
      refs_inv_bytes          C14_refs_inv at byte level
      primary_keys_closed     the primary key set is closed under AsScopeAddress
      sessions_under_exact / records_under_exact   prefix scans = the interned model's filter
      primary_keys_nodup      distinct entries have distinct byte keys
      env_of_len, env_demo    the hypotheses are satisfiable *)
From Coq Require Import ZArith NArith List Bool Lia.
From PV Require Import Metadata.Address Metadata.Refs Metadata.RefsBytes Proofs.AddressProofs Proofs.RefsProofs.
Import ListNotations.

(** * Generic list facts *)
Lemma filter_map_false : forall {A B} (p : B -> bool) (f : A -> B) l,
  (forall x, In x l -> p (f x) = false) -> filter p (map f l) = [].
Proof.
  intros A B p f l. induction l as [|a l IH]; intros H; [reflexivity|].
  cbn [map filter]. rewrite (H a (or_introl eq_refl)). apply IH.
  intros x Hx. apply H. right. exact Hx.
Qed.

Lemma filter_map_iff : forall {A B} (p : B -> bool) (q : A -> bool) (f : A -> B) l,
  (forall x, In x l -> p (f x) = q x) -> filter p (map f l) = map f (filter q l).
Proof.
  intros A B p q f l. induction l as [|a l IH]; intros H; [reflexivity|].
  cbn [map filter]. rewrite (H a (or_introl eq_refl)).
  rewrite IH by (intros x Hx; apply H; right; exact Hx).
  destruct (q a); reflexivity.
Qed.

Lemma NoDup_app_intro : forall {A} (a b : list A),
  NoDup a -> NoDup b -> (forall x, In x a -> In x b -> False) -> NoDup (a ++ b).
Proof.
  intros A a b Ha. induction Ha as [|x a Hx Ha IH]; intros Hb Hd; [exact Hb|].
  cbn [app]. constructor.
  - intros Hin. apply in_app_or in Hin. destruct Hin as [Hin|Hin]; [exact (Hx Hin)|].
    apply (Hd x); [left; reflexivity|exact Hin].
  - apply IH; [exact Hb|]. intros y Hy Hy'. apply (Hd y); [right; exact Hy|exact Hy'].
Qed.

Lemma NoDup_map_via : forall {A B C} (g : A -> B) (f : A -> C) l,
  NoDup (map g l) -> (forall x y, In x l -> In y l -> f x = f y -> g x = g y) ->
  NoDup (map f l).
Proof.
  intros A B C g f l. induction l as [|a l IH]; intros Hn Hi; [constructor|].
  cbn [map] in *. inversion Hn as [|? ? Hnin Hn']; subst. constructor.
  - intros Hin. apply in_map_iff in Hin. destruct Hin as (y & Hy & Hyl).
    apply Hnin. rewrite <- (Hi y a (or_intror Hyl) (or_introl eq_refl) Hy).
    apply in_map. exact Hyl.
  - apply IH; [exact Hn'|]. intros x y Hx Hy. apply Hi; right; assumption.
Qed.

Lemma app_eq_len : forall {A} (a a' b b' : list A),
  length a = length a' -> a ++ b = a' ++ b' -> a = a' /\ b = b'.
Proof.
  intros A a. induction a as [|x a IH]; intros a' b b' Hl H; destruct a' as [|x' a'];
    try discriminate.
  - split; [reflexivity|exact H].
  - cbn [app] in H. injection H as Hx H. cbn [length] in Hl. injection Hl as Hl.
    destruct (IH a' b b' Hl H) as [-> ->]. subst x'. split; reflexivity.
Qed.

Lemma nth_Forall : forall {A} (P : A -> Prop) l d n, Forall P l -> P d -> P (nth n l d).
Proof.
  intros A P l d n Hl Hd. revert n. induction Hl as [|x l Hx Hl IH]; intros n.
  - destruct n; exact Hd.
  - destruct n; [exact Hx|apply IH].
Qed.

(** * Prefix test *)
Lemma is_prefix_cons_same : forall (a : N) p k, is_prefix (a :: p) (a :: k) = is_prefix p k.
Proof. intros a p k. cbn [is_prefix]. rewrite N.eqb_refl. reflexivity. Qed.

Lemma is_prefix_app_same_len : forall p a b, length p = length a ->
  is_prefix p (a ++ b) = true <-> p = a.
Proof.
  intros p. induction p as [|x p IH]; intros a b Hl; destruct a as [|y a]; try discriminate.
  - split; reflexivity.
  - cbn [length] in Hl. injection Hl as Hl. cbn [app is_prefix]. split.
    + intros H. apply andb_true_iff in H. destruct H as [H1 H2]. apply N.eqb_eq in H1.
      apply (IH a b Hl) in H2. subst. reflexivity.
    + intros H. injection H as -> ->. rewrite N.eqb_refl. cbn [andb]. apply (IH a b Hl). reflexivity.
Qed.

(** * Addresses *)
Lemma scope_uuid_cons : forall (b : N) r, (b = 0 \/ b = 1 \/ b = 2)%N -> (16 <= length r)%nat ->
  scope_uuid (b :: r) = Some (bytes_1_17 (b :: r)).
Proof.
  intros b r Hb Hl. unfold scope_uuid, primary_uuid.
  assert (H1 : is_type_one_of (b :: r) [TScope; TSession; TRecord] = true)
    by (destruct Hb as [->|[->| ->]]; reflexivity).
  assert (H2 : is_type_one_of (b :: r) all_types = true)
    by (destruct Hb as [->|[->| ->]]; reflexivity).
  rewrite H1, H2. cbn [negb length].
  destruct (Nat.ltb_spec (S (length r)) 1%nat); [lia|].
  destruct (Nat.ltb_spec (S (length r)) 17%nat); [lia|]. reflexivity.
Qed.

Lemma as_scope_one : forall u, length u = 16%nat ->
  as_scope_address (0%N :: u) = Some (scope_addr u).
Proof.
  intros u Hu. unfold as_scope_address. rewrite scope_uuid_cons; [|left; reflexivity|lia].
  rewrite b117_one by exact Hu. reflexivity.
Qed.

Lemma as_scope_two : forall (b : N) p q, (b = 1 \/ b = 2)%N -> length p = 16%nat ->
  as_scope_address (b :: p ++ q) = Some (scope_addr p).
Proof.
  intros b p q Hb Hp. unfold as_scope_address.
  rewrite scope_uuid_cons; [|right; exact Hb|rewrite app_length; lia].
  rewrite b117_two by exact Hp. reflexivity.
Qed.

Lemma as_scope_session_key : forall e s, env_len e ->
  as_scope_address (session_key e s) = Some (scope_key e (se_scope s)).
Proof.
  intros e s (Hs & Hss & Hn). unfold session_key, session_addr, scope_key. cbn [type_byte].
  apply as_scope_two; [left; reflexivity|apply Hs].
Qed.
Print Assumptions as_scope_session_key.

Lemma as_scope_record_key : forall e r, env_len e ->
  as_scope_address (record_key e r) = Some (scope_key e (r_scope r)).
Proof.
  intros e r (Hs & Hss & Hn). unfold record_key, scope_key. cbn [type_byte].
  apply as_scope_two; [right; reflexivity|apply Hs].
Qed.
Print Assumptions as_scope_record_key.

Lemma as_scope_record_session_id : forall e r, env_len e ->
  as_scope_address (record_session_id e r) = Some (scope_key e (r_scope r)).
Proof.
  intros e r (Hs & Hss & Hn). unfold record_session_id, session_addr, scope_key. cbn [type_byte].
  apply as_scope_two; [left; reflexivity|apply Hs].
Qed.
Print Assumptions as_scope_record_session_id.

Lemma record_key_from_session_id : forall e r, env_len e ->
  record_key e r = type_byte TRecord :: bytes_1_17 (record_session_id e r) ++ e_name e (r_name r).
Proof.
  intros e r (Hs & Hss & Hn). unfold record_key, record_session_id, session_addr.
  rewrite b117_two by apply Hs. reflexivity.
Qed.
Print Assumptions record_key_from_session_id.

Lemma as_scope_scope_key : forall e id, env_len e -> as_scope_address (scope_key e id) = Some (scope_key e id).
Proof.
  intros e id (Hs & Hss & Hn). unfold scope_key, scope_addr at 1. cbn [type_byte].
  apply as_scope_one, Hs.
Qed.
Print Assumptions as_scope_scope_key.

Lemma is_type_scope_key : forall e id, env_len e -> is_type TScope (scope_key e id) = true.
Proof.
  intros e id (Hs & Hss & Hn). unfold is_type, verify_format, scope_key, scope_addr.
  cbn [type_byte type_of_byte required_len]. rewrite len_one by apply Hs. reflexivity.
Qed.

Lemma In_scope_key : forall e st sc, In sc (scopes st) -> In (scope_key e (sc_id sc)) (primary_keys e st).
Proof.
  intros e st sc H. unfold primary_keys. apply in_or_app. left.
  apply (in_map (fun s => scope_key e (sc_id s))). exact H.
Qed.

Lemma In_session_key : forall e st s, In s (sessions st) -> In (session_key e s) (primary_keys e st).
Proof.
  intros e st s H. unfold primary_keys. apply in_or_app. right. apply in_or_app. left.
  apply in_map. exact H.
Qed.

Lemma In_record_key : forall e st r, In r (records st) -> In (record_key e r) (primary_keys e st).
Proof.
  intros e st r H. unfold primary_keys. apply in_or_app. right. apply in_or_app. right.
  apply in_map. exact H.
Qed.

(** C14_refs_inv at byte level, for the composite model *)
Lemma refs_inv_bytes : forall e ops, env_len e -> forallb guarded ops = true ->
  let st := run ops in let K := primary_keys e st in
  (forall s, In s (sessions st) ->
     exists p, as_scope_address (session_key e s) = Some p /\ In p K /\ is_type TScope p = true) /\
  (forall r, In r (records st) ->
     exists p, as_scope_address (record_key e r) = Some p /\ In p K /\ is_type TScope p = true /\
               In (record_session_id e r) K /\ as_scope_address (record_session_id e r) = Some p).
Proof.
  intros e ops He Hg st K. destruct (refs_inv ops Hg) as [HS HR]. fold st in HS, HR. split.
  - intros s Hs. destruct (HS s Hs) as (sc & Hsc & Hid).
    exists (scope_key e (se_scope s)). split; [apply as_scope_session_key, He|].
    split; [|apply is_type_scope_key, He].
    rewrite <- Hid. apply In_scope_key, Hsc.
  - intros r Hr. destruct (HR r Hr) as ((sc & Hsc & Hid) & (s & Hs & Hs1 & Hs2)).
    exists (scope_key e (r_scope r)). split; [apply as_scope_record_key, He|].
    split; [rewrite <- Hid; apply In_scope_key, Hsc|].
    split; [apply is_type_scope_key, He|].
    split; [|apply as_scope_record_session_id, He].
    replace (record_session_id e r) with (session_key e s).
    + apply In_session_key, Hs.
    + unfold session_key, record_session_id. rewrite Hs1, Hs2. reflexivity.
Qed.
Print Assumptions refs_inv_bytes.

(** the primary key set is closed under AsScopeAddress *)
Lemma primary_keys_closed : forall e ops, env_len e -> forallb guarded ops = true ->
  let K := primary_keys e (run ops) in
  forall k p, In k K -> as_scope_address k = Some p -> In p K.
Proof.
  intros e ops He Hg K k p Hk Hp. destruct (refs_inv_bytes e ops He Hg) as [HS HR].
  unfold K, primary_keys in Hk. apply in_app_or in Hk. destruct Hk as [Hk|Hk].
  - apply in_map_iff in Hk. destruct Hk as (sc & <- & Hsc).
    rewrite as_scope_scope_key in Hp by exact He. injection Hp as <-.
    apply In_scope_key, Hsc.
  - apply in_app_or in Hk. destruct Hk as [Hk|Hk]; apply in_map_iff in Hk.
    + destruct Hk as (s & <- & Hs). destruct (HS s Hs) as (p' & Hp' & Hin & _).
      rewrite Hp' in Hp. injection Hp as <-. exact Hin.
    + destruct Hk as (r & <- & Hr). destruct (HR r Hr) as (p' & Hp' & Hin & _).
      rewrite Hp' in Hp. injection Hp as <-. exact Hin.
Qed.
Print Assumptions primary_keys_closed.

(** * Prefix scans *)
Lemma session_prefix_scope_key : forall e id, env_len e ->
  scope_session_prefix (scope_key e id) = Some (1%N :: e_scope e id).
Proof.
  intros e id (Hs & Hss & Hn). unfold scope_key, scope_addr, scope_session_prefix.
  cbn [type_byte]. rewrite len_one by apply Hs. rewrite b117_one by apply Hs. reflexivity.
Qed.

Lemma record_prefix_scope_key : forall e id, env_len e ->
  scope_record_prefix (scope_key e id) = Some (2%N :: e_scope e id).
Proof.
  intros e id (Hs & Hss & Hn). unfold scope_key, scope_addr, scope_record_prefix.
  cbn [type_byte]. rewrite len_one by apply Hs. rewrite b117_one by apply Hs. reflexivity.
Qed.

Lemma prefix_eqb : forall e id x q, env_len e -> inj_on [id; x] (e_scope e) ->
  is_prefix (e_scope e id) (e_scope e x ++ q) = (x =? id)%Z.
Proof.
  intros e id x q (Hs & Hss & Hn) Hinj.
  assert (Hl : length (e_scope e id) = length (e_scope e x)) by (rewrite !Hs; reflexivity).
  destruct (Z.eqb_spec x id) as [->|Hne].
  - apply is_prefix_app_same_len; reflexivity.
  - destruct (is_prefix (e_scope e id) (e_scope e x ++ q)) eqn:E; [|reflexivity].
    apply is_prefix_app_same_len in E; [|exact Hl].
    exfalso. apply Hne. symmetry. apply Hinj; [left; reflexivity|right; left; reflexivity|exact E].
Qed.

Lemma sessions_under_exact : forall e st id, env_len e ->
  inj_on (id :: map se_scope (sessions st)) (e_scope e) ->
  sessions_under (scope_key e id) (primary_keys e st) =
  map (session_key e) (filter (fun s => se_scope s =? id)%Z (sessions st)).
Proof.
  intros e st id He Hinj. unfold sessions_under. rewrite session_prefix_scope_key by exact He.
  unfold scan, primary_keys. rewrite !filter_app.
  rewrite filter_map_false by (intros x _; reflexivity).
  rewrite (filter_map_false _ (record_key e)) by (intros x _; reflexivity).
  rewrite app_nil_r. cbn [app].
  apply filter_map_iff. intros s Hs. unfold session_key, session_addr. cbn [type_byte].
  rewrite is_prefix_cons_same. apply prefix_eqb; [exact He|].
  intros a b Ha Hb. apply Hinj.
  - destruct Ha as [<-|[<-|[]]]; [left; reflexivity|right; apply in_map, Hs].
  - destruct Hb as [<-|[<-|[]]]; [left; reflexivity|right; apply in_map, Hs].
Qed.
Print Assumptions sessions_under_exact.

Lemma records_under_exact : forall e st id, env_len e ->
  inj_on (id :: map r_scope (records st)) (e_scope e) ->
  records_under (scope_key e id) (primary_keys e st) =
  map (record_key e) (filter (fun r => r_scope r =? id)%Z (records st)).
Proof.
  intros e st id He Hinj. unfold records_under. rewrite record_prefix_scope_key by exact He.
  unfold scan, primary_keys. rewrite !filter_app.
  rewrite filter_map_false by (intros x _; reflexivity).
  rewrite (filter_map_false _ (session_key e)) by (intros x _; reflexivity).
  cbn [app].
  apply filter_map_iff. intros r Hr. unfold record_key. cbn [type_byte].
  rewrite is_prefix_cons_same. apply prefix_eqb; [exact He|].
  intros a b Ha Hb. apply Hinj.
  - destruct Ha as [<-|[<-|[]]]; [left; reflexivity|right; apply in_map, Hr].
  - destruct Hb as [<-|[<-|[]]]; [left; reflexivity|right; apply in_map, Hr].
Qed.
Print Assumptions records_under_exact.

(** * Distinct entries, distinct keys *)
Lemma hd_scope_keys : forall e l k, In k (map (fun s => scope_key e (sc_id s)) l) -> hd 9%N k = 0%N.
Proof. intros e l k H. apply in_map_iff in H. destruct H as (x & <- & _). reflexivity. Qed.
Lemma hd_session_keys : forall e l k, In k (map (session_key e) l) -> hd 9%N k = 1%N.
Proof. intros e l k H. apply in_map_iff in H. destruct H as (x & <- & _). reflexivity. Qed.
Lemma hd_record_keys : forall e l k, In k (map (record_key e) l) -> hd 9%N k = 2%N.
Proof. intros e l k H. apply in_map_iff in H. destruct H as (x & <- & _). reflexivity. Qed.

Lemma primary_keys_nodup : forall e ops, env_len e -> let st := run ops in
  inj_on (map sc_id (scopes st) ++ map se_scope (sessions st) ++ map r_scope (records st)) (e_scope e) ->
  inj_on (map se_uuid (sessions st)) (e_sess e) -> inj_on (map r_name (records st)) (e_name e) ->
  NoDup (primary_keys e st).
Proof.
  intros e ops (Hs & Hss & Hn) st Hi1 Hi2 Hi3.
  destruct (keys_unique ops) as (U1 & U2 & U3 & _). fold st in U1, U2, U3.
  unfold primary_keys. apply NoDup_app_intro; [| apply NoDup_app_intro |].
  - apply (NoDup_map_via sc_id); [exact U1|]. intros x y Hx Hy H.
    unfold scope_key, scope_addr in H. injection H as H. apply Hi1; [| |exact H].
    + apply in_or_app. left. apply in_map, Hx.
    + apply in_or_app. left. apply in_map, Hy.
  - apply (NoDup_map_via (fun s => (se_scope s, se_uuid s))); [exact U2|]. intros x y Hx Hy H.
    unfold session_key, session_addr in H. injection H as H.
    apply app_eq_len in H; [|rewrite !Hs; reflexivity]. destruct H as [H1 H2].
    f_equal.
    + apply Hi1; [| |exact H1]; apply in_or_app; right; apply in_or_app; left;
        apply (in_map se_scope); assumption.
    + apply Hi2; [| |exact H2]; apply (in_map se_uuid); assumption.
  - apply (NoDup_map_via (fun r => (r_scope r, r_name r))); [exact U3|]. intros x y Hx Hy H.
    unfold record_key in H. injection H as H.
    apply app_eq_len in H; [|rewrite !Hs; reflexivity]. destruct H as [H1 H2].
    f_equal.
    + apply Hi1; [| |exact H1]; apply in_or_app; right; apply in_or_app; right;
        apply (in_map r_scope); assumption.
    + apply Hi3; [| |exact H2]; apply (in_map r_name); assumption.
  - intros k H1 H2. apply hd_session_keys in H1. apply hd_record_keys in H2.
    rewrite H1 in H2. discriminate.
  - intros k H1 H2. apply hd_scope_keys in H1. apply in_app_or in H2. destruct H2 as [H2|H2].
    + apply hd_session_keys in H2. rewrite H1 in H2. discriminate.
    + apply hd_record_keys in H2. rewrite H1 in H2. discriminate.
Qed.
Print Assumptions primary_keys_nodup.

(** * The hypotheses are satisfiable *)
Lemma nthb_len : forall l i, Forall (fun b => length b = 16%nat) l -> length (nthb zero16 l i) = 16%nat.
Proof.
  intros l i H. unfold nthb. apply (nth_Forall (fun b : list N => length b = 16%nat)); [exact H|reflexivity].
Qed.

Lemma env_of_len : forall scopes sess sspecs cspecs names accts denoms,
  Forall (fun b => length b = 16%nat) scopes -> Forall (fun b => length b = 16%nat) sess ->
  Forall (fun b => length b = 16%nat) names ->
  env_len (env_of scopes sess sspecs cspecs names accts denoms).
Proof.
  intros scopes sess sspecs cspecs names accts denoms H1 H2 H3. unfold env_len, env_of.
  cbn [e_scope e_sess e_name].
  split; [|split]; intros i; apply nthb_len; assumption.
Qed.
Print Assumptions env_of_len.

Definition demo_uuids : list (list N) := [repeat 1%N 16; repeat 2%N 16; repeat 3%N 16].

Example env_demo : exists e, env_len e /\
  inj_on [1;2;3]%Z (e_scope e) /\ inj_on [1;2;3]%Z (e_sess e) /\ inj_on [1;2;3]%Z (e_name e).
Proof.
  exists (env_of demo_uuids demo_uuids [] [] demo_uuids [] []).
  split.
  - apply env_of_len; repeat constructor.
  - split; [|split]; intros a b Ha Hb H;
      destruct Ha as [<-|[<-|[<-|[]]]]; destruct Hb as [<-|[<-|[<-|[]]]];
      try reflexivity; exfalso; vm_compute in H; discriminate.
Qed.
Print Assumptions env_demo.
